import TLX.Props.C02AllFile
set_option autoImplicit false
set_option linter.unusedSimpArgs false
set_option linter.unusedVariables false
/-! # C02, all together — `quic_capture_exact_all`

ONE theorem from the bytes of a capture file and the text of a key-log file to the bytes of the output file, combining what
existed separately: file level among other QUIC / TLS traffic (`C02File2`, separation on the CAPTURE: `ExportDemux`), one
interleaved history (`C02Capstone3`), 0-RTT anywhere — exported or, for the wrong suite, missing (`C02Capstone4`, `C02Zr2`) —,
a Retry before the handshake (`C02Capstone.quic_connection_exact_retry`), hypotheses in RFC / file terms (`C02Rfc`), and no
write-abort alternative under explicit ranges on ALL exported frames.

  `QuicCaptureAll`            every hypothesis, classified in the structure's comments
  `quic_capture_exact_all`    the theorem; `quic_capture_all_ranges`: without the write-abort alternative
  `blockAll`                  the demanded block in the senders' terms
  `session_of_all`            the connection's ONE session in `quic_sessions` and its export
  `capture_session_gen`, `retry_prefix`, `mix_of_rfc`, `no_abort_of_all_fit`   the parts

REMAINING CONDITIONS, classified (fields of `QuicCaptureAll`):
  RFC-given           hsOk, tls13 / suite / tls13R / suiteR (registry), saLen / caLen, described (RFC 9000 / 9001 wire
                      format), retryOk, mixDgs / send1 (packet-number windows, frame types, header protection of the suite,
                      Handshake packets after the ServerHello, 1-RTT key generation 0 before the handshake is done …), mixIns
  key-log FILE        linesWf, lineCH … lineE, onlyCH … onlyE (the five NSS lines; no other secret for the same label/random)
  C02's quantifier    distinct (consecutive exported datagrams told apart by (µs, direction)), times (no −1.0 time stamp)
  options             noc, nometa, pmOk, portsOk, endpoints, clientPort
  capture shape       noiseR / noiseA / phaseA / phaseB (what stands where), fromClient, firstLong, sepOwn / sepOther
                      (other QUIC connections separated on the capture)
  recorded limits     routesA / routesB (longest-known-CID routing, `RouteOk`); `HsPkR.late` inside mixDgs (no client Initial
                      with CRYPTO after the ServerHello); `YDgR.early` (every 0-RTT packet comes after the ClientHello is
                      complete: `EarlyAt`; before that the tool has no Early key — open finding `early-data-lost`);
                      the first attempt before a Retry is ONE datagram
  primitive laws      lawful, sha256, outLen; for wrong-suite 0-RTT packets `RejectedT` (AEAD authenticity) inside mixDgs
Core Lean only. -/
namespace TLX.Props.C02All
open TLX TLX.MainLoop TLX.Spec.Demux TLX.Lemmas.MainLoop TLX.Dissect TLX.OutBytes
open TLX.Container (Item)
open TLX.Props.C01File TLX.Spec.FrameBuild TLX.Spec.TlsCapture TLX.Spec.QuicCapture TLX.Props.C12Dissect
open TLX.Spec.QuicSender TLX.Spec.QuicConnection TLX.Spec.QuicPackets TLX.QuicPipeline TLX.Props.C02Capstone
open TLX.Props.C02File TLX.Props.C02Capstone3 TLX.Props.C02File2 TLX.Props.C02Zr

/-! ### phases of the described capture -/
section Phases

def isNoise : QEv3 → Bool | .other _ | .foreign _ => true | _ => false
def okA : QEv3 → Bool | .mix .. | .other _ | .foreign _ => true | _ => false
def okB : QEv3 → Bool | .one .. | .other _ | .foreign _ => true | _ => false

def mixItems3 (fl : Flow) (kl : List Keylog.Key) : Nat → List QEv3 → List (List Keylog.Key × MainLoop.Pkt × DgY)
  | _, [] => []
  | n, .mix _ _ u d :: rest => (kl, dgPkt fl d.x.base.srv u.payload n, d) :: mixItems3 fl kl (n + 1) rest
  | n, _ :: rest => mixItems3 fl kl (n + 1) rest

def oneItems3 (fl : Flow) : Nat → List QEv3 → List (MainLoop.Pkt × Dg1)
  | _, [] => []
  | n, .one _ _ u d :: rest => (dgPkt fl d.x.srv u.payload n, d) :: oneItems3 fl (n + 1) rest
  | n, _ :: rest => oneItems3 fl (n + 1) rest

/-- the datagrams of the interleaved part / of the 1-RTT-only part, in capture order -/
def mixOf : List QEv3 → List DgY
  | [] => []
  | .mix _ _ _ d :: rest => d :: mixOf rest
  | _ :: rest => mixOf rest

def onesOf3 : List QEv3 → List Dg1
  | [] => []
  | .one _ _ _ d :: rest => d :: onesOf3 rest
  | _ :: rest => onesOf3 rest

theorem mixItems3_dgs (fl : Flow) (kl : List Keylog.Key) (n : Nat) (evs : List QEv3) :
    (mixItems3 fl kl n evs).map (·.2.2) = mixOf evs := by
  induction evs generalizing n with
  | nil => rfl
  | cons ev rest ih => cases ev <;> simp [mixItems3, mixOf, ih]

theorem oneItems3_dgs (fl : Flow) (n : Nat) (evs : List QEv3) : (oneItems3 fl n evs).map (·.2) = onesOf3 evs := by
  induction evs generalizing n with
  | nil => rfl
  | cons ev rest ih => cases ev <;> simp [oneItems3, onesOf3, ih]

theorem ownIn_noise (fl : Flow) (kl : List Keylog.Key) (n : Nat) (evs : List QEv3) (h : ∀ ev ∈ evs, isNoise ev = true) :
    ownIn fl kl n evs = [] ∧ mixItems3 fl kl n evs = [] := by
  induction evs generalizing n with
  | nil => exact ⟨rfl, rfl⟩
  | cons ev rest ih =>
    have h1 := h ev (List.mem_cons_self ..)
    have := ih (n + 1) (fun e he => h e (List.mem_cons_of_mem _ he))
    cases ev <;> first | (simp [isNoise, okA] at h1; done) | simpa [ownIn, QEv3.own, mixItems3] using this

theorem ownIn_phaseA (fl : Flow) (kl : List Keylog.Key) (n : Nat) (evs : List QEv3) (h : ∀ ev ∈ evs, okA ev = true) :
    ownIn fl kl n evs = (mixItems3 fl kl n evs).map fun x => (⟨x.1, hdrX x.2.2.x, x.2.1⟩ : QIn Keylog.Key) := by
  induction evs generalizing n with
  | nil => rfl
  | cons ev rest ih =>
    have h1 := h ev (List.mem_cons_self ..)
    have := ih (n + 1) (fun e he => h e (List.mem_cons_of_mem _ he))
    cases ev <;> first | (simp [isNoise, okA] at h1; done) | simpa [ownIn, QEv3.own, mixItems3] using this

theorem ownIn_phaseB (fl : Flow) (kl : List Keylog.Key) (n : Nat) (evs : List QEv3) (h : ∀ ev ∈ evs, okB ev = true) :
    ownIn fl kl n evs = (oneItems3 fl n evs).map fun x => (⟨kl, .short, x.1⟩ : QIn Keylog.Key) := by
  induction evs generalizing n with
  | nil => rfl
  | cons ev rest ih =>
    have h1 := h ev (List.mem_cons_self ..)
    have := ih (n + 1) (fun e he => h e (List.mem_cons_of_mem _ he))
    cases ev <;> first | (simp [okB] at h1; done) | simpa [ownIn, QEv3.own, oneItems3] using this

theorem mixItems3_mem (fl : Flow) (kl : List Keylog.Key) (evs : List QEv3) (n : Nat)
    (x : List Keylog.Key × MainLoop.Pkt × DgY) (hx : x ∈ mixItems3 fl kl n evs) :
    ∃ i t fr u, evs[i]? = some (.mix t fr u x.2.2) ∧ x = (kl, dgPkt fl x.2.2.x.base.srv u.payload (n + i), x.2.2) := by
  induction evs generalizing n with
  | nil => cases hx
  | cons ev rest ih =>
    have step : x ∈ mixItems3 fl kl (n + 1) rest →
        ∃ i t fr u, (ev :: rest)[i]? = some (.mix t fr u x.2.2) ∧
          x = (kl, dgPkt fl x.2.2.x.base.srv u.payload (n + i), x.2.2) := by
      intro hx'
      obtain ⟨i, t', fr', u', h1, h2⟩ := ih (n + 1) hx'
      exact ⟨i + 1, t', fr', u', by simpa using h1, by rw [h2, show n + 1 + i = n + (i + 1) by omega]⟩
    cases ev with
    | mix t fr u d =>
      simp only [mixItems3, List.mem_cons] at hx
      rcases hx with rfl | hx
      · exact ⟨0, t, fr, u, rfl, rfl⟩
      · exact step hx
    | pre _ _ _ _ => exact step (by simpa [mixItems3] using hx)
    | retry _ _ _ _ => exact step (by simpa [mixItems3] using hx)
    | one _ _ _ _ => exact step (by simpa [mixItems3] using hx)
    | other _ => exact step (by simpa [mixItems3] using hx)
    | foreign _ => exact step (by simpa [mixItems3] using hx)

theorem oneItems3_mem (fl : Flow) (evs : List QEv3) (n : Nat) (x : MainLoop.Pkt × Dg1) (hx : x ∈ oneItems3 fl n evs) :
    ∃ i t fr u, evs[i]? = some (.one t fr u x.2) ∧ x = (dgPkt fl x.2.x.srv u.payload (n + i), x.2) := by
  induction evs generalizing n with
  | nil => cases hx
  | cons ev rest ih =>
    have step : x ∈ oneItems3 fl (n + 1) rest →
        ∃ i t fr u, (ev :: rest)[i]? = some (.one t fr u x.2) ∧ x = (dgPkt fl x.2.x.srv u.payload (n + i), x.2) := by
      intro hx'
      obtain ⟨i, t', fr', u', h1, h2⟩ := ih (n + 1) hx'
      exact ⟨i + 1, t', fr', u', by simpa using h1, by rw [h2, show n + 1 + i = n + (i + 1) by omega]⟩
    cases ev with
    | one t fr u d =>
      simp only [oneItems3, List.mem_cons] at hx
      rcases hx with rfl | hx
      · exact ⟨0, t, fr, u, rfl, rfl⟩
      · exact step hx
    | pre _ _ _ _ => exact step (by simpa [oneItems3] using hx)
    | retry _ _ _ _ => exact step (by simpa [oneItems3] using hx)
    | mix _ _ _ _ => exact step (by simpa [oneItems3] using hx)
    | other _ => exact step (by simpa [oneItems3] using hx)
    | foreign _ => exact step (by simpa [oneItems3] using hx)

/-- a described capture: every datagram of the connection with the frame of the independent encoder that carries it, its UDP
    part and the reader's time; `wA` / `wX` / `w1`: the wire bytes of the first attempt, of the interleaved part, of the
    1-RTT-only part -/
def QDescribed3 (fl : Flow) (wA : DgH → Bytes) (wX : DgX → Bytes) (w1 : Dg1 → Bytes) (o : Opts) (evs : List QEv3) : Prop :=
  ∀ ev ∈ evs, match ev with
    | .pre t fr u d => IsDg fl d.srv fr u ∧ u.payload = wA d ∧ d.ts = Container.usOfFloat t.toFloat ∧ HdrOk d
    | .retry _ fr u r => IsDg fl true fr u ∧ u.payload = r.encode ∧ r.wf ∧ r.version = [0, 0, 0, 1] ∧ r.scid.length ≤ 63
    | .mix t fr u d => IsDg fl d.x.base.srv fr u ∧ u.payload = wX d.x ∧ d.x.base.ts = Container.usOfFloat t.toFloat ∧
        HdrOkX d.x
    | .one t fr u d => IsDg fl d.x.srv fr u ∧ u.payload = w1 d ∧ d.x.ts = Container.usOfFloat t.toFloat ∧
        1 ≤ d.x.pnLen ∧ d.x.pnLen ≤ 4
    | .other e => dissect e.buf = .ok e.d
    | .foreign e => dissect e.buf = .ok e.d ∧ ∀ tag, NotQuic o (pktOf tag e.d)

end Phases
section Carry3
open TLX.Quic.Session TLX.Cipher TLX.Spec.KeySchedules TLX.Props.C02Capstone4
variable (H : Crypto.Prims) (Pc : Cipher.Prims)

theorem evBase_of_described (fl : Flow) (L : SealLaws Pc) (dcidA dcid0 : Bytes) (sel selR : SuiteSel)
    (sh ch sa ca e : Bytes) (o : Opts) (evs : List QEv3)
    (hd : QDescribed3 fl (dgWire H Pc L dcidA sel sh ch) (DgX.wire H Pc L dcid0 sel selR sh ch sa ca e)
      (wireOf H Pc L sel .v1 (rfcGen (hashOf H sel.hash) sel.keyLen sa ca 0)) o evs) :
    ∀ ev ∈ evs, EvBase fl o ev := by
  intro ev hev
  have := hd ev hev
  cases ev with
  | pre t fr u d =>
    obtain ⟨h1, h2, _, h4⟩ := this
    obtain ⟨b0, r, hw, hf, hp⟩ := hsHeader_dgWire H Pc L dcidA sel sh ch d h4
    exact ⟨h1, b0, r, by rw [h2, hw], hf, hp⟩
  | retry t fr u r =>
    obtain ⟨h1, h2, h3, h4, h5⟩ := this
    obtain ⟨b0, rest, hw, hf, hp⟩ := retry_wire_header r h4 h3.1 h3.2.2.1 h5
    exact ⟨h1, b0, rest, by rw [h2, hw], hf, hp⟩
  | mix t fr u d =>
    obtain ⟨h1, h2, _, h4⟩ := this
    obtain ⟨b0, r, hw, hf, hp⟩ := xHeader_wire H Pc L dcid0 sel selR sh ch sa ca e d.x h4
    exact ⟨h1, b0, r, by rw [h2, hw], hf, hp⟩
  | one t fr u d =>
    obtain ⟨h1, h2, _, h4, h5⟩ := this
    obtain ⟨b0, r, hw, hf, hp⟩ := oneHeader_wireOf H Pc L sel .v1 _ d h4 h5
    exact ⟨h1, b0, r, by rw [h2, hw], hf, hp⟩
  | other e => exact this
  | foreign e => exact this

theorem carriesX_of_described (fl : Flow) (hne : clientEp fl ≠ serverEp fl) (wA : DgH → Bytes) (wX : DgX → Bytes)
    (w1 : Dg1 → Bytes) (o : Opts) (kl : List Keylog.Key) (evs : List QEv3) (hd : QDescribed3 fl wA wX w1 o evs)
    (full : List CapEv) (off : Nat) (hfull : ∀ i ev, evs[i]? = some ev → full[off + i]? = some ev.cap)
    (c : QConn) (hc : c.client = clientEp fl) :
    ∀ x ∈ mixItems3 fl kl off evs, x.1 = kl ∧ CarriesX (capInfo full) c wX x.2.1 x.2.2.x ∧
      x.2.1 = dgPkt fl x.2.2.x.base.srv (wX x.2.2.x) x.2.1.tag := by
  intro x hx
  obtain ⟨i, t, fr, u, hi, hxe⟩ := mixItems3_mem fl kl evs off x hx
  have hmem : QEv3.mix t fr u x.2.2 ∈ evs := List.mem_of_getElem? hi
  obtain ⟨hdg, hpay, hts, _⟩ := hd _ hmem
  have hinfo := capInfo_at full (off + i) _ (hfull i _ hi)
  simp only [QEv3.cap] at hinfo
  have hx1 : x.2.1 = dgPkt fl x.2.2.x.base.srv u.payload (off + i) := by rw [hxe]
  refine ⟨by rw [hxe], ⟨by rw [hx1]; exact hpay, ?_, ?_⟩, by rw [hx1, hpay]; rfl⟩
  · rw [hx1]
    show (capInfo full (off + i)).ts = _
    rw [hinfo, infoOf_dg fl _ fr u hdg]
    exact hts.symm
  · rw [hx1, hc]; exact dgPkt_src_client fl hne _ _ _

theorem carries1_of_described (fl : Flow) (hne : clientEp fl ≠ serverEp fl) (wA : DgH → Bytes) (wX : DgX → Bytes)
    (w1 : Dg1 → Bytes) (o : Opts) (evs : List QEv3) (hd : QDescribed3 fl wA wX w1 o evs)
    (full : List CapEv) (off : Nat) (hfull : ∀ i ev, evs[i]? = some ev → full[off + i]? = some ev.cap)
    (c : QConn) (hc : c.client = clientEp fl) :
    ∀ x ∈ oneItems3 fl off evs, Carries (capInfo full) c w1 x.1 x.2 ∧ x.1 = dgPkt fl x.2.x.srv (w1 x.2) x.1.tag := by
  intro x hx
  obtain ⟨i, t, fr, u, hi, hxe⟩ := oneItems3_mem fl evs off x hx
  have hmem : QEv3.one t fr u x.2 ∈ evs := List.mem_of_getElem? hi
  obtain ⟨hdg, hpay, hts, _⟩ := hd _ hmem
  have hinfo := capInfo_at full (off + i) _ (hfull i _ hi)
  simp only [QEv3.cap] at hinfo
  have hx1 : x.1 = dgPkt fl x.2.x.srv u.payload (off + i) := by rw [hxe]
  refine ⟨⟨by rw [hx1]; exact hpay, ?_, ?_⟩, by rw [hx1, hpay]; rfl⟩
  · rw [hx1]
    show (capInfo full (off + i)).ts = _
    rw [hinfo, infoOf_dg fl _ fr u hdg]
    exact hts.symm
  · rw [hx1, hc]; exact dgPkt_src_client fl hne _ _ _

end Carry3

/-! ### the session of the connection in `quic_sessions` -/
section Session3
open TLX.Export TLX.Quic.Session TLX.Cipher TLX.Props.C02Session TLX.Spec.KeySchedules TLX.Props.C02Capstone4
variable (maskFn : Quic.Dissect.MaskFn) (H : Crypto.Prims) (Pc : Cipher.Prims)

/-- the other connections stay apart: the own run's single session stands among theirs -/
theorem among_others {κ τ ο : Type} (M : QuicMachine κ τ ο) (o : Opts) {A B C : List (QIn κ)} (hm : Merge A B C)
    (hAB : QuicSeparated M o A B) (hBA : QuicSeparated M o B A) (sess : QuicSess τ) (hown : quicRun M o [] A = [sess]) :
    ∃ S1 S2, quicRun M o [] C = S1 ++ [sess] ++ S2 := by
  have hmerge := C04.quic_route_exact M o hm hAB hBA
  rw [hown] at hmerge
  exact merge_singleton hmerge

theorem getElem_mid {α : Type} (a : List α) (x : α) (b c : List α) :
    (∀ i ev, (a ++ x :: b)[i]? = some ev → ((a ++ x :: b) ++ c)[0 + i]? = some ev) ∧
    (∀ i ev, b[i]? = some ev → ((a ++ x :: b) ++ c)[a.length + 1 + i]? = some ev) ∧
    (∀ i ev, c[i]? = some ev → ((a ++ x :: b) ++ c)[(a ++ x :: b).length + i]? = some ev) ∧
    ((a ++ x :: b) ++ c)[a.length]? = some x := by
  refine ⟨?_, ?_, ?_, ?_⟩
  · intro i ev h
    rw [Nat.zero_add, List.getElem?_append_left (List.getElem?_eq_some_iff.mp h).1, h]
  · intro i ev h
    have hl := (List.getElem?_eq_some_iff.mp h).1
    rw [List.getElem?_append_left (by simp; omega), List.getElem?_append_right (by omega)]
    have : a.length + 1 + i - a.length = i + 1 := by omega
    rw [this, List.getElem?_cons_succ, h]
  · intro i ev h
    rw [List.getElem?_append_right (by omega), Nat.add_sub_cancel_left, h]
  · rw [List.getElem?_append_left (by simp), List.getElem?_append_right (Nat.le_refl _)]; simp

/-- **the core.** The capture `(R ++ mix d0 :: restA) ++ evsB`: whatever came before (`R`: nothing of the connection, or its
    first Initial and the Retry), the first datagram `d0` of the interleaved part, the rest of it, the 1-RTT-only part;
    packets of other QUIC connections (separated, both ways) and anything else anywhere. `SS`: the sessions the connection's
    own datagrams of `R` leave; `hfirst`: the loop hands `d0` to the session `s` whose state before was `c` — fresh, or
    after the Retry. The connection has ONE session in `quic_sessions`; its export is `expectedOutX`. -/
theorem capture_session_gen (hl : H.Lawful) (L : SealLaws Pc)
    (args : Args) (keys : List Keylog.Key) (R : List QEv3) (t0 : Container.Time) (fr0 : Spec.FrameBuild.Frame) (u0 : Udp)
    (d0 : DgY) (restA evsB : List QEv3)
    (htime : ∀ e ∈ ((R ++ .mix t0 fr0 u0 d0 :: restA) ++ evsB).map QEv3.cap, Ingest.isMinusOne e.t = false)
    (hnoc : args.checksumTest = false)
    (pm : List (Int × Int)) (ports : List Int)
    (fl : Flow) (hne : clientEp fl ≠ serverEp fl)
    (cr csel ch sh ca sa e : Bytes) (sel selR : SuiteSel) (csR : Bytes) (hsel : selectSuite csel = some sel)
    (hselR : selectSuite csR = some selR)
    (ho : (hashOf H sel.hash).outLen < 65536)
    (hsa : sa.length = (hashOf H sel.hash).outLen) (hca : ca.length = (hashOf H sel.hash).outLen)
    (hkl : KeylogHas keys cr ch sh ca sa (some e))
    (hphA : ∀ ev ∈ restA, okA ev = true) (hphB : ∀ ev ∈ evsB, okB ev = true)
    (wA : DgH → Bytes)
    (hdesc : QDescribed3 fl wA (DgX.wire H Pc L d0.x.dcid sel selR sh ch sa ca e)
      (wireOf H Pc L sel .v1 (rfcGen (hashOf H sel.hash) sel.keyLen sa ca 0)) (optsOf args ports pm)
      ((R ++ .mix t0 fr0 u0 d0 :: restA) ++ evsB))
    (hbase : ∀ ev ∈ (R ++ .mix t0 fr0 u0 d0 :: restA) ++ evsB, EvBase fl (optsOf args ports pm) ev)
    (hd0 : d0.x.base.srv = false) (hd0v : d0.x.ver = .v1)
    (t0' : Trk) (ecs0 : Option SuiteSel)
    (hok : YDgs maskFn H Pc L d0.x.dcid sel selR sh ch sa ca e t0' ecs0 (d0 :: mixOf restA))
    (htr : PTrace cr csel t0'.core (allInsM ((d0 :: mixOf restA).map (·.x.base))))
    (hkeyed : (((d0 :: mixOf restA).map DgY.eff).foldl Trk.dgx t0').keyed = true)
    (hrouteA : RoutesY (DgX.wire H Pc L d0.x.dcid sel selR sh ch sa ca e) (t0'.dgx d0.eff) (mixOf restA))
    (hsend : Send1 maskFn H Pc L sel .v1 (rfcGen (hashOf H sel.hash) sel.keyLen sa ca 0)
      (quicHp (hashOf H sel.hash) ca sel.keyLen) (quicHp (hashOf H sel.hash) sa sel.keyLen)
      (chachaOf (((d0 :: mixOf restA).map DgY.eff).foldl Trk.dgx t0').core) 0 0
      (((d0 :: mixOf restA).map DgY.eff).foldl Trk.dgx t0').tc.app
      (((d0 :: mixOf restA).map DgY.eff).foldl Trk.dgx t0').ts.app
      (((d0 :: mixOf restA).map DgY.eff).foldl Trk.dgx t0').cc
      (((d0 :: mixOf restA).map DgY.eff).foldl Trk.dgx t0').sc (onesOf3 evsB))
    (hrouteB : Routes1 (wireOf H Pc L sel .v1 (rfcGen (hashOf H sel.hash) sel.keyLen sa ca 0))
      (((d0 :: mixOf restA).map DgY.eff).foldl Trk.dgx t0').cc
      (((d0 :: mixOf restA).map DgY.eff).foldl Trk.dgx t0').sc (onesOf3 evsB))
    (hadj : C02Out.DistinctAdjacent false (((d0 :: mixOf restA).map DgY.eff).map inDgX ++
      (onesOf3 evsB).map fun d => inDg d.x))
    (hsep1 : QuicSeparated (quicMachine maskFn H Pc (capInfo (((R ++ .mix t0 fr0 u0 d0 :: restA) ++ evsB).map QEv3.cap)))
      (optsOf args ports pm) (ownIn fl keys 0 ((R ++ .mix t0 fr0 u0 d0 :: restA) ++ evsB))
      (othIn (optsOf args ports pm) keys 0 ((R ++ .mix t0 fr0 u0 d0 :: restA) ++ evsB)))
    (hsep2 : QuicSeparated (quicMachine maskFn H Pc (capInfo (((R ++ .mix t0 fr0 u0 d0 :: restA) ++ evsB).map QEv3.cap)))
      (optsOf args ports pm) (othIn (optsOf args ports pm) keys 0 ((R ++ .mix t0 fr0 u0 d0 :: restA) ++ evsB))
      (ownIn fl keys 0 ((R ++ .mix t0 fr0 u0 d0 :: restA) ++ evsB)))
    -- what came before
    (SS : List (QuicSess QConn)) (s : QuicSess QConn) (c : QConn)
    (hR : quicRun (quicMachine maskFn H Pc (capInfo (((R ++ .mix t0 fr0 u0 d0 :: restA) ++ evsB).map QEv3.cap)))
      (optsOf args ports pm) [] (ownIn fl keys 0 R) = SS)
    (hfirst : quicHandleH (quicMachine maskFn H Pc (capInfo (((R ++ .mix t0 fr0 u0 d0 :: restA) ++ evsB).map QEv3.cap)))
      (optsOf args ports pm) keys (.long d0.x.dcid .v1) SS (dgPkt fl false u0.payload R.length) = [s])
    (hsst : s.st = (quicMachine maskFn H Pc (capInfo (((R ++ .mix t0 fr0 u0 d0 :: restA) ++ evsB).map QEv3.cap))).feed c keys
      (dgPkt fl false u0.payload R.length) d0.x.dcid d0.x.ver)
    (hss : s.server = serverEp fl) (hsc : s.client = clientEp fl) (hcc : c.client = clientEp fl)
    (hr : c.raised = none) (hout0 : expo c.st.out = [])
    (hpre : HsSt H d0.x.dcid sel ch sh ca sa t0'.keyed
      (feedPre H (params H Pc keys) (noOut c.st) d0.x.dcid (sver d0.x.ver)) t0'.tc t0'.ts t0'.cc t0'.sc t0'.core)
    (hinv0 : EInv H e ecs0 (feedPre H (params H Pc keys) (noOut c.st) d0.x.dcid (sver d0.x.ver))) :
    CapOk (((R ++ .mix t0 fr0 u0 d0 :: restA) ++ evsB).map QEv3.cap) ∧
    ∃ (S1 S2 : List (QuicSess QConn)) (sess : QuicSess QConn),
      quicRun (quicMachine maskFn H Pc (capInfo (((R ++ .mix t0 fr0 u0 d0 :: restA) ++ evsB).map QEv3.cap)))
        (optsOf args ports pm) []
        (quicView (optsOf args ports pm) keys (itemsFrom 0 (((R ++ .mix t0 fr0 u0 d0 :: restA) ++ evsB).map QEv3.cap))) =
          S1 ++ [sess] ++ S2 ∧
      (quicMachine maskFn H Pc (capInfo (((R ++ .mix t0 fr0 u0 d0 :: restA) ++ evsB).map QEv3.cap))).out false sess.st =
        expectedOutX c ((d0 :: mixOf restA).map DgY.eff) (onesOf3 evsB) := by
  generalize hcapdef : ((R ++ .mix t0 fr0 u0 d0 :: restA) ++ evsB).map QEv3.cap = cap at *
  generalize hodef : optsOf args ports pm = o at *
  have hoc : o.checksumTest = false := by rw [← hodef]; exact hnoc
  let QM := quicMachine maskFn H Pc (capInfo cap)
  let wX := DgX.wire H Pc L d0.x.dcid sel selR sh ch sa ca e
  let w1 := wireOf H Pc L sel .v1 (rfcGen (hashOf H sel.hash) sel.keyLen sa ca 0)
  have hcapOk : CapOk cap := by rw [← hcapdef]; exact capOk3 fl o _ hbase (by rw [hcapdef]; exact htime)
  obtain ⟨g1, g2, g3, g4⟩ := getElem_mid R (QEv3.mix t0 fr0 u0 d0) restA evsB
  have hfullA : ∀ i ev, restA[i]? = some ev → cap[R.length + 1 + i]? = some ev.cap := by
    intro i ev h; rw [← hcapdef, List.getElem?_map, g2 i ev h]; rfl
  have hfullB : ∀ i ev, evsB[i]? = some ev → cap[(R ++ QEv3.mix t0 fr0 u0 d0 :: restA).length + i]? = some ev.cap := by
    intro i ev h; rw [← hcapdef, List.getElem?_map, g3 i ev h]; rfl
  have hdA : QDescribed3 fl wA wX w1 o restA := fun ev he => hdesc ev (by simp [he])
  have hdB : QDescribed3 fl wA wX w1 o evsB := fun ev he => hdesc ev (by simp [he])
  -- the first datagram of the interleaved part
  obtain ⟨hdg0, hpay0, hts0, _⟩ := hdesc (QEv3.mix t0 fr0 u0 d0) (by simp)
  let p0 := dgPkt fl false u0.payload R.length
  have hinfo0 : capInfo cap R.length = ⟨0, Container.usOfFloat t0.toFloat, fr0.srcMac, fr0.dstMac, fl.v6⟩ := by
    have := capInfo_at cap R.length (QEv3.mix t0 fr0 u0 d0).cap (by rw [← hcapdef, List.getElem?_map, g4]; rfl)
    simp only [QEv3.cap] at this
    rw [this, infoOf_dg fl _ fr0 u0 hdg0]; rfl
  have hcar0 : CarriesX (capInfo cap) c wX p0 d0.x :=
    ⟨hpay0, by show (capInfo cap R.length).ts = _; rw [hinfo0]; exact hts0.symm,
      by rw [hcc, hd0]; exact dgPkt_src_client fl hne _ _ _⟩
  -- the own view
  have hown : ownIn fl keys 0 ((R ++ .mix t0 fr0 u0 d0 :: restA) ++ evsB) =
      ownIn fl keys 0 R ++ ((⟨keys, .long d0.x.dcid .v1, p0⟩ : QIn Keylog.Key) ::
        (((mixItems3 fl keys (R.length + 1) restA).map fun x => (⟨x.1, hdrX x.2.2.x, x.2.1⟩ : QIn Keylog.Key)) ++
          (oneItems3 fl (R ++ QEv3.mix t0 fr0 u0 d0 :: restA).length evsB).map fun x => (⟨keys, .short, x.1⟩ : QIn Keylog.Key))) := by
    have hh : hdrX d0.x = .long d0.x.dcid .v1 := by
      unfold hdrX; unfold DgX.ver at hd0v; split at hd0v
      · cases hd0v
      · rename_i hn; rw [if_neg hn]
    rw [ownIn_append, ownIn_append, Nat.zero_add]
    simp only [ownIn, QEv3.own, hh, hd0]
    rw [ownIn_phaseA fl keys _ restA hphA, ownIn_phaseB fl keys _ evsB hphB, Nat.zero_add, List.append_assoc]
    rfl
  have hview := quicView3 fl o hoc keys _ hbase 0
  rw [hcapdef] at hview
  -- carrying
  let itemsA := mixItems3 fl keys (R.length + 1) restA
  let itemsB := oneItems3 fl (R ++ QEv3.mix t0 fr0 u0 d0 :: restA).length evsB
  have hcarA := carriesX_of_described fl hne wA wX w1 o keys restA hdA cap (R.length + 1) hfullA c hcc
  have hcarB := carries1_of_described fl hne wA wX w1 o evsB hdB cap _ hfullB c hcc
  have hdsA : itemsA.map (·.2.2) = mixOf restA := mixItems3_dgs ..
  have hdsB : itemsB.map (·.2) = onesOf3 evsB := oneItems3_dgs ..
  obtain ⟨t1, t2⟩ := own_run_tail maskFn H Pc (capInfo cap) o hl L d0.x.dcid cr csel ch sh ca sa e sel selR csR hsel hselR ho hsa
    hca t0' ecs0 keys p0 d0 itemsA
    (by
      intro x hx
      rcases List.mem_cons.mp hx with rfl | hx
      · exact hkl
      · rw [(hcarA x hx).1]; exact hkl)
    c hr hout0 hpre hinv0
    (by rw [hdsA]; exact hok) (by rw [hdsA]; exact htr)
    (by
      intro x hx
      rcases List.mem_cons.mp hx with rfl | hx
      · exact hcar0
      · exact (hcarA x hx).2.1)
    (by rw [hdsA]; exact hkeyed) (by rw [hdsA]; exact hrouteA) keys itemsB (fun x hx => (hcarB x hx).1)
    (by rw [hdsA, hdsB]; exact hsend) (by rw [hdsA, hdsB]; exact hrouteB) (by rw [hdsA, hdsB]; exact hadj)
    s hsst (by rw [hsc, hcc])
    (by intro x hx; rw [(hcarA x hx).2.2]; exact dgPkt_matches fl s hss hsc _ _ _)
    (by intro x hx; rw [(hcarB x hx).2]; exact dgPkt_matches fl s hss hsc _ _ _)
  let F := C02Capstone.feedAll QM (yFeedAll QM c ((keys, p0, d0) :: itemsA)) (itemsB.map fun x => (keys, x.1, x.2))
  have hrunOwn : quicRun QM o [] (ownIn fl keys 0 ((R ++ .mix t0 fr0 u0 d0 :: restA) ++ evsB)) = [{ s with st := F }] := by
    rw [hown, quicRun_append, hR]
    simp only [quicRun, List.foldl_cons]
    rw [hfirst]
    exact t1
  obtain ⟨S1, S2, hS⟩ := among_others QM o hview hsep1 hsep2 _ hrunOwn
  rw [hdsA, hdsB] at t2
  exact ⟨hcapOk, S1, S2, _, hS, t2⟩

end Session3

/-! ### what came before the interleaved part -/
section Prefix3
open TLX.Export TLX.Quic.Session TLX.Cipher TLX.Props.C02Session TLX.Spec.KeySchedules TLX.Props.C02Capstone4
variable (maskFn : Quic.Dissect.MaskFn) (H : Crypto.Prims) (Pc : Cipher.Prims)

/-- the session object of the flow: its address fields are the flow's, its MAC addresses those of the frame `frF` of the
    connection's first datagram -/
structure ConnIs (c : QConn) (o : Opts) (fl : Flow) (frF : Spec.FrameBuild.Frame) : Prop where
  client : c.client = clientEp fl
  server : c.server = serverEp fl
  ipv6 : c.ipv6 = fl.v6
  opts : c.opts = o
  smac : c.serverMac = frF.dstMac
  cmac : c.clientMac = frF.srcMac

/-- a fresh session made of the client's datagram at position `i` of the capture -/
theorem connIs_new (info : Nat → Pipeline.Info) (o : Opts) (ports : List Int) (hop : o.ports = ports) (fl : Flow)
    (hcp : ports.contains (fl.clientPort : Int) = false) (pl : Bytes) (i : Nat) (frF : Spec.FrameBuild.Frame) (us : Nat)
    (hinfo : info i = ⟨0, us, frF.srcMac, frF.dstMac, fl.v6⟩) :
    ConnIs ((quicMachine maskFn H Pc info).new o (dgPkt fl false pl i)) o fl frF ∧
    rolesOf o.ports (dgPkt fl false pl i) = (serverEp fl, clientEp fl) := by
  have hc' : ¬ (fl.clientPort : Int) ∈ ports := by simpa using hcp
  have hroles : rolesOf o.ports (dgPkt fl false pl i) = (serverEp fl, clientEp fl) := by
    rw [hop]; simp [rolesOf, dgPkt, clientEp, hc']
  refine ⟨⟨congrArg Prod.snd hroles, congrArg Prod.fst hroles, ?_, rfl, ?_, ?_⟩, hroles⟩
  · show (info i).ipv6 = _; rw [hinfo]
  · simp only [quicMachine, dgPkt, clientEp, hop, hcp, hinfo, Bool.false_eq_true, if_false]
  · simp only [quicMachine, dgPkt, clientEp, hop, hcp, hinfo, Bool.false_eq_true, if_false]

theorem ownIn_cons_noise (fl : Flow) (kl : List Keylog.Key) (n : Nat) (a : List QEv3) (ev : QEv3) (b : List QEv3)
    (ha : ∀ x ∈ a, isNoise x = true) :
    ownIn fl kl n (a ++ ev :: b) = ownIn fl kl (n + a.length) (ev :: b) := by
  rw [ownIn_append, (ownIn_noise fl kl n a ha).1, List.nil_append]

/-- **the client's first Initial and the server's Retry** through the main loop: ONE session, in the state the second
    attempt starts from -/
theorem retry_prefix (hl : H.Lawful) (h32 : H.sha256.outLen = 32) (L : SealLaws Pc) (o : Opts) (ports : List Int)
    (hop : o.ports = ports) (keys : List Keylog.Key) (fl : Flow) (hne : clientEp fl ≠ serverEp fl)
    (hcp : ports.contains (fl.clientPort : Int) = false)
    (cr csel ch sh ca sa : Bytes) (early : Option Bytes) (sel : SuiteSel) (hsel : selectSuite csel = some sel)
    (hkl : KeylogHas keys cr ch sh ca sa early)
    (n1 : List QEv3) (tA : Container.Time) (frA : Spec.FrameBuild.Frame) (uA : Udp) (dA : DgH)
    (n2 : List QEv3) (tR : Container.Time) (frR : Spec.FrameBuild.Frame) (uR : Udp) (r : Retry) (n3 : List QEv3)
    (hn1 : ∀ ev ∈ n1, isNoise ev = true) (hn2 : ∀ ev ∈ n2, isNoise ev = true) (hn3 : ∀ ev ∈ n3, isNoise ev = true)
    (cap : List CapEv)
    (hcapA : cap[n1.length]? = some (QEv3.pre tA frA uA dA).cap)
    (hdgA : IsDg fl dA.srv frA uA) (hpayA : uA.payload = dgWire H Pc L (dgDcid dA) sel sh ch dA)
    (htsA : dA.ts = Container.usOfFloat tA.toFloat) (hsrvA : dA.srv = false)
    (hdgR : IsDg fl true frR uR) (hpayR : uR.payload = r.encode) (hrwf : r.wf) (hrver : r.version = [0, 0, 0, 1])
    (hrscid : r.scid.length ≤ 63)
    (hokA : HsDgOk maskFn H Pc L (dgDcid dA) sel sh ch trk0 dA)
    (htrA : PTrace cr csel {} (insOf dA.pkts)) :
    let QM := quicMachine maskFn H Pc (capInfo cap)
    ∃ (s2 : QuicSess QConn),
      quicRun QM o [] (ownIn fl keys 0 (n1 ++ .pre tA frA uA dA :: (n2 ++ .retry tR frR uR r :: n3))) = [s2] ∧
      s2.server = serverEp fl ∧ s2.client = clientEp fl ∧ ConnIs s2.st o fl frA ∧ s2.st.raised = none ∧
      expo s2.st.st.out = [] ∧
      ∀ kl0 dcid', HsSt H dcid' sel ch sh ca sa false
        (feedPre H (params H Pc kl0) (noOut s2.st.st) dcid' .v1) (trk0.run dA.pkts).tc (trk0.run dA.pkts).ts
        (trk0.run dA.pkts).cc (trk0.run dA.pkts).sc {} := by
  intro QM
  have hinfoA : capInfo cap n1.length = ⟨0, Container.usOfFloat tA.toFloat, frA.srcMac, frA.dstMac, fl.v6⟩ := by
    have := capInfo_at cap n1.length _ hcapA
    simp only [QEv3.cap] at this
    rw [this, infoOf_dg fl _ frA uA hdgA]; rfl
  let pA := dgPkt fl false uA.payload n1.length
  let pR := dgPkt fl true uR.payload (n1.length + 1 + n2.length)
  obtain ⟨hci, hroles⟩ := connIs_new maskFn H Pc (capInfo cap) o ports hop fl hcp uA.payload n1.length frA _ hinfoA
  let c0 := QM.new o pA
  have hfresh := new_fresh maskFn H Pc (capInfo cap) o pA
  have hown : ownIn fl keys 0 (n1 ++ .pre tA frA uA dA :: (n2 ++ .retry tR frR uR r :: n3)) =
      [⟨keys, .long (dgDcid dA) .v1, pA⟩, ⟨keys, .long r.dcid .v1, pR⟩] := by
    rw [ownIn_cons_noise fl keys 0 n1 _ _ hn1, Nat.zero_add]
    simp only [ownIn, QEv3.own, hsrvA]
    rw [ownIn_cons_noise fl keys _ n2 _ _ hn2]
    simp only [ownIn, QEv3.own, (ownIn_noise fl keys _ n3 hn3).1]
    rfl
  -- the first attempt
  have hpreA : HsSt H (dgDcid dA) sel ch sh ca sa trk0.keyed (feedPre H (params H Pc keys) c0.st (dgDcid dA) .v1)
      trk0.tc trk0.ts trk0.cc trk0.sc trk0.core := by
    rw [hfresh.1]; exact feedPre_fresh H Pc keys h32 (dgDcid dA) sel ch sh ca sa
  have hcarA : CarriesH (capInfo cap) c0 (dgWire H Pc L (dgDcid dA) sel sh ch) pA dA :=
    ⟨hpayA, by show (capInfo cap n1.length).ts = _; rw [hinfoA]; exact htsA.symm,
      by rw [hci.client, hsrvA]; exact dgPkt_src_client fl hne _ _ _⟩
  obtain ⟨a1, a2, _, a4, a5, a6, a7, a8, a9⟩ := hs_feed_step maskFn H Pc (capInfo cap) hl keys L (dgDcid dA) cr csel ch sh ca sa
    early sel hsel hkl trk0 dA hokA [] c0 hfresh.2 hpreA (by rw [List.append_nil]; exact htrA) pA hcarA
  let c1 := QM.feed c0 keys pA (dgDcid dA) .v1
  have hc2 : QM.feed c1 keys pR r.dcid .v1 = { c1 with st := stampVer (retryReset (params H Pc keys) c1.st), raised := none } :=
    retry_feed maskFn H Pc (capInfo cap) keys (dgDcid dA) r hrwf (by rw [hrver]; decide) hrscid c1 a1 a2.inv pR hpayR r.dcid
  let s1 : QuicSess QConn := ⟨serverEp fl, clientEp fl, c1⟩
  refine ⟨{ s1 with st := QM.feed c1 keys pR r.dcid .v1 }, ?_, rfl, rfl, ?_, ?_, ?_, ?_⟩
  · rw [hown]
    simp only [quicRun, List.foldl_cons, List.foldl_nil]
    rw [quicHandle_new]
    have hnew : quicNew QM o keys (.long (dgDcid dA) .v1) pA = s1 := by
      have hr' : rolesOf o.ports pA = (serverEp fl, clientEp fl) := hroles
      simp only [quicNew, hr', Hdr.dcid, Hdr.ver, s1]; rfl
    rw [hnew]
    exact quicHandle_long _ o keys _ _ pR s1 (dgPkt_matches fl s1 rfl rfl _ _ _)
  · show ConnIs (QM.feed c1 keys pR r.dcid .v1) o fl frA
    rw [hc2]
    exact ⟨a6.trans hci.client, a5.trans hci.server, a9.trans hci.ipv6, a4.trans hci.opts, a7.trans hci.smac,
      a8.trans hci.cmac⟩
  · show (QM.feed c1 keys pR r.dcid .v1).raised = none
    rw [hc2]
  · show expo (QM.feed c1 keys pR r.dcid .v1).st.out = []
    rw [hc2]
    exact expo_none _ a2.inv.out
  · intro kl0 dcid'
    show HsSt H dcid' sel ch sh ca sa false (feedPre H _ (noOut (QM.feed c1 keys pR r.dcid .v1).st) dcid' .v1) _ _ _ _ _
    rw [hc2]
    show HsSt H dcid' sel ch sh ca sa false (feedPre H _ (noOut (stampVer (retryReset (params H Pc keys) c1.st))) dcid' .v1) _ _ _ _ _
    rw [noOut_retry]
    exact after_retry_pre H Pc keys kl0 h32 (dgDcid dA) dcid' sel ch sh ca sa _ (noOut c1.st) _ _ _ _ _
      (hsSt_noOut H _ _ _ _ _ _ _ _ _ _ _ _ _ a2)

end Prefix3

/-! ### from the senders' terms to the tool's, for the whole interleaved part -/
section RfcLayer
open TLX.Export TLX.Quic.Session TLX.Cipher TLX.Props.C02Session TLX.Spec.KeySchedules TLX.Props.C02Capstone4
open TLX.Props.C02Rfc TLX.Spec.RfcQuic
variable {maskFn : Quic.Dissect.MaskFn} {H : Crypto.Prims} {Pc : Cipher.Prims}

/-- `RoutesY` relative to the senders' connection IDs -/
def RoutesYR (w : DgX → Bytes) : RTrk → List DgY → Prop
  | _, [] => True
  | r, d :: ds => (d.x.base.longs = [] ∧ d.x.zr = [] → RouteOk (if d.x.base.srv then r.cc else r.sc) (w d.x) d.x.dcid) ∧
      RoutesYR w (r.dgx d.eff) ds

theorem routes_of_rfc (h : ConfHs) (hok : h.Ok) (L : SealLaws Pc) (dcid0 : Bytes) (sel selR : SuiteSel) (sh ch sa ca e : Bytes)
    (hsel : selectSuite h.sh.cipherSuite = some sel) (w : DgX → Bytes) (ds : List DgY) (a rest : List CryptoIn)
    (hins : h.ins = a ++ allInsM (ds.map (·.x.base)) ++ rest) (t : Trk) (r : RTrk) (hs : Sync a t r)
    (ecs : Option SuiteSel) (hecs : ecs = ecsFold {} a none)
    (hd : YDgsR maskFn H Pc L dcid0 sel selR sh ch sa ca e h a r ds) (hro : RoutesYR w r ds) : RoutesY w t ds := by
  induction ds generalizing a t r ecs with
  | nil => trivial
  | cons d ds ih =>
    obtain ⟨hd1, hd2⟩ := hd
    obtain ⟨r1, r2⟩ := hro
    have hins' : h.ins = a ++ insOf d.x.base.longs ++ (allInsM (ds.map (·.x.base)) ++ rest) := by
      rw [hins]; simp [allInsM, List.flatMap_cons, List.append_assoc]
    obtain ⟨_, y2, y3⟩ := ydg_of_rfc h hok L dcid0 sel selR sh ch sa ca e hsel d a _ hins' t r hs ecs hecs hd1
    exact ⟨by rw [hs.cc, hs.sc]; exact r1,
      ih (a ++ insOf d.x.base.longs) (by rw [hins']; simp [List.append_assoc]) (t.dgx d.eff) (r.dgx d.eff) y2 _ y3 hd2 r2⟩

def _root_.TLX.Props.C02Rfc.RTrk.afterRetry (r : RTrk) : RTrk := ⟨false, r.tc, r.ts, r.cc, r.sc⟩

theorem sync_afterRetry (a : List CryptoIn) (t : Trk) (r : RTrk) (h : Sync a t r) : Sync [] t.afterRetry r.afterRetry :=
  ⟨rfl, rfl, rfl, h.tc, h.ts, h.cc, h.sc⟩

/-- the whole interleaved part: every tool-side hypothesis from the senders' -/
theorem mix_of_rfc (h : ConfHs) (hok : h.Ok) (L : SealLaws Pc) (dcid0 : Bytes) (sel selR : SuiteSel) (sh ch sa ca e : Bytes)
    (hsel : selectSuite h.sh.cipherSuite = some sel) (w : DgX → Bytes) (d0 : DgY) (ds : List DgY)
    (hins : allInsM ((d0 :: ds).map (·.x.base)) = h.ins) (t : Trk) (r : RTrk) (hs : Sync [] t r)
    (hd : YDgsR maskFn H Pc L dcid0 sel selR sh ch sa ca e h [] r (d0 :: ds)) (hro : RoutesYR w (r.dgx d0.eff) ds) :
    YDgs maskFn H Pc L dcid0 sel selR sh ch sa ca e t none (d0 :: ds) ∧
    RoutesY w (t.dgx d0.eff) ds ∧
    (((d0 :: ds).map DgY.eff).foldl Trk.dgx t).keyed = true ∧
    chachaOf (((d0 :: ds).map DgY.eff).foldl Trk.dgx t).core = hpChacha sel ∧
    (((d0 :: ds).map DgY.eff).foldl Trk.dgx t).tc = (((d0 :: ds).map DgY.eff).foldl RTrk.dgx r).tc ∧
    (((d0 :: ds).map DgY.eff).foldl Trk.dgx t).ts = (((d0 :: ds).map DgY.eff).foldl RTrk.dgx r).ts ∧
    (((d0 :: ds).map DgY.eff).foldl Trk.dgx t).cc = (((d0 :: ds).map DgY.eff).foldl RTrk.dgx r).cc ∧
    (((d0 :: ds).map DgY.eff).foldl Trk.dgx t).sc = (((d0 :: ds).map DgY.eff).foldl RTrk.dgx r).sc := by
  have hins0 : h.ins = [] ++ allInsM ((d0 :: ds).map (·.x.base)) ++ [] := by rw [hins]; simp
  obtain ⟨y1, y2⟩ := ydgs_of_rfc h hok L dcid0 sel selR sh ch sa ca e hsel (d0 :: ds) [] [] hins0 t r hs none rfl hd
  rw [List.nil_append, hins] at y2
  have hany : h.ins.any (·.isServer) = true := by rw [ins_split]; simp [shIn, inOf]
  have hins1 : h.ins = [] ++ insOf d0.x.base.longs ++ (allInsM (ds.map (·.x.base)) ++ []) := by
    rw [← hins]; simp [allInsM, List.flatMap_cons]
  obtain ⟨_, z2, z3⟩ := ydg_of_rfc h hok L dcid0 sel selR sh ch sa ca e hsel d0 [] _ hins1 t r hs none rfl hd.1
  have hr := routes_of_rfc h hok L dcid0 sel selR sh ch sa ca e hsel w ds ([] ++ insOf d0.x.base.longs) []
    (by rw [hins1]; simp) (t.dgx d0.eff) (r.dgx d0.eff) z2 _ z3 hd.2 hro
  refine ⟨y1, hr, by rw [y2.keyed, y2.sent]; exact hany, ?_, y2.tc, y2.ts, y2.cc, y2.sc⟩
  rw [y2.core]
  exact chacha_sync h hok sel hsel _ (List.prefix_refl _) hany

end RfcLayer

/-! ### the demanded block, in the senders' terms -/
section Block
open TLX.Export TLX.Quic.Session TLX.Cipher TLX.Props.C02Session

/-- one exported UDP frame: between the client's endpoint and the server's address with the exported port (`-m` map, else
    8080, or the original one), MAC addresses and IP version of the connection's first datagram, addressed by direction -/
def addrR (args : Args) (pm : List (Int × Int)) (fl : Flow) (frF : Spec.FrameBuild.Frame) (srv : Bool) (ts : Nat)
    (payload : Bytes) : Pipeline.OutPkt :=
  let s : MainLoop.Endpoint := ⟨(serverEp fl).ip,
    TcpOut.exportedServerPort (Options.keepOriginalPorts args.mArg) (Pipeline.portmapFn pm) (serverEp fl).port⟩
  if srv then ⟨ts, frF.dstMac, frF.srcMac, s, clientEp fl, fl.v6, 0, 0, 0, payload, true⟩
  else ⟨ts, frF.srcMac, frF.dstMac, clientEp fl, s, fl.v6, 0, 0, 0, payload, true⟩

/-- **what C02 demands**: one UDP frame per datagram of the interleaved part that carried STREAM data in an exported 0-RTT
    packet or in its 1-RTT packet (payload: the 0-RTT packets' data, then the 1-RTT packet's), then one per datagram of the
    1-RTT-only part that carried STREAM data — in capture order, at the datagram's capture microsecond -/
def blockAll (args : Args) (pm : List (Int × Int)) (fl : Flow) (frF : Spec.FrameBuild.Frame) (ds : List DgX) (bs : List Dg1) :
    List Pipeline.OutPkt :=
  ((ds.filter fun d => !d.data.isEmpty).map fun d => addrR args pm fl frF d.base.srv d.base.ts d.data.flatten) ++
    (bs.filter fun d => hasStream d.x.frames).map fun d => addrR args pm fl frF d.x.srv d.x.ts (streamData d.x.frames).flatten

theorem expectedOutX_block (args : Args) (pm : List (Int × Int)) (ports : List Int) (fl : Flow)
    (frF : Spec.FrameBuild.Frame) (c : QConn) (hc : ConnIs c (optsOf args ports pm) fl frF) (ds : List DgX) (bs : List Dg1) :
    expectedOutX c ds bs = blockAll args pm fl frF ds bs := by
  obtain ⟨c1, c2, c3, c4, m1, m2⟩ := hc
  have hadd : ∀ srv ts pl, addressed c ⟨srv, ts, pl⟩ = addrR args pm fl frF srv ts pl := by
    intro srv ts pl
    simp only [addressed, addrR, c1, c2, c3, c4, m1, m2]
    rfl
  unfold expectedOutX blockAll expectedOut
  congr 1
  · apply List.map_congr_left; intro d _; exact hadd _ _ _
  · apply List.map_congr_left; intro d _; exact hadd _ _ _

end Block

/-! ### no write-abort when every exported frame is in range -/
section NoAbortAll
open TLX.Export TLX.Props.C01File2

theorem no_abort_of_all_fit (mask : Quic.Dissect.MaskFn) (H : Crypto.Prims) (P : Cipher.Prims) (args : Args)
    (legacy : Bool) (keyFile : Option Keylog.Str) (file : Bytes) (cap : List CapEv)
    (hread : Container.read legacy file = .ok (cap.map CapEv.item)) (hok : CapOk cap)
    (hnoc : args.checksumTest = false)
    (hall : ∀ out, framesFrom mask H P freshState args (fileKeysOf keyFile) (itemsFrom 0 cap) (capInfo cap) = .ok out →
      ∀ q ∈ out, WritesOk q) :
    ¬ ∃ e, exportFile mask H P args legacy keyFile file = .abort (.write e) := by
  rintro ⟨e, he⟩
  obtain ⟨_, xs, is, out, hi, hf, hw⟩ := (Props.Export.export_abort_write_iff mask H P args legacy keyFile file e).mp he
  have hing := ingest_of_capture Keylog.srcHexClass legacy file cap hread hok
  rw [← hnoc, hi] at hing
  cases hing
  have hf' : framesFrom mask H P freshState args (fileKeysOf keyFile) (itemsFrom 0 cap) (capInfo cap) = .ok out := hf
  have hwf := Lemmas.Export.framesFrom_wf mask H P freshState args _ _ _ _
    (Lemmas.Export.itemsWith_good _ _ _ _ _ _ hi) hf'
  have hex : ∃ f, fileOfFrames (out.map Frame.ofOutPkt) = .ok f := by
    apply (C06Bytes.fileOf_ok_iff _ ?_).mpr
    · intro fr hfr'
      simp only [List.mem_map] at hfr'
      obtain ⟨x, hx, rfl⟩ := hfr'
      exact hall out hf' x hx
    · intro fr hfr'
      simp only [List.mem_map] at hfr'
      obtain ⟨x, hx, rfl⟩ := hfr'
      exact hwf x hx
  obtain ⟨f, hfok⟩ := hex
  have : fileOf out = .ok f := hfok
  rw [this] at hw
  cases hw

end NoAbortAll

/-! ### THE combined theorem -/
section All
open TLX.Export TLX.Quic.Session TLX.Cipher TLX.Props.C02Session TLX.Spec.KeySchedules TLX.Props.C02Capstone4
open TLX.Props.C02Rfc TLX.Spec.RfcQuic TLX.Spec.RfcSuite TLX.Lemmas.C01Rfc TLX.Props.C09Found TLX.Lemmas.ExportDemux
open TLX.Props.C01File2
variable (maskFn : Quic.Dissect.MaskFn) (H : Crypto.Prims) (Pc : Cipher.Prims)

/-- the client's first Initial datagram and the server's Retry, with what stands before and between them in the capture -/
structure RetryPart where
  n1 : List QEv3
  tA : Container.Time
  frA : Spec.FrameBuild.Frame
  uA : Udp
  dA : DgH
  n2 : List QEv3
  tR : Container.Time
  frR : Spec.FrameBuild.Frame
  uR : Udp
  r : Retry

def RetryPart.evs (x : RetryPart) : List QEv3 :=
  x.n1 ++ .pre x.tA x.frA x.uA x.dA :: (x.n2 ++ [.retry x.tR x.frR x.uR x.r])

def preOf : Option RetryPart → List QEv3
  | none => []
  | some x => x.evs

/-- the frame of the connection's first datagram (its MAC addresses go into the export) -/
def firstFrame : Option RetryPart → Spec.FrameBuild.Frame → Spec.FrameBuild.Frame
  | none, fr0 => fr0
  | some x, _ => x.frA

/-- the DCID of the client's first Initial (the Initial keys of the first attempt) -/
def dcidA : Option RetryPart → Bytes
  | none => []
  | some x => dgDcid x.dA

/-- the senders' bookkeeping when the interleaved part begins -/
def r0Of : Option RetryPart → RTrk
  | none => rtrk0
  | some x => (rtrk0.run x.dA.pkts).afterRetry

/-- the events of the capture: (Retry part) noise, the client's first datagram of the (second) attempt, the rest of the
    interleaved part, the 1-RTT-only part -/
def allEvs (rp : Option RetryPart) (preA : List QEv3) (t0 : Container.Time) (fr0 : Spec.FrameBuild.Frame) (u0 : Udp)
    (d0 : DgY) (restA evsB : List QEv3) : List QEv3 :=
  ((preOf rp ++ preA) ++ .mix t0 fr0 u0 d0 :: restA) ++ evsB

/-- **EVERYTHING `quic_capture_exact_all` assumes**, in RFC / file / capture terms. -/
structure QuicCaptureAll (L : SealLaws Pc) (args : Args) (ls : List (FLine × Bool)) (pm : List (Int × Int))
    (ports : List Int) (fl : Flow) (hs : ConfHs) (ch sh ca sa e : Bytes) (sp spR : SuiteSpec) (sel selR : SuiteSel)
    (csR : Bytes) (rp : Option RetryPart) (preA : List QEv3) (t0 : Container.Time) (fr0 : Spec.FrameBuild.Frame) (u0 : Udp)
    (d0 : DgY) (restA evsB : List QEv3) : Prop where
  /-- primitive laws -/
  lawful : H.Lawful
  sha256 : H.sha256.outLen = 32
  outLen : (hashOf H sel.hash).outLen < 65536
  /-- options and reader -/
  times : ∀ e ∈ (allEvs rp preA t0 fr0 u0 d0 restA evsB).map QEv3.cap, Ingest.isMinusOne e.t = false
  noc : args.checksumTest = false
  nometa : args.metadata = false
  pmOk : Options.getPortMap Options.Src.bare args.mArg = .ok pm
  portsOk : Options.serverPorts Options.Src.builtin Options.Src.pDefault args.pArg = .ok ports
  endpoints : clientEp fl ≠ serverEp fl
  clientPort : ports.contains (fl.clientPort : Int) = false
  /-- RFC 8446 handshake; suites by the registry: the selected one, and the one of the resumed session (0-RTT) -/
  hsOk : hs.Ok
  tls13 : hs.sh.cipherSuite ∈ tls13Codes
  suite : quicSuite (Bytes.beNat hs.sh.cipherSuite) = some (sp, sel)
  tls13R : csR ∈ tls13Codes
  suiteR : quicSuite (Bytes.beNat csR) = some (spR, selR)
  saLen : sa.length = (hashOf H sel.hash).outLen
  caLen : ca.length = (hashOf H sel.hash).outLen
  /-- the key-log file, as text: the connection's five NSS lines -/
  linesWf : ∀ x ∈ ls, x.1.WF
  lineCH : HasLine ls labelCHTS (Pipeline.natsOfBytes hs.ch.random) (Pipeline.natsOfBytes ch)
  lineSH : HasLine ls labelSHTS (Pipeline.natsOfBytes hs.ch.random) (Pipeline.natsOfBytes sh)
  lineCA : HasLine ls labelCTS0 (Pipeline.natsOfBytes hs.ch.random) (Pipeline.natsOfBytes ca)
  lineSA : HasLine ls labelSTS0 (Pipeline.natsOfBytes hs.ch.random) (Pipeline.natsOfBytes sa)
  lineE : HasLine ls labelCETS (Pipeline.natsOfBytes hs.ch.random) (Pipeline.natsOfBytes e)
  onlyCH : OnlySecret ls labelCHTS (Pipeline.natsOfBytes hs.ch.random) (Pipeline.natsOfBytes ch)
  onlySH : OnlySecret ls labelSHTS (Pipeline.natsOfBytes hs.ch.random) (Pipeline.natsOfBytes sh)
  onlyCA : OnlySecret ls labelCTS0 (Pipeline.natsOfBytes hs.ch.random) (Pipeline.natsOfBytes ca)
  onlySA : OnlySecret ls labelSTS0 (Pipeline.natsOfBytes hs.ch.random) (Pipeline.natsOfBytes sa)
  onlyE : OnlySecret ls labelCETS (Pipeline.natsOfBytes hs.ch.random) (Pipeline.natsOfBytes e)
  /-- the capture: what stands where -/
  noiseR : ∀ x, rp = some x → (∀ ev ∈ x.n1, isNoise ev = true) ∧ (∀ ev ∈ x.n2, isNoise ev = true)
  noiseA : ∀ ev ∈ preA, isNoise ev = true
  phaseA : ∀ ev ∈ restA, okA ev = true
  phaseB : ∀ ev ∈ evsB, okB ev = true
  fromClient : d0.x.base.srv = false
  firstLong : d0.x.ver = .v1
  described : QDescribed3 fl (dgWire H Pc L (dcidA rp) sel sh ch) (DgX.wire H Pc L d0.x.dcid sel selR sh ch sa ca e)
    (wireOf H Pc L sel .v1 (rfcGen (hashOf H sel.hash) sel.keyLen sa ca 0)) (optsOf args ports pm)
    (allEvs rp preA t0 fr0 u0 d0 restA evsB)
  /-- the senders: first attempt (if a Retry follows), interleaved part, 1-RTT-only part — relative to THEIR bookkeeping -/
  retryOk : ∀ x, rp = some x → x.dA.srv = false ∧
    HsDgR maskFn H Pc L (dgDcid x.dA) sel sh ch rtrk0 x.dA ∧ ∃ rest, hs.ins = insOf x.dA.pkts ++ rest
  mixDgs : YDgsR maskFn H Pc L d0.x.dcid sel selR sh ch sa ca e hs [] (r0Of rp) (d0 :: mixOf restA)
  mixIns : allInsM ((d0 :: mixOf restA).map (·.x.base)) = hs.ins
  routesA : RoutesYR (DgX.wire H Pc L d0.x.dcid sel selR sh ch sa ca e) ((r0Of rp).dgx d0.eff) (mixOf restA)
  send1 : Send1 maskFn H Pc L sel .v1 (rfcGen (hashOf H sel.hash) sel.keyLen sa ca 0)
      (quicHp (hashOf H sel.hash) ca sel.keyLen) (quicHp (hashOf H sel.hash) sa sel.keyLen) (hpChacha sel) 0 0
      (((d0 :: mixOf restA).map DgY.eff).foldl RTrk.dgx (r0Of rp)).tc.app
      (((d0 :: mixOf restA).map DgY.eff).foldl RTrk.dgx (r0Of rp)).ts.app
      (((d0 :: mixOf restA).map DgY.eff).foldl RTrk.dgx (r0Of rp)).cc
      (((d0 :: mixOf restA).map DgY.eff).foldl RTrk.dgx (r0Of rp)).sc (onesOf3 evsB)
  routesB : Routes1 (wireOf H Pc L sel .v1 (rfcGen (hashOf H sel.hash) sel.keyLen sa ca 0))
      (((d0 :: mixOf restA).map DgY.eff).foldl RTrk.dgx (r0Of rp)).cc
      (((d0 :: mixOf restA).map DgY.eff).foldl RTrk.dgx (r0Of rp)).sc (onesOf3 evsB)
  /-- C02's quantifier: consecutive exported datagrams are told apart by (capture microsecond, direction) -/
  distinct : C02Out.DistinctAdjacent false (((d0 :: mixOf restA).map DgY.eff).map inDgX ++
      (onesOf3 evsB).map fun d => inDg d.x)
  /-- the other QUIC connections of the capture are separated from this one ON THE CAPTURE (`CaptureSeparated`: other
      4-tuples; no long-header DCID, no short-header prefix that is a connection ID the other side's sessions ever hold),
      both ways -/
  sepOwn : CaptureSeparated (quicMachine maskFn H Pc (capInfo ((allEvs rp preA t0 fr0 u0 d0 restA evsB).map QEv3.cap)))
      (optsOf args ports pm)
      (ownIn fl ((fileKeysOf (some (fileText ls))).getD []) 0 (allEvs rp preA t0 fr0 u0 d0 restA evsB))
      (othIn (optsOf args ports pm) ((fileKeysOf (some (fileText ls))).getD []) 0 (allEvs rp preA t0 fr0 u0 d0 restA evsB))
  sepOther : CaptureSeparated (quicMachine maskFn H Pc (capInfo ((allEvs rp preA t0 fr0 u0 d0 restA evsB).map QEv3.cap)))
      (optsOf args ports pm)
      (othIn (optsOf args ports pm) ((fileKeysOf (some (fileText ls))).getD []) 0 (allEvs rp preA t0 fr0 u0 d0 restA evsB))
      (ownIn fl ((fileKeysOf (some (fileText ls))).getD []) 0 (allEvs rp preA t0 fr0 u0 d0 restA evsB))

variable {maskFn H Pc}

theorem hsDgOk_of_rfc (h : ConfHs) (hok : h.Ok) (L : SealLaws Pc) (sel : SuiteSel) (sh ch : Bytes)
    (hsel : selectSuite h.sh.cipherSuite = some sel) (dA : DgH) (rest : List CryptoIn)
    (hins : h.ins = insOf dA.pkts ++ rest) (hd : HsDgR maskFn H Pc L (dgDcid dA) sel sh ch rtrk0 dA) :
    HsDgOk maskFn H Pc L (dgDcid dA) sel sh ch trk0 dA ∧ Sync (insOf dA.pkts) (trk0.run dA.pkts) (rtrk0.run dA.pkts) := by
  obtain ⟨d1, d2, d3⟩ := hd
  obtain ⟨p1, p2⟩ := pks_of_rfc h hok L (dgDcid dA) sel sh ch hsel dA.pkts [] rest (by simpa using hins) trk0 rtrk0 sync0 d3
  exact ⟨⟨d1, d2, p1⟩, by simpa using p2⟩

/-- the session of the connection in `quic_sessions`, and its export, from the hypotheses in RFC / file / capture terms -/
theorem session_of_all {L : SealLaws Pc} {args : Args} {ls : List (FLine × Bool)} {pm : List (Int × Int)}
    {ports : List Int} {fl : Flow} {hs : ConfHs} {ch sh ca sa e : Bytes} {sp spR : SuiteSpec} {sel selR : SuiteSel}
    {csR : Bytes} {rp : Option RetryPart} {preA : List QEv3} {t0 : Container.Time} {fr0 : Spec.FrameBuild.Frame} {u0 : Udp}
    {d0 : DgY} {restA evsB : List QEv3}
    (h : QuicCaptureAll maskFn H Pc L args ls pm ports fl hs ch sh ca sa e sp spR sel selR csR rp preA t0 fr0 u0 d0 restA
      evsB) :
    CapOk ((allEvs rp preA t0 fr0 u0 d0 restA evsB).map QEv3.cap) ∧
    ∃ (S1 S2 : List (QuicSess QConn)) (sess : QuicSess QConn),
      quicRun (quicMachine maskFn H Pc (capInfo ((allEvs rp preA t0 fr0 u0 d0 restA evsB).map QEv3.cap)))
        (optsOf args ports pm) []
        (quicView (optsOf args ports pm) ((fileKeysOf (some (fileText ls))).getD [])
          (itemsFrom 0 ((allEvs rp preA t0 fr0 u0 d0 restA evsB).map QEv3.cap))) = S1 ++ [sess] ++ S2 ∧
      (quicMachine maskFn H Pc (capInfo ((allEvs rp preA t0 fr0 u0 d0 restA evsB).map QEv3.cap))).out args.metadata sess.st =
        blockAll args pm fl (firstFrame rp fr0) ((d0 :: mixOf restA).map DgY.eff) (onesOf3 evsB) := by
  obtain ⟨hsel, _, _⟩ := selectSuite_tls13 _ h.tls13 sp sel h.suite
  obtain ⟨hselR, _, _⟩ := selectSuite_tls13 _ h.tls13R spR selR h.suiteR
  have hkl : KeylogHas ((fileKeysOf (some (fileText ls))).getD []) hs.ch.random ch sh ca sa (some e) :=
    keylogHas_text ls h.linesWf _ _ _ _ _ (some e) h.lineCH h.lineSH h.lineCA h.lineSA h.onlyCH h.onlySH h.onlyCA h.onlySA
      ⟨h.lineE, h.onlyE⟩
  have hbase := evBase_of_described H Pc fl L (dcidA rp) d0.x.dcid sel selR sh ch sa ca e _ _ h.described
  have hsep1 := quicSeparated_of_capture _ _ h.sepOwn
  have hsep2 := quicSeparated_of_capture _ _ h.sepOther
  have htrAll := ptrace_of_conformant hs h.hsOk
  rw [h.nometa]
  generalize hkeys : (fileKeysOf (some (fileText ls))).getD [] = keys at *
  obtain ⟨hdg0, _, _, _⟩ := h.described (QEv3.mix t0 fr0 u0 d0) (by simp [allEvs])
  rw [h.fromClient] at hdg0
  have hop : (optsOf args ports pm).ports = ports := rfl
  cases rp with
  | none =>
    -- no Retry: the first datagram creates the session
    obtain ⟨m1, m2, m3, m4, m5, m6, m7, m8⟩ := mix_of_rfc hs h.hsOk L d0.x.dcid sel selR sh ch sa ca e hsel
      (DgX.wire H Pc L d0.x.dcid sel selR sh ch sa ca e) d0 (mixOf restA) h.mixIns trk0 rtrk0 sync0 h.mixDgs h.routesA
    have hRl : (preOf none ++ preA) = preA := rfl
    have hinfo0 : capInfo ((allEvs none preA t0 fr0 u0 d0 restA evsB).map QEv3.cap) preA.length =
        ⟨0, Container.usOfFloat t0.toFloat, fr0.srcMac, fr0.dstMac, fl.v6⟩ := by
      have := capInfo_at ((allEvs none preA t0 fr0 u0 d0 restA evsB).map QEv3.cap) preA.length
        (QEv3.mix t0 fr0 u0 d0).cap (by
          rw [List.getElem?_map]
          show (((preA ++ QEv3.mix t0 fr0 u0 d0 :: restA) ++ evsB)[preA.length]?).map _ = _
          rw [(getElem_mid preA (QEv3.mix t0 fr0 u0 d0) restA evsB).2.2.2]; rfl)
      simp only [QEv3.cap] at this
      rw [this, infoOf_dg fl _ fr0 u0 hdg0]; rfl
    obtain ⟨hci, hroles⟩ := connIs_new maskFn H Pc _ (optsOf args ports pm) ports hop fl h.clientPort u0.payload preA.length
      fr0 _ hinfo0
    have hfresh := new_fresh maskFn H Pc (capInfo ((allEvs none preA t0 fr0 u0 d0 restA evsB).map QEv3.cap))
      (optsOf args ports pm) (dgPkt fl false u0.payload preA.length)
    have hv0 : sver d0.x.ver = .v1 := by rw [h.firstLong]; rfl
    obtain ⟨k1, S1, S2, sess, k2, k3⟩ := capture_session_gen maskFn H Pc h.lawful L args keys preA t0 fr0 u0 d0 restA evsB
      h.times h.noc pm ports fl h.endpoints hs.ch.random hs.sh.cipherSuite ch sh ca sa e sel selR csR hsel hselR h.outLen
      h.saLen h.caLen hkl h.phaseA h.phaseB _ h.described hbase h.fromClient h.firstLong trk0 none m1
      (by rw [h.mixIns]; exact htrAll) m3 m2
      (by rw [m4, m5, m6, m7, m8]; exact h.send1) (by rw [m7, m8]; exact h.routesB) h.distinct hsep1 hsep2
      [] ⟨serverEp fl, clientEp fl, _⟩ _
      (by rw [(ownIn_noise fl keys 0 preA h.noiseA).1]; rfl)
      (by
        rw [quicHandle_new]
        simp only [quicNew, hroles, Hdr.dcid, Hdr.ver, h.firstLong]
        rfl)
      rfl rfl rfl hci.client hfresh.2 (by rw [hfresh.1]; rfl)
      (by
        rw [show noOut ((quicMachine maskFn H Pc _).new (optsOf args ports pm) (dgPkt fl false u0.payload preA.length)).st =
          St.init (params H Pc []) from by rw [hfresh.1]; rfl, hv0]
        exact feedPre_fresh H Pc keys h.sha256 d0.x.dcid sel ch sh ca sa)
      (by intro selX hx; cases hx)
    exact ⟨k1, S1, S2, sess, k2, k3.trans (expectedOutX_block args pm ports fl fr0 _ hci _ _)⟩
  | some x =>
    obtain ⟨hsrvA, hdgRfc, restIns, hinsA⟩ := h.retryOk x rfl
    obtain ⟨hn1, hn2⟩ := h.noiseR x rfl
    obtain ⟨hokA, hsyncA⟩ := hsDgOk_of_rfc hs h.hsOk L sel sh ch hsel x.dA restIns hinsA hdgRfc
    obtain ⟨m1, m2, m3, m4, m5, m6, m7, m8⟩ := mix_of_rfc hs h.hsOk L d0.x.dcid sel selR sh ch sa ca e hsel
      (DgX.wire H Pc L d0.x.dcid sel selR sh ch sa ca e) d0 (mixOf restA) h.mixIns (trk0.run x.dA.pkts).afterRetry
      (rtrk0.run x.dA.pkts).afterRetry (sync_afterRetry _ _ _ hsyncA) h.mixDgs h.routesA
    have hReq : preOf (some x) ++ preA = x.n1 ++ .pre x.tA x.frA x.uA x.dA :: (x.n2 ++ .retry x.tR x.frR x.uR x.r :: preA) := by
      simp [preOf, RetryPart.evs, List.append_assoc]
    have hlen : (preOf (some x) ++ preA).length = x.n1.length + 1 + x.n2.length + 1 + preA.length := by
      rw [hReq]; simp; omega
    obtain ⟨hA1, hA2, hA3, _⟩ := h.described (QEv3.pre x.tA x.frA x.uA x.dA) (by simp [allEvs, preOf, RetryPart.evs])
    obtain ⟨hR1, hR2, hR3, hR4, hR5⟩ := h.described (QEv3.retry x.tR x.frR x.uR x.r) (by simp [allEvs, preOf, RetryPart.evs])
    have hcapA : ((allEvs (some x) preA t0 fr0 u0 d0 restA evsB).map QEv3.cap)[x.n1.length]? =
        some (QEv3.pre x.tA x.frA x.uA x.dA).cap := by
      rw [List.getElem?_map]
      simp [allEvs, preOf, RetryPart.evs, List.getElem?_append_left, List.getElem?_append_right]
    obtain ⟨s2, q1, q2, q3, q4, q5, q6, q7⟩ := retry_prefix maskFn H Pc h.lawful h.sha256 L (optsOf args ports pm) ports hop keys fl
      h.endpoints h.clientPort hs.ch.random hs.sh.cipherSuite ch sh ca sa (some e) sel hsel hkl x.n1 x.tA x.frA x.uA x.dA x.n2
      x.tR x.frR x.uR x.r preA hn1 hn2 h.noiseA ((allEvs (some x) preA t0 fr0 u0 d0 restA evsB).map QEv3.cap) hcapA hA1 hA2 hA3
      hsrvA hR1 hR2 hR3 hR4 hR5 hokA (ptrace_prefix _ _ _ _ restIns (by rw [← hinsA]; exact htrAll))
    have hv0 : sver d0.x.ver = .v1 := by rw [h.firstLong]; rfl
    obtain ⟨k1, S1, S2, sess, k2, k3⟩ := capture_session_gen maskFn H Pc h.lawful L args keys (preOf (some x) ++ preA) t0 fr0 u0
      d0 restA evsB h.times h.noc pm ports fl h.endpoints hs.ch.random hs.sh.cipherSuite ch sh ca sa e sel selR csR hsel hselR
      h.outLen h.saLen h.caLen hkl h.phaseA h.phaseB _ h.described hbase h.fromClient h.firstLong
      (trk0.run x.dA.pkts).afterRetry none m1 (by rw [h.mixIns]; exact htrAll) m3 m2
      (by rw [m4, m5, m6, m7, m8]; exact h.send1) (by rw [m7, m8]; exact h.routesB) h.distinct hsep1 hsep2
      [s2] ⟨s2.server, s2.client, _⟩ s2.st
      (by have q1' := q1; rw [← hReq] at q1'; exact q1')
      (by
        rw [h.firstLong]
        exact quicHandle_long _ _ keys _ _ _ s2 (dgPkt_matches fl s2 q2 q3 _ _ _))
      rfl q2 q3 q4.client q5 q6 (by rw [hv0]; exact q7 keys d0.x.dcid) (by intro selX hx; cases hx)
    exact ⟨k1, S1, S2, sess, k2, k3.trans (expectedOutX_block args pm ports fl x.frA _ q4 _ _)⟩

/-- **C02, ALL TOGETHER, FROM FILE TO FILE.** A capture FILE in any container variant (independent encoder) and the TEXT of a
    key-log file. The capture holds — among packets the loop does not take for QUIC (TLS over TCP, anything else) and
    capture-separated other QUIC connections — the datagrams of ONE conformant QUIC v1 connection:
    optionally the client's first Initial and the server's Retry; the (second) attempt as one interleaved history of
    datagrams of coalesced packets of all levels — ClientHello cut and ordered in any way, 0-RTT packets of the resumed suite
    anywhere, 0.5-RTT data, 1-RTT packets behind Handshake packets; then any conformant 1-RTT history (key updates,
    connection-ID switches, packet-number gaps). The key-log text has the connection's five NSS lines. Then the output file
    (unless scapy / dpkt refuse a frame: `quic_capture_all_ranges` removes the alternative) reads back, as the block of the
    connection's session, exactly `blockAll`: one UDP frame per datagram that carried STREAM data, in capture order,
    payload = that datagram's stream data, addressed by direction with the exported server port, at the datagram's
    capture microsecond. 0-RTT data is included when the tool's Early keys are the client's (`DgY.good`; `YDgR.early`:
    before the ServerHello iff the resumed suite is the FIRST of the client's offer, after it iff it is the selected one)
    and missing otherwise (`RejectedT`). -/
theorem quic_capture_exact_all {L : SealLaws Pc} {args : Args} {ls : List (FLine × Bool)} {pm : List (Int × Int)}
    {ports : List Int} {fl : Flow} {hs : ConfHs} {ch sh ca sa e : Bytes} {sp spR : SuiteSpec} {sel selR : SuiteSel}
    {csR : Bytes} {rp : Option RetryPart} {preA : List QEv3} {t0 : Container.Time} {fr0 : Spec.FrameBuild.Frame} {u0 : Udp}
    {d0 : DgY} {restA evsB : List QEv3}
    (h : QuicCaptureAll maskFn H Pc L args ls pm ports fl hs ch sh ca sa e sp spR sel selR csR rp preA t0 fr0 u0 d0 restA
      evsB)
    (cv : Spec.Containers.Variant) (cevs : List Spec.Containers.Ev) (hcwf : cv.WF cevs)
    (hitems : cevs.filterMap (Spec.Containers.scale cv) =
      ((allEvs rp preA t0 fr0 u0 d0 restA evsB).map QEv3.cap).map CapEv.item) :
    (∃ e', exportFile maskFn H Pc args cv.isLegacy (some (fileText ls)) (Spec.Containers.encode cv cevs) = .abort (.write e')) ∨
    ∃ f, exportFile maskFn H Pc args cv.isLegacy (some (fileText ls)) (Spec.Containers.encode cv cevs) = .file f ∧
      ReadsBack f (blockAll args pm fl (firstFrame rp fr0) ((d0 :: mixOf restA).map DgY.eff) (onesOf3 evsB)) := by
  obtain ⟨hcap, S1, S2, sess, hq, hblk⟩ := session_of_all h
  exact export_of_quic_session_among maskFn H Pc args cv.isLegacy (some (fileText ls)) _ _
    (by rw [Props.C12.reader_roundtrip cv cevs hcwf, hitems]) hcap h.noc pm ports h.pmOk h.portsOk S1 S2 sess hq _ hblk

/-- … WITHOUT the write-abort alternative, also when other sessions export: every frame the run hands to the writer — the
    block of this connection, the blocks of the other QUIC and TLS sessions — is taken by the write loop (`WritesOk`: scapy
    serialises it, dpkt stores its time). -/
theorem quic_capture_all_ranges {L : SealLaws Pc} {args : Args} {ls : List (FLine × Bool)} {pm : List (Int × Int)}
    {ports : List Int} {fl : Flow} {hs : ConfHs} {ch sh ca sa e : Bytes} {sp spR : SuiteSpec} {sel selR : SuiteSel}
    {csR : Bytes} {rp : Option RetryPart} {preA : List QEv3} {t0 : Container.Time} {fr0 : Spec.FrameBuild.Frame} {u0 : Udp}
    {d0 : DgY} {restA evsB : List QEv3}
    (h : QuicCaptureAll maskFn H Pc L args ls pm ports fl hs ch sh ca sa e sp spR sel selR csR rp preA t0 fr0 u0 d0 restA
      evsB)
    (cv : Spec.Containers.Variant) (cevs : List Spec.Containers.Ev) (hcwf : cv.WF cevs)
    (hitems : cevs.filterMap (Spec.Containers.scale cv) =
      ((allEvs rp preA t0 fr0 u0 d0 restA evsB).map QEv3.cap).map CapEv.item)
    (hall : ∀ out, framesFrom maskFn H Pc freshState args (fileKeysOf (some (fileText ls)))
        (itemsFrom 0 ((allEvs rp preA t0 fr0 u0 d0 restA evsB).map QEv3.cap))
        (capInfo ((allEvs rp preA t0 fr0 u0 d0 restA evsB).map QEv3.cap)) = .ok out → ∀ q ∈ out, WritesOk q) :
    ∃ f, exportFile maskFn H Pc args cv.isLegacy (some (fileText ls)) (Spec.Containers.encode cv cevs) = .file f ∧
      ReadsBack f (blockAll args pm fl (firstFrame rp fr0) ((d0 :: mixOf restA).map DgY.eff) (onesOf3 evsB)) := by
  rcases quic_capture_exact_all h cv cevs hcwf hitems with habort | hfile
  · exfalso
    exact no_abort_of_all_fit maskFn H Pc args cv.isLegacy (some (fileText ls)) _ _
      (by rw [Props.C12.reader_roundtrip cv cevs hcwf, hitems]) (session_of_all h).1 h.noc hall habort
  · exact hfile

end All

end TLX.Props.C02All
