/-
C01 × C14 bridge — "for every cipher suite in TLExport's table that is valid for the negotiated version":
every entry of the table REGENERATED from the source (TLX.Gen), resolved by the model of `split_cipher_suite`,
lands — for every protocol version the suite is valid for and with or without encrypt-then-MAC — in one of the
cipher classes for which `TLX.Props.C01.unprotect_protect` is proved; and no table suite makes `get_cipher_type`
answer "unknown", so `Decryptor.decrypt` never returns `None` for a table suite and the output builder's
placeholder bytes (`b'123345'`) are unreachable.
-/
import TLX.Props.C01
import TLX.CipherSuite
namespace TLX.Props.C01Suites
open TLX TLX.Cipher TLX.RecordLayer TLX.CipherSuite TLX.Tok

/-- the `cryptography` class named in a resolved suite ↦ the record-layer algorithm tag -/
def algOfCls (n : List Nat) : Alg :=
  if n = t_AES then .aes else if n = t_TripleDES then .tdes else if n = t_Camellia then .camellia
  else if n = t_IDEA then .idea else if n = t_AESCCM then .aesccm else if n = t_AESGCM then .aesgcm
  else if n = t_ChaCha20Poly1305 then .chachaPoly else if n = t_ARC4 then .arc4 else .none

def algOf (ps : Params) : Alg :=
  match getPart ps t_CryptoAlgo with
  | some (.tup c _) => algOfCls c
  | _ => .none

def tagOf (ps : Params) : Option Nat :=
  match getPart ps t_TagLength with
  | some (.int n) => some n
  | _ => none

def macIsSha2 (ps : Params) : Bool :=
  getPart ps t_MAC == some (.cls t_SHA256) || getPart ps t_MAC == some (.cls t_SHA384)

def isAead (ps : Params) : Bool :=
  match getPart ps t_CryptoAlgo with
  | some (.tup _ f) => f == 1
  | _ => false

/-- protocol versions a suite is valid for (RFC 5246 A.5 / RFC 8446 B.4; IDEA removed in TLS 1.2) -/
def validVersions (code : Nat) (ps : Params) : List Version :=
  if code / 256 = 0x13 then [.tls13]
  else if isAead ps || macIsSha2 ps then [.tls12]
  else if algOf ps = .idea then [.ssl30, .tls10, .tls11]
  else [.ssl30, .tls10, .tls11, .tls12]

def entryCovered (e : Nat × List Nat) : Bool :=
  let ps := splitName Gen.cipherSuiteParts e.2
  cipherType (algOf ps) != .unknown &&
  (validVersions e.1 ps).all fun v =>
    [false, true].all fun etm => (C01.classOf (algOf ps) v etm (tagOf ps)).isSome

/-- kernel evaluation over the whole generated table -/
theorem table_covered : Gen.cipherSuites.all entryCovered = true := by decide +kernel

/-- every table suite, for every version it is valid for, with or without encrypt-then-MAC, is handled by a
    decrypt routine for which `unprotect_protect` is proved -/
theorem every_table_suite_has_proved_class (e : Nat × List Nat) (he : e ∈ Gen.cipherSuites)
    (v : Version) (hv : v ∈ validVersions e.1 (splitName Gen.cipherSuiteParts e.2)) (etm : Bool) :
    ∃ cls, C01.classOf (algOf (splitName Gen.cipherSuiteParts e.2)) v etm
      (tagOf (splitName Gen.cipherSuiteParts e.2)) = some cls := by
  have h := List.all_eq_true.mp table_covered e he
  simp only [entryCovered, Bool.and_eq_true, List.all_eq_true] at h
  have := h.2 v hv etm (by cases etm <;> simp)
  exact Option.isSome_iff_exists.mp this

/-- no table suite has an unknown cipher type: `Decryptor.decrypt` cannot fall through to `None`, hence the
    builder's placeholder payload is never exported for a table suite -/
theorem table_suite_cipher_type_known (e : Nat × List Nat) (he : e ∈ Gen.cipherSuites) :
    cipherType (algOf (splitName Gen.cipherSuiteParts e.2)) ≠ .unknown := by
  have h := List.all_eq_true.mp table_covered e he
  simp only [entryCovered, Bool.and_eq_true, bne_iff_ne, ne_eq] at h
  exact h.1

example : (Gen.cipherSuites.length > 200) = true := by decide +kernel

end TLX.Props.C01Suites
