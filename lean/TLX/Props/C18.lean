/-
C18 — repeated runs on the same capture, secrets and options produce identical output.

The model's `runFrom` is a Lean function of (module state found, option vector, key-log file keys, capture items): nothing
else — no working directory, environment, clock or hash seed — can influence it. What remains to prove is exactly where the
CODE could let something else in:
* the four module-level lists of main.py survive a `run()` in the same interpreter → `run_ignores_prior_state` (the reset at
  the top of `run()`; which reset statements exist is regenerated from the source into `Gen/MainLoopConsts.lean`, so the
  theorem is re-checked against the tree under test), with `legacy_run_leaks` for the code as it was;
* `client_cids | server_cids` is a Python `set` of `bytes`: its iteration order depends on the hash seed and on insertion
  history → `cid_choice_order_independent` (any permutation of the lists that stand for the sets gives the same match, thanks
  to `sorted` with a total key), with `legacy_choice_order_dependent` for iteration in raw set order.
Abstracted by the model: set iteration order (covered by the permutation theorem), dict order (`portmap`, the decryptor
dicts: insertion order, defined in Python ≥ 3.7), `id()`/address-dependent behaviour (none in the code), floats (time
stamps are carried, not computed on, by the loop; C12), logging output (not part of the output file).
-/
import TLX.Lemmas.MainLoop
namespace TLX.Props.C18
open TLX TLX.MainLoop TLX.Spec.Demux TLX.Lemmas.MainLoop

variable {κ σ τ ο : Type}

/-! ## module-level state -/

/-- The reset lines of the tree under test rebuild all four lists: what `run()` starts from is the state of a fresh
    interpreter, whatever an earlier run (finished or aborted) left behind. -/
theorem reset_is_fresh (ms : ModState κ σ τ) : reset ms = freshState := rfl

theorem run_ignores_prior_state (TM : TlsMachine κ σ ο) (QM : QuicMachine κ τ ο) (prior prior' : ModState κ σ τ)
    (a : Args) (inp : Inputs κ) : runFrom TM QM prior a inp = runFrom TM QM prior' a inp := by
  simp only [runFrom, reset_is_fresh]

/-- Running twice in one interpreter: the second run returns what the first returned (output and final module state). -/
theorem run_twice_same (TM : TlsMachine κ σ ο) (QM : QuicMachine κ τ ο) (prior : ModState κ σ τ) (a : Args)
    (inp : Inputs κ) (ms : ModState κ σ τ) (out : List ο) (h : runFrom TM QM prior a inp = .ok (ms, out)) :
    runFrom TM QM ms a inp = .ok (ms, out) := by
  rw [← h]; exact run_ignores_prior_state TM QM ms prior a inp

/-- The output is a function of the option vector, the key-log file and the capture alone. -/
theorem export_is_function (TM : TlsMachine κ σ ο) (QM : QuicMachine κ τ ο) :
    ∃ f : Args → Inputs κ → Except Options.Err (List ο),
      ∀ (prior : ModState κ σ τ) (a : Args) (inp : Inputs κ), (runFrom TM QM prior a inp).map (·.2) = f a inp :=
  ⟨fun a inp => (runFrom TM QM freshState a inp).map (·.2), fun prior a inp => by
    rw [run_ignores_prior_state TM QM prior freshState]⟩

/-- What the loop computes from a fresh state, in terms of the three views of the capture (C04): nothing else enters. -/
theorem fresh_run_is (TM : TlsMachine κ σ ο) (QM : QuicMachine κ τ ο) (o : Opts) (keys : List κ) (items : List (Item κ)) :
    exportAll TM QM o (runItems TM QM o ⟨keys, [], []⟩ items) =
      (tlsRun TM o [] (tcpView o items)).flatMap (fun s => TM.out s.st (keys ++ dsbKeys o items)) ++
      (quicRun QM o [] (quicView o keys items)).flatMap (fun s => QM.out o.metadata s.st) := by
  obtain ⟨h1, h2, h3⟩ := runItems_proj TM QM o items (⟨keys, [], []⟩ : State κ σ τ)
  simp only [exportAll, h1, h2, h3]

namespace Ex
open TLX.MainLoop
def ep (a port : Nat) : Endpoint := ⟨[10, 0, 0, UInt8.ofNat a], port⟩
def tcp (tag : Nat) (s d : Endpoint) : Pkt := ⟨.tcp, s, d, [22, 3, 1], true, tag⟩
def args : Args := ⟨none, none, false, false, false⟩
def cap : Inputs Nat := ⟨some [7], [.frame (tcp 1 (ep 1 5000) (ep 8 443)), .dsb [8], .frame (tcp 2 (ep 8 443) (ep 1 5000))]⟩
def QM := Rec.quic fun _ => ([], [])
def outOf (r : Except Options.Err (ModState Nat (List Nat) Rec.QState × List (Nat × Nat))) : Option (List (Nat × Nat)) :=
  r.toOption.map (·.2)
def stateOf (r : Except Options.Err (ModState Nat (List Nat) Rec.QState × List (Nat × Nat))) :
    ModState Nat (List Nat) Rec.QState := (r.toOption.map (·.1)).getD freshState
end Ex

open Ex in
/-- The run as it is: both packets exported once, each seeing the two keys (file + DSB) present at the end. -/
example : outOf (runFrom Rec.tls QM freshState args cap) = some [(1, 2), (2, 2)] := by decide

open Ex in
/-- Without the reset lines a second run in the same interpreter is not the first: the first run's session is still in
    `sessions` (it swallows the packets again and is exported with them twice over), the key log has doubled, and
    `server_ports` has grown. -/
theorem legacy_run_leaks :
    let first := runFromLegacy Rec.tls QM freshState args cap
    outOf first = some [(1, 2), (2, 2)] ∧
    outOf (runFromLegacy Rec.tls QM (stateOf first) args cap) = some [(1, 4), (2, 4), (1, 4), (2, 4)] ∧
    (stateOf (runFromLegacy Rec.tls QM (stateOf first) args cap)).serverPorts = [443, 44330, 443, 443] ∧
    outOf (runFrom Rec.tls QM (stateOf first) args cap) = some [(1, 2), (2, 2)] := by decide

/-! ## set iteration order -/

/-- The CID match of a session — short header: which CID is chosen; long header: whether the DCID is known — does not depend
    on the order in which the two CID sets are enumerated. -/
theorem cid_choice_order_independent (cc cc' sc sc' : List Bytes) (hc : cc.Perm cc') (hs : sc.Perm sc') (side : Side)
    (h : Hdr) (payload : Bytes) : cidMatch cc sc side h payload = cidMatch cc' sc' side h payload := by
  cases h with
  | tooShort => rfl
  | long d v => simp only [cidMatch, hc.mem_iff, hs.mem_iff]
  | short =>
    have : (shortCandidates cc sc side).Perm (shortCandidates cc' sc' side) := by
      cases side
      · exact hc.append hs
      · exact hs
      · exact hc
    simp only [cidMatch, shortPick, sortCids_perm this]

/-- Hence which session takes a datagram, and with which DCID argument, does not depend on it either (`quicTake` reads the
    sets only through `cidMatch`). -/
theorem session_choice_order_independent (M M' : QuicMachine κ τ ο) (s : QuicSess τ) (h : Hdr) (p : Pkt)
    (hc : (M.clientCids s.st).Perm (M'.clientCids s.st)) (hs : (M.serverCids s.st).Perm (M'.serverCids s.st)) :
    quicTake M h p s = quicTake M' h p s := by
  simp only [quicTake, cid_choice_order_independent _ _ _ _ hc hs]

/-- Duplicates in the lists (a CID in both sets) do not matter either. -/
theorem cid_choice_ignores_duplicates (cids : List Bytes) (c : Bytes) (hc : c ∈ cids) (payload : Bytes) :
    shortPick (c :: cids) payload = shortPick cids payload := by
  cases h : shortPick cids payload with
  | none =>
    rw [shortPick_eq_none_iff] at h ⊢
    intro d hd; rcases List.mem_cons.mp hd with rfl | hd
    · exact h _ hc
    · exact h d hd
  | some d =>
    cases h' : shortPick (c :: cids) payload with
    | none =>
      rw [shortPick_eq_none_iff] at h'
      obtain ⟨h1, h2, h3⟩ := shortPick_some h
      exact absurd h3 (h' d (List.mem_cons_of_mem _ h1) h2)
    | some e =>
      -- both are the longest matching prefix of the same string
      have hd := TLX.Lemmas.MainLoop.shortPick_longest h
      have he := TLX.Lemmas.MainLoop.shortPick_longest h'
      obtain ⟨d1, d2, d3⟩ := shortPick_some h
      obtain ⟨e1, e2, e3⟩ := shortPick_some h'
      have e1' : e ∈ cids := by rcases List.mem_cons.mp e1 with rfl | x; exact hc; exact x
      have l1 := hd e e1' e2 e3
      have l2 := he d (List.mem_cons_of_mem _ d1) d2 d3
      have hl : d.length = e.length := by omega
      rw [List.prefix_iff_eq_take] at d3 e3
      rw [d3, e3, hl]

/-- matching in raw iteration order, as before `sorted` was introduced -/
def shortPickLegacy (cids : List Bytes) (payload : Bytes) : Option Bytes := cids.find? (cidPrefixOf payload)

/-- Iterating the set as it comes: with the CIDs `01` and `01 02` (one a prefix of the other) the two enumeration orders
    choose different DCIDs for the same datagram — hence a different DCID length, packet-number offset and decryption. -/
theorem legacy_choice_order_dependent :
    ∃ cids cids' : List Bytes, ∃ payload : Bytes, cids.Perm cids' ∧
      shortPickLegacy cids payload ≠ shortPickLegacy cids' payload ∧ shortPick cids payload = shortPick cids' payload :=
  ⟨[[1], [1, 2]], [[1, 2], [1]], [0x40, 1, 2, 3, 4], List.Perm.swap _ _ _, by decide, by decide⟩

example : shortPick [[1], [1, 2], [], [9, 9, 9]] [0x40, 1, 2, 3, 4] = some [1, 2] := by decide

end TLX.Props.C18
