/-
C05 ON THE CODE (framing part) — what `Props/C05.lean` needs of the last step of `Session.extract_server_buf` /
`extract_client_buf` (tlexport/session.py, everything from `index = 0` on), stated about the definitions REGENERATED from the
Python source (`TLX/Gen/Translated/Reasm2.lean`: `extract_server_frame`, `extract_client_frame`) against the independent
TLS framing specification `TLX/Spec/TlsFraming.lean` (`frame`, `WholeRecords`).

Only this fragment of the reassembly is stated here: the translator regenerates `extract_*_buf` in pieces (sort keys, head
test, gap test, framing: groups Reasm and Reasm2) and the headline `reassembly_exact_*` theorems of C05 are about their
composition over a whole capture, which exists only as the hand-written `Reassembly.run`; they stay at model level.
The statements mention `Gen.Py.…`, `Spec.TlsFraming.frame` / `WholeRecords`, and the packet record `Reassembly.Seg`
(id, sequence number, payload — the translator's own packet type). No hypotheses beyond "the buffered payloads are whole
records" were needed.
-/
import TLX.Props.Translated.Reasm2
import TLX.Props.C05
namespace TLX.OnCode.C05
open TLX TLX.PyRt TLX.Reassembly TLX.Spec.TlsFraming TLX.Props.Translated

private theorem flush_whole (buf : List Seg) (hw : WholeRecords ((buf.map (·.data)).flatten)) :
    ∃ rs, flush buf = some rs ∧ rs.map (·.1) = frame ((buf.map (·.data)).flatten) := by
  have h := Lemmas.Framing.flush_fst buf
  rw [show bufData buf = (buf.map (·.data)).flatten from rfl, Lemmas.Framing.scanD_of_whole _ hw] at h
  cases hf : flush buf with
  | none => rw [hf] at h; simp at h
  | some rs => rw [hf] at h; exact ⟨rs, rfl, by simpa using h⟩

private theorem binary_of (l : List Gen.Py.TlsRecordObj) : (l.map ofObj).map (·.1) = l.map (·.binary) := by
  rw [List.map_map]; rfl

/-- The framing part of Python `extract_server_buf` (as translated; both `while` loops included) on a buffer whose payloads,
    concatenated, are a stream of whole TLS records: it does not raise, appends to `server_tls_records` EXACTLY the records
    of that stream (RFC 5246 §6.2.1 / RFC 8446 §5.1 framing: 5-byte header, length field) in order, empties the packet
    buffer and sets the next expected sequence number to `(base + len) % 2^32`. -/
theorem extract_server_frame_whole_records (base : Nat) (buf : List Seg) (recs : List Gen.Py.TlsRecordObj)
    (next : Option Nat) (hw : WholeRecords ((buf.map (·.data)).flatten)) :
    ∃ st, Gen.Py.extract_server_frame base buf recs next = .ok () st ∧
      st.packet_buffer = [] ∧
      st.tls_records.map (·.binary) = recs.map (·.binary) ++ frame ((buf.map (·.data)).flatten) ∧
      st.next_seq = some ((base + ((buf.map (·.data)).flatten).length) % 2 ^ 32) := by
  obtain ⟨rs, hf, hrs⟩ := flush_whole buf hw
  obtain ⟨st, h1, h2, h3, h4⟩ := extract_server_frame_eq_model base buf recs next
  rw [hf] at h2 h3 h4
  refine ⟨st, h1, h2, ?_, h4⟩
  have := congrArg (List.map (·.1)) h3
  rw [List.map_append, binary_of, binary_of] at this
  rw [this, Option.getD_some, hrs]

/-- The same for the client direction (`extract_client_buf`). -/
theorem extract_client_frame_whole_records (base : Nat) (buf : List Seg) (recs : List Gen.Py.TlsRecordObj)
    (next : Option Nat) (hw : WholeRecords ((buf.map (·.data)).flatten)) :
    ∃ st, Gen.Py.extract_client_frame base buf recs next = .ok () st ∧
      st.packet_buffer = [] ∧
      st.tls_records.map (·.binary) = recs.map (·.binary) ++ frame ((buf.map (·.data)).flatten) ∧
      st.next_seq = some ((base + ((buf.map (·.data)).flatten).length) % 2 ^ 32) := by
  obtain ⟨rs, hf, hrs⟩ := flush_whole buf hw
  obtain ⟨st, h1, h2, h3, h4⟩ := extract_client_frame_eq_model base buf recs next
  rw [hf] at h2 h3 h4
  refine ⟨st, h1, h2, ?_, h4⟩
  have := congrArg (List.map (·.1)) h3
  rw [List.map_append, binary_of, binary_of] at this
  rw [this, Option.getD_some, hrs]

-- Non-vacuity: two segments across the wrap of the sequence space, the first record spans both
example : WholeRecords (([⟨1, 4294967290, [0x17, 3, 3, 0, 2, 9]⟩, ⟨2, 0, [8, 0x15, 3, 3, 0, 0]⟩] : List Seg).map (·.data)).flatten ∧
    frame (([⟨1, 4294967290, [0x17, 3, 3, 0, 2, 9]⟩, ⟨2, 0, [8, 0x15, 3, 3, 0, 0]⟩] : List Seg).map (·.data)).flatten =
      [[0x17, 3, 3, 0, 2, 9, 8], [0x15, 3, 3, 0, 0]] := by
  simp [WholeRecords, frame, hdrLen]
example : (match Gen.Py.extract_server_frame 4294967290 [⟨1, 4294967290, [0x17, 3, 3, 0, 2, 9]⟩, ⟨2, 0, [8, 0x15, 3, 3, 0, 0]⟩] [] none with
    | .ok () st => (st.tls_records.map (·.binary), st.packet_buffer.length, st.next_seq)
    | _ => ([], 99, none)) = ([[0x17, 3, 3, 0, 2, 9, 8], [0x15, 3, 3, 0, 0]], 0, some 6) := by decide +kernel

end TLX.OnCode.C05
