/-
C03 ON THE CODE (QUIC packet path) — Python `QuicSession.decrypt_packet` as REGENERATED from the source of the tree under test
(`TLX/Gen/Translated/QuicSess2.lean`, tlexport/quic/quic_session.py) never raises: whatever the packet and the session
state — no decryptor for the packet type, key-phase trouble, AEAD failure, malformed frames, an exception inside a frame
handler — the method returns normally (its `try/except` swallows every exception), so a QUIC packet that cannot be
decrypted cannot end the run.

Side conditions that remain, explicit in the statement: the translated method takes the methods it calls as parameters; they
are bound here as in `Props/Translated/QuicSess2.lean` — `check_key_epoch`, `get_full_packet_number`,
`set_largest_packet_number`, `decryptor.decrypt`, `parse_frames` to the functions of `TLX/Quic/Session.lean` /
`TLX/Quic/Frame.lean` (for `get_full_packet_number`, `set_largest_packet_number`, `parse_frames` the translated versions are
proved equal to those: groups Pn, Frames), `handle_crypto_frame` to ANY function that agrees with the model on CRYPTO
frames (`QSess.CryptoAgrees`). The state is the record `Session.St σ` the translation itself runs over.
-/
import TLX.Props.Translated.QuicSess2
namespace TLX.OnCode.C03
open TLX TLX.Quic TLX.Quic.Session TLX.Cipher TLX.Gen.Py PyRt TLX.Props.Translated.QSess

variable {σ : Type}

/-- Python `QuicSession.decrypt_packet` (as translated) returns normally for EVERY packet and EVERY session state: no
    exception leaves the method (C03: an undecryptable or damaged QUIC packet never makes the run fail). -/
theorem decrypt_packet_never_raises (P : Params σ) (hcf : St σ → Out → Res (St σ) Unit) (h : CryptoAgrees P hcf)
    (s : St σ) (p : Pkt) :
    ∃ s', QS.decrypt_packet hcf (fun st ph srv => resOf (checkKeyEpoch P st ph srv)) gfpnOf
        (fun st q b => .ok () (setLargestPn st q b)) (fun d pl pn aad srv => ofE (decDecrypt P d pl pn aad srv)) parseOf p s
      = .ok () s' :=
  ⟨_, decrypt_packet_eq_model P hcf h s p⟩

/-- … with `handle_crypto_frame` bound to the TRANSLATED `handle_crypto_frame` itself (it agrees with the model on CRYPTO
    frames: `QSess.crypto_agrees`), no hypothesis remains: the translated `decrypt_packet` calling the translated
    `handle_crypto_frame` never raises. This instance also shows the hypothesis of the theorem above is satisfiable. -/
theorem decrypt_packet_never_raises_translated_crypto (P : Params σ) (s : St σ) (p : Pkt) :
    ∃ s', QS.decrypt_packet
        (fun s o => QS.handle_crypto_frame (tlsUpdOf P) P.tlsNewData P.tlsClientRandom P.tlsCiphersuite P.tlsClearNewData
          (stdOf P) o s)
        (fun st ph srv => resOf (checkKeyEpoch P st ph srv)) gfpnOf
        (fun st q b => .ok () (setLargestPn st q b)) (fun d pl pn aad srv => ofE (decDecrypt P d pl pn aad srv)) parseOf p s
      = .ok () s' :=
  decrypt_packet_never_raises P _ (crypto_agrees P) s p

end TLX.OnCode.C03
