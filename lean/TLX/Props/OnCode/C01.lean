/-
C01 ON THE CODE — `unprotect_protect` of `Props/C01.lean` for the four AEAD record-decryption routines that are REGENERATED
from the Python source of the tree under test (`TLX/Gen/Translated/Decrypt.lean`: `Decryptor.decrypt_tls13_aead`,
`decrypt_tls13_stream_cipher`, `decrypt_tls12_aead`, `decrypt_tls12_chacha20` of tlexport/decryptor.py).

Each theorem says: the record an RFC-conforming sender (`Spec.TlsSender.protect`, RFC 5246 §6.2.3.3 / RFC 7905 /
RFC 8446 §5.2–5.3) makes of ANY content type, plaintext and fresh material is decrypted by the TRANSLATED routine to exactly
what the record layer has to deliver, only this direction's state changes, and the sender/receiver relation is re-established.
The routines are methods on the Decryptor object; their state is the generated record `Gen.Py.Dec.St`. What the statements use
besides `Gen.Py.Dec.…` and the sender specification:
 * `Decr.encD d x : Gen.Py.Dec.St` — the Decryptor attributes written as a record `d : RecordLayer.Dec` (keys, IVs, sequence
   numbers per direction, configuration) plus the attributes `x` the AEAD paths never read; it is an attribute-by-attribute
   encoding, it computes nothing;
 * `CfgOk`, `RelDir`, `SeqOk` of `Props/C01.lean`: the constructor arguments select this routine; receiver holds the sender's
   current key / IV / sequence number; sequence number below 2^64 — the hypotheses of the model-level theorem, unchanged;
 * `Decr.aeadOf P`: the external `cipher.decrypt(nonce, data, aad)` of the `cryptography` package bound to the abstract
   primitive `P.aeadOpen` (with the laws `L : SealLaws P`: open ∘ seal = id); `infl`: the (unused here) decompressor.
No model FUNCTION (`Dec.decrypt`, `tls13Aead`, …) occurs in a statement. The three non-AEAD routines (RC4, the two CBC
variants) are not in the translated group; for them C01 stands at model level only.
-/
import TLX.Props.Translated.Decrypt
import TLX.Props.C01
namespace TLX.OnCode.C01
open TLX TLX.PyRt TLX.RecordLayer TLX.Cipher TLX.Gen.Py TLX.Spec.TlsSender TLX.Lemmas.RecLayer TLX.Props.C01
open TLX.Props.Translated.Decr

private theorem of_lift {d d' : RecordLayer.Dec} {y : Py (Bytes × RecordLayer.Dec)} {pt : Bytes}
    (h : lift d y = .ok (some pt) d') : y = .ok (pt, d') := by
  rcases y with e | ⟨p, d''⟩
  · simp [lift] at h
  · simp only [lift, RecordLayer.Res.ok.injEq, Option.some.injEq] at h
    rw [h.1, h.2]

/-- The conclusion shared by the four theorems, for a translated routine `R` (already applied to the configuration):
    the protected record parses and `R` returns exactly what the record layer has to deliver, in a state that encodes a
    Decryptor `d'` with the same configuration, the same other direction and the relation re-established. -/
def RoundtripOnCode (P : Prims) (L : SealLaws P) (cls : CipherClass) (ver : Bytes) (d : RecordLayer.Dec) (x : DX) (srv : Bool)
    (sd : SDir) (typ : UInt8) (pt : Bytes) (f : Fresh) (R : Rec → Bool → Dec.St → PyRt.Res Dec.St Bytes) : Prop :=
  ∃ r d', Rec.ofRaw (protect P L cls ver sd typ pt f).2 = .ok r ∧
    R r srv (encD d x) = .ok (delivered cls typ pt f) (encD d' x) ∧
    d'.cfg = d.cfg ∧ d'.get (!srv) = d.get (!srv) ∧
    RelDir cls (protect P L cls ver sd typ pt f).1 (d'.get srv)

/-- TLS 1.3 AES-GCM / CCM / CCM_8 on the translated `decrypt_tls13_aead` (nonce = IV xor sequence number, AAD = record
    header, RFC 8446 §5.2–5.3): every protected record is decrypted to its TLSInnerPlaintext, the sequence number advances. -/
theorem decrypt_tls13_aead_unprotect_protect (P : Prims) (L : SealLaws P) (infl : Bytes → Bool → Except Err Bytes)
    (a : Alg) (tl macLen : Nat) (ver : Bytes) (d : RecordLayer.Dec) (x : DX) (srv : Bool) (sd : SDir) (typ : UInt8)
    (pt : Bytes) (f : Fresh)
    (hc : CfgOk (.aead13 a tl) macLen d.cfg) (hr : RelDir (.aead13 a tl) sd (d.get srv)) (hq : SeqOk (.aead13 a tl) sd) :
    RoundtripOnCode P L (.aead13 a tl) ver d x srv sd typ pt f (fun r srv st =>
      Dec.decrypt_tls13_aead (aeadOf P) infl r srv d.cfg.version d.cfg.bulk d.cfg.macLen d.cfg.tagLen d.cfg.blockLen
        d.cfg.etm 0 st) := by
  obtain ⟨r, d', h1, h2, h3, h4, h5⟩ := unprotect_protect_aead13 P L a tl macLen ver d srv sd typ pt f hc hr hq
  obtain ⟨_, _, ht, hver, _, _⟩ := hc
  rw [dispatch_tls13_aead P r srv d ht hver] at h2
  refine ⟨r, d', h1, ?_, h3, h4, h5⟩
  simp only [decrypt_tls13_aead_eq_model, of_lift h2, resB]

/-- TLS 1.3 ChaCha20-Poly1305 on the translated `decrypt_tls13_stream_cipher` (RFC 8446 §5.2–5.3). -/
theorem decrypt_tls13_stream_cipher_unprotect_protect (P : Prims) (L : SealLaws P)
    (infl : Bytes → Bool → Except Err Bytes) (macLen : Nat) (ver : Bytes) (d : RecordLayer.Dec) (x : DX) (srv : Bool)
    (sd : SDir) (typ : UInt8) (pt : Bytes) (f : Fresh)
    (hc : CfgOk .chacha13 macLen d.cfg) (hr : RelDir .chacha13 sd (d.get srv)) (hq : SeqOk .chacha13 sd) :
    RoundtripOnCode P L .chacha13 ver d x srv sd typ pt f (fun r srv st =>
      Dec.decrypt_tls13_stream_cipher (aeadOf P) infl r srv d.cfg.version d.cfg.bulk d.cfg.macLen d.cfg.tagLen
        d.cfg.blockLen d.cfg.etm 0 st) := by
  obtain ⟨r, d', h1, h2, h3, h4, h5⟩ := unprotect_protect_chacha13 P L macLen ver d srv sd typ pt f hc hr hq
  obtain ⟨hver, ht, _⟩ := hc
  rw [dispatch_tls13_stream P r srv d ht hver] at h2
  refine ⟨r, d', h1, ?_, h3, h4, h5⟩
  simp only [decrypt_tls13_stream_cipher_eq_model, of_lift h2, resB]

/-- TLS ≤ 1.2 AES-GCM / CCM / CCM_8 on the translated `decrypt_tls12_aead` (explicit 8-byte nonce part, AAD = sequence
    number ‖ type ‖ version ‖ plaintext length, RFC 5246 §6.2.3.3, RFC 5288, RFC 6655); plaintext shorter than 2^16. -/
theorem decrypt_tls12_aead_unprotect_protect (P : Prims) (L : SealLaws P) (infl : Bytes → Bool → Except Err Bytes)
    (a : Alg) (tl macLen : Nat) (ver : Bytes) (hv : ver.length = 2) (d : RecordLayer.Dec) (x : DX) (srv : Bool) (sd : SDir)
    (typ : UInt8) (pt : Bytes) (f : Fresh)
    (hc : CfgOk (.aead12 a tl) macLen d.cfg) (hr : RelDir (.aead12 a tl) sd (d.get srv))
    (hs : SendOk (.aead12 a tl) macLen pt f) (hq : SeqOk (.aead12 a tl) sd) :
    RoundtripOnCode P L (.aead12 a tl) ver d x srv sd typ pt f (fun r srv st =>
      Dec.decrypt_tls12_aead (aeadOf P) infl r srv d.cfg.version d.cfg.bulk d.cfg.macLen d.cfg.tagLen d.cfg.blockLen
        d.cfg.etm 0 st) := by
  obtain ⟨r, d', h1, h2, h3, h4, h5⟩ := unprotect_protect P L (.aead12 a tl) macLen ver hv d srv sd typ pt f hc hr hs hq
  obtain ⟨hb, ha, ht, hver, _⟩ := hc
  have hcp : d.cfg.bulk ≠ .chachaPoly := by rw [hb]; rcases ha with rfl | rfl <;> decide
  rw [dispatch_tls12_aead P r srv d ht hver hcp] at h2
  refine ⟨r, d', h1, ?_, h3, h4, h5⟩
  simp only [decrypt_tls12_aead_eq_model, of_lift h2, resB]

/-- TLS 1.2 ChaCha20-Poly1305 on the translated `decrypt_tls12_chacha20` (RFC 7905); plaintext shorter than 2^16. -/
theorem decrypt_tls12_chacha20_unprotect_protect (P : Prims) (L : SealLaws P) (infl : Bytes → Bool → Except Err Bytes)
    (macLen : Nat) (ver : Bytes) (hv : ver.length = 2) (d : RecordLayer.Dec) (x : DX) (srv : Bool) (sd : SDir)
    (typ : UInt8) (pt : Bytes) (f : Fresh)
    (hc : CfgOk .chacha12 macLen d.cfg) (hr : RelDir .chacha12 sd (d.get srv))
    (hs : SendOk .chacha12 macLen pt f) (hq : SeqOk .chacha12 sd) :
    RoundtripOnCode P L .chacha12 ver d x srv sd typ pt f (fun r srv st =>
      Dec.decrypt_tls12_chacha20 (aeadOf P) infl r srv d.cfg.version d.cfg.bulk d.cfg.macLen d.cfg.tagLen d.cfg.blockLen
        d.cfg.etm 0 st) := by
  obtain ⟨r, d', h1, h2, h3, h4, h5⟩ := unprotect_protect P L .chacha12 macLen ver hv d srv sd typ pt f hc hr hs hq
  obtain ⟨hb, hver⟩ := hc
  rw [dispatch_tls12_chacha P r srv d hver hb] at h2
  refine ⟨r, d', h1, ?_, h3, h4, h5⟩
  simp only [decrypt_tls12_chacha20_eq_model, of_lift h2, resB]

/-! ### non-vacuity: Decryptors related to a sender exist for the four classes (toy primitives with the seal laws, concrete
    key material: `Props/C01.lean`, namespace `Ex`), and the side conditions hold of concrete records -/
open Props.C01.Ex in
example : (∃ d, Rel (.aead13 .aesgcm 16) 32 ⟨SDir.init k16 iv12 k16' iv12, SDir.init k16' iv12 k16 iv12⟩ d) ∧
    (∃ d, Rel .chacha13 32 ⟨SDir.init k32 iv12 k32 iv12, SDir.init k32 iv12 k32 iv12⟩ d) ∧
    (∃ d, Rel (.aead12 .aesccm 8) 32 ⟨SDir.init k16 iv4 [] [], SDir.init k16' iv4 [] []⟩ d) ∧
    (∃ d, Rel .chacha12 32 ⟨SDir.init k32 iv12 [] [], SDir.init k32 iv12 [] []⟩ d) :=
  ⟨let ⟨d, _, h⟩ := init_rel_13 Toy.prims (.aead13 .aesgcm 16) rfl 32 128 none false rfl k16 iv12 k16' iv12 k16' iv12 k16 iv12
      (by decide) (by decide) (by decide) (by decide); ⟨d, h⟩,
   let ⟨d, _, h⟩ := init_rel_13 Toy.prims .chacha13 rfl 32 0 (some 16) false trivial k32 iv12 k32 iv12 k32 iv12 k32 iv12
      (by decide) (by decide) (by decide) (by decide); ⟨d, h⟩,
   let ⟨d, _, h⟩ := init_rel_pre13 Toy.prims Toy.laws (.aead12 .aesccm 8) rfl .tls12 (by intro h; cases h) 32 (by decide) 128
      trivial (some 8) false rfl k16 k16' iv4 iv4 (by decide) (by decide); ⟨d, h⟩,
   let ⟨d, _, h⟩ := init_rel_pre13 Toy.prims Toy.laws .chacha12 rfl .tls12 rfl 32 (by decide) 0 trivial (some 16) true trivial
      k32 k32 iv12 iv12 (by decide) (by decide); ⟨d, h⟩⟩
open Props.C01.Ex in
example : SendOk (.aead12 .aesccm 8) 32 hi ⟨[1, 2, 3, 4, 5, 6, 7, 8], [], [], 0⟩ ∧ SendOk .chacha12 32 hi ⟨[], [], [], 0⟩ ∧
    SeqOk (.aead13 .aesgcm 16) (SDir.init k16 iv12 k16' iv12) :=
  ⟨by decide, by decide, by unfold SeqOk; decide⟩

end TLX.OnCode.C01
