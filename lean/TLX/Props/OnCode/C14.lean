/-
C14 ON THE CODE — `resolve_sound_complete` of `Props/C14.lean` restated about the definitions REGENERATED from the Python
source of the tree under test (`TLX/Gen/Translated/Suites.lean`: `split_cipher_suite` and the dict displays
`cipher_suites`, `cipher_suite_parts` of tlexport/cipher_suite_parser.py, read from the source text).

The statement mentions neither the hand-written model (`CipherSuite.resolve`) nor the tables dumped from the live module
(`Gen.cipherSuites`): only `Gen.Py.…`, the copy of the IANA TLS Cipher Suites registry `Spec.Iana.lookup`
(`TLX/Spec/IanaRegistry.lean`), the independent reading of a suite name `Spec.denote` (`TLX/Spec/Denote.lean`) and
`Bytes.beNat`. The proof composes `Props/Translated/Suites.lean` with `Props/C14.lean`.

Hypothesis that remains (side condition of `split_cipher_suite_eq_model`): the id has two bytes — a TLS code point, which
is what every caller passes (the two `cipher_suite` bytes of a ServerHello).
-/
import TLX.Props.Translated.Suites
import TLX.Props.C14
namespace TLX.OnCode.C14
open TLX TLX.PyRt TLX.Props.Translated

/-- C14 on the translated code: for EVERY two-byte code point, Python `split_cipher_suite` does not raise, and either the
    code point is not a key of the `cipher_suites` dict and the result is `None` (unsupported), or it is a key, its name in
    the dict is the name the IANA registry gives that very code point, and the returned parameters are exactly what that
    name denotes. -/
theorem split_cipher_suite_sound_complete (id : Bytes) (h : id.length = 2) :
    ∃ r, Gen.Py.split_cipher_suite id = .ok r ∧
      match r with
      | none => ∀ n, (id, n) ∉ Gen.Py.cipher_suites
      | some p => ∃ n, (id, n) ∈ Gen.Py.cipher_suites ∧
          Spec.Iana.lookup (Bytes.beNat id) = some n ∧ Spec.denote n = some p := by
  refine ⟨_, split_cipher_suite_eq_model id h, ?_⟩
  obtain ⟨ht, _, hlen, _⟩ := cipher_tables_eq_model
  have hmem : ∀ n, (Bytes.beNat id, n) ∈ Gen.cipherSuites ↔ (id, n) ∈ Gen.Py.cipher_suites := by
    intro n
    rw [← ht, List.mem_map]
    constructor
    · rintro ⟨e, he, heq⟩
      have h2 := hlen e he
      simp only [suiteCode, h2, if_true, Prod.mk.injEq] at heq
      have : e.1 = id := beNat_inj2 _ _ h2 h heq.1
      rw [← this, ← heq.2]; exact he
    · intro he
      exact ⟨(id, n), he, by simp [suiteCode, h]⟩
  have := Props.C14.resolve_sound_complete (Bytes.beNat id)
  cases hr : CipherSuite.resolve (Bytes.beNat id) with
  | none =>
    rw [hr] at this
    intro n hn
    exact this n ((hmem n).mpr hn)
  | some p =>
    rw [hr] at this
    obtain ⟨n, hn, _, hl, hd⟩ := this
    exact ⟨n, (hmem n).mp hn, hl, hd⟩

/-- The `cipher_suites` dict display of the source has only two-byte keys, none twice: "is a key" above is unambiguous. -/
theorem cipher_suites_keys : (∀ e ∈ Gen.Py.cipher_suites, e.1.length = 2) ∧ (Gen.Py.cipher_suites.map (·.1)).Nodup :=
  ⟨cipher_tables_eq_model.2.2.1, cipher_tables_eq_model.2.2.2⟩

-- Non-vacuity: accepted code points (TLS 1.3; AES-CBC with the MAC default) and rejected ones (GREASE, 0x0000) exist
example : ([0x13, 0x01] : Bytes).length = 2 ∧
    (match Gen.Py.split_cipher_suite [0x13, 0x01] with | .ok (some _) => true | _ => false) = true ∧
    (match Gen.Py.split_cipher_suite [0x00, 0x2f] with | .ok (some _) => true | _ => false) = true := by
  decide +kernel
example : Gen.Py.split_cipher_suite [0xfa, 0xfa] = .ok none ∧ Gen.Py.split_cipher_suite [0x00, 0x00] = .ok none := by
  decide +kernel
example : (Gen.Py.split_cipher_suite [0x13, 0x01]).toOption.join = Spec.denote ((Spec.Iana.lookup 0x1301).getD []) ∧
    (Spec.Iana.lookup 0x1301).isSome := by decide +kernel

end TLX.OnCode.C14
