/-
C16 ON THE CODE — the headline theorems of `Props/C16.lean` restated about the definitions REGENERATED from the Python
source of the tree under test (`TLX/Gen/Translated/Pn.lean`: `QuicSession.get_full_packet_number`,
`QuicSession.set_largest_packet_number`, `PACKET_TYPE_MAP`, tlexport/quic/quic_session.py).

No statement below mentions the hand-written model (`implDecode`, `implUpdate`, `step`, `Table`): only the generated
definitions `Gen.Py.…`, the RFC 9000 Appendix A.3 algorithm `Quic.PktNum.rfcDecode`, `max`, and the byte encodings of
`TLX/Py.lean` (`Bytes.beNat`, `Bytes.ofNatBE`). The proofs compose `Props/Translated/Pn.lean` (`…_eq_model`) with
`Props/C16.lean`.

Hypotheses that remain (they are those of the `_eq_model` theorems): the packet-number field has 1–4 bytes (the QUIC
header has a 2-bit length field, so every caller meets it) and both table entries are below 2^62 (RFC 9000 §17.1: packet
numbers are below 2^62; the tables start at 0 and only ever receive decoded numbers, `decoded_lt` below).
-/
import TLX.Props.Translated.Pn
import TLX.Props.C16
namespace TLX.OnCode.C16
open TLX TLX.PyRt TLX.Lemmas.Translated TLX.Quic.PktNum

private theorem beNat_lt_pow (pn : Bytes) : Bytes.beNat pn < 2 ^ (8 * pn.length) := by
  have := beNat_lt pn
  rwa [show (256 : Nat) = 2 ^ 8 by rfl, ← Nat.pow_mul] at this

private theorem ofNatBE_len (w n : Nat) : (Bytes.ofNatBE w n).length = w := by
  induction w generalizing n with
  | zero => rfl
  | succ k ih => simp [Bytes.ofNatBE, ih]

/-- Python `QuicSession.get_full_packet_number` (as translated from the source), exact result: for a 1–4 byte field and
    table entries below 2^62 it never raises; it returns the field itself when the entry of the packet's direction is 0 and
    the field is positive, and otherwise the 8-byte big-endian form of RFC 9000 A.3 `DecodePacketNumber`. -/
theorem get_full_packet_number_exact (srv : Bool) (pn : Bytes) (pnS pnC : Nat)
    (hn : 1 ≤ pn.length ∧ pn.length ≤ 4) (hS : pnS < 2 ^ 62) (hC : pnC < 2 ^ 62) :
    Gen.Py.get_full_packet_number srv pn (Int.ofNat pnS) (Int.ofNat pnC) =
      .ok (if Bytes.beNat pn > (if srv then pnS else pnC) ∧ (if srv then pnS else pnC) = 0 then pn
           else Bytes.ofNatBE 8 (rfcDecode (2 ^ (8 * pn.length)) (2 ^ 62) (if srv then pnS else pnC) (Bytes.beNat pn))) := by
  rw [Props.Translated.get_full_packet_number_eq_model srv pn pnS pnC hn hS hC]
  rw [Props.C16.pn_decode_eq_rfc pn.length _ _ hn (beNat_lt_pow pn)]

/-- C16, first clause, on the translated code: for every largest-received number below 2^62, every field of 1–4 bytes
    and every truncated value, the bytes `get_full_packet_number` returns encode exactly the packet number that
    RFC 9000 Appendix A.3 defines (also on the `largest == 0` shortcut, where the code skips the A.3 arithmetic). -/
theorem get_full_packet_number_eq_rfc (srv : Bool) (pn : Bytes) (pnS pnC : Nat)
    (hn : 1 ≤ pn.length ∧ pn.length ≤ 4) (hS : pnS < 2 ^ 62) (hC : pnC < 2 ^ 62) :
    ∃ b, Gen.Py.get_full_packet_number srv pn (Int.ofNat pnS) (Int.ofNat pnC) = .ok b ∧
      Bytes.beNat b = rfcDecode (2 ^ (8 * pn.length)) (2 ^ 62) (if srv then pnS else pnC) (Bytes.beNat pn) := by
  refine ⟨_, Props.Translated.get_full_packet_number_eq_model srv pn pnS pnC hn hS hC, ?_⟩
  have ht := beNat_lt_pow pn
  have hL : (if srv then pnS else pnC) < 2 ^ 62 := by split <;> assumption
  generalize (if srv then pnS else pnC) = L at hL ⊢
  have hR := implDecode_lt pn.length L (Bytes.beNat pn) hn hL ht
  rw [← Props.C16.pn_decode_eq_rfc pn.length L _ hn ht]
  by_cases hc : Bytes.beNat pn > L ∧ L = 0
  · rw [if_pos hc, implDecode, if_pos hc]
  · rw [if_neg hc, beNat_ofNatBE 8 _ hR]

/-- C16, consequence for the AEAD nonce, on the translated code: every packet number the sender was allowed to truncate
    to `n` bytes (RFC 9000 §17.1: within half a window of largest+1) is recovered by `get_full_packet_number` from its `n`
    low bytes. -/
theorem get_full_packet_number_window (srv : Bool) (n pnum pnS pnC : Nat)
    (hn : 1 ≤ n ∧ n ≤ 4) (hS : pnS < 2 ^ 62) (hC : pnC < 2 ^ 62)
    (hlo : (if srv then pnS else pnC) + 1 < pnum + 2 ^ (8 * n) / 2)
    (hhi : pnum < (if srv then pnS else pnC) + 1 + 2 ^ (8 * n) / 2)
    (hpn : pnum + 2 ^ (8 * n) < 2 ^ 62) :
    ∃ b, Gen.Py.get_full_packet_number srv (Bytes.ofNatBE n (pnum % 2 ^ (8 * n))) (Int.ofNat pnS) (Int.ofNat pnC) = .ok b ∧
      Bytes.beNat b = pnum := by
  have hlen : (Bytes.ofNatBE n (pnum % 2 ^ (8 * n))).length = n := ofNatBE_len _ _
  have hp : 0 < 2 ^ (8 * n) := Nat.pow_pos (by omega)
  have hval : Bytes.beNat (Bytes.ofNatBE n (pnum % 2 ^ (8 * n))) = pnum % 2 ^ (8 * n) := by
    apply beNat_ofNatBE
    rw [show (256 : Nat) = 2 ^ 8 by rfl, ← Nat.pow_mul]
    exact Nat.mod_lt _ hp
  obtain ⟨b, h1, h2⟩ := get_full_packet_number_eq_rfc srv (Bytes.ofNatBE n (pnum % 2 ^ (8 * n))) pnS pnC
    (by rw [hlen]; exact hn) hS hC
  refine ⟨b, h1, ?_⟩
  rw [h2, hlen, hval, ← Props.C16.pn_decode_eq_rfc n _ _ hn (Nat.mod_lt _ hp)]
  exact Props.C16.pn_decode_window n _ pnum hn hlo hhi hpn

/-- Python `QuicSession.set_largest_packet_number` (as translated), on ANY bytes and ANY table entries: the entry of the
    packet's direction becomes the MAXIMUM of the old entry and the number the bytes encode; the other direction's entry
    is returned unchanged (and the method writes nothing else: the result record has these two fields only). -/
theorem set_largest_packet_number_is_max (srv : Bool) (b : Bytes) (pnS pnC : Nat) :
    Gen.Py.set_largest_packet_number b srv (Int.ofNat pnS) (Int.ofNat pnC) =
      { pn_server := if srv then Int.ofNat (max pnS (Bytes.beNat b)) else Int.ofNat pnS,
        pn_client := if srv then Int.ofNat pnC else Int.ofNat (max pnC (Bytes.beNat b)) } := by
  rw [Props.Translated.set_largest_packet_number_update]
  have hm : ∀ a c : Nat, implUpdate a c = max a c := by
    intro a c; unfold implUpdate; split <;> omega
  simp only [hm]

/-- `pn_entry_is_max` / `pn_space_isolation` of C16 on the translated code: decoding a packet with `get_full_packet_number`
    and storing its result with `set_largest_packet_number` (what `decrypt_packet` does after the AEAD check) leaves in the
    entry of the packet's direction the maximum of the old entry and the RFC 9000 A.3 packet number, and does not touch
    the other direction's entry. The packet-number space is the table key, see `spaces_on_code`. -/
theorem decode_then_store_is_max (srv : Bool) (pn b : Bytes) (pnS pnC : Nat)
    (hn : 1 ≤ pn.length ∧ pn.length ≤ 4) (hS : pnS < 2 ^ 62) (hC : pnC < 2 ^ 62)
    (hb : Gen.Py.get_full_packet_number srv pn (Int.ofNat pnS) (Int.ofNat pnC) = .ok b) :
    Gen.Py.set_largest_packet_number b srv (Int.ofNat pnS) (Int.ofNat pnC) =
      { pn_server := if srv then Int.ofNat (max pnS (rfcDecode (2 ^ (8 * pn.length)) (2 ^ 62) pnS (Bytes.beNat pn)))
                     else Int.ofNat pnS,
        pn_client := if srv then Int.ofNat pnC
                     else Int.ofNat (max pnC (rfcDecode (2 ^ (8 * pn.length)) (2 ^ 62) pnC (Bytes.beNat pn))) } := by
  obtain ⟨b', h1, h2⟩ := get_full_packet_number_eq_rfc srv pn pnS pnC hn hS hC
  rw [hb] at h1
  cases Except.ok.inj h1
  rw [set_largest_packet_number_is_max, h2]
  cases srv <;> simp only [Bool.false_eq_true, if_false, if_true]

/-- "Separately per packet-number space", on the translated tables: `PACKET_TYPE_MAP` gives every packet type that carries
    a packet number a key that is present with value 0 in both initial tables (no KeyError, start at 0); 0-RTT and 1-RTT
    share their key (RFC 9000 §12.3: one application-data space), Initial, Handshake and application data have three
    different keys; Retry and Version Negotiation have none. -/
theorem spaces_on_code :
    (∀ t ∈ [Quic.PType.initial, .handshake, .rtt0, .rtt1],
      (tableGet Gen.Py.PACKET_TYPE_MAP t).bind (tableGet Gen.Py.packet_number_server_init) = some 0 ∧
      (tableGet Gen.Py.PACKET_TYPE_MAP t).bind (tableGet Gen.Py.packet_number_client_init) = some 0) ∧
    tableGet Gen.Py.PACKET_TYPE_MAP .rtt0 = tableGet Gen.Py.PACKET_TYPE_MAP .rtt1 ∧
    tableGet Gen.Py.PACKET_TYPE_MAP .initial ≠ tableGet Gen.Py.PACKET_TYPE_MAP .handshake ∧
    tableGet Gen.Py.PACKET_TYPE_MAP .initial ≠ tableGet Gen.Py.PACKET_TYPE_MAP .rtt1 ∧
    tableGet Gen.Py.PACKET_TYPE_MAP .handshake ≠ tableGet Gen.Py.PACKET_TYPE_MAP .rtt1 ∧
    tableGet Gen.Py.PACKET_TYPE_MAP .retry = none ∧ tableGet Gen.Py.PACKET_TYPE_MAP .versionNeg = none := by
  decide

-- Non-vacuity: concrete inputs meeting the hypotheses (RFC 9000 A.3's own example and both other A.3 branches).
example : (1 ≤ ([0x9b, 0x32] : Bytes).length ∧ ([0x9b, 0x32] : Bytes).length ≤ 4) ∧ 0xa82f30ea < 2 ^ 62 ∧ 0 < 2 ^ 62 := by
  decide
example : Gen.Py.get_full_packet_number true [0x9b, 0x32] (Int.ofNat 0xa82f30ea) (Int.ofNat 0) =
    .ok [0, 0, 0, 0, 0xa8, 0x2f, 0x9b, 0x32] := by decide +kernel
example : rfcDecode (2 ^ (8 * 2)) (2 ^ 62) 0xa82f30ea (Bytes.beNat [0x9b, 0x32]) = 0xa82f9b32 := by decide
example : Gen.Py.get_full_packet_number false [0x01] (Int.ofNat 7) (Int.ofNat 255) = .ok [0, 0, 0, 0, 0, 0, 1, 1] := by
  decide +kernel                                                                    -- candidate + window
example : Gen.Py.get_full_packet_number false [0xff] (Int.ofNat 7) (Int.ofNat 256) = .ok [0, 0, 0, 0, 0, 0, 0, 0xff] := by
  decide +kernel                                                                    -- candidate - window
-- `get_full_packet_number_window`: pnum 0xa82f9b32 truncated to 2 bytes against largest 0xa82f30ea
example : (if true then 0xa82f30ea else 0) + 1 < 0xa82f9b32 + 2 ^ (8 * 2) / 2 ∧
    0xa82f9b32 < (if true then 0xa82f30ea else 0) + 1 + 2 ^ (8 * 2) / 2 ∧ 0xa82f9b32 + 2 ^ (8 * 2) < 2 ^ 62 ∧
    Bytes.ofNatBE 2 (0xa82f9b32 % 2 ^ (8 * 2)) = [0x9b, 0x32] := by decide
-- `decode_then_store_is_max`: a reordered (older) packet leaves the entry, a newer one raises it
example : Gen.Py.set_largest_packet_number [0, 0, 0, 0, 0xa8, 0x2f, 0x9b, 0x32] true (Int.ofNat 0xa82f30ea) (Int.ofNat 3) =
      { pn_server := 0xa82f9b32, pn_client := 3 } ∧
    Gen.Py.set_largest_packet_number [0x07] false (Int.ofNat 5) (Int.ofNat 9) = { pn_server := 5, pn_client := 9 } := by
  decide +kernel

end TLX.OnCode.C16
