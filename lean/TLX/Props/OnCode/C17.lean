/-
C17 ON THE CODE — the headline theorems of `Props/C17.lean` restated about the definitions REGENERATED from the Python
source of the tree under test: `parse_frames` with all frame classes and the `frame_type` table
(`TLX/Gen/Translated/Frames.lean`, tlexport/quic/quic_frame.py) and `get_variable_length_int_length` /
`decode_variable_length_int` (`TLX/Gen/Translated/Varint.lean`, tlexport/quic/quic_decode.py).

No statement below mentions the hand-written parser (`Quic.Frame.parseFrames`, `parseOne`, `Quic.Varint.decodeVarint`):
only `Gen.Py.…`, the independent RFC 9000 §16/§19 + RFC 9221 encoder of `TLX/Spec/QuicFrames.lean` (`QFrame`, `encodeAll`,
`WellFormedSeq`, `normalize`, `VW.enc`) with the expected attribute values of `TLX/Spec/QuicFramesExpect.lean`
(`QFrame.toParsed`, `startOf`), and the VIEW of a Python frame object as its tuple of attributes,
`Props.Translated.toParsed : Gen.Py.FrameObj → Parsed` (a `match` that copies the attributes of each class into the
record type `Parsed`; it computes nothing). The proofs compose `Props/Translated/Frames.lean`, `…/Varint.lean`
(`…_eq_model`) with `Props/C17.lean`. No side hypotheses were needed beyond those of C17 itself.
-/
import TLX.Props.Translated.Frames
import TLX.Props.Translated.Varint
import TLX.Props.C17
namespace TLX.OnCode.C17
open TLX TLX.PyRt TLX.Quic TLX.Quic.Frame TLX.Spec.QuicFrames TLX.Props.Translated

/-- what `parse_frames_eq_model` says when the reference result is known -/
private theorem of_some {p : Bytes} {ps : List Parsed} (h : parseFrames p = some ps) :
    ∃ fs, Gen.Py.parse_frames p = .ok fs ∧ fs.map toParsed = ps := by
  have hm := parse_frames_eq_model p
  rw [h] at hm
  cases hf : Gen.Py.parse_frames p with
  | error e => rw [hf] at hm; simp [ofOpt, Except.map] at hm
  | ok fs =>
    rw [hf] at hm
    simp only [ofOpt, Except.map, Except.ok.injEq] at hm
    exact ⟨fs, rfl, hm⟩

private theorem of_ok {p : Bytes} {fs : List Gen.Py.FrameObj} (h : Gen.Py.parse_frames p = .ok fs) :
    parseFrames p = some (fs.map toParsed) := by
  have hm := parse_frames_eq_model p
  rw [h] at hm
  cases hp : parseFrames p with
  | none => rw [hp] at hm; simp [ofOpt, Except.map] at hm
  | some ps =>
    rw [hp] at hm
    simp only [ofOpt, Except.map, Except.ok.injEq] at hm
    rw [hm]

private theorem sum_lengths (fs : List Gen.Py.FrameObj) :
    ((fs.map toParsed).map Parsed.length) = fs.map Gen.Py.FrameObj.length := by
  rw [List.map_map]
  exact List.map_congr_left (fun f _ => toParsed_length f)

/-! ### variable-length integers (RFC 9000 §16) -/

/-- Python `get_variable_length_int_length` and `decode_variable_length_int` (as translated) against RFC 9000 §16: on the
    encoding of any value `v` in any of the four widths (1/2/4/8 bytes, minimal or not) followed by arbitrary bytes, the
    first returns the width and the second the value — also when given exactly the integer's own bytes. -/
theorem varint_roundtrip (x : VW) (v : Nat) (hv : x.fits v) (tail : Bytes) :
    Gen.Py.get_variable_length_int_length (x.enc v ++ tail) = .ok x.w ∧
    Gen.Py.decode_variable_length_int (x.enc v ++ tail) = .ok v ∧
    Gen.Py.decode_variable_length_int ((x.enc v ++ tail).take x.w) = .ok v := by
  obtain ⟨h1, h2, h3⟩ := Props.C17.varint_roundtrip x v hv tail
  rw [get_variable_length_int_length_eq_model, decode_variable_length_int_eq_model, decode_variable_length_int_eq_model,
    h1, h2, h3]
  exact ⟨rfl, rfl, rfl⟩

/-! ### sequences of well-formed frames -/

/-- C17, first half, on the translated code: Python `parse_frames` run on the wire image of ANY well-formed sequence of
    RFC 9000 §19 / RFC 9221 frames (any types, order, varint widths; frames without explicit length only last) does not
    raise and returns exactly those frames — class, type byte, length, every integer and every byte-string attribute —,
    consecutive PADDING frames reported as one run. -/
theorem parse_frames_roundtrip (fs : List QFrame) (h : WellFormedSeq fs) :
    ∃ objs, Gen.Py.parse_frames (encodeAll fs) = .ok objs ∧
      objs.map toParsed = (normalize fs).map QFrame.toParsed :=
  of_some (Props.C17.frames_roundtrip fs h)

/-- C17, "every payload byte accounted for exactly once", on the translated code: for a well-formed sequence the
    `length` attributes of the frame objects `parse_frames` returns sum to the payload length, and every byte-string
    attribute of every object is the contiguous payload slice inside its own frame's extent at the place the integer
    attributes give; several attributes of one frame are ordered and disjoint. -/
theorem bytes_accounted_once (fs : List QFrame) (h : WellFormedSeq fs) :
    ∃ objs, Gen.Py.parse_frames (encodeAll fs) = .ok objs ∧
      (objs.map Gen.Py.FrameObj.length).sum = (encodeAll fs).length ∧
      ∀ i (hi : i < objs.length),
        (∀ ad ∈ (toParsed objs[i]).dataAt,
          ad.1 + ad.2.length ≤ (objs[i]).length ∧
          Bytes.slice (encodeAll fs) (startOf (objs.map toParsed) i + ad.1)
            (startOf (objs.map toParsed) i + ad.1 + ad.2.length) = ad.2) ∧
        (toParsed objs[i]).dataAt.Pairwise (fun x y => x.1 + x.2.length ≤ y.1) := by
  obtain ⟨ps, hp, hsum, hall⟩ := Props.C17.bytes_accounted_once fs h
  obtain ⟨objs, ho, rfl⟩ := of_some hp
  refine ⟨objs, ho, ?_, ?_⟩
  · rw [← sum_lengths]; exact hsum
  · intro i hi
    have := hall i (by simpa using hi)
    simp only [List.getElem_map, toParsed_length] at this
    exact this

/-! ### arbitrary bytes -/

/-- C17, second half, on the translated code: on EVERY byte string Python `parse_frames` terminates — the `while` loop
    is translated with fuel `len(payload)` and the result is never the out-of-fuel value — and either returns frame
    objects or raises IndexError; no other outcome exists. -/
theorem parse_frames_total (p : Bytes) :
    (∃ objs, Gen.Py.parse_frames p = .ok objs) ∨ Gen.Py.parse_frames p = .error .index := by
  have hm := parse_frames_eq_model p
  cases hf : Gen.Py.parse_frames p with
  | ok objs => exact Or.inl ⟨objs, rfl⟩
  | error e =>
    right
    rw [hf] at hm
    cases hp : parseFrames p with
    | some ps => rw [hp] at hm; simp [ofOpt, Except.map] at hm
    | none =>
      rw [hp] at hm
      simp only [ofOpt, Except.map, Except.error.injEq] at hm
      rw [hm]

/-- "never loops", on the translated code: every frame object `parse_frames` returns on ANY payload has `length ≥ 1`,
    there are at most `len(payload)` of them, and their lengths cover the payload. -/
theorem parse_frames_progress (p : Bytes) (objs : List Gen.Py.FrameObj) (h : Gen.Py.parse_frames p = .ok objs) :
    (∀ f ∈ objs, 1 ≤ f.length) ∧ objs.length ≤ p.length ∧ p.length ≤ (objs.map Gen.Py.FrameObj.length).sum := by
  obtain ⟨h1, h2, h3, _⟩ := Props.C17.parse_progress p _ (of_ok h)
  refine ⟨?_, by simpa using h2, by rw [← sum_lengths]; exact h3⟩
  intro f hf
  rw [← toParsed_length]
  exact h1 _ (List.mem_map_of_mem hf)

/-- "accounted for exactly once" for EVERY accepted payload, on the translated code: each payload position lies in the
    extent `[start of frame i, start of frame i+1)` of exactly one returned frame object. -/
theorem every_byte_in_exactly_one_frame (p : Bytes) (objs : List Gen.Py.FrameObj) (h : Gen.Py.parse_frames p = .ok objs)
    (k : Nat) (hk : k < p.length) :
    ∃ i, (i < objs.length ∧ startOf (objs.map toParsed) i ≤ k ∧ k < startOf (objs.map toParsed) (i + 1)) ∧
      ∀ j, (j < objs.length ∧ startOf (objs.map toParsed) j ≤ k ∧ k < startOf (objs.map toParsed) (j + 1)) → j = i := by
  have := Props.C17.every_byte_in_exactly_one_frame p _ (of_ok h) k hk
  simpa using this

/-- "never invents data beyond the packet", on the translated code: on arbitrary bytes every byte-string attribute of
    every frame object `parse_frames` returns is a Python slice `payload[a:b]` of the packet payload that begins at or
    after the start of the frame it belongs to. -/
theorem no_invented_data (p : Bytes) (objs : List Gen.Py.FrameObj) (h : Gen.Py.parse_frames p = .ok objs) :
    ∀ i (hi : i < objs.length), ∀ d ∈ (toParsed objs[i]).datas,
      ∃ a b, startOf (objs.map toParsed) i ≤ a ∧ d = Bytes.slice p a b := by
  intro i hi d hd
  have := Props.C17.no_invented_data p _ (of_ok h) i (by simpa using hi) d (by simpa using hd)
  exact this

/-- The translated `frame_type` dict, looked up as the key loop of `parse_frames` does (last matching key tuple wins,
    sentinel 0xff = no class → `GenericFrame`), is the RFC 9000 §19 / RFC 9221 type-byte assignment for every first byte. -/
theorem dispatch_matches_rfc : ∀ t : Fin 256,
    (if keyOf t.val = Sum.inl 255 then none else tableGetU Gen.Py.frame_type (keyOf t.val)) = Props.C17.rfcClass t.val := by
  decide +kernel

/-! ### non-vacuity: concrete inputs meeting the hypotheses, through the translated code -/

example : WellFormedSeq Props.C17.exampleSeq := by
  simp [Props.C17.exampleSeq, WellFormedSeq, QFrame.wf, QFrame.greedy, optOk, optFits]
  decide
example : (normalize Props.C17.exampleSeq).length = 5 := by decide
example : (Gen.Py.parse_frames (encodeAll Props.C17.exampleSeq)).map (List.map toParsed) =
    .ok ((normalize Props.C17.exampleSeq).map QFrame.toParsed) := by decide +kernel
example : Props.C17.w8.fits 37 ∧ Props.C17.w8.enc 37 ++ [0xff] = [0xc0, 0, 0, 0, 0, 0, 0, 37, 0xff] ∧
    Gen.Py.decode_variable_length_int [0xc0, 0, 0, 0, 0, 0, 0, 37, 0xff] = .ok 37 ∧
    Gen.Py.get_variable_length_int_length [0xc0, 0, 0, 0, 0, 0, 0, 37, 0xff] = .ok 8 := by decide
-- accepted and rejected arbitrary payloads (`parse_frames_total`, `parse_frames_progress`, `no_invented_data`)
example : (Gen.Py.parse_frames [0x06, 0x00, 0x02, 0xaa, 0xbb, 0x00, 0x00]).map (List.map toParsed) =
    .ok [.crypto 5 0 2 [0xaa, 0xbb], .padding 2] := by decide +kernel
example : Gen.Py.parse_frames [0x18, 0x01] = .error .index := by decide +kernel

end TLX.OnCode.C17
