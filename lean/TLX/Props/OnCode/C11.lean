/-
C11 ON THE CODE — the per-packet theorems of `Props/C11.lean` restated about the definitions REGENERATED from the Python
source of the tree under test (`TLX/Gen/Translated/Checksum.lean`: `ones_complement_checksum`, `calculate_checksum_udp`,
`calculate_checksum_tcp`, tlexport/checksums.py).

No statement below mentions the hand-written model (`Checksum.check`, `onesComplementChecksum`, `implFold`): only
`Gen.Py.…`, the independent RFC 1071 / RFC 768 / RFC 9293 receiver of `TLX/Spec/Rfc1071.lean` (`words`, `ocSum`,
`verdict`) and byte encodings (`Bytes.ofNatBE`, `Bytes.slice`). The proofs compose `Props/Translated/Checksum.lean`
(`…_eq_model`) with `Props/C11.lean`.

Hypotheses that remain, spelled out (they are `Lemmas.OnesComplement.Dissected` and the side conditions of the
`_eq_model` theorems): the arguments are what the call site reads from a dissected packet — addresses of even length
(4 or 16 bytes), a segment containing the checksum field whose length fits the IP length field and is passed as `l4_len`,
`ip_p` the transport's protocol number, and `l4_sum` the number in the segment's two checksum bytes (dpkt parsed it from
them). UDP over IPv4 without a checksum (field zero) is excluded as in C11.
-/
import TLX.Props.Translated.Checksum
import TLX.Props.C11
namespace TLX.OnCode.C11
open TLX TLX.PyRt TLX.Spec.Rfc1071 TLX.Lemmas.OnesComplement

/-- Python `ones_complement_checksum` (as translated: pad, 16-bit sum, `while checksum > 0xFFFF` carry fold, complement,
    `to_bytes(2)`) on EVERY byte string returns, without OverflowError, the two-byte complement of the RFC 1071
    one's-complement sum (end-around carry, word by word) of the octets. -/
theorem ones_complement_checksum_eq_rfc1071 (b : Bytes) :
    Gen.Py.ones_complement_checksum b = .ok (Bytes.ofNatBE 2 (65535 - ocSum (words b))) := by
  rw [Props.Translated.ones_complement_checksum_eq_model, onesComplementChecksum_eq, Props.C11.ocSum_eq_fold,
    implFold_eq_norm]
  rfl

/-- C11 per packet, UDP, on the translated code: for IPv4 and IPv6, every segment length (odd or even), payload and value
    of the checksum field, Python `calculate_checksum_udp` returns without an exception, and returns `True` exactly for the
    datagrams an RFC 1071 / RFC 768 receiver accepts (a zero field over IPv6 is invalid). Excluded by hypothesis: UDP over
    IPv4 sent without a checksum. -/
theorem calculate_checksum_udp_eq_rfc (v6 : Bool) (src dst seg : Bytes) (sum : Nat)
    (hsrc : src.length % 2 = 0) (hdst : dst.length % 2 = 0) (hfield : 8 ≤ seg.length)
    (hlen : seg.length < (if v6 then 4294967296 else 65536))
    (hs : sum < 65536) (hsum : Bytes.ofNatBE 2 sum = Bytes.slice seg 6 8)
    (hnc : verdict .udp v6 src dst seg ≠ .noChecksum) :
    Gen.Py.calculate_checksum_udp v6 src dst 17 seg.length seg sum =
      .ok (decide (verdict .udp v6 src dst seg = .valid)) := by
  rw [Props.Translated.calculate_checksum_udp_eq_model v6 src dst seg 17 sum hs hsum]
  have := Props.C11.check_eq_rfc_verify .udp v6 src dst seg ⟨hsrc, hdst, hfield, hlen⟩ hnc
  rw [show Checksum.L4.udp.num = 17 from rfl] at this
  rw [this]; rfl

/-- C11 per packet, TCP, on the translated code: for IPv4 and IPv6, every segment length, payload and value of the
    checksum field, Python `calculate_checksum_tcp` returns without an exception, and returns `True` exactly for the
    segments an RFC 1071 receiver accepts. -/
theorem calculate_checksum_tcp_eq_rfc (v6 : Bool) (src dst seg : Bytes) (sum : Nat)
    (hsrc : src.length % 2 = 0) (hdst : dst.length % 2 = 0) (hfield : 18 ≤ seg.length)
    (hlen : seg.length < (if v6 then 4294967296 else 65536))
    (hs : sum < 65536) (hsum : Bytes.ofNatBE 2 sum = Bytes.slice seg 16 18) :
    Gen.Py.calculate_checksum_tcp v6 src dst 6 seg.length seg sum =
      .ok (decide (verdict .tcp v6 src dst seg = .valid)) := by
  rw [Props.Translated.calculate_checksum_tcp_eq_model v6 src dst seg 6 sum hs hsum]
  have := Props.C11.check_eq_rfc_verify .tcp v6 src dst seg ⟨hsrc, hdst, hfield, hlen⟩
    (by show verdict Transport.tcp v6 src dst seg ≠ .noChecksum
        unfold verdict; simp only [reduceCtorEq, false_and, if_false]; split <;> simp)
  rw [show Checksum.L4.tcp.num = 6 from rfl] at this
  rw [this]; rfl

/-- With `-c` no dissected packet can end the run through the translated checksum functions: both always return a
    Boolean (also for UDP/IPv4 without checksum, which is outside the two theorems above). -/
theorem calculate_checksum_never_raises (v6 : Bool) (src dst seg : Bytes) (sum : Nat)
    (hsrc : src.length % 2 = 0) (hdst : dst.length % 2 = 0) (hlen : seg.length < (if v6 then 4294967296 else 65536))
    (hs : sum < 65536) :
    (8 ≤ seg.length → Bytes.ofNatBE 2 sum = Bytes.slice seg 6 8 →
      ∃ r, Gen.Py.calculate_checksum_udp v6 src dst 17 seg.length seg sum = .ok r) ∧
    (18 ≤ seg.length → Bytes.ofNatBE 2 sum = Bytes.slice seg 16 18 →
      ∃ r, Gen.Py.calculate_checksum_tcp v6 src dst 6 seg.length seg sum = .ok r) := by
  constructor
  · intro hf hsum
    obtain ⟨r, hr⟩ := Props.C11.check_never_raises .udp v6 src dst seg ⟨hsrc, hdst, hf, hlen⟩
    rw [show Checksum.L4.udp.num = 17 from rfl] at hr
    exact ⟨r, by rw [Props.Translated.calculate_checksum_udp_eq_model v6 src dst seg 17 sum hs hsum, hr]; rfl⟩
  · intro hf hsum
    obtain ⟨r, hr⟩ := Props.C11.check_never_raises .tcp v6 src dst seg ⟨hsrc, hdst, hf, hlen⟩
    rw [show Checksum.L4.tcp.num = 6 from rfl] at hr
    exact ⟨r, by rw [Props.Translated.calculate_checksum_tcp_eq_model v6 src dst seg 6 sum hs hsum, hr]; rfl⟩

-- Non-vacuity: a UDP datagram over IPv4 (odd length 9) with the right and with a wrong checksum meets every hypothesis
example : ([10, 0, 0, 1] : Bytes).length % 2 = 0 ∧
    8 ≤ ([0x30, 0x39, 0x01, 0xbb, 0x00, 0x09, 0x58, 0xe5, 0x61] : Bytes).length ∧
    Bytes.ofNatBE 2 0x58e5 = Bytes.slice [0x30, 0x39, 0x01, 0xbb, 0x00, 0x09, 0x58, 0xe5, 0x61] 6 8 ∧
    verdict .udp false [10, 0, 0, 1] [10, 0, 0, 2] [0x30, 0x39, 0x01, 0xbb, 0x00, 0x09, 0x58, 0xe5, 0x61] = .valid ∧
    verdict .udp false [10, 0, 0, 1] [10, 0, 0, 2] [0x30, 0x39, 0x01, 0xbb, 0x00, 0x09, 0x58, 0xe6, 0x61] = .invalid := by
  decide
example : Gen.Py.calculate_checksum_udp false [10, 0, 0, 1] [10, 0, 0, 2] 17 9 [0x30, 0x39, 0x01, 0xbb, 0x00, 0x09, 0x58, 0xe5, 0x61] 0x58e5 = .ok true ∧
    Gen.Py.calculate_checksum_udp false [10, 0, 0, 1] [10, 0, 0, 2] 17 9 [0x30, 0x39, 0x01, 0xbb, 0x00, 0x09, 0x58, 0xe6, 0x61] 0x58e6 = .ok false := by
  decide +kernel
-- a byte string whose 32-bit sum folds through exactly 0x10000 (the case the pre-repair loop condition lost)
example : Gen.Py.ones_complement_checksum [0xff, 0xff, 0x00, 0x01] = .ok [0xff, 0xfe] ∧
    ocSum (words [0xff, 0xff, 0x00, 0x01]) = 1 := by decide +kernel
-- a minimal TCP segment over IPv4 (20-byte header, no payload), checksum field right, through the translated code
example : verdict .tcp false [10, 0, 0, 1] [10, 0, 0, 2]
      [0x30, 0x39, 0x01, 0xbb, 0, 0, 0, 1, 0, 0, 0, 0, 0x50, 0x02, 0xff, 0xff, 0x69, 0xeb, 0, 0] = .valid ∧
    Bytes.ofNatBE 2 0x69eb =
      Bytes.slice [0x30, 0x39, 0x01, 0xbb, 0, 0, 0, 1, 0, 0, 0, 0, 0x50, 0x02, 0xff, 0xff, 0x69, 0xeb, 0, 0] 16 18 := by decide
example : Gen.Py.calculate_checksum_tcp false [10, 0, 0, 1] [10, 0, 0, 2] 6 20
    [0x30, 0x39, 0x01, 0xbb, 0, 0, 0, 1, 0, 0, 0, 0, 0x50, 0x02, 0xff, 0xff, 0x69, 0xeb, 0, 0] 0x69eb = .ok true := by
  decide +kernel

end TLX.OnCode.C11
