/-
C10 ON THE CODE — the port theorems of `Props/C10.lean` (`server_role`, `exported_ports`, `exported_ports_quic`) restated about
the definitions REGENERATED from the Python source of the tree under test (`TLX/Gen/Translated/Ports.lean`:
`Session.set_client_and_server_ports` of tlexport/session.py, `OutputBuilder.__init__` of tlexport/output_builder.py,
`QUICOutputbuilder.__init__` of tlexport/quic/quic_output_builder.py).

The statements mention only `Gen.Py.…`, the arguments and plain values (`Option.getD`): the documented behaviour is simple
enough to be written out directly. The proofs go through `Props/Translated/Ports.lean` (`…_eq_model`) and unfold the
model's `rolesOf` / `exportedServerPort`. No hypotheses remained. (How `-p`/`-m` are parsed into `server_ports`,
`portmap`, `keep_original_ports` is the other half of C10: `Props.C10.server_ports_effective`, `keep_iff_m_absent`,
`documented_defaults`.)
-/
import TLX.Props.Translated.Ports
import TLX.Props.C10
namespace TLX.OnCode.C10
open TLX TLX.PyRt

/-- `server_role` on the translated code: Python `set_client_and_server_ports` makes the SENDER of the flow's first packet
    the server exactly when its source port is a server port (so also when both ports are), and the receiver otherwise;
    IP address, port and MAC address of each side are assigned together and never altered. -/
theorem server_role (ports : List Int) (v6 : Bool) (sip dip : Bytes) (sport dport : Nat) (macSrc macDst : Bytes) :
    ((sport : Int) ∈ ports →
      Gen.Py.set_client_and_server_ports ports v6 sip dip sport dport macSrc macDst =
        { ipv6 := v6, server_ip := sip, server_port := sport, server_mac_addr := macSrc,
          client_ip := dip, client_port := dport, client_mac_addr := macDst }) ∧
    ((sport : Int) ∉ ports →
      Gen.Py.set_client_and_server_ports ports v6 sip dip sport dport macSrc macDst =
        { ipv6 := v6, server_ip := dip, server_port := dport, server_mac_addr := macDst,
          client_ip := sip, client_port := sport, client_mac_addr := macSrc }) := by
  have h := Props.Translated.set_client_and_server_ports_eq_model ports
    ⟨.tcp, ⟨sip, sport⟩, ⟨dip, dport⟩, [], true, 0⟩ v6 macSrc macDst
  simp only [MainLoop.rolesOf] at h
  constructor
  · intro hs
    rw [h]; simp [hs]
  · intro hs
    rw [h]; simp [hs]

/-- … hence for a flow that starts a session at all (destination or source port is a server port) the port recorded as
    the server's is a server port. -/
theorem server_port_is_server_port (ports : List Int) (v6 : Bool) (sip dip : Bytes) (sport dport : Nat)
    (macSrc macDst : Bytes) (h : (dport : Int) ∈ ports ∨ (sport : Int) ∈ ports) :
    ((Gen.Py.set_client_and_server_ports ports v6 sip dip sport dport macSrc macDst).server_port : Int) ∈ ports := by
  by_cases hs : (sport : Int) ∈ ports
  · rw [(server_role ports v6 sip dip sport dport macSrc macDst).1 hs]; exact hs
  · rw [(server_role ports v6 sip dip sport dport macSrc macDst).2 hs]
    exact h.resolve_right hs

/-- `exported_ports` on the translated code, TCP builder: Python `OutputBuilder.__init__` never raises; without `-m`
    (`keep_original_ports`) the exported server port is the original one, with `-m` it is the mapped port for ports listed
    in the map and the fallback 8080 for others; the client port is never changed. -/
theorem exported_ports (sp cp : Nat) (portmap : Nat → Option Nat) :
    Gen.Py.output_builder_init sp cp portmap true =
      .ok () { server_port_ := sp, client_port_ := cp, default_port := 8080, server_seq := 1, client_seq := 1 } ∧
    Gen.Py.output_builder_init sp cp portmap false =
      .ok () { server_port_ := (portmap sp).getD 8080, client_port_ := cp, default_port := 8080,
               server_seq := 1, client_seq := 1 } := by
  rw [Props.Translated.output_builder_init_eq_model, Props.Translated.output_builder_init_eq_model]
  exact ⟨rfl, rfl⟩

/-- `exported_ports_quic` on the translated code: Python `QUICOutputbuilder.__init__` makes the same choice (it honours
    `keep_original_ports`; the code as found did not: `Props.C10.quic_always_maps_counterexample`). -/
theorem exported_ports_quic (sp cp : Nat) (portmap : Nat → Option Nat) :
    Gen.Py.quic_output_builder_init sp cp portmap true =
      .ok () { server_port_ := sp, client_port_ := cp, default_port := 8080 } ∧
    Gen.Py.quic_output_builder_init sp cp portmap false =
      .ok () { server_port_ := (portmap sp).getD 8080, client_port_ := cp, default_port := 8080 } := by
  rw [Props.Translated.quic_output_builder_init_eq_model, Props.Translated.quic_output_builder_init_eq_model]
  exact ⟨rfl, rfl⟩

-- Non-vacuity: client→server and server→client first packets; both ports server ports; mapped, unmapped and kept ports
example : (443 : Int) ∈ [443, 44330] ∧ (5000 : Int) ∉ [443, 44330] := by decide
example : (Gen.Py.set_client_and_server_ports [443, 44330] false [10, 0, 0, 2] [10, 0, 0, 1] 5000 443 [2] [1]).server_port = 443 ∧
    (Gen.Py.set_client_and_server_ports [443, 44330] false [10, 0, 0, 1] [10, 0, 0, 2] 443 5000 [1] [2]).server_ip = [10, 0, 0, 1] ∧
    (Gen.Py.set_client_and_server_ports [443, 44330] false [10, 0, 0, 1] [10, 0, 0, 2] 443 44330 [1] [2]).server_port = 443 := by
  decide
example : Gen.Py.output_builder_init 443 5000 (fun k => if k = 443 then some 8443 else none) false =
    .ok () { server_port_ := 8443, client_port_ := 5000, default_port := 8080, server_seq := 1, client_seq := 1 } ∧
    Gen.Py.output_builder_init 444 5000 (fun k => if k = 443 then some 8443 else none) false =
    .ok () { server_port_ := 8080, client_port_ := 5000, default_port := 8080, server_seq := 1, client_seq := 1 } ∧
    Gen.Py.quic_output_builder_init 443 5000 (fun _ => none) true =
    .ok () { server_port_ := 443, client_port_ := 5000, default_port := 8080 } := by decide

end TLX.OnCode.C10
