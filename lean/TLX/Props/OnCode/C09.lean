/-
C09 ON THE CODE — the key-log theorems of `Props/C09.lean` restated about the definitions REGENERATED from the Python source
of the tree under test (`TLX/Gen/Translated/Keylog.lean`: `get_keys_from_string`, `get_key_from_line`, `Key.__init__` of
tlexport/keylog_reader.py).

The statements are about `Gen.Py.KL.get_keys_from_string (reOf hx)` / `get_key_from_line (reOf hx)`: `re.match` of the
compiled pattern is an external call of the translation and `KLog.reOf hx` binds it to the prefix recogniser that is proved
to accept exactly the language of the pattern read literally (`Props.C09.recogniser_is_pattern`; `hx` = the hex class the
pattern uses, `.any` for the repaired source). The other notions are those of the specification `TLX/Spec/NssKeylog.lean`
(`LooksLikeKey`, `WellFormed`, `Equivalent`, `Consistent`) and plain text operations (`toCRLF`, `universalNewlines`,
`joinLF`). The returned objects are `Keylog.Key` records (label, client random, secret — the three attributes of the Python
`Key`). `keys_invariant_under_delivery_on_code` additionally uses `Keylog.installed`, the model of the SESSION-side
lookups that consume the key list (they are outside this translated group): it says the parsed lists are interchangeable
for every lookup. The proofs compose `Props/Translated/Keylog.lean` with `Props/C09.lean`; no extra hypotheses arose.
-/
import TLX.Props.Translated.Keylog
import TLX.Props.C09
namespace TLX.OnCode.C09
open TLX TLX.PyRt TLX.Keylog TLX.Spec.NssKeylog TLX.Lemmas.Keylog TLX.Gen.Py TLX.Props.Translated.KLog

/-- Python `get_keys_from_string` (as translated) never raises, on any text and for either hex class of the pattern: no
    line that the pattern accepts makes `Key(line)` raise IndexError. -/
theorem get_keys_from_string_total (hx : HexClass) (s : Str) :
    ∃ ks, KL.get_keys_from_string (reOf hx) s = .ok ks :=
  ⟨_, get_keys_from_string_eq_model hx s⟩

/-- Line order / delivery in pieces, on the translated code: cutting a key log at a line boundary and parsing the pieces
    separately gives the same key list in the same order as parsing the whole — which lines travel in the `-s` file and
    which in which DSB is irrelevant. -/
theorem parse_split_at_line_boundary (hx : HexClass) (a b : Str) :
    ∃ ka kb, KL.get_keys_from_string (reOf hx) a = .ok ka ∧ KL.get_keys_from_string (reOf hx) b = .ok kb ∧
      KL.get_keys_from_string (reOf hx) (a ++ 10 :: b) = .ok (ka ++ kb) :=
  ⟨_, _, get_keys_from_string_eq_model hx a, get_keys_from_string_eq_model hx b, by
    rw [get_keys_from_string_eq_model, Props.C09.parse_split_at_line_boundary]⟩

/-- … for any number of pieces (file, DSB₁, DSB₂, …) joined with `"\n"`: parsing the joined text yields the concatenation
    of what each piece yields. -/
theorem parse_pieces_eq_parse_joined (hx : HexClass) (ps : List Str) :
    ∃ kss : List (List Key), kss.length = ps.length ∧
      (∀ i (h : i < ps.length) (h' : i < kss.length), KL.get_keys_from_string (reOf hx) ps[i] = .ok kss[i]) ∧
      KL.get_keys_from_string (reOf hx) (joinLF ps) = .ok kss.flatten := by
  refine ⟨ps.map (getKeysFromString hx), by simp, ?_, ?_⟩
  · intro i h h'
    rw [get_keys_from_string_eq_model, List.getElem_map]
  · rw [get_keys_from_string_eq_model, ← Props.C09.parse_pieces_eq_parse_joined, List.flatMap_def]

/-- CRLF invariance on the translated code: rewriting every `"\n"` as `"\r\n"` (any text, mixed line ends included) does
    not change what `get_keys_from_string` returns. -/
theorem crlf_irrelevant (hx : HexClass) (t : Str) :
    KL.get_keys_from_string (reOf hx) (Props.C09.toCRLF t) = KL.get_keys_from_string (reOf hx) t := by
  rw [get_keys_from_string_eq_model, get_keys_from_string_eq_model, Props.C09.crlf_irrelevant]

/-- Reading the key log through a text-mode file (universal newlines) changes nothing for LF/CRLF files, on the translated
    code. -/
theorem file_text_mode_irrelevant (hx : HexClass) (t : Str) (h : CrOk t) :
    KL.get_keys_from_string (reOf hx) (universalNewlines t) = KL.get_keys_from_string (reOf hx) t := by
  rw [get_keys_from_string_eq_model, get_keys_from_string_eq_model, Props.C09.file_text_mode_irrelevant hx t h]

/-- Comments and foreign lines on the translated code: Python `get_key_from_line` returns `None`, without raising, for
    every line that does not look like a secret line — `#` comments, blank lines, prose, other formats. -/
theorem foreign_lines_ignored (hx : HexClass) (line : Str) (h : ¬ LooksLikeKey line) :
    KL.get_key_from_line (reOf hx) line = .ok none := by
  rw [get_key_from_line_eq_model, Props.C09.foreign_lines_ignored hx line h]

/-- … in particular `#…` comment lines and blank lines. -/
theorem comment_and_blank_ignored (hx : HexClass) (rest : Str) :
    KL.get_key_from_line (reOf hx) (35 :: rest) = .ok none ∧ KL.get_key_from_line (reOf hx) [] = .ok none := by
  rw [get_key_from_line_eq_model, get_key_from_line_eq_model, (Props.C09.comment_and_blank_ignored hx rest).1,
    (Props.C09.comment_and_blank_ignored hx rest).2]
  exact ⟨rfl, rfl⟩

/-- C09 headline on the translated parser (pattern with hex class `[a-fA-F0-9]`, the repaired source): for a session with client
    random `cr`, two key logs that are well formed for the session (every line a secret line, or inert, or for another
    client random; CR only in CRLF), denote the same set of (label, client random, secret) triples — whatever the order, repetition
    (duplicates), comments, line-end style and hex-digit case — and are consistent are both parsed without exception, and
    the two key lists make the session install the same secrets (TLS ≤ 1.2, TLS 1.3 and QUIC lookups alike). -/
theorem keys_invariant_under_delivery_on_code (cr : List Nat) (t₁ t₂ : Str) (wf₁ : WellFormedFor cr t₁)
    (wf₂ : WellFormedFor cr t₂) (heq : EquivalentFor cr t₁ t₂) (hcons : ConsistentFor cr t₁) :
    ∃ k₁ k₂, KL.get_keys_from_string (reOf .any) t₁ = .ok k₁ ∧ KL.get_keys_from_string (reOf .any) t₂ = .ok k₂ ∧
      installed .firstMaster k₁ cr = installed .firstMaster k₂ cr :=
  ⟨_, _, get_keys_from_string_eq_model .any t₁, get_keys_from_string_eq_model .any t₂,
    Props.C09.keys_invariant_under_delivery cr t₁ t₂ wf₁ wf₂ heq hcons⟩

/-! ### non-vacuity: the witnesses of `Props/C09.lean` through the translated code -/

-- two lines in either order, and a decorated / CRLF / duplicated / partly upper-case log with a foreign line
example : (KL.get_keys_from_string (reOf .any) Props.C09.wPlain).map List.length = .ok 2 ∧
    (KL.get_keys_from_string (reOf .any) Props.C09.wSwapped).map List.length = .ok 2 ∧
    (KL.get_keys_from_string (reOf .any) Props.C09.wDecorated).map List.length = .ok 4 := by decide +kernel
example : (KL.get_keys_from_string (reOf .any) Props.C09.wPlain).map (List.map (·.value)) = .ok [[97, 98], [99, 100]] := by
  decide +kernel
-- the hypotheses of `keys_invariant_under_delivery_on_code` hold of the plain and the decorated log (session `wCr`)
set_option maxRecDepth 8000 in
open Props.C09 in
example : WellFormedFor wCr wPlain ∧ WellFormedFor wCr wDecorated ∧ EquivalentFor wCr wPlain wDecorated ∧
    ConsistentFor wCr wPlain :=
  ⟨wellFormedFor_of_classified cls_L1L2, wellFormedFor_of_classified cls_decorated,
   equivalentFor_of_classified cls_L1L2 cls_decorated (fun tr => by
      simp only [List.mem_cons, List.mem_nil_iff, or_false, reduceCtorEq, false_or, or_self]
      constructor <;> (intro h; rcases h with h | h <;> simp [h])),
   consistentFor_of_classified cls_L1L2 consistent_AB⟩
-- a comment line is not a secret line; CrOk holds of a CRLF text
example : KL.get_key_from_line (reOf .any) [35, 32, 99] = .ok none ∧
    (KL.get_key_from_line (reOf .any) Props.C09.wL1U).map Option.isSome = .ok true := by decide +kernel
example : Props.C09.toCRLF [97, 10, 98] = [97, 13, 10, 98] := by decide

end TLX.OnCode.C09
