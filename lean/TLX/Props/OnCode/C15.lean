/-
C15 ON THE CODE — the main theorems of `Props/C15.lean` restated about the definitions REGENERATED from the Python source of
the tree under test (`TLX/Gen/Translated/KeySched.lean`: `prf_tls_12`, `gen_master_secret_tls_12`, `dev_tls_12_keys`,
`dev_tls_13_keys`, `dev_initial_keys`, `key_update`, `dev_quic_keys` of tlexport/keyderivation.py and
tlexport/quic/quic_key_generation.py).

The right-hand sides are the RFC key schedules of `TLX/Spec/KeySchedules.lean` (RFC 5246 `prf12`, `connectionKeys`;
RFC 8446 `tls13WriteKey/Iv`; RFC 9001 `quicInitial…Keys`, `quicPacketKeys`, `quicKey/Iv`, `quicNextSecret`). No statement
mentions a model FUNCTION (`prfTls12`, `devTls12Keys`, `keyUpdate`, …). What the statements do use besides `Gen.Py.…`:
 * the abstract hash primitives `P : Crypto.Prims` and the way the translation binds the external `hmac`/`HKDF` calls of
   the `cryptography` package to them (`KS.hmacOf P`, `KS.hkdfExpandOf P`, `KS.hkdfExtractOf P`, `KS.digestOf P`,
   `macSuite P tag` = the hash a `hashes.SHAxxx` class tag selects);
 * the dict displays the Python functions return, as association lists in display order, filled from a record
   (`KS.tls13Table`, `KS.initTable`, `KS.quicTable`: key names as code points; they compute nothing), and `KS.secOf`, which
   reads a key-log label string as the enum `Label` that `lastOf` (last entry with that label) is indexed by;
 * `ivLenTls12`: the code's own fixed-IV-length table; its agreement with the RFCs is `Props.C15.iv_table_eq_rfc`.
The proofs compose `Props/Translated/KeySched.lean` (`…_eq_model`) with `Props/C15.lean`. Hypotheses are those of the
model-level theorems (lawful hash suites, lengths below 2^16 so that `to_bytes(2)` succeeds, …), spelled out.
-/
import TLX.Props.Translated.KeySched
import TLX.Props.C15
namespace TLX.OnCode.C15
open TLX TLX.PyRt TLX.Crypto TLX.KeySchedule TLX.Spec.KeySchedules TLX.Lemmas.KeySchedule TLX.Props.Translated.KS

private theorem prfHash_eq (P : Prims) (mac : MacTag) : tls12PrfHash P (mac = .sha384) = prfHash12 P mac := by
  cases mac <;> rfl

/-- Python `prf_tls_12` (as translated; the `while len(block) < length` loop included) is RFC 5246 §5 `PRF` = `P_<hash>`
    with SHA-384 for `_SHA384` suites and SHA-256 otherwise, for every secret, label, randoms and length. NOTE the seed
    order `server_random + client_random` is that of the function's parameters as the key-expansion call passes them. -/
theorem prf_tls_12_eq_rfc (P : Prims) (mac : MacTag) (hl : (tls12PrfHash P (mac = .sha384)).Lawful)
    (secret cr sr label : Bytes) (n : Nat) :
    Gen.Py.prf_tls_12 (hmacOf P) secret cr sr label n mac =
      .ok (prf12 (tls12PrfHash P (mac = .sha384)) secret label (sr ++ cr) n) := by
  rw [prf_tls_12_eq_model, Props.C15.tls12_prf_eq_rfc P mac (prfHash_eq P mac ▸ hl)]
  rfl

/-- Python `gen_master_secret_tls_12` (as translated) is RFC 5246 §8.1 `master_secret = PRF(pre_master_secret,
    "master secret", ClientHello.random + ServerHello.random)[0..47]` (digest of at least 24 bytes: two HMAC rounds give 48). -/
theorem gen_master_secret_tls_12_eq_rfc (P : Prims) (mac : MacTag) (hl : (tls12PrfHash P (mac = .sha384)).Lawful)
    (h24 : 24 ≤ (tls12PrfHash P (mac = .sha384)).outLen) (pms cr sr : Bytes) :
    Gen.Py.gen_master_secret_tls_12 (hmacOf P) pms cr sr mac = masterSecret12 (tls12PrfHash P (mac = .sha384)) pms cr sr := by
  rw [gen_master_secret_tls_12_eq_model]
  exact Props.C15.master_secret_tls12_eq_rfc P mac (prfHash_eq P mac ▸ hl) (prfHash_eq P mac ▸ h24) pms cr sr

/-- Python `dev_tls_12_keys` (as translated) returns, in the display order of its `keys` dict (client/server MAC secret,
    client/server key, client/server IV), RFC 5246 §6.3's partition of the key block `PRF(master_secret, "key expansion",
    server_random + client_random)`, for every master secret, randoms, lengths, cipher and AEAD flag — provided the
    requested key block is long enough for the MAC keys and keys (every suite of the table meets it). -/
theorem dev_tls_12_keys_eq_rfc (P : Prims) (mac : MacTag) (hl : (tls12PrfHash P (mac = .sha384)).Lawful)
    (master cr sr : Bytes) (kl ml kbl : Nat) (c : CipherTag) (ua : Nat)
    (hkb : 2 * (if decide (ua ≠ 0) then 0 else ml) + 2 * kl ≤ kbl) :
    (Gen.Py.dev_tls_12_keys (hmacOf P) master cr sr kl ml kbl c ua mac).map (List.map Prod.snd) =
      .ok (let K := connectionKeys P .tls12
              ⟨tls12PrfHash P (mac = .sha384), if decide (ua ≠ 0) then 0 else ml, kl, ivLenTls12 c (decide (ua ≠ 0))⟩
              master cr sr
           [K.clientWriteMacKey, K.serverWriteMacKey, K.clientWriteKey, K.serverWriteKey, K.clientWriteIv, K.serverWriteIv]) := by
  rw [dev_tls_12_keys_eq_model]
  have := Props.C15.tls12_keys_eq_rfc P mac (prfHash_eq P mac ▸ hl) master cr sr kl ml kbl c (decide (ua ≠ 0)) hkb
  cases h : devTls12Keys P master cr sr kl ml kbl c (decide (ua ≠ 0)) mac with
  | error e => rw [h] at this; simp [Except.map] at this
  | ok k =>
    rw [h] at this
    simp only [Except.map, Except.ok.injEq] at this
    simp only [ofR, Except.map, keys6Table, List.map_cons, List.map_nil, ← this, toSpec]

/-- Python `dev_tls_13_keys` (as translated), for every key-log secret list, key length below 2^16 and hash: the returned
    dict holds, for each of the four traffic secrets, `HKDF-Expand-Label(secret, "key", "", key_length)` and
    `HKDF-Expand-Label(secret, "iv", "", 12)` (RFC 8446 §7.3) of the LAST entry with that label, `None` without one. -/
theorem dev_tls_13_keys_eq_rfc (P : Prims) (ss : List (List Nat × Bytes)) (kl : Nat) (h : MacTag) (hk : kl < 65536) :
    Gen.Py.dev_tls_13_keys (hkdfExpandOf P) ss kl h = .ok (tls13Table
      { clientHsKey := (lastOf .clientHandshake (ss.map secOf)).map (tls13WriteKey (macSuite P h) · kl)
        serverHsKey := (lastOf .serverHandshake (ss.map secOf)).map (tls13WriteKey (macSuite P h) · kl)
        clientAppKey := (lastOf .clientTraffic0 (ss.map secOf)).map (tls13WriteKey (macSuite P h) · kl)
        serverAppKey := (lastOf .serverTraffic0 (ss.map secOf)).map (tls13WriteKey (macSuite P h) · kl)
        clientHsIv := (lastOf .clientHandshake (ss.map secOf)).map (tls13WriteIv (macSuite P h))
        serverHsIv := (lastOf .serverHandshake (ss.map secOf)).map (tls13WriteIv (macSuite P h))
        clientAppIv := (lastOf .clientTraffic0 (ss.map secOf)).map (tls13WriteIv (macSuite P h))
        serverAppIv := (lastOf .serverTraffic0 (ss.map secOf)).map (tls13WriteIv (macSuite P h)) }) := by
  rw [dev_tls_13_keys_eq_model, Props.C15.tls13_keys_eq_rfc _ _ _ hk]
  rfl

/-- Python `dev_initial_keys` (as translated) for QUIC v1 without the chacha flag: the returned dict holds RFC 9001 §5.2's
    Initial keys — key, IV, header-protection key of the client and of the server Initial secret derived from the
    Destination Connection ID with the v1 salt, AEAD_AES_128_GCM sizes — for every connection id (SHA-256: 32-byte digest). -/
theorem dev_initial_keys_eq_rfc (P : Prims) (h32 : P.sha256.outLen = 32) (dcid : Bytes) :
    Gen.Py.dev_initial_keys (hkdfExpandOf P) (hkdfExtractOf P) dcid .v1 false = .ok (some (initTable
      { clientKey := (quicInitialClientKeys P.sha256 dcid).key, clientIv := (quicInitialClientKeys P.sha256 dcid).iv,
        clientHp := (quicInitialClientKeys P.sha256 dcid).hp, serverKey := (quicInitialServerKeys P.sha256 dcid).key,
        serverIv := (quicInitialServerKeys P.sha256 dcid).iv, serverHp := (quicInitialServerKeys P.sha256 dcid).hp })) := by
  rw [dev_initial_keys_eq_model, Props.C15.quic_initial_eq_rfc P.sha256 h32 dcid]
  rfl

/-- Python `key_update` (as translated) on the decryptor key list of generation `n` (server key, server IV, client key,
    client IV, server secret, client secret, each as RFC 9001 derives them from the `n`-fold "quic ku" update of the
    initial application secrets) returns a decryptor holding exactly generation `n + 1` (RFC 9001 §6.1) — for secrets as
    long as the digest, which is what a key log holds (for other lengths the code differs from the RFC:
    `Props.C15.quic_key_update_any_length_counterexample`). -/
theorem key_update_eq_rfc (P : Prims) (h : MacTag) (hl : (macSuite P h).Lawful) (kl : Nat) (hk : kl < 65536)
    (ho : (macSuite P h).outLen < 65536) (ver : QuicVersion) (s0 c0 : Bytes)
    (hs : s0.length = (macSuite P h).outLen) (hc : c0.length = (macSuite P h).outLen) (n : Nat) :
    Gen.Py.key_update (hkdfExpandOf P) (digestOf P) h kl ver (specGeneration (macSuite P h) kl s0 c0 n) =
      .ok { keys := specGeneration (macSuite P h) kl s0 c0 (n + 1) } := by
  rw [key_update_eq_model, keyUpdate_specGeneration (macSuite P h) hl kl hk ho s0 c0 hs hc n]
  rfl

/-- Python `dev_quic_keys` (as translated) for QUIC v1 with all four traffic secrets in the key log: the returned dict
    holds RFC 9001 §5.1's packet-protection keys (`quic key`, `quic iv`, `quic hp` of HKDF-Expand-Label) of the last
    secret with each label; the statement is the model-level one transported along `dev_quic_keys_eq_model`, with
    the result dict given by `KS.quicTable` of the record of RFC values. -/
theorem dev_quic_keys_eq_rfc (P : Prims) (h : MacTag) (kl : Nat) (hk : kl < 65536) (ss : List (List Nat × Bytes))
    (ch sh ca sa : Bytes)
    (h1 : lastOf .clientHandshake (ss.map secOf) = some ch) (h2 : lastOf .serverHandshake (ss.map secOf) = some sh)
    (h3 : lastOf .clientTraffic0 (ss.map secOf) = some ca) (h4 : lastOf .serverTraffic0 (ss.map secOf) = some sa) :
    ∃ k : QuicKeys, Gen.Py.dev_quic_keys (hkdfExpandOf P) kl ss h .v1 = .ok (quicTable k) ∧
      k.clientHs = tripleSpec (quicPacketKeys (macSuite P h) ch kl) ∧
      k.serverHs = tripleSpec (quicPacketKeys (macSuite P h) sh kl) ∧
      k.clientApp = tripleSpec (quicPacketKeys (macSuite P h) ca kl) ∧
      k.serverApp = tripleSpec (quicPacketKeys (macSuite P h) sa kl) := by
  have := Props.C15.quic_keys_eq_rfc (macSuite P h) kl (ss.map secOf) hk
  rw [h1, h2, h3, h4] at this
  rw [dev_quic_keys_eq_model, this]
  exact ⟨_, rfl, rfl, rfl, rfl, rfl⟩

/-! ### non-vacuity: a lawful instance with the real digest sizes meets every hypothesis; the values are real data -/

example : (tls12PrfHash Props.C15.sizedToy (MacTag.sha384 = .sha384)).Lawful ∧
    (tls12PrfHash Props.C15.sizedToy (MacTag.sha256 = .sha384)).Lawful :=
  ⟨Props.C15.sizedToy_lawful.sha384, Props.C15.sizedToy_lawful.sha256⟩
example : 24 ≤ (tls12PrfHash Props.C15.sizedToy (MacTag.sha256 = .sha384)).outLen := by decide
-- AES-256-GCM-SHA384: no MAC keys, 2*32 key bytes, 4-byte IVs out of a 72-byte key block
example : 2 * (if decide ((1 : Nat) ≠ 0) then 0 else 48) + 2 * 32 ≤ 72 := by decide
example : ((Gen.Py.dev_tls_12_keys (hmacOf Props.C15.sizedToy) (List.replicate 48 7) [1, 2] [3, 4] 32 48 72 .aesgcm 1
    .sha384).map (List.map (fun e => e.2.length))) = .ok [0, 0, 32, 32, 4, 4] := by decide +kernel
example : (Gen.Py.prf_tls_12 (hmacOf Props.C15.sizedToy) [9, 9] [1, 2] [3, 4] [5] 70 .sha256).map List.length = .ok 70 := by
  decide +kernel
example : Props.C15.sizedToy.sha256.outLen = 32 := rfl
example : ((Gen.Py.dev_initial_keys (hkdfExpandOf Props.C15.sizedToy) (hkdfExtractOf Props.C15.sizedToy)
    [0x83, 0x94, 0xc8, 0xf0, 0x3e, 0x51, 0x57, 0x08] .v1 false).map (Option.map (List.map (fun e => e.2.length)))) =
    .ok (some [16, 12, 16, 16, 12, 16]) := by decide +kernel
-- key_update: 32-byte secrets with the 32-byte digest
example : (macSuite Props.C15.sizedToy .sha256).Lawful ∧ (16 : Nat) < 65536 ∧
    (macSuite Props.C15.sizedToy .sha256).outLen < 65536 ∧
    (List.replicate 32 (1 : UInt8)).length = (macSuite Props.C15.sizedToy .sha256).outLen :=
  ⟨Props.C15.sizedToy_lawful.sha256, by decide, by decide, by decide⟩
-- dev_tls_13_keys / dev_quic_keys: a key log with all four secrets, one label twice (the last one counts)
example : lastOf .clientTraffic0 ([([67, 76, 73, 69, 78, 84, 95, 84, 82, 65, 70, 70, 73, 67, 95, 83, 69, 67, 82, 69, 84, 95, 48], [1]),
    ([83, 69, 82, 86, 69, 82, 95, 84, 82, 65, 70, 70, 73, 67, 95, 83, 69, 67, 82, 69, 84, 95, 48], [2]),
    ([67, 76, 73, 69, 78, 84, 95, 84, 82, 65, 70, 70, 73, 67, 95, 83, 69, 67, 82, 69, 84, 95, 48], [3])].map secOf) = some [3] := by
  decide

end TLX.OnCode.C15
