/-
Non-vacuity and witnesses for `Props/ExportSeg.lean` (toy primitives, toy hashes with the real digest sizes, the regenerated
suite table).

C05
  `seg_instance`        the TLS 1.2 connection of `C01Capstone.Ex` (`t0`) captured twice: `cap0` (ClientHello in two segments,
                        coalesced server flight, a retransmission, a split record, client ISN wrapping 2^32) and `capB` (one
                        record per segment, the server's third record captured AFTER its fourth, the server's sequence
                        numbers wrapping 2^32 inside the stream, other capture times): every hypothesis of
                        `connection_segmentation_independent` holds, the two exports are `SameExport` — and they DO differ as
                        frame lists (`seg_frames_differ`).
  `order_matters`       the same two byte streams, each direction delivered in order, but all server segments captured before
                        the client's: `SameReleaseOrder` fails and nothing is decrypted — the hypothesis cannot be dropped.
  `overtaken_first_segment_differs`   the open finding `Props.C05.reassembly_exact_counterexample` at connection level: the
                        first data segment of a direction overtaken by a segment that is a whole record — `Delivers` holds,
                        `NoEarlyDelivery` does not, and the export (with `-a`) loses a record.
C09
  `keylog_instance`     two key-log FILES for the capture of `C01File.Ex`: `C01File2.Ex.ls0` (comment, the CLIENT_RANDOM
                        line in upper-case hex with CRLF, another tool's line) and `lsB` (the line in lower case with LF, the
                        upper-case line again, a comment): well formed, equivalent, consistent, CR only in CRLF — different
                        key lists, the same TLS export.
  `onlySecret_instance` `OnlySecret` for `ls0` from `ConsistentFor`.
-/
import TLX.Props.ExportSeg
import TLX.Props.C01RfcEx
set_option autoImplicit false
set_option linter.unusedSimpArgs false
set_option linter.unusedVariables false
namespace TLX.Props.ExportSeg.Ex
open TLX TLX.Props.C01Capstone TLX.Props.C01Capstone.Ex TLX.Props.C01Pipeline TLX.Props.C01Pipeline.Ex2
open TLX.Lemmas.Pipeline TLX.Lemmas.Capstone TLX.Props.C01.Ex TLX.Lemmas.ExportSeg TLX.Spec.TlsFraming
open TLX.Spec.TlsConnection TLX.Reassembly

/-! ### helpers -/

theorem noEarly_of_head (isn : Nat) (segs : List Seg) (h : ∀ s, segs.head? = some s → s.seq = isn % 2 ^ 32) :
    Props.C05.NoEarlyDelivery isn segs := by
  intro pre post hsplit hno
  cases pre with
  | nil => rfl
  | cons s t => exact absurd (h s (by rw [hsplit]; rfl)) (hno s (List.mem_cons_self ..))

/-- a delivery (any cuts, duplicates, displacements) of a stream of whole records whose first captured segment is the one
    that starts the stream -/
theorem deliversStream_of_head (info : Nat → Pipeline.Info) (c : Pipeline.Conn) (d : Bool) (recs : List Bytes)
    (hwr : ∀ r ∈ recs, WholeRecord r) (hl : recs.flatten.length ≤ 2 ^ 31) (k isn : Nat)
    (hd : Delivers k isn recs.flatten ((dirSegs info c.server d c.pkts).map Props.C05.wire))
    (hh : ∀ s, (dirSegs info c.server d c.pkts).head? = some s → s.seq = isn % 2 ^ 32) :
    DeliversStream info c d recs.flatten :=
  ⟨(frame_flatten recs hwr).2, hl, k, isn, hd, noEarly_of_head isn _ hh⟩

/-! ### C05: one connection, two captures -/

def capB : List (Bool × Bytes × Nat) :=
  [(false, rC 0, 0), (true, rS 0, 0), (true, rS 1, (rS 0).length), (false, rC 1, 50), (false, rC 2 ++ rC 3, 50 + (rC 1).length),
   (false, rC 4, 112), (true, rS 3, 73 + (rS 2).length), (true, rS 2, 73), (true, rS 4, 124), (false, rC 5, 143)]
/-- the server's sequence numbers wrap 2^32 inside its stream -/
def isnB (d : Bool) : Nat := if d then 4294967200 else 1000
def pktsB : List MainLoop.Pkt := (List.range capB.length).map fun i =>
  mkPkt (capB.getD i (false, [], 0)).1 (capB.getD i (false, [], 0)).2.1 i
def infoB (tag : Nat) : Pipeline.Info :=
  ⟨(isnB (capB.getD tag (false, [], 0)).1 + (capB.getD tag (false, [], 0)).2.2) % 4294967296, 5000 + 7 * tag, [1], [2], false⟩
def connB : Pipeline.Conn := ⟨⟨[443], false, false, false, true, []⟩, sEp, cEp, [2], [1], false, pktsB⟩

def recs0 (d : Bool) : List Bytes := t0.records Cipher.Toy.prims Cipher.Toy.laws cls0 (legacySnd k0) d
def str0 (d : Bool) : Bytes := (recs0 d).flatten

theorem whole0 : ∀ d, ∀ r ∈ recs0 d, WholeRecord r := by intro d; cases d <;> decide +kernel
theorem len0 : ∀ d, (recs0 d).flatten.length ≤ 2 ^ 31 := by intro d; cases d <;> decide +kernel

/-- capture A (`cap0`): in order with a retransmission -/
theorem deliversA (d : Bool) : DeliversStream infoCap connCap d (str0 d) := by
  obtain ⟨⟨isn, hio⟩, _⟩ := delivered0 d
  have hio' : Delivers 0 isn (recs0 d).flatten ((dirSegs infoCap connCap.server d connCap.pkts).map Props.C05.wire) := hio
  refine deliversStream_of_head infoCap connCap d (recs0 d) (whole0 d) (len0 d) 0 isn hio' ?_
  intro s hs
  have := Lemmas.Delivery.inorder_head hio' (Props.C05.wire s) (by rw [List.head?_map, hs]; rfl)
  exact this

def chunksB (d : Bool) : List Bytes := if d then [rS 0, rS 1, rS 2, rS 3, rS 4] else [rC 0, rC 1, rC 2 ++ rC 3, rC 4, rC 5]

/-- capture B: the client's direction in order; the server's with one segment displaced by one position -/
theorem deliversB (d : Bool) : DeliversStream infoB connB d (str0 d) := by
  cases d
  · have hcut : IsCut (recs0 false).flatten (chunksB false) := ⟨by decide +kernel, by decide +kernel⟩
    have e2 : (dirSegs infoB connB.server false connB.pkts).map Props.C05.wire = segsOf (isnB false) 0 (chunksB false) := by
      decide +kernel
    refine deliversStream_of_head infoB connB false (recs0 false) (whole0 false) (len0 false) 0 (isnB false) ?_ ?_
    · rw [e2]; exact Delivers.cut _ hcut
    · decide +kernel
  · have hcut : IsCut (recs0 true).flatten (chunksB true) := ⟨by decide +kernel, by decide +kernel⟩
    have hc := Delivers.cut (k := 1) (isn := isnB true) (chunksB true) hcut
    have e1 : segsOf (isnB true) 0 (chunksB true) =
        (segsOf (isnB true) 0 (chunksB true)).take 2 ++ (segsOf (isnB true) 0 (chunksB true)).getD 2 (0, []) ::
          ([(segsOf (isnB true) 0 (chunksB true)).getD 3 (0, [])] ++ (segsOf (isnB true) 0 (chunksB true)).drop 4) := by
      decide +kernel
    have e2 : (dirSegs infoB connB.server true connB.pkts).map Props.C05.wire =
        (segsOf (isnB true) 0 (chunksB true)).take 2 ++
          ([(segsOf (isnB true) 0 (chunksB true)).getD 3 (0, [])] ++ (segsOf (isnB true) 0 (chunksB true)).getD 2 (0, []) ::
            (segsOf (isnB true) 0 (chunksB true)).drop 4) := by decide +kernel
    refine deliversStream_of_head infoB connB true (recs0 true) (whole0 true) (len0 true) 1 (isnB true) ?_ ?_
    · rw [e2]
      refine Delivers.displace _ _ (by rw [← e1]; exact hc) (Displaced.later _ _ _ _ (by decide))
    · decide +kernel

theorem orderAB : SameReleaseOrder infoCap connCap infoB connB := by
  unfold SameReleaseOrder; decide +kernel

/-- **Non-vacuity of `connection_segmentation_independent`** (and with it of `connection_release_independent`) -/
theorem seg_instance : SameExport hashes Cipher.Toy.prims kl0 infoCap connCap infoB connB :=
  connection_segmentation_independent hashes Cipher.Toy.prims kl0 infoCap infoB connCap connB rfl str0 deliversA deliversB
    orderAB

/-- what the two exports share: "hi" from the client, sixteen bytes from the server, an empty client record -/
example : exportedRecs hashes Cipher.Toy.prims infoB connB kl0 = [(false, hi), (true, k16), (false, [])] := by
  decide +kernel

/-- … and the two exports are different frame lists (times, and the sixteen bytes in two frames resp. one) -/
theorem seg_frames_differ :
    Pipeline.connOut hashes Cipher.Toy.prims infoCap connCap kl0 ≠ Pipeline.connOut hashes Cipher.Toy.prims infoB connB kl0 := by
  decide +kernel

/-! ### the interleaving matters -/

/-- capture C: the segments of capture B's client direction AFTER all segments of its server direction (each direction in
    order, one record group per segment) -/
def capC : List (Bool × Bytes × Nat) :=
  [(true, rS 0 ++ rS 1, 0), (true, rS 2 ++ rS 3, 73), (true, rS 4, 124), (false, rC 0, 0), (false, rC 1 ++ rC 2 ++ rC 3, 50),
   (false, rC 4, 112), (false, rC 5, 143)]
def pktsC : List MainLoop.Pkt := (List.range capC.length).map fun i =>
  mkPkt (capC.getD i (false, [], 0)).1 (capC.getD i (false, [], 0)).2.1 i
def infoC (tag : Nat) : Pipeline.Info :=
  ⟨(isnOf (capC.getD tag (false, [], 0)).1 + (capC.getD tag (false, [], 0)).2.2) % 4294967296, 1000 + tag, [1], [2], false⟩
def connC : Pipeline.Conn := ⟨⟨[443], false, false, false, true, []⟩, sEp, cEp, [2], [1], false, pktsC⟩
def chunksC (d : Bool) : List Bytes :=
  if d then [rS 0 ++ rS 1, rS 2 ++ rS 3, rS 4] else [rC 0, rC 1 ++ rC 2 ++ rC 3, rC 4, rC 5]

theorem deliversC (d : Bool) : DeliversStream infoC connC d (str0 d) := by
  cases d
  · have hcut : IsCut (recs0 false).flatten (chunksC false) := ⟨by decide +kernel, by decide +kernel⟩
    have e2 : (dirSegs infoC connC.server false connC.pkts).map Props.C05.wire = segsOf (isnOf false) 0 (chunksC false) := by
      decide +kernel
    refine deliversStream_of_head infoC connC false (recs0 false) (whole0 false) (len0 false) 0 (isnOf false) ?_ ?_
    · rw [e2]; exact Delivers.cut _ hcut
    · decide +kernel
  · have hcut : IsCut (recs0 true).flatten (chunksC true) := ⟨by decide +kernel, by decide +kernel⟩
    have e2 : (dirSegs infoC connC.server true connC.pkts).map Props.C05.wire = segsOf (isnOf true) 0 (chunksC true) := by
      decide +kernel
    refine deliversStream_of_head infoC connC true (recs0 true) (whole0 true) (len0 true) 0 (isnOf true) ?_ ?_
    · rw [e2]; exact Delivers.cut _ hcut
    · decide +kernel

/-- **`SameReleaseOrder` cannot be dropped**: captures A and C show deliveries of the same two byte streams (same key log,
    same options), but C releases the ServerHello before the ClientHello: nothing is decrypted. -/
theorem order_matters :
    (∀ d, DeliversStream infoCap connCap d (str0 d)) ∧ (∀ d, DeliversStream infoC connC d (str0 d)) ∧
    ¬ SameReleaseOrder infoCap connCap infoC connC ∧
    exportedRecs hashes Cipher.Toy.prims infoCap connCap kl0 = [(false, hi), (true, k16), (false, [])] ∧
    exportedRecs hashes Cipher.Toy.prims infoC connC kl0 = [] := by
  refine ⟨deliversA, deliversC, ?_, by decide +kernel, by decide +kernel⟩
  unfold SameReleaseOrder; decide +kernel

/-! ### the open finding stays outside the hypotheses -/

open TLX.Props.C05 (r1 r3) in
/-- the client sends the records `r1` (a handshake record) and `r3` (an alert), one per segment; with `-a`, no keys -/
def optsA : MainLoop.Opts := ⟨[443], false, false, true, true, []⟩
def pktsIn : List MainLoop.Pkt := [mkPkt false Props.C05.r1 0, mkPkt false Props.C05.r3 1]
def pktsSw : List MainLoop.Pkt := [mkPkt false Props.C05.r3 0, mkPkt false Props.C05.r1 1]
def infoIn (tag : Nat) : Pipeline.Info := ⟨if tag = 0 then 100 else 105, 1000 + tag, [1], [2], false⟩
def infoSw (tag : Nat) : Pipeline.Info := ⟨if tag = 0 then 105 else 100, 1000 + tag, [1], [2], false⟩
def connIn : Pipeline.Conn := ⟨optsA, sEp, cEp, [2], [1], false, pktsIn⟩
def connSw : Pipeline.Conn := ⟨optsA, sEp, cEp, [2], [1], false, pktsSw⟩

/-- **`Props.C05.reassembly_exact_counterexample` at connection level.** Both captures show a delivery (`Delivers 1 100`) of
    the same client stream `r1 ++ r3`; in the second the segment that starts the stream is overtaken by a segment that is a
    whole record: `NoEarlyDelivery` fails, the overtaken record is never released, and the export differs. Outside the
    hypotheses of `connection_segmentation_independent`, and it has to be. -/
theorem overtaken_first_segment_differs :
    Delivers 1 100 (Props.C05.r1 ++ Props.C05.r3) ((dirSegs infoIn connIn.server false connIn.pkts).map Props.C05.wire) ∧
    Delivers 1 100 (Props.C05.r1 ++ Props.C05.r3) ((dirSegs infoSw connSw.server false connSw.pkts).map Props.C05.wire) ∧
    WholeRecords (Props.C05.r1 ++ Props.C05.r3) ∧
    Props.C05.NoEarlyDelivery 100 (dirSegs infoIn connIn.server false connIn.pkts) ∧
    ¬ Props.C05.NoEarlyDelivery 100 (dirSegs infoSw connSw.server false connSw.pkts) ∧
    exportedRecs hashes Cipher.Toy.prims infoIn connIn [] = [(false, Props.C05.r1), (false, Props.C05.r3)] ∧
    exportedRecs hashes Cipher.Toy.prims infoSw connSw [] = [(false, Props.C05.r3)] := by
  have hc : Delivers 1 100 (Props.C05.r1 ++ Props.C05.r3) (segsOf 100 0 [Props.C05.r1, Props.C05.r3]) :=
    Delivers.cut [Props.C05.r1, Props.C05.r3] ⟨by decide, by decide⟩
  refine ⟨?_, ?_, by simp [WholeRecords, frame, hdrLen, Props.C05.r1, Props.C05.r3], ?_, ?_, by decide +kernel, by decide +kernel⟩
  · have e : (dirSegs infoIn connIn.server false connIn.pkts).map Props.C05.wire = segsOf 100 0 [Props.C05.r1, Props.C05.r3] := by
      decide +kernel
    rw [e]; exact hc
  · have e : (dirSegs infoSw connSw.server false connSw.pkts).map Props.C05.wire
        = [] ++ ([(105, Props.C05.r3)] ++ (100, Props.C05.r1) :: []) := by decide +kernel
    rw [e]
    exact Delivers.displace _ _ hc (Displaced.later [] [(105, Props.C05.r3)] [] (100, Props.C05.r1) (by decide))
  · exact noEarly_of_head 100 _ (by decide +kernel)
  · intro h
    have := h [⟨0, 105, Props.C05.r3⟩] [⟨1, 100, Props.C05.r1⟩] (by decide +kernel) (by decide)
    revert this
    decide +kernel

/-! ### C05: two runs of the tool -/

section Runs
open TLX.MainLoop TLX.Export TLX.Spec.Demux TLX.Props.C01File TLX.Props.C01File.Ex TLX.Spec.TlsCapture

theorem deliversStream_congr (info : Nat → Pipeline.Info) (c c' : Pipeline.Conn) (hs : c.server = c'.server)
    (hp : c.pkts = c'.pkts) (d : Bool) (str : Bytes) (h : DeliversStream info c d str) : DeliversStream info c' d str := by
  unfold DeliversStream at h ⊢
  rw [← hs, ← hp]; exact h

/-- run 1: the capture FILE of `C01File.Ex` (an ARP request, then `cap0` as Ethernet / IPv4 / TCP frames) -/
def xs1 : List (MainLoop.Item Keylog.Key) := itemsFrom 0 (evs0.map CEv.cap)
def info1 : Nat → Pipeline.Info := capInfo (evs0.map CEv.cap)
/-- run 2: capture B as the main loop sees it -/
def xs2 : List (MainLoop.Item Keylog.Key) := pktsB.map .frame
def o0 : Opts := optsOf args0 ports0 []

theorem flow2 : (tcpView o0 xs2).filter (sameFlow (pktsB.headD (mkPkt false [] 0))) = pktsB.headD (mkPkt false [] 0) :: pktsB.tail := by
  decide +kernel

theorem deliversRun1 (d : Bool) :
    DeliversStream info1 (flowConn hashes Cipher.Toy.prims info1 o0 p00 TLX.Props.C01File.Ex.pkts0.tail) d (str0 d) := by
  obtain ⟨_, _, _, _, hdelv⟩ := described_session fl0 (by decide) evs0 described0 o0 rfl
    (by decide +kernel) (by decide +kernel) p00 TLX.Props.C01File.Ex.pkts0.tail fp0
  obtain ⟨⟨isn, hio⟩, _⟩ := hdelv _ wires0 d
  have hio' : Delivers 0 isn (recs0 d).flatten
      ((dirSegs info1 (sessionOf (evs0.map CEv.cap) o0 p00 TLX.Props.C01File.Ex.pkts0.tail).server d
        (sessionOf (evs0.map CEv.cap) o0 p00 TLX.Props.C01File.Ex.pkts0.tail).pkts).map Props.C05.wire) := hio
  have := deliversStream_of_head info1 (sessionOf (evs0.map CEv.cap) o0 p00 TLX.Props.C01File.Ex.pkts0.tail) d (recs0 d)
    (whole0 d) (len0 d) 0 isn hio' (by
      intro s hs
      exact Lemmas.Delivery.inorder_head hio' (Props.C05.wire s) (by rw [List.head?_map, hs]; rfl))
  exact this

theorem deliversRun2 (d : Bool) :
    DeliversStream infoB (flowConn hashes Cipher.Toy.prims infoB o0 (pktsB.headD (mkPkt false [] 0)) pktsB.tail) d (str0 d) :=
  deliversStream_congr infoB connB _ (by decide +kernel) (by decide +kernel) d _ (deliversB d)

/-- **Non-vacuity of `export_segmentation_independent`**: the two runs hand the writer, for the flow, blocks that differ in
    frame boundaries and times only. -/
theorem export_seg_instance :
    ∃ pre1 post1 pre2 post2 f1 f2 pc ps,
      framesFrom (fun _ _ _ => none) hashes Cipher.Toy.prims freshState args0 (some kl0) xs1 info1 =
        .ok (pre1 ++ f1.map (Pipeline.addressed o0 (flowConn hashes Cipher.Toy.prims info1 o0 p00 TLX.Props.C01File.Ex.pkts0.tail)) ++ post1) ∧
      framesFrom (fun _ _ _ => none) hashes Cipher.Toy.prims freshState args0 (some kl0) xs2 infoB =
        .ok (pre2 ++ f2.map (Pipeline.addressed o0
          (flowConn hashes Cipher.Toy.prims infoB o0 (pktsB.headD (mkPkt false [] 0)) pktsB.tail)) ++ post2) ∧
      Spec.reassemble f1 = some (pc, ps) ∧ Spec.reassemble f2 = some (pc, ps) := by
  obtain ⟨hF1, hc1, _, _, _⟩ := described_session fl0 (by decide) evs0 described0 o0 rfl
    (by decide +kernel) (by decide +kernel) p00 TLX.Props.C01File.Ex.pkts0.tail fp0
  obtain ⟨pre1, post1, pre2, post2, f1, f2, pc, ps, e1, e2, r1, r2, _⟩ :=
    export_segmentation_independent (fun _ _ _ => none) hashes Cipher.Toy.prims args0 (some kl0) [] ports0 rfl rfl
      xs1 xs2 info1 infoB (by rw [show xs1 = itemsFrom 0 (evs0.map CEv.cap) from rfl, dsbKeys_itemsFrom]; decide +kernel)
      (refPkt fl0) p00 TLX.Props.C01File.Ex.pkts0.tail hF1 hc1
      (pktsB.headD (mkPkt false [] 0)) (pktsB.headD (mkPkt false [] 0)) pktsB.tail flow2 (by decide +kernel)
      str0 deliversRun1 deliversRun2 (by unfold SameReleaseOrder; decide +kernel)
  exact ⟨pre1, post1, pre2, post2, f1, f2, pc, ps, e1, e2, r1, r2⟩

end Runs

/-! ### C09: two key-log files -/

section KeylogFiles
open TLX.Keylog TLX.Spec.NssKeylog TLX.Props.C09Found TLX.Props.C01File2.Ex TLX.Lemmas.C01Rfc TLX.Export
open TLX.Props.C01File.Ex TLX.Props.C01Rfc.Ex

/-- the same secret delivered differently: lower-case hex with LF, the upper-case CRLF line once more, a comment behind -/
def lsB : List (FLine × Bool) :=
  [(.key tr0 (Keylog.hexOf (Pipeline.natsOfBytes cr0)) (Keylog.hexOf (List.replicate 48 5)), false),
   (.key tr0 hcU (Keylog.hexOf (List.replicate 48 5)), true), (.other [35, 32, 120], false)]

theorem lsB_wf : ∀ x ∈ lsB, x.1.WF := by
  intro x hx
  simp only [lsB, List.mem_cons, List.mem_nil_iff, or_false] at hx
  rcases hx with rfl | rfl | rfl
  · show DenotesVia _ tr0 _ _
    exact ⟨rfl, by decide, by decide +kernel, by decide, by decide +kernel, by decide⟩
  · show DenotesVia _ tr0 hcU _
    exact ⟨rfl, by decide, by decide +kernel, by decide, by decide +kernel, by decide⟩
  · exact ⟨by decide, by decide, Lemmas.Keylog.not_looks_of_first 35 _ (by decide)⟩

theorem mem0 (tr : Triple) : (∃ hc hv crlf, (FLine.key tr hc hv, crlf) ∈ ls0) ↔ tr = tr0 := by
  constructor
  · rintro ⟨hc, hv, crlf, h⟩
    simp only [ls0, List.mem_cons, List.mem_nil_iff, or_false, Prod.mk.injEq] at h
    rcases h with ⟨h, _⟩ | ⟨h, _⟩ | ⟨h, _⟩
    · cases h
    · cases h; rfl
    · cases h
  · rintro rfl
    exact ⟨hcU, Keylog.hexOf (List.replicate 48 5), true, by simp [ls0]⟩

theorem memB (tr : Triple) : (∃ hc hv crlf, (FLine.key tr hc hv, crlf) ∈ lsB) ↔ tr = tr0 := by
  constructor
  · rintro ⟨hc, hv, crlf, h⟩
    simp only [lsB, List.mem_cons, List.mem_nil_iff, or_false, Prod.mk.injEq] at h
    rcases h with ⟨h, _⟩ | ⟨h, _⟩ | ⟨h, _⟩
    · cases h; rfl
    · cases h; rfl
    · cases h
  · rintro rfl
    exact ⟨hcU, Keylog.hexOf (List.replicate 48 5), true, by simp [lsB]⟩

theorem equiv0B : Equivalent (fileText ls0) (fileText lsB) := by
  intro tr
  rw [hasTriple_fileText_iff ls0 ls0_wf, hasTriple_fileText_iff lsB lsB_wf, mem0, memB]

theorem consistent0 : Consistent (fileText ls0) := by
  intro tr tr' h h' _ _
  rw [hasTriple_fileText_iff ls0 ls0_wf, mem0] at h h'
  rw [h, h']

/-- the two files are parsed to different key lists (one key resp. two) … -/
example : (fileKeysOf (some (fileText ls0))).getD [] ≠ (fileKeysOf (some (fileText lsB))).getD [] := by decide +kernel

def oX : MainLoop.Opts := ⟨ports0, false, false, false, Options.keepOriginalPorts none, []⟩

/-- … **and the TLS export of the two runs is the same** (non-vacuity of `export_keylog_text_independent`, and through it
    of `export_keylog_denotation_independent`, `tlsFrames_keylog_independent`, `connOut_keylog_independent`) -/
theorem keylog_instance :
    ∃ quic1 quic2,
      framesFrom (fun _ _ _ => none) hashes Cipher.Toy.prims MainLoop.freshState args0 (fileKeysOf (some (fileText ls0))) xs1 info1 =
        .ok ((TLX.Lemmas.ExportProps.tlsFrames hashes Cipher.Toy.prims info1 oX (fileKeysOf (some (fileText ls0))) xs1).flatten
          ++ quic1) ∧
      framesFrom (fun _ _ _ => none) hashes Cipher.Toy.prims MainLoop.freshState args0 (fileKeysOf (some (fileText lsB))) xs1 info1 =
        .ok ((TLX.Lemmas.ExportProps.tlsFrames hashes Cipher.Toy.prims info1 oX (fileKeysOf (some (fileText ls0))) xs1).flatten
          ++ quic2) :=
  export_keylog_text_independent (fun _ _ _ => none) hashes Cipher.Toy.prims info1 MainLoop.freshState args0 oX rfl
    (fileText ls0) (fileText lsB) (wellFormed_fileText ls0 ls0_wf) (wellFormed_fileText lsB lsB_wf) equiv0B consistent0
    (crOk_fileText ls0 ls0_wf) (crOk_fileText lsB lsB_wf) xs1

/-- `OnlySecret` — the key-log hypothesis of `tls12_capture_exact_rfc` — for the key-log file of `C01File2.Ex`, from C09's
    consistency -/
theorem onlySecret_instance :
    OnlySecret ls0 Spec.RfcSuite.labelClientRandom (Pipeline.natsOfBytes t0.ch.random) (Pipeline.natsOfBytes ms0) := by
  have htr : tr0 = ⟨Spec.RfcSuite.labelClientRandom, Pipeline.natsOfBytes t0.ch.random, Pipeline.natsOfBytes ms0⟩ := by
    decide +kernel
  apply ExportSeg.onlySecret_of_consistent ls0 ls0_wf
  · intro tr tr' h h' _ _ _
    rw [hasTriple_fileText_iff ls0 ls0_wf, mem0] at h h'
    rw [h, h']
  · exact ⟨hcU, Keylog.hexOf (List.replicate 48 5), true, by rw [← htr]; simp [ls0]⟩

end KeylogFiles

end TLX.Props.ExportSeg.Ex
