/-
C02 from capture file to output file, second part (`Props/C02File.lean` is the first): what its statement still excluded.

  `quic_capture_exact2` / `_encoded`   `exportFile` on a capture in which
     (1) the connection is ONE interleaved history (`Props/C02Capstone3.lean`): datagrams of coalesced packets of several
         levels, both directions in any interleaving (`QEv2.mix`: Initial / Handshake packets optionally closed by a
         1-RTT packet — server 1-RTT data before the client's Finished, 1-RTT behind Handshake in one datagram), followed by
         a 1-RTT-only part with any key updates (`QEv2.one`);
     (3) datagrams of OTHER QUIC connections stand anywhere between them (`QEv2.other`: anything the main loop takes for
         QUIC), separated from this connection in the sense of Props/C04 (`QuicSeparated`, both ways: other 4-tuple, their
         DCIDs none of this session's connection IDs and vice versa, no connection ID of one a prefix of the other's
         short-header bytes) — lifted through `C04.quic_route_exact`: the session list of the run is the interleaving of the
         two solo runs, so this connection still has exactly ONE session, in the same state;
     and packets the loop does not take for QUIC (`QEv2.foreign`, `C02File.NotQuic`).
     Conclusion: the output file (unless scapy / dpkt refuse a frame: write-abort alternative) reads back, as the block of
     the connection's session, exactly `blockOf2`: one UDP frame per DATAGRAM whose 1-RTT packet carried STREAM data.
  `QuicCapture2`                        all hypotheses in one place, each field with its justification.
  `quic_capture_session2`               the core: the QUIC view is a `Merge` of the connection's calls (`ownView`) and the
                                        others' (`othView`) — `quicView_mixPhase`, `quicView_onePhase2`; the own run is one
                                        session (`quicRun_mix`: routing of long- and short-header datagrams in the mixed
                                        part, `C02File.quicRun_one`); its export is `quic_connection_exact_interleaved`.
  `export_of_quic_session_among`        the file layers around one of several QUIC sessions.
  `Ex.quic_file2_instance`              non-vacuity: a concrete capture file (0.5-RTT data coalesced behind the server's
                                        Handshake packet, the client's request coalesced behind its Finished, a key update,
                                        a datagram of another flow), every hypothesis discharged by evaluation.
Not in this file: 0-RTT packets (see C02Capstone3, item 2), the no-abort variants (as `C02File.quic_capture_exact_ranges`;
with other QUIC sessions exporting too, `OthersFit` is no longer trivial).
Core Lean only.
-/
import TLX.Props.C02File
import TLX.Props.C02Capstone3
import TLX.Props.C04
set_option linter.unusedSimpArgs false
set_option linter.unusedVariables false
set_option autoImplicit false
namespace TLX.Props.C02File2
open TLX TLX.MainLoop TLX.Spec.Demux TLX.Lemmas.MainLoop TLX.Dissect TLX.OutBytes
open TLX.Container (Item)
open TLX.Props.C01File TLX.Spec.FrameBuild TLX.Spec.TlsCapture TLX.Spec.QuicCapture TLX.Props.C12Dissect
open TLX.Spec.QuicSender TLX.Spec.QuicConnection TLX.Spec.QuicPackets TLX.QuicPipeline TLX.Props.C02Capstone
open TLX.Props.C02File TLX.Props.C02Capstone3

/-! ### the file layers around ONE of several QUIC sessions -/
section Glue
open TLX.Export

theorem merge_singleton {α : Type} {x : α} {b m : List α} (h : Merge [x] b m) : ∃ l1 l2, m = l1 ++ [x] ++ l2 := by
  generalize ha : [x] = a at h
  induction h with
  | nil => cases ha
  | left y hm ih =>
    cases ha
    exact ⟨[], _, by rw [Merge.eq_of_right_nil hm.symm]; rfl⟩
  | right y hm ih =>
    obtain ⟨l1, l2, rfl⟩ := ih ha
    exact ⟨y :: l1, l2, rfl⟩

/-- `C02File.export_of_quic_session` with other QUIC sessions before and after the session of interest in
    `quic_sessions`: the block of the session is still read back from the output file -/
theorem export_of_quic_session_among (mask : Quic.Dissect.MaskFn) (H : Crypto.Prims) (P : Cipher.Prims) (args : Args)
    (legacy : Bool) (keyFile : Option Keylog.Str) (file : Bytes) (cap : List CapEv)
    (hread : Container.read legacy file = .ok (cap.map CapEv.item)) (hok : CapOk cap)
    (hnoc : args.checksumTest = false)
    (pm : List (Int × Int)) (ports : List Int)
    (hpm : Options.getPortMap Options.Src.bare args.mArg = .ok pm)
    (hports : Options.serverPorts Options.Src.builtin Options.Src.pDefault args.pArg = .ok ports)
    (S1 S2 : List (QuicSess QConn)) (sess : QuicSess QConn)
    (hq : quicRun (quicMachine mask H P (capInfo cap)) (optsOf args ports pm) []
      (quicView (optsOf args ports pm) ((fileKeysOf keyFile).getD []) (itemsFrom 0 cap)) = S1 ++ [sess] ++ S2)
    (blk : List Pipeline.OutPkt)
    (hblk : (quicMachine mask H P (capInfo cap)).out args.metadata sess.st = blk) :
    (∃ e, exportFile mask H P args legacy keyFile file = .abort (.write e)) ∨
    ∃ f, exportFile mask H P args legacy keyFile file = .file f ∧ ReadsBack f blk := by
  have hopt := optionsBad_false args pm ports hpm hports
  have hing := ingest_of_capture Keylog.srcHexClass legacy file cap hread hok
  rw [← hnoc] at hing
  have hout := C18.fresh_run_is (Pipeline.tlsMachine H P (capInfo cap)) (quicMachine mask H P (capInfo cap))
    (optsOf args ports pm) ((fileKeysOf keyFile).getD []) (itemsFrom 0 cap)
  rw [hq] at hout
  simp only [List.flatMap_append, List.flatMap_cons, List.flatMap_nil, List.append_nil] at hout
  have hmd : (optsOf args ports pm).metadata = args.metadata := rfl
  rw [hmd, hblk] at hout
  generalize (List.flatMap (fun s => (Pipeline.tlsMachine H P (capInfo cap)).out s.st
    ((fileKeysOf keyFile).getD [] ++ dsbKeys (optsOf args ports pm) (itemsFrom 0 cap)))
    (tlsRun (Pipeline.tlsMachine H P (capInfo cap)) (optsOf args ports pm) []
      (Spec.Demux.tcpView (optsOf args ports pm) (itemsFrom 0 cap)))) = pre0 at hout
  generalize List.flatMap (fun s => (quicMachine mask H P (capInfo cap)).out args.metadata s.st) S1 = pre1 at hout
  generalize List.flatMap (fun s => (quicMachine mask H P (capInfo cap)).out args.metadata s.st) S2 = post at hout
  have hfr := framesFrom_eq mask H P args (fileKeysOf keyFile) (itemsFrom 0 cap) (capInfo cap) pm ports hpm hports
  rw [hout] at hfr
  rcases Props.Export.exportFrom_stages mask H P freshState args legacy keyFile file hopt with
    ⟨e, hi, _⟩ | ⟨xs, is, out, hi, hf, hw⟩
  · rw [hing] at hi; cases hi
  rw [hing] at hi
  cases hi
  rw [show Ingest.lookup (infosFrom 0 cap) = capInfo cap from rfl, hfr] at hf
  cases hf
  rcases hw with ⟨e, _, he⟩ | ⟨f, hw, he⟩
  · exact .inl ⟨e, he⟩
  · refine .inr ⟨f, he, ?_⟩
    have hwf := Lemmas.Export.framesFrom_wf mask H P freshState args _ _ _ _
      (Lemmas.Export.itemsWith_good _ _ _ _ _ _ hing) hfr
    have hassoc : pre0 ++ (pre1 ++ blk ++ post) = (pre0 ++ pre1) ++ blk ++ post := by simp [List.append_assoc]
    have hw' : fileOf ((pre0 ++ pre1) ++ blk ++ post) = .ok f := by rw [← hassoc]; exact hw
    obtain ⟨A, C, B, _, _, hB, hr, hg⟩ := file_of_frames (pre0 ++ pre1) blk post f (by rw [← hassoc]; exact hwf) hw'
    exact ⟨A, C, B, hB, hr, hg⟩

end Glue
/-! ### the described capture: one interleaved connection among other QUIC connections and foreign packets -/

inductive QEv2
  /-- a datagram of the connection's mixed part: coalesced long-header packets, optionally closed by a 1-RTT packet -/
  | mix (t : Container.Time) (fr : Spec.FrameBuild.Frame) (u : Udp) (d : DgM)
  /-- a 1-RTT datagram of the connection's 1-RTT-only part -/
  | one (t : Container.Time) (fr : Spec.FrameBuild.Frame) (u : Udp) (d : Dg1)
  /-- a packet the main loop takes for QUIC that belongs to ANOTHER connection -/
  | other (e : CapEv)
  /-- a packet the main loop does not take for QUIC -/
  | foreign (e : CapEv)

def QEv2.cap : QEv2 → CapEv
  | .mix t fr _ _ => ⟨t, fr.encode, viewOf fr⟩
  | .one t fr _ _ => ⟨t, fr.encode, viewOf fr⟩
  | .other e => e
  | .foreign e => e

/-- the first packet of a mixed datagram carries what the main loop routes by -/
def HdrOkM (d : DgM) : Prop :=
  (∃ q qs, d.longs = q :: qs ∧ LongShape q.x ∧ 1 ≤ q.x.pnLen ∧ q.x.pnLen ≤ 4) ∨
  (d.longs = [] ∧ ∃ o, d.short = some o ∧ 1 ≤ o.x.pnLen ∧ o.x.pnLen ≤ 4)

/-- the header the main loop parses off a mixed datagram -/
def hdrM (d : DgM) : Hdr := if d.longs = [] then .short else .long d.dcid .v1

def QDescribed2 (fl : Flow) (wM : DgM → Bytes) (w1 : Dg1 → Bytes) (o : Opts) (evs : List QEv2) : Prop :=
  ∀ ev ∈ evs, match ev with
    | .mix t fr u d => IsDg fl d.srv fr u ∧ u.payload = wM d ∧ d.ts = Container.usOfFloat t.toFloat ∧ HdrOkM d
    | .one t fr u d => IsDg fl d.x.srv fr u ∧ u.payload = w1 d ∧ d.x.ts = Container.usOfFloat t.toFloat ∧
        1 ≤ d.x.pnLen ∧ d.x.pnLen ≤ 4
    | .other e => dissect e.buf = .ok e.d
    | .foreign e => dissect e.buf = .ok e.d ∧ ∀ tag, NotQuic o (pktOf tag e.d)

def mixItems (fl : Flow) (kl : List Keylog.Key) : Nat → List QEv2 → List (List Keylog.Key × MainLoop.Pkt × DgM)
  | _, [] => []
  | n, .mix _ _ u d :: rest => (kl, dgPkt fl d.srv u.payload n, d) :: mixItems fl kl (n + 1) rest
  | n, _ :: rest => mixItems fl kl (n + 1) rest

def oneItems2 (fl : Flow) : Nat → List QEv2 → List (MainLoop.Pkt × Dg1)
  | _, [] => []
  | n, .one _ _ u d :: rest => (dgPkt fl d.x.srv u.payload n, d) :: oneItems2 fl (n + 1) rest
  | n, _ :: rest => oneItems2 fl (n + 1) rest

/-- what the main loop makes of the OTHER connections' packets (each with the tag of its position) -/
def othView (o : Opts) (kl : List Keylog.Key) : Nat → List QEv2 → List (QIn Keylog.Key)
  | _, [] => []
  | n, .other e :: rest => quicView o kl [.frame (pktOf n e.d)] ++ othView o kl (n + 1) rest
  | n, _ :: rest => othView o kl (n + 1) rest

def noOne2 : QEv2 → Bool | .one .. => false | _ => true
def noMix2 : QEv2 → Bool | .mix .. => false | _ => true

theorem capOk_of_qdescribed2 (fl : Flow) (wM : DgM → Bytes) (w1 : Dg1 → Bytes) (o : Opts) (evs : List QEv2)
    (h : QDescribed2 fl wM w1 o evs) (ht : ∀ e ∈ evs.map QEv2.cap, Ingest.isMinusOne e.t = false) :
    CapOk (evs.map QEv2.cap) := by
  intro e he
  refine ⟨?_, ht e he⟩
  obtain ⟨ev, hev, rfl⟩ := List.mem_map.mp he
  have := h ev hev
  cases ev with
  | mix t fr u d => exact dissect_dg fl d.srv fr u this.1
  | one t fr u d => exact dissect_dg fl d.x.srv fr u this.1
  | other e => exact this
  | foreign e => exact this.1

def MixHeader (wM : DgM → Bytes) : Prop :=
  ∀ d, HdrOkM d → ∃ b0 rest, wM d = b0 :: rest ∧ (b0.toNat &&& 0x40) >>> 6 = 1 ∧ parseHeader1 b0 rest = hdrM d

theorem merge_append {α : Type} {a1 b1 m1 a2 b2 m2 : List α} (h1 : Merge a1 b1 m1) (h2 : Merge a2 b2 m2) :
    Merge (a1 ++ a2) (b1 ++ b2) (m1 ++ m2) := by
  induction h1 with
  | nil => exact h2
  | left x _ ih => exact Merge.left x ih
  | right x _ ih => exact Merge.right x ih

theorem merge_right_append {α : Type} {a b m : List α} (l : List α) (h : Merge a b m) : Merge a (l ++ b) (l ++ m) := by
  induction l with
  | nil => exact h
  | cons x l ih => exact Merge.right x ih

/-- the QUIC view of the mixed part: the connection's datagrams and the other connections' packets, interleaved -/
theorem quicView_mixPhase (fl : Flow) (wM : DgM → Bytes) (w1 : Dg1 → Bytes) (o : Opts) (hc : o.checksumTest = false)
    (hH : MixHeader wM) (kl : List Keylog.Key) (evs : List QEv2) (hd : QDescribed2 fl wM w1 o evs)
    (hph : ∀ ev ∈ evs, noOne2 ev = true) (n : Nat) :
    Merge ((mixItems fl kl n evs).map fun x => (⟨x.1, hdrM x.2.2, x.2.1⟩ : QIn Keylog.Key)) (othView o kl n evs)
      (quicView o kl (itemsFrom n (evs.map QEv2.cap))) := by
  induction evs generalizing n with
  | nil => exact Merge.nil
  | cons ev rest ih =>
    have hrest := ih (fun e he => hd e (List.mem_cons_of_mem _ he)) (fun e he => hph e (List.mem_cons_of_mem _ he)) (n + 1)
    have hev := hd ev (List.mem_cons_self ..)
    have hp1 := hph ev (List.mem_cons_self ..)
    rw [List.map_cons, itemsFrom, quicView_cons]
    cases ev with
    | one t fr u d => cases hp1
    | foreign e =>
      simp only [QEv2.cap, mixItems, othView]
      rw [quicView_notQuic o hc _ (hev.2 n) kl]; exact hrest
    | other e =>
      simp only [QEv2.cap, mixItems, othView]
      exact merge_right_append _ hrest
    | mix t fr u d =>
      obtain ⟨hdg, hpay, _, hhdr⟩ := hev
      obtain ⟨b0, r, hw, hfix, hparse⟩ := hH d hhdr
      simp only [QEv2.cap, mixItems, othView, List.map_cons]
      rw [pktOf_dg fl d.srv fr u hdg n,
        quicView_dgram o hc _ rfl b0 r (by show u.payload = _; rw [hpay, hw]) hfix kl, hparse]
      exact Merge.left _ hrest

theorem quicView_onePhase2 (fl : Flow) (wM : DgM → Bytes) (w1 : Dg1 → Bytes) (o : Opts) (hc : o.checksumTest = false)
    (hO : OneHeader w1) (kl : List Keylog.Key) (evs : List QEv2) (hd : QDescribed2 fl wM w1 o evs)
    (hph : ∀ ev ∈ evs, noMix2 ev = true) (n : Nat) :
    Merge ((oneItems2 fl n evs).map fun x => (⟨kl, .short, x.1⟩ : QIn Keylog.Key)) (othView o kl n evs)
      (quicView o kl (itemsFrom n (evs.map QEv2.cap))) := by
  induction evs generalizing n with
  | nil => exact Merge.nil
  | cons ev rest ih =>
    have hrest := ih (fun e he => hd e (List.mem_cons_of_mem _ he)) (fun e he => hph e (List.mem_cons_of_mem _ he)) (n + 1)
    have hev := hd ev (List.mem_cons_self ..)
    have hp1 := hph ev (List.mem_cons_self ..)
    rw [List.map_cons, itemsFrom, quicView_cons]
    cases ev with
    | mix t fr u d => cases hp1
    | foreign e =>
      simp only [QEv2.cap, oneItems2, othView]
      rw [quicView_notQuic o hc _ (hev.2 n) kl]; exact hrest
    | other e =>
      simp only [QEv2.cap, oneItems2, othView]
      exact merge_right_append _ hrest
    | one t fr u d =>
      obtain ⟨hdg, hpay, _, h1, h4⟩ := hev
      obtain ⟨b0, r, hw, hfix, hparse⟩ := hO d h1 h4
      simp only [QEv2.cap, oneItems2, othView, List.map_cons]
      rw [pktOf_dg fl d.x.srv fr u hdg n,
        quicView_dgram o hc _ rfl b0 r (by show u.payload = _; rw [hpay, hw]) hfix kl, hparse]
      exact Merge.left _ hrest


theorem mixItems_mem (fl : Flow) (kl : List Keylog.Key) (evs : List QEv2) (n : Nat)
    (x : List Keylog.Key × MainLoop.Pkt × DgM) (hx : x ∈ mixItems fl kl n evs) :
    ∃ i t fr u, evs[i]? = some (.mix t fr u x.2.2) ∧ x = (kl, dgPkt fl x.2.2.srv u.payload (n + i), x.2.2) := by
  induction evs generalizing n with
  | nil => cases hx
  | cons ev rest ih =>
    cases ev with
    | mix t fr u d =>
      simp only [mixItems, List.mem_cons] at hx
      rcases hx with rfl | hx
      · exact ⟨0, t, fr, u, rfl, rfl⟩
      · obtain ⟨i, t', fr', u', h1, h2⟩ := ih (n + 1) hx
        exact ⟨i + 1, t', fr', u', by simpa using h1, by rw [h2, show n + 1 + i = n + (i + 1) by omega]⟩
    | one t fr u d =>
      simp only [mixItems] at hx
      obtain ⟨i, t', fr', u', h1, h2⟩ := ih (n + 1) hx
      exact ⟨i + 1, t', fr', u', by simpa using h1, by rw [h2, show n + 1 + i = n + (i + 1) by omega]⟩
    | other e =>
      simp only [mixItems] at hx
      obtain ⟨i, t', fr', u', h1, h2⟩ := ih (n + 1) hx
      exact ⟨i + 1, t', fr', u', by simpa using h1, by rw [h2, show n + 1 + i = n + (i + 1) by omega]⟩
    | foreign e =>
      simp only [mixItems] at hx
      obtain ⟨i, t', fr', u', h1, h2⟩ := ih (n + 1) hx
      exact ⟨i + 1, t', fr', u', by simpa using h1, by rw [h2, show n + 1 + i = n + (i + 1) by omega]⟩

theorem oneItems2_mem (fl : Flow) (evs : List QEv2) (n : Nat) (x : MainLoop.Pkt × Dg1) (hx : x ∈ oneItems2 fl n evs) :
    ∃ i t fr u, evs[i]? = some (.one t fr u x.2) ∧ x = (dgPkt fl x.2.x.srv u.payload (n + i), x.2) := by
  induction evs generalizing n with
  | nil => cases hx
  | cons ev rest ih =>
    cases ev with
    | one t fr u d =>
      simp only [oneItems2, List.mem_cons] at hx
      rcases hx with rfl | hx
      · exact ⟨0, t, fr, u, rfl, rfl⟩
      · obtain ⟨i, t', fr', u', h1, h2⟩ := ih (n + 1) hx
        exact ⟨i + 1, t', fr', u', by simpa using h1, by rw [h2, show n + 1 + i = n + (i + 1) by omega]⟩
    | mix t fr u d =>
      simp only [oneItems2] at hx
      obtain ⟨i, t', fr', u', h1, h2⟩ := ih (n + 1) hx
      exact ⟨i + 1, t', fr', u', by simpa using h1, by rw [h2, show n + 1 + i = n + (i + 1) by omega]⟩
    | other e =>
      simp only [oneItems2] at hx
      obtain ⟨i, t', fr', u', h1, h2⟩ := ih (n + 1) hx
      exact ⟨i + 1, t', fr', u', by simpa using h1, by rw [h2, show n + 1 + i = n + (i + 1) by omega]⟩
    | foreign e =>
      simp only [oneItems2] at hx
      obtain ⟨i, t', fr', u', h1, h2⟩ := ih (n + 1) hx
      exact ⟨i + 1, t', fr', u', by simpa using h1, by rw [h2, show n + 1 + i = n + (i + 1) by omega]⟩

theorem carriesM_of_described (fl : Flow) (hne : clientEp fl ≠ serverEp fl) (wM : DgM → Bytes) (w1 : Dg1 → Bytes)
    (o : Opts) (kl : List Keylog.Key) (evs : List QEv2) (hd : QDescribed2 fl wM w1 o evs) (full : List CapEv) (off : Nat)
    (hfull : ∀ i ev, evs[i]? = some ev → full[off + i]? = some ev.cap)
    (c : QConn) (hc : c.client = clientEp fl) :
    ∀ x ∈ mixItems fl kl off evs, x.1 = kl ∧ CarriesM (capInfo full) c wM x.2.1 x.2.2 ∧
      x.2.1 = dgPkt fl x.2.2.srv (wM x.2.2) x.2.1.tag := by
  intro x hx
  obtain ⟨i, t, fr, u, hi, hxe⟩ := mixItems_mem fl kl evs off x hx
  have hmem : QEv2.mix t fr u x.2.2 ∈ evs := List.mem_of_getElem? hi
  obtain ⟨hdg, hpay, hts, _⟩ := hd _ hmem
  have hinfo := capInfo_at full (off + i) _ (hfull i _ hi)
  simp only [QEv2.cap] at hinfo
  have hx1 : x.2.1 = dgPkt fl x.2.2.srv u.payload (off + i) := by rw [hxe]
  refine ⟨by rw [hxe], ⟨by rw [hx1]; exact hpay, ?_, ?_⟩, by rw [hx1, hpay]; rfl⟩
  · rw [hx1]
    show (capInfo full (off + i)).ts = _
    rw [hinfo, infoOf_dg fl _ fr u hdg]
    exact hts.symm
  · rw [hx1, hc]; exact dgPkt_src_client fl hne _ _ _

theorem carries_of_described2 (fl : Flow) (hne : clientEp fl ≠ serverEp fl) (wM : DgM → Bytes) (w1 : Dg1 → Bytes)
    (o : Opts) (evs : List QEv2) (hd : QDescribed2 fl wM w1 o evs) (full : List CapEv) (off : Nat)
    (hfull : ∀ i ev, evs[i]? = some ev → full[off + i]? = some ev.cap)
    (c : QConn) (hc : c.client = clientEp fl) :
    ∀ x ∈ oneItems2 fl off evs, Carries (capInfo full) c w1 x.1 x.2 ∧ x.1 = dgPkt fl x.2.x.srv (w1 x.2) x.1.tag := by
  intro x hx
  obtain ⟨i, t, fr, u, hi, hxe⟩ := oneItems2_mem fl evs off x hx
  have hmem : QEv2.one t fr u x.2 ∈ evs := List.mem_of_getElem? hi
  obtain ⟨hdg, hpay, hts, _⟩ := hd _ hmem
  have hinfo := capInfo_at full (off + i) _ (hfull i _ hi)
  simp only [QEv2.cap] at hinfo
  have hx1 : x.1 = dgPkt fl x.2.x.srv u.payload (off + i) := by rw [hxe]
  refine ⟨⟨by rw [hx1]; exact hpay, ?_, ?_⟩, by rw [hx1, hpay]; rfl⟩
  · rw [hx1]
    show (capInfo full (off + i)).ts = _
    rw [hinfo, infoOf_dg fl _ fr u hdg]
    exact hts.symm
  · rw [hx1, hc]; exact dgPkt_src_client fl hne _ _ _

section WireHeader2
open TLX.Quic.Session TLX.Cipher
variable (H : Crypto.Prims) (Pc : Cipher.Prims)

theorem mixHeader_wire (L : SealLaws Pc) (dcid0 : Bytes) (sel : SuiteSel) (sh ch sa ca : Bytes) :
    MixHeader (DgM.wire H Pc L dcid0 sel sh ch sa ca) := by
  intro d hd
  rcases hd with ⟨q, qs, hp, hshape, h1, h4⟩ | ⟨hl, o, ho, h1, h4⟩
  · have hw : DgM.wire H Pc L dcid0 sel sh ch sa ca d =
        (longOf q.x (protectedPayload L.aeadSeal (lvlDec H dcid0 sel sh ch q.x.level).alg
          (lvlKey H dcid0 sel sh ch q.x.level q.x.srv) q.x)).protect q.mask ++
        ((qs.map (pkWire H Pc L dcid0 sel sh ch)).flatten ++
          (d.short.map (wireOf H Pc L sel .v1 (rfcGen (hashOf H sel.hash) sel.keyLen sa ca 0))).getD []) := by
      unfold DgM.wire; rw [hp]; simp [pkWire, PkH.wire, List.append_assoc]
    have hdc : d.dcid = q.x.dcid := by unfold DgM.dcid; rw [hp]
    have hh : hdrM d = .long q.x.dcid .v1 := by unfold hdrM; rw [hp, hdc]; simp
    rw [hw, hh]
    exact long_wire_header _ (by show q.x.lowBits % 4 < 4; omega)
      (by show 1 ≤ (pnBytes q.x.pnLen q.x.pn).length; rw [C02Capstone.pnBytes_length]; exact h1)
      (by show (pnBytes q.x.pnLen q.x.pn).length ≤ 4; rw [C02Capstone.pnBytes_length]; exact h4)
      hshape.version hshape.dcid (by have := hshape.scid; show q.x.scid.length ≤ 63; omega) _ _
  · have hw : DgM.wire H Pc L dcid0 sel sh ch sa ca d =
        wireOf H Pc L sel .v1 (rfcGen (hashOf H sel.hash) sel.keyLen sa ca 0) o := by
      unfold DgM.wire; rw [hl, ho]; simp
    have hh : hdrM d = .short := by unfold hdrM; rw [hl]; simp
    rw [hw, hh]
    exact oneHeader_wireOf H Pc L sel .v1 _ o h1 h4

end WireHeader2


section Runs2
open TLX.Quic.Session TLX.Cipher TLX.Props.C02Session TLX.Spec.KeySchedules
variable (maskFn : Quic.Dissect.MaskFn) (H : Crypto.Prims) (Pc : Cipher.Prims) (info : Nat → Pipeline.Info)

/-- routing of the mixed part: a datagram that BEGINS with a 1-RTT packet is found by the loop's connection-ID search
    (`C02File.RouteOk`, for the CIDs the receiver has issued so far); long-header datagrams carry their DCID -/
def RoutesM (w : DgM → Bytes) : Trk → List DgM → Prop
  | _, [] => True
  | t, d :: ds => (d.longs = [] → RouteOk (if d.srv then t.cc else t.sc) (w d) d.dcid) ∧ RoutesM w (t.dgm d) ds

theorem quicRun_mix (o : Opts) (hl : H.Lawful) (L : SealLaws Pc) (dcid0 cr csel ch sh ca sa : Bytes)
    (early : Option Bytes) (sel : SuiteSel) (hsel : selectSuite csel = some sel)
    (ho : (hashOf H sel.hash).outLen < 65536)
    (hsa : sa.length = (hashOf H sel.hash).outLen) (hca : ca.length = (hashOf H sel.hash).outLen)
    (items : List (List Keylog.Key × MainLoop.Pkt × DgM)) (hkl : ∀ x ∈ items, KeylogHas x.1 cr ch sh ca sa early)
    (t : Trk) (s : QuicSess QConn) (hcl : s.client = s.st.client) (hr : s.st.raised = none)
    (hst : HsSt H dcid0 sel ch sh ca sa t.keyed (noOut s.st.st) t.tc t.ts t.cc t.sc t.core)
    (hm : ∀ x ∈ items, s.matches x.2.1 = true)
    (hok : MixDgs maskFn H Pc L dcid0 sel sh ch sa ca t (items.map (·.2.2)))
    (htr : PTrace cr csel t.core (allInsM (items.map (·.2.2))))
    (hcar : ∀ x ∈ items, CarriesM info s.st (DgM.wire H Pc L dcid0 sel sh ch sa ca) x.2.1 x.2.2)
    (hroute : RoutesM (DgM.wire H Pc L dcid0 sel sh ch sa ca) t (items.map (·.2.2))) :
    quicRun (quicMachine maskFn H Pc info) o [s]
        (items.map fun x => (⟨x.1, hdrM x.2.2, x.2.1⟩ : QIn Keylog.Key)) =
      [{ s with st := mixFeedAll (quicMachine maskFn H Pc info) s.st items }] := by
  induction items generalizing t s with
  | nil => simp [quicRun, mixFeedAll]
  | cons x rest ih =>
    obtain ⟨kl, p, d⟩ := x
    obtain ⟨hd, hds⟩ := hok
    obtain ⟨r1, r2⟩ := hroute
    have hmp := hm (kl, p, d) (List.mem_cons_self ..)
    have hc0 := hcar (kl, p, d) (List.mem_cons_self ..)
    have htr' : PTrace cr csel t.core (insOf d.longs ++ allInsM (rest.map (·.2.2))) := by
      simpa [allInsM, List.flatMap_cons] using htr
    have hpre : feedPre H (params H Pc kl) (noOut s.st.st) d.dcid (sver d.ver) = noOut s.st.st :=
      feedPre_mixed H _ dcid0 _ hst.inv d
    obtain ⟨b1, b2, b3, _, _, _, b7, _, _, _⟩ := mix_feed_step maskFn H Pc info hl kl L dcid0 cr csel ch sh ca sa early
      sel hsel (hkl (kl, p, d) (List.mem_cons_self ..)) ho hsa hca t d hd _ s.st hr (by rw [hpre]; exact hst) htr' p hc0
    have hstep : quicHandleH (quicMachine maskFn H Pc info) o kl (hdrM d) [s] p =
        [{ s with st := (quicMachine maskFn H Pc info).feed s.st kl p d.dcid d.ver }] := by
      by_cases hlg : d.longs = []
      · have hh : hdrM d = .short := by unfold hdrM; rw [if_pos hlg]
        have hv : d.ver = .unknown := by unfold DgM.ver; rw [if_pos hlg]
        have hside : shortCandidates ((quicMachine maskFn H Pc info).clientCids s.st)
            ((quicMachine maskFn H Pc info).serverCids s.st) (s.side p) = (if d.srv then t.cc else t.sc) := by
          have e1 : (quicMachine maskFn H Pc info).clientCids s.st = t.cc := hst.cc
          have e2 : (quicMachine maskFn H Pc info).serverCids s.st = t.sc := hst.sc
          rw [e1, e2]
          unfold Sess.side
          rw [hmp, hcl]
          simp only [if_true]
          have : (p.src == s.st.client) = !d.srv := hc0.dir
          cases hs : d.srv <;> simp [hs] at this <;> simp [this, shortCandidates, hs]
        rw [hh, hv]
        exact quicHandle_short _ o kl p s hmp d.dcid (by rw [hside, hc0.payload]; exact r1 hlg)
      · have hh : hdrM d = .long d.dcid .v1 := by unfold hdrM; rw [if_neg hlg]
        have hv : d.ver = .v1 := by unfold DgM.ver; rw [if_neg hlg]
        rw [hh, hv]
        exact quicHandle_long _ o kl _ _ p s hmp
    simp only [List.map_cons, quicRun, List.foldl_cons, mixFeedAll]
    rw [hstep]
    exact ih (fun y hy => hkl y (List.mem_cons_of_mem _ hy)) (t.dgm d) _ (by show s.client = _; rw [b7]; exact hcl) b1 b2
      (fun y hy => hm y (List.mem_cons_of_mem _ hy)) hds b3
      (fun y hy => by
        obtain ⟨u1, u2, u3⟩ := hcar y (List.mem_cons_of_mem _ hy)
        exact ⟨u1, u2, by rw [b7]; exact u3⟩) r2

end Runs2

section Final2
open TLX.Export TLX.Quic.Session TLX.Cipher TLX.Props.C02Session TLX.Spec.KeySchedules
variable (maskFn : Quic.Dissect.MaskFn) (H : Crypto.Prims) (Pc : Cipher.Prims)

/-- the main loop's calls for the connection's own datagrams -/
def ownView (fl : Flow) (keys : List Keylog.Key) (itemsA : List (List Keylog.Key × MainLoop.Pkt × DgM))
    (itemsB : List (MainLoop.Pkt × Dg1)) : List (QIn Keylog.Key) :=
  (itemsA.map fun x => (⟨x.1, hdrM x.2.2, x.2.1⟩ : QIn Keylog.Key)) ++
    itemsB.map fun x => (⟨keys, .short, x.1⟩ : QIn Keylog.Key)

/-- the core of the file-level theorem: in the QUIC view of the described capture the connection's datagrams are interleaved
    with those of other connections; if those are separated from it (`QuicSeparated`, both ways: Props/C04), the connection
    has ONE session in `quic_sessions`, and what it exports is `expectedOut` of its 1-RTT packets -/
theorem quic_capture_session2 (hl : H.Lawful) (h32 : H.sha256.outLen = 32) (L : SealLaws Pc)
    (args : Args) (keyFile : Option Keylog.Str) (evsA evsB : List QEv2)
    (htime : ∀ e ∈ (evsA ++ evsB).map QEv2.cap, Ingest.isMinusOne e.t = false)
    (hnoc : args.checksumTest = false) (hmeta : args.metadata = false)
    (pm : List (Int × Int)) (ports : List Int)
    (hpm : Options.getPortMap Options.Src.bare args.mArg = .ok pm)
    (hports : Options.serverPorts Options.Src.builtin Options.Src.pDefault args.pArg = .ok ports)
    (fl : Flow) (hne : clientEp fl ≠ serverEp fl) (hcp : ports.contains (fl.clientPort : Int) = false)
    (hs : ConfHs) (hsok : hs.Ok) (ch sh ca sa : Bytes) (early : Option Bytes) (sel : SuiteSel)
    (hsel : selectSuite hs.sh.cipherSuite = some sel)
    (ho : (hashOf H sel.hash).outLen < 65536)
    (hsa : sa.length = (hashOf H sel.hash).outLen) (hca : ca.length = (hashOf H sel.hash).outLen)
    (hkl : KeylogHas ((fileKeysOf keyFile).getD []) hs.ch.random ch sh ca sa early)
    (kl0 : List Keylog.Key) (p0 : MainLoop.Pkt) (d0 : DgM) (itemsA : List (List Keylog.Key × MainLoop.Pkt × DgM))
    (hfirst : mixItems fl ((fileKeysOf keyFile).getD []) 0 evsA = (kl0, p0, d0) :: itemsA)
    (hd0 : d0.srv = false) (hd0l : d0.longs ≠ [])
    (hdesc : QDescribed2 fl (DgM.wire H Pc L d0.dcid sel sh ch sa ca)
      (wireOf H Pc L sel .v1 (rfcGen (hashOf H sel.hash) sel.keyLen sa ca 0)) (optsOf args ports pm) (evsA ++ evsB))
    (hphA : ∀ ev ∈ evsA, noOne2 ev = true) (hphB : ∀ ev ∈ evsB, noMix2 ev = true)
    (hok : MixDgs maskFn H Pc L d0.dcid sel sh ch sa ca trk0 (d0 :: itemsA.map (·.2.2)))
    (hins : allInsM (d0 :: itemsA.map (·.2.2)) = hs.ins)
    (hkeyed : (trk0.runM (d0 :: itemsA.map (·.2.2))).keyed = true)
    (hrouteA : RoutesM (DgM.wire H Pc L d0.dcid sel sh ch sa ca) (trk0.dgm d0) (itemsA.map (·.2.2)))
    (hsend : Send1 maskFn H Pc L sel .v1 (rfcGen (hashOf H sel.hash) sel.keyLen sa ca 0)
      (quicHp (hashOf H sel.hash) ca sel.keyLen) (quicHp (hashOf H sel.hash) sa sel.keyLen)
      (chachaOf (trk0.runM (d0 :: itemsA.map (·.2.2))).core) 0 0
      (trk0.runM (d0 :: itemsA.map (·.2.2))).tc.app (trk0.runM (d0 :: itemsA.map (·.2.2))).ts.app
      (trk0.runM (d0 :: itemsA.map (·.2.2))).cc (trk0.runM (d0 :: itemsA.map (·.2.2))).sc
      ((oneItems2 fl evsA.length evsB).map (·.2)))
    (hrouteB : Routes1 (wireOf H Pc L sel .v1 (rfcGen (hashOf H sel.hash) sel.keyLen sa ca 0))
      (trk0.runM (d0 :: itemsA.map (·.2.2))).cc (trk0.runM (d0 :: itemsA.map (·.2.2))).sc
      ((oneItems2 fl evsA.length evsB).map (·.2)))
    (hadj : C02Out.DistinctAdjacent false ((shortsOf (d0 :: itemsA.map (·.2.2)) ++
      (oneItems2 fl evsA.length evsB).map (·.2)).map fun d => inDg d.x))
    (hsep1 : QuicSeparated (quicMachine maskFn H Pc (capInfo ((evsA ++ evsB).map QEv2.cap))) (optsOf args ports pm)
      (ownView fl ((fileKeysOf keyFile).getD []) ((kl0, p0, d0) :: itemsA) (oneItems2 fl evsA.length evsB))
      (othView (optsOf args ports pm) ((fileKeysOf keyFile).getD []) 0 (evsA ++ evsB)))
    (hsep2 : QuicSeparated (quicMachine maskFn H Pc (capInfo ((evsA ++ evsB).map QEv2.cap))) (optsOf args ports pm)
      (othView (optsOf args ports pm) ((fileKeysOf keyFile).getD []) 0 (evsA ++ evsB))
      (ownView fl ((fileKeysOf keyFile).getD []) ((kl0, p0, d0) :: itemsA) (oneItems2 fl evsA.length evsB))) :
    CapOk ((evsA ++ evsB).map QEv2.cap) ∧
    ∃ (S1 S2 : List (QuicSess QConn)) (sess : QuicSess QConn),
      quicRun (quicMachine maskFn H Pc (capInfo ((evsA ++ evsB).map QEv2.cap))) (optsOf args ports pm) []
        (quicView (optsOf args ports pm) ((fileKeysOf keyFile).getD []) (itemsFrom 0 ((evsA ++ evsB).map QEv2.cap))) =
          S1 ++ [sess] ++ S2 ∧
      (quicMachine maskFn H Pc (capInfo ((evsA ++ evsB).map QEv2.cap))).out args.metadata sess.st =
        expectedOut ((quicMachine maskFn H Pc (capInfo ((evsA ++ evsB).map QEv2.cap))).new (optsOf args ports pm) p0)
          (shortsOf (d0 :: itemsA.map (·.2.2)) ++ (oneItems2 fl evsA.length evsB).map (·.2)) := by
  generalize hcapdef : (evsA ++ evsB).map QEv2.cap = cap at *
  generalize hkeys : (fileKeysOf keyFile).getD [] = keys at *
  generalize hodef : optsOf args ports pm = o at *
  have hoc : o.checksumTest = false := by rw [← hodef]; exact hnoc
  have hop : o.ports = ports := by rw [← hodef]; rfl
  let QM := quicMachine maskFn H Pc (capInfo cap)
  let wM := DgM.wire H Pc L d0.dcid sel sh ch sa ca
  let w1 := wireOf H Pc L sel .v1 (rfcGen (hashOf H sel.hash) sel.keyLen sa ca 0)
  have hcapOk : CapOk cap := by
    rw [← hcapdef]; exact capOk_of_qdescribed2 fl wM w1 o _ hdesc (by rw [hcapdef]; exact htime)
  have hdA : QDescribed2 fl wM w1 o evsA := fun ev he => hdesc ev (List.mem_append_left _ he)
  have hdB : QDescribed2 fl wM w1 o evsB := fun ev he => hdesc ev (List.mem_append_right _ he)
  have hfullA : ∀ i ev, evsA[i]? = some ev → cap[0 + i]? = some ev.cap := by
    intro i ev h
    rw [← hcapdef, Nat.zero_add, List.getElem?_map, List.getElem?_append_left (List.getElem?_eq_some_iff.mp h).1, h]; rfl
  have hfullB : ∀ i ev, evsB[i]? = some ev → cap[evsA.length + i]? = some ev.cap := by
    intro i ev h
    rw [← hcapdef, List.getElem?_map, List.getElem?_append_right (by omega), Nat.add_sub_cancel_left, h]; rfl
  -- the first datagram creates the session
  have hp0mem : (kl0, p0, d0) ∈ mixItems fl keys 0 evsA := by rw [hfirst]; simp
  let c0 := QM.new o p0
  have hc0cl : c0.client = clientEp fl ∧ (rolesOf o.ports p0) = (serverEp fl, clientEp fl) := by
    obtain ⟨_, _, hp⟩ := carriesM_of_described fl hne wM w1 o keys evsA hdA cap 0 hfullA
      { c0 with client := clientEp fl } rfl _ hp0mem
    simp only at hp
    have hr : rolesOf o.ports p0 = (serverEp fl, clientEp fl) := by
      have hc' : ¬ (fl.clientPort : Int) ∈ ports := by simpa using hcp
      rw [hp, hd0, hop]
      simp [rolesOf, dgPkt, clientEp, hc']
    exact ⟨congrArg Prod.snd hr, hr⟩
  obtain ⟨hc0c, hroles⟩ := hc0cl
  -- the QUIC view: own datagrams and the others', interleaved
  have hview : Merge (ownView fl keys ((kl0, p0, d0) :: itemsA) (oneItems2 fl evsA.length evsB))
      (othView o keys 0 (evsA ++ evsB)) (quicView o keys (itemsFrom 0 cap)) := by
    have hoth : othView o keys 0 (evsA ++ evsB) = othView o keys 0 evsA ++ othView o keys evsA.length evsB := by
      have : ∀ (a : List QEv2) (n : Nat), othView o keys n (a ++ evsB) = othView o keys n a ++ othView o keys (n + a.length) evsB := by
        intro a
        induction a with
        | nil => intro n; simp [othView]
        | cons e rest ih =>
          intro n
          have hn : n + 1 + rest.length = n + (rest.length + 1) := by omega
          cases e <;> simp [othView, ih (n + 1), hn, List.append_assoc]
      simpa using this evsA 0
    rw [← hcapdef, List.map_append, itemsFrom_append, quicView_append, hoth, List.length_map, Nat.zero_add]
    unfold ownView
    rw [← hfirst]
    exact merge_append (quicView_mixPhase fl wM w1 o hoc (mixHeader_wire H Pc L _ sel sh ch sa ca) keys evsA hdA hphA 0)
      (quicView_onePhase2 fl wM w1 o hoc (oneHeader_wireOf H Pc L sel .v1 _) keys evsB hdB hphB evsA.length)
  have hcarAll := carriesM_of_described fl hne wM w1 o keys evsA hdA cap 0 hfullA c0 hc0c
  rw [hfirst] at hcarAll
  have hkl0 : kl0 = keys := (hcarAll _ (List.mem_cons_self ..)).1
  have hklA : ∀ x ∈ (kl0, p0, d0) :: itemsA, KeylogHas x.1 hs.ch.random ch sh ca sa early := by
    intro x hx; rw [(hcarAll x hx).1]; exact hkl
  -- the session object after the first datagram
  obtain ⟨hm0, hms⟩ := hok
  have htr : PTrace hs.ch.random hs.sh.cipherSuite {} (allInsM (d0 :: itemsA.map (·.2.2))) := by
    rw [hins]; exact ptrace_of_conformant hs hsok
  have hv0 : sver d0.ver = .v1 := by unfold DgM.ver; rw [if_neg hd0l]; rfl
  have hfresh := new_fresh maskFn H Pc (capInfo cap) o p0
  have hno : noOut c0.st = c0.st := by rw [hfresh.1]; rfl
  have hpre : HsSt H d0.dcid sel ch sh ca sa trk0.keyed (feedPre H (params H Pc kl0) (noOut c0.st) d0.dcid (sver d0.ver))
      trk0.tc trk0.ts trk0.cc trk0.sc trk0.core := by
    rw [hno, hfresh.1, hv0]; exact feedPre_fresh H Pc kl0 h32 d0.dcid sel ch sh ca sa
  have htr' : PTrace hs.ch.random hs.sh.cipherSuite trk0.core (insOf d0.longs ++ allInsM (itemsA.map (·.2.2))) := by
    simpa [allInsM, List.flatMap_cons, trk0] using htr
  obtain ⟨b1, b2, b3, _, b5, b6, b7, b8, b9, b10⟩ := mix_feed_step maskFn H Pc (capInfo cap) hl kl0 L d0.dcid hs.ch.random
    hs.sh.cipherSuite ch sh ca sa early sel hsel (hklA _ (List.mem_cons_self ..)) ho hsa hca trk0 d0 hm0 _ c0 hfresh.2 hpre
    htr' p0 (hcarAll _ (List.mem_cons_self ..)).2.1
  let s0 : QuicSess QConn := ⟨serverEp fl, clientEp fl, QM.feed c0 kl0 p0 d0.dcid d0.ver⟩
  have hcarA : ∀ x ∈ itemsA, CarriesM (capInfo cap) s0.st wM x.2.1 x.2.2 := by
    intro x hx
    obtain ⟨u1, u2, u3⟩ := (hcarAll x (List.mem_cons_of_mem _ hx)).2.1
    exact ⟨u1, u2, by rw [show s0.st.client = c0.client from b7]; exact u3⟩
  have hmA : ∀ x ∈ itemsA, s0.matches x.2.1 = true := by
    intro x hx
    rw [(hcarAll x (List.mem_cons_of_mem _ hx)).2.2]; exact dgPkt_matches fl s0 rfl rfl _ _ _
  -- the mixed part
  obtain ⟨i1, i2, _, i4, i5, i6, i7, i8, i9⟩ := mix_feed_rest maskFn H Pc (capInfo cap) hl L d0.dcid hs.ch.random
    hs.sh.cipherSuite ch sh ca sa early sel hsel ho hsa hca itemsA (fun x hx => hklA x (List.mem_cons_of_mem _ hx))
    (trk0.dgm d0) s0.st b1 b2 hms b3 hcarA
  have hrunA : quicRun QM o [] (((kl0, p0, d0) :: itemsA).map fun x => (⟨x.1, hdrM x.2.2, x.2.1⟩ : QIn Keylog.Key)) =
      [{ s0 with st := mixFeedAll QM s0.st itemsA }] := by
    simp only [List.map_cons, quicRun, List.foldl_cons]
    have hh0 : hdrM d0 = .long d0.dcid .v1 := by unfold hdrM; rw [if_neg hd0l]
    have hv0' : d0.ver = .v1 := by unfold DgM.ver; rw [if_neg hd0l]
    rw [hh0, quicHandle_new]
    have hnew : quicNew QM o kl0 (.long d0.dcid .v1) p0 = s0 := by
      simp only [quicNew, hroles, Hdr.dcid, Hdr.ver, s0, hv0']; rfl
    rw [hnew]
    have := quicRun_mix maskFn H Pc (capInfo cap) o hl L d0.dcid hs.ch.random hs.sh.cipherSuite ch sh ca sa early sel hsel ho
      hsa hca itemsA (fun x hx => hklA x (List.mem_cons_of_mem _ hx)) (trk0.dgm d0) s0
      (by show clientEp fl = s0.st.client; rw [show s0.st.client = c0.client from b7]; exact hc0c.symm) b1 b2 hmA hms b3
      hcarA hrouteA
    simp only [quicRun] at this
    exact this
  generalize hc1 : mixFeedAll QM s0.st itemsA = c1 at *
  have ht1 : trk0.runM (d0 :: itemsA.map (·.2.2)) = (trk0.dgm d0).runM (itemsA.map (·.2.2)) := rfl
  rw [ht1] at hkeyed hsend hrouteB
  rw [hkeyed] at i2
  have hc1c : c1.client = clientEp fl := by rw [i6]; show s0.st.client = _; rw [show s0.st.client = c0.client from b7]; exact hc0c
  -- the 1-RTT-only part
  have hest := est_of_noOut H Pc keys _ _ _ _ _ _ _ _ _ _ _ _ _ (est_of_hsSt H Pc keys _ sel ch sh ca sa _ _ _ _ _ _ i2)
  have hcarO := carries_of_described2 fl hne wM w1 o evsB hdB cap evsA.length hfullB c1 hc1c
  have hk := keysWf_rfc H hl Pc keys hs.sh.cipherSuite sel hsel .v1 ho sa ca hsa hca
  have hrunO := quicRun_one maskFn H Pc (capInfo cap) o keys L sel .v1 _ _ _ _ hk (oneItems2 fl evsA.length evsB)
    { s0 with st := c1 } 0 0 _ _ _ _ hc1c.symm i1 hest
    (by
      intro x hx
      obtain ⟨_, hp⟩ := hcarO x hx
      rw [hp]; exact dgPkt_matches fl _ rfl rfl _ _ _)
    (fun x hx => (hcarO x hx).1) hsend hrouteB
  have hrunOwn : quicRun QM o [] (ownView fl keys ((kl0, p0, d0) :: itemsA) (oneItems2 fl evsA.length evsB)) =
      [{ s0 with st := C02Capstone.feedAll QM c1 ((oneItems2 fl evsA.length evsB).map fun x => (keys, x.1, x.2)) }] := by
    unfold ownView
    rw [quicRun_append, hrunA]
    exact hrunO
  -- the session's export: the interleaved-history theorem
  have hmap : ((oneItems2 fl evsA.length evsB).map fun x => (keys, x.1, x.2)).map (·.2.2) =
      (oneItems2 fl evsA.length evsB).map (·.2) := by simp [List.map_map]
  obtain ⟨_, r2⟩ := quic_interleaved_exact_conformant maskFn H Pc (capInfo cap) hl h32 L hs hsok ch sh ca sa early
    sel hsel ho hsa hca kl0 p0 d0 itemsA hklA c0 hfresh hd0l ⟨hm0, hms⟩ hins
    (fun x hx => (hcarAll x hx).2.1) (by rw [ht1]; exact hkeyed)
    ((oneItems2 fl evsA.length evsB).map fun x => (keys, x.1, x.2))
    (by
      intro x hx
      obtain ⟨y, hy, rfl⟩ := List.mem_map.mp hx
      obtain ⟨u1, u2, u3⟩ := (hcarO y hy).1
      exact ⟨u1, u2, by rw [hc0c, ← hc1c]; exact u3⟩)
    (by rw [hmap, ht1]; exact hsend) (by rw [hmap]; exact hadj)
  have hc1' : mixFeedAll QM c0 ((kl0, p0, d0) :: itemsA) = c1 := by rw [← hc1]; rfl
  rw [hc1', hmap] at r2
  -- the other connections stay apart (Props/C04)
  have hmerge := C04.quic_route_exact QM o hview hsep1 hsep2
  rw [hrunOwn] at hmerge
  obtain ⟨S1, S2, hS⟩ := merge_singleton hmerge
  subst hodef
  subst hkeys
  exact ⟨hcapOk, S1, S2, _, hS, by rw [hmeta]; exact r2⟩

end Final2
section Capture2
open TLX.Export TLX.Quic.Session TLX.Cipher TLX.Props.C02Session TLX.Spec.KeySchedules
variable (maskFn : Quic.Dissect.MaskFn) (H : Crypto.Prims) (Pc : Cipher.Prims)

/-- EVERYTHING `quic_capture_exact2` assumes. Parameters as in `C02File.QuicCapture`; the capture is `evsA ++ evsB`:
    `evsA` the connection's mixed part (`QEv2.mix`), `evsB` its 1-RTT-only part (`QEv2.one`), both interleaved with packets of
    OTHER QUIC connections (`QEv2.other`) and packets the loop does not take for QUIC (`QEv2.foreign`). -/
structure QuicCapture2 (L : SealLaws Pc) (args : Args) (keyFile : Option Keylog.Str) (pm : List (Int × Int))
    (ports : List Int) (fl : Flow) (hs : ConfHs) (ch sh ca sa : Bytes) (early : Option Bytes) (sel : SuiteSel)
    (evsA evsB : List QEv2) (kl0 : List Keylog.Key) (p0 : MainLoop.Pkt) (d0 : DgM)
    (itemsA : List (List Keylog.Key × MainLoop.Pkt × DgM)) : Prop where
  lawful : H.Lawful
  sha256 : H.sha256.outLen = 32
  times : ∀ e ∈ (evsA ++ evsB).map QEv2.cap, Ingest.isMinusOne e.t = false
  noc : args.checksumTest = false
  nometa : args.metadata = false
  pmOk : Options.getPortMap Options.Src.bare args.mArg = .ok pm
  portsOk : Options.serverPorts Options.Src.builtin Options.Src.pDefault args.pArg = .ok ports
  endpoints : clientEp fl ≠ serverEp fl
  clientPort : ports.contains (fl.clientPort : Int) = false
  hsOk : hs.Ok
  suite : selectSuite hs.sh.cipherSuite = some sel
  outLen : (hashOf H sel.hash).outLen < 65536
  saLen : sa.length = (hashOf H sel.hash).outLen
  caLen : ca.length = (hashOf H sel.hash).outLen
  keylog : KeylogHas ((fileKeysOf keyFile).getD []) hs.ch.random ch sh ca sa early
  /-- the first datagram of the connection in the capture is the client's first flight: it begins with an Initial packet -/
  first : mixItems fl ((fileKeysOf keyFile).getD []) 0 evsA = (kl0, p0, d0) :: itemsA
  fromClient : d0.srv = false
  firstLong : d0.longs ≠ []
  described : QDescribed2 fl (DgM.wire H Pc L d0.dcid sel sh ch sa ca)
    (wireOf H Pc L sel .v1 (rfcGen (hashOf H sel.hash) sel.keyLen sa ca 0)) (optsOf args ports pm) (evsA ++ evsB)
  phaseA : ∀ ev ∈ evsA, noOne2 ev = true
  phaseB : ∀ ev ∈ evsB, noMix2 ev = true
  /-- the mixed part: `MixDgs` (conformant long-header packets; a 1-RTT packet only after the ServerHello was captured, in key
      generation 0, with the datagram's DCID), carrying the handshake's CRYPTO frames; routable (`RoutesM`) -/
  mixDgs : MixDgs maskFn H Pc L d0.dcid sel sh ch sa ca trk0 (d0 :: itemsA.map (·.2.2))
  mixIns : allInsM (d0 :: itemsA.map (·.2.2)) = hs.ins
  keyed : (trk0.runM (d0 :: itemsA.map (·.2.2))).keyed = true
  routesA : RoutesM (DgM.wire H Pc L d0.dcid sel sh ch sa ca) (trk0.dgm d0) (itemsA.map (·.2.2))
  /-- the 1-RTT-only part: `Send1` (any key updates), routable (`Routes1`) -/
  send1 : Send1 maskFn H Pc L sel .v1 (rfcGen (hashOf H sel.hash) sel.keyLen sa ca 0)
      (quicHp (hashOf H sel.hash) ca sel.keyLen) (quicHp (hashOf H sel.hash) sa sel.keyLen)
      (chachaOf (trk0.runM (d0 :: itemsA.map (·.2.2))).core) 0 0
      (trk0.runM (d0 :: itemsA.map (·.2.2))).tc.app (trk0.runM (d0 :: itemsA.map (·.2.2))).ts.app
      (trk0.runM (d0 :: itemsA.map (·.2.2))).cc (trk0.runM (d0 :: itemsA.map (·.2.2))).sc
      ((oneItems2 fl evsA.length evsB).map (·.2))
  routesB : Routes1 (wireOf H Pc L sel .v1 (rfcGen (hashOf H sel.hash) sel.keyLen sa ca 0))
      (trk0.runM (d0 :: itemsA.map (·.2.2))).cc (trk0.runM (d0 :: itemsA.map (·.2.2))).sc
      ((oneItems2 fl evsA.length evsB).map (·.2))
  /-- CONSECUTIVE datagrams with STREAM data differ in (capture microsecond, direction): the output builder merges adjacent
      frames of equal time and direction into one datagram (`C02Out.build_groups_needs_distinct`) -/
  distinct : C02Out.DistinctAdjacent false ((shortsOf (d0 :: itemsA.map (·.2.2)) ++
      (oneItems2 fl evsA.length evsB).map (·.2)).map fun d => inDg d.x)
  /-- the OTHER QUIC connections of the capture are separated from this one in the sense of Props/C04 (`QuicSeparated`: at
      no moment of either run alone does a session exist that recognises a datagram of the other — other 4-tuple, DCID not
      among its connection IDs, none of its connection IDs a prefix of the short-header bytes), both ways -/
  sepOwn : QuicSeparated (quicMachine maskFn H Pc (capInfo ((evsA ++ evsB).map QEv2.cap))) (optsOf args ports pm)
      (ownView fl ((fileKeysOf keyFile).getD []) ((kl0, p0, d0) :: itemsA) (oneItems2 fl evsA.length evsB))
      (othView (optsOf args ports pm) ((fileKeysOf keyFile).getD []) 0 (evsA ++ evsB))
  sepOther : QuicSeparated (quicMachine maskFn H Pc (capInfo ((evsA ++ evsB).map QEv2.cap))) (optsOf args ports pm)
      (othView (optsOf args ports pm) ((fileKeysOf keyFile).getD []) 0 (evsA ++ evsB))
      (ownView fl ((fileKeysOf keyFile).getD []) ((kl0, p0, d0) :: itemsA) (oneItems2 fl evsA.length evsB))

variable {maskFn H Pc}

/-- the block of the connection's session: one UDP frame per datagram whose 1-RTT packet carried STREAM data, mixed part and
    1-RTT-only part in capture order -/
def blockOf2 (args : Args) (pm : List (Int × Int)) (ports : List Int) (fl : Flow) (evsA evsB : List QEv2)
    (p0 : MainLoop.Pkt) (d0 : DgM) (itemsA : List (List Keylog.Key × MainLoop.Pkt × DgM)) : List Pipeline.OutPkt :=
  expectedOut ((quicMachine maskFn H Pc (capInfo ((evsA ++ evsB).map QEv2.cap))).new (optsOf args ports pm) p0)
    (shortsOf (d0 :: itemsA.map (·.2.2)) ++ (oneItems2 fl evsA.length evsB).map (·.2))

/-- **C02 FROM FILE TO FILE, one interleaved connection among other QUIC connections.** As `C02File.quic_capture_exact`,
    for a capture in which (1) the connection's datagrams are coalesced packets of several levels in any interleaving —
    1-RTT data before the end of the handshake, 1-RTT packets behind Handshake packets — and (2) datagrams of OTHER QUIC
    connections, separated from this one in C04's sense, stand anywhere between them: the output file contains, as the
    block of the connection's session, exactly `blockOf2`. -/
theorem quic_capture_exact2 {L : SealLaws Pc} {args : Args} {keyFile : Option Keylog.Str} {pm : List (Int × Int)}
    {ports : List Int} {fl : Flow} {hs : ConfHs} {ch sh ca sa : Bytes} {early : Option Bytes} {sel : SuiteSel}
    {evsA evsB : List QEv2} {kl0 : List Keylog.Key} {p0 : MainLoop.Pkt} {d0 : DgM}
    {itemsA : List (List Keylog.Key × MainLoop.Pkt × DgM)}
    (h : QuicCapture2 maskFn H Pc L args keyFile pm ports fl hs ch sh ca sa early sel evsA evsB kl0 p0 d0 itemsA)
    (legacy : Bool) (file : Bytes)
    (hread : Container.read legacy file = .ok (((evsA ++ evsB).map QEv2.cap).map CapEv.item)) :
    (∃ e, exportFile maskFn H Pc args legacy keyFile file = .abort (.write e)) ∨
    ∃ f, exportFile maskFn H Pc args legacy keyFile file = .file f ∧
      ReadsBack f (blockOf2 (maskFn := maskFn) (H := H) (Pc := Pc) args pm ports fl evsA evsB p0 d0 itemsA) := by
  obtain ⟨hcap, S1, S2, sess, hq, hblk⟩ := quic_capture_session2 maskFn H Pc h.lawful h.sha256 L args keyFile evsA evsB
    h.times h.noc h.nometa pm ports h.pmOk h.portsOk fl h.endpoints h.clientPort hs h.hsOk ch sh ca sa early sel h.suite
    h.outLen h.saLen h.caLen h.keylog kl0 p0 d0 itemsA h.first h.fromClient h.firstLong h.described h.phaseA h.phaseB
    h.mixDgs h.mixIns h.keyed h.routesA h.send1 h.routesB h.distinct h.sepOwn h.sepOther
  exact export_of_quic_session_among maskFn H Pc args legacy keyFile file _ hread hcap h.noc pm ports h.pmOk h.portsOk
    S1 S2 sess hq _ hblk

/-- … for the BYTES of a capture file written by the independent container encoder in ANY variant -/
theorem quic_capture_exact2_encoded {L : SealLaws Pc} {args : Args} {keyFile : Option Keylog.Str} {pm : List (Int × Int)}
    {ports : List Int} {fl : Flow} {hs : ConfHs} {ch sh ca sa : Bytes} {early : Option Bytes} {sel : SuiteSel}
    {evsA evsB : List QEv2} {kl0 : List Keylog.Key} {p0 : MainLoop.Pkt} {d0 : DgM}
    {itemsA : List (List Keylog.Key × MainLoop.Pkt × DgM)}
    (h : QuicCapture2 maskFn H Pc L args keyFile pm ports fl hs ch sh ca sa early sel evsA evsB kl0 p0 d0 itemsA)
    (cv : Spec.Containers.Variant) (cevs : List Spec.Containers.Ev) (hcwf : cv.WF cevs)
    (hitems : cevs.filterMap (Spec.Containers.scale cv) = ((evsA ++ evsB).map QEv2.cap).map CapEv.item) :
    (∃ e, exportFile maskFn H Pc args cv.isLegacy keyFile (Spec.Containers.encode cv cevs) = .abort (.write e)) ∨
    ∃ f, exportFile maskFn H Pc args cv.isLegacy keyFile (Spec.Containers.encode cv cevs) = .file f ∧
      ReadsBack f (blockOf2 (maskFn := maskFn) (H := H) (Pc := Pc) args pm ports fl evsA evsB p0 d0 itemsA) :=
  quic_capture_exact2 h cv.isLegacy _ (by rw [Props.C12.reader_roundtrip cv cevs hcwf, hitems])

end Capture2
end TLX.Props.C02File2

/-! ### non-vacuity -/
namespace TLX.Props.C02File2.Ex
open TLX TLX.MainLoop TLX.Spec.Demux TLX.Dissect TLX.OutBytes TLX.Export TLX.Lemmas.MainLoop
open TLX.Props.C01File TLX.Spec.FrameBuild TLX.Spec.TlsCapture TLX.Spec.QuicCapture
open TLX.Spec.QuicSender TLX.Spec.QuicConnection TLX.Spec.QuicPackets TLX.QuicPipeline TLX.Props.C02Capstone
open TLX.Quic.Session TLX.Cipher TLX.Props.C02Session TLX.Spec.QuicFrames
open TLX.Spec.TlsHello TLX.Spec.TlsHandshakeFraming TLX.Props.C02Capstone.ExConf
open TLX.Spec.KeySchedules TLX.Props.C02Capstone3 TLX.Props.C02File
open TLX.Props.C01File.Ex (timeAt arp notMinusOne cMac sMac args0 ports0)
open TLX.Props.C02File.Ex (H Pc L m5 maskFn sel hs hs_ok chS shS caS saS w0 w2 usAt cidS0 cidS cidC qCI qSI qSH qCH fl udpOf
  dgFrame isDg_mk dns dnsDg dnsFrame dnsU flDns keyText keys keylog0 wfCI wfSI wfSH wfCH pkCI pkSI pkSH tA tB o dcid0
  arp_notQuic dns_notQuic)

/-- server: 1-RTT data (0.5-RTT) in the SAME datagram as its Initial and Handshake packets, before the client's Finished -/
def oS : Dg1 :=
  ⟨{ level := .oneRtt, srv := true, ts := usAt 2, pn := 0, pnLen := 1,
     frames := [.stream false ⟨3, w0⟩ none (some w0) [0x48, 0x49], .padding 3], dcid := cidC, gen := 0 }, m5⟩
/-- client: its Finished and the first request in one datagram -/
def oC : Dg1 :=
  ⟨{ level := .oneRtt, srv := false, ts := usAt 4, pn := 0, pnLen := 1,
     frames := [.stream true ⟨0, w0⟩ none (some w0) [0x47, 0x45, 0x54], .padding 3], dcid := cidS, gen := 0 }, m5⟩
/-- the 1-RTT-only part: the server updates its keys, the client follows -/
def b5 : Dg1 :=
  ⟨{ level := .oneRtt, srv := true, ts := usAt 5, pn := 1, pnLen := 2,
     frames := [.ping, .stream false ⟨3, w0⟩ (some ⟨2, w0⟩) none [0x4f, 0x4b]], dcid := cidC, gen := 1, lowBits := 5 }, m5⟩
def b7 : Dg1 :=
  ⟨{ level := .oneRtt, srv := false, ts := usAt 7, pn := 1, pnLen := 1,
     frames := [.stream false ⟨4, w0⟩ none (some w0) [0x4d, 0x4f, 0x52, 0x45], .padding 3], dcid := cidS, gen := 1 }, m5⟩

def d0 : DgM := ⟨false, usAt 1, [qCI], none⟩
def dS : DgM := ⟨true, usAt 2, [qSI, qSH], some oS⟩
def dC : DgM := ⟨false, usAt 4, [qCH], some oC⟩

def wM : DgM → Bytes := DgM.wire H Pc L d0.dcid sel shS chS saS caS
def w1 : Dg1 → Bytes := wireOf H Pc L sel .v1 (rfcGen (hashOf H sel.hash) sel.keyLen saS caS 0)

def mixEv (n : Nat) (d : DgM) : QEv2 := .mix (timeAt n) (dgFrame d.srv (wM d)) (udpOf d.srv (wM d)) d
def oneEv (n : Nat) (d : Dg1) : QEv2 := .one (timeAt n) (dgFrame d.x.srv (w1 d)) (udpOf d.x.srv (w1 d)) d

/-- a datagram of ANOTHER flow that the main loop takes for QUIC: fixed bit and long-header bit set, cut short after three
    bytes (`handle_quic_packet` returns on it) -/
def flOther : Flow := ⟨false, [10, 0, 0, 9], 40000, [10, 0, 0, 2], 443⟩
def othU : Udp := ⟨40000, 443, 0, [0xc3, 0, 0]⟩
def othFrame : Spec.FrameBuild.Frame :=
  ⟨sMac, cMac, .v4 ⟨0, 9, false, false, 64, 0, [10, 0, 0, 9], [10, 0, 0, 2], []⟩, .udp othU, []⟩
def oth (n : Nat) : CapEv := ⟨timeAt n, othFrame.encode, viewOf othFrame⟩

def evsA : List QEv2 := [.foreign arp, mixEv 1 d0, mixEv 2 dS, .other (oth 3), mixEv 4 dC]
def evsB : List QEv2 := [oneEv 5 b5, .foreign (dns 6), oneEv 7 b7]

def itemsA : List (List Keylog.Key × MainLoop.Pkt × DgM) :=
  [(keys, dgPkt fl true (wM dS) 2, dS), (keys, dgPkt fl false (wM dC) 4, dC)]
def p0 : MainLoop.Pkt := dgPkt fl false (wM d0) 1

theorem first0 : mixItems fl keys 0 evsA = (keys, p0, d0) :: itemsA := rfl
theorem ones0 : (oneItems2 fl evsA.length evsB).map (·.2) = [b5, b7] := rfl
theorem shorts0 : shortsOf (d0 :: itemsA.map (·.2.2)) = [oS, oC] := rfl
theorem mixIns0 : allInsM (d0 :: itemsA.map (·.2.2)) = hs.ins := by decide +kernel
theorem keyed0 : (trk0.runM (d0 :: itemsA.map (·.2.2))).keyed = true := by decide +kernel


theorem wfS : WellFormedSeq oS.x.frames := by
  simp [oS, WellFormedSeq, QFrame.wf, QFrame.greedy, optOk, optFits]; decide +kernel
theorem wfC : WellFormedSeq oC.x.frames := by
  simp [oC, WellFormedSeq, QFrame.wf, QFrame.greedy, optOk, optFits]; decide +kernel
theorem wfB5 : WellFormedSeq b5.x.frames := by
  simp [b5, WellFormedSeq, QFrame.wf, QFrame.greedy, optOk, optFits]; decide +kernel
theorem wfB7 : WellFormedSeq b7.x.frames := by
  simp [b7, WellFormedSeq, QFrame.wf, QFrame.greedy, optOk, optFits]; decide +kernel

def t1 : Trk := trk0.dgm d0
def t2 : Trk := t1.dgm dS
def t3 : Trk := t2.dgm dC

theorem pkCH' : HsPkOk maskFn H Pc L d0.dcid sel shS chS t2 qCH :=
  ⟨⟨by decide, by decide, by decide, by decide, by decide, by decide, by decide +kernel, by decide +kernel⟩,
    by decide +kernel, by decide +kernel, by decide +kernel, wfCH, by decide +kernel, rfl, by decide⟩

theorem shortS : ShortOk maskFn H Pc L sel saS caS (t1.run dS.longs) dS oS :=
  ⟨rfl, rfl, by decide, by decide +kernel, rfl, rfl, by decide +kernel, wfS,
    ⟨by decide, by decide +kernel, rfl, by decide⟩⟩
theorem shortC : ShortOk maskFn H Pc L sel saS caS (t2.run dC.longs) dC oC :=
  ⟨rfl, rfl, by decide, by decide +kernel, rfl, rfl, by decide +kernel, wfC,
    ⟨by decide, by decide +kernel, rfl, by decide⟩⟩

theorem mixDgs0 : MixDgs maskFn H Pc L d0.dcid sel shS chS saS caS trk0 (d0 :: itemsA.map (·.2.2)) := by
  refine ⟨⟨?_, by decide +kernel, ⟨pkCI, trivial⟩, .inl (by decide), ?_⟩,
    ⟨?_, by decide +kernel, ⟨pkSI, pkSH, trivial⟩, .inl (by decide), ?_⟩,
    ⟨?_, by decide +kernel, ⟨pkCH', trivial⟩, .inl (by decide), ?_⟩, trivial⟩
  · intro q hq; simp only [d0, List.mem_singleton] at hq; subst hq; exact ⟨rfl, rfl⟩
  · intro o ho; cases ho
  · intro q hq; simp only [dS, List.mem_cons, List.not_mem_nil, or_false] at hq; rcases hq with rfl | rfl <;> exact ⟨rfl, rfl⟩
  · intro o ho; cases ho; exact shortS
  · intro q hq; simp only [dC, List.mem_singleton] at hq; subst hq; exact ⟨rfl, rfl⟩
  · intro o ho; cases ho; exact shortC


theorem lenM (d : DgM) (h : d ∈ [d0, dS, dC]) : (wM d).length < 60000 := by
  simp only [List.mem_cons, List.not_mem_nil, or_false] at h
  rcases h with rfl | rfl | rfl <;> decide +kernel

theorem len1 (d : Dg1) (h : d ∈ [b5, b7]) : (w1 d).length < 60000 := by
  simp only [List.mem_cons, List.not_mem_nil, or_false] at h
  rcases h with rfl | rfl <;> decide +kernel

theorem mixEv_ok (n : Nat) (d : DgM) (h : d ∈ [d0, dS, dC]) (hts : d.ts = usAt n) (hh : HdrOkM d) :
    IsDg fl d.srv (dgFrame d.srv (wM d)) (udpOf d.srv (wM d)) ∧ (udpOf d.srv (wM d)).payload = wM d ∧
      d.ts = Container.usOfFloat (timeAt n).toFloat ∧ HdrOkM d :=
  ⟨isDg_mk _ _ (lenM d h), rfl, hts, hh⟩

theorem othDg : IsDg flOther false othFrame othU := by
  simp [IsDg, Spec.FrameBuild.Frame.WF, Upper.WF, Udp.WF, V4.WF, othFrame, othU, Upper.encode, Udp.encode, be2, flOther,
    cMac, sMac]

theorem described0 : QDescribed2 fl wM w1 o (evsA ++ evsB) := by
  intro ev hev
  simp only [evsA, evsB, List.cons_append, List.nil_append, List.mem_cons, List.not_mem_nil, or_false] at hev
  rcases hev with rfl | rfl | rfl | rfl | rfl | rfl | rfl | rfl
  · exact arp_notQuic
  · exact mixEv_ok 1 d0 (by simp) rfl (.inl ⟨qCI, [], rfl, pkCI.shape, by decide, by decide⟩)
  · exact mixEv_ok 2 dS (by simp) rfl (.inl ⟨qSI, [qSH], rfl, pkSI.shape, by decide, by decide⟩)
  · exact dissect_dg flOther false othFrame othU othDg
  · exact mixEv_ok 4 dC (by simp) rfl (.inl ⟨qCH, [], rfl, pkCH'.shape, by decide, by decide⟩)
  · exact ⟨isDg_mk _ _ (len1 b5 (by simp)), rfl, rfl, by decide, by decide⟩
  · exact dns_notQuic 6
  · exact ⟨isDg_mk _ _ (len1 b7 (by simp)), rfl, rfl, by decide, by decide⟩

theorem times0 : ∀ e ∈ (evsA ++ evsB).map QEv2.cap, Ingest.isMinusOne e.t = false := by
  intro e he
  simp only [evsA, evsB, List.cons_append, List.nil_append, List.map_cons, List.map_nil, List.mem_cons, List.not_mem_nil,
    or_false] at he
  rcases he with rfl | rfl | rfl | rfl | rfl | rfl | rfl | rfl <;> exact notMinusOne _

def tF : Trk := trk0.runM (d0 :: itemsA.map (·.2.2))

theorem tF_eq : chachaOf tF.core = false ∧ tF.tc.app = 0 ∧ tF.ts.app = 0 ∧ tF.cc = [cidC] ∧ tF.sc = [cidS0, cidS] := by
  decide +kernel

theorem send1_0 : Send1 maskFn H Pc L sel .v1 (rfcGen (hashOf H sel.hash) sel.keyLen saS caS 0)
    (quicHp (hashOf H sel.hash) caS sel.keyLen) (quicHp (hashOf H sel.hash) saS sel.keyLen)
    (chachaOf tF.core) 0 0 tF.tc.app tF.ts.app tF.cc tF.sc ((oneItems2 fl evsA.length evsB).map (·.2)) := by
  obtain ⟨e1, e2, e3, e4, e5⟩ := tF_eq
  rw [ones0, e1, e2, e3, e4, e5]
  refine ⟨rfl, by decide, by decide, by decide +kernel, wfB5, ⟨by decide, by decide +kernel, rfl, by decide⟩, by decide,
    rfl, by decide, by decide, by decide +kernel, wfB7, ⟨by decide, by decide +kernel, rfl, by decide⟩, by decide, trivial⟩

theorem routesB0 : Routes1 w1 tF.cc tF.sc ((oneItems2 fl evsA.length evsB).map (·.2)) := by
  obtain ⟨_, _, _, e4, e5⟩ := tF_eq
  rw [ones0, e4, e5]
  refine ⟨?_, ?_, trivial⟩ <;> decide +kernel

theorem routesA0 : RoutesM wM (trk0.dgm d0) (itemsA.map (·.2.2)) :=
  ⟨fun h => absurd h (by decide), fun h => absurd h (by decide), trivial⟩

theorem distinct0 : C02Out.DistinctAdjacent false ((shortsOf (d0 :: itemsA.map (·.2.2)) ++
    (oneItems2 fl evsA.length evsB).map (·.2)).map fun d => inDg d.x) := by
  rw [shorts0, ones0]
  have hf : (([oS, oC] ++ [b5, b7]).map (fun d => inDg d.x)).filter (C02Out.hasExported false) =
      ([oS, oC] ++ [b5, b7]).map (fun d => inDg d.x) := by
    rw [List.filter_eq_self]
    intro d hd
    simp only [List.cons_append, List.nil_append, List.map_cons, List.map_nil, List.mem_cons, List.not_mem_nil, or_false] at hd
    rcases hd with rfl | rfl | rfl | rfl <;> rw [hasExported_inDg] <;> decide
  unfold C02Out.DistinctAdjacent
  rw [hf]
  simp [C02Out.InDgram.key, inDg, Quic.UdpOut.AdjDistinct, oS, oC, b5, b7]


def pO : MainLoop.Pkt := pktOf 3 (oth 3).d

theorem othView0 : othView o keys 0 (evsA ++ evsB) = [⟨keys, .tooShort, pO⟩] := by
  have hp : pO = ⟨.udp, clientEp flOther, serverEp flOther, othU.payload, true, 3⟩ := by
    show pktOf 3 (viewOf othFrame) = _
    rw [pktOf_dg flOther false othFrame othU othDg]; rfl
  simp only [evsA, evsB, List.cons_append, List.nil_append, othView, List.append_nil]
  show quicView o keys [.frame pO] = _
  rw [hp, quicView_dgram o rfl _ rfl 0xc3 [0, 0] rfl (by decide) keys]
  have : parseHeader1 0xc3 [0, 0] = .tooShort := by decide
  rw [this]

theorem sepOwn0 : QuicSeparated (quicMachine maskFn H Pc (capInfo ((evsA ++ evsB).map QEv2.cap))) o
    (ownView fl keys ((keys, p0, d0) :: itemsA) (oneItems2 fl evsA.length evsB)) (othView o keys 0 (evsA ++ evsB)) := by
  intro n s _ x hx hne
  rw [othView0] at hx
  simp only [List.mem_singleton] at hx
  subst hx
  exact absurd rfl hne

theorem sepOther0 : QuicSeparated (quicMachine maskFn H Pc (capInfo ((evsA ++ evsB).map QEv2.cap))) o
    (othView o keys 0 (evsA ++ evsB)) (ownView fl keys ((keys, p0, d0) :: itemsA) (oneItems2 fl evsA.length evsB)) := by
  intro n s hs
  rw [othView0] at hs
  have : quicRun (quicMachine maskFn H Pc (capInfo ((evsA ++ evsB).map QEv2.cap))) o []
      (List.take n [(⟨keys, .tooShort, pO⟩ : QIn Keylog.Key)]) = [] := by
    cases n with
    | zero => rfl
    | succ m => simp [quicRun, quicHandleH]
  rw [this] at hs
  cases hs

/-- **every hypothesis of `quic_capture_exact2` holds** for this capture -/
theorem capture2_0 : QuicCapture2 maskFn H Pc L args0 (some keyText) [] ports0 fl hs chS shS caS saS none sel evsA evsB
    keys p0 d0 itemsA where
  lawful := Props.C15.sizedToy_lawful
  sha256 := rfl
  times := times0
  noc := rfl
  nometa := rfl
  pmOk := rfl
  portsOk := rfl
  endpoints := by decide
  clientPort := by decide +kernel
  hsOk := hs_ok
  suite := by decide
  outLen := by decide
  saLen := rfl
  caLen := rfl
  keylog := keylog0
  first := first0
  fromClient := rfl
  firstLong := by decide
  described := described0
  phaseA := by decide
  phaseB := by decide
  mixDgs := mixDgs0
  mixIns := mixIns0
  keyed := keyed0
  routesA := routesA0
  send1 := send1_0
  routesB := routesB0
  distinct := distinct0
  sepOwn := sepOwn0
  sepOther := sepOther0


open TLX.Props.C01File.Ex (cv0 cevOf legacy_wf filterMap_map_some scale_cev)
open TLX.Props.C02File.Ex (dgFrame_length)

def cevs0 : List Spec.Containers.Ev := ((evsA ++ evsB).map QEv2.cap).map cevOf

theorem evs_bounds : ∀ e ∈ (evsA ++ evsB).map QEv2.cap, ∃ k, k < 100 ∧ e.t = timeAt k ∧ e.buf.length < 70000 := by
  intro e he
  simp only [evsA, evsB, List.cons_append, List.nil_append, List.map_cons, List.map_nil, List.mem_cons, List.not_mem_nil,
    or_false] at he
  rcases he with rfl | rfl | rfl | rfl | rfl | rfl | rfl | rfl
  · exact ⟨0, by decide, rfl, by decide⟩
  · exact ⟨1, by decide, rfl, by simp only [mixEv, QEv2.cap, dgFrame_length]; have := lenM d0 (by simp); omega⟩
  · exact ⟨2, by decide, rfl, by simp only [mixEv, QEv2.cap, dgFrame_length]; have := lenM dS (by simp); omega⟩
  · exact ⟨3, by decide, rfl, by decide +kernel⟩
  · exact ⟨4, by decide, rfl, by simp only [mixEv, QEv2.cap, dgFrame_length]; have := lenM dC (by simp); omega⟩
  · exact ⟨5, by decide, rfl, by simp only [oneEv, QEv2.cap, dgFrame_length]; have := len1 b5 (by simp); omega⟩
  · exact ⟨6, by decide, rfl, by decide +kernel⟩
  · exact ⟨7, by decide, rfl, by simp only [oneEv, QEv2.cap, dgFrame_length]; have := len1 b7 (by simp); omega⟩

theorem cwf0 : cv0.WF cevs0 := by
  refine ⟨by decide, by decide, by decide, by decide, by decide, legacy_wf _ _ rfl ?_ 0⟩
  intro ev hev
  simp only [cevs0, List.mem_map] at hev
  obtain ⟨e, ⟨c, hc, rfl⟩, rfl⟩ := hev
  obtain ⟨k, hk, ht, hl⟩ := evs_bounds _ (List.mem_map.mpr ⟨c, hc, rfl⟩)
  refine ⟨_, _, rfl, ?_, by omega⟩
  rw [ht]
  simp only [timeAt, Spec.Containers.LegacyVariant.unitsPerSecond, if_true]
  have : ((1700000000 : Int).toNat * 10 ^ 9 + (1000 + k)) / 10 ^ 9 = 1700000000 := by
    have : (1700000000 : Int).toNat = 1700000000 := rfl
    rw [this]; omega
  rw [this]; decide

theorem citems0 : cevs0.filterMap (Spec.Containers.scale cv0) = ((evsA ++ evsB).map QEv2.cap).map CapEv.item := by
  unfold cevs0
  apply filterMap_map_some
  intro e he
  obtain ⟨k, hk, ht, _⟩ := evs_bounds e he
  exact scale_cev _ k hk ht

/-- what the export must contain: the server's early reply `HI` (sent behind its Handshake packet, before the client's
    Finished), the client's `GET` (sent behind its Finished), then `OK` and `MORE` under updated keys -/
def out0 : List Pipeline.OutPkt :=
  [⟨usAt 2, sMac, cMac, ⟨[10, 0, 0, 2], 443⟩, ⟨[10, 0, 0, 1], 50000⟩, false, 0, 0, 0, [0x48, 0x49], true⟩,
   ⟨usAt 4, cMac, sMac, ⟨[10, 0, 0, 1], 50000⟩, ⟨[10, 0, 0, 2], 443⟩, false, 0, 0, 0, [0x47, 0x45, 0x54], true⟩,
   ⟨usAt 5, sMac, cMac, ⟨[10, 0, 0, 2], 443⟩, ⟨[10, 0, 0, 1], 50000⟩, false, 0, 0, 0, [0x4f, 0x4b], true⟩,
   ⟨usAt 7, cMac, sMac, ⟨[10, 0, 0, 1], 50000⟩, ⟨[10, 0, 0, 2], 443⟩, false, 0, 0, 0, [0x4d, 0x4f, 0x52, 0x45], true⟩]

theorem block0 : blockOf2 (maskFn := maskFn) (H := H) (Pc := Pc) args0 [] ports0 fl evsA evsB p0 d0 itemsA = out0 := rfl

/-- **Non-vacuity of `quic_capture_exact2`.** The capture FILE (nanosecond libpcap): an ARP request; the client's Initial;
    ONE server datagram with its Initial (ServerHello), its Handshake packet (the rest of its flight) AND a 1-RTT packet
    with early reply data; a truncated long-header datagram of another flow (taken for QUIC by the loop); ONE client datagram
    with its Handshake packet (Finished) AND its first 1-RTT request; then, with updated keys, a server and a client 1-RTT
    datagram, a DNS query between them. Every hypothesis of `QuicCapture2` is discharged by evaluation (`capture2_0`). So
    the export contains exactly `HI`, `GET`, `OK`, `MORE` — four frames, one per datagram with STREAM data. -/
theorem quic_file2_instance :
    (∃ e, exportFile maskFn H Pc args0 cv0.isLegacy (some keyText) (Spec.Containers.encode cv0 cevs0) = .abort (.write e)) ∨
    ∃ f, exportFile maskFn H Pc args0 cv0.isLegacy (some keyText) (Spec.Containers.encode cv0 cevs0) = .file f ∧
      ReadsBack f out0 := by
  have h := quic_capture_exact2_encoded capture2_0 cv0 cevs0 cwf0 citems0
  rw [block0] at h
  exact h

end TLX.Props.C02File2.Ex
