/-
C07 (TLS session part) — every exported entry is attributed to the record it came from and the direction that
record travelled in: for EVERY decryptor behaviour and record sequence, each element of `application_traffic` carries
one of the handled records (with its carrier packets, which `TLX.Props.C05.metadata_is_overlap` identifies as exactly
the packets overlapping the record's bytes) and that record's direction flag, in the order the records were handled.
With `TLX.Props.C07.out_ts_from_carrier` the exported segment's time is the time of one of those packets.
-/
import TLX.Lemmas.Session
namespace TLX.Props.C07
open TLX TLX.Session

variable {δ : Type}

theorem entry_origin (O : Ops δ) (m : Bool) (rs : List (Rec × Bool)) :
    ∀ e ∈ (run O m St.init rs).traffic, (e.record, e.fromServer) ∈ rs := by
  suffices ∀ (s : St δ) (base : List (Rec × Bool)), (∀ e ∈ s.traffic, (e.record, e.fromServer) ∈ base) →
      ∀ e ∈ (run O m s rs).traffic, (e.record, e.fromServer) ∈ base ++ rs by
    simpa using this St.init [] (by simp [St.init])
  induction rs with
  | nil => intro s base h e he; simpa using h e he
  | cons x rest ih =>
    intro s base h e he
    simp only [run, List.foldl_cons] at he
    obtain ⟨l, hl, hp⟩ := handleRecord_appends O m s x.1 x.2
    have := ih (handleRecord O m s x.1 x.2) (base ++ [x]) (by
      intro e' he'
      rw [hl] at he'
      rcases List.mem_append.mp he' with h1 | h1
      · exact List.mem_append_left _ (h _ h1)
      · obtain ⟨h2, h3⟩ := hp e' h1
        apply List.mem_append_right
        simp [h2, h3]) e (by simpa [run] using he)
    simpa using this

/-- the traffic list is the concatenation, in handling order, of what each record contributed; what record `i`
    contributed carries record `i` and its direction (so traffic order = record order per connection) -/
theorem traffic_by_record (O : Ops δ) (m : Bool) (rs : List (Rec × Bool)) :
    ∃ ls : List (List Entry), (run O m St.init rs).traffic = ls.flatten ∧ ls.length = rs.length ∧
      ∀ p ∈ ls.zip rs, ∀ e ∈ p.1, (e.record, e.fromServer) = p.2 := by
  suffices ∀ (s : St δ), ∃ ls : List (List Entry), (run O m s rs).traffic = s.traffic ++ ls.flatten ∧
      ls.length = rs.length ∧ ∀ p ∈ ls.zip rs, ∀ e ∈ p.1, (e.record, e.fromServer) = p.2 by
    simpa [St.init] using this St.init
  induction rs with
  | nil => intro s; exact ⟨[], by simp [run], rfl, by simp⟩
  | cons x rest ih =>
    intro s
    obtain ⟨l, hl, hp⟩ := handleRecord_appends O m s x.1 x.2
    obtain ⟨ls, h1, h2, h3⟩ := ih (handleRecord O m s x.1 x.2)
    refine ⟨l :: ls, ?_, by simp [h2], ?_⟩
    · simp only [run, List.foldl_cons] at h1 ⊢
      rw [h1, hl]; simp
    · intro p hpz e he
      simp only [List.zip_cons_cons, List.mem_cons] at hpz
      rcases hpz with rfl | hpz
      · obtain ⟨a, b⟩ := hp e he
        simp [a, b]
      · exact h3 p hpz e he

-- Non-vacuity
def echo : Ops Unit := ⟨fun d r _ => (d, some (some r.body)), fun d _ => (d, true), fun _ _ _ _ _ _ => .installed ()⟩
example : ((run echo true St.init [(⟨[0x16, 3, 3, 0, 1, 1], [7]⟩, false), (⟨[0x14, 3, 3, 0, 1, 1], [8]⟩, true)]).traffic.map
    fun e => (e.record.carriers, e.fromServer)) = [([7], false), ([8], true)] := by decide

end TLX.Props.C07
