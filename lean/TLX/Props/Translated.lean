/-
The translated Python functions (`TLX/Gen/Translated/<Group>.lean`, regenerated from the tree under test on every run by
`harness/translate.py`) EQUAL the hand-written model functions the property theorems are about: one module per group, so
that a check proves only the groups its property rests on (`translate.BY_CHECK`). This file only collects them.
-/
import TLX.Props.Translated.QuicDissect
import TLX.Props.Translated.Varint
import TLX.Props.Translated.Pn
import TLX.Props.Translated.QuicSess
import TLX.Props.Translated.Demux
import TLX.Props.Translated.Ports
import TLX.Props.Translated.TlsSess
import TLX.Props.Translated.Reasm
import TLX.Props.Translated.Frames
import TLX.Props.Translated.Checksum
import TLX.Props.Translated.Suites
import TLX.Props.Translated.QuicDissect2
import TLX.Props.Translated.TlsSess2
import TLX.Props.Translated.Reasm2
import TLX.Props.Translated.KeySched
import TLX.Props.Translated.Builders
import TLX.Props.Translated.Decrypt
import TLX.Props.Translated.QuicTls
import TLX.Props.Translated.QuicSess2
import TLX.Props.Translated.Main2
import TLX.Props.Translated.Keylog
import TLX.Props.Translated.QuicSess3
import TLX.Props.Translated.Decrypt2
import TLX.Props.Translated.Opts
import TLX.Props.Translated.TlsKeys
import TLX.Props.Translated.Dsb
