/-
The translated Python functions (`TLX/Gen/Translated.lean`, regenerated from the tree under test on every run by
`harness/translate.py`) EQUAL the hand-written model functions the property theorems are about.

Every theorem is `<python name>_eq_model`; the encoding maps between Python-level values and model values are the few
trivial definitions at the top. A change of the Python source that alters what one of these functions computes alters
the generated definition and the equality stops checking.
-/
import TLX.Gen.Translated
import TLX.Lemmas.PyRt
import TLX.Lemmas.Translated
import TLX.Quic.Dissect
import TLX.Quic.Varint
import TLX.Quic.Session
import TLX.MainLoop
namespace TLX.Props.Translated
open TLX TLX.PyRt TLX.Lemmas.Translated TLX.Quic.PktNum

/-! ### encodings -/

/-- a model's `none` for IndexError -/
def ofOpt {α : Type} : Option α → Except Err α
  | none => .error .index
  | some a => .ok a

/-- functions of `datagram_data[0]`: IndexError on `b""`, else the model's function of the first byte -/
def onFirst {α : Type} (d : Bytes) (f : UInt8 → α) : Except Err α :=
  match d with
  | [] => .error .index
  | fb :: _ => .ok (f fb)

/-! ### tlexport/quic/quic_dissector.py -/

/-- `get_header_type` is the model's `isLong` of the first byte -/
theorem get_header_type_eq_model (d : Bytes) :
    Gen.Py.get_header_type d = onFirst d fun fb => if Quic.Dissect.isLong fb then .long else .short := by
  cases d with
  | nil => simp [Gen.Py.get_header_type, onFirst]
  | cons fb r =>
    simp only [Gen.Py.get_header_type, getItem_cons_zero, onFirst]
    revert fb
    apply forall_u8
    decide +kernel

example : Gen.Py.get_header_type [0xc3, 0, 0, 0, 1] = .ok .long ∧ Gen.Py.get_header_type [0x43] = .ok .short := by decide

/-- `get_packet_type` is the model's `packetType` of the first byte (never `None`) -/
theorem get_packet_type_eq_model (d : Bytes) :
    Gen.Py.get_packet_type d = onFirst d fun fb => some (Quic.Dissect.packetType fb) := by
  cases d with
  | nil => simp [Gen.Py.get_packet_type, onFirst]
  | cons fb r =>
    simp only [Gen.Py.get_packet_type, getItem_cons_zero, onFirst]
    revert fb
    apply forall_u8
    decide +kernel

example : Gen.Py.get_packet_type [0xe3] = .ok (some .handshake) ∧ Gen.Py.get_packet_type [] = .error .index := by decide

/-! ### tlexport/quic/quic_decode.py -/

theorem get_variable_length_int_length_eq_model (b : Bytes) :
    Gen.Py.get_variable_length_int_length b = ofOpt (Quic.Varint.getVarintLength b) := by
  cases b with
  | nil => simp [Gen.Py.get_variable_length_int_length, Quic.Varint.getVarintLength, ofOpt]
  | cons x r =>
    simp [Gen.Py.get_variable_length_int_length, Quic.Varint.getVarintLength, ofOpt, Quic.Varint.varintLen]

example : Gen.Py.get_variable_length_int_length [0x9d, 0x7f] = .ok 4 := by decide

theorem decode_variable_length_int_eq_model (b : Bytes) :
    Gen.Py.decode_variable_length_int b = ofOpt (Quic.Varint.decodeVarint b) := by
  cases b with
  | nil => simp [Gen.Py.decode_variable_length_int, Quic.Varint.decodeVarint, ofOpt]
  | cons x r =>
    simp only [Gen.Py.decode_variable_length_int, getItem_cons_zero, forE_be, Quic.Varint.decodeVarint,
      Quic.Varint.varintLen, List.drop_succ_cons, List.drop_zero, tryE_ok, List.length_cons, Nat.add_sub_cancel]
    by_cases h : r.length < 1 <<< (x.toNat >>> 6) - 1 <;> simp [h, ofOpt]

example : Gen.Py.decode_variable_length_int [0x7b, 0xbd] = .ok 15293 ∧
    Gen.Py.decode_variable_length_int [0x7b] = .error .index := by decide

/-! ### tlexport/quic/quic_session.py -/

/-- `get_full_packet_number`, the whole method (table read, shortcut, A.3 arithmetic on Python integers with `& ~ | <<`,
    table update, `to_bytes(8)`): for a packet-number field of 1–4 bytes and table entries below 2^62 it never raises,
    returns the field itself on the shortcut and else the 8-byte encoding of the model's `implDecode`, and leaves the
    model's `implUpdate` in the entry of the packet's direction (the other entry untouched). -/
theorem get_full_packet_number_eq_model (srv : Bool) (pn : Bytes) (pnS pnC : Nat)
    (hn : 1 ≤ pn.length ∧ pn.length ≤ 4) (hS : pnS < 2 ^ 62) (hC : pnC < 2 ^ 62) :
    Gen.Py.get_full_packet_number srv pn (Int.ofNat pnS) (Int.ofNat pnC) =
      .ok (if Bytes.beNat pn > (if srv then pnS else pnC) ∧ (if srv then pnS else pnC) = 0 then pn
           else Bytes.ofNatBE 8 (implDecode (2 ^ (8 * pn.length)) (2 ^ 62) (if srv then pnS else pnC) (Bytes.beNat pn)))
        { pn_server := if srv then Int.ofNat (implUpdate pnS (implDecode (2 ^ (8 * pn.length)) (2 ^ 62) pnS (Bytes.beNat pn))) else Int.ofNat pnS,
          pn_client := if srv then Int.ofNat pnC else Int.ofNat (implUpdate pnC (implDecode (2 ^ (8 * pn.length)) (2 ^ 62) pnC (Bytes.beNat pn))) } := by
  have ht : Bytes.beNat pn < 2 ^ (8 * pn.length) := by
    have := beNat_lt pn
    rwa [show (256 : Nat) = 2 ^ 8 by rfl, ← Nat.pow_mul] at this
  have hw : (1 : Nat) <<< (pn.length * 8) = 2 ^ (8 * pn.length) := by
    rw [Nat.shiftLeft_eq, Nat.one_mul, Nat.mul_comm]
  have hb : (1 : Nat) <<< 62 = 2 ^ 62 := by rw [Nat.shiftLeft_eq, Nat.one_mul]
  have hW : 2 ≤ 2 ^ (8 * pn.length) := by
    have : 2 ^ 1 ≤ 2 ^ (8 * pn.length) := Nat.pow_le_pow_right (by omega) (by omega)
    omega
  cases srv
  · simp only [Gen.Py.get_full_packet_number, hw, hb, Bool.false_eq_true, if_false, mask_or' _ _ _ ht, Bool.and_eq_true,
      decide_eq_true_eq, pn_arith _ _ _ _ hW ht]
    have hR : rfcDecode (2 ^ (8 * pn.length)) (2 ^ 62) pnC (Bytes.beNat pn) < 256 ^ 8 := by
      have h1 := rfcDecode_lt (2 ^ (8 * pn.length)) (2 ^ 62) pnC (Bytes.beNat pn) (by omega) ht
      have h2 : 2 ^ (8 * pn.length) ≤ 2 ^ 32 := Nat.pow_le_pow_right (by omega) (by omega)
      generalize 2 ^ (8 * pn.length) = W at *
      generalize rfcDecode W (2 ^ 62) pnC (Bytes.beNat pn) = R at *
      omega
    have := pn_finish false pn pnS pnC _ hR (by simp only [implDecode]; rfl)
    simpa [apply_ite Prod.fst, apply_ite Prod.snd] using this
  · simp only [Gen.Py.get_full_packet_number, hw, hb, if_true, mask_or' _ _ _ ht, Bool.and_eq_true,
      decide_eq_true_eq, pn_arith _ _ _ _ hW ht]
    have hR : rfcDecode (2 ^ (8 * pn.length)) (2 ^ 62) pnS (Bytes.beNat pn) < 256 ^ 8 := by
      have h1 := rfcDecode_lt (2 ^ (8 * pn.length)) (2 ^ 62) pnS (Bytes.beNat pn) (by omega) ht
      have h2 : 2 ^ (8 * pn.length) ≤ 2 ^ 32 := Nat.pow_le_pow_right (by omega) (by omega)
      generalize 2 ^ (8 * pn.length) = W at *
      generalize rfcDecode W (2 ^ 62) pnS (Bytes.beNat pn) = R at *
      omega
    have := pn_finish true pn pnS pnC _ hR (by simp only [implDecode]; rfl)
    simpa [apply_ite Prod.fst, apply_ite Prod.snd] using this


/-- RFC 9000 A.3's own example, through the translated code: largest 0xa82f30ea, field 0x9b32 -/
example : Gen.Py.get_full_packet_number true [0x9b, 0x32] 0xa82f30ea 0 =
    .ok [0, 0, 0, 0, 0xa8, 0x2f, 0x9b, 0x32] { pn_server := 0xa82f9b32, pn_client := 0 } := by decide +kernel
example : Gen.Py.get_full_packet_number false [0x07] 5 0 = .ok [0x07] { pn_server := 5, pn_client := 7 } := by decide +kernel

/-- the model state seen as the record of the four attributes `check_key_epoch` writes -/
def epochsOf {σ : Type} (s : Quic.Session.St σ) : Gen.Py.check_key_epoch_flip.St :=
  { epoch_server := s.epochServer, last_key_phase_server := s.lastPhaseServer,
    epoch_client := s.epochClient, last_key_phase_client := s.lastPhaseClient }

/-- `check_key_epoch`, first statement (`if isserver: … else: …`): the model's `flipEpoch` -/
theorem check_key_epoch_flip_eq_model {σ : Type} (s : Quic.Session.St σ) (phase : Option Nat) (srv : Bool) :
    Gen.Py.check_key_epoch_flip phase srv s.epochServer s.lastPhaseServer s.epochClient s.lastPhaseClient =
      epochsOf (Quic.Session.flipEpoch s phase srv) := by
  unfold Gen.Py.check_key_epoch_flip Quic.Session.flipEpoch epochsOf
  cases srv <;> simp only [Bool.false_eq_true, if_false, if_true, decide_eq_true_eq] <;> split <;> simp_all

example : Gen.Py.check_key_epoch_flip (some 1) true 0 (some 0) 0 (some 0) =
    { epoch_server := 1, last_key_phase_server := some 1, epoch_client := 0, last_key_phase_client := some 0 } := by decide

/-- `check_key_epoch`, the test of the second `if`: the condition under which the model's `extendGens` appends a
    key generation -/
theorem check_key_epoch_extend_test_eq_model (ec es : Nat) (gens : List Quic.Session.Dec) :
    Gen.Py.check_key_epoch_extend_test ec es gens = decide (ec = gens.length ∨ es = gens.length) := by
  simp [Gen.Py.check_key_epoch_extend_test]

/-- … which is literally the `if` of `extendGens` -/
theorem extendGens_cond {σ : Type} (P : Quic.Session.Params σ) (s : Quic.Session.St σ) (gens : List Quic.Session.Dec)
    (h : s.decApp = some gens) (hc : Gen.Py.check_key_epoch_extend_test s.epochClient s.epochServer gens = false) :
    Quic.Session.extendGens P s = (s, none) := by
  rw [check_key_epoch_extend_test_eq_model] at hc
  simp only [decide_eq_false_iff_not] at hc
  simp [Quic.Session.extendGens, h, hc]

example : Gen.Py.check_key_epoch_extend_test 1 1 [] = false ∧ Gen.Py.check_key_epoch_extend_test 0 0 [] = true := by decide

/-- `packet_isserver` is the model's `packetIsServer`, its `fromClientAddr` being the address test of the third arm -/
theorem packet_isserver_eq_model {σ : Type} (s : Quic.Session.St σ) (dcid ipSrc clientIp : Bytes) (sport clientPort : Nat) :
    Gen.Py.packet_isserver dcid s.serverCids s.clientCids ipSrc sport clientIp clientPort =
      Quic.Session.packetIsServer s (decide (ipSrc = clientIp ∧ sport = clientPort)) dcid := by
  unfold Gen.Py.packet_isserver Quic.Session.packetIsServer
  simp only [Bool.and_eq_true, decide_eq_true_eq, Bool.not_eq_true', decide_eq_false_iff_not, gt_iff_lt]
  repeat' split
  all_goals simp_all

example : Gen.Py.packet_isserver [1, 2] [[1, 2]] [[9]] [10, 0, 0, 1] 443 [10, 0, 0, 2] 5000 = false ∧
    Gen.Py.packet_isserver [] [[1, 2]] [[9]] [10, 0, 0, 1] 443 [10, 0, 0, 2] 5000 = true := by decide

/-- `matches_session_dgram(ip_src, ip_dst, sport, dport)` is the model's `Sess.matches` -/
theorem matches_session_dgram_eq_model {α : Type} (s : MainLoop.Sess α) (p : MainLoop.Pkt) :
    Gen.Py.matches_session_dgram p.src.ip p.dst.ip p.src.port p.dst.port s.server.ip s.server.port s.client.ip s.client.port =
      s.matches p := by
  unfold Gen.Py.matches_session_dgram MainLoop.Sess.matches
  have he : ∀ a b : MainLoop.Endpoint, (a == b) = (decide (a.ip = b.ip) && decide (a.port = b.port)) := by
    intro a b
    cases a; cases b
    simp only [BEq.beq, MainLoop.Endpoint.mk.injEq]
    simp [Bool.decide_and]
  simp only [he]
  repeat' split
  all_goals simp_all

example : Gen.Py.matches_session_dgram [10, 0, 0, 2] [10, 0, 0, 1] 5000 443 [10, 0, 0, 1] 443 [10, 0, 0, 2] 5000 = true := by decide

end TLX.Props.Translated
