/-
The translated Python functions (`TLX/Gen/Translated.lean`, regenerated from the tree under test on every run by
`harness/translate.py`) EQUAL the hand-written model functions the property theorems are about.

Every theorem is `<python name>_eq_model`; the encoding maps between Python-level values and model values are the few
trivial definitions at the top. A change of the Python source that alters what one of these functions computes alters
the generated definition and the equality stops checking.
-/
import TLX.Gen.Translated
import TLX.Lemmas.PyRt
import TLX.Quic.Dissect
import TLX.Quic.Varint
namespace TLX.Props.Translated
open TLX TLX.PyRt

/-! ### encodings -/

/-- a model's `none` for IndexError -/
def ofOpt {α : Type} : Option α → Except Err α
  | none => .error .index
  | some a => .ok a

/-- functions of `datagram_data[0]`: IndexError on `b""`, else the model's function of the first byte -/
def onFirst {α : Type} (d : Bytes) (f : UInt8 → α) : Except Err α :=
  match d with
  | [] => .error .index
  | fb :: _ => .ok (f fb)

/-! ### tlexport/quic/quic_dissector.py -/

/-- `get_header_type` is the model's `isLong` of the first byte -/
theorem get_header_type_eq_model (d : Bytes) :
    Gen.Py.get_header_type d = onFirst d fun fb => if Quic.Dissect.isLong fb then .long else .short := by
  cases d with
  | nil => simp [Gen.Py.get_header_type, onFirst]
  | cons fb r =>
    simp only [Gen.Py.get_header_type, getItem_cons_zero, onFirst]
    revert fb
    apply forall_u8
    decide +kernel

example : Gen.Py.get_header_type [0xc3, 0, 0, 0, 1] = .ok .long ∧ Gen.Py.get_header_type [0x43] = .ok .short := by decide

/-- `get_packet_type` is the model's `packetType` of the first byte (never `None`) -/
theorem get_packet_type_eq_model (d : Bytes) :
    Gen.Py.get_packet_type d = onFirst d fun fb => some (Quic.Dissect.packetType fb) := by
  cases d with
  | nil => simp [Gen.Py.get_packet_type, onFirst]
  | cons fb r =>
    simp only [Gen.Py.get_packet_type, getItem_cons_zero, onFirst]
    revert fb
    apply forall_u8
    decide +kernel

example : Gen.Py.get_packet_type [0xe3] = .ok (some .handshake) ∧ Gen.Py.get_packet_type [] = .error .index := by decide

/-! ### tlexport/quic/quic_decode.py -/

theorem get_variable_length_int_length_eq_model (b : Bytes) :
    Gen.Py.get_variable_length_int_length b = ofOpt (Quic.Varint.getVarintLength b) := by
  cases b with
  | nil => simp [Gen.Py.get_variable_length_int_length, Quic.Varint.getVarintLength, ofOpt]
  | cons x r =>
    simp [Gen.Py.get_variable_length_int_length, Quic.Varint.getVarintLength, ofOpt, Quic.Varint.varintLen]

example : Gen.Py.get_variable_length_int_length [0x9d, 0x7f] = .ok 4 := by decide

theorem decode_variable_length_int_eq_model (b : Bytes) :
    Gen.Py.decode_variable_length_int b = ofOpt (Quic.Varint.decodeVarint b) := by
  cases b with
  | nil => simp [Gen.Py.decode_variable_length_int, Quic.Varint.decodeVarint, ofOpt]
  | cons x r =>
    simp only [Gen.Py.decode_variable_length_int, getItem_cons_zero, forE_be, Quic.Varint.decodeVarint,
      Quic.Varint.varintLen, List.drop_succ_cons, List.drop_zero, tryE_ok, List.length_cons, Nat.add_sub_cancel]
    by_cases h : r.length < 1 <<< (x.toNat >>> 6) - 1 <;> simp [h, ofOpt]

example : Gen.Py.decode_variable_length_int [0x7b, 0xbd] = .ok 15293 ∧
    Gen.Py.decode_variable_length_int [0x7b] = .error .index := by decide

end TLX.Props.Translated
