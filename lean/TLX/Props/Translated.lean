/-
The translated Python functions (`TLX/Gen/Translated.lean`, regenerated from the tree under test on every run by
`harness/translate.py`) EQUAL the hand-written model functions the property theorems are about.

Every theorem is `<python name>_eq_model`; the encoding maps between Python-level values and model values are the few
trivial definitions at the top. A change of the Python source that alters what one of these functions computes alters
the generated definition and the equality stops checking.
-/
import TLX.Gen.Translated
import TLX.Lemmas.PyRt
import TLX.Lemmas.Translated
import TLX.Quic.Dissect
import TLX.Quic.Varint
import TLX.Quic.Session
import TLX.MainLoop
import TLX.Session
import TLX.TcpOut
namespace TLX.Props.Translated
open TLX TLX.PyRt TLX.Lemmas.Translated TLX.Quic.PktNum

/-! ### encodings -/

/-- a model's `none` for IndexError -/
def ofOpt {α : Type} : Option α → Except Err α
  | none => .error .index
  | some a => .ok a

/-- functions of `datagram_data[0]`: IndexError on `b""`, else the model's function of the first byte -/
def onFirst {α : Type} (d : Bytes) (f : UInt8 → α) : Except Err α :=
  match d with
  | [] => .error .index
  | fb :: _ => .ok (f fb)

/-! ### tlexport/quic/quic_dissector.py -/

/-- `get_header_type` is the model's `isLong` of the first byte -/
theorem get_header_type_eq_model (d : Bytes) :
    Gen.Py.get_header_type d = onFirst d fun fb => if Quic.Dissect.isLong fb then .long else .short := by
  cases d with
  | nil => simp [Gen.Py.get_header_type, onFirst]
  | cons fb r =>
    simp only [Gen.Py.get_header_type, getItem_cons_zero, onFirst]
    revert fb
    apply forall_u8
    decide +kernel

example : Gen.Py.get_header_type [0xc3, 0, 0, 0, 1] = .ok .long ∧ Gen.Py.get_header_type [0x43] = .ok .short := by decide

/-- `get_packet_type` is the model's `packetType` of the first byte (never `None`) -/
theorem get_packet_type_eq_model (d : Bytes) :
    Gen.Py.get_packet_type d = onFirst d fun fb => some (Quic.Dissect.packetType fb) := by
  cases d with
  | nil => simp [Gen.Py.get_packet_type, onFirst]
  | cons fb r =>
    simp only [Gen.Py.get_packet_type, getItem_cons_zero, onFirst]
    revert fb
    apply forall_u8
    decide +kernel

example : Gen.Py.get_packet_type [0xe3] = .ok (some .handshake) ∧ Gen.Py.get_packet_type [] = .error .index := by decide

/-! ### tlexport/quic/quic_decode.py -/

theorem get_variable_length_int_length_eq_model (b : Bytes) :
    Gen.Py.get_variable_length_int_length b = ofOpt (Quic.Varint.getVarintLength b) := by
  cases b with
  | nil => simp [Gen.Py.get_variable_length_int_length, Quic.Varint.getVarintLength, ofOpt]
  | cons x r =>
    simp [Gen.Py.get_variable_length_int_length, Quic.Varint.getVarintLength, ofOpt, Quic.Varint.varintLen]

example : Gen.Py.get_variable_length_int_length [0x9d, 0x7f] = .ok 4 := by decide

theorem decode_variable_length_int_eq_model (b : Bytes) :
    Gen.Py.decode_variable_length_int b = ofOpt (Quic.Varint.decodeVarint b) := by
  cases b with
  | nil => simp [Gen.Py.decode_variable_length_int, Quic.Varint.decodeVarint, ofOpt]
  | cons x r =>
    simp only [Gen.Py.decode_variable_length_int, getItem_cons_zero, forE_be, Quic.Varint.decodeVarint,
      Quic.Varint.varintLen, List.drop_succ_cons, List.drop_zero, tryE_ok, List.length_cons, Nat.add_sub_cancel]
    by_cases h : r.length < 1 <<< (x.toNat >>> 6) - 1 <;> simp [h, ofOpt]

example : Gen.Py.decode_variable_length_int [0x7b, 0xbd] = .ok 15293 ∧
    Gen.Py.decode_variable_length_int [0x7b] = .error .index := by decide

/-! ### tlexport/quic/quic_session.py -/

/-- `get_full_packet_number`, the whole method (table read, shortcut, A.3 arithmetic on Python integers with `& ~ | <<`,
    table update, `to_bytes(8)`): for a packet-number field of 1–4 bytes and table entries below 2^62 it never raises,
    returns the field itself on the shortcut and else the 8-byte encoding of the model's `implDecode`, and leaves the
    model's `implUpdate` in the entry of the packet's direction (the other entry untouched). -/
theorem get_full_packet_number_eq_model (srv : Bool) (pn : Bytes) (pnS pnC : Nat)
    (hn : 1 ≤ pn.length ∧ pn.length ≤ 4) (hS : pnS < 2 ^ 62) (hC : pnC < 2 ^ 62) :
    Gen.Py.get_full_packet_number srv pn (Int.ofNat pnS) (Int.ofNat pnC) =
      .ok (if Bytes.beNat pn > (if srv then pnS else pnC) ∧ (if srv then pnS else pnC) = 0 then pn
           else Bytes.ofNatBE 8 (implDecode (2 ^ (8 * pn.length)) (2 ^ 62) (if srv then pnS else pnC) (Bytes.beNat pn)))
        { pn_server := if srv then Int.ofNat (implUpdate pnS (implDecode (2 ^ (8 * pn.length)) (2 ^ 62) pnS (Bytes.beNat pn))) else Int.ofNat pnS,
          pn_client := if srv then Int.ofNat pnC else Int.ofNat (implUpdate pnC (implDecode (2 ^ (8 * pn.length)) (2 ^ 62) pnC (Bytes.beNat pn))) } := by
  have ht : Bytes.beNat pn < 2 ^ (8 * pn.length) := by
    have := beNat_lt pn
    rwa [show (256 : Nat) = 2 ^ 8 by rfl, ← Nat.pow_mul] at this
  have hw : (1 : Nat) <<< (pn.length * 8) = 2 ^ (8 * pn.length) := by
    rw [Nat.shiftLeft_eq, Nat.one_mul, Nat.mul_comm]
  have hb : (1 : Nat) <<< 62 = 2 ^ 62 := by rw [Nat.shiftLeft_eq, Nat.one_mul]
  have hW : 2 ≤ 2 ^ (8 * pn.length) := by
    have : 2 ^ 1 ≤ 2 ^ (8 * pn.length) := Nat.pow_le_pow_right (by omega) (by omega)
    omega
  cases srv
  · simp only [Gen.Py.get_full_packet_number, hw, hb, Bool.false_eq_true, if_false, mask_or' _ _ _ ht, Bool.and_eq_true,
      decide_eq_true_eq, Bool.not_eq_true', decide_eq_false_iff_not, Int.not_lt, Int.not_le, pn_arith _ _ _ _ hW ht]
    have hR : rfcDecode (2 ^ (8 * pn.length)) (2 ^ 62) pnC (Bytes.beNat pn) < 256 ^ 8 := by
      have h1 := rfcDecode_lt (2 ^ (8 * pn.length)) (2 ^ 62) pnC (Bytes.beNat pn) (by omega) ht
      have h2 : 2 ^ (8 * pn.length) ≤ 2 ^ 32 := Nat.pow_le_pow_right (by omega) (by omega)
      generalize 2 ^ (8 * pn.length) = W at *
      generalize rfcDecode W (2 ^ 62) pnC (Bytes.beNat pn) = R at *
      omega
    have := pn_finish false pn pnS pnC _ hR (by simp only [implDecode]; rfl)
    simpa [apply_ite Prod.fst, apply_ite Prod.snd] using this
  · simp only [Gen.Py.get_full_packet_number, hw, hb, if_true, mask_or' _ _ _ ht, Bool.and_eq_true,
      decide_eq_true_eq, Bool.not_eq_true', decide_eq_false_iff_not, Int.not_lt, Int.not_le, pn_arith _ _ _ _ hW ht]
    have hR : rfcDecode (2 ^ (8 * pn.length)) (2 ^ 62) pnS (Bytes.beNat pn) < 256 ^ 8 := by
      have h1 := rfcDecode_lt (2 ^ (8 * pn.length)) (2 ^ 62) pnS (Bytes.beNat pn) (by omega) ht
      have h2 : 2 ^ (8 * pn.length) ≤ 2 ^ 32 := Nat.pow_le_pow_right (by omega) (by omega)
      generalize 2 ^ (8 * pn.length) = W at *
      generalize rfcDecode W (2 ^ 62) pnS (Bytes.beNat pn) = R at *
      omega
    have := pn_finish true pn pnS pnC _ hR (by simp only [implDecode]; rfl)
    simpa [apply_ite Prod.fst, apply_ite Prod.snd] using this


/-- RFC 9000 A.3's own example, through the translated code: largest 0xa82f30ea, field 0x9b32 -/
example : Gen.Py.get_full_packet_number true [0x9b, 0x32] 0xa82f30ea 0 =
    .ok [0, 0, 0, 0, 0xa8, 0x2f, 0x9b, 0x32] { pn_server := 0xa82f9b32, pn_client := 0 } := by decide +kernel
example : Gen.Py.get_full_packet_number false [0x07] 5 0 = .ok [0x07] { pn_server := 5, pn_client := 7 } := by decide +kernel

/-- the model state seen as the record of the four attributes `check_key_epoch` writes -/
def epochsOf {σ : Type} (s : Quic.Session.St σ) : Gen.Py.check_key_epoch_flip.St :=
  { epoch_server := s.epochServer, last_key_phase_server := s.lastPhaseServer,
    epoch_client := s.epochClient, last_key_phase_client := s.lastPhaseClient }

/-- `check_key_epoch`, first statement (`if isserver: … else: …`): the model's `flipEpoch` -/
theorem check_key_epoch_flip_eq_model {σ : Type} (s : Quic.Session.St σ) (phase : Option Nat) (srv : Bool) :
    Gen.Py.check_key_epoch_flip phase srv s.epochServer s.lastPhaseServer s.epochClient s.lastPhaseClient =
      epochsOf (Quic.Session.flipEpoch s phase srv) := by
  unfold Gen.Py.check_key_epoch_flip Quic.Session.flipEpoch epochsOf
  cases srv <;> simp only [Bool.false_eq_true, if_false, if_true, decide_eq_true_eq] <;> split <;> simp_all

example : Gen.Py.check_key_epoch_flip (some 1) true 0 (some 0) 0 (some 0) =
    { epoch_server := 1, last_key_phase_server := some 1, epoch_client := 0, last_key_phase_client := some 0 } := by decide

/-- `check_key_epoch`, the test of the second `if`: the condition under which the model's `extendGens` appends a
    key generation -/
theorem check_key_epoch_extend_test_eq_model (ec es : Nat) (gens : List Quic.Session.Dec) :
    Gen.Py.check_key_epoch_extend_test ec es gens = decide (ec = gens.length ∨ es = gens.length) := by
  simp [Gen.Py.check_key_epoch_extend_test]

/-- … which is literally the `if` of `extendGens` -/
theorem extendGens_cond {σ : Type} (P : Quic.Session.Params σ) (s : Quic.Session.St σ) (gens : List Quic.Session.Dec)
    (h : s.decApp = some gens) (hc : Gen.Py.check_key_epoch_extend_test s.epochClient s.epochServer gens = false) :
    Quic.Session.extendGens P s = (s, none) := by
  rw [check_key_epoch_extend_test_eq_model] at hc
  simp only [decide_eq_false_iff_not] at hc
  simp [Quic.Session.extendGens, h, hc]

example : Gen.Py.check_key_epoch_extend_test 1 1 [] = false ∧ Gen.Py.check_key_epoch_extend_test 0 0 [] = true := by decide

/-- `packet_isserver` is the model's `packetIsServer`, its `fromClientAddr` being the address test of the third arm -/
theorem packet_isserver_eq_model {σ : Type} (s : Quic.Session.St σ) (dcid ipSrc clientIp : Bytes) (sport clientPort : Nat) :
    Gen.Py.packet_isserver dcid s.serverCids s.clientCids ipSrc sport clientIp clientPort =
      Quic.Session.packetIsServer s (decide (ipSrc = clientIp ∧ sport = clientPort)) dcid := by
  unfold Gen.Py.packet_isserver Quic.Session.packetIsServer
  simp only [Bool.and_eq_true, decide_eq_true_eq, Bool.not_eq_true', decide_eq_false_iff_not, gt_iff_lt]
  repeat' split
  all_goals simp_all

example : Gen.Py.packet_isserver [1, 2] [[1, 2]] [[9]] [10, 0, 0, 1] 443 [10, 0, 0, 2] 5000 = false ∧
    Gen.Py.packet_isserver [] [[1, 2]] [[9]] [10, 0, 0, 1] 443 [10, 0, 0, 2] 5000 = true := by decide

/-- `matches_session_dgram(ip_src, ip_dst, sport, dport)` is the model's `Sess.matches` -/
theorem matches_session_dgram_eq_model {α : Type} (s : MainLoop.Sess α) (p : MainLoop.Pkt) :
    Gen.Py.matches_session_dgram p.src.ip p.dst.ip p.src.port p.dst.port s.server.ip s.server.port s.client.ip s.client.port =
      s.matches p := by
  unfold Gen.Py.matches_session_dgram MainLoop.Sess.matches
  have he : ∀ a b : MainLoop.Endpoint, (a == b) = (decide (a.ip = b.ip) && decide (a.port = b.port)) := by
    intro a b
    cases a; cases b
    simp only [BEq.beq, MainLoop.Endpoint.mk.injEq]
    simp [Bool.decide_and]
  simp only [he]
  repeat' split
  all_goals simp_all

example : Gen.Py.matches_session_dgram [10, 0, 0, 2] [10, 0, 0, 1] 5000 443 [10, 0, 0, 1] 443 [10, 0, 0, 2] 5000 = true := by decide

/-! ### tlexport/session.py -/

theorem endpoint_beq (a b : MainLoop.Endpoint) : (a == b) = (decide (a.ip = b.ip) && decide (a.port = b.port)) := by
  cases a; cases b
  simp only [BEq.beq, MainLoop.Endpoint.mk.injEq]
  simp [Bool.decide_and]

/-- `matches_session(packet)` is the model's `Sess.matches` -/
theorem matches_session_eq_model {α : Type} (s : MainLoop.Sess α) (p : MainLoop.Pkt) :
    Gen.Py.matches_session p.src.ip p.dst.ip p.src.port p.dst.port s.server.ip s.server.port s.client.ip s.client.port =
      s.matches p := by
  unfold Gen.Py.matches_session MainLoop.Sess.matches
  simp only [endpoint_beq]
  repeat' split
  all_goals simp_all

example : Gen.Py.matches_session [10, 0, 0, 1] [10, 0, 0, 2] 443 5000 [10, 0, 0, 1] 443 [10, 0, 0, 2] 5000 = true ∧
    Gen.Py.matches_session [10, 0, 0, 1] [10, 0, 0, 2] 443 5001 [10, 0, 0, 1] 443 [10, 0, 0, 2] 5000 = false := by decide

/-- `set_client_and_server_ports`: server and client endpoint are the model's `rolesOf`; the MAC addresses and the
    IPv6 flag (outside `rolesOf`) follow the same choice -/
theorem set_client_and_server_ports_eq_model (ports : List Int) (p : MainLoop.Pkt) (v6 : Bool) (macSrc macDst : Bytes) :
    Gen.Py.set_client_and_server_ports ports v6 p.src.ip p.dst.ip p.src.port p.dst.port macSrc macDst =
      { ipv6 := v6,
        server_ip := (MainLoop.rolesOf ports p).1.ip, server_port := (MainLoop.rolesOf ports p).1.port,
        server_mac_addr := if ports.contains (p.src.port : Int) then macSrc else macDst,
        client_ip := (MainLoop.rolesOf ports p).2.ip, client_port := (MainLoop.rolesOf ports p).2.port,
        client_mac_addr := if ports.contains (p.src.port : Int) then macDst else macSrc } := by
  unfold Gen.Py.set_client_and_server_ports MainLoop.rolesOf
  by_cases h : (p.src.port : Int) ∈ ports <;> simp [h]

example : (Gen.Py.set_client_and_server_ports [443, 44330] false [10, 0, 0, 2] [10, 0, 0, 1] 5000 443 [2] [1]).server_port = 443 ∧
    (Gen.Py.set_client_and_server_ports [443, 44330] false [10, 0, 0, 1] [10, 0, 0, 2] 443 5000 [1] [2]).server_ip = [10, 0, 0, 1] := by
  decide

/-- `handle_alert` writes what the model's `alert` writes -/
theorem handle_alert_eq_model {δ : Type} (s : Session.St δ) (level : UInt8) :
    Gen.Py.handle_alert level.toNat s.ver s.canDecrypt s.chSeen =
      { can_decrypt := (Session.alert s level).canDecrypt, client_hello_seen := (Session.alert s level).chSeen } := by
  unfold Gen.Py.handle_alert Session.alert
  have h1 : (level.toNat = 1) = (level = 1) := by
    rw [← UInt8.toNat_inj]; rfl
  by_cases h : level = 1 <;> by_cases h2 : s.ver = some .tls13 <;> simp [h1, h, h2]

example : Gen.Py.handle_alert 1 (some .tls12) true true = { can_decrypt := true, client_hello_seen := true } ∧
    Gen.Py.handle_alert 1 (some .tls13) true true = { can_decrypt := false, client_hello_seen := false } ∧
    Gen.Py.handle_alert 2 (some .tls12) true true = { can_decrypt := false, client_hello_seen := false } := by decide

/-- `handle_tls_client_hello` writes what the model's `clientHello` writes (`record.binary` is the model's `Rec.body`;
    the emptied `handshake_13_buffer` is the pair of the model's two per-direction buffers) -/
theorem handle_tls_client_hello_eq_model {δ : Type} (s : Session.St δ) (r : Session.Rec) :
    Gen.Py.handle_tls_client_hello r.body =
      { can_decrypt := (Session.clientHello s r).canDecrypt, server_cipher_change := (Session.clientHello s r).srvCC,
        client_cipher_change := (Session.clientHello s r).cliCC,
        handshake_13_buffer := ((Session.clientHello s r).hsBufC, (Session.clientHello s r).hsBufS),
        client_random := (Session.clientHello s r).cr, client_hello_seen := (Session.clientHello s r).chSeen } := rfl

example : (Gen.Py.handle_tls_client_hello ((List.range 40).map UInt8.ofNat)).client_random =
    some ((List.range' 6 32).map UInt8.ofNat) := by decide

/-- the version choice at the end of `handle_tls_server_hello` is the model's `chooseVersion` on the two version
    numbers the code reads -/
theorem server_hello_version_eq_model {δ : Type} (s : Session.St δ) (is13 : Bool) (recVer binary : Bytes) :
    Gen.Py.server_hello_version is13 recVer binary s.ver s.canDecrypt =
      { tls_version := (Session.chooseVersion s (Bytes.beNat recVer) (Bytes.beNat (Bytes.slice binary 4 6)) is13).ver,
        can_decrypt := (Session.chooseVersion s (Bytes.beNat recVer) (Bytes.beNat (Bytes.slice binary 4 6)) is13).canDecrypt } := by
  unfold Gen.Py.server_hello_version Session.chooseVersion
  simp only [decide_eq_true_eq]
  repeat' split
  all_goals simp_all

example : Gen.Py.server_hello_version true [3, 3] [2, 0, 0, 40, 3, 3] none true = { tls_version := some .tls13, can_decrypt := true } ∧
    Gen.Py.server_hello_version false [3, 1] [2, 0, 0, 40, 3, 9] (some .tls12) true = { tls_version := some .tls12, can_decrypt := false } := by
  decide

/-- the first statement of `handle_tls_server_hello` is the model's `latch` -/
theorem server_hello_latch_eq_model {δ : Type} (s : Session.St δ) :
    Gen.Py.server_hello_latch s.chSeen s.canDecrypt = { can_decrypt := (Session.latch s).canDecrypt } := by
  unfold Gen.Py.server_hello_latch Session.latch
  cases s.chSeen <;> simp

example : Gen.Py.server_hello_latch true false = { can_decrypt := true } ∧
    Gen.Py.server_hello_latch false false = { can_decrypt := false } := by decide

/-! ### tlexport/main.py -/

/-- how the head of `handle_quic_packet` is left, and with which `dcid` / `quic_version`, per model header -/
def hdrRes : MainLoop.Hdr → Res Gen.Py.quic_header.St Exit
  | .tooShort => .ok .ret { dcid := [], quic_version := .unknown }
  | .long d v => .ok .fall { dcid := d, quic_version := v }
  | .short => .ok .fall { dcid := [], quic_version := .unknown }

theorem isLong_eq (b0 : UInt8) : Quic.Dissect.isLong b0 = decide ((b0.toNat >>> 7) &&& 1 = 1) := by
  revert b0
  apply forall_u8
  decide +kernel

/-- the head of `handle_quic_packet` (with the translated `get_header_type` for its `header_type`) is the model's
    `parseHeader1`; the `packet_payload[5]` it reads never raises -/
theorem quic_header_eq_model (b0 : UInt8) (rest : Bytes) (ht : Quic.HType)
    (h : Gen.Py.get_header_type (b0 :: rest) = .ok ht) :
    Gen.Py.quic_header ht (b0 :: rest) = hdrRes (MainLoop.parseHeader1 b0 rest) := by
  rw [get_header_type_eq_model] at h
  simp only [onFirst, Except.ok.injEq, isLong_eq] at h
  subst h
  unfold Gen.Py.quic_header MainLoop.parseHeader1
  by_cases hl : (b0.toNat >>> 7) &&& 1 = 1
  · by_cases h6 : (b0 :: rest).length < 6
    · simp only [hl, h6, decide_true, if_true, hdrRes]
    · have h5 : 5 < (b0 :: rest).length := by omega
      have hn : (5 : Int) = Int.ofNat 5 := rfl
      simp only [hl, h6, decide_true, decide_false, Bool.false_eq_true, if_true, if_false, hn, getItem_nat,
        List.getElem?_eq_getElem h5, tryE_ok, hdrRes, MainLoop.versionOf, decide_eq_true_eq]
      repeat' split
      all_goals simp_all
  · simp only [hl, decide_false, Bool.false_eq_true, if_false, reduceCtorEq, hdrRes]

example : Gen.Py.quic_header .long [0xc3, 0, 0, 0, 1, 2, 0xaa, 0xbb, 0] = .ok .fall { dcid := [0xaa, 0xbb], quic_version := .v1 } ∧
    Gen.Py.quic_header .long [0xc3, 0, 0] = .ok .ret { dcid := [], quic_version := .unknown } := by decide +kernel

/-- the long-header CID test of the session loop is the condition of the model's `cidMatch` -/
theorem quic_long_cid_test_eq_model (cc sc : List Bytes) (side : MainLoop.Side) (dcid payload : Bytes) (v : MainLoop.Version) :
    MainLoop.cidMatch cc sc side (.long dcid v) payload =
      if Gen.Py.quic_long_cid_test dcid cc sc then some dcid else none := by
  simp [MainLoop.cidMatch, Gen.Py.quic_long_cid_test]

example : Gen.Py.quic_long_cid_test [1] [[1]] [] = true ∧ Gen.Py.quic_long_cid_test [] [[]] [] = false := by decide

/-- the candidate set of a short-header datagram is the model's `shortCandidates` at the model's `Sess.side` -/
theorem quic_short_candidates_eq_model {α : Type} (s : MainLoop.Sess α) (p : MainLoop.Pkt) (cc sc : List Bytes) :
    (Gen.Py.quic_short_candidates cc sc (s.matches p) p.src.ip p.src.port s.client.ip s.client.port).candidates =
      MainLoop.shortCandidates cc sc (s.side p) := by
  unfold Gen.Py.quic_short_candidates MainLoop.Sess.side
  simp only [endpoint_beq]
  repeat' split
  all_goals simp_all [MainLoop.shortCandidates]

example : (Gen.Py.quic_short_candidates [[1]] [[2]] true [10, 0, 0, 2] 5000 [10, 0, 0, 2] 5000).candidates = [[2]] ∧
    (Gen.Py.quic_short_candidates [[1]] [[2]] false [10, 0, 0, 2] 5000 [10, 0, 0, 2] 5000).candidates = [[1], [2]] := by decide

/-- the per-candidate test is the model's `cidPrefixOf` -/
theorem quic_short_cid_test_eq_model (cid payload : Bytes) :
    Gen.Py.quic_short_cid_test cid payload = MainLoop.cidPrefixOf payload cid := by
  simp only [Gen.Py.quic_short_cid_test, MainLoop.cidPrefixOf, gt_iff_lt]
  congr 1
  rw [Bool.eq_iff_iff]
  simp

example : Gen.Py.quic_short_cid_test [7, 8] [0x43, 7, 8, 9] = true ∧ Gen.Py.quic_short_cid_test [] [0x43] = false := by decide

/-- how the loop body of `run()` is left for a frame the model ignores -/
def whyExit : MainLoop.Why → Exit
  | .emptyTcp => .cont
  | .emptyUdp => .cont
  | .badCsumUdp => .cont
  | .badCsumTcp => .fall
  | .noFixedBit => .fall
  | .notTcpUdp => .fall

/-- the handler called and the exit taken, per model class of a frame -/
def classRes {κ : Type} : MainLoop.Class κ → Res Gen.Py.run_classify.St Exit
  | .tls _ => .ok .fall { acts := [.tls] }
  | .quic _ _ _ => .ok .fall { acts := [.quic] }
  | .ignore w => .ok (whyExit w) { acts := [] }
  | .keys _ => .ok .cont { acts := [] }

/-- the frame dispatch of `run()` is the model's `classify` (`packet.tcp_packet` / `udp_packet` are the model's `l4`;
    both checksum functions are the model's `csumOk`); `packet.tls_data[0]` never raises -/
theorem run_classify_eq_model {κ : Type} (o : MainLoop.Opts) (p : MainLoop.Pkt) :
    Gen.Py.run_classify (p.l4 == .tcp) (p.l4 == .udp) p.payload o.checksumTest o.greasy p.csumOk p.csumOk =
      classRes (MainLoop.classify (κ := κ) o (.frame p)) := by
  unfold Gen.Py.run_classify MainLoop.classify
  obtain ⟨l4, src, dst, payload, csumOk, tag⟩ := p
  cases l4 <;> cases payload <;> cases hc : o.checksumTest <;> cases csumOk <;> simp [classRes, whyExit]
  all_goals split <;> simp_all

example : Gen.Py.run_classify false true [0x43, 1] true false true true = .ok .fall { acts := [.quic] } ∧
    Gen.Py.run_classify true false [0x16] true false false false = .ok .fall { acts := [] } ∧
    Gen.Py.run_classify false true [0x03] false false true true = .ok .fall { acts := [] } := by decide

/-! ### tlexport/output_builder.py, tlexport/quic/quic_output_builder.py -/

/-- `OutputBuilder.__init__`: never raises (the `portmap[…]` read is guarded), exports the model's `exportedServerPort`,
    keeps the client port, falls back to 8080, starts both sequence numbers at 1 -/
theorem output_builder_init_eq_model (sp cp : Nat) (portmap : Nat → Option Nat) (keep : Bool) :
    Gen.Py.output_builder_init sp cp portmap keep =
      .ok () { server_port_ := TcpOut.exportedServerPort keep portmap sp, client_port_ := cp, default_port := 8080,
               server_seq := 1, client_seq := 1 } := by
  unfold Gen.Py.output_builder_init TcpOut.exportedServerPort
  cases keep <;> cases h : portmap sp <;> simp [h, dictGetE]

example : Gen.Py.output_builder_init 443 5000 (fun k => if k = 443 then some 8443 else none) false =
    .ok () { server_port_ := 8443, client_port_ := 5000, default_port := 8080, server_seq := 1, client_seq := 1 } ∧
    Gen.Py.output_builder_init 444 5000 (fun k => if k = 443 then some 8443 else none) false =
    .ok () { server_port_ := 8080, client_port_ := 5000, default_port := 8080, server_seq := 1, client_seq := 1 } := by decide

/-- `QUICOutputbuilder.__init__`: the same port choice -/
theorem quic_output_builder_init_eq_model (sp cp : Nat) (portmap : Nat → Option Nat) (keep : Bool) :
    Gen.Py.quic_output_builder_init sp cp portmap keep =
      .ok () { server_port_ := TcpOut.exportedServerPort keep portmap sp, client_port_ := cp, default_port := 8080 } := by
  unfold Gen.Py.quic_output_builder_init TcpOut.exportedServerPort
  cases keep <;> cases h : portmap sp <;> simp [h, dictGetE]

example : Gen.Py.quic_output_builder_init 443 5000 (fun _ => none) true =
    .ok () { server_port_ := 443, client_port_ := 5000, default_port := 8080 } := by decide

end TLX.Props.Translated
