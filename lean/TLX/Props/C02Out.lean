/-
QUIC output builder (`QUICOutputbuilder.build`, model `TLX.Quic.UdpOut`) — the output-side parts of
  C02  one output datagram per input datagram that carried exported data (`build_groups`, `build_eq_runs`),
  C13  metadata export only adds (`meta_only_adds_quic`, `meta_only_adds_quic_sublist`, `meta_regroup`),
  C08  cutting the capture short gives a prefix of the export (`build_take_prefix_quic`, `build_take_dropLast_prefix`),
  C07  nothing is invented (`out_bytes_from_frames`, `out_key_from_frames`, `out_key_occurs`).

The builder tells input datagrams apart only by `(capture time, direction)`. Every "per input datagram" statement
therefore needs that neighbouring exported datagrams differ in that key (`DistinctAdjacent`); the `…_needs_distinct`
theorems show what happens otherwise, and the unconditional theorems (`build_eq_runs`, `meta_regroup`,
`build_take_dropLast_prefix`, `out_*`) say what holds for every frame list.
-/
import TLX.Lemmas.UdpOut
namespace TLX.Props.C02Out
open TLX TLX.Quic.UdpOut

/-! ### vocabulary: a capture as a list of input datagrams -/

/-- One input datagram of the connection after decryption: capture time, direction and the `(frame type, data)`
    items of its frames. All its frames carry its `(ts, isServer)` by construction. -/
structure InDgram where
  ts : Nat
  isServer : Bool
  items : List (Nat × Bytes)
  deriving DecidableEq, Repr

def InDgram.key (d : InDgram) : Nat × Bool := (d.ts, d.isServer)

def InDgram.frames (d : InDgram) : List Frame := d.items.map fun it => ⟨it.1, d.ts, d.isServer, it.2⟩

/-- the frame list the builder gets: all frames of all datagrams in capture order -/
def framesOf (ds : List InDgram) : List Frame := ds.flatMap (·.frames)

/-- the datagram has at least one frame that is exported under `metadata = md` -/
def hasExported (md : Bool) (d : InDgram) : Bool := d.frames.any (fun f => (exported md f).isSome)

/-- consecutive datagrams among those with an exported frame differ in `(ts, isServer)` -/
def DistinctAdjacent (md : Bool) (ds : List InDgram) : Prop :=
  AdjDistinct ((ds.filter (hasExported md)).map (·.key))

instance (md : Bool) (ds : List InDgram) : Decidable (DistinctAdjacent md ds) := by
  unfold DistinctAdjacent; infer_instance

/-- all datagrams of the capture differ pairwise in `(ts, isServer)` (what distinct capture times give) -/
def DistinctKeys (ds : List InDgram) : Prop := (ds.map (·.key)).Pairwise (· ≠ ·)

instance (ds : List InDgram) : Decidable (DistinctKeys ds) := by unfold DistinctKeys; infer_instance

/-- the output datagram an input datagram should become: same direction and time, the exported data concatenated -/
def outDgram (md : Bool) (d : InDgram) : Dgram := ⟨d.isServer, d.ts, (d.frames.filterMap (exported md)).flatten⟩

/-! ### auxiliary facts about the vocabulary -/

theorem hasExported_iff (md : Bool) (d : InDgram) : hasExported md d = true ↔ d.frames.filter (isExp md) ≠ [] := by
  unfold hasExported isExp
  rw [List.any_eq_true, Ne, List.filter_eq_nil_iff]
  constructor
  · rintro ⟨f, hf, he⟩ h; exact h f hf he
  · intro h
    apply Classical.byContradiction
    intro hn
    exact h (fun f hf he => hn ⟨f, hf, he⟩)

theorem frames_key (d : InDgram) : ∀ f ∈ d.frames, f.key = d.key := by
  intro f hf
  simp only [InDgram.frames, List.mem_map] at hf
  obtain ⟨it, _, rfl⟩ := hf
  rfl

theorem filter_framesOf (md : Bool) (ds : List InDgram) :
    ((ds.filter (hasExported md)).map (fun d => (d.key, d.frames.filter (isExp md)))).flatMap (·.2) =
      (framesOf ds).filter (isExp md) := by
  induction ds with
  | nil => rfl
  | cons d ds ih =>
    unfold framesOf at ih ⊢
    rw [List.flatMap_cons, List.filter_append, ← ih]
    by_cases h : hasExported md d = true
    · rw [List.filter_cons_of_pos h, List.map_cons, List.flatMap_cons]
    · rw [List.filter_cons_of_neg h]
      have : d.frames.filter (isExp md) = [] := by
        apply Classical.byContradiction
        intro hn; exact h ((hasExported_iff md d).mpr hn)
      rw [this, List.nil_append]

theorem DistinctKeys.adjacent {ds : List InDgram} (h : DistinctKeys ds) (md : Bool) : DistinctAdjacent md ds := by
  unfold DistinctAdjacent
  unfold DistinctKeys at h
  have hsub : ((ds.filter (hasExported md)).map (·.key)).Sublist (ds.map (·.key)) :=
    List.Sublist.map _ List.filter_sublist
  have hp := h.sublist hsub
  generalize (ds.filter (hasExported md)).map (·.key) = l at hp
  induction l with
  | nil => trivial
  | cons a r ih =>
    rw [List.pairwise_cons] at hp
    rw [adjDistinct_cons]
    refine ⟨?_, ih hp.2⟩
    intro b hb
    apply hp.1
    cases r with
    | nil => simp at hb
    | cons c r' => simp at hb; subst hb; simp

/-- the frames of each output datagram, per input datagram -/
theorem groups_of_dgrams (md : Bool) (ds : List InDgram) (h : DistinctAdjacent md ds) :
    groups md (framesOf ds) =
      (ds.filter (hasExported md)).map (fun d => (d.key, d.frames.filter (isExp md))) := by
  rw [groups_eq_groupRuns, ← filter_framesOf]
  apply groupRuns_of_valid
  · intro g hg
    simp only [List.mem_map, List.mem_filter] at hg
    obtain ⟨d, ⟨_, hd⟩, rfl⟩ := hg
    refine ⟨(hasExported_iff md d).mp hd, ?_⟩
    intro f hf
    exact frames_key d f (List.mem_filter.mp hf).1
  · rw [List.map_map]
    exact h

/-! ### C02 -/

/-- **Unconditionally**: the output datagrams are the maximal runs of equal `(ts, isserver)` among the exported
    frames, each run concatenated. -/
theorem build_eq_runs (md : Bool) (fs : List Frame) :
    build md fs = (groupRuns Frame.key (fs.filter (fun f => (exported md f).isSome))).map Group.dgram := by
  rw [build_eq_groups, groups_eq_groupRuns]; rfl

/-- the runs are what one expects: they partition the exported frames in order, are non-empty, of constant key,
    and maximal -/
theorem runs_spec (md : Bool) (fs : List Frame) :
    (groups md fs).flatMap (·.2) = fs.filter (fun f => (exported md f).isSome) ∧
    (∀ g ∈ groups md fs, g.2 ≠ [] ∧ ∀ f ∈ g.2, f.key = g.1) ∧
    AdjDistinct ((groups md fs).map (·.1)) := by
  rw [groups_eq_groupRuns]
  exact ⟨groupRuns_flatten _ _, groupRuns_mem _ _, groupRuns_adjDistinct _ _⟩

/-- **C02 (output side)**: if consecutive data-carrying input datagrams differ in `(capture time, direction)`, the
    export has exactly one datagram per input datagram with an exported frame, in order, with that datagram's
    direction, time and exported data. -/
theorem build_groups (md : Bool) (ds : List InDgram) (h : DistinctAdjacent md ds) :
    build md (framesOf ds) = (ds.filter (hasExported md)).map (outDgram md) := by
  rw [build_eq_groups, groups_of_dgrams md ds h, List.map_map]
  apply List.map_congr_left
  intro d _
  simp only [Function.comp, Group.dgram, outDgram, filterMap_exported, InDgram.key]

/-- the hypothesis is needed: two data-carrying datagrams with the same time and direction become ONE output
    datagram -/
theorem build_groups_needs_distinct :
    ∃ (md : Bool) (ds : List InDgram), ¬ DistinctAdjacent md ds ∧
      build md (framesOf ds) ≠ (ds.filter (hasExported md)).map (outDgram md) ∧
      build md (framesOf ds) = [⟨false, 7, [1, 2, 3]⟩] :=
  ⟨false, [⟨7, false, [(8, [1, 2])]⟩, ⟨7, false, [(10, [3])]⟩], by decide⟩

-- Non-vacuity: three datagrams (one without exported data in between, equal time in the opposite direction)
example : DistinctAdjacent true
    [⟨7, false, [(8, [1, 2]), (6, [9])]⟩, ⟨7, true, [(2, [5])]⟩, ⟨7, true, [(0x0f, [3]), (1, [])]⟩] := by decide
example : build true (framesOf
    [⟨7, false, [(8, [1, 2]), (6, [9])]⟩, ⟨7, true, [(2, [5])]⟩, ⟨7, true, [(0x0f, [3]), (1, [])]⟩]) =
    [⟨false, 7, [1, 2, 9]⟩, ⟨true, 7, [3]⟩] := by decide

/-! ### C13 -/

theorem chunks_of_dgrams (md : Bool) (ds : List InDgram) (h : DistinctAdjacent md ds) :
    chunks md (framesOf ds) =
      (ds.filter (hasExported md)).map (fun d => (d.key, (d.frames.filter (isExp md)).map chunkOf)) := by
  rw [chunks, groups_of_dgrams md ds h, List.map_map]; rfl

/-- `build` is `chunks` with the chunks of every datagram concatenated -/
theorem build_eq_chunks (md : Bool) (fs : List Frame) :
    build md fs = (chunks md fs).map (fun g => ⟨g.1.2, g.1.1, (g.2.map (·.2)).flatten⟩) :=
  TLX.Quic.UdpOut.build_eq_chunks md fs

theorem stream_chunks (fs : List Frame) :
    ((fs.filter (isExp true)).map chunkOf).filter (·.1) = (fs.filter (isExp false)).map chunkOf := by
  induction fs with
  | nil => rfl
  | cons f fs ih =>
    by_cases hs : isStream f.ftype = true
    · have h0 : isExp false f = true := by rw [isExp_false]; exact hs
      have h1 : isExp true f = true := isExp_mono f h0
      rw [List.filter_cons_of_pos h1, List.filter_cons_of_pos h0, List.map_cons, List.map_cons,
        List.filter_cons_of_pos (by simpa [chunkOf] using hs), ih]
    · have h0 : ¬ isExp false f = true := by rw [isExp_false]; exact hs
      rw [List.filter_cons_of_neg h0]
      by_cases h1 : isExp true f = true
      · rw [List.filter_cons_of_pos h1, List.map_cons, List.filter_cons_of_neg (by simpa [chunkOf] using hs), ih]
      · rw [List.filter_cons_of_neg h1, ih]

/-- **C13 (QUIC builder)**: when neighbouring exported datagrams differ in `(time, direction)` — with and without
    metadata —, the export without metadata is the export with metadata with the non-STREAM chunks taken out of every
    datagram and the datagrams that become empty dropped. The STREAM chunks of every datagram (hence of every
    direction) are the same, in the same order. -/
theorem meta_only_adds_quic (ds : List InDgram) (h1 : DistinctAdjacent true ds) (h0 : DistinctAdjacent false ds) :
    chunks false (framesOf ds) =
      ((chunks true (framesOf ds)).map (fun g => (g.1, g.2.filter (·.1)))).filter (fun g => g.2 ≠ []) := by
  rw [chunks_of_dgrams true ds h1, chunks_of_dgrams false ds h0, List.map_map]
  clear h0 h1
  induction ds with
  | nil => rfl
  | cons d ds ih =>
    by_cases hs : hasExported false d = true
    · have hne := (hasExported_iff false d).mp hs
      have ht : hasExported true d = true := by
        rw [hasExported_iff] at hs ⊢
        intro hn; apply hs
        rw [List.filter_eq_nil_iff] at hn ⊢
        intro f hf he; exact hn f hf (isExp_mono f he)
      rw [List.filter_cons_of_pos hs, List.filter_cons_of_pos ht, List.map_cons, List.map_cons,
        List.filter_cons_of_pos, ← ih]
      · simp only [Function.comp, stream_chunks]
      · simp only [Function.comp, stream_chunks]
        simpa using hne
    · rw [List.filter_cons_of_neg hs]
      have hnil : d.frames.filter (isExp false) = [] := by
        apply Classical.byContradiction
        intro hn; exact hs ((hasExported_iff false d).mpr hn)
      by_cases ht : hasExported true d = true
      · rw [List.filter_cons_of_pos ht, List.map_cons, List.filter_cons_of_neg, ← ih]
        simp only [Function.comp, stream_chunks, hnil]
        simp
      · rw [List.filter_cons_of_neg ht, ih]

/-- with pairwise distinct `(time, direction)` of the input datagrams both hypotheses hold -/
theorem meta_only_adds_quic_of_distinct_keys (ds : List InDgram) (h : DistinctKeys ds) :
    chunks false (framesOf ds) =
      ((chunks true (framesOf ds)).map (fun g => (g.1, g.2.filter (·.1)))).filter (fun g => g.2 ≠ []) :=
  meta_only_adds_quic ds (h.adjacent true) (h.adjacent false)

/-- corollary: every datagram exported without metadata has a datagram exported with metadata of the same time and
    direction whose chunk list contains its chunks — exactly the STREAM chunks — as a subsequence -/
theorem meta_only_adds_quic_sublist (ds : List InDgram) (h1 : DistinctAdjacent true ds)
    (h0 : DistinctAdjacent false ds) :
    ∀ g ∈ chunks false (framesOf ds), ∃ g' ∈ chunks true (framesOf ds),
      g'.1 = g.1 ∧ g.2 = g'.2.filter (·.1) ∧ g.2.Sublist g'.2 := by
  intro g hg
  rw [meta_only_adds_quic ds h1 h0] at hg
  simp only [List.mem_filter, List.mem_map] at hg
  obtain ⟨⟨g', hg', rfl⟩, _⟩ := hg
  exact ⟨g', hg', rfl, rfl, List.filter_sublist⟩

/-- the same on the output datagrams themselves -/
theorem meta_only_adds_quic_dgram (ds : List InDgram) (h1 : DistinctAdjacent true ds)
    (h0 : DistinctAdjacent false ds) :
    ∀ d ∈ build false (framesOf ds), ∃ g' ∈ chunks true (framesOf ds),
      g'.1 = (d.ts, d.isServer) ∧ d.payload = ((g'.2.filter (·.1)).map (·.2)).flatten ∧
      (⟨d.isServer, d.ts, (g'.2.map (·.2)).flatten⟩ : Dgram) ∈ build true (framesOf ds) := by
  intro d hd
  rw [build_eq_chunks] at hd
  obtain ⟨g, hg, rfl⟩ := List.mem_map.mp hd
  obtain ⟨g', hg', hk, hf, _⟩ := meta_only_adds_quic_sublist ds h1 h0 g hg
  refine ⟨g', hg', by rw [hk], by rw [hf], ?_⟩
  rw [build_eq_chunks]
  exact List.mem_map.mpr ⟨g', hg', by rw [hk]⟩

/-- `DistinctAdjacent true` alone is not enough: a metadata-only datagram between two STREAM datagrams of equal key
    keeps them apart with metadata, without metadata they merge -/
theorem meta_only_adds_needs_distinct_false :
    ∃ ds : List InDgram, DistinctAdjacent true ds ∧ ¬ DistinctAdjacent false ds ∧
      chunks false (framesOf ds) ≠
        ((chunks true (framesOf ds)).map (fun g => (g.1, g.2.filter (·.1)))).filter (fun g => g.2 ≠ []) ∧
      build false (framesOf ds) = [⟨false, 7, [1, 3]⟩] ∧
      build true (framesOf ds) = [⟨false, 7, [1]⟩, ⟨true, 8, [2]⟩, ⟨false, 7, [3]⟩] :=
  ⟨[⟨7, false, [(8, [1])]⟩, ⟨8, true, [(6, [2])]⟩, ⟨7, false, [(9, [3])]⟩], by decide⟩

-- Non-vacuity: a capture with STREAM, CRYPTO and datagram-extension frames satisfying both hypotheses
example : DistinctKeys [⟨7, false, [(8, [1]), (6, [9])]⟩, ⟨8, true, [(6, [2])]⟩, ⟨9, false, [(0xfe, [4]), (9, [3])]⟩] := by
  decide
example : chunks true (framesOf [⟨7, false, [(8, [1]), (6, [9])]⟩, ⟨8, true, [(6, [2])]⟩, ⟨9, false, [(0xfe, [4]), (9, [3])]⟩])
    = [((7, false), [(true, [1]), (false, [9])]), ((8, true), [(false, [2])]), ((9, false), [(false, [4]), (true, [3])])] := by
  decide
example : chunks false (framesOf [⟨7, false, [(8, [1]), (6, [9])]⟩, ⟨8, true, [(6, [2])]⟩, ⟨9, false, [(0xfe, [4]), (9, [3])]⟩])
    = [((7, false), [(true, [1])]), ((9, false), [(true, [3])])] := by decide

/-! ### C08 -/

/-- **C08 (QUIC builder)**: the export of the first `n` datagrams of the capture is a prefix of the export of the
    whole capture. -/
theorem build_take_prefix_quic (md : Bool) (ds : List InDgram) (n : Nat) (h : DistinctAdjacent md ds) :
    build md (framesOf (ds.take n)) <+: build md (framesOf ds) := by
  have hp : (ds.take n).filter (hasExported md) <+: ds.filter (hasExported md) :=
    List.IsPrefix.filter _ (List.take_prefix n ds)
  have hn : DistinctAdjacent md (ds.take n) := AdjDistinct.prefix (List.IsPrefix.map _ hp) h
  rw [build_groups md ds h, build_groups md _ hn]
  exact List.IsPrefix.map _ hp

/-- **Unconditionally**, for any frame list cut anywhere (also inside a datagram): all output datagrams of the cut
    capture but the last one are a prefix of the full export. -/
theorem build_take_dropLast_prefix (md : Bool) (fs : List Frame) (n : Nat) :
    (build md (fs.take n)).dropLast <+: build md fs := by
  unfold build
  conv => rhs; rw [← List.take_append_drop n fs, List.foldl_append]
  exact (finish_dropLast_prefix _).trans ((out_prefix_foldl md _ _).trans (out_prefix_finish _))

/-- the hypothesis of `build_take_prefix_quic` is needed: the last datagram of the cut export can still grow -/
theorem build_take_prefix_needs_distinct :
    ∃ (md : Bool) (ds : List InDgram) (n : Nat), ¬ DistinctAdjacent md ds ∧
      ¬ (build md (framesOf (ds.take n)) <+: build md (framesOf ds)) ∧
      build md (framesOf (ds.take n)) = [⟨true, 4, [1]⟩] ∧ build md (framesOf ds) = [⟨true, 4, [1, 2]⟩] :=
  ⟨false, [⟨4, true, [(8, [1])]⟩, ⟨4, true, [(8, [2])]⟩], 1, by decide⟩

example : DistinctAdjacent false [⟨4, true, [(8, [1])]⟩, ⟨5, true, [(1, [])]⟩, ⟨4, false, [(8, [2]), (9, [3])]⟩] := by decide
example : build false (framesOf ([⟨4, true, [(8, [1])]⟩, ⟨5, true, [(1, [])]⟩, ⟨4, false, [(8, [2]), (9, [3])]⟩].take 2)) =
    [⟨true, 4, [1]⟩] := by decide
example : (build true ([(⟨8, 4, true, [1]⟩ : Frame), ⟨6, 5, true, [2]⟩, ⟨8, 5, true, [3]⟩].take 2)).dropLast =
    [⟨true, 4, [1]⟩] := by decide

/-! ### C07 -/

theorem flatMap_payload_dgram (gs : List Group) :
    (gs.map Group.dgram).flatMap (·.payload) = ((gs.flatMap (·.2)).map (·.data)).flatten := by
  induction gs with
  | nil => rfl
  | cons g gs ih => simp [Group.dgram, ih]

/-- **C07 (bytes)**: for every frame list the exported payload bytes, all output datagrams together, are exactly the
    data of the exported frames, once each, in order. -/
theorem out_bytes_from_frames (md : Bool) (fs : List Frame) :
    (build md fs).flatMap (·.payload) = (fs.filterMap (exported md)).flatten := by
  rw [build_eq_groups, flatMap_payload_dgram, groups_eq_groupRuns, groupRuns_flatten, filterMap_exported]

/-- **C07 (origin)**: for every frame list, every output datagram (`build md fs = (groups md fs).map Group.dgram`)
    is made of at least one frame, and every frame whose data it contains is an exported frame of the input with
    exactly the datagram's time and direction. -/
theorem out_key_from_frames (md : Bool) (fs : List Frame) :
    build md fs = (groups md fs).map Group.dgram ∧
    ∀ g ∈ groups md fs, g.2 ≠ [] ∧
      ∀ f ∈ g.2, f ∈ fs ∧ (exported md f).isSome ∧ f.ts = g.dgram.ts ∧ f.isServer = g.dgram.isServer := by
  refine ⟨build_eq_groups md fs, ?_⟩
  intro g hg
  have hmem := (runs_spec md fs).2.1 g hg
  refine ⟨hmem.1, ?_⟩
  intro f hf
  have hin : f ∈ (groups md fs).flatMap (·.2) := List.mem_flatMap.mpr ⟨g, hg, hf⟩
  rw [(runs_spec md fs).1, List.mem_filter] at hin
  have hk := hmem.2 f hf
  exact ⟨hin.1, hin.2, congrArg Prod.fst hk, congrArg Prod.snd hk⟩

/-- every output datagram's time and direction are those of some exported input frame -/
theorem out_key_occurs (md : Bool) (fs : List Frame) :
    ∀ d ∈ build md fs, ∃ f ∈ fs, (exported md f).isSome ∧ f.ts = d.ts ∧ f.isServer = d.isServer := by
  intro d hd
  obtain ⟨hb, hall⟩ := out_key_from_frames md fs
  rw [hb] at hd
  obtain ⟨g, hg, rfl⟩ := List.mem_map.mp hd
  obtain ⟨hne, hf⟩ := hall g hg
  obtain ⟨f, rest, hfr⟩ := List.exists_cons_of_ne_nil hne
  obtain ⟨h1, h2, h3, h4⟩ := hf f (by rw [hfr]; simp)
  exact ⟨f, h1, h2, h3, h4⟩

example : groups true [⟨8, 4, true, [1]⟩, ⟨1, 4, true, []⟩, ⟨6, 4, true, [2]⟩, ⟨0x0b, 4, false, [3]⟩] =
    [((4, true), [⟨8, 4, true, [1]⟩, ⟨6, 4, true, [2]⟩]), ((4, false), [⟨0x0b, 4, false, [3]⟩])] := by decide
example : (build true [⟨8, 4, true, [1]⟩, ⟨1, 4, true, [7]⟩, ⟨6, 4, true, [2]⟩, ⟨0x0b, 4, false, [3]⟩]).flatMap (·.payload) =
    [1, 2, 3] := by decide

/-! ### C13, unconditional form -/

theorem push_map {α β K : Type} [DecidableEq K] (f : α → β) (k : K) (as : List α) (g : List (K × List α)) :
    (push k as g).map (fun x => (x.1, x.2.map f)) = push k (as.map f) (g.map (fun x => (x.1, x.2.map f))) := by
  cases g with
  | nil => rfl
  | cons y rest =>
    obtain ⟨k', bs⟩ := y
    by_cases hk : k = k'
    · subst hk; rw [push_cons_same, List.map_cons, List.map_cons, push_cons_same, List.map_append]
    · rw [push_cons_ne hk, List.map_cons, List.map_cons]
      exact (push_cons_ne hk _ _ _).symm

theorem regroup_map {α β K : Type} [DecidableEq K] (f : α → β) (gs : List (K × List α)) :
    (regroup gs).map (fun x => (x.1, x.2.map f)) = regroup (gs.map (fun x => (x.1, x.2.map f))) := by
  induction gs with
  | nil => rfl
  | cons g rest ih =>
    obtain ⟨k, bs⟩ := g
    rw [regroup_cons, push_map, ih, List.map_cons, regroup_cons]

theorem restrict_map {α β K : Type} (f : α → β) (p : β → Bool) (gs : List (K × List α)) :
    (restrict (fun a => p (f a)) gs).map (fun x => (x.1, x.2.map f)) =
      restrict p (gs.map (fun x => (x.1, x.2.map f))) := by
  induction gs with
  | nil => rfl
  | cons g rest ih =>
    obtain ⟨k, bs⟩ := g
    have hf : (bs.map f).filter p = (bs.filter (fun a => p (f a))).map f := by
      rw [List.filter_map]; rfl
    rw [List.map_cons, restrict_cons, restrict_cons, hf]
    by_cases hb : bs.filter (fun a => p (f a)) = []
    · rw [if_pos hb, if_pos (by rw [hb]; rfl), ih]
    · rw [if_neg hb, if_neg (by simpa using hb), List.map_cons, ih]

/-- **C13, for every frame list**: the export without metadata is the export with metadata with the non-STREAM
    chunks removed, emptied datagrams dropped, and datagrams that thereby become neighbours with equal
    `(time, direction)` merged (`regroup`; the identity when those keys differ, `regroup_of_adjDistinct`). -/
theorem meta_regroup (fs : List Frame) :
    chunks false fs = regroup (restrict (·.1) (chunks true fs)) := by
  have hfil : fs.filter (isExp false) = (fs.filter (isExp true)).filter (fun f => isStream f.ftype) := by
    rw [List.filter_filter]
    apply List.filter_congr
    intro f _
    rw [isExp_false, isExp_true]
    cases isStream f.ftype <;> simp
  unfold chunks
  rw [groups_eq_groupRuns, groups_eq_groupRuns, hfil, groupRuns_filter, regroup_map]
  exact congrArg regroup (restrict_map chunkOf (·.1) _)

end TLX.Props.C02Out
