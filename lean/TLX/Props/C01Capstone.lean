/-
C01 for a WHOLE TLS connection at the level of `Pipeline.connOut` (HEADER REWRITTEN AT THE END)
-/
import TLX.Lemmas.Capstone
set_option linter.unusedSimpArgs false
namespace TLX.Props.C01Capstone
open TLX TLX.Cipher TLX.RecordLayer TLX.Spec.TlsSender TLX.Props.C01 TLX.Lemmas.Pipeline TLX.Spec.TlsConnection
open TLX.Lemmas.Capstone TLX.Props.C01Pipeline TLX.Spec.TlsFraming

/-- the capture delivers both directions of the transcript in order: each direction's TCP segments (as the session sees
    them, `dirSegs`) are an in-order delivery — any cut into segments, exact duplicates, any initial sequence number —
    of that direction's byte stream, which is shorter than 2^31 -/
def DeliveredInOrder (info : Nat → Pipeline.Info) (c : Pipeline.Conn) (streams : Bool → Bytes) : Prop :=
  ∀ d, (∃ isn, InOrder isn (streams d) ((dirSegs info c.server d c.pkts).map Props.C05.wire)) ∧
    (streams d).length ≤ 2 ^ 31

/-- Causality, TLS ≤ 1.2, stated on the order in which reassembly releases records (`connRecs`): every record released
    before the first server record is a client record and no ChangeCipherSpec, and there is at least one (the
    ClientHello) — i.e. the ClientHello is released before the ServerHello, the ServerHello before the client's
    ChangeCipherSpec. Nothing else is assumed about the interleaving of the two directions. -/
def Causal12 (M : List (Session.Rec × Bool)) : Prop :=
  ∃ pre post, M = pre ++ post ∧ pre ≠ [] ∧ (∀ q ∈ pre, q.2 = false ∧ q.1.typ ≠ some 20) ∧
    ∃ q post', post = q :: post' ∧ q.2 = true

/-- the sender's cipher states right after the key block of SSL 3.0 – TLS 1.2 is installed -/
def legacySnd (k : KeySchedule.Keys6) : Snd :=
  ⟨SDir.init k.clientKey k.clientIv [] [], SDir.init k.serverKey k.serverIv [] []⟩

/-- every exported data segment carries the capture time of a packet that is a carrier of a released record of its
    direction (which packets are a record's carriers: `Props.C05.metadata_is_overlap`) -/
def TimesFromCarriers (info : Nat → Pipeline.Info) (c : Pipeline.Conn) (frames : List TcpOut.Frame) : Prop :=
  ∀ d ts p, (d, ts, p) ∈ TcpOut.dataFrames frames →
    ∃ q ∈ connRecs info c, q.2 = d ∧ ∃ id ∈ q.1.carriers, ts = (info id).ts

/-- builder end of both capstone theorems: from the per-direction plaintext of the session's traffic to the frames -/
theorem export_of_dirPlain (H : Crypto.Prims) (P : Prims) (kl : List Keylog.Key) (info : Nat → Pipeline.Info)
    (c : Pipeline.Conn) (pc psv : Bytes)
    (h : ∀ d, dirPlain d (Session.run (Pipeline.ops H P kl) c.opts.metadata Session.St.init (connRecs info c)).traffic
      = if d then psv else pc) :
    ∃ frames, Pipeline.connOut H P info c kl = some (frames.map (Pipeline.addressed c.opts c)) ∧
      Spec.reassemble frames = some (pc, psv) ∧ TimesFromCarriers info c frames := by
  have hsome := (connOut_never_raises H P info c kl).2.2
  rw [connOut_eq, Option.isSome_map] at hsome
  obtain ⟨frames, hb⟩ := Option.isSome_iff_exists.mp hsome
  refine ⟨frames, by rw [connOut_eq, hb]; rfl, ?_, ?_⟩
  · rw [Props.C06.reassemble_build _ _ hb, dirBytes_toRec, dirBytes_toRec, h false, h true]; rfl
  · intro d ts p hm
    obtain ⟨r, hr, ps', _, j, _, hts, hdir⟩ := Props.C07.out_ts_from_carrier _ _ hb d ts p hm
    obtain ⟨e, he, rfl⟩ := List.mem_map.mp hr
    have horig := Props.C07.entry_origin (Pipeline.ops H P kl) c.opts.metadata (connRecs info c) e he
    refine ⟨(e.record, e.fromServer), horig, hdir, ?_⟩
    have hmem : ts ∈ (toRec (fun id => (info id).ts) e).ts := List.mem_of_getElem? hts
    simp only [toRec, List.mem_map] at hmem
    obtain ⟨id, hid, rfl⟩ := hmem
    exact ⟨id, hid, rfl⟩

end TLX.Props.C01Capstone
