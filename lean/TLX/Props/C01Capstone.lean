/-
C01 for a WHOLE TLS connection at the level of `Pipeline.connOut`: packets in → addressed frames out, one theorem per
protocol family, composed from
  reassembly   `Props/C05.reassembly_exact_inorder` (+ `Lemmas/Capstone.released_filter`: the records released for a
               direction are what that direction's reassembler hands on)
  handshake    `server_hello_installs`, `genKeys_installs_rel_legacy`, `genKeys_installs_rel_13`
  records      the per-record lemmas behind `session_exact` / `legacy_after_hello_exact`, lifted to ANY interleaving of
               the two directions (`Lemmas/Capstone.run_merge12`, `run_merge13`: each direction has its own cipher state)
  builder      `connOut_eq`, `connOut_never_raises`, `Props/C06.reassemble_build`, `Props/C07.out_ts_from_carrier`.
Sender-side specification: `Spec/TlsConnection` (`Transcript`: the two hello records, then per side a script `DirEv`;
`Script12`, `Script13`; the byte stream of a direction = concatenation of its records).

  `tls12_connection_exact`   SSL 3.0 – TLS 1.2, every class with `is13 = false`; covers False Start, NewSessionTicket
                             before the server's CCS, any grouping of clear-text handshake messages into records whose
                             first byte is not 01 / 02, protected handshake records among the application data
  `tls13_connection_exact`   TLS 1.3 with the four traffic secrets; dummy CCS records anywhere, protected handshake
                             records of whole messages anywhere (tickets in the application epoch: type ≠ 20, nothing
                             happens), each Finished switching that side's epoch
  Conclusion of both: `connOut = some (frames.map (addressed c.opts c))` — `addressed` orients MACs / IPs / ports by
  `fromServer` and exports the server port per `-m` —, `Spec.reassemble frames = some (client plaintext, server
  plaintext)` (well-formed conversation; nothing lost, added, duplicated, reordered, left encrypted), and every data
  segment's time is the capture time of a carrier packet of a released record of its direction.
  Capture hypotheses: `DeliveredInOrder` (per direction: any cuts, exact duplicates, any ISN incl. wrap; stream < 2^31)
  and causality on the order in which reassembly RELEASES records: `Causal12` = every record released before the
  first server record is a client record and no ChangeCipherSpec, and there is one (ClientHello before ServerHello,
  ServerHello before the client's CCS); `Causal13` = the first released record is the client's, the second the
  server's. Nothing else about the interleaving. Both halves are needed: `Ex` (1), (2).
  Hypotheses the RFCs do not give:
  `tls12_connection_exact_statement` / `Ex.…_counterexample`   any fragmentation of clear-text handshake messages: a
                             continuation record starting with byte 01 is taken for a ClientHello, everything is lost
  `Ex.fragRun`               TLS 1.3 handshake messages fragmented across protected records: the Finished is missed
  Not covered: early data, HelloRetryRequest, KeyUpdate, alerts, renegotiation, record compression, displaced
  segments (use `reassembly_exact_partial` in place of `_inorder`: same proof).
Non-vacuity: `Ex.tls12_instance`, `Ex.tls13_instance` discharge EVERY hypothesis for concrete connections (regenerated
suite table, key-log lines, toy primitives) and agree with kernel evaluation of `connOut` on the same packets.
-/
import TLX.Lemmas.Capstone
set_option linter.unusedSimpArgs false
namespace TLX.Props.C01Capstone
open TLX TLX.Cipher TLX.RecordLayer TLX.Spec.TlsSender TLX.Props.C01 TLX.Lemmas.Pipeline TLX.Spec.TlsConnection
open TLX.Lemmas.Capstone TLX.Props.C01Pipeline TLX.Spec.TlsFraming

/-- the capture delivers both directions of the transcript in order: each direction's TCP segments (as the session sees
    them, `dirSegs`) are an in-order delivery — any cut into segments, exact duplicates, any initial sequence number —
    of that direction's byte stream, which is shorter than 2^31 -/
def DeliveredInOrder (info : Nat → Pipeline.Info) (c : Pipeline.Conn) (streams : Bool → Bytes) : Prop :=
  ∀ d, (∃ isn, InOrder isn (streams d) ((dirSegs info c.server d c.pkts).map Props.C05.wire)) ∧
    (streams d).length ≤ 2 ^ 31

/-- Causality, TLS ≤ 1.2, stated on the order in which reassembly releases records (`connRecs`): every record released
    before the first server record is a client record and no ChangeCipherSpec, and there is at least one (the
    ClientHello) — i.e. the ClientHello is released before the ServerHello, the ServerHello before the client's
    ChangeCipherSpec. Nothing else is assumed about the interleaving of the two directions. -/
def Causal12 (M : List (Session.Rec × Bool)) : Prop :=
  ∃ pre post, M = pre ++ post ∧ pre ≠ [] ∧ (∀ q ∈ pre, q.2 = false ∧ q.1.typ ≠ some 20) ∧
    ∃ q post', post = q :: post' ∧ q.2 = true

/-- the sender's cipher states right after the key block of SSL 3.0 – TLS 1.2 is installed -/
def legacySnd (k : KeySchedule.Keys6) : Snd :=
  ⟨SDir.init k.clientKey k.clientIv [] [], SDir.init k.serverKey k.serverIv [] []⟩

/-- every exported data segment carries the capture time of a packet that is a carrier of a released record of its
    direction (which packets are a record's carriers: `Props.C05.metadata_is_overlap`) -/
def TimesFromCarriers (info : Nat → Pipeline.Info) (c : Pipeline.Conn) (frames : List TcpOut.Frame) : Prop :=
  ∀ d ts p, (d, ts, p) ∈ TcpOut.dataFrames frames →
    ∃ q ∈ connRecs info c, q.2 = d ∧ ∃ id ∈ q.1.carriers, ts = (info id).ts

/-- builder end of both capstone theorems: from the per-direction plaintext of the session's traffic to the frames -/
theorem export_of_dirPlain (H : Crypto.Prims) (P : Prims) (kl : List Keylog.Key) (info : Nat → Pipeline.Info)
    (c : Pipeline.Conn) (pc psv : Bytes)
    (h : ∀ d, dirPlain d (Session.run (Pipeline.ops H P kl) c.opts.metadata Session.St.init (connRecs info c)).traffic
      = if d then psv else pc) :
    ∃ frames, Pipeline.connOut H P info c kl = some (frames.map (Pipeline.addressed c.opts c)) ∧
      Spec.reassemble frames = some (pc, psv) ∧ TimesFromCarriers info c frames := by
  have hsome := (connOut_never_raises H P info c kl).2.2
  rw [connOut_eq, Option.isSome_map] at hsome
  obtain ⟨frames, hb⟩ := Option.isSome_iff_exists.mp hsome
  refine ⟨frames, by rw [connOut_eq, hb]; rfl, ?_, ?_⟩
  · rw [Props.C06.reassemble_build _ _ hb, dirBytes_toRec, dirBytes_toRec, h false, h true]; rfl
  · intro d ts p hm
    obtain ⟨r, hr, ps', _, j, _, hts, hdir⟩ := Props.C07.out_ts_from_carrier _ _ hb d ts p hm
    obtain ⟨e, he, rfl⟩ := List.mem_map.mp hr
    have horig := Props.C07.entry_origin (Pipeline.ops H P kl) c.opts.metadata (connRecs info c) e he
    refine ⟨(e.record, e.fromServer), horig, hdir, ?_⟩
    have hmem : ts ∈ (toRec (fun id => (info id).ts) e).ts := List.mem_of_getElem? hts
    simp only [toRec, List.mem_map] at hmem
    obtain ⟨id, hid, rfl⟩ := hmem
    exact ⟨id, hid, rfl⟩

/-- C01 for a whole SSL 3.0 – TLS 1.2 connection, every cipher class, packets in → frames out. -/
theorem tls12_connection_exact (H : Crypto.Prims) (P : Prims) (L : SealLaws P) (kl : List Keylog.Key)
    (info : Nat → Pipeline.Info) (c : Pipeline.Conn) (hmeta : c.opts.metadata = false)
    -- the connection as sent
    (t : Transcript) (hch : t.ch.WellFormed) (hsh : t.sh.WellFormed) (hrc : t.rvC.length = 2) (hrs : t.rvS.length = 2)
    (hv : t.ver.length = 2) (hcomp : t.sh.compressionMethod = 0)
    (v : Session.Ver) (hvne : v ≠ .tls13) (hneg : Negotiated t.rvS t.sh v)
    -- suite table (C14), key log (C09), key schedule (C15), as in `genKeys_installs_rel_legacy`
    (ps : CipherSuite.Params) (hres : CipherSuite.resolve (Bytes.beNat t.sh.cipherSuite) = some ps)
    (a : Pipeline.SuiteArgs) (hargs : Pipeline.suiteArgs ps = some a)
    (f : Keylog.Key) (fs : List Keylog.Key)
    (hfound : (Keylog.findSessionSecrets kl (Pipeline.natsOfBytes t.ch.random)).filter
        (fun k => k.label == Keylog.s_CLIENT_RANDOM || k.label == Keylog.s_RSA) = f :: fs)
    (secrets : List KeySchedule.Secret) (hsec : Pipeline.secretsOf false (f :: fs) = some secrets)
    (k : KeySchedule.Keys6)
    (hgen : KeySchedule.generateKeys H (Pipeline.ksVersion v) a.ks secrets t.ch.random t.sh.random
      = .ok (some (.legacy k)))
    (cls : CipherClass)
    (hcls : classOf a.bulk (Pipeline.rlVersion v)
      (Session.extGet ((t.sh.extensions.getD []).map extPair) [0x00, 0x16]).isSome a.tagLen = some cls)
    (hmac : 0 < (KeySchedule.macSuite H a.ks.mac).outLen)
    (hck : KeyMatOk cls k.clientKey k.clientIv) (hsk : KeyMatOk cls k.serverKey k.serverIv)
    -- what follows the hellos
    (hsc : Script12 t.cEvs) (hss : Script12 t.sEvs)
    (hokc : ∀ e ∈ t.cEvs, EvOk1 cls (KeySchedule.macSuite H a.ks.mac).outLen e)
    (hoks : ∀ e ∈ t.sEvs, EvOk1 cls (KeySchedule.macSuite H a.ks.mac).outLen e)
    (hwr : ∀ d, ∀ r ∈ t.records P L cls (legacySnd k) d, WholeRecord r)
    (hlen : t.cEvs.length + t.sEvs.length ≤ seqLimit)
    -- the capture
    (hdel : DeliveredInOrder info c (t.stream P L cls (legacySnd k)))
    (hcausal : Causal12 (connRecs info c)) :
    ∃ frames, Pipeline.connOut H P info c kl = some (frames.map (Pipeline.addressed c.opts c)) ∧
      Spec.reassemble frames = some (Spec.TlsConnection.plainOf t.cEvs, Spec.TlsConnection.plainOf t.sEvs) ∧
      TimesFromCarriers info c frames := by
  apply export_of_dirPlain
  rw [hmeta]
  -- reassembly: the released records of each direction are the transcript's records
  have hproj : ∀ d, ((connRecs info c).filter fun q => q.2 == d).map (·.1.raw) = t.records P L cls (legacySnd k) d := by
    intro d
    obtain ⟨⟨isn, hio⟩, hl⟩ := hdel d
    exact released_dir_records info c.server c.pkts d isn _ (hwr d) hio hl
  obtain ⟨cl, rest, hcE, hcl, hrest⟩ := hsc
  have hC := hproj false
  have hS := hproj true
  simp only [Transcript.records, Bool.false_eq_true, if_false, if_true, legacySnd] at hC hS
  rw [hcE] at hC
  obtain ⟨pre, post, hsplit, hne, hpre, hpost⟩ := hcausal
  obtain ⟨c0, noise, c1, M', cl2, hM, hnoise, hcl2, h5, hC', hS'⟩ :=
    hello_split P L cls t.ver _ _ _ _ cl rest t.sEvs _ pre post hC hS hsplit hne hpre hpost
  rw [hM]
  -- the two hellos
  have h0 : (Session.St.init : Session.St Dec).srvCC = false ∧ (Session.St.init : Session.St Dec).cliCC = false :=
    ⟨rfl, rfl⟩
  have hs1 := handle_clientHello (Pipeline.ops H P kl) Session.St.init h0 t.rvC hrc t.ch hch c0
  have hnoop : Session.run (Pipeline.ops H P kl) false (Session.handleRecord (Pipeline.ops H P kl) false Session.St.init ⟨t.chRecord, c0⟩ false) noise
      = Session.handleRecord (Pipeline.ops H P kl) false Session.St.init ⟨t.chRecord, c0⟩ false := by
    apply run_noops
    intro q hq
    obtain ⟨b, car, rfl, hb⟩ := hnoise q hq
    exact handle_clear_noop (Pipeline.ops H P kl) _ t.ver b hv car false (hcl b hb) (Or.inl (by rw [Transcript.chRecord, hs1]; rfl))
  obtain ⟨g1, _, g3⟩ := server_hello_installs H P kl false Session.St.init h0 t.ch hch t.sh hsh t.rvC t.rvS hrc hrs c0 c1 v hneg
  obtain ⟨dd, hinst, hR⟩ := genKeys_installs_rel_legacy H P L kl v hvne t.sh.cipherSuite t.ch.random t.sh.random
    ((t.sh.extensions.getD []).map extPair) hsh.2.2.2.1 ps hres a hargs f fs hfound secrets hsec k hgen cls hcls hmac hck hsk
  rw [hcomp, hinst] at g3
  simp only at g3
  have hrl : Pipeline.rlVersion v ≠ .tls13 := by cases v <;> simp_all [Pipeline.rlVersion]
  have h13 : cls.is13 = false := by
    rw [(classOf_spec _ _ _ _ cls hcls).2.2.2]; simpa using hrl
  -- flags and traffic after the hellos
  have ht1 : (⟨t.chRecord, c0⟩ : Session.Rec).typ = some 0x16 := record_typ 22 _ _ _
  have ht2 : (⟨t.shRecord, c1⟩ : Session.Rec).typ = some 0x16 := record_typ 22 _ _ _
  have hf1 := handle_hs_flags (Pipeline.ops H P kl) Session.St.init ⟨t.chRecord, c0⟩ false ht1 h0
  have hf2 := handle_hs_flags (Pipeline.ops H P kl) _ ⟨t.shRecord, c1⟩ true ht2 hf1
  have htr1 := Props.C13.hello_records_silent (Pipeline.ops H P kl) Session.St.init ⟨t.chRecord, c0⟩ false ht1
  have htr2 := Props.C13.hello_records_silent (Pipeline.ops H P kl) (Session.handleRecord (Pipeline.ops H P kl) false Session.St.init ⟨t.chRecord, c0⟩ false)
    ⟨t.shRecord, c1⟩ true ht2
  have hready : Ready cls (KeySchedule.macSuite H a.ks.mac).outLen (legacySnd k)
      (Session.handleRecord (Pipeline.ops H P kl) false (Session.handleRecord (Pipeline.ops H P kl) false Session.St.init ⟨t.chRecord, c0⟩ false)
        ⟨t.shRecord, c1⟩ true) :=
    ⟨⟨g3.1, ⟨v, g1, ⟨fun h => absurd h hvne, fun h => by rw [h13] at h; cases h⟩⟩, dd, g3.2, hR⟩,
      hello_pair_bufs _ false Session.St.init h0 t.rvC t.rvS hrc hrs t.ch hch t.sh c0 c1⟩
  -- everything after the ServerHello: any interleaving
  have hrun : Session.run (Pipeline.ops H P kl) false Session.St.init
      ((⟨t.chRecord, c0⟩, false) :: (noise ++ (⟨t.shRecord, c1⟩, true) :: M'))
      = Session.run (Pipeline.ops H P kl) false (Session.handleRecord (Pipeline.ops H P kl) false
          (Session.handleRecord (Pipeline.ops H P kl) false Session.St.init ⟨t.chRecord, c0⟩ false) ⟨t.shRecord, c1⟩ true) M' := by
    have : Session.run (Pipeline.ops H P kl) false Session.St.init ((⟨t.chRecord, c0⟩, false) :: (noise ++ (⟨t.shRecord, c1⟩, true) :: M'))
        = Session.run (Pipeline.ops H P kl) false (Session.run (Pipeline.ops H P kl) false (Session.handleRecord (Pipeline.ops H P kl) false Session.St.init ⟨t.chRecord, c0⟩ false) noise)
            ((⟨t.shRecord, c1⟩, true) :: M') := by
      simp only [Session.run, List.foldl_cons, List.foldl_append]
    rw [this, hnoop]
    rfl
  rw [hrun]
  have hmerge := run_merge12 H P L kl cls h13 _ t.ver hv M' (legacySnd k) _
    (fun d => if d then t.sEvs else cl2.map DirEv.clear ++ DirEv.ccs :: rest) hready
    (by
      intro d
      cases d
      · exact Or.inl ⟨by simp [ccOf, hf2.2], cl2, rest, rfl, fun b hb => hcl b (hcl2 b hb), hrest⟩
      · exact Or.inl ⟨by simp [ccOf, hf2.1], hss⟩)
    (by
      intro d e he
      cases d
      · simp only [Bool.false_eq_true, if_false, List.mem_append, List.mem_map, List.mem_cons] at he
        rcases he with ⟨b, _, rfl⟩ | rfl | he
        · trivial
        · trivial
        · exact hokc e (by rw [hcE]; simp [he])
      · exact hoks e he)
    (by
      intro d
      cases d
      · exact hC'
      · exact hS')
    (by
      have h1 := length_by_dir M'
      have h2 := congrArg List.length hC'
      have h3 := congrArg List.length hS'
      simp only [List.length_map, sendDir_length, List.length_append, List.length_cons] at h2 h3
      have h4 := congrArg List.length hcE
      simp only [List.length_map, List.length_append, List.length_cons] at h4
      simp only [legacySnd, SDir.init]
      omega)
  intro d
  rw [hmerge d, htr2, htr1]
  cases d
  · simp only [Bool.false_eq_true, if_false, plainOf_clear_prefix, hcE]; rfl
  · rfl

/-- Causality, TLS 1.3: the first record reassembly releases is the client's (the ClientHello) and the second is the
    server's (the ServerHello) — the client's second record (its dummy ChangeCipherSpec, its Finished; early data is not
    covered) is released after the ServerHello. Nothing else is assumed about the interleaving. -/
def Causal13 (M : List (Session.Rec × Bool)) : Prop :=
  ∃ q0 q1 M', M = q0 :: q1 :: M' ∧ q0.2 = false ∧ q1.2 = true

/-- sequence-number budget of a TLS 1.3 script: one per record and one per Finished -/
def budget13 (t : Transcript) : Nat := cost t.cEvs + cost t.sEvs

/-- C01 for a whole TLS 1.3 connection (all four traffic secrets in the key log), packets in → frames out. -/
theorem tls13_connection_exact (H : Crypto.Prims) (P : Prims) (L : SealLaws P) (kl : List Keylog.Key)
    (info : Nat → Pipeline.Info) (c : Pipeline.Conn) (hmeta : c.opts.metadata = false)
    -- the connection as sent
    (t : Transcript) (hch : t.ch.WellFormed) (hsh : t.sh.WellFormed) (hrc : t.rvC.length = 2) (hrs : t.rvS.length = 2)
    (hv : t.ver.length = 2) (hcomp : t.sh.compressionMethod = 0) (hneg : Negotiated t.rvS t.sh .tls13)
    -- suite table (C14), key log (C09), key schedule (C15), as in `genKeys_installs_rel_13`
    (ps : CipherSuite.Params) (hres : CipherSuite.resolve (Bytes.beNat t.sh.cipherSuite) = some ps)
    (a : Pipeline.SuiteArgs) (hargs : Pipeline.suiteArgs ps = some a)
    (f : Keylog.Key) (fs : List Keylog.Key)
    (hfound : Keylog.findSessionSecrets kl (Pipeline.natsOfBytes t.ch.random) = f :: fs)
    (secrets : List KeySchedule.Secret) (hsec : Pipeline.secretsOf true (f :: fs) = some secrets)
    (k : KeySchedule.Installed13)
    (hgen : KeySchedule.generateKeys H .tls13 a.ks secrets t.ch.random t.sh.random = .ok (some (.tls13 k)))
    (chk chiv cak caiv shk shiv sak saiv : Bytes)
    (hk : k.clientHsKey = some chk ∧ k.clientHsIv = some chiv ∧ k.clientAppKey = some cak ∧ k.clientAppIv = some caiv ∧
      k.serverHsKey = some shk ∧ k.serverHsIv = some shiv ∧ k.serverAppKey = some sak ∧ k.serverAppIv = some saiv)
    (cls : CipherClass)
    (hcls : classOf a.bulk .tls13
      (Session.extGet ((t.sh.extensions.getD []).map extPair) [0x00, 0x16]).isSome a.tagLen = some cls)
    (h1 : KeyMatOk cls chk chiv) (h2 : KeyMatOk cls cak caiv) (h3 : KeyMatOk cls shk shiv) (h4 : KeyMatOk cls sak saiv)
    -- what follows the hellos
    (hsc : Script13 t.cEvs) (hss : Script13 t.sEvs)
    (hokc : ∀ e ∈ t.cEvs, EvOk1 cls (KeySchedule.macSuite H a.ks.mac).outLen e)
    (hoks : ∀ e ∈ t.sEvs, EvOk1 cls (KeySchedule.macSuite H a.ks.mac).outLen e)
    (hwr : ∀ d, ∀ r ∈ t.records P L cls ⟨SDir.init chk chiv cak caiv, SDir.init shk shiv sak saiv⟩ d, WholeRecord r)
    (hlen : budget13 t ≤ seqLimit)
    -- the capture
    (hdel : DeliveredInOrder info c (t.stream P L cls ⟨SDir.init chk chiv cak caiv, SDir.init shk shiv sak saiv⟩))
    (hcausal : Causal13 (connRecs info c)) :
    ∃ frames, Pipeline.connOut H P info c kl = some (frames.map (Pipeline.addressed c.opts c)) ∧
      Spec.reassemble frames = some (Spec.TlsConnection.plainOf t.cEvs, Spec.TlsConnection.plainOf t.sEvs) ∧
      TimesFromCarriers info c frames := by
  apply export_of_dirPlain
  rw [hmeta]
  have hproj : ∀ d, ((connRecs info c).filter fun q => q.2 == d).map (·.1.raw)
      = t.records P L cls ⟨SDir.init chk chiv cak caiv, SDir.init shk shiv sak saiv⟩ d := by
    intro d
    obtain ⟨⟨isn, hio⟩, hl⟩ := hdel d
    exact released_dir_records info c.server c.pkts d isn _ (hwr d) hio hl
  have hC := hproj false
  have hS := hproj true
  simp only [Transcript.records, Bool.false_eq_true, if_false, if_true] at hC hS
  obtain ⟨⟨r0, d0⟩, ⟨r1, d1⟩, M', hM, hd0, hd1⟩ := hcausal
  simp only at hd0 hd1
  subst hd0 hd1
  rw [hM] at hC hS ⊢
  rw [filter_dir_cons_same, filter_dir_cons_other _ _ _ _ (by decide), List.map_cons] at hC
  rw [filter_dir_cons_other _ _ _ _ (by decide), filter_dir_cons_same, List.map_cons] at hS
  simp only [List.cons.injEq] at hC hS
  obtain ⟨hc1, hC'⟩ := hC
  obtain ⟨hs1, hS'⟩ := hS
  have hr0 : r0 = ⟨t.chRecord, r0.carriers⟩ := by have h : r0.raw = t.chRecord := hc1; rw [← h]
  have hr1 : r1 = ⟨t.shRecord, r1.carriers⟩ := by have h : r1.raw = t.shRecord := hs1; rw [← h]
  have h0 : (Session.St.init : Session.St Dec).srvCC = false ∧ (Session.St.init : Session.St Dec).cliCC = false :=
    ⟨rfl, rfl⟩
  obtain ⟨g1, _, g3⟩ := server_hello_installs H P kl false Session.St.init h0 t.ch hch t.sh hsh t.rvC t.rvS hrc hrs
    r0.carriers r1.carriers .tls13 hneg
  obtain ⟨dd, hinst, hR⟩ := genKeys_installs_rel_13 H P kl t.sh.cipherSuite t.ch.random t.sh.random
    ((t.sh.extensions.getD []).map extPair) hsh.2.2.2.1 ps hres a hargs f fs hfound secrets hsec k hgen
    chk chiv cak caiv shk shiv sak saiv hk cls hcls h1 h2 h3 h4
  rw [hcomp, hinst] at g3
  simp only at g3
  have h13 : cls.is13 = true := by rw [(classOf_spec _ _ _ _ cls hcls).2.2.2]; rfl
  have ht1 : (⟨t.chRecord, r0.carriers⟩ : Session.Rec).typ = some 0x16 := record_typ 22 _ _ _
  have ht2 : (⟨t.shRecord, r1.carriers⟩ : Session.Rec).typ = some 0x16 := record_typ 22 _ _ _
  have htr1 := Props.C13.hello_records_silent (Pipeline.ops H P kl) Session.St.init ⟨t.chRecord, r0.carriers⟩ false ht1
  have htr2 := Props.C13.hello_records_silent (Pipeline.ops H P kl)
    (Session.handleRecord (Pipeline.ops H P kl) false Session.St.init ⟨t.chRecord, r0.carriers⟩ false)
    ⟨t.shRecord, r1.carriers⟩ true ht2
  have hready : Ready cls (KeySchedule.macSuite H a.ks.mac).outLen
      ⟨SDir.init chk chiv cak caiv, SDir.init shk shiv sak saiv⟩
      (Session.handleRecord (Pipeline.ops H P kl) false
        (Session.handleRecord (Pipeline.ops H P kl) false Session.St.init ⟨t.chRecord, r0.carriers⟩ false)
        ⟨t.shRecord, r1.carriers⟩ true) :=
    ⟨⟨g3.1, ⟨.tls13, g1, ⟨fun _ => h13, fun _ => rfl⟩⟩, dd, g3.2, hR⟩,
      hello_pair_bufs _ false Session.St.init h0 t.rvC t.rvS hrc hrs t.ch hch t.sh r0.carriers r1.carriers⟩
  rw [hr0, hr1]
  have hmerge := run_merge13 H P L kl cls h13 _ t.ver hv M'
    ⟨SDir.init chk chiv cak caiv, SDir.init shk shiv sak saiv⟩ _
    (fun d => if d then t.sEvs else t.cEvs) hready
    (by intro d; cases d; exact hsc; exact hss)
    (by intro d e he; cases d; exact hokc e he; exact hoks e he)
    (by intro d; cases d; exact hC'; exact hS')
    (by simp only [SDir.init, budget13] at hlen ⊢; simpa using hlen)
  intro d
  simp only [Session.run, List.foldl_cons] at hmerge ⊢
  rw [hmerge d, htr2, htr1]
  cases d <;> rfl

/-- `Script12` WITHOUT the condition on the first byte of clear-text handshake records: RFC 5246 §6.2.1 lets an endpoint
    fragment handshake messages over records at any point, so a continuation record may begin with any byte -/
def Script12Loose (l : List DirEv) : Prop :=
  ∃ (cl : List Bytes) (rest : List DirEv), l = cl.map .clear ++ .ccs :: rest ∧
    ∀ e ∈ rest, ∃ typ pt f, e = .enc typ pt f ∧ (typ = 22 ∨ typ = 23)

set_option linter.unusedVariables false in
/-- `tls12_connection_exact` at full RFC strength (any fragmentation of the clear-text handshake). FALSE for the tool:
    `tls12_connection_exact_counterexample`; `tls12_connection_exact` is the partial result, the extra hypothesis being
    the first-byte condition inside `Script12`. -/
def tls12_connection_exact_statement : Prop := ∀ (H : Crypto.Prims) (P : Prims) (L : SealLaws P) (kl : List Keylog.Key)
    (info : Nat → Pipeline.Info) (c : Pipeline.Conn) (hmeta : c.opts.metadata = false)
    -- the connection as sent
    (t : Transcript) (hch : t.ch.WellFormed) (hsh : t.sh.WellFormed) (hrc : t.rvC.length = 2) (hrs : t.rvS.length = 2)
    (hv : t.ver.length = 2) (hcomp : t.sh.compressionMethod = 0)
    (v : Session.Ver) (hvne : v ≠ .tls13) (hneg : Negotiated t.rvS t.sh v)
    -- suite table (C14), key log (C09), key schedule (C15), as in `genKeys_installs_rel_legacy`
    (ps : CipherSuite.Params) (hres : CipherSuite.resolve (Bytes.beNat t.sh.cipherSuite) = some ps)
    (a : Pipeline.SuiteArgs) (hargs : Pipeline.suiteArgs ps = some a)
    (f : Keylog.Key) (fs : List Keylog.Key)
    (hfound : (Keylog.findSessionSecrets kl (Pipeline.natsOfBytes t.ch.random)).filter
        (fun k => k.label == Keylog.s_CLIENT_RANDOM || k.label == Keylog.s_RSA) = f :: fs)
    (secrets : List KeySchedule.Secret) (hsec : Pipeline.secretsOf false (f :: fs) = some secrets)
    (k : KeySchedule.Keys6)
    (hgen : KeySchedule.generateKeys H (Pipeline.ksVersion v) a.ks secrets t.ch.random t.sh.random
      = .ok (some (.legacy k)))
    (cls : CipherClass)
    (hcls : classOf a.bulk (Pipeline.rlVersion v)
      (Session.extGet ((t.sh.extensions.getD []).map extPair) [0x00, 0x16]).isSome a.tagLen = some cls)
    (hmac : 0 < (KeySchedule.macSuite H a.ks.mac).outLen)
    (hck : KeyMatOk cls k.clientKey k.clientIv) (hsk : KeyMatOk cls k.serverKey k.serverIv)
    -- what follows the hellos
    (hsc : Script12Loose t.cEvs) (hss : Script12Loose t.sEvs)
    (hokc : ∀ e ∈ t.cEvs, EvOk1 cls (KeySchedule.macSuite H a.ks.mac).outLen e)
    (hoks : ∀ e ∈ t.sEvs, EvOk1 cls (KeySchedule.macSuite H a.ks.mac).outLen e)
    (hwr : ∀ d, ∀ r ∈ t.records P L cls (legacySnd k) d, WholeRecord r)
    (hlen : t.cEvs.length + t.sEvs.length ≤ seqLimit)
    -- the capture
    (hdel : DeliveredInOrder info c (t.stream P L cls (legacySnd k)))
    (hcausal : Causal12 (connRecs info c)),
    ∃ frames, Pipeline.connOut H P info c kl = some (frames.map (Pipeline.addressed c.opts c)) ∧
      Spec.reassemble frames = some (Spec.TlsConnection.plainOf t.cEvs, Spec.TlsConnection.plainOf t.sEvs) ∧
      TimesFromCarriers info c frames

-- ====================================================================== non-vacuity: one TLS 1.2 connection, all hypotheses
namespace Ex
open TLX.Props.C01Pipeline.Ex2 TLX.Props.C01.Ex

theorem some_getD {α : Type} (o : Option α) (d : α) (h : o.isSome = true) : o = some (o.getD d) := by
  cases o with
  | none => cases h
  | some a => rfl

theorem gen_eq {ε : Type} (x : Except ε (Option KeySchedule.Installed)) (k : KeySchedule.Keys6)
    (h : (match x with | .ok (some (.legacy k')) => decide (k' = k) | _ => false) = true) :
    x = .ok (some (.legacy k)) := by
  cases x with
  | error e => simp at h
  | ok o =>
    cases o with
    | none => simp at h
    | some i =>
      cases i with
      | legacy k' => simp only [decide_eq_true_eq] at h; rw [h]
      | tls13 _ => simp at h

/-- TLS_RSA_WITH_AES_128_GCM_SHA256 as the suite table resolves it, the key-log line, the key block -/
def ps0 : CipherSuite.Params := (CipherSuite.resolve (Bytes.beNat [0x00, 0x9c])).getD []
def a0 : Pipeline.SuiteArgs := (Pipeline.suiteArgs ps0).getD ⟨⟨.other, false, false, 0, .sha1⟩, .none, none⟩
def f0 : Keylog.Key :=
  ⟨Keylog.s_CLIENT_RANDOM, Keylog.hexOf (Pipeline.natsOfBytes cr0), Keylog.hexOf (List.replicate 48 5)⟩
def secrets0 : List KeySchedule.Secret := (Pipeline.secretsOf false [f0]).getD []
def k0 : KeySchedule.Keys6 :=
  match KeySchedule.generateKeys hashes .tls12 a0.ks secrets0 cr0 sr0 with
  | .ok (some (.legacy k)) => k
  | _ => ⟨[], [], [], [], [], []⟩
def fr : Fresh := ⟨iv8, [], [], 0⟩
def cls0 : CipherClass := .aead12 .aesgcm 16

/-- ClientHello, ServerHello; the client: ClientKeyExchange, CCS, Finished, "hi", an empty record; the server:
    Certificate…ServerHelloDone in one record, CCS, Finished, 16 bytes -/
def t0 : Transcript :=
  { ch := ch0, sh := sh12, rvC := [3, 1], rvS := [3, 3], ver := [3, 3],
    cEvs := [.clear [16, 0, 0, 2, 9, 9], .ccs, .enc 22 (20 :: 0 :: 0 :: 12 :: k16.take 12) fr, .enc 23 hi fr,
             .enc 23 [] fr],
    sEvs := [.clear [11, 0, 0, 3, 1, 2, 3, 14, 0, 0, 0], .ccs, .enc 22 (20 :: 0 :: 0 :: 12 :: k16.take 12) fr,
             .enc 23 k16 fr] }

def recsOfDir (d : Bool) : List Bytes := t0.records Cipher.Toy.prims Cipher.Toy.laws cls0 (legacySnd k0) d
def rC (i : Nat) : Bytes := (recsOfDir false).getD i []
def rS (i : Nat) : Bytes := (recsOfDir true).getD i []

/-- the capture: (from server?, payload, offset in the direction's stream). The ClientHello in two segments; the
    ServerHello and the certificate flight coalesced; the client's application data BEFORE the server's CCS/Finished
    (False Start) and retransmitted later; a server record split over two segments; the client's stream wraps 2^32. -/
def cap0 : List (Bool × Bytes × Nat) :=
  [(false, (rC 0).take 20, 0), (false, (rC 0).drop 20, 20), (true, rS 0 ++ rS 1, 0),
   (false, rC 1 ++ rC 2 ++ rC 3, 50), (false, rC 4, 112), (true, rS 2 ++ rS 3, 73), (true, (rS 4).take 10, 124),
   (false, rC 4, 112), (true, (rS 4).drop 10, 134), (false, rC 5, 143)]
def isnOf (d : Bool) : Nat := if d then 77 else 4294967290
def pktsCap : List MainLoop.Pkt := (List.range cap0.length).map fun i =>
  mkPkt (cap0.getD i (false, [], 0)).1 (cap0.getD i (false, [], 0)).2.1 i
def infoCap (tag : Nat) : Pipeline.Info :=
  ⟨(isnOf (cap0.getD tag (false, [], 0)).1 + (cap0.getD tag (false, [], 0)).2.2) % 4294967296, 1000 + tag, [1], [2], false⟩
def connCap : Pipeline.Conn := ⟨⟨[443], false, false, false, true, []⟩, sEp, cEp, [2], [1], false, pktsCap⟩

/-- the cut of each direction's stream that the capture shows -/
def chunksOf (d : Bool) : List Bytes :=
  if d then [rS 0 ++ rS 1, rS 2 ++ rS 3, (rS 4).take 10, (rS 4).drop 10]
  else [(rC 0).take 20, (rC 0).drop 20, rC 1 ++ rC 2 ++ rC 3, rC 4, rC 5]

theorem delivered0 : DeliveredInOrder infoCap connCap
    (t0.stream Cipher.Toy.prims Cipher.Toy.laws cls0 (legacySnd k0)) := by
  intro d
  cases d
  · refine ⟨⟨isnOf false, ?_⟩, by decide +kernel⟩
    have hcut : IsCut (t0.stream Cipher.Toy.prims Cipher.Toy.laws cls0 (legacySnd k0) false) (chunksOf false) :=
      ⟨by decide +kernel, by decide +kernel⟩
    have h := Delivers.cut (k := 0) (isn := isnOf false) (chunksOf false) hcut
    -- the retransmitted segment: an exact duplicate behind its original
    have hd := Delivers.dup (k := 0) (isn := isnOf false)
      ((segsOf (isnOf false) 0 (chunksOf false)).take 3) [] ((segsOf (isnOf false) 0 (chunksOf false)).drop 4)
      ((segsOf (isnOf false) 0 (chunksOf false)).getD 3 (0, []))
      (by
        have e : (segsOf (isnOf false) 0 (chunksOf false)).take 3 ++
            (segsOf (isnOf false) 0 (chunksOf false)).getD 3 (0, []) ::
              ([] ++ (segsOf (isnOf false) 0 (chunksOf false)).drop 4) = segsOf (isnOf false) 0 (chunksOf false) := by
          decide +kernel
        rw [e]; exact h)
    have e2 : (dirSegs infoCap connCap.server false connCap.pkts).map Props.C05.wire =
        (segsOf (isnOf false) 0 (chunksOf false)).take 3 ++
          (segsOf (isnOf false) 0 (chunksOf false)).getD 3 (0, []) ::
            ([] ++ (segsOf (isnOf false) 0 (chunksOf false)).getD 3 (0, []) ::
              (segsOf (isnOf false) 0 (chunksOf false)).drop 4) := by decide +kernel
    unfold InOrder
    rw [e2]; exact hd
  · refine ⟨⟨isnOf true, ?_⟩, by decide +kernel⟩
    have hcut : IsCut (t0.stream Cipher.Toy.prims Cipher.Toy.laws cls0 (legacySnd k0) true) (chunksOf true) :=
      ⟨by decide +kernel, by decide +kernel⟩
    have e2 : (dirSegs infoCap connCap.server true connCap.pkts).map Props.C05.wire
        = segsOf (isnOf true) 0 (chunksOf true) := by decide +kernel
    unfold InOrder
    rw [e2]; exact Delivers.cut _ hcut

theorem causal0 : Causal12 (connRecs infoCap connCap) :=
  ⟨(connRecs infoCap connCap).take 1, (connRecs infoCap connCap).drop 1, (List.take_append_drop 1 _).symm,
    by decide +kernel, by decide +kernel,
    ((connRecs infoCap connCap).drop 1).headD (⟨[], []⟩, false), ((connRecs infoCap connCap).drop 1).tail,
    by decide +kernel, by decide +kernel⟩

/-- every hypothesis of `tls12_connection_exact` holds for this connection (toy primitives, toy hashes with the real
    digest sizes, the regenerated suite table, the key-log line) — and so does its conclusion -/
theorem tls12_instance :
    ∃ frames, Pipeline.connOut hashes Cipher.Toy.prims infoCap connCap kl0
        = some (frames.map (Pipeline.addressed connCap.opts connCap)) ∧
      Spec.reassemble frames = some (hi, k16) ∧ TimesFromCarriers infoCap connCap frames := by
  have hres : CipherSuite.resolve (Bytes.beNat t0.sh.cipherSuite) = some ps0 := by decide +kernel
  have hargs : Pipeline.suiteArgs ps0 = some a0 := some_getD _ _ (by decide +kernel)
  have hfound : (Keylog.findSessionSecrets kl0 (Pipeline.natsOfBytes t0.ch.random)).filter
      (fun k => k.label == Keylog.s_CLIENT_RANDOM || k.label == Keylog.s_RSA) = f0 :: [] := by decide +kernel
  have hsec : Pipeline.secretsOf false (f0 :: []) = some secrets0 := by decide +kernel
  have hgen : KeySchedule.generateKeys hashes (Pipeline.ksVersion .tls12) a0.ks secrets0 t0.ch.random t0.sh.random
      = .ok (some (.legacy k0)) :=
    gen_eq (KeySchedule.generateKeys hashes .tls12 a0.ks secrets0 cr0 sr0) k0 (by decide +kernel)
  have hcls : classOf a0.bulk (Pipeline.rlVersion .tls12)
      (Session.extGet ((t0.sh.extensions.getD []).map extPair) [0x00, 0x16]).isSome a0.tagLen = some cls0 := by
    decide +kernel
  have hmac : 0 < (KeySchedule.macSuite hashes a0.ks.mac).outLen := by decide +kernel
  have hck : KeyMatOk cls0 k0.clientKey k0.clientIv := by decide +kernel
  have hsk : KeyMatOk cls0 k0.serverKey k0.serverIv := by decide +kernel
  have hokc : ∀ e ∈ t0.cEvs, EvOk1 cls0 (KeySchedule.macSuite hashes a0.ks.mac).outLen e := by decide +kernel
  have hoks : ∀ e ∈ t0.sEvs, EvOk1 cls0 (KeySchedule.macSuite hashes a0.ks.mac).outLen e := by decide +kernel
  have hwr : ∀ d, ∀ r ∈ t0.records Cipher.Toy.prims Cipher.Toy.laws cls0 (legacySnd k0) d, WholeRecord r := by
    intro d; cases d <;> decide +kernel
  have hlen : t0.cEvs.length + t0.sEvs.length ≤ seqLimit := by decide +kernel
  have hsc : Script12 t0.cEvs := ⟨[[16, 0, 0, 2, 9, 9]], _, rfl, by decide, by
    intro e he
    simp only [List.mem_cons, List.mem_nil_iff, or_false] at he
    rcases he with rfl | rfl | rfl <;> exact ⟨_, _, _, rfl, by decide⟩⟩
  have hss : Script12 t0.sEvs := ⟨[[11, 0, 0, 3, 1, 2, 3, 14, 0, 0, 0]], _, rfl, by decide, by
    intro e he
    simp only [List.mem_cons, List.mem_nil_iff, or_false] at he
    rcases he with rfl | rfl <;> exact ⟨_, _, _, rfl, by decide⟩⟩
  have h := tls12_connection_exact hashes Cipher.Toy.prims Cipher.Toy.laws kl0 infoCap connCap rfl t0
    (by decide) (by decide) rfl rfl rfl rfl .tls12 (by decide) (by unfold Negotiated; decide)
    ps0 hres a0 hargs f0 [] hfound secrets0 hsec k0 hgen cls0 hcls hmac hck hsk hsc hss hokc hoks hwr hlen
    delivered0 causal0
  have e : (Spec.TlsConnection.plainOf t0.cEvs, Spec.TlsConnection.plainOf t0.sEvs) = (hi, k16) := by decide
  rw [e] at h
  exact h

/-- COUNTEREXAMPLE INPUT. As `t0`, but the server's clear-text handshake record begins with byte 01 (e.g. the
    continuation fragment of a Certificate message cut after a byte 01): `handle_tls_handshake_record` takes it for a
    ClientHello, `can_decrypt` becomes False and nothing is exported.
    ClientHello, ServerHello; the client: ClientKeyExchange, CCS, Finished, "hi", an empty record; the server:
    Certificate…ServerHelloDone in one record, CCS, Finished, 16 bytes -/
def t1 : Transcript :=
  { ch := ch0, sh := sh12, rvC := [3, 1], rvS := [3, 3], ver := [3, 3],
    cEvs := [.clear [16, 0, 0, 2, 9, 9], .ccs, .enc 22 (20 :: 0 :: 0 :: 12 :: k16.take 12) fr, .enc 23 hi fr,
             .enc 23 [] fr],
    sEvs := [.clear [1, 0, 0, 3, 1, 2, 3, 14, 0, 0, 0], .ccs, .enc 22 (20 :: 0 :: 0 :: 12 :: k16.take 12) fr,
             .enc 23 k16 fr] }

def recsOfDir1 (d : Bool) : List Bytes := t1.records Cipher.Toy.prims Cipher.Toy.laws cls0 (legacySnd k0) d
def rC1 (i : Nat) : Bytes := (recsOfDir1 false).getD i []
def rS1 (i : Nat) : Bytes := (recsOfDir1 true).getD i []

/-- the capture: (from server?, payload, offset in the direction's stream). The ClientHello in two segments; the
    ServerHello and the certificate flight coalesced; the client's application data BEFORE the server's CCS/Finished
    (False Start) and retransmitted later; a server record split over two segments; the client's stream wraps 2^32. -/
def cap1 : List (Bool × Bytes × Nat) :=
  [(false, (rC1 0).take 20, 0), (false, (rC1 0).drop 20, 20), (true, rS1 0 ++ rS1 1, 0),
   (false, rC1 1 ++ rC1 2 ++ rC1 3, 50), (false, rC1 4, 112), (true, rS1 2 ++ rS1 3, 73), (true, (rS1 4).take 10, 124),
   (false, rC1 4, 112), (true, (rS1 4).drop 10, 134), (false, rC1 5, 143)]
def pktsCap1 : List MainLoop.Pkt := (List.range cap1.length).map fun i =>
  mkPkt (cap1.getD i (false, [], 0)).1 (cap1.getD i (false, [], 0)).2.1 i
def infoCap1 (tag : Nat) : Pipeline.Info :=
  ⟨(isnOf (cap1.getD tag (false, [], 0)).1 + (cap1.getD tag (false, [], 0)).2.2) % 4294967296, 1000 + tag, [1], [2], false⟩
def connCap1 : Pipeline.Conn := ⟨⟨[443], false, false, false, true, []⟩, sEp, cEp, [2], [1], false, pktsCap1⟩

/-- the cut of each direction's stream that the capture shows -/
def chunksOf1 (d : Bool) : List Bytes :=
  if d then [rS1 0 ++ rS1 1, rS1 2 ++ rS1 3, (rS1 4).take 10, (rS1 4).drop 10]
  else [(rC1 0).take 20, (rC1 0).drop 20, rC1 1 ++ rC1 2 ++ rC1 3, rC1 4, rC1 5]

theorem delivered1 : DeliveredInOrder infoCap1 connCap1
    (t1.stream Cipher.Toy.prims Cipher.Toy.laws cls0 (legacySnd k0)) := by
  intro d
  cases d
  · refine ⟨⟨isnOf false, ?_⟩, by decide +kernel⟩
    have hcut : IsCut (t1.stream Cipher.Toy.prims Cipher.Toy.laws cls0 (legacySnd k0) false) (chunksOf1 false) :=
      ⟨by decide +kernel, by decide +kernel⟩
    have h := Delivers.cut (k := 0) (isn := isnOf false) (chunksOf1 false) hcut
    -- the retransmitted segment: an exact duplicate behind its original
    have hd := Delivers.dup (k := 0) (isn := isnOf false)
      ((segsOf (isnOf false) 0 (chunksOf1 false)).take 3) [] ((segsOf (isnOf false) 0 (chunksOf1 false)).drop 4)
      ((segsOf (isnOf false) 0 (chunksOf1 false)).getD 3 (0, []))
      (by
        have e : (segsOf (isnOf false) 0 (chunksOf1 false)).take 3 ++
            (segsOf (isnOf false) 0 (chunksOf1 false)).getD 3 (0, []) ::
              ([] ++ (segsOf (isnOf false) 0 (chunksOf1 false)).drop 4) = segsOf (isnOf false) 0 (chunksOf1 false) := by
          decide +kernel
        rw [e]; exact h)
    have e2 : (dirSegs infoCap1 connCap1.server false connCap1.pkts).map Props.C05.wire =
        (segsOf (isnOf false) 0 (chunksOf1 false)).take 3 ++
          (segsOf (isnOf false) 0 (chunksOf1 false)).getD 3 (0, []) ::
            ([] ++ (segsOf (isnOf false) 0 (chunksOf1 false)).getD 3 (0, []) ::
              (segsOf (isnOf false) 0 (chunksOf1 false)).drop 4) := by decide +kernel
    unfold InOrder
    rw [e2]; exact hd
  · refine ⟨⟨isnOf true, ?_⟩, by decide +kernel⟩
    have hcut : IsCut (t1.stream Cipher.Toy.prims Cipher.Toy.laws cls0 (legacySnd k0) true) (chunksOf1 true) :=
      ⟨by decide +kernel, by decide +kernel⟩
    have e2 : (dirSegs infoCap1 connCap1.server true connCap1.pkts).map Props.C05.wire
        = segsOf (isnOf true) 0 (chunksOf1 true) := by decide +kernel
    unfold InOrder
    rw [e2]; exact Delivers.cut _ hcut

theorem causal1 : Causal12 (connRecs infoCap1 connCap1) :=
  ⟨(connRecs infoCap1 connCap1).take 1, (connRecs infoCap1 connCap1).drop 1, (List.take_append_drop 1 _).symm,
    by decide +kernel, by decide +kernel,
    ((connRecs infoCap1 connCap1).drop 1).headD (⟨[], []⟩, false), ((connRecs infoCap1 connCap1).drop 1).tail,
    by decide +kernel, by decide +kernel⟩

/-- the full-strength statement fails: every hypothesis holds for `t1` and its capture, but the tool exports nothing -/
theorem tls12_connection_exact_counterexample : ¬ tls12_connection_exact_statement := by
  intro hst
  have hres : CipherSuite.resolve (Bytes.beNat t1.sh.cipherSuite) = some ps0 := by decide +kernel
  have hargs : Pipeline.suiteArgs ps0 = some a0 := some_getD _ _ (by decide +kernel)
  have hfound : (Keylog.findSessionSecrets kl0 (Pipeline.natsOfBytes t1.ch.random)).filter
      (fun k => k.label == Keylog.s_CLIENT_RANDOM || k.label == Keylog.s_RSA) = f0 :: [] := by decide +kernel
  have hsec : Pipeline.secretsOf false (f0 :: []) = some secrets0 := by decide +kernel
  have hgen : KeySchedule.generateKeys hashes (Pipeline.ksVersion .tls12) a0.ks secrets0 t1.ch.random t1.sh.random
      = .ok (some (.legacy k0)) :=
    gen_eq (KeySchedule.generateKeys hashes .tls12 a0.ks secrets0 cr0 sr0) k0 (by decide +kernel)
  have hcls : classOf a0.bulk (Pipeline.rlVersion .tls12)
      (Session.extGet ((t1.sh.extensions.getD []).map extPair) [0x00, 0x16]).isSome a0.tagLen = some cls0 := by
    decide +kernel
  have hmac : 0 < (KeySchedule.macSuite hashes a0.ks.mac).outLen := by decide +kernel
  have hck : KeyMatOk cls0 k0.clientKey k0.clientIv := by decide +kernel
  have hsk : KeyMatOk cls0 k0.serverKey k0.serverIv := by decide +kernel
  have hokc : ∀ e ∈ t1.cEvs, EvOk1 cls0 (KeySchedule.macSuite hashes a0.ks.mac).outLen e := by decide +kernel
  have hoks : ∀ e ∈ t1.sEvs, EvOk1 cls0 (KeySchedule.macSuite hashes a0.ks.mac).outLen e := by decide +kernel
  have hwr : ∀ d, ∀ r ∈ t1.records Cipher.Toy.prims Cipher.Toy.laws cls0 (legacySnd k0) d, WholeRecord r := by
    intro d; cases d <;> decide +kernel
  have hlen : t1.cEvs.length + t1.sEvs.length ≤ seqLimit := by decide +kernel
  have hsc : Script12Loose t1.cEvs := ⟨[[16, 0, 0, 2, 9, 9]], _, rfl, by
    intro e he
    simp only [List.mem_cons, List.mem_nil_iff, or_false] at he
    rcases he with rfl | rfl | rfl <;> exact ⟨_, _, _, rfl, by decide⟩⟩
  have hss : Script12Loose t1.sEvs := ⟨[[1, 0, 0, 3, 1, 2, 3, 14, 0, 0, 0]], _, rfl, by
    intro e he
    simp only [List.mem_cons, List.mem_nil_iff, or_false] at he
    rcases he with rfl | rfl <;> exact ⟨_, _, _, rfl, by decide⟩⟩
  have h := hst hashes Cipher.Toy.prims Cipher.Toy.laws kl0 infoCap1 connCap1 rfl t1
    (by decide) (by decide) rfl rfl rfl rfl .tls12 (by decide) (by unfold Negotiated; decide)
    ps0 hres a0 hargs f0 [] hfound secrets0 hsec k0 hgen cls0 hcls hmac hck hsk hsc hss hokc hoks hwr hlen
    delivered1 causal1
  obtain ⟨frames, h1, h2, _⟩ := h
  have hout : Pipeline.connOut hashes Cipher.Toy.prims infoCap1 connCap1 kl0 = some [] := by decide +kernel
  rw [hout] at h1
  have hf : frames = [] := by
    cases frames with
    | nil => rfl
    | cons f fs => simp at h1
  rw [hf] at h2
  have : Spec.TlsConnection.plainOf t1.cEvs = [] := by
    have := congrArg (fun o => o.map Prod.fst) h2
    simpa [Spec.reassemble] using this.symm
  exact absurd this (by decide)

-- ---------------------------------------------------------------------- one TLS 1.3 connection, all hypotheses
/-- the four traffic secrets of the connection -/
def kl13 : List Keylog.Key :=
  [⟨Keylog.s_CHTS, Keylog.hexOf (Pipeline.natsOfBytes cr0), Keylog.hexOf (List.replicate 32 1)⟩,
   ⟨Keylog.s_SHTS, Keylog.hexOf (Pipeline.natsOfBytes cr0), Keylog.hexOf (List.replicate 32 2)⟩,
   ⟨Keylog.s_CTS0, Keylog.hexOf (Pipeline.natsOfBytes cr0), Keylog.hexOf (List.replicate 32 3)⟩,
   ⟨Keylog.s_STS0, Keylog.hexOf (Pipeline.natsOfBytes cr0), Keylog.hexOf (List.replicate 32 4)⟩]
def ps13 : CipherSuite.Params := (CipherSuite.resolve (Bytes.beNat [0x13, 0x01])).getD []
def a13 : Pipeline.SuiteArgs := (Pipeline.suiteArgs ps13).getD ⟨⟨.other, false, false, 0, .sha1⟩, .none, none⟩
def secrets13 : List KeySchedule.Secret := (Pipeline.secretsOf true kl13).getD []
def k13 : KeySchedule.Installed13 :=
  match KeySchedule.generateKeys hashes .tls13 a13.ks secrets13 cr0 sr0 with
  | .ok (some (.tls13 k)) => k
  | _ => ⟨none, none, none, none, none, none, none, none, none, none, none, none⟩

theorem gen_eq13 {ε : Type} (x : Except ε (Option KeySchedule.Installed)) (k : KeySchedule.Installed13)
    (h : (match x with | .ok (some (.tls13 k')) => decide (k' = k) | _ => false) = true) :
    x = .ok (some (.tls13 k)) := by
  cases x with
  | error e => simp at h
  | ok o =>
    cases o with
    | none => simp at h
    | some i =>
      cases i with
      | legacy _ => simp at h
      | tls13 k' => simp only [decide_eq_true_eq] at h; rw [h]

def x13 : Snd :=
  ⟨SDir.init (k13.clientHsKey.getD []) (k13.clientHsIv.getD []) (k13.clientAppKey.getD []) (k13.clientAppIv.getD []),
   SDir.init (k13.serverHsKey.getD []) (k13.serverHsIv.getD []) (k13.serverAppKey.getD []) (k13.serverAppIv.getD [])⟩
def cls13 : CipherClass := .aead13 .aesgcm 16

/-- ClientHello, ServerHello; the server: dummy CCS, EncryptedExtensions…Finished in one record (padded), a
    NewSessionTicket (type 4) in the application epoch, 16 bytes; the client: dummy CCS, Finished, "hi" -/
def t13 : Transcript :=
  { ch := ch0, sh := sh13, rvC := [3, 1], rvS := [3, 3], ver := [3, 3],
    cEvs := [.ccs, .hs13 [C01Pipeline.Ex.fin] ⟨[], [], [], 0⟩, .enc 23 hi ⟨[], [], [], 5⟩],
    sEvs := [.ccs, .hs13 C01Pipeline.Ex.sflight ⟨[], [], [], 2⟩, .hs13 [(4, k24)] ⟨[], [], [], 0⟩,
             .enc 23 k16 ⟨[], [], [], 3⟩] }

def recs13 (d : Bool) : List Bytes := t13.records Cipher.Toy.prims Cipher.Toy.laws cls13 x13 d
def qC (i : Nat) : Bytes := (recs13 false).getD i []
def qS (i : Nat) : Bytes := (recs13 true).getD i []

/-- the capture: the ServerHello segment ends in the middle of the server's Finished flight; the rest of the flight and
    the ticket share a segment; the client's CCS and Finished share one -/
def cap13 : List (Bool × Bytes × Nat) :=
  [(false, qC 0, 0), (true, qS 0 ++ qS 1 ++ (qS 2).take 10, 0),
   (true, (qS 2).drop 10 ++ qS 3, (qS 0).length + (qS 1).length + 10), (false, qC 1 ++ qC 2, (qC 0).length),
   (false, qC 3, (qC 0).length + (qC 1).length + (qC 2).length),
   (true, qS 4, (qS 0).length + (qS 1).length + (qS 2).length + (qS 3).length)]
def pkts13 : List MainLoop.Pkt := (List.range cap13.length).map fun i =>
  mkPkt (cap13.getD i (false, [], 0)).1 (cap13.getD i (false, [], 0)).2.1 i
def info13 (tag : Nat) : Pipeline.Info :=
  ⟨(isnOf (cap13.getD tag (false, [], 0)).1 + (cap13.getD tag (false, [], 0)).2.2) % 4294967296, 1000 + tag, [1], [2], false⟩
def conn13 : Pipeline.Conn := ⟨⟨[443], false, false, false, true, []⟩, sEp, cEp, [2], [1], false, pkts13⟩
def chunks13 (d : Bool) : List Bytes :=
  if d then [qS 0 ++ qS 1 ++ (qS 2).take 10, (qS 2).drop 10 ++ qS 3, qS 4] else [qC 0, qC 1 ++ qC 2, qC 3]

theorem delivered13 : DeliveredInOrder info13 conn13 (t13.stream Cipher.Toy.prims Cipher.Toy.laws cls13 x13) := by
  intro d
  cases d
  · refine ⟨⟨isnOf false, ?_⟩, by decide +kernel⟩
    have hcut : IsCut (t13.stream Cipher.Toy.prims Cipher.Toy.laws cls13 x13 false) (chunks13 false) :=
      ⟨by decide +kernel, by decide +kernel⟩
    have e2 : (dirSegs info13 conn13.server false conn13.pkts).map Props.C05.wire
        = segsOf (isnOf false) 0 (chunks13 false) := by decide +kernel
    unfold InOrder
    rw [e2]; exact Delivers.cut _ hcut
  · refine ⟨⟨isnOf true, ?_⟩, by decide +kernel⟩
    have hcut : IsCut (t13.stream Cipher.Toy.prims Cipher.Toy.laws cls13 x13 true) (chunks13 true) :=
      ⟨by decide +kernel, by decide +kernel⟩
    have e2 : (dirSegs info13 conn13.server true conn13.pkts).map Props.C05.wire
        = segsOf (isnOf true) 0 (chunks13 true) := by decide +kernel
    unfold InOrder
    rw [e2]; exact Delivers.cut _ hcut

theorem causal13 : Causal13 (connRecs info13 conn13) :=
  ⟨(connRecs info13 conn13).headD (⟨[], []⟩, false), ((connRecs info13 conn13).drop 1).headD (⟨[], []⟩, false),
    (connRecs info13 conn13).drop 2, by decide +kernel, by decide +kernel, by decide +kernel⟩

/-- every hypothesis of `tls13_connection_exact` holds for this connection — and so does its conclusion -/
theorem tls13_instance :
    ∃ frames, Pipeline.connOut hashes Cipher.Toy.prims info13 conn13 kl13
        = some (frames.map (Pipeline.addressed conn13.opts conn13)) ∧
      Spec.reassemble frames = some (hi, k16) ∧ TimesFromCarriers info13 conn13 frames := by
  have hres : CipherSuite.resolve (Bytes.beNat t13.sh.cipherSuite) = some ps13 := by decide +kernel
  have hargs : Pipeline.suiteArgs ps13 = some a13 := some_getD _ _ (by decide +kernel)
  have hfound : Keylog.findSessionSecrets kl13 (Pipeline.natsOfBytes t13.ch.random)
      = kl13.headD ⟨[], [], []⟩ :: kl13.tail := by decide +kernel
  have hsec : Pipeline.secretsOf true (kl13.headD ⟨[], [], []⟩ :: kl13.tail) = some secrets13 := by decide +kernel
  have hgen : KeySchedule.generateKeys hashes .tls13 a13.ks secrets13 t13.ch.random t13.sh.random
      = .ok (some (.tls13 k13)) :=
    gen_eq13 (KeySchedule.generateKeys hashes .tls13 a13.ks secrets13 cr0 sr0) k13 (by decide +kernel)
  have hcls : classOf a13.bulk .tls13
      (Session.extGet ((t13.sh.extensions.getD []).map extPair) [0x00, 0x16]).isSome a13.tagLen = some cls13 := by
    decide +kernel
  have hokc : ∀ e ∈ t13.cEvs, EvOk1 cls13 (KeySchedule.macSuite hashes a13.ks.mac).outLen e := by decide +kernel
  have hoks : ∀ e ∈ t13.sEvs, EvOk1 cls13 (KeySchedule.macSuite hashes a13.ks.mac).outLen e := by decide +kernel
  have hwr : ∀ d, ∀ r ∈ t13.records Cipher.Toy.prims Cipher.Toy.laws cls13 x13 d, WholeRecord r := by
    intro d; cases d <;> decide +kernel
  have hlen : budget13 t13 ≤ seqLimit := by decide +kernel
  have hsc : Script13 t13.cEvs := by
    intro e he
    simp only [t13, List.mem_cons, List.mem_nil_iff, or_false] at he
    rcases he with rfl | rfl | rfl
    · exact Or.inl rfl
    · exact Or.inr (Or.inl ⟨_, _, rfl⟩)
    · exact Or.inr (Or.inr ⟨_, _, rfl⟩)
  have hss : Script13 t13.sEvs := by
    intro e he
    simp only [t13, List.mem_cons, List.mem_nil_iff, or_false] at he
    rcases he with rfl | rfl | rfl | rfl
    · exact Or.inl rfl
    · exact Or.inr (Or.inl ⟨_, _, rfl⟩)
    · exact Or.inr (Or.inl ⟨_, _, rfl⟩)
    · exact Or.inr (Or.inr ⟨_, _, rfl⟩)
  have h := tls13_connection_exact hashes Cipher.Toy.prims Cipher.Toy.laws kl13 info13 conn13 rfl t13
    (by decide) (by decide) rfl rfl rfl rfl (by unfold Negotiated; decide)
    ps13 hres a13 hargs _ _ hfound secrets13 hsec k13 hgen
    (k13.clientHsKey.getD []) (k13.clientHsIv.getD []) (k13.clientAppKey.getD []) (k13.clientAppIv.getD [])
    (k13.serverHsKey.getD []) (k13.serverHsIv.getD []) (k13.serverAppKey.getD []) (k13.serverAppIv.getD [])
    (by decide +kernel) cls13 hcls (by decide +kernel) (by decide +kernel) (by decide +kernel) (by decide +kernel)
    hsc hss hokc hoks hwr hlen delivered13 causal13
  have e : (Spec.TlsConnection.plainOf t13.cEvs, Spec.TlsConnection.plainOf t13.sEvs) = (hi, k16) := by decide
  rw [e] at h
  exact h

-- ---------------------------------------------------------------------- what fails outside the hypotheses
def pktsOf (cap : List (Bool × Bytes × Nat)) : List MainLoop.Pkt := (List.range cap.length).map fun i =>
  mkPkt (cap.getD i (false, [], 0)).1 (cap.getD i (false, [], 0)).2.1 i
def infoOf (cap : List (Bool × Bytes × Nat)) (tag : Nat) : Pipeline.Info :=
  ⟨(isnOf (cap.getD tag (false, [], 0)).1 + (cap.getD tag (false, [], 0)).2.2) % 4294967296, 1000 + tag, [1], [2], false⟩
def connOf (cap : List (Bool × Bytes × Nat)) : Pipeline.Conn :=
  ⟨⟨[443], false, false, false, true, []⟩, sEp, cEp, [2], [1], false, pktsOf cap⟩
def outOf (cap : List (Bool × Bytes × Nat)) := view (Pipeline.connOut hashes Cipher.Toy.prims (infoOf cap) (connOf cap) kl0)

-- `Causal12` is needed, both halves. The same segments as `cap0`, each direction still in order, but
-- (1) the ServerHello segment captured before the ClientHello: nothing is exported;
example : outOf ([cap0.getD 2 default, cap0.getD 0 default, cap0.getD 1 default] ++ cap0.drop 3) = some [] := by
  decide +kernel
-- (2) the client's ClientKeyExchange / ChangeCipherSpec / Finished segment captured before the ServerHello: nothing;
example : outOf ([cap0.getD 0 default, cap0.getD 1 default, cap0.getD 3 default, cap0.getD 2 default] ++ cap0.drop 4)
    = some [] := by decide +kernel
-- whereas the capture order of `cap0` (a client record between the two hellos would also be fine) exports everything
example : outOf cap0 = some [(1004, hi), (1006, k16.take 8), (1008, k16.drop 8)] := by decide +kernel

/-- TLS 1.3, RFC 8446 §5.1 "handshake messages MAY be … fragmented across several records": the server's flight
    EncryptedExtensions ‖ Certificate ‖ Finished as one byte stream, cut after `cut` bytes into two protected records
    (`cut = 0`: one record), then the switch to the application keys and 16 bytes of application data -/
def flightBytes : Bytes :=
  encMsgs [(8, [0, 0]), (11, [9, 9, 0, 0xff, 0xff, 0xff, 7, 7]), C01Pipeline.Ex.fin]
def fragRun (cut : Nat) : Option (List (Option Bytes × Bool × Bool)) :=
  match Dec.init Cipher.Toy.prims .aesgcm .tls13 32 (some 16) 128 false
      { cHsKey := some k16, sHsKey := some k16', cAppKey := some k16', sAppKey := some k16,
        cHsIv := some iv12, sHsIv := some iv12, cAppIv := some iv12, sAppIv := some iv12 } with
  | .ok d =>
    some ((Session.run (Pipeline.ops Crypto.toyPrims Cipher.Toy.prims []) false (C01Pipeline.Ex.sessOf d .tls13)
      (wireRecs (run Cipher.Toy.prims Cipher.Toy.laws (.aead13 .aesgcm 16) [3, 3]
          ⟨SDir.init k16 iv12 k16' iv12, SDir.init k16' iv12 k16 iv12⟩
          ((if cut = 0 then [Ev.send true 22 flightBytes ⟨[], [], [], 0⟩]
            else [Ev.send true 22 (flightBytes.take cut) ⟨[], [], [], 0⟩,
                  Ev.send true 22 (flightBytes.drop cut) ⟨[], [], [], 0⟩])
            ++ [.switch true, .send true 23 k16 ⟨[], [], [], 0⟩]))
        [[1], [2], [3]])).traffic.map fun e => (e.data, e.fromServer, e.isApp))
  | .error _ => none
-- whole messages per record (the hypothesis inside `DirEv.hs13`): exact
example : fragRun 0 = some [(some k16, true, true)] := by decide +kernel
-- the same flight cut inside the Certificate (the second record starts 00 ff ff ff …): BEFORE the repair of
-- `handle_decrypted_tls_13_handshake_record` (per-record walk, `Session.Legacy.hs13Loop`) the Finished was missed and
-- the server's application data lost (`Ex2.legacy_tls13_fragmented_counterexample`); with the per-direction buffer it
-- is exported
example : fragRun 12 = some [(some k16, true, true)] := by decide +kernel

-- … consistent with evaluating the model on the same packets
example : view (Pipeline.connOut hashes Cipher.Toy.prims infoCap connCap kl0)
    = some [(1004, hi), (1006, k16.take 8), (1008, k16.drop 8)] := by decide +kernel

end Ex

end TLX.Props.C01Capstone
