/-
C17 — QUIC frames are parsed exactly; arbitrary bytes cannot hang the parser.

"Any sequence of well-formed QUIC frames is split into exactly those frames - type, length, stream
id/offset/fin/data, crypto offset/data, connection id - with every payload byte accounted for exactly
once; on arbitrary bytes the parser terminates, either returning frames or signalling an error, and
never loops or invents data beyond the packet."

Model:  TLX/Quic/Varint.lean, TLX/Quic/Frame.lean (parse_frames and every frame class of
        tlexport/quic/quic_frame.py, dispatch through TLX/Gen/FrameTable.lean regenerated from the source).
Spec:   TLX/Spec/QuicFrames.lean (RFC 9000 §16/§19, RFC 9221 §4 encoder, all varint widths, all STREAM flags),
        TLX/Spec/QuicFramesExpect.lean (what a correct parser reports: `toParsed`, `dataAt`, `startOf`).
Property theorems only; helper lemmas are in TLX/Lemmas/Quic*.lean. All statements are for all inputs.

Termination ("cannot hang") is carried by the *definition* of `parseFrames` (well-founded recursion on
the remaining length, accepted only because every constructed frame has length ≥ 1:
`Frame.parseOne_length_pos`); `parse_total` and `parse_progress` state its consequences.
-/
import TLX.Lemmas.QuicFrameAcct
namespace TLX.Props.C17
open TLX TLX.Quic TLX.Quic.Varint TLX.Quic.Frame TLX.Spec.QuicFrames

/-! ### variable-length integers -/

/-- RFC 9000 §16 round trip, every width (1/2/4/8 bytes; minimal or not), anything after the integer:
    `get_variable_length_int_length` returns the width and `decode_variable_length_int` the value —
    on the bytes from the integer on, and on exactly its `w` bytes. -/
theorem varint_roundtrip (x : VW) (v : Nat) (hv : x.fits v) (tail : Bytes) :
    getVarintLength (x.enc v ++ tail) = some x.w ∧
    decodeVarint (x.enc v ++ tail) = some v ∧
    decodeVarint ((x.enc v ++ tail).take x.w) = some v := by
  obtain ⟨b, rest, hb, hlen, hdec⟩ := Lemmas.QuicVarint.decode_enc x v hv tail
  refine ⟨by rw [hb]; simp [getVarintLength, hlen], ?_, hdec⟩
  have h := Lemmas.QuicVarint.readVarint_encW (x.enc v ++ tail) [] tail x v 0 hv rfl rfl
  rw [readVarint_eq, List.drop_zero, hb] at h
  rw [hb]
  simp only [decodeVarint]
  by_cases hlt : rest.length < varintLen b - 1
  · simp [hlt] at h
  · simp only [hlt, if_false, Option.some.injEq, Prod.mk.injEq] at h
    rw [if_neg hlt, h.1]

/-- The reading idiom of the frame classes (`self.length += get_…_length(payload[i:i+1]);
    v = decode_…(payload[i:self.length])`) at any index of any payload that has the integer there. -/
theorem readVarint_roundtrip (pre tail : Bytes) (x : VW) (v : Nat) (hv : x.fits v) :
    readVarint (pre ++ (x.enc v ++ tail)) pre.length = some (v, pre.length + x.w) :=
  Lemmas.QuicVarint.readVarint_encW _ pre tail x v _ hv rfl rfl

/-! ### one frame -/

/-- Every frame type of RFC 9000 §19 / RFC 9221 at once: the loop body of `parse_frames`, run on the
    wire image of a well-formed frame followed by arbitrary bytes, constructs exactly that frame — class,
    type byte, length = length of the wire image, every integer field, every byte-string field.
    (A frame without explicit length must be followed by nothing; a PADDING run by something that is
    not another PADDING byte — otherwise the run is longer, see `frames_roundtrip`.) -/
theorem parseOne_encode (f : QFrame) (hwf : f.wf) (tail : Bytes) (hg : f.greedy = true → tail = [])
    (hpad : f.isPadding = true → tail.head? ≠ some 0) :
    parseOne (f.encode ++ tail) = some f.toParsed :=
  Lemmas.QuicFrames.parseOne_encode f hwf tail hg hpad

/-- … in particular the length reported is the number of bytes the frame occupies. -/
theorem parsed_length_eq_encoded (f : QFrame) (hwf : f.wf) : f.toParsed.length = f.encode.length :=
  Lemmas.QuicFrameSeq.toParsed_length f hwf

-- The per-type readings of `parseOne_encode` (frames with an explicit extent: any bytes may follow).
theorem parseOne_ping (tail : Bytes) : parseOne ([0x01] ++ tail) = some .ping :=
  parseOne_encode .ping trivial tail (by simp [QFrame.greedy]) (by simp [QFrame.isPadding])

theorem parseOne_handshakeDone (tail : Bytes) : parseOne ([0x1e] ++ tail) = some .handshakeDone :=
  parseOne_encode .handshakeDone trivial tail (by simp [QFrame.greedy]) (by simp [QFrame.isPadding])

theorem parseOne_padding (n : Nat) (hn : 1 ≤ n) (tail : Bytes) (ht : tail.head? ≠ some 0) :
    parseOne (List.replicate n 0 ++ tail) = some (.padding n) :=
  parseOne_encode (.padding n) hn tail (by simp [QFrame.greedy]) (fun _ => ht)

theorem parseOne_crypto (off : VI) (lenW : VW) (data tail : Bytes) (h1 : off.ok) (h2 : lenW.fits data.length) :
    parseOne ([0x06] ++ off.enc ++ lenW.enc data.length ++ data ++ tail) =
      some (.crypto (1 + off.w.w + lenW.w + data.length) off.val data.length data) := by
  have := parseOne_encode (.crypto off lenW data) ⟨h1, h2⟩ tail (by simp [QFrame.greedy]) (by simp [QFrame.isPadding])
  simp only [QFrame.toParsed, QFrame.encode] at this
  rw [this]
  congr 2
  simp [Lemmas.QuicVarint.VI.enc_length, Lemmas.QuicVarint.VW.enc_length]; omega

/-- STREAM, all eight flag combinations (FIN any; OFF = `off.isSome`; LEN = `lenW.isSome`). -/
theorem parseOne_stream (fin : Bool) (sid : VI) (off : Option VI) (lenW : Option VW) (data tail : Bytes)
    (h : (QFrame.stream fin sid off lenW data).wf) (hg : lenW = none → tail = []) :
    parseOne ((QFrame.stream fin sid off lenW data).encode ++ tail) =
      some (.stream (streamType fin lenW.isSome off.isSome) (QFrame.stream fin sid off lenW data).encode.length
        fin lenW.isSome off.isSome sid.val ((optVal off).getD 0) data.length data) :=
  parseOne_encode _ h tail (by cases lenW <;> simp_all [QFrame.greedy]) (by simp [QFrame.isPadding])

theorem parseOne_newConnectionId (seq rpt : VI) (cid tok tail : Bytes)
    (h : (QFrame.newConnectionId seq rpt cid tok).wf) :
    parseOne ((QFrame.newConnectionId seq rpt cid tok).encode ++ tail) =
      some (.newConnectionId (QFrame.newConnectionId seq rpt cid tok).encode.length seq.val rpt.val cid.length cid tok) :=
  parseOne_encode _ h tail (by simp [QFrame.greedy]) (by simp [QFrame.isPadding])

/-- ACK / ACK_ECN with any number of ranges. -/
theorem parseOne_ack (largest delay : VI) (cntW : VW) (first : VI) (ranges : List (VI × VI))
    (ecn : Option (VI × VI × VI)) (tail : Bytes) (h : (QFrame.ack largest delay cntW first ranges ecn).wf) :
    parseOne ((QFrame.ack largest delay cntW first ranges ecn).encode ++ tail) =
      some (.ack (if ecn.isSome then 3 else 2) (QFrame.ack largest delay cntW first ranges ecn).encode.length
        largest.val delay.val ranges.length first.val (ranges.map rangeVals) (ecnVals ecn)) :=
  parseOne_encode _ h tail (by simp [QFrame.greedy]) (by simp [QFrame.isPadding])

theorem parseOne_connectionClose (err : VI) (ft : Option VI) (lenW : VW) (reason tail : Bytes)
    (h : (QFrame.connectionClose err ft lenW reason).wf) :
    parseOne ((QFrame.connectionClose err ft lenW reason).encode ++ tail) =
      some (.connectionClose (if ft.isSome then 0x1c else 0x1d) (QFrame.connectionClose err ft lenW reason).encode.length
        err.val (optVal ft) reason.length reason) :=
  parseOne_encode _ h tail (by simp [QFrame.greedy]) (by simp [QFrame.isPadding])

theorem parseOne_datagram (lenW : Option VW) (data tail : Bytes) (h : (QFrame.datagram lenW data).wf)
    (hg : lenW = none → tail = []) :
    parseOne ((QFrame.datagram lenW data).encode ++ tail) =
      some (.datagram (if lenW.isSome then 0x31 else 0x30) (QFrame.datagram lenW data).encode.length lenW.isSome data) :=
  parseOne_encode _ h tail (by cases lenW <;> simp_all [QFrame.greedy]) (by simp [QFrame.isPadding])

/-! ### sequences of frames -/

/-- C17, first half: any well-formed sequence of frames (any types, any order, any varint widths; frames
    without explicit length only last) is split into exactly those frames, consecutive PADDING frames
    being reported as one run. -/
theorem frames_roundtrip (fs : List QFrame) (h : WellFormedSeq fs) :
    parseFrames (encodeAll fs) = some ((normalize fs).map QFrame.toParsed) :=
  Lemmas.QuicFrameSeq.frames_roundtrip fs h

/-- Normalisation does not change the payload, only how PADDING is grouped. -/
theorem normalize_same_payload (fs : List QFrame) : encodeAll (normalize fs) = encodeAll fs :=
  Lemmas.QuicFrameSeq.encodeAll_normalize fs

/-- C17, "every payload byte accounted for exactly once": for a well-formed sequence the returned
    frames' lengths sum to the payload length (the extents `[startOf ps i, startOf ps i + length)` tile the
    payload), and every byte-string attribute is the contiguous payload slice that lies inside its own
    frame's extent at the place the frame's integer attributes give; several attributes of one frame
    (NEW_CONNECTION_ID) are ordered and disjoint. -/
theorem bytes_accounted_once (fs : List QFrame) (h : WellFormedSeq fs) :
    ∃ ps, parseFrames (encodeAll fs) = some ps ∧
      (ps.map Parsed.length).sum = (encodeAll fs).length ∧
      ∀ i (hi : i < ps.length),
        (∀ ad ∈ (ps[i]).dataAt,
          ad.1 + ad.2.length ≤ (ps[i]).length ∧
          Bytes.slice (encodeAll fs) (startOf ps i + ad.1) (startOf ps i + ad.1 + ad.2.length) = ad.2) ∧
        (ps[i]).dataAt.Pairwise (fun x y => x.1 + x.2.length ≤ y.1) := by
  refine ⟨_, frames_roundtrip fs h, ?_⟩
  have := Lemmas.QuicFrameAcct.accounted (normalize fs)
    (Lemmas.QuicFrameAcct.wfSeq_all _ (Lemmas.QuicFrameSeq.normalize_wf fs h))
  rw [Lemmas.QuicFrameSeq.encodeAll_normalize] at this
  exact this

/-! ### arbitrary bytes -/

/-- C17, second half: on EVERY byte string the parser terminates (`parseFrames` is a total function —
    its definition carries the termination proof) and either returns frames or signals an error. -/
theorem parse_total (p : Bytes) : (∃ fs, parseFrames p = some fs) ∨ parseFrames p = none := by
  cases h : parseFrames p with
  | none => exact Or.inr rfl
  | some fs => exact Or.inl ⟨fs, rfl⟩

/-- "never loops": every loop turn consumes at least one byte, so there are at most `len(payload)`
    turns; every returned frame starts inside the payload and together they cover it. -/
theorem parse_progress (p : Bytes) (fs : List Parsed) (h : parseFrames p = some fs) :
    (∀ f ∈ fs, 1 ≤ f.length) ∧ fs.length ≤ p.length ∧ p.length ≤ (fs.map Parsed.length).sum ∧
    ∀ i, i < fs.length → startOf fs i < p.length :=
  Lemmas.QuicFrameAny.parseFrames_progress p.length p fs rfl h

/-- "accounted for exactly once", for EVERY accepted payload (well-formed or not): each payload position
    lies in the extent `[startOf fs i, startOf fs (i+1))` of exactly one returned frame. -/
theorem every_byte_in_exactly_one_frame (p : Bytes) (fs : List Parsed) (h : parseFrames p = some fs)
    (k : Nat) (hk : k < p.length) :
    ∃ i, (i < fs.length ∧ startOf fs i ≤ k ∧ k < startOf fs (i + 1)) ∧
      ∀ j, (j < fs.length ∧ startOf fs j ≤ k ∧ k < startOf fs (j + 1)) → j = i := by
  obtain ⟨hpos, _, hcover, _⟩ := parse_progress p fs h
  exact Lemmas.QuicFrameAcct.unique_extent fs hpos k (by omega)

/-- The loop body never constructs an empty frame (the obligation that makes `parseFrames` well-founded). -/
theorem frame_length_pos (p : Bytes) (f : Parsed) (h : parseOne p = some f) : 1 ≤ f.length :=
  parseOne_length_pos p f h

/-- "never invents data beyond the packet": on arbitrary bytes, every byte-string attribute of every
    returned frame is a Python slice `payload[a:b]` — a contiguous piece of the packet payload — that
    begins at or after the start of the frame it belongs to. -/
theorem no_invented_data (p : Bytes) (fs : List Parsed) (h : parseFrames p = some fs) :
    ∀ i (hi : i < fs.length), ∀ d ∈ (fs[i]).datas, ∃ a b, startOf fs i ≤ a ∧ d = Bytes.slice p a b :=
  Lemmas.QuicFrameAny.parseFrames_datas p.length p fs rfl h

/-- … hence no attribute is longer than what is left of the payload from its frame's start on. -/
theorem data_within_packet (p : Bytes) (fs : List Parsed) (h : parseFrames p = some fs) :
    ∀ i (hi : i < fs.length), ∀ d ∈ (fs[i]).datas, startOf fs i + d.length ≤ p.length ∨ d = [] := by
  intro i hi d hd
  obtain ⟨a, b, hab, rfl⟩ := no_invented_data p fs h i hi d hd
  simp only [Bytes.slice, List.length_take, List.length_drop]
  by_cases hz : min (b - a) (p.length - a) = 0
  · right
    apply List.eq_nil_of_length_eq_zero
    simp only [List.length_take, List.length_drop]; exact hz
  · left; omega

/-! ### the dispatch table regenerated from the source -/

/-- RFC 9000 §19 / RFC 9221 type-byte assignment, written down independently of the source. -/
def rfcClass (t : Nat) : Option Cls :=
  if t = 0x00 then some .PaddingFrame else if t = 0x01 then some .PingFrame
  else if t = 0x02 ∨ t = 0x03 then some .AckFrame else if t = 0x04 then some .ResetStreamFrame
  else if t = 0x05 then some .StopSendingFrame else if t = 0x06 then some .CryptoFrame
  else if t = 0x07 then some .NewTokenFrame else if 0x08 ≤ t ∧ t ≤ 0x0f then some .StreamFrame
  else if t = 0x10 then some .MaxDataFrame else if t = 0x11 then some .MaxStreamDataFrame
  else if t = 0x12 ∨ t = 0x13 then some .MaxStreamsFrame else if t = 0x14 then some .DataBlockedFrame
  else if t = 0x15 then some .StreamDataBlockedFrame else if t = 0x16 ∨ t = 0x17 then some .StreamsBlockedFrame
  else if t = 0x18 then some .NewConnectionIdFrame else if t = 0x19 then some .RetireConnectionIdFrame
  else if t = 0x1a then some .PathChallengeFrame else if t = 0x1b then some .PathResponseFrame
  else if t = 0x1c ∨ t = 0x1d then some .ConnectionCloseFrame else if t = 0x1e then some .HandshakeDoneFrame
  else if t = 0x30 ∨ t = 0x31 then some .DatagramFrame else none

/-- The `frame_type` table of quic_frame.py (regenerated on every run), looked up the way the key loop
    of parse_frames does (last match wins), is the RFC assignment for every first byte. -/
theorem dispatch_matches_rfc : ∀ t : Fin 256, lookup t.val = rfcClass t.val := by
  decide +kernel

/-! ### non-vacuity: concrete inputs meeting the hypotheses -/

def w1 : VW := ⟨0, by omega⟩
def w2 : VW := ⟨1, by omega⟩
def w4 : VW := ⟨2, by omega⟩
def w8 : VW := ⟨3, by omega⟩

/-- CRYPTO (offset 5 sent non-minimally on 4 bytes), three PADDING frames in two runs, ACK_ECN with one
    range, NEW_CONNECTION_ID, and a final STREAM with OFF and FIN but no LEN. -/
def exampleSeq : List QFrame :=
  [.crypto ⟨5, w4⟩ w2 [1, 2, 3], .padding 2, .padding 1,
   .ack ⟨1000, w2⟩ ⟨7, w8⟩ w1 ⟨0, w1⟩ [(⟨1, w1⟩, ⟨300, w2⟩)] (some (⟨1, w1⟩, ⟨2, w1⟩, ⟨3, w4⟩)),
   .newConnectionId ⟨1, w1⟩ ⟨0, w2⟩ [0xaa, 0xbb] (List.replicate 16 7),
   .stream true ⟨4, w1⟩ (some ⟨70000, w4⟩) none [9, 9]]

example : WellFormedSeq exampleSeq := by
  simp [exampleSeq, WellFormedSeq, QFrame.wf, QFrame.greedy, optOk, optFits]
  decide

example : (encodeAll exampleSeq).take 12 = [0x06, 0x80, 0, 0, 5, 0x40, 3, 1, 2, 3, 0, 0] := by decide

example : (normalize exampleSeq).length = 5 := by decide

example : parseFrames (encodeAll exampleSeq) = some ((normalize exampleSeq).map QFrame.toParsed) :=
  frames_roundtrip _ (by simp [exampleSeq, WellFormedSeq, QFrame.wf, QFrame.greedy, optOk, optFits]; decide)

-- varint: 37 sent on 8 bytes (non-minimal) followed by junk
example : w8.fits 37 ∧ w8.enc 37 ++ [0xff] = [0xc0, 0, 0, 0, 0, 0, 0, 37, 0xff] := by decide

-- arbitrary bytes: a CRYPTO frame announcing 2^62−1 bytes yields one frame holding only what is there;
-- an ACK announcing 2^62−1 ranges is an error — neither hangs (`parse_total`), nothing is invented
example : parseOne [0x06, 0x00, 0xff, 0xff, 0xff, 0xff, 0xff, 0xff, 0xff, 0xff, 0x61] =
    some (.crypto (10 + (2 ^ 62 - 1)) 0 (2 ^ 62 - 1) [0x61]) := by decide
example : parseOne [0x18, 0x00, 0x00] = none := by decide
example : parseOne ([0x02, 0x00, 0x00, 0xff, 0xff, 0xff, 0xff, 0xff, 0xff, 0xff, 0xff, 0x00] ++ List.replicate 6 1) = none := by
  decide

-- Observation outside C17's quantifier (unknown frame types are not RFC 9000/9221 frames): GenericFrame.data
-- starts one byte after the end of the length field. For `21 01 aa bb` the frame has length 3 (= `21 01 aa`)
-- but `data` is `bb`, the first byte of the NEXT frame; still a slice of the payload (`no_invented_data`).
example : parseOne [0x21, 0x01, 0xaa, 0xbb] = some (.generic 3 1 [0xbb]) := by decide

end TLX.Props.C17
