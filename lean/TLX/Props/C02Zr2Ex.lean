import TLX.Props.C02Zr2
set_option autoImplicit false
set_option linter.unusedSimpArgs false
set_option linter.unusedVariables false
set_option maxRecDepth 100000

/-! # `Props/C02Zr2`: non-vacuity of `quic_connection_exact_0rtt_any`

The history of `C02Capstone4.ExZ.zero_rtt_not_first_offered_lost`: the client resumed a session of suite 0x1301 — SECOND in
its ClientHello (0x1303, 0x1301, 0x1302), and the one the server selects — and sends the 0-RTT packet `EARLY` behind its
Initial packet. The tool's Early keys are then those of 0x1303: the datagram is a bad one (`XDgBad`, `RejectedT` evaluated on
the toy AEAD); the server's flight with `HI` and the client's Finished with `GET` are good ones. Every hypothesis is
discharged; the export is `HI`, `GET`. -/
namespace TLX.Props.C02Zr.ExAny
open TLX TLX.MainLoop TLX.Export TLX.Spec.Demux TLX.QuicPipeline TLX.Props.C02File TLX.Props.C02File2 TLX.Lemmas.ExportProps
open TLX.Quic TLX.Quic.Session TLX.Spec.QuicSender TLX.Spec.QuicConnection TLX.Spec.QuicFrames TLX.Spec.QuicPackets
open TLX.Props.C02Capstone TLX.Props.C02Capstone3 TLX.Props.C02Capstone4 TLX.Props.C02Session TLX.Spec.KeySchedules
open TLX.Props.C02File.Ex (H Pc L m5 maskFn sel hs chS shS caS saS w0 w2 cidS0 cidS cidC qCI fl line hs_ok wfCI wfSI wfSH wfCH)
open TLX.Props.ExportPropsQuic.Ex (info)
open TLX.Props.C02Capstone.ExConf
open TLX.Props.C02Capstone4.ExZ (selR eS qZ qCI' dZ oC1 keysZ o qSI' qSH' qCH' oS' dSX dCX keylogZ wfZ wfS' wfC1 wX')
open TLX.Props.C02Zr.ExRej (isErr err_of)

def yZ : DgY := ⟨dZ, false⟩
def yS : DgY := ⟨dSX, true⟩
def yC : DgY := ⟨dCX, true⟩

def itemsA : List (List Keylog.Key × MainLoop.Pkt × DgY) :=
  [(keysZ, dgPkt fl true (wX' dSX) 2, yS), (keysZ, dgPkt fl false (wX' dCX) 4, yC)]
def p0 : MainLoop.Pkt := dgPkt fl false (wX' dZ) 1
def c0 : QConn := (quicMachine maskFn H Pc info).new o p0

def t1 : Trk := trk0.dgx yZ.eff
def t2 : Trk := t1.dgx yS.eff

theorem pkCI0 : HsPkOk maskFn H Pc L cidS0 sel shS chS trk0 qCI' :=
  ⟨⟨by decide, by decide, by decide, by decide, by decide, by decide, by decide +kernel, by decide +kernel⟩,
    by decide +kernel, by decide +kernel, by decide +kernel, wfCI, by decide +kernel, rfl, by decide⟩
theorem pkSI0 : HsPkOk maskFn H Pc L cidS0 sel shS chS t1 qSI' :=
  ⟨⟨by decide, by decide, by decide, by decide, by decide, by decide, by decide +kernel, by decide +kernel⟩,
    by decide +kernel, by decide +kernel, by decide +kernel, wfSI, by decide +kernel, rfl, by decide⟩
theorem pkSH0 : HsPkOk maskFn H Pc L cidS0 sel shS chS (t1.step qSI'.x) qSH' :=
  ⟨⟨by decide, by decide, by decide, by decide, by decide, by decide, by decide +kernel, by decide +kernel⟩,
    by decide +kernel, by decide +kernel, by decide +kernel, wfSH, by decide +kernel, rfl, by decide⟩
theorem pkCH0 : HsPkOk maskFn H Pc L cidS0 sel shS chS t2 qCH' :=
  ⟨⟨by decide, by decide, by decide, by decide, by decide, by decide, by decide +kernel, by decide +kernel⟩,
    by decide +kernel, by decide +kernel, by decide +kernel, wfCH, by decide +kernel, rfl, by decide⟩

def PZ : Long := longOf qZ.x (protectedPayload L.aeadSeal sel.alg (earlyDec H sel eS).client qZ.x)

/-- the AEAD check of the tool — Early key of 0x1303 — on the packet protected for 0x1301 fails -/
theorem rejectedZ : RejectedT H Pc selR eS (DgX.t1 trk0 dZ).tc.app ((remask PZ qZ.mask m5).toPkt false qZ.x.ts) := by
  intro pnb pn aad hpb hpn haad
  apply err_of
  have a : ((remask PZ qZ.mask m5).toPkt false qZ.x.ts).pn = some (PZ.pn) := by decide +kernel
  rw [a] at hpb; cases hpb
  have b : pnResult (DgX.t1 trk0 dZ).tc.app PZ.pn = .ok ((pnResult (DgX.t1 trk0 dZ).tc.app PZ.pn).toOption.getD []) := by
    decide +kernel
  have c : assocData ((remask PZ qZ.mask m5).toPkt false qZ.x.ts) =
      .ok ((assocData ((remask PZ qZ.mask m5).toPkt false qZ.x.ts)).toOption.getD []) := by decide +kernel
  rw [b] at hpn; rw [c] at haad
  cases hpn; cases haad
  decide +kernel

theorem badZ : XDgBad maskFn H Pc L cidS0 sel sel shS chS saS caS eS trk0 none dZ where
  client := fun _ => rfl
  dirL := by intro q hq; simp only [dZ, List.mem_singleton] at hq; subst hq; exact ⟨rfl, rfl⟩
  dirZ := by intro q hq; simp only [dZ, List.mem_singleton] at hq; subst hq; rfl
  cid := by decide +kernel
  pre := ⟨pkCI0, trivial⟩
  tool := fun _ => ⟨selR, by decide +kernel, by
    intro q hq; simp only [dZ, List.mem_singleton] at hq; subst hq
    exact ⟨⟨rfl, rfl, by decide, by decide, by decide, by decide, by decide, by decide +kernel, by decide +kernel⟩,
      by decide, by decide, by decide, m5, rfl, by decide, rejectedZ⟩⟩
  post := trivial
  short := by intro o ho; cases ho

theorem okS : XDgOkE maskFn H Pc L cidS0 sel sel shS chS saS caS eS t1 (ecsDgx trk0 none yZ.eff) dSX where
  client := fun h => absurd rfl h
  dirL := by intro q hq; simp only [dSX, List.mem_cons, List.not_mem_nil, or_false] at hq; rcases hq with rfl | rfl <;> exact ⟨rfl, rfl⟩
  dirZ := by intro q hq; cases hq
  cid := by decide +kernel
  pre := ⟨pkSI0, pkSH0, trivial⟩
  suite := fun h => absurd rfl h
  zr := by intro i q hi; simp [dSX] at hi
  post := trivial
  short := by
    intro o' ho; cases ho
    exact ⟨rfl, rfl, by decide, by decide +kernel, rfl, rfl, by decide +kernel, wfS',
      ⟨by decide, by decide +kernel, rfl, by decide⟩⟩

theorem okC : XDgOkE maskFn H Pc L cidS0 sel sel shS chS saS caS eS t2 (ecsDgx t1 (ecsDgx trk0 none yZ.eff) yS.eff) dCX where
  client := fun h => absurd rfl h
  dirL := by intro q hq; simp only [dCX, List.mem_singleton] at hq; subst hq; exact ⟨rfl, rfl⟩
  dirZ := by intro q hq; cases hq
  cid := by decide +kernel
  pre := ⟨pkCH0, trivial⟩
  suite := fun h => absurd rfl h
  zr := by intro i q hi; simp [dCX] at hi
  post := trivial
  short := by
    intro o' ho; cases ho
    exact ⟨rfl, rfl, by decide, by decide +kernel, rfl, rfl, by decide +kernel, wfC1,
      ⟨by decide, by decide +kernel, rfl, by decide⟩⟩

/-- **Non-vacuity of `quic_connection_exact_0rtt_any`**: every hypothesis discharged; the 0-RTT data `EARLY` is missing,
    `HI` and `GET` are exported with their times. -/
theorem zero_rtt_any_instance :
    let QM := quicMachine maskFn H Pc info
    QM.out false (yFeedAll QM c0 ((keysZ, p0, yZ) :: itemsA)) = expectedOutX c0 [yZ.eff, yS.eff, yC.eff] [] ∧
    (expectedOutX c0 [yZ.eff, yS.eff, yC.eff] []).map (fun p => (p.ts, p.payload)) =
      [(102, [0x48, 0x49]), (104, [0x47, 0x45, 0x54])] := by
  refine ⟨?_, by decide +kernel⟩
  have h := quic_connection_exact_0rtt_any maskFn H Pc info Props.C15.sizedToy_lawful rfl L chx.random hs.sh.cipherSuite chS shS caS
    saS eS sel sel [0x13, 0x01] (by decide) (by decide) (by decide) rfl rfl keysZ p0 yZ itemsA
    (by intro x hx; simp only [itemsA, List.mem_cons, List.not_mem_nil, or_false] at hx
        rcases hx with rfl | rfl | rfl <;> exact keylogZ)
    c0 (new_fresh maskFn H Pc info o p0) (by decide) ⟨badZ, okS, okC, trivial⟩
    (by
      have : allInsM (([yZ, yS, yC] : List DgY).map (·.x.base)) = hs.ins := by decide +kernel
      show PTrace chx.random hs.sh.cipherSuite {} (allInsM (([yZ, yS, yC] : List DgY).map (·.x.base)))
      rw [this]; exact ptrace_of_conformant hs hs_ok)
    (by intro x hx; simp only [itemsA, List.mem_cons, List.not_mem_nil, or_false] at hx
        rcases hx with rfl | rfl | rfl <;> exact ⟨rfl, rfl, by decide⟩)
    (by decide +kernel) [] (by intro x hx; cases hx) trivial (by decide +kernel)
  exact h.2

end TLX.Props.C02Zr.ExAny
