import TLX.Spec.RfcQuic
import TLX.Lemmas.C01Rfc
import TLX.Props.C02File
set_option autoImplicit false
set_option linter.unusedSimpArgs false
set_option linter.unusedVariables false
namespace TLX.Props.C02Rfc
open TLX TLX.Spec.RfcSuite TLX.Spec.RfcQuic TLX.Lemmas.C01Rfc TLX.Props.C09Found TLX.Keylog TLX.Spec.KeySchedules
open TLX.Lemmas.KeySchedule TLX.QuicPipeline TLX.Props.C02Capstone TLX.Spec.NssKeylog

/-! ### the suite: from the IANA denotation to the tool's table -/

theorem selectSuite_rfc (cs : Bytes) (haccept : Quic.Session.selectSuite cs ≠ none) (sp : SuiteSpec)
    (sel : Quic.Session.SuiteSel) (h : quicSuite (Bytes.beNat cs) = some (sp, sel)) :
    Quic.Session.selectSuite cs = some sel ∧ sp.keyLen = sel.keyLen ∧ sel.keyLen ≤ 32 := by
  unfold Quic.Session.selectSuite at haccept ⊢
  split at haccept
  · rename_i e; subst e
    have : quicSuite (Bytes.beNat [0x13, 0x01]) = some (⟨.aesGcm, 16, .sha256, 16⟩, ⟨.sha256, .aesgcm, 16⟩) := by decide +kernel
    rw [this] at h; cases h; exact ⟨by decide, rfl, by decide⟩
  · split at haccept
    · rename_i e; subst e
      have : quicSuite (Bytes.beNat [0x13, 0x02]) = some (⟨.aesGcm, 32, .sha384, 16⟩, ⟨.sha384, .aesgcm, 32⟩) := by decide +kernel
      rw [this] at h; cases h; exact ⟨by decide, rfl, by decide⟩
    · split at haccept
      · rename_i e; subst e
        have : quicSuite (Bytes.beNat [0x13, 0x03]) =
            some (⟨.chacha20Poly1305, 32, .sha256, 16⟩, ⟨.sha256, .chachaPoly, 32⟩) := by decide +kernel
        rw [this] at h; cases h; exact ⟨by decide, rfl, by decide⟩
      · split at haccept
        · rename_i e; subst e
          have : quicSuite (Bytes.beNat [0x13, 0x04]) = some (⟨.aesCcm, 16, .sha256, 16⟩, ⟨.sha256, .aesccm, 16⟩) := by
            decide +kernel
          rw [this] at h; cases h; exact ⟨by decide, rfl, by decide⟩
        · exact absurd rfl haccept

/-- the four QUIC v1 suites, by code point: each is accepted and has a denotation -/
theorem quicSuite_exists (cs : Bytes) (haccept : Quic.Session.selectSuite cs ≠ none) :
    ∃ sp sel, quicSuite (Bytes.beNat cs) = some (sp, sel) := by
  unfold Quic.Session.selectSuite at haccept
  split at haccept
  · rename_i e; subst e; exact ⟨_, _, (by decide +kernel :
      quicSuite (Bytes.beNat [0x13, 0x01]) = some (⟨.aesGcm, 16, .sha256, 16⟩, ⟨.sha256, .aesgcm, 16⟩))⟩
  · split at haccept
    · rename_i e; subst e; exact ⟨_, _, (by decide +kernel :
        quicSuite (Bytes.beNat [0x13, 0x02]) = some (⟨.aesGcm, 32, .sha384, 16⟩, ⟨.sha384, .aesgcm, 32⟩))⟩
    · split at haccept
      · rename_i e; subst e; exact ⟨_, _, (by decide +kernel :
          quicSuite (Bytes.beNat [0x13, 0x03]) = some (⟨.chacha20Poly1305, 32, .sha256, 16⟩, ⟨.sha256, .chachaPoly, 32⟩))⟩
      · split at haccept
        · rename_i e; subst e; exact ⟨_, _, (by decide +kernel :
            quicSuite (Bytes.beNat [0x13, 0x04]) = some (⟨.aesCcm, 16, .sha256, 16⟩, ⟨.sha256, .aesccm, 16⟩))⟩
        · exact absurd rfl haccept


/-! ### the key log: from the TEXT of the file to what `dev_quic_keys` gets -/

theorem labelOf_quic :
    Pipeline.labelOf labelCHTS = .clientHandshake ∧ Pipeline.labelOf labelSHTS = .serverHandshake ∧
    Pipeline.labelOf labelCTS0 = .clientTraffic0 ∧ Pipeline.labelOf labelSTS0 = .serverTraffic0 ∧
    Pipeline.labelOf labelCETS = .clientEarly ∧
    Keylog.labelsQuic = [labelCHTS, labelSHTS, labelCTS0, labelSTS0, labelCETS, Keylog.s_SETS] := by decide

/-- a line of the file as `dev_quic_keys` reads it -/
def lineSecQ (cr : List Nat) (x : FLine × Bool) : Option KeySchedule.Secret :=
  match x.1 with
  | .key tr _ _ =>
    if tr.cr = cr then
      some (if Keylog.labelsQuic.contains tr.label then (Pipeline.labelOf tr.label, Pipeline.bytesOfNats tr.secret)
            else (.other, []))
    else none
  | .other _ => none

/-- `set_tls_decryptors`' filter `bytes.fromhex(key.client_random) == client_random` over the whole key log: for a file of
    well-formed lines it never raises (every line the reader's regular expression accepts has a 64-digit hexadecimal
    client-random field) and keeps exactly the lines of the connection, in file order -/
theorem quicSessionKeys_fileText (ls : List (FLine × Bool)) (hwf : ∀ x ∈ ls, x.1.WF) (cr : List Nat) :
    Keylog.quicSessionKeys ((Export.fileKeysOf (some (fileText ls))).getD []) cr = some (linesFor cr ls) := by
  rw [fileKeys_fileText, parse_fileText _ ls hwf (src_cls ls hwf)]
  unfold Keylog.quicSessionKeys
  have hall : ((ls.filterMap fun x => x.1.key?).all fun k => (Keylog.fromHex k.clientRandom).isSome) = true := by
    rw [List.all_eq_true]
    intro k hk
    obtain ⟨⟨l, b⟩, hm, hk'⟩ := List.mem_filterMap.mp hk
    cases l with
    | other s => simp [FLine.key?] at hk'
    | key tr hc hv =>
      simp only [FLine.key?, Option.some.injEq] at hk'
      subst hk'
      have w : DenotesVia _ tr hc hv := hwf _ hm
      simp [Lemmas.Keylog.fromHex_of_isHexOf w.2.2.1]
  rw [if_pos hall]
  congr 1
  clear hall
  induction ls with
  | nil => rfl
  | cons x rest ih =>
    obtain ⟨l, crlf⟩ := x
    have w := hwf (l, crlf) (by simp)
    have := ih (fun y hy => hwf y (by simp [hy]))
    cases l with
    | other s => simpa [linesFor, FLine.key?] using this
    | key tr hc hv =>
      have hx := Lemmas.Keylog.fromHex_of_isHexOf w.2.2.1
      simp only [linesFor, FLine.key?, List.filterMap_cons, List.filter_cons, hx] at this ⊢
      by_cases e : tr.cr = cr
      · simp only [e, beq_self_eq_true, if_true, List.cons.injEq, true_and]; exact this
      · have : (some tr.cr == some cr) = false := by simp [e]
        simp only [this, Bool.false_eq_true, if_false, e]; assumption

theorem quicSecrets_lines (cr : List Nat) (ls : List (FLine × Bool)) (hwf : ∀ x ∈ ls, x.1.WF) :
    quicSecrets (linesFor cr ls) = some (ls.filterMap (lineSecQ cr)) := by
  unfold quicSecrets
  induction ls with
  | nil => rfl
  | cons x rest ih =>
    obtain ⟨l, b⟩ := x
    have ih := ih (fun y hy => hwf y (by simp [hy]))
    cases l with
    | other s =>
      rw [linesFor_cons_other, ih, List.filterMap_cons]
      rfl
    | key tr hc hv =>
      have w : DenotesVia _ tr hc hv := hwf (.key tr hc hv, b) (by simp)
      have hx := Lemmas.Keylog.fromHex_of_isHexOf w.2.2.2.2.1
      rw [linesFor_cons_key]
      by_cases e : tr.cr = cr
      · rw [if_pos e, List.mapM_cons, ih]
        simp only [hx, lineSecQ, e, if_true, List.filterMap_cons]
        by_cases hl : tr.label ∈ Keylog.labelsQuic
        · simp [hl]
        · simp [hl]
      · rw [if_neg e, ih, List.filterMap_cons]
        simp [lineSecQ, e]

theorem labelOf_injQ (lab : List Nat) (hlab : lab ∈ Keylog.labelsQuic) (x : List Nat)
    (hx : Keylog.labelsQuic.contains x = true) (h : Pipeline.labelOf x = Pipeline.labelOf lab) : x = lab := by
  have hx' : x ∈ Keylog.labelsQuic := by simpa using hx
  simp only [Keylog.labelsQuic, List.mem_cons, List.mem_nil_iff, or_false] at hlab hx'
  rcases hlab with rfl | rfl | rfl | rfl | rfl | rfl <;> rcases hx' with rfl | rfl | rfl | rfl | rfl | rfl <;>
    first | rfl | (exfalso; revert h; decide)

theorem lastOf_linesQ (cr : List Nat) (ls : List (FLine × Bool)) (lab : List Nat) (hlab : lab ∈ Keylog.labelsQuic)
    (sec : Bytes) (hhas : HasLine ls lab cr (Pipeline.natsOfBytes sec))
    (honly : OnlySecret ls lab cr (Pipeline.natsOfBytes sec)) :
    lastOf (Pipeline.labelOf lab) (ls.filterMap (lineSecQ cr)) = some sec := by
  have hc : Keylog.labelsQuic.contains lab = true := by simpa using hlab
  apply lastOf_of_only
  · obtain ⟨hc', hv, crlf, hm⟩ := hhas
    refine ⟨(Pipeline.labelOf lab, sec), ?_, rfl⟩
    rw [List.mem_filterMap]
    refine ⟨_, hm, ?_⟩
    simp [lineSecQ, hc, hlab, bytesOfNats_natsOfBytes]
  · intro s hs hl
    rw [List.mem_filterMap] at hs
    obtain ⟨⟨l, crlf⟩, hm, hk⟩ := hs
    cases l with
    | other s' => simp [lineSecQ] at hk
    | key tr hc' hv =>
      simp only [lineSecQ] at hk
      by_cases e : tr.cr = cr
      · rw [if_pos e] at hk
        by_cases hlq : Keylog.labelsQuic.contains tr.label = true
        · rw [if_pos hlq] at hk
          cases hk
          have := labelOf_injQ lab hlab tr.label hlq hl
          rw [honly tr hc' hv crlf hm this e, bytesOfNats_natsOfBytes]
        · rw [if_neg hlq] at hk
          cases hk
          exfalso
          simp only [Keylog.labelsQuic, List.mem_cons, List.mem_nil_iff, or_false] at hlab
          rcases hlab with rfl | rfl | rfl | rfl | rfl | rfl <;> revert hl <;> decide
      · rw [if_neg e] at hk; cases hk

/-- no line of the connection carries the label: the key schedule finds no such secret -/
theorem lastOf_linesQ_none (cr : List Nat) (ls : List (FLine × Bool)) (lab : List Nat) (hlab : lab ∈ Keylog.labelsQuic)
    (hno : ∀ tr hc hv crlf, (FLine.key tr hc hv, crlf) ∈ ls → tr.cr = cr → tr.label ≠ lab) :
    lastOf (Pipeline.labelOf lab) (ls.filterMap (lineSecQ cr)) = none := by
  have hnone : ∀ s ∈ ls.filterMap (lineSecQ cr), s.1 ≠ Pipeline.labelOf lab := by
    intro s hs hl
    rw [List.mem_filterMap] at hs
    obtain ⟨⟨l, crlf⟩, hm, hk⟩ := hs
    cases l with
    | other s' => simp [lineSecQ] at hk
    | key tr hc' hv =>
      simp only [lineSecQ] at hk
      by_cases e : tr.cr = cr
      · rw [if_pos e] at hk
        by_cases hlq : Keylog.labelsQuic.contains tr.label = true
        · rw [if_pos hlq] at hk
          cases hk
          exact hno tr hc' hv crlf hm e (labelOf_injQ lab hlab tr.label hlq hl)
        · rw [if_neg hlq] at hk
          cases hk
          simp only [Keylog.labelsQuic, List.mem_cons, List.mem_nil_iff, or_false] at hlab
          rcases hlab with rfl | rfl | rfl | rfl | rfl | rfl <;> revert hl <;> decide
      · rw [if_neg e] at hk; cases hk
  obtain ⟨i1, i2⟩ := foldl_pick (Pipeline.labelOf lab) [] (ls.filterMap (lineSecQ cr))
    (fun s hs hl => absurd hl (hnone s hs)) none (.inl rfl)
  rcases i2 with h | h
  · exact h
  · rcases i1.mp h with h' | ⟨s, hs, hl⟩
    · cases h'
    · exact absurd hl (hnone s hs)

/-- what the key-log file says about the 0-RTT secret of the connection -/
def EarlyLine (ls : List (FLine × Bool)) (cr : List Nat) : Option Bytes → Prop
  | some e => HasLine ls labelCETS cr (Pipeline.natsOfBytes e) ∧ OnlySecret ls labelCETS cr (Pipeline.natsOfBytes e)
  | none => ∀ tr hc hv crlf, (FLine.key tr hc hv, crlf) ∈ ls → tr.cr = cr → tr.label ≠ labelCETS

/-- **the key log in FILE terms.** A key-log file of well-formed lines (`FLine.WF`: what the reader's regular expression
    accepts, or inert text) that has the four NSS lines of the connection — anywhere, any hex case, LF or CRLF, between any
    other lines, also of other connections — and no DIFFERENT secret under the same label and client random (`OnlySecret`;
    C09's consistency) gives `dev_quic_keys` exactly the connection's secrets. -/
theorem keylogHas_text (ls : List (FLine × Bool)) (hwf : ∀ x ∈ ls, x.1.WF) (cr ch sh ca sa : Bytes) (early : Option Bytes)
    (hl1 : HasLine ls labelCHTS (Pipeline.natsOfBytes cr) (Pipeline.natsOfBytes ch))
    (hl2 : HasLine ls labelSHTS (Pipeline.natsOfBytes cr) (Pipeline.natsOfBytes sh))
    (hl3 : HasLine ls labelCTS0 (Pipeline.natsOfBytes cr) (Pipeline.natsOfBytes ca))
    (hl4 : HasLine ls labelSTS0 (Pipeline.natsOfBytes cr) (Pipeline.natsOfBytes sa))
    (ho1 : OnlySecret ls labelCHTS (Pipeline.natsOfBytes cr) (Pipeline.natsOfBytes ch))
    (ho2 : OnlySecret ls labelSHTS (Pipeline.natsOfBytes cr) (Pipeline.natsOfBytes sh))
    (ho3 : OnlySecret ls labelCTS0 (Pipeline.natsOfBytes cr) (Pipeline.natsOfBytes ca))
    (ho4 : OnlySecret ls labelSTS0 (Pipeline.natsOfBytes cr) (Pipeline.natsOfBytes sa))
    (he : EarlyLine ls (Pipeline.natsOfBytes cr) early) :
    KeylogHas ((Export.fileKeysOf (some (fileText ls))).getD []) cr ch sh ca sa early := by
  obtain ⟨e1, e2, e3, e4, e5, e6⟩ := labelOf_quic
  have m1 : labelCHTS ∈ Keylog.labelsQuic := by rw [e6]; simp
  have m2 : labelSHTS ∈ Keylog.labelsQuic := by rw [e6]; simp
  have m3 : labelCTS0 ∈ Keylog.labelsQuic := by rw [e6]; simp
  have m4 : labelSTS0 ∈ Keylog.labelsQuic := by rw [e6]; simp
  have m5 : labelCETS ∈ Keylog.labelsQuic := by rw [e6]; simp
  have q1 := lastOf_linesQ _ ls _ m1 ch hl1 ho1
  have q2 := lastOf_linesQ _ ls _ m2 sh hl2 ho2
  have q3 := lastOf_linesQ _ ls _ m3 ca hl3 ho3
  have q4 := lastOf_linesQ _ ls _ m4 sa hl4 ho4
  rw [e1] at q1; rw [e2] at q2; rw [e3] at q3; rw [e4] at q4
  refine ⟨⟨_, _, quicSessionKeys_fileText ls hwf _, quicSecrets_lines _ ls hwf, q1, q2, q3, q4, ?_⟩⟩
  cases early with
  | some e =>
    have := lastOf_linesQ _ ls _ m5 e he.1 he.2
    rw [e5] at this; exact this
  | none =>
    have := lastOf_linesQ_none _ ls _ m5 he
    rw [e5] at this; exact this

end TLX.Props.C02Rfc
