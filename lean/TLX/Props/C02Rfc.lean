import TLX.Spec.RfcQuic
import TLX.Lemmas.C01Rfc
import TLX.Props.C02File
set_option autoImplicit false
set_option linter.unusedSimpArgs false
set_option linter.unusedVariables false
namespace TLX.Props.C02Rfc
open TLX TLX.Spec.RfcSuite TLX.Spec.RfcQuic TLX.Lemmas.C01Rfc TLX.Props.C09Found TLX.Keylog TLX.Spec.KeySchedules
open TLX.Lemmas.KeySchedule TLX.QuicPipeline TLX.Props.C02Capstone TLX.Spec.NssKeylog
open TLX.Quic TLX.Cipher TLX.Quic.Session TLX.Lemmas.QuicSession
open TLX.Props.C02Session TLX.Spec.QuicConnection TLX.Props.C02Pipeline TLX.Quic.CryptoStream TLX.Lemmas.CryptoStream
open TLX.Spec.TlsHandshakeFraming TLX.Spec.TlsHello TLX.Lemmas.TlsHello
open TLX.Spec.QuicSender TLX.Spec.QuicFrames TLX.Spec.QuicPackets
open TLX.MainLoop TLX.Spec.Demux TLX.Lemmas.MainLoop TLX.Dissect TLX.OutBytes
open TLX.Props.C01File TLX.Spec.FrameBuild TLX.Spec.TlsCapture TLX.Spec.QuicCapture TLX.Props.C12Dissect
open TLX.Export TLX.Props.C01File2 TLX.Props.C02File

/-! ### the suite: from the IANA denotation to the tool's table -/

theorem selectSuite_rfc (cs : Bytes) (haccept : Quic.Session.selectSuite cs ≠ none) (sp : SuiteSpec)
    (sel : Quic.Session.SuiteSel) (h : quicSuite (Bytes.beNat cs) = some (sp, sel)) :
    Quic.Session.selectSuite cs = some sel ∧ sp.keyLen = sel.keyLen ∧ sel.keyLen ≤ 32 := by
  unfold Quic.Session.selectSuite at haccept ⊢
  split at haccept
  · rename_i e; subst e
    have : quicSuite (Bytes.beNat [0x13, 0x01]) = some (⟨.aesGcm, 16, .sha256, 16⟩, ⟨.sha256, .aesgcm, 16⟩) := by decide +kernel
    rw [this] at h; cases h; exact ⟨by decide, rfl, by decide⟩
  · split at haccept
    · rename_i e; subst e
      have : quicSuite (Bytes.beNat [0x13, 0x02]) = some (⟨.aesGcm, 32, .sha384, 16⟩, ⟨.sha384, .aesgcm, 32⟩) := by decide +kernel
      rw [this] at h; cases h; exact ⟨by decide, rfl, by decide⟩
    · split at haccept
      · rename_i e; subst e
        have : quicSuite (Bytes.beNat [0x13, 0x03]) =
            some (⟨.chacha20Poly1305, 32, .sha256, 16⟩, ⟨.sha256, .chachaPoly, 32⟩) := by decide +kernel
        rw [this] at h; cases h; exact ⟨by decide, rfl, by decide⟩
      · split at haccept
        · rename_i e; subst e
          have : quicSuite (Bytes.beNat [0x13, 0x04]) = some (⟨.aesCcm, 16, .sha256, 16⟩, ⟨.sha256, .aesccm, 16⟩) := by
            decide +kernel
          rw [this] at h; cases h; exact ⟨by decide, rfl, by decide⟩
        · exact absurd rfl haccept

theorem selectSuite_tls13 (cs : Bytes) (h13 : cs ∈ tls13Codes) (sp : SuiteSpec) (sel : Quic.Session.SuiteSel)
    (h : quicSuite (Bytes.beNat cs) = some (sp, sel)) :
    Quic.Session.selectSuite cs = some sel ∧ sp.keyLen = sel.keyLen ∧ sel.keyLen ≤ 32 := by
  simp only [tls13Codes, List.mem_cons, List.not_mem_nil, or_false] at h13
  rcases h13 with rfl | rfl | rfl | rfl | rfl
  · exact selectSuite_rfc _ (by decide) sp sel h
  · exact selectSuite_rfc _ (by decide) sp sel h
  · exact selectSuite_rfc _ (by decide) sp sel h
  · exact selectSuite_rfc _ (by decide) sp sel h
  · have : Bytes.beNat [0x13, 0x05] = 0x1305 := by decide
    rw [this, quicSuite_ccm8] at h; cases h

/-- the four QUIC v1 suites, by code point: each is accepted and has a denotation -/
theorem quicSuite_exists (cs : Bytes) (haccept : Quic.Session.selectSuite cs ≠ none) :
    ∃ sp sel, quicSuite (Bytes.beNat cs) = some (sp, sel) := by
  unfold Quic.Session.selectSuite at haccept
  split at haccept
  · rename_i e; subst e; exact ⟨_, _, (by decide +kernel :
      quicSuite (Bytes.beNat [0x13, 0x01]) = some (⟨.aesGcm, 16, .sha256, 16⟩, ⟨.sha256, .aesgcm, 16⟩))⟩
  · split at haccept
    · rename_i e; subst e; exact ⟨_, _, (by decide +kernel :
        quicSuite (Bytes.beNat [0x13, 0x02]) = some (⟨.aesGcm, 32, .sha384, 16⟩, ⟨.sha384, .aesgcm, 32⟩))⟩
    · split at haccept
      · rename_i e; subst e; exact ⟨_, _, (by decide +kernel :
          quicSuite (Bytes.beNat [0x13, 0x03]) = some (⟨.chacha20Poly1305, 32, .sha256, 16⟩, ⟨.sha256, .chachaPoly, 32⟩))⟩
      · split at haccept
        · rename_i e; subst e; exact ⟨_, _, (by decide +kernel :
            quicSuite (Bytes.beNat [0x13, 0x04]) = some (⟨.aesCcm, 16, .sha256, 16⟩, ⟨.sha256, .aesccm, 16⟩))⟩
        · exact absurd rfl haccept


/-! ### the key log: from the TEXT of the file to what `dev_quic_keys` gets -/

theorem labelOf_quic :
    Pipeline.labelOf labelCHTS = .clientHandshake ∧ Pipeline.labelOf labelSHTS = .serverHandshake ∧
    Pipeline.labelOf labelCTS0 = .clientTraffic0 ∧ Pipeline.labelOf labelSTS0 = .serverTraffic0 ∧
    Pipeline.labelOf labelCETS = .clientEarly ∧
    Keylog.labelsQuic = [labelCHTS, labelSHTS, labelCTS0, labelSTS0, labelCETS, Keylog.s_SETS] := by decide

/-- a line of the file as `dev_quic_keys` reads it -/
def lineSecQ (cr : List Nat) (x : FLine × Bool) : Option KeySchedule.Secret :=
  match x.1 with
  | .key tr _ _ =>
    if tr.cr = cr then
      some (if Keylog.labelsQuic.contains tr.label then (Pipeline.labelOf tr.label, Pipeline.bytesOfNats tr.secret)
            else (.other, []))
    else none
  | .other _ => none

/-- `set_tls_decryptors`' filter `bytes.fromhex(key.client_random) == client_random` over the whole key log: for a file of
    well-formed lines it never raises (every line the reader's regular expression accepts has a 64-digit hexadecimal
    client-random field) and keeps exactly the lines of the connection, in file order -/
theorem quicSessionKeys_fileText (ls : List (FLine × Bool)) (hwf : ∀ x ∈ ls, x.1.WF) (cr : List Nat) :
    Keylog.quicSessionKeys ((Export.fileKeysOf (some (fileText ls))).getD []) cr = some (linesFor cr ls) := by
  rw [fileKeys_fileText, parse_fileText _ ls hwf (src_cls ls hwf)]
  unfold Keylog.quicSessionKeys
  have hall : ((ls.filterMap fun x => x.1.key?).all fun k => (Keylog.fromHex k.clientRandom).isSome) = true := by
    rw [List.all_eq_true]
    intro k hk
    obtain ⟨⟨l, b⟩, hm, hk'⟩ := List.mem_filterMap.mp hk
    cases l with
    | other s => simp [FLine.key?] at hk'
    | key tr hc hv =>
      simp only [FLine.key?, Option.some.injEq] at hk'
      subst hk'
      have w : DenotesVia _ tr hc hv := hwf _ hm
      simp [Lemmas.Keylog.fromHex_of_isHexOf w.2.2.1]
  rw [if_pos hall]
  congr 1
  clear hall
  induction ls with
  | nil => rfl
  | cons x rest ih =>
    obtain ⟨l, crlf⟩ := x
    have w := hwf (l, crlf) (by simp)
    have := ih (fun y hy => hwf y (by simp [hy]))
    cases l with
    | other s => simpa [linesFor, FLine.key?] using this
    | key tr hc hv =>
      have hx := Lemmas.Keylog.fromHex_of_isHexOf w.2.2.1
      simp only [linesFor, FLine.key?, List.filterMap_cons, List.filter_cons, hx] at this ⊢
      by_cases e : tr.cr = cr
      · simp only [e, beq_self_eq_true, if_true, List.cons.injEq, true_and]; exact this
      · have : (some tr.cr == some cr) = false := by simp [e]
        simp only [this, Bool.false_eq_true, if_false, e]; assumption

theorem quicSecrets_lines (cr : List Nat) (ls : List (FLine × Bool)) (hwf : ∀ x ∈ ls, x.1.WF) :
    quicSecrets (linesFor cr ls) = some (ls.filterMap (lineSecQ cr)) := by
  unfold quicSecrets
  induction ls with
  | nil => rfl
  | cons x rest ih =>
    obtain ⟨l, b⟩ := x
    have ih := ih (fun y hy => hwf y (by simp [hy]))
    cases l with
    | other s =>
      rw [linesFor_cons_other, ih, List.filterMap_cons]
      rfl
    | key tr hc hv =>
      have w : DenotesVia _ tr hc hv := hwf (.key tr hc hv, b) (by simp)
      have hx := Lemmas.Keylog.fromHex_of_isHexOf w.2.2.2.2.1
      rw [linesFor_cons_key]
      by_cases e : tr.cr = cr
      · rw [if_pos e, List.mapM_cons, ih]
        simp only [hx, lineSecQ, e, if_true, List.filterMap_cons]
        by_cases hl : tr.label ∈ Keylog.labelsQuic
        · simp [hl]
        · simp [hl]
      · rw [if_neg e, ih, List.filterMap_cons]
        simp [lineSecQ, e]

theorem labelOf_injQ (lab : List Nat) (hlab : lab ∈ Keylog.labelsQuic) (x : List Nat)
    (hx : Keylog.labelsQuic.contains x = true) (h : Pipeline.labelOf x = Pipeline.labelOf lab) : x = lab := by
  have hx' : x ∈ Keylog.labelsQuic := by simpa using hx
  simp only [Keylog.labelsQuic, List.mem_cons, List.mem_nil_iff, or_false] at hlab hx'
  rcases hlab with rfl | rfl | rfl | rfl | rfl | rfl <;> rcases hx' with rfl | rfl | rfl | rfl | rfl | rfl <;>
    first | rfl | (exfalso; revert h; decide)

theorem lastOf_linesQ (cr : List Nat) (ls : List (FLine × Bool)) (lab : List Nat) (hlab : lab ∈ Keylog.labelsQuic)
    (sec : Bytes) (hhas : HasLine ls lab cr (Pipeline.natsOfBytes sec))
    (honly : OnlySecret ls lab cr (Pipeline.natsOfBytes sec)) :
    lastOf (Pipeline.labelOf lab) (ls.filterMap (lineSecQ cr)) = some sec := by
  have hc : Keylog.labelsQuic.contains lab = true := by simpa using hlab
  apply lastOf_of_only
  · obtain ⟨hc', hv, crlf, hm⟩ := hhas
    refine ⟨(Pipeline.labelOf lab, sec), ?_, rfl⟩
    rw [List.mem_filterMap]
    refine ⟨_, hm, ?_⟩
    simp [lineSecQ, hc, hlab, bytesOfNats_natsOfBytes]
  · intro s hs hl
    rw [List.mem_filterMap] at hs
    obtain ⟨⟨l, crlf⟩, hm, hk⟩ := hs
    cases l with
    | other s' => simp [lineSecQ] at hk
    | key tr hc' hv =>
      simp only [lineSecQ] at hk
      by_cases e : tr.cr = cr
      · rw [if_pos e] at hk
        by_cases hlq : Keylog.labelsQuic.contains tr.label = true
        · rw [if_pos hlq] at hk
          cases hk
          have := labelOf_injQ lab hlab tr.label hlq hl
          rw [honly tr hc' hv crlf hm this e, bytesOfNats_natsOfBytes]
        · rw [if_neg hlq] at hk
          cases hk
          exfalso
          simp only [Keylog.labelsQuic, List.mem_cons, List.mem_nil_iff, or_false] at hlab
          rcases hlab with rfl | rfl | rfl | rfl | rfl | rfl <;> revert hl <;> decide
      · rw [if_neg e] at hk; cases hk

/-- no line of the connection carries the label: the key schedule finds no such secret -/
theorem lastOf_linesQ_none (cr : List Nat) (ls : List (FLine × Bool)) (lab : List Nat) (hlab : lab ∈ Keylog.labelsQuic)
    (hno : ∀ tr hc hv crlf, (FLine.key tr hc hv, crlf) ∈ ls → tr.cr = cr → tr.label ≠ lab) :
    lastOf (Pipeline.labelOf lab) (ls.filterMap (lineSecQ cr)) = none := by
  have hnone : ∀ s ∈ ls.filterMap (lineSecQ cr), s.1 ≠ Pipeline.labelOf lab := by
    intro s hs hl
    rw [List.mem_filterMap] at hs
    obtain ⟨⟨l, crlf⟩, hm, hk⟩ := hs
    cases l with
    | other s' => simp [lineSecQ] at hk
    | key tr hc' hv =>
      simp only [lineSecQ] at hk
      by_cases e : tr.cr = cr
      · rw [if_pos e] at hk
        by_cases hlq : Keylog.labelsQuic.contains tr.label = true
        · rw [if_pos hlq] at hk
          cases hk
          exact hno tr hc' hv crlf hm e (labelOf_injQ lab hlab tr.label hlq hl)
        · rw [if_neg hlq] at hk
          cases hk
          simp only [Keylog.labelsQuic, List.mem_cons, List.mem_nil_iff, or_false] at hlab
          rcases hlab with rfl | rfl | rfl | rfl | rfl | rfl <;> revert hl <;> decide
      · rw [if_neg e] at hk; cases hk
  obtain ⟨i1, i2⟩ := foldl_pick (Pipeline.labelOf lab) [] (ls.filterMap (lineSecQ cr))
    (fun s hs hl => absurd hl (hnone s hs)) none (.inl rfl)
  rcases i2 with h | h
  · exact h
  · rcases i1.mp h with h' | ⟨s, hs, hl⟩
    · cases h'
    · exact absurd hl (hnone s hs)

/-- what the key-log file says about the 0-RTT secret of the connection -/
def EarlyLine (ls : List (FLine × Bool)) (cr : List Nat) : Option Bytes → Prop
  | some e => HasLine ls labelCETS cr (Pipeline.natsOfBytes e) ∧ OnlySecret ls labelCETS cr (Pipeline.natsOfBytes e)
  | none => ∀ tr hc hv crlf, (FLine.key tr hc hv, crlf) ∈ ls → tr.cr = cr → tr.label ≠ labelCETS

/-- **the key log in FILE terms.** A key-log file of well-formed lines (`FLine.WF`: what the reader's regular expression
    accepts, or inert text) that has the four NSS lines of the connection — anywhere, any hex case, LF or CRLF, between any
    other lines, also of other connections — and no DIFFERENT secret under the same label and client random (`OnlySecret`;
    C09's consistency) gives `dev_quic_keys` exactly the connection's secrets. -/
theorem keylogHas_text (ls : List (FLine × Bool)) (hwf : ∀ x ∈ ls, x.1.WF) (cr ch sh ca sa : Bytes) (early : Option Bytes)
    (hl1 : HasLine ls labelCHTS (Pipeline.natsOfBytes cr) (Pipeline.natsOfBytes ch))
    (hl2 : HasLine ls labelSHTS (Pipeline.natsOfBytes cr) (Pipeline.natsOfBytes sh))
    (hl3 : HasLine ls labelCTS0 (Pipeline.natsOfBytes cr) (Pipeline.natsOfBytes ca))
    (hl4 : HasLine ls labelSTS0 (Pipeline.natsOfBytes cr) (Pipeline.natsOfBytes sa))
    (ho1 : OnlySecret ls labelCHTS (Pipeline.natsOfBytes cr) (Pipeline.natsOfBytes ch))
    (ho2 : OnlySecret ls labelSHTS (Pipeline.natsOfBytes cr) (Pipeline.natsOfBytes sh))
    (ho3 : OnlySecret ls labelCTS0 (Pipeline.natsOfBytes cr) (Pipeline.natsOfBytes ca))
    (ho4 : OnlySecret ls labelSTS0 (Pipeline.natsOfBytes cr) (Pipeline.natsOfBytes sa))
    (he : EarlyLine ls (Pipeline.natsOfBytes cr) early) :
    KeylogHas ((Export.fileKeysOf (some (fileText ls))).getD []) cr ch sh ca sa early := by
  obtain ⟨e1, e2, e3, e4, e5, e6⟩ := labelOf_quic
  have m1 : labelCHTS ∈ Keylog.labelsQuic := by rw [e6]; simp
  have m2 : labelSHTS ∈ Keylog.labelsQuic := by rw [e6]; simp
  have m3 : labelCTS0 ∈ Keylog.labelsQuic := by rw [e6]; simp
  have m4 : labelSTS0 ∈ Keylog.labelsQuic := by rw [e6]; simp
  have m5 : labelCETS ∈ Keylog.labelsQuic := by rw [e6]; simp
  have q1 := lastOf_linesQ _ ls _ m1 ch hl1 ho1
  have q2 := lastOf_linesQ _ ls _ m2 sh hl2 ho2
  have q3 := lastOf_linesQ _ ls _ m3 ca hl3 ho3
  have q4 := lastOf_linesQ _ ls _ m4 sa hl4 ho4
  rw [e1] at q1; rw [e2] at q2; rw [e3] at q3; rw [e4] at q4
  refine ⟨⟨_, _, quicSessionKeys_fileText ls hwf _, quicSecrets_lines _ ls hwf, q1, q2, q3, q4, ?_⟩⟩
  cases early with
  | some e =>
    have := lastOf_linesQ _ ls _ m5 e he.1 he.2
    rw [e5] at this; exact this
  | none =>
    have := lastOf_linesQ_none _ ls _ m5 he
    rw [e5] at this; exact this

/-! ### what the tool's handshake parser reads along a conformant handshake, step by step -/
section Parser

/-- the parser along the inputs `ins`: it never raises, and the `i`-th input hands exactly the complete messages `news[i]` to
    `handle_record` -/
def Steps : Tls → List CryptoIn → List (List Bytes) → Prop
  | _, [], [] => True
  | t, c :: cs, n :: ns =>
    (tlsUpdate t c).2 = none ∧ (tlsUpdate t c).1.msgs = feedRecords t.msgs n ∧ Steps (clearND (tlsUpdate t c).1) cs ns
  | _, _, _ => False

theorem steps_length (t : Tls) (ins : List CryptoIn) (news : List (List Bytes)) (h : Steps t ins news) :
    news.length = ins.length := by
  induction ins generalizing t news with
  | nil => cases news with
    | nil => rfl
    | cons _ _ => cases h
  | cons c cs ih =>
    cases news with
    | nil => cases h
    | cons n ns => simp only [List.length_cons]; rw [ih _ _ h.2.2]

theorem steps_append (t : Tls) (a b : List CryptoIn) (na nb : List (List Bytes)) (ha : Steps t a na)
    (hb : Steps (pfold t a) b nb) : Steps t (a ++ b) (na ++ nb) := by
  induction a generalizing t na with
  | nil => cases na with
    | nil => exact hb
    | cons _ _ => cases ha
  | cons c cs ih =>
    cases na with
    | nil => cases ha
    | cons n ns =>
      obtain ⟨h1, h2, h3⟩ := ha
      exact ⟨h1, h2, ih _ _ h3 (by simpa [pfold] using hb)⟩

/-- one packet-number space of the CRYPTO stream, direct style: everything `ptrace_phase` knows after the inputs `ins` -/
theorem phase_run (srv : Bool) (ptype : PType) (pt : PT) (hpt : ptOf ptype = some pt)
    (frs : List Bytes) (hne : ∀ c ∈ frs, c ≠ [])
    (hnr : ∀ m ∈ implFrame frs.flatten, recordRaises m = false)
    (ins : List CryptoIn)
    (hins : ∀ c ∈ ins, c.isServer = srv ∧ c.ptype = ptype ∧
      ∃ i, frs[i]? = some c.data ∧ c.offset = bnd frs i ∧ c.length = c.data.length)
    (t : Tls) (D : List CFrame) (cum : List Bytes)
    (hd : AllDrained t.frames) (hinv : Inv frs D (t.frames.ks (srv, pt)) cum)
    (hids : ∀ g ∈ D, g.id < t.nextId) (hidsok : IdsOK D) :
    ∃ (news : List (List Bytes)) (D' : List CFrame) (cum' : List Bytes),
      Steps t ins news ∧ cum' = cum ++ news.flatten ∧ cum' <+: implFrame frs.flatten ∧
      AllDrained (pfold t ins).frames ∧ Inv frs D' ((pfold t ins).frames.ks (srv, pt)) cum' ∧
      (∀ g ∈ D', g.id < (pfold t ins).nextId) ∧ IdsOK D' ∧
      (∀ k', k' ≠ (srv, pt) → (pfold t ins).frames.ks k' = t.frames.ks k') ∧
      D'.map C02Crypto.wire = D.map C02Crypto.wire ++ ins.map wireIn := by
  induction ins generalizing t D cum with
  | nil =>
    refine ⟨[], D, cum, trivial, by simp, ?_, hd, hinv, hids, hidsok, fun _ _ => rfl, by simp⟩
    obtain ⟨⟨j, _, _, hm, _⟩, _⟩ := hinv
    rw [hm]; exact implFrame_take_prefix frs j
  | cons c ins ih =>
    obtain ⟨hsrv, hpty, i, hi1, hi2, hi3⟩ := hins c (List.mem_cons_self ..)
    have hpt' : ptOf c.ptype = some pt := by rw [hpty]; exact hpt
    have hfrag : IsFrag frs (frameOfIn t.nextId c) := ⟨i, hi1, hi2, hi3⟩
    have hidsok' : IdsOK (D ++ [frameOfIn t.nextId c]) := idsOK_snoc D _ hidsok hids
    have hstep := inv_step frs hne D (t.frames.ks (srv, pt)) cum (frameOfIn t.nextId c) hinv hfrag hidsok'
    have hpre : cum ++ (kstep never (t.frames.ks (srv, pt)) (frameOfIn t.nextId c)).2.1 <+: implFrame frs.flatten := by
      obtain ⟨⟨j, _, _, hm, _⟩, _⟩ := hstep
      rw [hm]; exact implFrame_take_prefix frs j
    have hnew : ∀ m ∈ (kstep never (t.frames.ks (srv, pt)) (frameOfIn t.nextId c)).2.1, recordRaises m = false :=
      fun m hm => hnr m (hpre.subset (List.mem_append_right _ hm))
    have hk : kstep recordRaises (t.frames.ks (srv, pt)) (frameOfIn t.nextId c) =
        kstep never (t.frames.ks (srv, pt)) (frameOfIn t.nextId c) := by
      simp only [kstep]
      rw [msgLoop_noraise recordRaises _ hnew]
    have hup := tlsUpdate_kstep t c pt hpt' hd
    rw [hsrv, hk] at hup
    have hraised : (kstep never (t.frames.ks (srv, pt)) (frameOfIn t.nextId c)).2.2 = false := by
      simp only [kstep]; exact msgLoop_never_raised _
    rw [hraised] at hup
    simp only [Bool.false_eq_true, if_false] at hup
    have hd' : AllDrained (t.frames.set (srv, pt) (kstep never (t.frames.ks (srv, pt)) (frameOfIn t.nextId c)).1) := by
      have hown := update_own_space recordRaises t.frames (srv, pt) (frameOfIn t.nextId c) (fun q _ => hd _)
      have := C02Crypto.update_keeps_drained recordRaises t.frames (srv, pt) (frameOfIn t.nextId c) hd
        (by rw [hown, hk]; exact hraised)
      rw [hown, hk] at this
      exact this
    obtain ⟨news, D', cum', s1, s2, s3, s4, s5, s6, s7, s8, s9⟩ := ih (fun c' hc' => hins c' (List.mem_cons_of_mem _ hc'))
      (clearND (tlsUpdate t c).1) (D ++ [frameOfIn t.nextId c])
      (cum ++ (kstep never (t.frames.ks (srv, pt)) (frameOfIn t.nextId c)).2.1)
      (by rw [hup]; exact hd')
      (by rw [hup]; simpa [clearND, State.set] using hstep)
      (by
        intro g hg
        rw [hup]
        simp only [clearND]
        rcases List.mem_append.mp hg with hg | hg
        · have := hids g hg; omega
        · simp only [List.mem_singleton] at hg; subst hg; simp [frameOfIn])
      hidsok'
    refine ⟨(kstep never (t.frames.ks (srv, pt)) (frameOfIn t.nextId c)).2.1 :: news, D', cum', ?_, ?_, s3, ?_, ?_, ?_, s7, ?_, ?_⟩
    · exact ⟨by rw [hup], by rw [hup], s1⟩
    · rw [s2]; simp [List.append_assoc]
    · exact s4
    · exact s5
    · exact s6
    · intro k' hk'
      have := s8 k' hk'
      show (pfold (clearND (tlsUpdate t c).1) ins).frames.ks k' = _
      rw [this, hup]
      simp [clearND, State.set, hk']
    · rw [s9]; simp [C02Crypto.wire, frameOfIn, wireIn]

theorem pfold_app (t : Tls) (a b : List CryptoIn) : pfold t (a ++ b) = pfold (pfold t a) b := by
  simp [pfold, List.foldl_append]

/-- along `Steps`, a property of the parser's message state that every handed-over batch preserves holds after every prefix -/
theorem steps_keep (G : TlsMsgs.State → Prop) (hclr : ∀ st, G st → G { st with newData := false })
    (t : Tls) (ins : List CryptoIn) (news : List (List Bytes)) (hs : Steps t ins news)
    (hn : ∀ n ∈ news, ∀ st, G st → G (feedRecords st n)) (h0 : G t.msgs) :
    ∀ a, a <+: ins → G (pfold t a).msgs := by
  induction ins generalizing t news with
  | nil => intro a ha; rw [List.prefix_nil.mp ha]; exact h0
  | cons c cs ih =>
    cases news with
    | nil => cases hs
    | cons n ns =>
      obtain ⟨h1, h2, h3⟩ := hs
      intro a ha
      cases a with
      | nil => exact h0
      | cons x a' =>
        obtain ⟨rfl, ha'⟩ := List.cons_prefix_cons.mp ha
        show G (pfold (clearND (tlsUpdate t x).1) a').msgs
        refine ih _ ns h3 (fun n' hn' => hn n' (List.mem_cons_of_mem _ hn')) ?_ a' ha'
        show G { (tlsUpdate t x).1.msgs with newData := false }
        rw [h2]
        exact hclr _ (hn n (List.mem_cons_self ..) _ h0)

/-- the flight's messages and the client's Finished leave the selected suite alone -/
theorem feed_flight_cs (h : ConfHs) (hok : h.Ok) (csel : Bytes) (new : List Bytes)
    (hnew : ∀ m ∈ new, m = encodeEncryptedExtensions h.ee ∨ ∃ T b, m = handshake T b ∧ T < 256 ∧ T ≠ 1 ∧ T ≠ 2 ∧ T ≠ 8)
    (st : TlsMsgs.State) (h2 : st.ciphersuite = some csel) :
    (feedRecords st new).ciphersuite = some csel := by
  induction new generalizing st with
  | nil => exact h2
  | cons m new ih =>
    have hrest := fun x hx => hnew x (List.mem_cons_of_mem _ hx)
    have hstep : feedRecords st (m :: new) = feedRecords (feedRecords st [m]) new := by
      simp [feedRecords]
    rw [hstep]
    rcases hnew m (List.mem_cons_self ..) with rfl | ⟨T, b, rfl, hT, n1, n2, n8⟩
    · obtain ⟨q1, q2, q3, _⟩ := C02Hello.encrypted_extensions_parsed h.ee hok.ee st
      have : feedRecords st [encodeEncryptedExtensions h.ee] = { extsEffect st h.ee with newData := true } := by
        unfold encodeEncryptedExtensions at q1 ⊢
        rw [feed_one 8 (by decide), q1]
      rw [this]
      exact ih hrest _ (by simpa using q3.trans h2)
    · have : feedRecords st [handshake T b] = st := by
        rw [feed_one T hT]
        have hh := helloType_other T hT n1 n2 n8 b
        have hm : handshake T b = UInt8.ofNat T :: (u24 b.length ++ b) := by simp [handshake, u8_eq]
        have := handleRecord_not_hello st (handshake T b) hh (UInt8.ofNat T) _ hm
        simp [Nat.mod_eq_of_lt hT] at this
        rw [this]
      rw [this]
      exact ih hrest st h2

/-- the client's Initial CRYPTO inputs, the ServerHello input, and what follows it -/
def chIns (h : ConfHs) : List CryptoIn := h.chDl.map (inOf false .initial)
def shIn (h : ConfHs) : CryptoIn := inOf true .initial (0, encodeServerHello h.sh, (encodeServerHello h.sh).length)
def tailIns (h : ConfHs) : List CryptoIn :=
  (framesOf 0 h.sFrs).map (inOf true .handshake) ++
    [inOf false .handshake (0, handshake 20 h.cfin, (handshake 20 h.cfin).length)]

theorem ins_split (h : ConfHs) : h.ins = chIns h ++ shIn h :: tailIns h := rfl

/-- **What the tool's parser reads along a conformant handshake.** The CRYPTO input carrying the ServerHello makes
    `new_data` fire (the session installs the keys then), and after it and after every later input the parser's
    `ciphersuite` is the ServerHello's. -/
theorem parser_facts (h : ConfHs) (hok : h.Ok) :
    pfired (pfold {} (chIns h)) [shIn h] = true ∧
    ∀ b, b <+: tailIns h → (pfold {} (chIns h ++ shIn h :: b)).msgs.ciphersuite = some h.sh.cipherSuite := by
  obtain ⟨cb1, cb2⟩ := ch_body h.ch hok.ch
  obtain ⟨sb1, sb2⟩ := sh_body h.sh hok.sh
  have hM1 : implFrame h.chFrs.flatten = [encodeClientHello h.ch] := by
    rw [hok.chCut.2]
    have := single_msgs 1 h.ch.body cb1 cb2
    simp only [List.flatten_cons, List.flatten_nil, List.append_nil] at this
    exact this
  have hM2 : implFrame [encodeServerHello h.sh].flatten = [encodeServerHello h.sh] := single_msgs 2 _ sb1 sb2
  have hM3 : implFrame h.sFrs.flatten =
      [encodeEncryptedExtensions h.ee, handshake 11 h.cert, handshake 15 h.cv, handshake 20 h.sfin] := by
    rw [hok.sCut.2]; exact flight_msgs h hok
  have hM4 : implFrame [handshake 20 h.cfin].flatten = [handshake 20 h.cfin] := single_msgs 20 _ hok.cfin.1 hok.cfin.2
  have r1 : recordRaises (encodeClientHello h.ch) = false := by
    unfold encodeClientHello
    rw [raises_one 1 (by decide)]
    obtain ⟨s', e, _⟩ := C02Hello.client_hello_parsed h.ch hok.ch {}
    unfold encodeClientHello at e; rw [e]; rfl
  have r2 : recordRaises (encodeServerHello h.sh) = false := by
    unfold encodeServerHello
    rw [raises_one 2 (by decide)]
    obtain ⟨s', e, _⟩ := C02Hello.server_hello_parsed h.sh hok.sh h.shExts hok.shE {}
    unfold encodeServerHello at e; rw [e]; rfl
  have r8 : recordRaises (encodeEncryptedExtensions h.ee) = false := by
    unfold encodeEncryptedExtensions
    rw [raises_one 8 (by decide)]
    have e := (C02Hello.encrypted_extensions_parsed h.ee hok.ee {}).1
    unfold encodeEncryptedExtensions at e; rw [e]; rfl
  have rO : ∀ T b, T < 256 → T ≠ 1 → T ≠ 2 → T ≠ 8 → recordRaises (handshake T b) = false :=
    fun T b hT n1 n2 n8 => recordRaises_not_hello _ (helloType_other T hT n1 n2 n8 b)
  have hfl : ∀ m ∈ [encodeEncryptedExtensions h.ee, handshake 11 h.cert, handshake 15 h.cv, handshake 20 h.sfin],
      m = encodeEncryptedExtensions h.ee ∨ ∃ T b, m = handshake T b ∧ T < 256 ∧ T ≠ 1 ∧ T ≠ 2 ∧ T ≠ 8 := by
    intro m hm
    simp only [List.mem_cons, List.not_mem_nil, or_false] at hm
    rcases hm with rfl | rfl | rfl | rfl
    · exact Or.inl rfl
    · exact Or.inr ⟨11, _, rfl, by decide, by decide, by decide, by decide⟩
    · exact Or.inr ⟨15, _, rfl, by decide, by decide, by decide, by decide⟩
    · exact Or.inr ⟨20, _, rfl, by decide, by decide, by decide, by decide⟩
  -- phase 1: the ClientHello, any order
  obtain ⟨news1, D1, cum1, st1, c1, pre1, d1, i1, ids1, idok1, oth1, w1⟩ :=
    phase_run false .initial .initial rfl h.chFrs hok.chCut.1
      (by rw [hM1]; intro m hm; simp only [List.mem_singleton] at hm; subst hm; exact r1)
      (chIns h) (phase_inputs_ok false .initial h.chFrs h.chDl (by
        intro w hw
        rcases List.mem_append.mp (hok.chPerm.mem_iff.mp hw) with hh | hh
        · exact hh
        · exact hok.chDupsOk w hh))
      {} [] [] allDrained_init (inv_init _) (by intro g hg; cases hg) (by intro a ha; cases ha)
  -- phase 2: the ServerHello
  obtain ⟨news2, D2, cum2, st2, c2, pre2, d2, i2, ids2, idok2, oth2, w2⟩ :=
    phase_run true .initial .initial rfl [encodeServerHello h.sh]
      (by intro c hc; simp only [List.mem_singleton] at hc; subst hc; exact handshake_ne_nil _ _)
      (by rw [hM2]; intro m hm; simp only [List.mem_singleton] at hm; subst hm; exact r2)
      [shIn h] (phase_inputs_ok true .initial [encodeServerHello h.sh] [_] (by
        intro w hw; simp only [List.mem_singleton] at hw; subst hw; simp [framesOf]))
      (pfold {} (chIns h)) [] [] d1 (by rw [oth1 _ (by decide)]; exact inv_init _) (by intro g hg; cases hg)
      (by intro a ha; cases ha)
  have hdel2 : C02Crypto.Delivery [encodeServerHello h.sh] D2 := by
    refine ⟨⟨[], ?_, by simp⟩, idok2⟩
    rw [w2]; simp [wireIn, inOf, framesOf, shIn]
  have hc2 := inv_complete _ _ _ _ i2 hdel2
  rw [hM2] at hc2
  -- the one step of phase 2 hands over exactly the ServerHello
  obtain ⟨n2, rfl⟩ : ∃ n, news2 = [n] := by
    have := steps_length _ _ _ st2
    match news2, this with
    | [n], _ => exact ⟨n, rfl⟩
  have hn2 : n2 = [encodeServerHello h.sh] := by
    rw [c2] at hc2; simpa using hc2
  subst hn2
  obtain ⟨_, hm2, _⟩ := st2
  obtain ⟨s', e, q1, q2, _⟩ := C02Hello.server_hello_parsed h.sh hok.sh h.shExts hok.shE (pfold {} (chIns h)).msgs
  have hf : feedRecords (pfold {} (chIns h)).msgs [encodeServerHello h.sh] = s' := by
    unfold encodeServerHello at e ⊢; rw [feed_one 2 (by decide), e]
  rw [hf] at hm2
  refine ⟨by simp [pfired, hm2, q2], ?_⟩
  -- phases 3 and 4
  obtain ⟨news3, D3, cum3, st3, c3, pre3, d3, i3, ids3, idok3, oth3, w3⟩ :=
    phase_run true .handshake .handshake rfl h.sFrs hok.sCut.1
      (by
        rw [hM3]; intro m hm
        rcases hfl m hm with rfl | ⟨T, b, rfl, hT, n1, n2, n8⟩
        · exact r8
        · exact rO T b hT n1 n2 n8)
      ((framesOf 0 h.sFrs).map (inOf true .handshake)) (phase_inputs_ok true .handshake h.sFrs _ (fun w hw => hw))
      (pfold (pfold {} (chIns h)) [shIn h]) [] [] d2
      (by rw [oth2 _ (by decide), oth1 _ (by decide)]; exact inv_init _) (by intro g hg; cases hg)
      (by intro a ha; cases ha)
  obtain ⟨news4, D4, cum4, st4, c4, pre4, d4, i4, ids4, idok4, oth4, w4⟩ :=
    phase_run false .handshake .handshake rfl [handshake 20 h.cfin]
      (by intro c hc; simp only [List.mem_singleton] at hc; subst hc; exact handshake_ne_nil _ _)
      (by rw [hM4]; intro m hm; simp only [List.mem_singleton] at hm; subst hm
          exact rO 20 _ (by decide) (by decide) (by decide) (by decide))
      [inOf false .handshake (0, handshake 20 h.cfin, (handshake 20 h.cfin).length)]
      (phase_inputs_ok false .handshake [handshake 20 h.cfin] [_] (by
        intro w hw; simp only [List.mem_singleton] at hw; subst hw; simp [framesOf]))
      (pfold (pfold (pfold {} (chIns h)) [shIn h]) ((framesOf 0 h.sFrs).map (inOf true .handshake))) [] [] d3
      (by rw [oth3 _ (by decide), oth2 _ (by decide), oth1 _ (by decide)]; exact inv_init _)
      (by intro g hg; cases hg) (by intro a ha; cases ha)
  have st34 := steps_append _ _ _ _ _ st3 st4
  intro b hb
  have hsplit : chIns h ++ shIn h :: b = (chIns h ++ [shIn h]) ++ b := by simp
  rw [hsplit, pfold_app, pfold_app]
  refine steps_keep (fun st => st.ciphersuite = some h.sh.cipherSuite) (fun _ hh => hh) _ _ _ st34 ?_ ?_ b hb
  · intro n hn st hst
    refine feed_flight_cs h hok _ n ?_ st hst
    intro m hm
    rcases List.mem_append.mp hn with hn | hn
    · have : m ∈ cum3 := by rw [c3]; simp only [List.nil_append, List.mem_flatten]; exact ⟨n, hn, hm⟩
      exact hfl m (by rw [← hM3]; exact pre3.subset this)
    · have : m ∈ cum4 := by rw [c4]; simp only [List.nil_append, List.mem_flatten]; exact ⟨n, hn, hm⟩
      have := pre4.subset this
      rw [hM4] at this
      simp only [List.mem_singleton] at this
      exact Or.inr ⟨20, _, this, by decide, by decide, by decide, by decide⟩
  · show (clearND (tlsUpdate (pfold {} (chIns h)) (shIn h)).1).msgs.ciphersuite = _
    simp only [clearND]
    rw [hm2]; exact q1

end Parser

/-! ### the senders' own bookkeeping, and what the observer's is along a conformant handshake -/
section Sender
variable (maskFn : Dissect.MaskFn) (H : Crypto.Prims) (Pc : Cipher.Prims)

/-- what the two endpoints know themselves after the packets so far: has the server sent CRYPTO data (its ServerHello)?,
    the largest packet numbers sent per space and direction, the connection IDs in use -/
structure RTrk where
  shSent : Bool
  tc : PnTab
  ts : PnTab
  cc : List Bytes
  sc : List Bytes

def RTrk.step (r : RTrk) (x : SPkt) : RTrk :=
  { shSent := r.shSent || (x.srv && !(cryptoIns x).isEmpty),
    tc := if x.srv then r.tc else bump r.tc (spaceOf x.level) x.pn,
    ts := if x.srv then bump r.ts (spaceOf x.level) x.pn else r.ts,
    cc := (learn r.cc r.sc x).1, sc := (learn r.cc r.sc x).2 }

def rtrk0 : RTrk := ⟨false, {}, {}, [], []⟩

def RTrk.run (r : RTrk) (qs : List PkH) : RTrk := qs.foldl (fun r q => r.step q.x) r
def RTrk.runDgs (r : RTrk) (ds : List DgH) : RTrk := ds.foldl (fun r d => r.run d.pkts) r

/-- `HsPkOk` in the senders' terms: Handshake packets only once the ServerHello is out (RFC 9001 §4.1.4: the Handshake keys
    come from the ServerHello), header protection by the SUITE's algorithm (RFC 9001 §5.4.3 / §5.4.4), packet numbers
    relative to the sender's own largest one -/
structure HsPkR (L : SealLaws Pc) (dcid0 : Bytes) (sel : SuiteSel) (sh ch : Bytes) (r : RTrk) (q : PkH) : Prop where
  shape : LongShape q.x
  keys : q.x.level = .handshake → r.shSent = true
  late : r.shSent = true → ¬ (q.x.srv = false ∧ q.x.level = .initial) ∨ cryptoIns q.x = []
  frames : ∀ f ∈ q.x.frames, hsFrameQ f = true
  wf : WellFormedSeq q.x.frames
  pn : PnLenOk ((if q.x.srv then r.ts else r.tc).get (spaceOf q.x.level)) q.x.pn q.x.pnLen
  mask : maskFn (senderChacha (ltypeOf q.x.level) (hpChacha sel)) (lvlHp H dcid0 sel sh ch q.x.level q.x.srv)
    (longOf q.x (protectedPayload L.aeadSeal (lvlDec H dcid0 sel sh ch q.x.level).alg
      (lvlKey H dcid0 sel sh ch q.x.level q.x.srv) q.x)).sample = some q.mask
  mask5 : 5 ≤ q.mask.length

def HsPksR (L : SealLaws Pc) (dcid0 : Bytes) (sel : SuiteSel) (sh ch : Bytes) : RTrk → List PkH → Prop
  | _, [] => True
  | r, q :: qs => HsPkR maskFn H Pc L dcid0 sel sh ch r q ∧ HsPksR L dcid0 sel sh ch (r.step q.x) qs

def HsDgR (L : SealLaws Pc) (dcid0 : Bytes) (sel : SuiteSel) (sh ch : Bytes) (r : RTrk) (d : DgH) : Prop :=
  (∀ q ∈ d.pkts, q.x.srv = d.srv ∧ q.x.ts = d.ts) ∧ DcidOk r.cc r.sc d.srv (dgDcid d) ∧
  HsPksR maskFn H Pc L dcid0 sel sh ch r d.pkts

def HsDgsR (L : SealLaws Pc) (dcid0 : Bytes) (sel : SuiteSel) (sh ch : Bytes) : RTrk → List DgH → Prop
  | _, [] => True
  | r, d :: ds => HsDgR maskFn H Pc L dcid0 sel sh ch r d ∧ HsDgsR L dcid0 sel sh ch (r.run d.pkts) ds

/-- the observer's bookkeeping `t` and the senders' `r` after the CRYPTO inputs `a` -/
structure Sync (a : List CryptoIn) (t : Trk) (r : RTrk) : Prop where
  core : t.core = pfold {} a
  keyed : t.keyed = r.shSent
  sent : r.shSent = a.any (·.isServer)
  tc : t.tc = r.tc
  ts : t.ts = r.ts
  cc : t.cc = r.cc
  sc : t.sc = r.sc

theorem sync0 : Sync [] trk0 rtrk0 := ⟨rfl, rfl, rfl, rfl, rfl, rfl, rfl⟩

theorem mem_cryptoIns (x : SPkt) (c : CryptoIn) (h : c ∈ cryptoIns x) : c.isServer = x.srv ∧ c.ptype = x.level.ptype := by
  unfold cryptoIns at h
  obtain ⟨f, _, hf⟩ := List.mem_filterMap.mp h
  split at hf
  · cases hf; exact ⟨rfl, rfl⟩
  · cases hf

theorem chIns_client (h : ConfHs) : ∀ c ∈ chIns h, c.isServer = false ∧ c.ptype = .initial := by
  intro c hc
  obtain ⟨w, _, rfl⟩ := List.mem_map.mp hc
  exact ⟨rfl, rfl⟩

/-- a prefix of the handshake's CRYPTO inputs: within the ClientHello, or past the ServerHello -/
theorem prefix_cases (h : ConfHs) (a : List CryptoIn) (ha : a <+: h.ins) :
    (a <+: chIns h ∧ a.any (·.isServer) = false) ∨ (∃ b, a = chIns h ++ shIn h :: b ∧ b <+: tailIns h ∧ a.any (·.isServer) = true) := by
  rw [ins_split] at ha
  rcases List.prefix_or_prefix_of_prefix ha (List.prefix_append (chIns h) _) with h1 | h1
  · left
    refine ⟨h1, ?_⟩
    rw [List.any_eq_false]
    intro c hc
    simp [(chIns_client h c (h1.subset hc)).1]
  · obtain ⟨a', rfl⟩ := h1
    have ha' : a' <+: shIn h :: tailIns h := (List.prefix_append_right_inj _).mp ha
    cases a' with
    | nil =>
      left
      refine ⟨by simp, ?_⟩
      rw [List.any_eq_false]
      intro c hc
      simp only [List.append_nil] at hc
      simp [(chIns_client h c hc).1]
    | cons c b =>
      obtain ⟨rfl, hb⟩ := List.cons_prefix_cons.mp ha'
      right
      exact ⟨b, rfl, hb, by simp [shIn, inOf]⟩

theorem chacha_of_sel (cs : Bytes) (sel : SuiteSel) (h : selectSuite cs = some sel) :
    (cs == [0x13, 0x03]) = hpChacha sel := by
  unfold selectSuite at h
  repeat' split at h
  all_goals first
    | (cases h; rename_i e; subst e; decide)
    | (cases h)

theorem level_ptype_initial (l : Level) (h : l.ptype = .initial) : l = .initial := by
  cases l <;> simp [Level.ptype] at h ⊢

/-- the observer's `keyed` follows the senders' `shSent` -/
theorem keyed_sync (h : ConfHs) (hok : h.Ok) (a rest : List CryptoIn) (x : SPkt)
    (hins : h.ins = a ++ cryptoIns x ++ rest) :
    (a.any (·.isServer) || (pfired (pfold {} a) (cryptoIns x) && !(!x.srv && decide (x.level = .initial)))) =
      (a.any (·.isServer) || (x.srv && !(cryptoIns x).isEmpty)) := by
  have hpre : a <+: h.ins := ⟨cryptoIns x ++ rest, by rw [hins, List.append_assoc]⟩
  rcases prefix_cases h a hpre with ⟨ha, hany⟩ | ⟨b, _, _, hany⟩
  · rw [hany, Bool.false_or, Bool.false_or]
    cases hseg : cryptoIns x with
    | nil => simp [pfired]
    | cons c seg =>
      obtain ⟨hc1, hc2⟩ := mem_cryptoIns x c (by rw [hseg]; exact List.mem_cons_self ..)
      -- where `c` stands in the handshake's inputs
      obtain ⟨a'', ha''⟩ := ha
      have hsplit : a'' ++ shIn h :: tailIns h = c :: (seg ++ rest) := by
        have := hins
        rw [ins_split, ← ha'', hseg, List.append_assoc, List.append_assoc] at this
        simpa using List.append_cancel_left this
      cases a'' with
      | cons c' a3 =>
        simp only [List.cons_append, List.cons.injEq] at hsplit
        obtain ⟨rfl, _⟩ := hsplit
        obtain ⟨k1, k2⟩ := chIns_client h c' (by rw [← ha'']; simp)
        -- a client Initial packet
        have hs : x.srv = false := by rw [← hc1]; exact k1
        have hl : x.level = .initial := level_ptype_initial _ (by rw [← hc2]; exact k2)
        simp [hs, hl]
      | nil =>
        simp only [List.nil_append, List.cons.injEq] at hsplit
        obtain ⟨rfl, _⟩ := hsplit
        have hs : x.srv = true := by rw [← hc1]; rfl
        have haeq : a = chIns h := by simpa using ha''
        have hfire := (parser_facts h hok).1
        simp only [pfired, Bool.or_false] at hfire
        simp [hs, pfired, haeq, hfire]
  · rw [hany]; simp

/-- … and past the ServerHello its `ciphersuite` decides for the suite's header-protection algorithm -/
theorem chacha_sync (h : ConfHs) (hok : h.Ok) (sel : SuiteSel) (hsel : selectSuite h.sh.cipherSuite = some sel)
    (a : List CryptoIn) (ha : a <+: h.ins) (hany : a.any (·.isServer) = true) :
    chachaOf (pfold {} a) = hpChacha sel := by
  rcases prefix_cases h a ha with ⟨_, hn⟩ | ⟨b, rfl, hb, _⟩
  · rw [hn] at hany; cases hany
  · unfold chachaOf
    rw [(parser_facts h hok).2 b hb, ← chacha_of_sel _ _ hsel]
    simp

theorem sync_step (h : ConfHs) (hok : h.Ok) (a rest : List CryptoIn) (x : SPkt)
    (hins : h.ins = a ++ cryptoIns x ++ rest) (t : Trk) (r : RTrk) (hs : Sync a t r) :
    Sync (a ++ cryptoIns x) (t.step x) (r.step x) := by
  obtain ⟨s1, s2, s3, s4, s5, s6, s7⟩ := hs
  have hsent : (r.step x).shSent = (a ++ cryptoIns x).any (·.isServer) := by
    simp only [RTrk.step, s3, List.any_append]
    congr 1
    cases hseg : cryptoIns x with
    | nil => simp
    | cons c seg =>
      have hall : ∀ c' ∈ c :: seg, c'.isServer = x.srv := fun c' hc' => (mem_cryptoIns x c' (by rw [hseg]; exact hc')).1
      cases hsv : x.srv
      · rw [Bool.false_and]; symm; rw [List.any_eq_false]; intro c' hc'; simp [hall c' hc', hsv]
      · have := hall c (List.mem_cons_self ..)
        simp [this, hsv]
  refine ⟨?_, ?_, hsent, ?_, ?_, ?_, ?_⟩
  · simp only [Trk.step, s1, pfold_app]
  · rw [hsent]
    simp only [Trk.step, s1, s2, s3]
    rw [keyed_sync h hok a rest x hins, List.any_append]
    congr 1
    cases hseg : cryptoIns x with
    | nil => simp
    | cons c seg =>
      have hall : ∀ c' ∈ c :: seg, c'.isServer = x.srv := fun c' hc' => (mem_cryptoIns x c' (by rw [hseg]; exact hc')).1
      cases hsv : x.srv
      · rw [Bool.false_and]; symm; rw [List.any_eq_false]; intro c' hc'; simp [hall c' hc', hsv]
      · have := hall c (List.mem_cons_self ..)
        simp [this, hsv]
  · simp only [Trk.step, RTrk.step, s4]
  · simp only [Trk.step, RTrk.step, s5]
  · simp only [Trk.step, RTrk.step, s6, s7]
  · simp only [Trk.step, RTrk.step, s6, s7]

variable {maskFn H Pc}

theorem pkOk_of_rfc (h : ConfHs) (hok : h.Ok) (L : SealLaws Pc) (dcid0 : Bytes) (sel : SuiteSel) (sh ch : Bytes)
    (hsel : selectSuite h.sh.cipherSuite = some sel) (a : List CryptoIn) (ha : a <+: h.ins) (t : Trk) (r : RTrk)
    (hs : Sync a t r) (q : PkH) (hq : HsPkR maskFn H Pc L dcid0 sel sh ch r q) :
    HsPkOk maskFn H Pc L dcid0 sel sh ch t q := by
  obtain ⟨q1, q2, q3, q4, q5, q6, q7, q8⟩ := hq
  refine ⟨q1, fun hl => by rw [hs.keyed]; exact q2 hl, fun hk => q3 (by rw [← hs.keyed]; exact hk), q4, q5,
    by rw [hs.tc, hs.ts]; exact q6, ?_, q8⟩
  rcases q1.level with hl | hl
  · rw [hl] at q7 ⊢; exact q7
  · have hk := q2 hl
    rw [hs.sent] at hk
    rw [hs.core, chacha_sync h hok sel hsel a ha hk]
    exact q7

theorem pks_of_rfc (h : ConfHs) (hok : h.Ok) (L : SealLaws Pc) (dcid0 : Bytes) (sel : SuiteSel) (sh ch : Bytes)
    (hsel : selectSuite h.sh.cipherSuite = some sel) (qs : List PkH) (a rest : List CryptoIn)
    (hins : h.ins = a ++ insOf qs ++ rest) (t : Trk) (r : RTrk) (hs : Sync a t r)
    (hq : HsPksR maskFn H Pc L dcid0 sel sh ch r qs) :
    HsPks maskFn H Pc L dcid0 sel sh ch t qs ∧ Sync (a ++ insOf qs) (t.run qs) (r.run qs) := by
  induction qs generalizing a t r with
  | nil => exact ⟨trivial, by simpa [insOf, Trk.run, RTrk.run] using hs⟩
  | cons q qs ih =>
    obtain ⟨hq1, hq2⟩ := hq
    have hins' : h.ins = a ++ cryptoIns q.x ++ (insOf qs ++ rest) := by
      rw [hins]; simp [insOf, List.flatMap_cons, List.append_assoc]
    have hpre : a <+: h.ins := ⟨cryptoIns q.x ++ (insOf qs ++ rest), by rw [hins', List.append_assoc]⟩
    have hstep := sync_step h hok a _ q.x hins' t r hs
    obtain ⟨i1, i2⟩ := ih (a ++ cryptoIns q.x) (by rw [hins', List.append_assoc, List.append_assoc, List.append_assoc]) (t.step q.x) (r.step q.x) hstep hq2
    refine ⟨⟨pkOk_of_rfc h hok L dcid0 sel sh ch hsel a hpre t r hs q hq1, i1⟩, ?_⟩
    have : a ++ insOf (q :: qs) = a ++ cryptoIns q.x ++ insOf qs := by simp [insOf, List.flatMap_cons, List.append_assoc]
    rw [this]
    exact i2

theorem dgs_of_rfc (h : ConfHs) (hok : h.Ok) (L : SealLaws Pc) (dcid0 : Bytes) (sel : SuiteSel) (sh ch : Bytes)
    (hsel : selectSuite h.sh.cipherSuite = some sel) (ds : List DgH) (a rest : List CryptoIn)
    (hins : h.ins = a ++ allIns ds ++ rest) (t : Trk) (r : RTrk) (hs : Sync a t r)
    (hd : HsDgsR maskFn H Pc L dcid0 sel sh ch r ds) :
    HsDgs maskFn H Pc L dcid0 sel sh ch t ds ∧ Sync (a ++ allIns ds) (t.runDgs ds) (r.runDgs ds) := by
  induction ds generalizing a t r with
  | nil => exact ⟨trivial, by simpa [allIns, Trk.runDgs, RTrk.runDgs] using hs⟩
  | cons d ds ih =>
    obtain ⟨⟨d1, d2, d3⟩, hd2⟩ := hd
    have hins' : h.ins = a ++ insOf d.pkts ++ (allIns ds ++ rest) := by
      rw [hins]; simp [allIns, List.flatMap_cons, List.append_assoc]
    obtain ⟨p1, p2⟩ := pks_of_rfc h hok L dcid0 sel sh ch hsel d.pkts a _ hins' t r hs d3
    obtain ⟨i1, i2⟩ := ih (a ++ insOf d.pkts) (by rw [hins', List.append_assoc, List.append_assoc, List.append_assoc]) (t.run d.pkts) (r.run d.pkts) p2 hd2
    refine ⟨⟨⟨d1, by rw [hs.cc, hs.sc]; exact d2, p1⟩, i1⟩, ?_⟩
    have : a ++ allIns (d :: ds) = a ++ insOf d.pkts ++ allIns ds := by simp [allIns, List.flatMap_cons, List.append_assoc]
    rw [this]
    exact i2

end Sender

/-! ### the capture, the key-log file and the senders in RFC / file terms -/
section CaptureRfc
variable (maskFn : Quic.Dissect.MaskFn) (H : Crypto.Prims) (Pc : Cipher.Prims)

/-- the handshake / 1-RTT datagrams of a described capture, in capture order -/
def hsOf : List QEv → List DgH
  | [] => []
  | .hs _ _ _ d :: rest => d :: hsOf rest
  | _ :: rest => hsOf rest

def onesOf : List QEv → List Dg1
  | [] => []
  | .one _ _ _ d :: rest => d :: onesOf rest
  | _ :: rest => onesOf rest

theorem hsItems_dgs (fl : Flow) (kl : List Keylog.Key) (n : Nat) (evs : List QEv) :
    (hsItems fl kl n evs).map (·.2.2) = hsOf evs := by
  induction evs generalizing n with
  | nil => rfl
  | cons ev rest ih => cases ev <;> simp [hsItems, hsOf, ih]

theorem oneItems_dgs (fl : Flow) (n : Nat) (evs : List QEv) : (oneItems fl n evs).map (·.2) = onesOf evs := by
  induction evs generalizing n with
  | nil => rfl
  | cons ev rest ih => cases ev <;> simp [oneItems, onesOf, ih]

theorem hsItems_pre (fl : Flow) (kl : List Keylog.Key) (n : Nat) (pre rest : List QEv) (h : ∀ ev ∈ pre, noHs ev = true) :
    hsItems fl kl n (pre ++ rest) = hsItems fl kl (n + pre.length) rest := by
  induction pre generalizing n with
  | nil => rfl
  | cons ev pre ih =>
    have h1 := h ev (List.mem_cons_self ..)
    have := ih (n + 1) (fun e he => h e (List.mem_cons_of_mem _ he))
    cases ev with
    | hs _ _ _ _ => cases h1
    | one _ _ _ _ => simp only [List.cons_append, hsItems, this, List.length_cons]; congr 1; omega
    | foreign _ => simp only [List.cons_append, hsItems, this, List.length_cons]; congr 1; omega

/-- **C02's hypotheses in RFC / file terms.** Nothing here mentions the tool's state.
    * the suite: the ServerHello's code point is a TLS 1.3 one (RFC 8446 B.4) and `(sp, sel)` is what its IANA name denotes
      (`Spec.RfcQuic.quicSuite`: `Spec.Iana` + `Spec.denote`, RFC 9001 §5.3);
    * the key log: the TEXT `fileText ls` of a file of well-formed lines (`FLine.WF`: what the reader's regular expression
      accepts, or inert text; lines of other connections included) has the connection's four NSS lines and no different secret
      for the same label and client random; `early` is the CLIENT_EARLY_TRAFFIC_SECRET line's secret if there is one;
    * the capture: `pre` (no handshake datagram of the connection), the client's first datagram `d0`, the other events of the
      handshake phase, then the 1-RTT phase — each datagram with the wire bytes of RFC 9000 / 9001 under the keys the RFC
      schedule derives from the secrets in the file;
    * the senders: `HsDgsR` / `Send1` relative to THEIR OWN bookkeeping `RTrk` (packet numbers sent, CIDs in use, ServerHello
      sent), header protection by the suite's algorithm `hpChacha sel`. -/
structure QuicCaptureRfc (L : SealLaws Pc) (args : Args) (ls : List (FLine × Bool)) (pm : List (Int × Int))
    (ports : List Int) (fl : Flow) (hs : ConfHs) (ch sh ca sa : Bytes) (early : Option Bytes) (sp : SuiteSpec)
    (sel : SuiteSel) (pre : List QEv) (t0 : Container.Time) (fr0 : Spec.FrameBuild.Frame) (u0 : Udp) (d0 : DgH)
    (restH evsO : List QEv) : Prop where
  lawful : H.Lawful
  sha256 : H.sha256.outLen = 32
  times : ∀ e ∈ ((pre ++ .hs t0 fr0 u0 d0 :: restH) ++ evsO).map QEv.cap, Ingest.isMinusOne e.t = false
  noc : args.checksumTest = false
  nometa : args.metadata = false
  pmOk : Options.getPortMap Options.Src.bare args.mArg = .ok pm
  portsOk : Options.serverPorts Options.Src.builtin Options.Src.pDefault args.pArg = .ok ports
  endpoints : clientEp fl ≠ serverEp fl
  clientPort : ports.contains (fl.clientPort : Int) = false
  hsOk : hs.Ok
  /-- the suite, by the registry -/
  tls13 : hs.sh.cipherSuite ∈ tls13Codes
  suite : quicSuite (Bytes.beNat hs.sh.cipherSuite) = some (sp, sel)
  outLen : (hashOf H sel.hash).outLen < 65536
  saLen : sa.length = (hashOf H sel.hash).outLen
  caLen : ca.length = (hashOf H sel.hash).outLen
  /-- the key-log file, as text -/
  linesWf : ∀ x ∈ ls, x.1.WF
  lineCH : HasLine ls labelCHTS (Pipeline.natsOfBytes hs.ch.random) (Pipeline.natsOfBytes ch)
  lineSH : HasLine ls labelSHTS (Pipeline.natsOfBytes hs.ch.random) (Pipeline.natsOfBytes sh)
  lineCA : HasLine ls labelCTS0 (Pipeline.natsOfBytes hs.ch.random) (Pipeline.natsOfBytes ca)
  lineSA : HasLine ls labelSTS0 (Pipeline.natsOfBytes hs.ch.random) (Pipeline.natsOfBytes sa)
  onlyCH : OnlySecret ls labelCHTS (Pipeline.natsOfBytes hs.ch.random) (Pipeline.natsOfBytes ch)
  onlySH : OnlySecret ls labelSHTS (Pipeline.natsOfBytes hs.ch.random) (Pipeline.natsOfBytes sh)
  onlyCA : OnlySecret ls labelCTS0 (Pipeline.natsOfBytes hs.ch.random) (Pipeline.natsOfBytes ca)
  onlySA : OnlySecret ls labelSTS0 (Pipeline.natsOfBytes hs.ch.random) (Pipeline.natsOfBytes sa)
  earlyLine : EarlyLine ls (Pipeline.natsOfBytes hs.ch.random) early
  /-- the capture -/
  preNoHs : ∀ ev ∈ pre, noHs ev = true
  fromClient : d0.srv = false
  described : QDescribed fl (dgWire H Pc L (dgDcid d0) sel sh ch)
    (wireOf H Pc L sel .v1 (rfcGen (hashOf H sel.hash) sel.keyLen sa ca 0)) (optsOf args ports pm)
    ((pre ++ .hs t0 fr0 u0 d0 :: restH) ++ evsO)
  phaseH : ∀ ev ∈ pre ++ .hs t0 fr0 u0 d0 :: restH, noOne ev = true
  phaseO : ∀ ev ∈ evsO, noHs ev = true
  /-- the senders -/
  hsDgs : HsDgsR maskFn H Pc L (dgDcid d0) sel sh ch rtrk0 (d0 :: hsOf restH)
  hsIns : allIns (d0 :: hsOf restH) = hs.ins
  send1 : Send1 maskFn H Pc L sel .v1 (rfcGen (hashOf H sel.hash) sel.keyLen sa ca 0)
      (quicHp (hashOf H sel.hash) ca sel.keyLen) (quicHp (hashOf H sel.hash) sa sel.keyLen) (hpChacha sel) 0 0
      (rtrk0.runDgs (d0 :: hsOf restH)).tc.app (rtrk0.runDgs (d0 :: hsOf restH)).ts.app
      (rtrk0.runDgs (d0 :: hsOf restH)).cc (rtrk0.runDgs (d0 :: hsOf restH)).sc (onesOf evsO)
  routes : Routes1 (wireOf H Pc L sel .v1 (rfcGen (hashOf H sel.hash) sel.keyLen sa ca 0))
      (rtrk0.runDgs (d0 :: hsOf restH)).cc (rtrk0.runDgs (d0 :: hsOf restH)).sc (onesOf evsO)
  distinct : ((onesOf evsO).map fun d => (d.x.ts, d.x.srv)).Pairwise (· ≠ ·)

variable {maskFn H Pc}

/-- every tool-side hypothesis of `C02File.QuicCapture` DERIVED: the tool's suite table from the IANA denotation, what
    `dev_quic_keys` reads from the file text, the parser state (`parser_facts`), `keyed`, the header-protection switch, the
    learnt connection IDs and packet numbers from the senders' own -/
theorem capture_of_rfc {L : SealLaws Pc} {args : Args} {ls : List (FLine × Bool)} {pm : List (Int × Int)}
    {ports : List Int} {fl : Flow} {hs : ConfHs} {ch sh ca sa : Bytes} {early : Option Bytes} {sp : SuiteSpec}
    {sel : SuiteSel} {pre : List QEv} {t0 : Container.Time} {fr0 : Spec.FrameBuild.Frame} {u0 : Udp} {d0 : DgH}
    {restH evsO : List QEv}
    (h : QuicCaptureRfc maskFn H Pc L args ls pm ports fl hs ch sh ca sa early sp sel pre t0 fr0 u0 d0 restH evsO) :
    QuicCapture maskFn H Pc L args (some (fileText ls)) pm ports fl hs ch sh ca sa early sel
      (pre ++ .hs t0 fr0 u0 d0 :: restH) evsO ((fileKeysOf (some (fileText ls))).getD [])
      (dgPkt fl false u0.payload pre.length) d0
      (hsItems fl ((fileKeysOf (some (fileText ls))).getD []) (pre.length + 1) restH) := by
  obtain ⟨hsel, _, _⟩ := selectSuite_tls13 _ h.tls13 sp sel h.suite
  have hdgs : (hsItems fl ((fileKeysOf (some (fileText ls))).getD []) (pre.length + 1) restH).map (·.2.2) = hsOf restH :=
    hsItems_dgs ..
  obtain ⟨k1, k2⟩ := dgs_of_rfc hs h.hsOk L (dgDcid d0) sel sh ch hsel (d0 :: hsOf restH) [] []
    (by rw [h.hsIns]; simp) trk0 rtrk0 sync0 h.hsDgs
  have hkeyed : (trk0.runDgs (d0 :: hsOf restH)).keyed = true := by
    rw [k2.keyed, k2.sent, List.nil_append, h.hsIns, ins_split]
    simp [shIn, inOf]
  have hch : chachaOf (trk0.runDgs (d0 :: hsOf restH)).core = hpChacha sel := by
    rw [k2.core]
    refine chacha_sync hs h.hsOk sel hsel _ (by rw [List.nil_append, h.hsIns]; exact List.prefix_refl _) ?_
    rw [List.nil_append, h.hsIns, ins_split]; simp [shIn, inOf]
  exact
    { lawful := h.lawful, sha256 := h.sha256, times := h.times, noc := h.noc, nometa := h.nometa, pmOk := h.pmOk,
      portsOk := h.portsOk, endpoints := h.endpoints, clientPort := h.clientPort, hsOk := h.hsOk, suite := hsel,
      outLen := h.outLen, saLen := h.saLen, caLen := h.caLen,
      keylog := keylogHas_text ls h.linesWf _ _ _ _ _ early h.lineCH h.lineSH h.lineCA h.lineSA h.onlyCH h.onlySH h.onlyCA
        h.onlySA h.earlyLine,
      first := by
        rw [hsItems_pre fl _ 0 pre _ h.preNoHs, Nat.zero_add]
        simp only [hsItems, h.fromClient]
      fromClient := h.fromClient, described := h.described, phaseH := h.phaseH, phaseO := h.phaseO,
      hsDgs := by rw [hdgs]; exact k1,
      hsIns := by rw [hdgs]; exact h.hsIns,
      keyed := by rw [hdgs]; exact hkeyed,
      send1 := by
        rw [hdgs, oneItems_dgs, hch, k2.tc, k2.ts, k2.cc, k2.sc]; exact h.send1
      routes := by rw [hdgs, oneItems_dgs, k2.cc, k2.sc]; exact h.routes
      distinct := by rw [oneItems_dgs]; exact h.distinct }

/-- **C02 FROM FILE TO FILE, hypotheses in RFC / file terms only.** For the bytes of a capture file in any container variant
    (independent encoder) and the TEXT of a key-log file: a QUIC v1 connection with a conformant TLS 1.3 handshake, any of
    the four suites by their IANA denotation, whose secrets' NSS lines stand in the file, sent as RFC 9000 / 9001 say relative
    to the senders' own bookkeeping — the tool writes a file that reads back exactly the connection's block (or aborts in
    the write loop). No hypothesis mentions the tool's state (`QuicCaptureRfc`). -/
theorem quic_capture_exact_rfc {L : SealLaws Pc} {args : Args} {ls : List (FLine × Bool)} {pm : List (Int × Int)}
    {ports : List Int} {fl : Flow} {hs : ConfHs} {ch sh ca sa : Bytes} {early : Option Bytes} {sp : SuiteSpec}
    {sel : SuiteSel} {pre : List QEv} {t0 : Container.Time} {fr0 : Spec.FrameBuild.Frame} {u0 : Udp} {d0 : DgH}
    {restH evsO : List QEv}
    (h : QuicCaptureRfc maskFn H Pc L args ls pm ports fl hs ch sh ca sa early sp sel pre t0 fr0 u0 d0 restH evsO)
    (cv : Spec.Containers.Variant) (cevs : List Spec.Containers.Ev) (hcwf : cv.WF cevs)
    (hitems : cevs.filterMap (Spec.Containers.scale cv) =
      (((pre ++ .hs t0 fr0 u0 d0 :: restH) ++ evsO).map QEv.cap).map CapEv.item) :
    (∃ e, exportFile maskFn H Pc args cv.isLegacy (some (fileText ls)) (Spec.Containers.encode cv cevs) = .abort (.write e)) ∨
    ∃ f, exportFile maskFn H Pc args cv.isLegacy (some (fileText ls)) (Spec.Containers.encode cv cevs) = .file f ∧
      ReadsBack f (blockOf (maskFn := maskFn) (H := H) (Pc := Pc) args pm ports fl (pre ++ .hs t0 fr0 u0 d0 :: restH) evsO
        (dgPkt fl false u0.payload pre.length)) :=
  quic_capture_exact_encoded (capture_of_rfc h) cv cevs hcwf hitems

/-- … without the abort alternative, under the explicit ranges of `C02File.quic_capture_exact_ranges` -/
theorem quic_capture_rfc_ranges {L : SealLaws Pc} {args : Args} {ls : List (FLine × Bool)} {pm : List (Int × Int)}
    {ports : List Int} {fl : Flow} {hs : ConfHs} {ch sh ca sa : Bytes} {early : Option Bytes} {sp : SuiteSpec}
    {sel : SuiteSel} {pre : List QEv} {t0 : Container.Time} {fr0 : Spec.FrameBuild.Frame} {u0 : Udp} {d0 : DgH}
    {restH evsO : List QEv}
    (h : QuicCaptureRfc maskFn H Pc L args ls pm ports fl hs ch sh ca sa early sp sel pre t0 fr0 u0 d0 restH evsO)
    (cv : Spec.Containers.Variant) (cevs : List Spec.Containers.Ev) (hcwf : cv.WF cevs)
    (hitems : cevs.filterMap (Spec.Containers.scale cv) =
      (((pre ++ .hs t0 fr0 u0 d0 :: restH) ++ evsO).map QEv.cap).map CapEv.item)
    (hforeign : ∀ e, QEv.foreign e ∈ (pre ++ .hs t0 fr0 u0 d0 :: restH) ++ evsO → ∀ tag, NotTls (pktOf tag e.d))
    (hsp : TcpOut.exportedServerPort (Options.keepOriginalPorts args.mArg) (Pipeline.portmapFn pm) fl.serverPort < 65536)
    (hlen : ∀ d ∈ onesOf evsO, (if fl.v6 then 0 else 20) + 8 + (streamData d.x.frames).flatten.length < 65536)
    (hts : ∀ d ∈ onesOf evsO, d.x.ts < 2 ^ 64) :
    ∃ f, exportFile maskFn H Pc args cv.isLegacy (some (fileText ls)) (Spec.Containers.encode cv cevs) = .file f ∧
      ReadsBack f (blockOf (maskFn := maskFn) (H := H) (Pc := Pc) args pm ports fl (pre ++ .hs t0 fr0 u0 d0 :: restH) evsO
        (dgPkt fl false u0.payload pre.length)) :=
  quic_capture_exact_ranges (capture_of_rfc h) cv.isLegacy _ (by rw [Props.C12.reader_roundtrip cv cevs hcwf, hitems])
    hforeign hsp (by rw [oneItems_dgs]; exact hlen) (by rw [oneItems_dgs]; exact hts)

/-- what C02 demands of the output, in the senders' terms alone: one UDP frame per 1-RTT datagram that carried a STREAM
    frame, in capture order, payload = that datagram's STREAM data, its capture microsecond, between the client's endpoint
    and the server's address with the exported port, MAC addresses and IP version of the client's first datagram -/
def blockR (args : Args) (pm : List (Int × Int)) (fl : Flow) (fr0 : Spec.FrameBuild.Frame) (ds : List Dg1) :
    List Pipeline.OutPkt :=
  (ds.filter fun d => hasStream d.x.frames).map fun d =>
    let s : MainLoop.Endpoint := ⟨(serverEp fl).ip,
      TcpOut.exportedServerPort (Options.keepOriginalPorts args.mArg) (Pipeline.portmapFn pm) (serverEp fl).port⟩
    if d.x.srv then ⟨d.x.ts, fr0.dstMac, fr0.srcMac, s, clientEp fl, fl.v6, 0, 0, 0, (streamData d.x.frames).flatten, true⟩
    else ⟨d.x.ts, fr0.srcMac, fr0.dstMac, clientEp fl, s, fl.v6, 0, 0, 0, (streamData d.x.frames).flatten, true⟩

theorem blockOf_rfc {L : SealLaws Pc} {args : Args} {ls : List (FLine × Bool)} {pm : List (Int × Int)}
    {ports : List Int} {fl : Flow} {hs : ConfHs} {ch sh ca sa : Bytes} {early : Option Bytes} {sp : SuiteSpec}
    {sel : SuiteSel} {pre : List QEv} {t0 : Container.Time} {fr0 : Spec.FrameBuild.Frame} {u0 : Udp} {d0 : DgH}
    {restH evsO : List QEv}
    (h : QuicCaptureRfc maskFn H Pc L args ls pm ports fl hs ch sh ca sa early sp sel pre t0 fr0 u0 d0 restH evsO) :
    blockOf (maskFn := maskFn) (H := H) (Pc := Pc) args pm ports fl (pre ++ .hs t0 fr0 u0 d0 :: restH) evsO
      (dgPkt fl false u0.payload pre.length) = blockR args pm fl fr0 (onesOf evsO) := by
  obtain ⟨c1, c2, c3, c4, _⟩ := conn_of_capture (capture_of_rfc h)
  have hev : QEv.hs t0 fr0 u0 d0 ∈ (pre ++ .hs t0 fr0 u0 d0 :: restH) ++ evsO := by simp
  obtain ⟨hdg, _, _, _⟩ := h.described _ hev
  rw [h.fromClient] at hdg
  have hcap : (((pre ++ .hs t0 fr0 u0 d0 :: restH) ++ evsO).map QEv.cap)[pre.length]? = some (QEv.hs t0 fr0 u0 d0).cap := by
    simp [List.getElem?_append_left, List.getElem?_append_right]
  have hinfo := capInfo_at _ pre.length _ hcap
  simp only [QEv.cap] at hinfo
  rw [infoOf_dg fl false fr0 u0 hdg] at hinfo
  have hc' : ¬ (fl.clientPort : Int) ∈ ports := by simpa using h.clientPort
  generalize hc : (quicMachine maskFn H Pc (capInfo (((pre ++ .hs t0 fr0 u0 d0 :: restH) ++ evsO).map QEv.cap))).new
    (optsOf args ports pm) (dgPkt fl false u0.payload pre.length) = c at c1 c2 c3 c4
  have m1 : c.serverMac = fr0.dstMac := by
    rw [← hc]; simp only [quicMachine, dgPkt, clientEp, optsOf, h.clientPort, hinfo, Bool.false_eq_true, if_false]
  have m2 : c.clientMac = fr0.srcMac := by
    rw [← hc]; simp only [quicMachine, dgPkt, clientEp, optsOf, h.clientPort, hinfo, Bool.false_eq_true, if_false]
  unfold blockOf blockR expectedOut
  rw [hc, oneItems_dgs]
  apply List.map_congr_left
  intro d _
  simp only [addressed, c1, c2, c3, c4, m1, m2]
  rfl

end CaptureRfc

end TLX.Props.C02Rfc
