/-
C01 / C08 / C13 / C03 for the COMPOSED TLS model (`TLX/Pipeline.lean`): session state machine ∘ record layer, and the
whole per-connection pipeline reassembly → session → `OutputBuilder`.

WORK IN PROGRESS HEADER (rewritten at the end)
-/
import TLX.Lemmas.Pipeline
set_option linter.unusedSimpArgs false
namespace TLX.Props.C01Pipeline
open TLX TLX.Cipher TLX.RecordLayer TLX.Spec.TlsSender TLX.Props.C01 TLX.Lemmas.Pipeline

/-- the sender's events of a session-level history -/
def evsOf (hist : List (SEv × List Nat)) : List Ev := hist.flatMap (·.1.evs)

/-- the records `Session` gets for a history sent from state `x`: the wire image of the RFC sender, the `k`-th record
    carried by the packets the history names for it -/
def recsOf (P : Prims) (L : SealLaws P) (cls : CipherClass) (ver : Bytes) (x : Snd) (hist : List (SEv × List Nat)) :
    List (Session.Rec × Bool) :=
  wireRecs (run P L cls ver x (evsOf hist)) (hist.map (·.2))

/-- what `application_traffic` has to gain: per event, in order, tagged with the record that carried it -/
def entriesOf (hist : List (SEv × List Nat)) (recs : List (Session.Rec × Bool)) : List Session.Entry :=
  (List.zipWith (fun e r => e.1.entries r.1) hist recs).flatten

/-- C01 at session level, all versions and classes: for EVERY history of application-data records and (TLS 1.3)
    protected handshake records in any direction order, sent by the RFC sender from a state related to the installed
    decryptor, `Session` appends exactly one entry per application-data record — its plaintext, its direction, in
    order — and nothing for the handshake records, whose Finished messages move the decryptor to the application epoch
    in step with the sender. Nothing lost, added, duplicated, reordered or left encrypted. -/
theorem session_exact (H : Crypto.Prims) (P : Prims) (L : SealLaws P) (kl : List Keylog.Key) (cls : CipherClass)
    (macLen : Nat) (ver : Bytes) (hv : ver.length = 2) (hist : List (SEv × List Nat)) (x : Snd)
    (s : Session.St Dec) (hs : Ready cls macLen x s) (hok : ∀ e ∈ hist, e.1.Ok cls macLen)
    (hq : max x.c.seq x.s.seq + (evsOf hist).length ≤ seqLimit) (m : Bool) :
    (recsOf P L cls ver x hist).length = hist.length ∧
    (Session.run (Pipeline.ops H P kl) m s (recsOf P L cls ver x hist)).traffic
      = s.traffic ++ entriesOf hist (recsOf P L cls ver x hist) ∧
    Ready cls macLen (after P L cls ver x (evsOf hist))
      (Session.run (Pipeline.ops H P kl) m s (recsOf P L cls ver x hist)) := by
  induction hist generalizing x s with
  | nil => exact ⟨rfl, by simp [recsOf, evsOf, run, wireRecs, Session.run, entriesOf], hs⟩
  | cons ec rest ih =>
    obtain ⟨e, c⟩ := ec
    have hrecs : recsOf P L cls ver x ((e, c) :: rest)
        = (⟨e.raw P L cls ver x, c⟩, e.srv) :: recsOf P L cls ver (after P L cls ver x e.evs) rest := by
      simp only [recsOf, evsOf, List.flatMap_cons, List.map_cons, run_append, wireRecs_evs]
    have hlen : (evsOf ((e, c) :: rest)).length = e.evs.length + (evsOf rest).length := by
      simp [evsOf]
    rw [hlen] at hq
    obtain ⟨h1, h2, h3⟩ := handleRecord_sev H P L kl cls macLen ver hv x s hs e (hok (e, c) (by simp))
      (by omega) m c
    obtain ⟨i1, i2, i3⟩ := ih (after P L cls ver x e.evs) _ h2 (fun e' he' => hok e' (by simp [he'])) (by omega)
    rw [hrecs]
    refine ⟨by simp [i1], ?_, ?_⟩
    · simp only [Session.run, List.foldl_cons] at i2 ⊢
      rw [i2, h1]
      simp [entriesOf]
    · simp only [Session.run, List.foldl_cons, evsOf, List.flatMap_cons, after_append] at i3 ⊢
      exact i3

end TLX.Props.C01Pipeline
