/-
C01 (with C03 / C08 / C13 by-products) for the COMPOSED TLS model `TLX/Pipeline.lean`: session state machine ∘ record
layer, and the whole per-connection pipeline reassembly → session → `OutputBuilder` (`Pipeline.connOut`). The composed
model is tied to the real tool by the whole-program correspondence run; the component theorems used here are
`Props/C01` (record layer vs. the RFC sender `Spec/TlsSender`), `Lemmas/Session` + `Props/C03, C07Session, C08Session,
C13Session` (session, generic in the decryptor), `Props/C06, C08, C13` (builder), `Lemmas/Metadata` (carriers).

A. Session ∘ RecordLayer (`Pipeline.ops`: decrypt = `TlsRecord` + `Decryptor.decrypt`, updateKeys = `update_keys`)
   `session_exact`               any class, any history of application records and (TLS 1.3) protected handshake records
                                 of whole messages, any direction order: exactly one traffic entry per application record
                                 (plaintext, direction, record, app tag), in order; nothing for handshake records; each
                                 Finished switches that direction's epoch in step with the sender; relation re-established
   `app_phase_exact`             the same for a plain `List Ev` of application-data `send` events (`Spec.TlsSender.run`)
   `app_phase_exact_legacy`      A1: SSL 3.0 – TLS 1.2, hypotheses spelled out
   `app_phase_exact_13`          A2: TLS 1.3, any padding, content type and padding stripped
   `handshake13_exports_nothing` A2: protected handshake records export nothing (with and without `-a`)
   `tls13_after_finished_exact`  A2: server flight, client flight (one Finished each) ⇒ application epoch, then exact
   `legacy_finished_record`      TLS ≤ 1.2: ChangeCipherSpec + protected Finished of one side: cipher state advances in
                                 step with the sender, nothing exported as application data
   `legacy_after_hello_exact`    TLS ≤ 1.2: CCS + Finished of both sides (either order), then any application history:
                                 without `-a` the traffic is exactly the sender's application plaintexts
   `app_export_exact`            A3: … ∘ `OutputBuilder.build`: a well-formed conversation whose two payload streams are
                                 the concatenations of the sender's plaintexts per direction
B. Connection level, for EVERY primitives, key log, packet list (no hypotheses)
   `connOut_eq`                  `Session.decrypt()` = reassembly → ONE `Session.run` from the initial state → build
   `connOut_never_raises`        B3 (C03): session part never raises; every released record has a carrier; `connOut ≠ none`
   `connOut_none_iff_build_none`
   `connOut_meta_only_adds`      B1 (C13): data packets without `-a` are a subsequence of those with `-a`
   `connOut_take_prefix`         B2 (C08): export of the first n packets is a frame-by-frame prefix
C. Handshake
   `server_hello_installs`       RFC-encoded ClientHello / ServerHello records ⇒ negotiated version, client random, and
                                 `can_decrypt` / decryptor exactly as `Pipeline.genKeys` answers
   `genKeys_installs_rel_legacy`, `genKeys_installs_rel_13`
                                 suite resolves + key-log line + key schedule result ⇒ decryptor installed and RELATED to
                                 the sender initialised with the same keys (so A applies from the first protected record)
Hypotheses that are genuinely needed: those of `Props/C01` (sequence numbers below 2^64, TLS 1.2 AEAD plaintext < 2^16,
MAC length > 0, 2-byte record version); handshake messages shorter than 2^24 (uint24 length) and not split across
records (`hs13Loop` restarts at offset 0 in every record). Not covered: TLS 1.3 KeyUpdate, inner content types other
than 22 / 23, renegotiation / more than one protected handshake record per side before the application data in TLS ≤ 1.2
(`legacy_finished_record` composes for any number of them, `legacy_after_hello_exact` states the standard one each).
Definitions used in the statements (`Ready`, `SEv`, `wireRecs`, `toRec`, `plainOf`, `released`, `Negotiated`, …) and the
helper lemmas are in `TLX/Lemmas/Pipeline.lean`.
-/
import TLX.Lemmas.Pipeline
set_option linter.unusedSimpArgs false
namespace TLX.Props.C01Pipeline
open TLX TLX.Cipher TLX.RecordLayer TLX.Spec.TlsSender TLX.Props.C01 TLX.Lemmas.Pipeline

/-- the sender's events of a session-level history -/
def evsOf (hist : List (SEv × List Nat)) : List Ev := hist.flatMap (·.1.evs)

/-- the records `Session` gets for a history sent from state `x`: the wire image of the RFC sender, the `k`-th record
    carried by the packets the history names for it -/
def recsOf (P : Prims) (L : SealLaws P) (cls : CipherClass) (ver : Bytes) (x : Snd) (hist : List (SEv × List Nat)) :
    List (Session.Rec × Bool) :=
  wireRecs (run P L cls ver x (evsOf hist)) (hist.map (·.2))

/-- what `application_traffic` has to gain: per event, in order, tagged with the record that carried it -/
def entriesOf (hist : List (SEv × List Nat)) (recs : List (Session.Rec × Bool)) : List Session.Entry :=
  (List.zipWith (fun e r => e.1.entries r.1) hist recs).flatten

/-- C01 at session level, all versions and classes: for EVERY history of application-data records and (TLS 1.3)
    protected handshake records in any direction order, sent by the RFC sender from a state related to the installed
    decryptor, `Session` appends exactly one entry per application-data record — its plaintext, its direction, in
    order — and nothing for the handshake records, whose Finished messages move the decryptor to the application epoch
    in step with the sender. Nothing lost, added, duplicated, reordered or left encrypted. -/
theorem session_exact (H : Crypto.Prims) (P : Prims) (L : SealLaws P) (kl : List Keylog.Key) (cls : CipherClass)
    (macLen : Nat) (ver : Bytes) (hv : ver.length = 2) (hist : List (SEv × List Nat)) (x : Snd)
    (s : Session.St Dec) (hs : Ready cls macLen x s) (hok : ∀ e ∈ hist, e.1.Ok cls macLen)
    (hq : max x.c.seq x.s.seq + (evsOf hist).length ≤ seqLimit) (m : Bool) :
    (recsOf P L cls ver x hist).length = hist.length ∧
    (Session.run (Pipeline.ops H P kl) m s (recsOf P L cls ver x hist)).traffic
      = s.traffic ++ entriesOf hist (recsOf P L cls ver x hist) ∧
    Ready cls macLen (after P L cls ver x (evsOf hist))
      (Session.run (Pipeline.ops H P kl) m s (recsOf P L cls ver x hist)) := by
  induction hist generalizing x s with
  | nil => exact ⟨rfl, by simp [recsOf, evsOf, run, wireRecs, Session.run, entriesOf], hs⟩
  | cons ec rest ih =>
    obtain ⟨e, c⟩ := ec
    have hrecs : recsOf P L cls ver x ((e, c) :: rest)
        = (⟨e.raw P L cls ver x, c⟩, e.srv) :: recsOf P L cls ver (after P L cls ver x e.evs) rest := by
      simp only [recsOf, evsOf, List.flatMap_cons, List.map_cons, run_append, wireRecs_evs]
    have hlen : (evsOf ((e, c) :: rest)).length = e.evs.length + (evsOf rest).length := by
      simp [evsOf]
    rw [hlen] at hq
    obtain ⟨h1, h2, h3⟩ := handleRecord_sev H P L kl cls macLen ver hv x s hs e (hok (e, c) (by simp))
      (by omega) m c
    obtain ⟨i1, i2, i3⟩ := ih (after P L cls ver x e.evs) _ h2 (fun e' he' => hok e' (by simp [he'])) (by omega)
    rw [hrecs]
    refine ⟨by simp [i1], ?_, ?_⟩
    · simp only [Session.run, List.foldl_cons] at i2 ⊢
      rw [i2, h1]
      simp [entriesOf]
    · simp only [Session.run, List.foldl_cons, evsOf, List.flatMap_cons, after_append] at i3 ⊢
      exact i3

/-- A1/A2 in one statement (the two named instances follow): a history of application-data `send` events of the RFC
    sender (`Spec.TlsSender.run`), each record handed to `Session` with arbitrary carriers. -/
theorem app_phase_exact (H : Crypto.Prims) (P : Prims) (L : SealLaws P) (kl : List Keylog.Key) (cls : CipherClass)
    (macLen : Nat) (ver : Bytes) (hv : ver.length = 2) (evs : List Ev) (cars : List (List Nat))
    (hc : cars.length = evs.length) (x : Snd) (s : Session.St Dec) (hs : Ready cls macLen x s)
    (happ : ∀ e ∈ evs, IsAppSend e) (hev : ∀ e ∈ evs, EvOk cls macLen e)
    (hq : max x.c.seq x.s.seq + evs.length ≤ seqLimit) (m : Bool) :
    (wireRecs (run P L cls ver x evs) cars).length = evs.length ∧
    (Session.run (Pipeline.ops H P kl) m s (wireRecs (run P L cls ver x evs) cars)).traffic
      = s.traffic ++ List.zipWith (fun e (r : Session.Rec × Bool) => (⟨some (evPt e), r.1, evSrv e, true⟩ : Session.Entry))
          evs (wireRecs (run P L cls ver x evs) cars) ∧
    Ready cls macLen (after P L cls ver x evs)
      (Session.run (Pipeline.ops H P kl) m s (wireRecs (run P L cls ver x evs) cars)) := by
  obtain ⟨g1, g2, g3, g4, g5⟩ := histOf_spec cls macLen evs cars hc happ hev
  have hrecs : recsOf P L cls ver x (histOf evs cars) = wireRecs (run P L cls ver x evs) cars := by
    simp only [recsOf, evsOf, g1, g2]
  obtain ⟨h1, h2, h3⟩ := session_exact H P L kl cls macLen ver hv (histOf evs cars) x s hs g4
    (by simp only [evsOf, g1]; exact hq) m
  rw [hrecs] at h1 h2 h3
  simp only [evsOf, g1] at h3
  exact ⟨by rw [h1, g3], by rw [h2, entriesOf, g5], h3⟩

/-- A1 — application phase, SSL 3.0 – TLS 1.2, every cipher class: `Session` over the composed decryptor appends
    exactly one entry per application-data record of the sender, in order, with the sender's plaintext, direction and
    the application tag. -/
theorem app_phase_exact_legacy (H : Crypto.Prims) (P : Prims) (L : SealLaws P) (kl : List Keylog.Key) (cls : CipherClass)
    (h13 : cls.is13 = false) (macLen : Nat) (ver : Bytes) (hv : ver.length = 2) (evs : List Ev)
    (cars : List (List Nat)) (hc : cars.length = evs.length) (x : Snd) (s : Session.St Dec) (v : Session.Ver)
    (d : Dec) (hcan : s.canDecrypt = true) (hver : s.ver = some v) (hvne : v ≠ .tls13) (hdec : s.dec = some d)
    (hR : Rel cls macLen x d) (hbuf : ∀ d, s.hsBuf d = []) (happ : ∀ e ∈ evs, IsAppSend e)
    (hev : ∀ e ∈ evs, EvOk cls macLen e)
    (hq : max x.c.seq x.s.seq + evs.length ≤ seqLimit) (m : Bool) :
    (Session.run (Pipeline.ops H P kl) m s (wireRecs (run P L cls ver x evs) cars)).traffic
      = s.traffic ++ List.zipWith (fun e (r : Session.Rec × Bool) => (⟨some (evPt e), r.1, evSrv e, true⟩ : Session.Entry))
          evs (wireRecs (run P L cls ver x evs) cars) ∧
    (wireRecs (run P L cls ver x evs) cars).length = evs.length := by
  have hs : Ready cls macLen x s :=
    ⟨⟨hcan, ⟨v, hver, ⟨fun h => absurd h hvne, fun h => by rw [h13] at h; cases h⟩⟩, d, hdec, hR⟩, hbuf⟩
  obtain ⟨h1, h2, _⟩ := app_phase_exact H P L kl cls macLen ver hv evs cars hc x s hs happ hev hq m
  exact ⟨h2, h1⟩

/-- A2 — application phase, TLS 1.3 (any epoch the two sides share; in particular after both Finished): the record
    layer returns `content ‖ 23 ‖ zeros` (`Props.C01.tls13_returns_inner_plaintext`), `Session` strips the padding
    and the content-type byte, and exactly the sender's plaintexts are appended — for every amount of padding
    (`Fresh.pad13`) and every plaintext, including the empty one and plaintexts ending in zero bytes. -/
theorem app_phase_exact_13 (H : Crypto.Prims) (P : Prims) (L : SealLaws P) (kl : List Keylog.Key) (cls : CipherClass)
    (h13 : cls.is13 = true) (macLen : Nat) (ver : Bytes) (hv : ver.length = 2) (evs : List Ev)
    (cars : List (List Nat)) (hc : cars.length = evs.length) (x : Snd) (s : Session.St Dec)
    (d : Dec) (hcan : s.canDecrypt = true) (hver : s.ver = some .tls13) (hdec : s.dec = some d)
    (hR : Rel cls macLen x d) (hbuf : ∀ d, s.hsBuf d = []) (happ : ∀ e ∈ evs, IsAppSend e)
    (hq : max x.c.seq x.s.seq + evs.length ≤ seqLimit) (m : Bool) :
    (Session.run (Pipeline.ops H P kl) m s (wireRecs (run P L cls ver x evs) cars)).traffic
      = s.traffic ++ List.zipWith (fun e (r : Session.Rec × Bool) => (⟨some (evPt e), r.1, evSrv e, true⟩ : Session.Entry))
          evs (wireRecs (run P L cls ver x evs) cars) ∧
    (wireRecs (run P L cls ver x evs) cars).length = evs.length := by
  have hs : Ready cls macLen x s := ⟨⟨hcan, ⟨.tls13, hver, ⟨fun _ => h13, fun _ => rfl⟩⟩, d, hdec, hR⟩, hbuf⟩
  have hev : ∀ e ∈ evs, EvOk cls macLen e := by
    intro e he
    cases e with
    | send srv typ pt f => exact sendOk_13 cls h13 macLen pt f
    | switch srv => exact h13
  obtain ⟨h1, h2, _⟩ := app_phase_exact H P L kl cls macLen ver hv evs cars hc x s hs happ hev hq m
  exact ⟨h2, h1⟩

/-- A2, handshake epoch — protected TLS 1.3 handshake records (whole messages, any number of records, either
    direction, with or without Finished) export NOTHING, with and without `-a`, and leave the session related to the
    sender after the epoch switches their Finished messages entail. -/
theorem handshake13_exports_nothing (H : Crypto.Prims) (P : Prims) (L : SealLaws P) (kl : List Keylog.Key)
    (cls : CipherClass) (macLen : Nat) (ver : Bytes) (hv : ver.length = 2) (hist : List (SEv × List Nat)) (x : Snd)
    (s : Session.St Dec) (hs : Ready cls macLen x s) (hok : ∀ e ∈ hist, e.1.Ok cls macLen)
    (hhs : ∀ e ∈ hist, ∃ srv ms f, e.1 = .hs13 srv ms f)
    (hq : max x.c.seq x.s.seq + (evsOf hist).length ≤ seqLimit) (m : Bool) :
    (Session.run (Pipeline.ops H P kl) m s (recsOf P L cls ver x hist)).traffic = s.traffic ∧
    Ready cls macLen (after P L cls ver x (evsOf hist))
      (Session.run (Pipeline.ops H P kl) m s (recsOf P L cls ver x hist)) := by
  obtain ⟨_, h2, h3⟩ := session_exact H P L kl cls macLen ver hv hist x s hs hok hq m
  refine ⟨?_, h3⟩
  rw [h2]
  have : ∀ (hist : List (SEv × List Nat)) (recs : List (Session.Rec × Bool)),
      (∀ e ∈ hist, ∃ srv ms f, e.1 = SEv.hs13 srv ms f) → entriesOf hist recs = [] := by
    intro hist
    induction hist with
    | nil => intro recs _; simp [entriesOf]
    | cons e es ih =>
      intro recs h
      cases recs with
      | nil => simp [entriesOf]
      | cons r rs =>
        obtain ⟨srv, ms, f, he⟩ := h e (by simp)
        have := ih rs (fun e' h' => h e' (by simp [h']))
        simp only [entriesOf, List.zipWith_cons_cons, List.flatten_cons, he, SEv.entries, List.nil_append] at this ⊢
        exact this
  rw [this _ _ hhs, List.append_nil]

/-- A2, the whole TLS 1.3 connection after the ServerHello: from the handshake epoch (decryptor related to a sender
    that still uses its handshake traffic keys), after the server's flight and the client's flight — each one record of
    whole handshake messages ending the handshake with exactly one Finished — the sender protects with its application
    traffic keys from sequence number 0, `Session` has exported nothing and has switched both directions
    (`Props.C01.updateKeys_switch`), and every following history of application-data records is exported exactly. -/
theorem tls13_after_finished_exact (H : Crypto.Prims) (P : Prims) (L : SealLaws P) (kl : List Keylog.Key)
    (cls : CipherClass) (h13 : cls.is13 = true) (macLen : Nat) (ver : Bytes) (hv : ver.length = 2) (x : Snd)
    (s : Session.St Dec) (hs : Ready cls macLen x s)
    (sfl cfl : List HsMsg) (fs fc : Fresh) (cs cc : List Nat) (hs1 : finCount sfl = 1) (hc1 : finCount cfl = 1)
    (hsok : ∀ m ∈ sfl, MsgOk m) (hcok : ∀ m ∈ cfl, MsgOk m)
    (evs : List Ev) (cars : List (List Nat)) (hc : cars.length = evs.length) (happ : ∀ e ∈ evs, IsAppSend e)
    (hq : max x.c.seq x.s.seq + (4 + evs.length) ≤ seqLimit) (m : Bool) :
    let flights : List (SEv × List Nat) := [(.hs13 true sfl fs, cs), (.hs13 false cfl fc, cc)]
    let xa := after P L cls ver x (evsOf flights)
    let recs := wireRecs (run P L cls ver xa evs) cars
    (xa.c.key = x.c.appKey ∧ xa.c.iv = x.c.appIv ∧ xa.c.seq = 0 ∧
     xa.s.key = x.s.appKey ∧ xa.s.iv = x.s.appIv ∧ xa.s.seq = 0) ∧
    (Session.run (Pipeline.ops H P kl) m s (recsOf P L cls ver x flights)).traffic = s.traffic ∧
    (Session.run (Pipeline.ops H P kl) m s (recsOf P L cls ver x flights ++ recs)).traffic
      = s.traffic ++ List.zipWith (fun e (r : Session.Rec × Bool) => (⟨some (evPt e), r.1, evSrv e, true⟩ : Session.Entry))
          evs recs := by
  intro flights xa recs
  have hev : (evsOf flights).length = 4 := by
    simp [flights, evsOf, SEv.evs, hs1, hc1]
  obtain ⟨a1, a2⟩ := handshake13_exports_nothing H P L kl cls macLen ver hv flights x s hs
    (by
      intro e he
      simp only [flights, List.mem_cons, List.mem_nil_iff, or_false] at he
      rcases he with rfl | rfl
      · exact ⟨h13, hsok⟩
      · exact ⟨h13, hcok⟩)
    (by
      intro e he
      simp only [flights, List.mem_cons, List.mem_nil_iff, or_false] at he
      rcases he with rfl | rfl
      · exact ⟨_, _, _, rfl⟩
      · exact ⟨_, _, _, rfl⟩)
    (by rw [hev]; omega) m
  have hxa := after_two_flights P L cls ver x sfl cfl fs fc hs1 hc1
  have hxa' : xa = after P L cls ver x ((SEv.hs13 true sfl fs).evs ++ (SEv.hs13 false cfl fc).evs) := by
    simp [xa, flights, evsOf]
  rw [← hxa'] at hxa
  obtain ⟨hxc, hxs⟩ := hxa
  have hseq : max xa.c.seq xa.s.seq = 0 := by rw [hxc, hxs]; simp
  have hev13 : ∀ e ∈ evs, EvOk cls macLen e := by
    intro e he
    cases e with
    | send srv typ pt f => exact sendOk_13 cls h13 macLen pt f
    | switch srv => exact h13
  obtain ⟨b1, b2, _⟩ := app_phase_exact H P L kl cls macLen ver hv evs cars hc xa _ a2 happ hev13
    (by rw [hseq]; omega) m
  refine ⟨by rw [hxc, hxs]; simp, a1, ?_⟩
  rw [Session.run_append, b2, a1]

/-- A3 — session ∘ record layer ∘ builder: for a session that has exported nothing yet, the conversation
    `OutputBuilder.build` makes of the traffic after ANY history of application-data records (all versions, all
    classes) exists whenever every record has a carrier packet, is a well-formed TCP conversation (handshake, gap-free,
    consistently acknowledged: the spec reassembler accepts it) and its two payload streams are exactly the
    concatenations of the sender's plaintexts of each direction, in order; its data segments are those of the
    application entries only. -/
theorem app_export_exact (H : Crypto.Prims) (P : Prims) (L : SealLaws P) (kl : List Keylog.Key) (cls : CipherClass)
    (macLen : Nat) (ver : Bytes) (hv : ver.length = 2) (evs : List Ev) (cars : List (List Nat))
    (hc : cars.length = evs.length) (hne : ∀ c ∈ cars, c ≠ []) (x : Snd) (s : Session.St Dec)
    (hs : Ready cls macLen x s) (hs0 : s.traffic = [])
    (happ : ∀ e ∈ evs, IsAppSend e) (hev : ∀ e ∈ evs, EvOk cls macLen e)
    (hq : max x.c.seq x.s.seq + evs.length ≤ seqLimit) (m : Bool) (ts : Nat → Nat) :
    ∃ fs, TcpOut.build ((Session.run (Pipeline.ops H P kl) m s (wireRecs (run P L cls ver x evs) cars)).traffic.map
            (toRec ts)) = some fs ∧
      Spec.reassemble fs = some (plainOf false evs, plainOf true evs) := by
  obtain ⟨h1, h2, _⟩ := app_phase_exact H P L kl cls macLen ver hv evs cars hc x s hs happ hev hq m
  rw [hs0, List.nil_append] at h2
  have htot : (TcpOut.build ((Session.run (Pipeline.ops H P kl) m s
      (wireRecs (run P L cls ver x evs) cars)).traffic.map (toRec ts))).isSome := by
    apply Props.C06.build_total
    intro r hr
    rw [h2] at hr
    obtain ⟨e, he, rfl⟩ := List.mem_map.mp hr
    obtain ⟨rr, hrr, hrec⟩ := zipWith_entries_record _ _ e he
    have := hne _ (wireRecs_carriers _ _ rr hrr)
    simpa [toRec, hrec] using this
  obtain ⟨fs, hfs⟩ := Option.isSome_iff_exists.mp htot
  refine ⟨fs, hfs, ?_⟩
  rw [Props.C06.reassemble_build _ _ hfs, h2, dirBytes_entries false ts evs _ h1, dirBytes_entries true ts evs _ h1]

/-- SSL 3.0 – TLS 1.2 between the ServerHello and the application data: a ChangeCipherSpec record sets its direction's
    flag and touches nothing else; the protected handshake record that follows it (Finished) is decrypted in step with
    the sender — the cipher state (sequence number, CBC residue, RC4 position) advances exactly as the sender's — and
    is never exported as application data (without `-a`: not at all). -/
theorem legacy_finished_record (H : Crypto.Prims) (P : Prims) (L : SealLaws P) (kl : List Keylog.Key) (cls : CipherClass)
    (h13 : cls.is13 = false) (macLen : Nat) (ver : Bytes) (hv : ver.length = 2) (x : Snd) (s : Session.St Dec)
    (hs : Ready cls macLen x s) (srv : Bool) (ccs : Session.Rec) (hccs : ccs.typ = some 0x14) (body : Bytes) (f : Fresh)
    (hok : SendOk cls macLen body f) (hq : x.c.seq < seqLimit ∧ x.s.seq < seqLimit) (m : Bool) (car : List Nat) :
    let O := Pipeline.ops H P kl
    let o := protect P L cls ver (x.get srv) 22 body f
    let s' := Session.handleRecord O m (Session.handleRecord O m s ccs srv) ⟨o.2, car⟩ srv
    s'.traffic.filter (·.isApp) = s.traffic.filter (·.isApp) ∧ (m = false → s'.traffic = s.traffic) ∧
      Ready cls macLen (x.set srv o.1) s' ∧
      (x.set srv o.1).c.seq ≤ max x.c.seq x.s.seq + 1 ∧ (x.set srv o.1).s.seq ≤ max x.c.seq x.s.seq + 1 := by
  intro O o s'
  obtain ⟨a1, a2, a3, a4, _, a6, a7, a8, a9⟩ := handleRecord_ccs O m s ccs srv hccs
  have hs1 : Ready cls macLen x (Session.handleRecord O m s ccs srv) := hs.of_eq a1 a2 a3 a8 a9
  obtain ⟨b1, b2, b3, _, _, b6, b7⟩ := handleRecord_hsEnc H P L kl cls h13 macLen ver hv x _ hs1 srv a4 body f hok hq m car
  exact ⟨b1.trans a6, fun hm => (b2 hm).trans (a7 hm), b3, b6, b7⟩

/-- SSL 3.0 – TLS 1.2, the connection from the installed decryptor on: ChangeCipherSpec + Finished of one side, then of
    the other (`first = false`: the client finishes first, full handshake; `true`: resumption), then ANY history of
    application-data records — without `-a` the traffic gains exactly the sender's application plaintexts, in order. -/
theorem legacy_after_hello_exact (H : Crypto.Prims) (P : Prims) (L : SealLaws P) (kl : List Keylog.Key)
    (cls : CipherClass) (h13 : cls.is13 = false) (macLen : Nat) (ver : Bytes) (hv : ver.length = 2) (x : Snd)
    (s : Session.St Dec) (hs : Ready cls macLen x s) (first : Bool)
    (ccs1 ccs2 : Session.Rec) (h1 : ccs1.typ = some 0x14) (h2 : ccs2.typ = some 0x14)
    (b1 b2 : Bytes) (f1 f2 : Fresh) (c1 c2 : List Nat)
    (hok1 : SendOk cls macLen b1 f1) (hok2 : SendOk cls macLen b2 f2)
    (evs : List Ev) (cars : List (List Nat)) (hc : cars.length = evs.length)
    (happ : ∀ e ∈ evs, IsAppSend e) (hev : ∀ e ∈ evs, EvOk cls macLen e)
    (hq : max x.c.seq x.s.seq + (2 + evs.length) ≤ seqLimit) :
    let O := Pipeline.ops H P kl
    let o1 := protect P L cls ver (x.get first) 22 b1 f1
    let x1 := x.set first o1.1
    let o2 := protect P L cls ver (x1.get (!first)) 22 b2 f2
    let x2 := x1.set (!first) o2.1
    let recs := wireRecs (run P L cls ver x2 evs) cars
    (Session.run O false s
        ([(ccs1, first), (⟨o1.2, c1⟩, first), (ccs2, !first), (⟨o2.2, c2⟩, !first)] ++ recs)).traffic
      = s.traffic ++ List.zipWith (fun e (r : Session.Rec × Bool) => (⟨some (evPt e), r.1, evSrv e, true⟩ : Session.Entry))
          evs recs := by
  intro O o1 x1 o2 x2 recs
  obtain ⟨_, a2, a3, a4, a5⟩ := legacy_finished_record H P L kl cls h13 macLen ver hv x s hs first ccs1 h1 b1 f1 hok1
    (by omega) false c1
  change (x1.c.seq ≤ _) at a4
  change (x1.s.seq ≤ _) at a5
  obtain ⟨_, d2, d3, d4, d5⟩ := legacy_finished_record H P L kl cls h13 macLen ver hv x1 _ a3 (!first) ccs2 h2 b2 f2 hok2
    (by omega) false c2
  change (x2.c.seq ≤ _) at d4
  change (x2.s.seq ≤ _) at d5
  obtain ⟨_, e2, _⟩ := app_phase_exact H P L kl cls macLen ver hv evs cars hc x2 _ d3 happ hev (by omega) false
  rw [Session.run_append]
  simp only [Session.run, List.foldl_cons, List.foldl_nil] at e2 ⊢
  rw [e2, d2 rfl, a2 rfl]

-- ====================================================================== B. connection level (`Pipeline.connOut`)
/-- the records of connection `c` in the order `Session` handles them (reassembly of both directions, packet by packet) -/
def connRecs (info : Nat → Pipeline.Info) (c : Pipeline.Conn) : List (Session.Rec × Bool) :=
  released info c.server (Reassembly.St.init, Reassembly.St.init) c.pkts

/-- `Session.decrypt()` factors as: reassembly (independent of key log and options) → ONE `Session.run` from the
    initial state → `OutputBuilder.build` → addressing. Everything `Props/C03, C07Session, C08Session, C13Session` prove
    about `Session.run` for every `Ops` therefore holds for the session inside `connOut`. -/
theorem connOut_eq (H : Crypto.Prims) (P : Prims) (info : Nat → Pipeline.Info) (c : Pipeline.Conn)
    (kl : List Keylog.Key) :
    Pipeline.connOut H P info c kl =
      (TcpOut.build ((Session.run (Pipeline.ops H P kl) c.opts.metadata Session.St.init (connRecs info c)).traffic.map
        (toRec fun id => (info id).ts))).map fun fs => fs.map (Pipeline.addressed c.opts c) := by
  unfold Pipeline.connOut connRecs
  simp only [feed_eq_run]
  rfl

/-- B3 — for EVERY primitives, key log and packet list: no exception escapes the session part of `Session.decrypt()`
    (instance of `Props.C03.run_never_raises`), every record reassembly releases has at least one carrier packet (also
    when empty-payload packets reach the session), hence `OutputBuilder.build` never divides by zero / indexes an empty
    list: `connOut` is never `none`. -/
theorem connOut_never_raises (H : Crypto.Prims) (P : Prims) (info : Nat → Pipeline.Info) (c : Pipeline.Conn)
    (kl : List Keylog.Key) :
    Session.runRaw (Pipeline.ops H P kl) c.opts.metadata Session.St.init (connRecs info c)
      = .ok (Session.run (Pipeline.ops H P kl) c.opts.metadata Session.St.init (connRecs info c)) ∧
    (∀ r ∈ connRecs info c, r.1.carriers ≠ []) ∧
    (Pipeline.connOut H P info c kl).isSome := by
  refine ⟨Props.C03.run_never_raises _ _ _ _, released_carriers _ _ _ _, ?_⟩
  rw [connOut_eq, Option.isSome_map]
  apply Props.C06.build_total
  intro r hr
  obtain ⟨e, he, rfl⟩ := List.mem_map.mp hr
  have := released_carriers info c.server _ c.pkts _ (Props.C07.entry_origin _ _ _ e he)
  simpa [toRec] using this

/-- … and the only way `connOut` could be `none` is `OutputBuilder.build` raising -/
theorem connOut_none_iff_build_none (H : Crypto.Prims) (P : Prims) (info : Nat → Pipeline.Info) (c : Pipeline.Conn)
    (kl : List Keylog.Key) :
    Pipeline.connOut H P info c kl = none ↔
      TcpOut.build ((Session.run (Pipeline.ops H P kl) c.opts.metadata Session.St.init (connRecs info c)).traffic.map
        (toRec fun id => (info id).ts)) = none := by
  rw [connOut_eq, Option.map_eq_none_iff]

/-- the same connection with `-a` (`exp_meta`) set / cleared -/
def setMeta (c : Pipeline.Conn) (b : Bool) : Pipeline.Conn := { c with opts := { c.opts with metadata := b } }

/-- B1 (C13 for the composed model) — for EVERY primitives, key log and packet list: both exports exist, and the
    payload-carrying packets exported without `-a` are a subsequence — same time, addresses, ports, payload, same
    order — of those exported with `-a`. (Invariant behind it: same reassembly, sessions related by `St.strip`.) -/
theorem connOut_meta_only_adds (H : Crypto.Prims) (P : Prims) (info : Nat → Pipeline.Info) (c : Pipeline.Conn)
    (kl : List Keylog.Key) :
    ∃ fsOn fsOff, Pipeline.connOut H P info (setMeta c true) kl = some fsOn ∧
      Pipeline.connOut H P info (setMeta c false) kl = some fsOff ∧
      (dataPkts fsOff).Sublist (dataPkts fsOn) := by
  obtain ⟨fsOn, hon⟩ := Option.isSome_iff_exists.mp (connOut_never_raises H P info (setMeta c true) kl).2.2
  obtain ⟨fsOff, hoff⟩ := Option.isSome_iff_exists.mp (connOut_never_raises H P info (setMeta c false) kl).2.2
  refine ⟨fsOn, fsOff, hon, hoff, ?_⟩
  rw [connOut_eq, Option.map_eq_some_iff] at hon hoff
  obtain ⟨gOn, bOn, rfl⟩ := hon
  obtain ⟨gOff, bOff, rfl⟩ := hoff
  have hrecs : ∀ b, connRecs info (setMeta c b) = connRecs info c := fun _ => rfl
  have haddr : ∀ b, Pipeline.addressed (setMeta c b).opts (setMeta c b) = Pipeline.addressed c.opts c := fun _ => rfl
  simp only [hrecs, haddr] at bOn bOff ⊢
  have hm : ∀ b, (setMeta c b).opts.metadata = b := fun _ => rfl
  rw [hm] at bOn bOff
  have hs := (Props.C13.session_meta_only_adds (Pipeline.ops H P kl) (connRecs info c)).1
  have hsub : (TcpOut.dataFrames gOff).Sublist (TcpOut.dataFrames gOn) := by
    apply Props.C13.build_sublist _ _ _ gOn gOff bOn bOff
    rw [hs]
    exact List.Sublist.map _ List.filter_sublist
  rw [dataPkts_addressed, dataPkts_addressed]
  exact hsub.filterMap _

/-- B2 (C08 for the composed model) — for EVERY primitives, key log, packet list and cut `n`: what is exported for
    the first `n` packets of the connection is a prefix, frame by frame (times, addresses, flags, sequence and
    acknowledgement numbers, payload), of what is exported for all its packets. -/
theorem connOut_take_prefix (H : Crypto.Prims) (P : Prims) (info : Nat → Pipeline.Info) (c : Pipeline.Conn)
    (kl : List Keylog.Key) (n : Nat) :
    ∃ fa fb, Pipeline.connOut H P info { c with pkts := c.pkts.take n } kl = some fa ∧
      Pipeline.connOut H P info c kl = some fb ∧ fa <+: fb := by
  obtain ⟨fa, ha⟩ := Option.isSome_iff_exists.mp (connOut_never_raises H P info { c with pkts := c.pkts.take n } kl).2.2
  obtain ⟨fb, hb⟩ := Option.isSome_iff_exists.mp (connOut_never_raises H P info c kl).2.2
  refine ⟨fa, fb, ha, hb, ?_⟩
  rw [connOut_eq, Option.map_eq_some_iff] at ha hb
  obtain ⟨ga, ba, rfl⟩ := ha
  obtain ⟨gb, bb, rfl⟩ := hb
  have haddr : Pipeline.addressed ({ c with pkts := c.pkts.take n } : Pipeline.Conn).opts { c with pkts := c.pkts.take n }
      = Pipeline.addressed c.opts c := rfl
  rw [haddr]
  have hpre : connRecs info { c with pkts := c.pkts.take n } <+: connRecs info c :=
    released_take_prefix info c.server _ c.pkts n
  obtain ⟨t, ht⟩ := hpre
  have htr : (Session.run (Pipeline.ops H P kl) c.opts.metadata Session.St.init
        (connRecs info { c with pkts := c.pkts.take n })).traffic
      <+: (Session.run (Pipeline.ops H P kl) c.opts.metadata Session.St.init (connRecs info c)).traffic := by
    rw [← ht, Session.run_append]
    exact Session.run_traffic_prefix _ _ _ _
  have := Props.C08.build_prefix _ _ (List.IsPrefix.map (toRec fun id => (info id).ts) htr) ga gb ba bb
  exact List.IsPrefix.map _ this

-- ====================================================================== non-vacuity
namespace Ex
open TLX.Props.C01.Ex

def sessOf (d : Dec) (v : Session.Ver) : Session.St Dec := { canDecrypt := true, ver := some v, dec := some d }

-- `Ready` is inhabited for a legacy and a TLS 1.3 class (decryptor built by `Dec.init` over the toy primitives) …
example : ∃ s x, Ready (.aead12 .aesccm 8) 32 x s :=
  let ⟨d, _, h⟩ := init_rel_pre13 Toy.prims Toy.laws (.aead12 .aesccm 8) rfl .tls12 (by intro h; cases h) 32
    (by decide) 128 trivial (some 8) false rfl k16 k16' iv4 iv4 (by decide) (by decide)
  ⟨sessOf d .tls12, _, ⟨rfl, ⟨.tls12, rfl, by decide⟩, d, rfl, h⟩, fun b => by cases b <;> rfl⟩
example : ∃ s x, Ready (.cbcImplicit .tdes false) 20 x s :=
  let ⟨d, _, h⟩ := init_rel_pre13 Toy.prims Toy.laws (.cbcImplicit .tdes false) rfl .tls10 (Or.inr rfl) 20
    (by decide) 64 rfl (some 16) false rfl k24 k24 iv8 iv8 (by decide) (by decide)
  ⟨sessOf d .tls10, _, ⟨rfl, ⟨.tls10, rfl, by decide⟩, d, rfl, h⟩, fun b => by cases b <;> rfl⟩
example : ∃ s x, Ready (.aead13 .aesgcm 16) 32 x s :=
  let ⟨d, _, h⟩ := init_rel_13 Toy.prims (.aead13 .aesgcm 16) rfl 32 128 none false rfl k16 iv12 k16' iv12 k16' iv12 k16 iv12
    (by decide) (by decide) (by decide) (by decide)
  ⟨sessOf d .tls13, _, ⟨rfl, ⟨.tls13, rfl, by decide⟩, d, rfl, h⟩, fun b => by cases b <;> rfl⟩

-- … and so are the hypotheses on histories: application data in both directions (empty plaintext, a plaintext
-- ending in zero bytes, TLS 1.3 padding), handshake flights with one Finished each
def fin : HsMsg := (20, k32)
def sflight : List HsMsg := [(8, [0, 0]), (11, k16), (15, k24), fin]

example : finCount sflight = 1 ∧ finCount [fin] = 1 ∧ (∀ m ∈ sflight, MsgOk m) := by decide
example : ∀ e ∈ [Ev.send false 23 hi ⟨iv8, [], [], 0⟩, Ev.send true 23 [] ⟨iv8, [], [], 0⟩], IsAppSend e := by
  intro e he; simp at he; rcases he with rfl | rfl <;> rfl
example : SEv.Ok (.aead13 .aesgcm 16) 32 (.hs13 true sflight ⟨[], [], [], 2⟩) := ⟨rfl, by decide⟩

-- `legacy_finished_record` / `legacy_after_hello_exact`: a ChangeCipherSpec record, a 16-byte Finished message
def ccsRec : Session.Rec := ⟨[20, 3, 3, 0, 1, 1], [9]⟩
example : ccsRec.typ = some 0x14 := rfl
example : SendOk (.aead12 .aesgcm 16) 32 (20 :: 0 :: 0 :: 12 :: k16.take 12) ⟨iv8, [], [], 0⟩ := by decide

/-- what `Session` over the composed toy decryptor exports for a history: (data, direction, application tag) -/
def observe (cls : CipherClass) (v : Session.Ver) (rv : Version) (macLen blockLen : Nat) (k : Keys) (x : Snd)
    (m : Bool) (hist : List (SEv × List Nat)) : Option (List (Option Bytes × Bool × Bool)) :=
  match Dec.init Toy.prims (bulkOf cls) rv macLen (some (tagOf cls)) blockLen (etmOf cls) k with
  | .ok d =>
    some ((Session.run (Pipeline.ops Crypto.toyPrims Toy.prims []) m (sessOf d v)
      (recsOf Toy.prims Toy.laws cls [3, 3] x hist)).traffic.map fun e => (e.data, e.fromServer, e.isApp))
  | .error _ => none

-- concrete histories evaluated by the kernel
example : observe (.cbcImplicit .tdes false) .tls10 .tls10 20 64 (keys4 k24 k24 iv8 iv8)
    ⟨SDir.init k24 iv8 [] [], SDir.init k24 iv8 [] []⟩ false
    [(.app false hi ⟨[], mac20, [9], 0⟩, [1]), (.app false [] ⟨[], mac20, [3, 3, 3], 0⟩, [2, 3]),
     (.app true k16 ⟨[], mac20, [1, 2, 3], 0⟩, [4])]
    = some [(some hi, false, true), (some [], false, true), (some k16, true, true)] := by decide +kernel
example : observe (.aead13 .aesgcm 16) .tls13 .tls13 32 128
    { cHsKey := some k16, sHsKey := some k16', cAppKey := some k16', sAppKey := some k16,
      cHsIv := some iv12, sHsIv := some iv12, cAppIv := some iv12, sAppIv := some iv12 }
    ⟨SDir.init k16 iv12 k16' iv12, SDir.init k16' iv12 k16 iv12⟩ true
    [(.hs13 true sflight ⟨[], [], [], 3⟩, [1, 2]), (.hs13 false [fin] ⟨[], [], [], 0⟩, [3]),
     (.app false hi ⟨[], [], [], 5⟩, [4]), (.app true [] ⟨[], [], [], 0⟩, [5]),
     (.app true [7, 0, 0] ⟨[], [], [], 2⟩, [6])]
    = some [(some hi, false, true), (some [], true, true), (some [7, 0, 0], true, true)] := by decide +kernel

end Ex

end TLX.Props.C01Pipeline

-- ====================================================================== C. handshake: the two hello records
namespace TLX.Props.C01Pipeline
open TLX TLX.Spec.TlsHello TLX.Lemmas.Pipeline

/-- C — for a ClientHello / ServerHello pair encoded per RFC (`Spec.TlsHello`, any extensions incl. none, any session
    id, record versions as the RFCs prescribe: `Negotiated`), `handle_tls_record` on the two records leaves the session
    with the negotiated version, the client random, and — exactly when `Session.generate_keys` (`Pipeline.genKeys`: suite
    table, key log, key schedule, `Decryptor.__init__`) installs a decryptor for (version, suite, client random, server
    random, extensions, compression) — `can_decrypt = True` with that decryptor; in every other outcome (unknown suite,
    no usable key-log line, an exception) `can_decrypt = False`. -/
theorem server_hello_installs (H : Crypto.Prims) (P : Cipher.Prims) (kl : List Keylog.Key) (m : Bool)
    (s0 : Session.St RecordLayer.Dec) (h0 : s0.srvCC = false ∧ s0.cliCC = false)
    (ch : ClientHello) (hch : ch.WellFormed) (sh : ServerHello) (hsh : sh.WellFormed)
    (rvC rvS : Bytes) (hrc : rvC.length = 2) (hrs : rvS.length = 2) (carC carS : List Nat)
    (v : Session.Ver) (hneg : Negotiated rvS sh v) :
    let O := Pipeline.ops H P kl
    let s2 := Session.handleRecord O m (Session.handleRecord O m s0 ⟨hsRecord rvC (encodeClientHello ch), carC⟩ false)
      ⟨hsRecord rvS (encodeServerHello sh), carS⟩ true
    s2.ver = some v ∧ s2.cr = some ch.random ∧
    match Pipeline.genKeys H P kl (some v) sh.cipherSuite ch.random sh.random
        ((sh.extensions.getD []).map extPair) sh.compressionMethod with
    | .installed d => s2.canDecrypt = true ∧ s2.dec = some d
    | _ => s2.canDecrypt = false := by
  intro O s2
  obtain ⟨c1, c2, c3⟩ := hsRecord_fields rvC (encodeClientHello ch) carC hrc
  obtain ⟨d1, d2, d3⟩ := hsRecord_fields rvS (encodeServerHello sh) carS hrs
  obtain ⟨hcr, chrest, hchd⟩ := clientHello_layout ch hch
  -- the ClientHello record
  have hs1 : Session.handleRecord O m s0 ⟨hsRecord rvC (encodeClientHello ch), carC⟩ false
      = Session.pushMeta m (Session.clientHello s0 ⟨hsRecord rvC (encodeClientHello ch), carC⟩)
          ⟨hsRecord rvC (encodeClientHello ch), carC⟩ false := by
    unfold Session.handleRecord Session.handleRecordRaw
    rw [c1]
    simp only [if_true, Session.handshakeRecord, h0.1, h0.2, Bool.or_self, Bool.false_eq_true, if_false, c3]
    rw [hchd]
    simp only [if_true, Session.Out.st]
  -- the ServerHello record
  obtain ⟨shrest, hshd⟩ : ∃ rest, encodeServerHello sh = 2 :: rest :=
    ⟨_, by simp only [encodeServerHello, handshake, Lemmas.TlsHello.u8_eq, List.cons_append, List.nil_append]; rfl⟩
  have hcore : ∀ (s1 : Session.St RecordLayer.Dec), s1.srvCC = false → s1.cliCC = false → s1.chSeen = true →
      s1.cr = some ch.random →
      let s2 := Session.handleRecord O m s1 ⟨hsRecord rvS (encodeServerHello sh), carS⟩ true
      s2.ver = some v ∧ s2.cr = some ch.random ∧
      match Pipeline.genKeys H P kl (some v) sh.cipherSuite ch.random sh.random
          ((sh.extensions.getD []).map extPair) sh.compressionMethod with
      | .installed d => s2.canDecrypt = true ∧ s2.dec = some d
      | _ => s2.canDecrypt = false := by
    intro s1 a1 a2 a3 a4
    have hsh' := serverHello_layout O s1 rvS hrs sh hsh carS
    rw [chooseVersion_negotiated _ rvS sh hsh v hneg] at hsh'
    have hg : O.genKeys = Pipeline.genKeys H P kl := rfl
    simp only [Session.handleRecord, Session.handleRecordRaw, d1, if_true, Session.handshakeRecord, a1, a2,
      Bool.or_self, Bool.false_eq_true, if_false, d3]
    rw [hshd] at hsh' ⊢
    simp only [if_true, hsh', Session.serverHelloKeys, Session.latch, a3, a4, hg]
    have h12 : ((2 : UInt8) = 1) = False := by decide
    simp only [h12, if_false]
    cases Pipeline.genKeys H P kl (some v) sh.cipherSuite ch.random sh.random
        ((sh.extensions.getD []).map extPair) sh.compressionMethod <;>
      simp [Session.tryExcept, Session.Out.st, Session.pushMeta, Session.St.push] <;>
      cases m <;> simp
  have hcr' : (Session.pushMeta m (Session.clientHello s0 ⟨hsRecord rvC (encodeClientHello ch), carC⟩)
      ⟨hsRecord rvC (encodeClientHello ch), carC⟩ false).cr = some ch.random := by
    have : (Session.clientHello s0 ⟨hsRecord rvC (encodeClientHello ch), carC⟩).cr = some ch.random := by
      simp only [Session.clientHello, c3, hcr]
    cases m <;> simpa [Session.pushMeta, Session.St.push] using this
  have := hcore _ (by cases m <;> rfl) (by cases m <;> rfl) (by cases m <;> rfl) hcr'
  simp only [s2, hs1]
  exact this

end TLX.Props.C01Pipeline

namespace TLX.Props.C01Pipeline
open TLX TLX.Cipher TLX.RecordLayer TLX.Spec.TlsSender TLX.Props.C01 TLX.Lemmas.Pipeline

/-- C, second half (SSL 3.0 – TLS 1.2): when the suite resolves (C14), the key log has a usable line (C09) and the key
    schedule returns a key block (C15), `generate_keys` installs a decryptor that is RELATED to the RFC sender
    initialised with the same write keys / IVs — so `session_exact` applies from the first protected record on. The
    class is `classOf` of what the suite table says (bulk algorithm, tag length), the negotiated version and whether
    extension 0x0016 (encrypt-then-MAC) was in the ServerHello. -/
theorem genKeys_installs_rel_legacy (H : Crypto.Prims) (P : Prims) (L : SealLaws P) (kl : List Keylog.Key)
    (v : Session.Ver) (hv : v ≠ .tls13) (suite cr sr : Bytes) (exts : Session.Exts)
    (hsl : suite.length = 2) (ps : CipherSuite.Params) (hres : CipherSuite.resolve (Bytes.beNat suite) = some ps)
    (a : Pipeline.SuiteArgs) (hargs : Pipeline.suiteArgs ps = some a)
    (f : Keylog.Key) (fs : List Keylog.Key)
    (hfound : (Keylog.findSessionSecrets kl (Pipeline.natsOfBytes cr)).filter
        (fun k => k.label == Keylog.s_CLIENT_RANDOM || k.label == Keylog.s_RSA) = f :: fs)
    (secrets : List KeySchedule.Secret) (hsec : Pipeline.secretsOf false (f :: fs) = some secrets)
    (k : KeySchedule.Keys6)
    (hgen : KeySchedule.generateKeys H (Pipeline.ksVersion v) a.ks secrets cr sr = .ok (some (.legacy k)))
    (cls : CipherClass)
    (hcls : classOf a.bulk (Pipeline.rlVersion v) (Session.extGet exts [0x00, 0x16]).isSome a.tagLen = some cls)
    (hmac : 0 < (KeySchedule.macSuite H a.ks.mac).outLen)
    (hck : KeyMatOk cls k.clientKey k.clientIv) (hsk : KeyMatOk cls k.serverKey k.serverIv) :
    ∃ d, Pipeline.genKeys H P kl (some v) suite cr sr exts 0 = .installed d ∧
      Rel cls (KeySchedule.macSuite H a.ks.mac).outLen
        ⟨SDir.init k.clientKey k.clientIv [] [], SDir.init k.serverKey k.serverIv [] []⟩ d := by
  obtain ⟨hb, hver, hpar, h13⟩ := classOf_spec _ _ _ _ cls hcls
  have hrl : Pipeline.rlVersion v ≠ .tls13 := by cases v <;> simp_all [Pipeline.rlVersion]
  have h13' : cls.is13 = false := by rw [h13]; simpa using hrl
  have hbl : BlockLenOk cls (Pipeline.blockBits a.bulk) := by
    cases cls <;> try trivial
    rename_i alg e
    simp only [bulkOf] at hb
    have hblk : alg.isBlock = true := hck.1
    subst hb
    simp only [BlockLenOk]
    generalize a.bulk = alg at hblk ⊢
    cases alg <;> simp_all [Pipeline.blockBits, Alg.blk, Alg.isBlock]
  obtain ⟨d, hd, hR⟩ := init_rel_pre13 P L cls h13' (Pipeline.rlVersion v) hver _ hmac _ hbl a.tagLen _ hpar
    k.clientKey k.serverKey k.clientIv k.serverIv hck hsk
  rw [hb] at hd
  refine ⟨d, ?_, hR⟩
  have hvs : (some v = some Session.Ver.tls13) = False := by simp [hv]
  have hvd : decide (v = Session.Ver.tls13) = false := by simp [hv]
  have h01 : ((0 : UInt8) = 1) = False := by decide
  simp only [Pipeline.genKeys, hsl, if_true, hres, hargs, hvs, if_false, hfound, hvd, hsec, hgen,
    Pipeline.keysOfInstalled, hd, h01]

/-- C, second half (TLS 1.3, all four traffic secrets in the key log): `generate_keys` installs a decryptor in the
    handshake epoch, related to the RFC sender that holds the same handshake and application traffic keys / IVs — so
    `session_exact` / `tls13_after_finished_exact` apply from the first protected record after the ServerHello on. -/
theorem genKeys_installs_rel_13 (H : Crypto.Prims) (P : Prims) (kl : List Keylog.Key)
    (suite cr sr : Bytes) (exts : Session.Exts)
    (hsl : suite.length = 2) (ps : CipherSuite.Params) (hres : CipherSuite.resolve (Bytes.beNat suite) = some ps)
    (a : Pipeline.SuiteArgs) (hargs : Pipeline.suiteArgs ps = some a)
    (f : Keylog.Key) (fs : List Keylog.Key)
    (hfound : Keylog.findSessionSecrets kl (Pipeline.natsOfBytes cr) = f :: fs)
    (secrets : List KeySchedule.Secret) (hsec : Pipeline.secretsOf true (f :: fs) = some secrets)
    (k : KeySchedule.Installed13)
    (hgen : KeySchedule.generateKeys H .tls13 a.ks secrets cr sr = .ok (some (.tls13 k)))
    (chk chiv cak caiv shk shiv sak saiv : Bytes)
    (hk : k.clientHsKey = some chk ∧ k.clientHsIv = some chiv ∧ k.clientAppKey = some cak ∧ k.clientAppIv = some caiv ∧
      k.serverHsKey = some shk ∧ k.serverHsIv = some shiv ∧ k.serverAppKey = some sak ∧ k.serverAppIv = some saiv)
    (cls : CipherClass)
    (hcls : classOf a.bulk .tls13 (Session.extGet exts [0x00, 0x16]).isSome a.tagLen = some cls)
    (h1 : KeyMatOk cls chk chiv) (h2 : KeyMatOk cls cak caiv) (h3 : KeyMatOk cls shk shiv) (h4 : KeyMatOk cls sak saiv) :
    ∃ d, Pipeline.genKeys H P kl (some .tls13) suite cr sr exts 0 = .installed d ∧
      Rel cls (KeySchedule.macSuite H a.ks.mac).outLen
        ⟨SDir.init chk chiv cak caiv, SDir.init shk shiv sak saiv⟩ d := by
  obtain ⟨hb, hver, hpar, h13⟩ := classOf_spec _ _ _ _ cls hcls
  have h13' : cls.is13 = true := by rw [h13]; rfl
  obtain ⟨d, hd, hR⟩ := init_rel_13 P cls h13' (KeySchedule.macSuite H a.ks.mac).outLen (Pipeline.blockBits a.bulk)
    a.tagLen _ hpar chk chiv cak caiv shk shiv sak saiv h1 h2 h3 h4
  rw [hb] at hd
  refine ⟨d, ?_, hR⟩
  obtain ⟨k1, k2, k3, k4, k5, k6, k7, k8⟩ := hk
  have h01 : ((0 : UInt8) = 1) = False := by decide
  simp only [Pipeline.genKeys, hsl, if_true, hres, hargs, hfound, decide_true, hsec, Pipeline.ksVersion, hgen,
    Pipeline.keysOfInstalled, Pipeline.rlVersion, k1, k2, k3, k4, k5, k6, k7, k8, hd, h01,
    if_false]

end TLX.Props.C01Pipeline

-- ====================================================================== non-vacuity, B and C: one connection end to end
namespace TLX.Props.C01Pipeline.Ex2
open TLX TLX.Spec.TlsHello TLX.Spec.TlsSender TLX.Lemmas.Pipeline TLX.Props.C01.Ex

/-- toy hashes with the real digest sizes (so that key blocks have the lengths the suites need) -/
def hashes : Crypto.Prims := ⟨Crypto.toy 16, Crypto.toy 20, Crypto.toy 32, Crypto.toy 48⟩

def cr0 : Bytes := List.replicate 32 7
def sr0 : Bytes := List.replicate 32 9
/-- a TLS 1.2 hello pair: TLS_RSA_WITH_AES_128_GCM_SHA256, a session id, renegotiation_info -/
def ch0 : ClientHello := ⟨[3, 3], cr0, [], [[0, 0x9c]], [0], none⟩
def sh12 : ServerHello := ⟨[3, 3], sr0, [1, 2, 3], [0x00, 0x9c], 0, some [⟨0xff01, [0]⟩]⟩
/-- a TLS 1.3 ServerHello: TLS_AES_128_GCM_SHA256, supported_versions = 0x0304, key_share -/
def sh13 : ServerHello := ⟨[3, 3], sr0, [], [0x13, 0x01], 0, some [⟨43, [3, 4]⟩, ⟨51, [0, 29, 0, 1, 5]⟩]⟩
/-- `CLIENT_RANDOM <client random> <48-byte master secret>` -/
def kl0 : List Keylog.Key :=
  [⟨Keylog.s_CLIENT_RANDOM, Keylog.hexOf (Pipeline.natsOfBytes cr0), Keylog.hexOf (List.replicate 48 5)⟩]

-- hypotheses of `server_hello_installs`
example : ch0.WellFormed ∧ sh12.WellFormed ∧ sh13.WellFormed := by decide
example : Negotiated [3, 3] sh12 .tls12 := by unfold Negotiated; decide
example : Negotiated [3, 3] sh13 .tls13 := by unfold Negotiated; decide
example : Negotiated [3, 1] { sh12 with legacyVersion := [3, 1], extensions := none } .tls10 := by unfold Negotiated; decide

def gk := Pipeline.genKeys hashes Cipher.Toy.prims kl0 (some .tls12) [0, 0x9c] cr0 sr0
  ((sh12.extensions.getD []).map extPair) 0

/-- the hypotheses of `genKeys_installs_rel_legacy` hold together for this suite / key log / version -/
def legacyHyps : Bool :=
  match CipherSuite.resolve 0x9c with
  | some ps =>
    match Pipeline.suiteArgs ps with
    | some a =>
      match (Keylog.findSessionSecrets kl0 (Pipeline.natsOfBytes cr0)).filter
          (fun k => k.label == Keylog.s_CLIENT_RANDOM || k.label == Keylog.s_RSA) with
      | f :: fs =>
        match Pipeline.secretsOf false (f :: fs) with
        | some secrets =>
          match KeySchedule.generateKeys hashes .tls12 a.ks secrets cr0 sr0 with
          | .ok (some (.legacy k)) =>
            decide (Props.C01.classOf a.bulk .tls12 false a.tagLen = some (.aead12 .aesgcm 16)) &&
            decide (0 < (KeySchedule.macSuite hashes a.ks.mac).outLen) &&
            decide (Props.C01.KeyMatOk (.aead12 .aesgcm 16) k.clientKey k.clientIv) &&
            decide (Props.C01.KeyMatOk (.aead12 .aesgcm 16) k.serverKey k.serverIv)
          | _ => false
        | none => false
      | [] => false
    | none => false
  | none => false
example : legacyHyps = true := by decide +kernel

/-- the RFC sender holding the keys `generate_keys` installed, sending three application records -/
def wire12 : List Wire :=
  match gk with
  | .installed d =>
    run Cipher.Toy.prims Cipher.Toy.laws (.aead12 .aesgcm 16) [3, 3]
      ⟨SDir.init (d.c.key.getD []) (d.c.iv.getD []) [] [], SDir.init (d.s.key.getD []) (d.s.iv.getD []) [] []⟩
      [.send false 23 hi ⟨iv8, [], [], 0⟩, .send true 23 k16 ⟨iv8, [], [], 0⟩, .send false 23 [] ⟨iv8, [], [], 0⟩]
  | _ => []

def rawOf : Wire → Bytes
  | .record _ raw => raw
  | .switch _ => []

def cEp : MainLoop.Endpoint := ⟨[10, 0, 0, 1], 5555⟩
def sEp : MainLoop.Endpoint := ⟨[10, 0, 0, 2], 443⟩
def mkPkt (srv : Bool) (payload : Bytes) (tag : Nat) : MainLoop.Pkt :=
  if srv then ⟨.tcp, sEp, cEp, payload, true, tag⟩ else ⟨.tcp, cEp, sEp, payload, true, tag⟩

/-- ClientHello, ServerHello, a client record split over two packets that arrive swapped, a server record, an empty
    client record -/
def pkts0 : List MainLoop.Pkt :=
  let chR := hsRecord [3, 1] (encodeClientHello ch0)
  let shR := hsRecord [3, 3] (encodeServerHello sh12)
  let a := rawOf (wire12.getD 0 (.switch false))
  let b := rawOf (wire12.getD 1 (.switch false))
  let c := rawOf (wire12.getD 2 (.switch false))
  [mkPkt false chR 0, mkPkt true shR 1, mkPkt false (a.drop 7) 3, mkPkt false (a.take 7) 2, mkPkt true b 4,
   mkPkt false c 5]

/-- sequence numbers: the offset of the packet in its direction's stream; the client's stream wraps at 2^32 -/
def seqOf (tag : Nat) : Nat :=
  let chL := (hsRecord [3, 1] (encodeClientHello ch0)).length
  let shL := (hsRecord [3, 3] (encodeServerHello sh12)).length
  let aL := (rawOf (wire12.getD 0 (.switch false))).length
  match tag with
  | 0 => 4294967290
  | 1 => 77
  | 2 => (4294967290 + chL) % 4294967296
  | 3 => (4294967290 + chL + 7) % 4294967296
  | 4 => 77 + shL
  | _ => (4294967290 + chL + aL) % 4294967296

def info0 (tag : Nat) : Pipeline.Info := ⟨seqOf tag, 1000 + tag, [1], [2], false⟩
def conn0 : Pipeline.Conn := ⟨⟨[443], false, false, false, true, []⟩, sEp, cEp, [2], [1], false, pkts0⟩

/-- (capture time, payload) of the exported data segments -/
def view (o : Option (List Pipeline.OutPkt)) : Option (List (Nat × Bytes)) :=
  o.map fun fs => (dataPkts fs).map fun p => (p.1, p.2.2.2.2.2.2)

-- without `-a`: exactly the sender's plaintexts, each at the time of its carrier packets, nothing of the hellos
example : view (Pipeline.connOut hashes Cipher.Toy.prims info0 (setMeta conn0 false) kl0)
    = some [(1002, [104]), (1003, [105]), (1004, k16)] := by decide +kernel
-- with `-a`: the two hello records verbatim in addition (B1: the former is a subsequence of this)
example : view (Pipeline.connOut hashes Cipher.Toy.prims info0 (setMeta conn0 true) kl0)
    = some [(1000, hsRecord [3, 1] (encodeClientHello ch0)), (1001, hsRecord [3, 3] (encodeServerHello sh12)),
            (1002, [104]), (1003, [105]), (1004, k16)] := by decide +kernel
-- cut after four packets (B2): a prefix
example : view (Pipeline.connOut hashes Cipher.Toy.prims info0 { setMeta conn0 true with pkts := pkts0.take 4 } kl0)
    = some [(1000, hsRecord [3, 1] (encodeClientHello ch0)), (1001, hsRecord [3, 3] (encodeServerHello sh12)),
            (1002, [104]), (1003, [105])] := by decide +kernel
-- without the key log line: nothing but (with `-a`) the hellos
example : view (Pipeline.connOut hashes Cipher.Toy.prims info0 (setMeta conn0 false) []) = some [] := by decide +kernel

end TLX.Props.C01Pipeline.Ex2
