/-
C13 (TLS builder part) — metadata export only adds packets: if the record list without `-a` is the record list with
`-a` minus the metadata entries (`Session` appends handshake / CCS / alert records only under `exp_meta`), then the
payload-carrying packets without `-a` are a subsequence — same direction, time and payload, same order — of those
with `-a`. Sequence numbers differ, payloads do not.
-/
import TLX.Lemmas.TcpOutData
namespace TLX.Props.C13
open TLX TLX.TcpOut

theorem sublist_flatMap {α β : Type} (f : α → List β) {l₁ l₂ : List α} (h : l₁.Sublist l₂) :
    (l₁.flatMap f).Sublist (l₂.flatMap f) := by
  induction h with
  | slnil => simp
  | cons a _ ih => simp only [List.flatMap_cons]; exact ih.trans (List.sublist_append_right _ _)
  | cons_cons a _ ih => simp only [List.flatMap_cons]; exact List.Sublist.append (List.Sublist.refl _) ih

/-- C13 for the TCP builder: for every record list `on` (with metadata) and every predicate `isApp` marking the
    application-data entries, the data segments built from `on.filter isApp` are a subsequence of those built from `on` -/
theorem meta_only_adds_tls (on : List Rec) (isApp : Rec → Bool) (fsOn fsOff : List Frame)
    (hon : build on = some fsOn) (hoff : build (on.filter isApp) = some fsOff) :
    (dataFrames fsOff).Sublist (dataFrames fsOn) := by
  rw [build_data _ _ hon, build_data _ _ hoff]
  exact sublist_flatMap recData List.filter_sublist

/-- a metadata record (ClientHello, ServerHello, …) is exported verbatim: its parts concatenate to its bytes and no
    other record's bytes are mixed into its segments -/
theorem meta_record_verbatim (r : Rec) : ((recData r).map (·.2.2)).flatten = r.bytes ∨ r.ts = [] := by
  unfold recData
  cases hp : parts r.bytes r.ts.length with
  | none =>
    right
    unfold parts at hp
    split at hp
    · rename_i h0; exact List.length_eq_zero_iff.mp h0
    · simp at hp
  | some ps =>
    left
    have hfl := Props.C06.parts_flatten _ _ _ hp
    have hle := Props.C06.parts_length_le _ _ _ hp
    simp only [List.map_map]
    have : (List.map ((fun x => x.2.2) ∘ fun x : Bytes × Nat => (r.fromServer, x.2, x.1)) (ps.zip r.ts)) = ps := by
      have hz : (ps.zip r.ts).map Prod.fst = ps := by
        rw [List.map_fst_zip]; exact hle
      conv => rhs; rw [← hz]
      apply List.map_congr_left
      intro x _; rfl
    rw [this, hfl]

-- Non-vacuity: with a metadata record interleaved the application segments are unchanged
example :
    (build [⟨some [1, 2, 3], [10], false⟩, ⟨some [7, 7], [20, 21], true⟩]).map dataFrames =
      some [(false, 10, [1, 2, 3]), (true, 20, [7]), (true, 21, [7])] := by decide
example :
    (build [⟨some [22, 3, 3, 0, 1, 1], [5, 6], false⟩, ⟨some [1, 2, 3], [10], false⟩,
            ⟨some [7, 7], [20, 21], true⟩]).map dataFrames =
      some [(false, 5, [22, 3, 3]), (false, 6, [0, 1, 1]), (false, 10, [1, 2, 3]), (true, 20, [7]), (true, 21, [7])] := by
  decide

end TLX.Props.C13
