/-
Non-vacuity of `Props/C01Full.lean`.

  `tls13_full_instance`   TLS 1.3 (0x1301) with `-a`: the capture and key-log file of `C01Rfc.Ex.tls13_rfc_instance`; the
                          output file contains the `-a` conversation (`expect13 true`: hello records, dummy CCS records and
                          application data; protected handshake records contribute nothing)
  `tls12_full_instance`   TLS 1.2 (0x009C) with `-a -c -m 443:9443` over IPv6 where EVERY segment carries a hop-by-hop options
                          header (PadN), a routing header and a fragment header (offset 0) in front of TCP, with valid TCP
                          checksums; the capture also holds an ARP request and a TCP segment of another flow with a WRONG
                          checksum (ignored under `-c`: `badTcp_ignored`)
Every hypothesis by evaluation, except — as before — the IEEE-754 fact `hus`.
-/
import TLX.Props.C01Full
import TLX.Props.C01RfcEx
set_option autoImplicit false
set_option linter.unusedSimpArgs false
set_option linter.unusedVariables false
namespace TLX.Props.C01Full.Ex
open TLX TLX.MainLoop TLX.Spec.Demux TLX.Dissect TLX.Export TLX.Props.C01File TLX.Props.C01File.Ex
open TLX.Spec.FrameBuild TLX.Spec.TlsCapture TLX.Spec.NssKeylog
open TLX.Cipher TLX.RecordLayer TLX.Spec.TlsSender TLX.Props.C01 TLX.Lemmas.Pipeline TLX.Spec.TlsConnection
open TLX.Lemmas.Capstone TLX.Props.C01Pipeline TLX.Spec.TlsFraming TLX.Props.C01Capstone TLX.Props.C01Capstone.Ex
open TLX.Props.C01Pipeline.Ex2 TLX.Props.C01.Ex TLX.Props.C01File2 TLX.Props.C01File2.Ex
open TLX.Spec.KeySchedules TLX.Lemmas.C01Rfc TLX.Props.C09Found TLX.Lemmas.C01Full TLX.Props.C01Rfc.Ex
open TLX.Spec.RfcSuite (SuiteSpec suiteOfCode cls12 snd12 snd13 ValidFor etmNegotiated labelClientRandom labelCHTS labelSHTS
  labelCTS0 labelSTS0)

/-! ### helpers -/

theorem foreign_is_arp (l : List (Bool × Bytes × Nat)) (e : CapEv) (he : CEv.foreign e ∈ CEv.foreign arp :: segEvs 1 l) :
    e = arp := by
  simp only [List.mem_cons] at he
  rcases he with he | he
  · cases he; rfl
  · exfalso
    have : ∀ (l : List (Bool × Bytes × Nat)) (n : Nat), CEv.foreign e ∉ segEvs n l := by
      intro l
      induction l with
      | nil => intro n h; cases h
      | cons x xs ih =>
        obtain ⟨d, pl, off⟩ := x
        intro n h
        simp only [segEvs, List.mem_cons] at h
        rcases h with h | h
        · cases h
        · exact ih (n + 1) h
    exact this _ _ he

theorem arp_ignoredC (o : Opts) : IgnoredC o arp := by
  intro tag
  exact ⟨.notTcpUdp, by simp [arp, pktOfC, pktOf, Ingest.otherPkt, classify]⟩

/-! ### TLS 1.3 with `-a` -/

def argsA : Args := ⟨none, none, false, false, true⟩
def sessA13 : Pipeline.Conn := sessionOf (evs13.map CEv.cap) (optsOf argsA ports0 []) p13 pkts13f.tail

/-- the `-a` conversation: the client's stream is its hello record, the dummy ChangeCipherSpec record and "hi"; the
    server's its hello record, the dummy ChangeCipherSpec record and the sixteen bytes — the protected handshake records
    (outer type 23) contribute nothing -/
example : expect13 true Cipher.Toy.prims Cipher.Toy.laws C01Capstone.Ex.cls13 t13 x13 =
    (t13.chRecord ++ [20, 3, 3, 0, 1, 1] ++ hi, t13.shRecord ++ [20, 3, 3, 0, 1, 1] ++ k16) := by decide +kernel

/-- **Non-vacuity of `tls13_capture_exact_full`** (`-a`) -/
theorem tls13_full_instance (hus : ∀ e ∈ evs13.map CEv.cap, e.us < 2 ^ 64) :
    ∃ f, exportFile (fun _ _ _ => none) hashes Cipher.Toy.prims argsA cv0.isLegacy (some (C09Found.fileText ls13))
        (Spec.Containers.encode cv0 cevs13) = .file f ∧
      Exact f sessA13 (t13.chRecord ++ [20, 3, 3, 0, 1, 1] ++ hi) (t13.shRecord ++ [20, 3, 3, 0, 1, 1] ++ k16) := by
  have hl1 := hasLine13 labelCHTS 1 true false (by simp [ls13]) chts (by decide)
  have hl2 := hasLine13 labelSHTS 2 true true (by simp [ls13]) shts (by decide)
  have hl3 := hasLine13 labelCTS0 3 false false (by simp [ls13]) cats (by decide)
  have hl4 := hasLine13 labelSTS0 4 false true (by simp [ls13]) sats (by decide)
  have ho1 := onlySecret13 labelCHTS 1 chts (by decide) (only_aux _ _ (by decide))
  have ho2 := onlySecret13 labelSHTS 2 shts (by decide) (only_aux _ _ (by decide))
  have ho3 := onlySecret13 labelCTS0 3 cats (by decide) (only_aux _ _ (by decide))
  have ho4 := onlySecret13 labelSTS0 4 sats (by decide) (only_aux _ _ (by decide))
  have hokc : ∀ e ∈ t13.cEvs, EvOk1 C01Capstone.Ex.cls13 (sp13.hash.suite hashes).outLen e := by decide +kernel
  have hoks : ∀ e ∈ t13.sEvs, EvOk1 C01Capstone.Ex.cls13 (sp13.hash.suite hashes).outLen e := by decide +kernel
  have hwr : ∀ d, ∀ r ∈ t13.records Cipher.Toy.prims Cipher.Toy.laws C01Capstone.Ex.cls13
      (snd13 hashes sp13 chts shts cats sats) d, WholeRecord r := by
    rw [snd13_0]; intro d; cases d <;> decide +kernel
  have hsc : Script13 t13.cEvs := by
    intro e he
    simp only [t13, List.mem_cons, List.mem_nil_iff, or_false] at he
    rcases he with rfl | rfl | rfl
    · exact Or.inl rfl
    · exact Or.inr (Or.inl ⟨_, _, rfl⟩)
    · exact Or.inr (Or.inr ⟨_, _, rfl⟩)
  have hss : Script13 t13.sEvs := by
    intro e he
    simp only [t13, List.mem_cons, List.mem_nil_iff, or_false] at he
    rcases he with rfl | rfl | rfl | rfl
    · exact Or.inl rfl
    · exact Or.inr (Or.inl ⟨_, _, rfl⟩)
    · exact Or.inr (Or.inl ⟨_, _, rfl⟩)
    · exact Or.inr (Or.inr ⟨_, _, rfl⟩)
  have hdesc : DescribedX fl0 argsA.checksumTest evs13 := describedX_of_described fl0 evs13 described13
  have hexp : expect13 argsA.metadata Cipher.Toy.prims Cipher.Toy.laws C01Capstone.Ex.cls13 t13
      (snd13 hashes sp13 chts shts cats sats) =
        (t13.chRecord ++ [20, 3, 3, 0, 1, 1] ++ hi, t13.shRecord ++ [20, 3, 3, 0, 1, 1] ++ k16) := by
    rw [snd13_0]; decide +kernel
  obtain ⟨_, hcand, _, _, _⟩ := described_session_x fl0 (by decide) evs13 (optsOf argsA ports0 []) hdesc
    (by decide +kernel) (by decide +kernel) p13 pkts13f.tail fp13
  have hrec : RecordsFit hashes Cipher.Toy.prims (capInfo (evs13.map CEv.cap)) sessA13
      ((fileKeysOf (some (C09Found.fileText ls13))).getD []) := by
    unfold RecordsFit sessTraffic; decide +kernel
  have h := tls13_capture_exact_full (fun _ _ _ => none) hashes hashes_lawful Cipher.Toy.prims Cipher.Toy.laws
    fl0 (by decide) evs13 argsA hdesc times13 cv0 cevs13 cwf13 items13 ls13 ls13_wf
    [] ports0 rfl rfl (by decide +kernel) (by decide +kernel) p13 pkts13f.tail fp13
    t13 (by decide) (by decide) rfl rfl rfl rfl (by unfold Negotiated; decide)
    (by decide +kernel) sp13 (by decide +kernel) C01Capstone.Ex.cls13 (by decide +kernel)
    chts shts cats sats hl1 hl2 hl3 hl4 ho1 ho2 ho3 ho4 hsc hss hokc hoks hwr (by decide +kernel)
    (by rw [snd13_0]; exact wires13)
    ⟨(connRecs (capInfo (evs13.map CEv.cap)) sessA13).headD (⟨[], []⟩, false),
      ((connRecs (capInfo (evs13.map CEv.cap)) sessA13).drop 1).headD (⟨[], []⟩, false),
      (connRecs (capInfo (evs13.map CEv.cap)) sessA13).drop 2, by decide +kernel, by decide +kernel, by decide +kernel⟩
    (by decide) (by decide) (by intro kv hkv; cases hkv) (by rw [hexp]; decide +kernel) hrec hus
    (fun blk hblk => othersFit_of_ignored_c _ _ _ argsA _ fl0 evs13 [] ports0 rfl rfl hdesc
      (fun e he => by rw [foreign_is_arp cap13 e he]; exact arp_ignoredC _) p13 pkts13f.tail fp13 hcand blk hblk)
  rw [hexp] at h
  exact h

/-! ### TLS 1.2 with `-a -c -m 443:9443` over IPv6 with extension headers -/

section V6
open TLX.Spec.Rfc1071 (ocSum pseudoWords words)

def ip6c : Bytes := [0x20, 0x01, 0x0d, 0xb8, 0, 0, 0, 0, 0, 0, 0, 0, 0, 0, 0, 1]
def ip6s : Bytes := [0x20, 0x01, 0x0d, 0xb8, 0, 0, 0, 0, 0, 0, 0, 0, 0, 0, 0, 2]
def fl6 : Flow := ⟨true, ip6c, 5555, ip6s, 443⟩

/-- the TCP checksum a sender computes (RFC 9293 §3.1 over the RFC 8200 §8.1 pseudo-header): the one's complement of the
    one's-complement sum with the field zero -/
def csumFor (src dst : Bytes) (t : Tcp) : Nat :=
  0xFFFF - ocSum (pseudoWords true src dst .tcp t.encode.length ++ words t.encode)

def tcp6 (d : Bool) (seq : Nat) (pl : Bytes) : Tcp :=
  { tcpOf d seq pl with csum := csumFor (if d then ip6s else ip6c) (if d then ip6c else ip6s) (tcpOf d seq pl) }

/-- hop-by-hop options (one PadN of six octets), routing (type 0, no segments left), fragment (offset 0, M = 0) -/
def exts6 : List Ext := [.hopByHop [.opt 1 [0, 0, 0, 0]], .routing 0 0 [0, 0, 0, 0], .fragment 7 false]

def frame6 (d : Bool) (seq : Nat) (pl : Bytes) : Spec.FrameBuild.Frame :=
  ⟨if d then cMac else sMac, if d then sMac else cMac,
   .v6 ⟨0, 5, 64, if d then ip6s else ip6c, if d then ip6c else ip6s, exts6⟩, .tcp (tcp6 d seq pl), []⟩

theorem isSegX_mk6 (d : Bool) (seq : Nat) (pl : Bytes) (hs : seq < 4294967296) (hp : pl.length < 60000) :
    IsSegX fl6 d (frame6 d seq pl) (tcp6 d seq pl) := by
  cases d <;>
    simp [IsSegX, Frame.WF, Upper.WF, Tcp.WF, V6.WF, Ext.WF, Opt6.WF, frame6, tcp6, tcpOf, exts6, encChain, Ext.encode,
      Ext.proto, encOpts, Opt6.encode, Upper.encode, Upper.proto, Tcp.encode, Tcp.header, be2, be4, fl6, fragFirst, fragLast,
      cMac, sMac, ip6c, ip6s] <;> omega

def segEvs6 : Nat → List (Bool × Bytes × Nat) → List CEv
  | _, [] => []
  | n, (d, pl, off) :: rest =>
    .seg (timeAt n) d (frame6 d ((isnOf d + off) % 4294967296) pl) (tcp6 d ((isnOf d + off) % 4294967296) pl) ::
      segEvs6 (n + 1) rest

/-- every data segment carries a valid TCP checksum (decidable: `Spec.Rfc1071.verdict`) -/
def csumsOk (evs : List CEv) : Bool :=
  evs.all fun
    | .seg _ _ fr t => t.payload.isEmpty || decide (CsumValid fr t)
    | .foreign _ => true

theorem segEvs6_describedX (l : List (Bool × Bytes × Nat)) (h : ∀ x ∈ l, x.2.1.length < 60000) (n : Nat)
    (hc : csumsOk (segEvs6 n l) = true) : DescribedX fl6 true (segEvs6 n l) := by
  induction l generalizing n with
  | nil => intro ev hev; cases hev
  | cons x rest ih =>
    obtain ⟨d, pl, off⟩ := x
    simp only [segEvs6, csumsOk, List.all_cons, Bool.and_eq_true] at hc
    intro ev hev
    simp only [segEvs6, List.mem_cons] at hev
    rcases hev with rfl | hev
    · refine ⟨isSegX_mk6 d _ pl (Nat.mod_lt _ (by decide)) (h (d, pl, off) (by simp)), fun _ hpl => ?_⟩
      have := hc.1
      simp only [Bool.or_eq_true, decide_eq_true_eq, List.isEmpty_iff] at this
      rcases this with h0 | h0
      · exact absurd h0 hpl
      · exact h0
    · exact ih (fun y hy => h y (by simp [hy])) (n + 1) hc.2 ev hev

/-- a TCP segment of ANOTHER flow (10.0.0.9:7777 → 10.0.0.2:443 over IPv4) whose checksum field is zero: wrong -/
def badTcpT : Tcp := ⟨7777, 443, 5, 0, 0x18, 0, 8192, 0, 0, [], [1, 2, 3]⟩
def badFr : Spec.FrameBuild.Frame :=
  ⟨sMac, cMac, .v4 ⟨0, 1, true, false, 64, 0, [10, 0, 0, 9], [10, 0, 0, 2], []⟩, .tcp badTcpT, []⟩
def badTcp : CapEv := ⟨timeAt 1, badFr.encode, viewOf badFr⟩
def flBad : Flow := ⟨false, [10, 0, 0, 9], 7777, [10, 0, 0, 2], 443⟩

theorem badSeg : IsSegX flBad false badFr badTcpT := by
  simp [IsSegX, Frame.WF, Upper.WF, Tcp.WF, V4.WF, badFr, badTcpT, Upper.encode, Tcp.encode, Tcp.header, be2, be4, flBad,
    cMac, sMac]

theorem badTcp_foreignC : ForeignC fl6 true badTcp := by
  refine ⟨⟨dissect_segX flBad false badFr badTcpT badSeg, ?_⟩, fun _ x hx => ⟨_, verdict_segX flBad false badFr badTcpT badSeg x hx⟩⟩
  intro tag _ _
  show sameFlow (refPkt fl6) (pktOf tag (viewOf badFr)) = false
  rw [pktOf_segX flBad false badFr badTcpT badSeg tag]
  simp [sameFlow, refPkt, clientEp, serverEp, fl6, flBad, ip6c, ip6s]

/-- with `-c` the main loop ignores it: the RFC 1071 receiver rejects the segment -/
theorem badTcp_ignored (o : Opts) (hc : o.checksumTest = true) : IgnoredC o badTcp := by
  intro tag
  have hb : csumBit true badTcp.d = false := by decide +kernel
  refine ⟨.badCsumTcp, ?_⟩
  have hp : pktOfC o.checksumTest tag badTcp.d =
      ⟨.tcp, clientEp flBad, serverEp flBad, [1, 2, 3], false, tag⟩ := by
    rw [hc]
    simp only [pktOfC, hb]
    show { pktOf tag (viewOf badFr) with csumOk := false } = _
    rw [pktOf_segX flBad false badFr badTcpT badSeg tag]
    rfl
  rw [hp]
  simp [classify, hc]

/-- the capture: an ARP request, the foreign segment with the wrong checksum, then the connection (`cap0`) -/
def evs6 : List CEv := .foreign arp :: .foreign badTcp :: segEvs6 2 cap0

theorem described6 : DescribedX fl6 true evs6 := by
  intro ev hev
  simp only [evs6, List.mem_cons] at hev
  rcases hev with rfl | rfl | hev
  · exact ⟨⟨arp_foreign.1, fun tag h => by simp [arp, pktOf, Ingest.otherPkt] at h⟩, fun _ x hx => by simp [arp] at hx⟩
  · exact badTcp_foreignC
  · exact segEvs6_describedX cap0 (by decide +kernel) 2 (by decide +kernel) ev hev

theorem segEvs6_times (l : List (Bool × Bytes × Nat)) (n : Nat) :
    ∀ e ∈ (segEvs6 n l).map CEv.cap, Ingest.isMinusOne e.t = false := by
  induction l generalizing n with
  | nil => intro e he; cases he
  | cons x rest ih =>
    obtain ⟨d, pl, off⟩ := x
    intro e he
    simp only [segEvs6, List.map_cons, List.mem_cons] at he
    rcases he with rfl | he
    · exact notMinusOne n
    · exact ih (n + 1) e he

theorem times6 : ∀ e ∈ evs6.map CEv.cap, Ingest.isMinusOne e.t = false := by
  intro e he
  simp only [evs6, List.map_cons, List.mem_cons] at he
  rcases he with rfl | rfl | he
  · exact notMinusOne 0
  · exact notMinusOne 1
  · exact segEvs6_times cap0 2 e he

theorem frame6_length (d : Bool) (seq : Nat) (pl : Bytes) : (frame6 d seq pl).encode.length = 98 + pl.length := by
  cases d <;>
    simp [frame6, tcp6, tcpOf, exts6, Frame.encode, Frame.etherType, Frame.datagram, V6.encode, V6.fixed, encChain,
      Ext.encode, Ext.proto, encOpts, Opt6.encode, Upper.encode, Upper.proto, Tcp.encode, Tcp.header, be2, be4, cMac, sMac,
      ip6c, ip6s] <;> omega

theorem segEvs6_bounds (l : List (Bool × Bytes × Nat)) (h : ∀ x ∈ l, x.2.1.length < 60000) (n : Nat) :
    ∀ e ∈ (segEvs6 n l).map CEv.cap, ∃ k, k < n + l.length ∧ e.t = timeAt k ∧ e.buf.length < 70000 := by
  induction l generalizing n with
  | nil => intro e he; cases he
  | cons x rest ih =>
    obtain ⟨d, pl, off⟩ := x
    intro e he
    simp only [segEvs6, List.map_cons, List.mem_cons] at he
    rcases he with rfl | he
    · refine ⟨n, by simp, rfl, ?_⟩
      have := h (d, pl, off) (by simp)
      simp only [CEv.cap, frame6_length]
      simp only at this
      omega
    · obtain ⟨k, hk, h1, h2⟩ := ih (fun y hy => h y (by simp [hy])) (n + 1) e he
      exact ⟨k, by simp only [List.length_cons]; omega, h1, h2⟩

def cevs6 : List Spec.Containers.Ev := (evs6.map CEv.cap).map cevOf

theorem evs6_bounds (c : CEv) (hc : c ∈ evs6) : ∃ k, k < 100 ∧ (CEv.cap c).t = timeAt k ∧ (CEv.cap c).buf.length < 70000 := by
  simp only [evs6, List.mem_cons] at hc
  rcases hc with rfl | rfl | hc
  · exact ⟨0, by decide, rfl, by decide⟩
  · exact ⟨1, by decide, rfl, by decide +kernel⟩
  · obtain ⟨k, hk, h1, h2⟩ := segEvs6_bounds cap0 (by decide +kernel) 2 _ (List.mem_map.mpr ⟨c, hc, rfl⟩)
    exact ⟨k, by have : cap0.length = 10 := rfl; omega, h1, h2⟩

theorem cwf6 : cv0.WF cevs6 := by
  refine ⟨by decide, by decide, by decide, by decide, by decide, legacy_wf _ _ rfl ?_ 0⟩
  intro ev hev
  simp only [cevs6, List.mem_map] at hev
  obtain ⟨e, ⟨c, hc, rfl⟩, rfl⟩ := hev
  obtain ⟨k, hk, ht, hl⟩ := evs6_bounds c hc
  refine ⟨_, _, rfl, ?_, by omega⟩
  rw [ht]
  simp only [timeAt, Spec.Containers.LegacyVariant.unitsPerSecond, if_true]
  have : ((1700000000 : Int).toNat * 10 ^ 9 + (1000 + k)) / 10 ^ 9 = 1700000000 := by
    have : (1700000000 : Int).toNat = 1700000000 := rfl
    rw [this]; omega
  rw [this]; decide

theorem items6 : cevs6.filterMap (Spec.Containers.scale cv0) = (evs6.map CEv.cap).map CapEv.item := by
  unfold cevs6
  apply filterMap_map_some
  intro e he
  simp only [List.mem_map] at he
  obtain ⟨c, hc, rfl⟩ := he
  obtain ⟨k, hk, ht, _⟩ := evs6_bounds c hc
  exact scale_cev _ k hk ht

/-- `-a -c -m 443:9443` -/
def args6 : Args := ⟨none, some ["443:9443".toList.map (·.toNat)], true, false, true⟩
def pm6 : List (Int × Int) := [(443, 9443)]
theorem hpm6 : Options.getPortMap Options.Src.bare args6.mArg = .ok pm6 := by decide +kernel

def pkts6 : List Pkt := flowPkts fl6 0 evs6
def p60 : Pkt := ⟨.tcp, ⟨ip6c, 5555⟩, ⟨ip6s, 443⟩, (rC 0).take 20, true, 2⟩
theorem fp6 : flowPkts fl6 0 evs6 = p60 :: pkts6.tail := by decide +kernel

def sess6 : Pipeline.Conn := sessionOf (evs6.map CEv.cap) (optsOf args6 ports0 pm6) p60 pkts6.tail

theorem wires6 : WiresInOrder evs6 (t0.stream Cipher.Toy.prims Cipher.Toy.laws cls0 (legacySnd k0)) := by
  intro d
  cases d
  · refine ⟨⟨isnOf false, ?_⟩, by decide +kernel⟩
    have hcut : IsCut (t0.stream Cipher.Toy.prims Cipher.Toy.laws cls0 (legacySnd k0) false) (chunksOf false) :=
      ⟨by decide +kernel, by decide +kernel⟩
    have h := Delivers.cut (k := 0) (isn := isnOf false) (chunksOf false) hcut
    have hd := Delivers.dup (k := 0) (isn := isnOf false)
      ((segsOf (isnOf false) 0 (chunksOf false)).take 3) [] ((segsOf (isnOf false) 0 (chunksOf false)).drop 4)
      ((segsOf (isnOf false) 0 (chunksOf false)).getD 3 (0, []))
      (by
        have e : (segsOf (isnOf false) 0 (chunksOf false)).take 3 ++
            (segsOf (isnOf false) 0 (chunksOf false)).getD 3 (0, []) ::
              ([] ++ (segsOf (isnOf false) 0 (chunksOf false)).drop 4) = segsOf (isnOf false) 0 (chunksOf false) := by
          decide +kernel
        rw [e]; exact h)
    have e2 : dirWires false evs6 =
        (segsOf (isnOf false) 0 (chunksOf false)).take 3 ++
          (segsOf (isnOf false) 0 (chunksOf false)).getD 3 (0, []) ::
            ([] ++ (segsOf (isnOf false) 0 (chunksOf false)).getD 3 (0, []) ::
              (segsOf (isnOf false) 0 (chunksOf false)).drop 4) := by decide +kernel
    unfold InOrder
    rw [e2]; exact hd
  · refine ⟨⟨isnOf true, ?_⟩, by decide +kernel⟩
    have hcut : IsCut (t0.stream Cipher.Toy.prims Cipher.Toy.laws cls0 (legacySnd k0) true) (chunksOf true) :=
      ⟨by decide +kernel, by decide +kernel⟩
    have e2 : dirWires true evs6 = segsOf (isnOf true) 0 (chunksOf true) := by decide +kernel
    unfold InOrder
    rw [e2]; exact Delivers.cut _ hcut

theorem foreign6 (e : CapEv) (he : CEv.foreign e ∈ evs6) : e = arp ∨ e = badTcp := by
  simp only [evs6, List.mem_cons] at he
  rcases he with he | he | he
  · cases he; exact .inl rfl
  · cases he; exact .inr rfl
  · exfalso
    have : ∀ (l : List (Bool × Bytes × Nat)) (n : Nat), CEv.foreign e ∉ segEvs6 n l := by
      intro l
      induction l with
      | nil => intro n h; cases h
      | cons x xs ih =>
        obtain ⟨d, pl, off⟩ := x
        intro n h
        simp only [segEvs6, List.mem_cons] at h
        rcases h with h | h
        · cases h
        · exact ih (n + 1) h
    exact this _ _ he

/-- **Non-vacuity of `tls12_capture_exact_full`**: `-a -c -m 443:9443`, IPv6 with three extension headers per segment, valid
    TCP checksums on the connection, a foreign segment with a wrong one. -/
theorem tls12_full_instance (hus : ∀ e ∈ evs6.map CEv.cap, e.us < 2 ^ 64) :
    ∃ f, exportFile (fun _ _ _ => none) hashes Cipher.Toy.prims args6 cv0.isLegacy (some (C09Found.fileText ls0))
        (Spec.Containers.encode cv0 cevs6) = .file f ∧
      Exact f sess6 (expect12 true Cipher.Toy.prims Cipher.Toy.laws cls0 t0 (legacySnd k0)).1
        (expect12 true Cipher.Toy.prims Cipher.Toy.laws cls0 t0 (legacySnd k0)).2 := by
  have htr : tr0 = ⟨labelClientRandom, Pipeline.natsOfBytes t0.ch.random, Pipeline.natsOfBytes ms0⟩ := by decide +kernel
  have hl1 : HasLine ls0 labelClientRandom (Pipeline.natsOfBytes t0.ch.random) (Pipeline.natsOfBytes ms0) :=
    ⟨hcU, Keylog.hexOf (List.replicate 48 5), true, by rw [← htr]; simp [ls0]⟩
  have ho1 : OnlySecret ls0 labelClientRandom (Pipeline.natsOfBytes t0.ch.random) (Pipeline.natsOfBytes ms0) := by
    intro tr hc hv crlf hm _ _
    simp only [ls0, List.mem_cons, List.mem_nil_iff, or_false, Prod.mk.injEq] at hm
    rcases hm with ⟨h, _⟩ | ⟨h, _⟩ | ⟨h, _⟩
    · cases h
    · cases h; decide +kernel
    · cases h
  have hsc : Script12 t0.cEvs := ⟨[[16, 0, 0, 2, 9, 9]], _, rfl, by decide, by
    intro e he
    simp only [List.mem_cons, List.mem_nil_iff, or_false] at he
    rcases he with rfl | rfl | rfl <;> exact ⟨_, _, _, rfl, by decide⟩⟩
  have hss : Script12 t0.sEvs := ⟨[[11, 0, 0, 3, 1, 2, 3, 14, 0, 0, 0]], _, rfl, by decide, by
    intro e he
    simp only [List.mem_cons, List.mem_nil_iff, or_false] at he
    rcases he with rfl | rfl <;> exact ⟨_, _, _, rfl, by decide⟩⟩
  have hokc : ∀ e ∈ t0.cEvs, EvOk1 cls0 (sp0.hash.suite hashes).outLen e := by decide +kernel
  have hoks : ∀ e ∈ t0.sEvs, EvOk1 cls0 (sp0.hash.suite hashes).outLen e := by decide +kernel
  have hwr : ∀ d, ∀ r ∈ t0.records Cipher.Toy.prims Cipher.Toy.laws cls0
      (snd12 hashes .tls12 sp0 ms0 t0.ch.random t0.sh.random) d, WholeRecord r := by
    rw [snd12_0]; intro d; cases d <;> decide +kernel
  have hdesc : DescribedX fl6 args6.checksumTest evs6 := described6
  obtain ⟨_, hcand, _, _, _⟩ := described_session_x fl6 (by decide) evs6 (optsOf args6 ports0 pm6) hdesc
    (by decide +kernel) (by decide +kernel) p60 pkts6.tail fp6
  have hrec : RecordsFit hashes Cipher.Toy.prims (capInfo (evs6.map CEv.cap)) sess6
      ((fileKeysOf (some (C09Found.fileText ls0))).getD []) := by
    unfold RecordsFit sessTraffic; decide +kernel
  have hc13 : Causal13 (connRecs (capInfo (evs6.map CEv.cap)) sess6) :=
    ⟨(connRecs (capInfo (evs6.map CEv.cap)) sess6).headD (⟨[], []⟩, false),
      ((connRecs (capInfo (evs6.map CEv.cap)) sess6).drop 1).headD (⟨[], []⟩, false),
      (connRecs (capInfo (evs6.map CEv.cap)) sess6).drop 2, by decide +kernel, by decide +kernel, by decide +kernel⟩
  have h := tls12_capture_exact_full (fun _ _ _ => none) hashes hashes_lawful Cipher.Toy.prims Cipher.Toy.laws
    fl6 (by decide) evs6 args6 hdesc times6 cv0 cevs6 cwf6 items6 ls0 ls0_wf
    pm6 ports0 hpm6 rfl (by decide +kernel) (by decide +kernel) p60 pkts6.tail fp6
    t0 (by decide) (by decide) rfl rfl rfl rfl .tls12 (by unfold Negotiated sessVer; decide)
    (fun _ => ⟨rfl, rfl⟩) (by decide +kernel) sp0 (by decide +kernel) (by decide) cls0 (by decide +kernel)
    ms0 rfl hl1 ho1 hsc hss hokc hoks hwr (by decide +kernel) (by rw [snd12_0]; exact wires6)
    (fun h => by cases h) (fun _ => hc13)
    (by decide) (by decide) (by decide) (by rw [snd12_0]; decide +kernel) hrec hus
    (fun blk hblk => othersFit_of_ignored_c _ _ _ args6 _ fl6 evs6 pm6 ports0 hpm6 rfl hdesc
      (fun e he => by
        rcases foreign6 e he with rfl | rfl
        · exact arp_ignoredC _
        · exact badTcp_ignored _ rfl)
      p60 pkts6.tail fp6 hcand blk hblk)
  rw [snd12_0] at h
  exact h

/-- the exported server port is the mapped one: the block's frames travel between port 5555 and port 9443 -/
example : TcpOut.exportedServerPort sess6.opts.keep (Pipeline.portmapFn sess6.opts.portmap) sess6.server.port = 9443 := by
  decide +kernel

end V6

end TLX.Props.C01Full.Ex
