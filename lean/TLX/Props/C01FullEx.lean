/-
Non-vacuity of `Props/C01Full.lean`.

  `tls13_full_instance`   TLS 1.3 (0x1301) with `-a`: the capture and key-log file of `C01Rfc.Ex.tls13_rfc_instance`; the
                          output file contains the `-a` conversation (`expect13 true`: hello records, dummy CCS records and
                          application data; protected handshake records contribute nothing)
  `tls12_full_instance`   TLS 1.2 (0x009C) with `-a -c -m 443:9443` over IPv6 where EVERY segment carries a hop-by-hop options
                          header (PadN), a routing header and a fragment header (offset 0) in front of TCP, with valid TCP
                          checksums; the capture also holds an ARP request and a TCP segment of another flow with a WRONG
                          checksum (ignored under `-c`: `badTcp_ignored`)
Every hypothesis by evaluation, except — as before — the IEEE-754 fact `hus`.
-/
import TLX.Props.C01Full
import TLX.Props.C01RfcEx
set_option autoImplicit false
set_option linter.unusedSimpArgs false
set_option linter.unusedVariables false
namespace TLX.Props.C01Full.Ex
open TLX TLX.MainLoop TLX.Spec.Demux TLX.Dissect TLX.Export TLX.Props.C01File TLX.Props.C01File.Ex
open TLX.Spec.FrameBuild TLX.Spec.TlsCapture TLX.Spec.NssKeylog
open TLX.Cipher TLX.RecordLayer TLX.Spec.TlsSender TLX.Props.C01 TLX.Lemmas.Pipeline TLX.Spec.TlsConnection
open TLX.Lemmas.Capstone TLX.Props.C01Pipeline TLX.Spec.TlsFraming TLX.Props.C01Capstone TLX.Props.C01Capstone.Ex
open TLX.Props.C01Pipeline.Ex2 TLX.Props.C01.Ex TLX.Props.C01File2 TLX.Props.C01File2.Ex
open TLX.Spec.KeySchedules TLX.Lemmas.C01Rfc TLX.Props.C09Found TLX.Lemmas.C01Full TLX.Props.C01Rfc.Ex
open TLX.Spec.RfcSuite (SuiteSpec suiteOfCode cls12 snd12 snd13 ValidFor etmNegotiated labelClientRandom labelCHTS labelSHTS
  labelCTS0 labelSTS0)

/-! ### helpers -/

theorem foreign_is_arp (l : List (Bool × Bytes × Nat)) (e : CapEv) (he : CEv.foreign e ∈ CEv.foreign arp :: segEvs 1 l) :
    e = arp := by
  simp only [List.mem_cons] at he
  rcases he with he | he
  · cases he; rfl
  · exfalso
    have : ∀ (l : List (Bool × Bytes × Nat)) (n : Nat), CEv.foreign e ∉ segEvs n l := by
      intro l
      induction l with
      | nil => intro n h; cases h
      | cons x xs ih =>
        obtain ⟨d, pl, off⟩ := x
        intro n h
        simp only [segEvs, List.mem_cons] at h
        rcases h with h | h
        · cases h
        · exact ih (n + 1) h
    exact this _ _ he

theorem arp_ignoredC (o : Opts) : IgnoredC o arp := by
  intro tag
  exact ⟨.notTcpUdp, by simp [arp, pktOfC, pktOf, Ingest.otherPkt, classify]⟩

/-! ### TLS 1.3 with `-a` -/

def argsA : Args := ⟨none, none, false, false, true⟩
def sessA13 : Pipeline.Conn := sessionOf (evs13.map CEv.cap) (optsOf argsA ports0 []) p13 pkts13f.tail

/-- the `-a` conversation: the client's stream is its hello record, the dummy ChangeCipherSpec record and "hi"; the
    server's its hello record, the dummy ChangeCipherSpec record and the sixteen bytes — the protected handshake records
    (outer type 23) contribute nothing -/
example : expect13 true Cipher.Toy.prims Cipher.Toy.laws C01Capstone.Ex.cls13 t13 x13 =
    (t13.chRecord ++ [20, 3, 3, 0, 1, 1] ++ hi, t13.shRecord ++ [20, 3, 3, 0, 1, 1] ++ k16) := by decide +kernel

/-- **Non-vacuity of `tls13_capture_exact_full`** (`-a`) -/
theorem tls13_full_instance (hus : ∀ e ∈ evs13.map CEv.cap, e.us < 2 ^ 64) :
    ∃ f, exportFile (fun _ _ _ => none) hashes Cipher.Toy.prims argsA cv0.isLegacy (some (C09Found.fileText ls13))
        (Spec.Containers.encode cv0 cevs13) = .file f ∧
      Exact f sessA13 (t13.chRecord ++ [20, 3, 3, 0, 1, 1] ++ hi) (t13.shRecord ++ [20, 3, 3, 0, 1, 1] ++ k16) := by
  have hl1 := hasLine13 labelCHTS 1 true false (by simp [ls13]) chts (by decide)
  have hl2 := hasLine13 labelSHTS 2 true true (by simp [ls13]) shts (by decide)
  have hl3 := hasLine13 labelCTS0 3 false false (by simp [ls13]) cats (by decide)
  have hl4 := hasLine13 labelSTS0 4 false true (by simp [ls13]) sats (by decide)
  have ho1 := onlySecret13 labelCHTS 1 chts (by decide) (only_aux _ _ (by decide))
  have ho2 := onlySecret13 labelSHTS 2 shts (by decide) (only_aux _ _ (by decide))
  have ho3 := onlySecret13 labelCTS0 3 cats (by decide) (only_aux _ _ (by decide))
  have ho4 := onlySecret13 labelSTS0 4 sats (by decide) (only_aux _ _ (by decide))
  have hokc : ∀ e ∈ t13.cEvs, EvOk1 C01Capstone.Ex.cls13 (sp13.hash.suite hashes).outLen e := by decide +kernel
  have hoks : ∀ e ∈ t13.sEvs, EvOk1 C01Capstone.Ex.cls13 (sp13.hash.suite hashes).outLen e := by decide +kernel
  have hwr : ∀ d, ∀ r ∈ t13.records Cipher.Toy.prims Cipher.Toy.laws C01Capstone.Ex.cls13
      (snd13 hashes sp13 chts shts cats sats) d, WholeRecord r := by
    rw [snd13_0]; intro d; cases d <;> decide +kernel
  have hsc : Script13 t13.cEvs := by
    intro e he
    simp only [t13, List.mem_cons, List.mem_nil_iff, or_false] at he
    rcases he with rfl | rfl | rfl
    · exact Or.inl rfl
    · exact Or.inr (Or.inl ⟨_, _, rfl⟩)
    · exact Or.inr (Or.inr ⟨_, _, rfl⟩)
  have hss : Script13 t13.sEvs := by
    intro e he
    simp only [t13, List.mem_cons, List.mem_nil_iff, or_false] at he
    rcases he with rfl | rfl | rfl | rfl
    · exact Or.inl rfl
    · exact Or.inr (Or.inl ⟨_, _, rfl⟩)
    · exact Or.inr (Or.inl ⟨_, _, rfl⟩)
    · exact Or.inr (Or.inr ⟨_, _, rfl⟩)
  have hdesc : DescribedX fl0 argsA.checksumTest evs13 := describedX_of_described fl0 evs13 described13
  have hexp : expect13 argsA.metadata Cipher.Toy.prims Cipher.Toy.laws C01Capstone.Ex.cls13 t13
      (snd13 hashes sp13 chts shts cats sats) =
        (t13.chRecord ++ [20, 3, 3, 0, 1, 1] ++ hi, t13.shRecord ++ [20, 3, 3, 0, 1, 1] ++ k16) := by
    rw [snd13_0]; decide +kernel
  obtain ⟨_, hcand, _, _, _⟩ := described_session_x fl0 (by decide) evs13 (optsOf argsA ports0 []) hdesc
    (by decide +kernel) (by decide +kernel) p13 pkts13f.tail fp13
  have hrec : RecordsFit hashes Cipher.Toy.prims (capInfo (evs13.map CEv.cap)) sessA13
      ((fileKeysOf (some (C09Found.fileText ls13))).getD []) := by
    unfold RecordsFit sessTraffic; decide +kernel
  have h := tls13_capture_exact_full (fun _ _ _ => none) hashes hashes_lawful Cipher.Toy.prims Cipher.Toy.laws
    fl0 (by decide) evs13 argsA hdesc times13 cv0 cevs13 cwf13 items13 ls13 ls13_wf
    [] ports0 rfl rfl (by decide +kernel) (by decide +kernel) p13 pkts13f.tail fp13
    t13 (by decide) (by decide) rfl rfl rfl rfl (by unfold Negotiated; decide)
    (by decide +kernel) sp13 (by decide +kernel) C01Capstone.Ex.cls13 (by decide +kernel)
    chts shts cats sats hl1 hl2 hl3 hl4 ho1 ho2 ho3 ho4 hsc hss hokc hoks hwr (by decide +kernel)
    (by rw [snd13_0]; exact wires13)
    ⟨(connRecs (capInfo (evs13.map CEv.cap)) sessA13).headD (⟨[], []⟩, false),
      ((connRecs (capInfo (evs13.map CEv.cap)) sessA13).drop 1).headD (⟨[], []⟩, false),
      (connRecs (capInfo (evs13.map CEv.cap)) sessA13).drop 2, by decide +kernel, by decide +kernel, by decide +kernel⟩
    (by decide) (by decide) (by intro kv hkv; cases hkv) (by rw [hexp]; decide +kernel) hrec hus
    (fun blk hblk => othersFit_of_ignored_c _ _ _ argsA _ fl0 evs13 [] ports0 rfl rfl hdesc
      (fun e he => by rw [foreign_is_arp cap13 e he]; exact arp_ignoredC _) p13 pkts13f.tail fp13 hcand blk hblk)
  rw [hexp] at h
  exact h

end TLX.Props.C01Full.Ex
