import TLX.Props.ExportPropsQuic
import TLX.Props.C02File2
set_option autoImplicit false
namespace TLX.Props.ExportPropsQuic
/-! ### instances: the whole QUIC pipeline evaluated by the kernel on a concrete capture (toy primitives) -/
namespace Ex
open TLX TLX.MainLoop TLX.Export TLX.Spec.Demux TLX.QuicPipeline TLX.Props.C02File TLX.Props.C02File2 TLX.Lemmas.ExportProps
open TLX.Props.C02File.Ex (H Pc maskFn keys fl)
open TLX.Props.C02File2.Ex (wM w1 d0 dS dC b5 b7)
open TLX.Props.C01File.Ex (cMac sMac)

/-- the interleaved connection of `C02File2.Ex` as capture items: client Initial; server Initial + Handshake + 1-RTT `HI`;
    client Handshake + 1-RTT `GET`; after a key update `OK` (server) and `MORE` (client) -/
def items : List (Item Keylog.Key) :=
  [.frame (dgPkt fl false (wM d0) 1), .frame (dgPkt fl true (wM dS) 2), .frame (dgPkt fl false (wM dC) 4),
   .frame (dgPkt fl true (w1 b5) 5), .frame (dgPkt fl false (w1 b7) 7)]
def info : Nat → Pipeline.Info := fun tag => ⟨0, 100 + tag, cMac, sMac, false⟩
def opts (ports : List Int) (md keep : Bool) (pm : List (Int × Int)) : Opts := ⟨ports, false, false, md, keep, pm⟩
def o : Opts := opts [443] false true []

def view (l : List (List Pipeline.OutPkt)) : List (List (Nat × Bytes)) := l.map fun fs => fs.map fun p => (p.ts, p.payload)

-- the whole capture: one session, four frames
theorem full_view : view (quicFrames maskFn H Pc info o (some keys) items) =
    [[(102, [0x48, 0x49]), (104, [0x47, 0x45, 0x54]), (105, [0x4f, 0x4b]), (107, [0x4d, 0x4f, 0x52, 0x45])]] := by
  decide +kernel
-- C08: cut after three items — a prefix
theorem cut_view : view (quicFrames maskFn H Pc info o (some keys) (items.take 3)) =
    [[(102, [0x48, 0x49]), (104, [0x47, 0x45, 0x54])]] := by decide +kernel
example := export_cut_prefix_quic_items maskFn H Pc info o (some keys) items 3
-- cut before the ServerHello: the session exists, nothing exported yet
example : view (quicFrames maskFn H Pc info o (some keys) (items.take 1)) = [[]] := by decide +kernel

/-- **`CutRel` cannot be strengthened to "prefix"**: a capture clock that stamps the client's two datagrams `GET` and
    `MORE` with the same time (they are consecutive among the client's data-carrying datagrams; the server's `OK` is removed).
    The full export has ONE frame `GETMORE` for them; cut before `MORE` it has the frame `GET`: not a prefix, but `CutRel`. -/
def infoSame : Nat → Pipeline.Info := fun tag => ⟨0, if tag ≥ 4 then 104 else 100 + tag, cMac, sMac, false⟩
def items2 : List (Item Keylog.Key) :=
  [.frame (dgPkt fl false (wM d0) 1), .frame (dgPkt fl true (wM dS) 2), .frame (dgPkt fl false (wM dC) 4),
   .frame (dgPkt fl false (w1 b7) 7)]
theorem cut_not_prefix_witness :
    view (quicFrames maskFn H Pc infoSame o (some keys) (items2.take 3)) = [[(102, [0x48, 0x49]), (104, [0x47, 0x45, 0x54])]] ∧
    view (quicFrames maskFn H Pc infoSame o (some keys) items2) =
      [[(102, [0x48, 0x49]), (104, [0x47, 0x45, 0x54, 0x4d, 0x4f, 0x52, 0x45])]] := by decide +kernel

-- C13: with `-a` the CRYPTO data of the handshake is exported too (seven frames); the STREAM bytes are the same
theorem meta_view : (view (quicFrames maskFn H Pc info (optMeta o true) (some keys) items)).map (·.map (·.1)) =
    [[101, 102, 104, 105, 107]] := by decide +kernel
example := export_meta_only_adds_quic_items maskFn H Pc info o (some keys) items

-- C10: `-m 443:9443`; and a server-port list that names NEITHER port: the session exists all the same (QUIC is recognised by
-- the header bits), the destination of the first datagram is the server, port 8080
def ends (l : List (List Pipeline.OutPkt)) : List (List (Nat × Nat)) := l.map fun fs => fs.map fun p => (p.src.port, p.dst.port)
theorem ports_view :
    ends (quicFrames maskFn H Pc info (opts [443] false false [(443, 9443)]) (some keys) items) =
      [[(9443, 50000), (50000, 9443), (9443, 50000), (50000, 9443)]] ∧
    ends (quicFrames maskFn H Pc info (opts [8443] false false []) (some keys) items) =
      [[(8080, 50000), (50000, 8080), (8080, 50000), (50000, 8080)]] := by decide +kernel
example := export_ports_quic_items maskFn H Pc info o (some keys) items
example := export_time_and_ends_quic_items maskFn H Pc info o (some keys) items

end Ex
end TLX.Props.ExportPropsQuic
