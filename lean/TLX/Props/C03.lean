/-
C03 (TLS session part) — an undecryptable or damaged flow never aborts the run, and a flow without usable secrets
contributes no application data.

Model: `TLX/Session.lean` (handle_tls_record and everything below it), generic in the decryptor: the theorems hold
for EVERY behaviour of `Decryptor.decrypt` / `update_keys` (any value, `None`, any exception, any state change) and
of `generate_keys` (unknown suite, no secrets, exception, success) — i.e. for wrong secrets, corrupted records,
truncated hellos, records in any order, any bytes.

* `handleRecord_never_raises` / `run_never_raises`: every raise site below `handle_tls_record` is inside one of the
  try/except blocks of the source; no record sequence makes an exception escape (which would abort the whole run,
  bystanders included).
* `gate_closed_no_app`: while `can_decrypt` is false or there is no decryptor, no application-data entry is added.
* `keyless_exports_no_app`: if `generate_keys` never installs a decryptor (missing / partial secrets, unsupported
  suite), the session exports no application data at all, whatever the records are; with metadata off it exports
  nothing.
* `failed_decrypt_exports_nothing`: a record whose decryption raises adds nothing.
The bystander clause (other flows unchanged) is `TLX.Props.C04`: sessions share no state but the read-only key log.
-/
import TLX.Lemmas.Session
namespace TLX.Props.C03
open TLX TLX.Session

variable {δ : Type}

/-- no exception escapes `handle_tls_record`, for every decryptor behaviour, state, record and direction -/
theorem handleRecord_never_raises (O : Ops δ) (exportMeta : Bool) (s : St δ) (r : Rec) (srv : Bool) :
    ∃ s', handleRecordRaw O exportMeta s r srv = .ok s' := by
  have := handleRecordRaw_isOk O exportMeta s r srv
  cases h : handleRecordRaw O exportMeta s r srv with
  | ok s' => exact ⟨s', rfl⟩
  | raised s' => rw [h] at this; cases this

/-- … hence none escapes the loop over all records of a session: the run goes on to the next session -/
theorem run_never_raises (O : Ops δ) (exportMeta : Bool) (s : St δ) (rs : List (Rec × Bool)) :
    runRaw O exportMeta s rs = .ok (run O exportMeta s rs) := runRaw_eq_run O exportMeta s rs

def appOf (s : St δ) : List Entry := s.traffic.filter (·.isApp)

theorem appOf_push_meta (s : St δ) (e : Entry) (h : e.isApp = false) : appOf (s.push e) = appOf s := by
  simp [appOf, St.push, List.filter_append, h]

theorem appOf_pushMeta (m : Bool) (s : St δ) (r : Rec) (srv : Bool) : appOf (pushMeta m s r srv) = appOf s := by
  unfold pushMeta; split
  · exact appOf_push_meta _ _ rfl
  · rfl

theorem appOf_of_traffic {a b : St δ} (h : a.traffic = b.traffic) : appOf a = appOf b := by simp [appOf, h]

theorem handshakeFinished_app (O : Ops δ) (m : Bool) (s : St δ) (r : Rec) (srv : Bool) :
    appOf (handshakeFinished O m s r srv).st = appOf s := by
  unfold handshakeFinished
  cases s.dec with
  | none => rfl
  | some d =>
    simp only
    split
    · rcases hdec : O.decrypt d r srv with ⟨d', _ | pt⟩
      · rfl
      · simp only
        split
        · exact appOf_push_meta _ _ rfl
        · rfl
    · split <;> rfl

theorem handshakeRecord_app (O : Ops δ) (m : Bool) (s : St δ) (r : Rec) (srv : Bool) :
    appOf (handshakeRecord O m s r srv).st = appOf s := by
  unfold handshakeRecord
  split
  · rw [tryExcept_id_st]; exact handshakeFinished_app ..
  · split
    · rfl
    · split
      · rfl
      · split
        · apply appOf_of_traffic
          have := serverHello_traffic O s r
          cases hsh : serverHello O s r with
          | ok s' => rw [hsh] at this; exact this
          | raised s' => rw [hsh] at this; exact this
        · rw [tryExcept_id_st]; exact handshakeFinished_app ..

/-- only the application-record path adds application data, and only behind the gate -/
theorem gate_closed_no_app (O : Ops δ) (m : Bool) (s : St δ) (r : Rec) (srv : Bool)
    (hg : s.canDecrypt = false ∨ s.dec = none) : appOf (handleRecord O m s r srv) = appOf s := by
  unfold handleRecord handleRecordRaw
  cases r.typ with
  | none => rfl
  | some t =>
    simp only
    split
    · have h1 := handshakeRecord_app O m s r srv
      cases h : handshakeRecord O m s r srv with
      | ok s1 => rw [h] at h1; simp only [Out.st] at h1 ⊢; rw [appOf_pushMeta, h1]
      | raised s1 => rw [h] at h1; exact h1
    · split
      · have : (s.canDecrypt && s.dec.isSome) = false := by
          rcases hg with h | h <;> simp [h]
        simp only [this]; rfl
      · split
        · simp only [Out.st]; rw [appOf_pushMeta]
          apply appOf_of_traffic
          split
          · rfl
          · exact alert_traffic ..
        · split
          · simp only [Out.st]; rw [appOf_pushMeta]
            apply appOf_of_traffic; split <;> rfl
          · rfl

/-- `generate_keys` never installs a decryptor (no / partial secrets, unknown suite, failing derivation) -/
def NeverInstalls (O : Ops δ) : Prop := ∀ v su cr sr e c d, O.genKeys v su cr sr e c ≠ .installed d

theorem serverHelloKeys_dec_none (O : Ops δ) (hO : NeverInstalls O) (s : St δ) (su sr : Bytes) (e : Exts) (c : UInt8)
    (h : s.dec = none) : (serverHelloKeys O s su sr e c).st.dec = none := by
  unfold serverHelloKeys
  cases s.cr with
  | none => exact h
  | some cr =>
    simp only
    cases hg : O.genKeys s.ver su cr sr e c with
    | installed d => exact absurd hg (hO _ _ _ _ _ _ _)
    | _ => exact h

theorem chooseVersion_dec (s : St δ) (a b : Nat) (c : Bool) : (chooseVersion s a b c).dec = s.dec := by
  unfold chooseVersion; repeat' split
  all_goals rfl

theorem latch_dec (s : St δ) : (latch s).dec = s.dec := by unfold latch; split <;> rfl

theorem serverHello_dec_none (O : Ops δ) (hO : NeverInstalls O) (s : St δ) (r : Rec) (h : s.dec = none) :
    (serverHello O s r).st.dec = none := by
  unfold serverHello
  simp only
  split
  · rw [Out.st, latch_dec]; exact h
  · split
    · rw [Out.st, latch_dec]; exact h
    · apply serverHelloKeys_dec_none O hO; rw [chooseVersion_dec, latch_dec]; exact h

theorem handleRecord_dec_none (O : Ops δ) (hO : NeverInstalls O) (m : Bool) (s : St δ) (r : Rec) (srv : Bool)
    (h : s.dec = none) : (handleRecord O m s r srv).dec = none := by
  unfold handleRecord handleRecordRaw
  cases r.typ with
  | none => exact h
  | some t =>
    simp only
    split
    · have hh : (handshakeRecord O m s r srv).st.dec = none := by
        unfold handshakeRecord
        split
        · rw [tryExcept_id_st]; unfold handshakeFinished; rw [h]; exact h
        · split
          · exact h
          · split
            · exact h
            · split
              · have := serverHello_dec_none O hO s r h
                cases hsh : serverHello O s r with
                | ok s' => rw [hsh] at this; exact this
                | raised s' => rw [hsh] at this; exact this
              · rw [tryExcept_id_st]; unfold handshakeFinished; rw [h]; exact h
      cases hr : handshakeRecord O m s r srv with
      | ok s1 =>
        rw [hr] at hh; simp only [Out.st] at hh ⊢
        unfold pushMeta; split <;> exact hh
      | raised s1 => rw [hr] at hh; exact hh
    · split
      · simp only [h, Option.isSome_none, Bool.and_false, Bool.false_eq_true, if_false]; exact h
      · split
        · simp only [Out.st]
          have : ∀ x : St δ, x.dec = none → (pushMeta m x r srv).dec = none := by
            intro x hx; unfold pushMeta; split <;> exact hx
          apply this
          split
          · exact h
          · unfold alert; split <;> exact h
        · split
          · simp only [Out.st]
            unfold pushMeta
            split <;> (split <;> exact h)
          · exact h

/-- a flow without usable secrets or with an unsupported suite exports no application data, whatever it carries:
    never ciphertext, never invented bytes -/
theorem keyless_exports_no_app (O : Ops δ) (hO : NeverInstalls O) (m : Bool) (rs : List (Rec × Bool)) :
    appOf (run O m St.init rs) = [] := by
  suffices ∀ s : St δ, s.dec = none → appOf (run O m s rs) = appOf s from this St.init rfl
  induction rs with
  | nil => intro s _; rfl
  | cons x rest ih =>
    intro s hs
    simp only [run, List.foldl_cons]
    have := ih (handleRecord O m s x.1 x.2) (handleRecord_dec_none O hO m s x.1 x.2 hs)
    simp only [run] at this
    rw [this, gate_closed_no_app O m s x.1 x.2 (Or.inr hs)]

/-- … and with metadata off, nothing at all -/
theorem keyless_exports_nothing (O : Ops δ) (hO : NeverInstalls O) (rs : List (Rec × Bool)) :
    (run O false St.init rs).traffic = [] := by
  have h1 := keyless_exports_no_app O hO true rs
  have h2 := run_strip O (St.init : St δ) rs
  have : (run O false St.init rs) = (run O true St.init rs).strip := h2.symm
  rw [this]; exact h1

/-- a record whose decryption raises (wrong key, corrupted bytes, bad MAC/tag, bad padding) adds nothing -/
theorem failed_decrypt_exports_nothing (O : Ops δ) (s : St δ) (r : Rec) (srv : Bool) (d : δ)
    (hd : s.dec = some d) (hfail : (O.decrypt d r srv).2 = none) (h17 : r.typ = some 0x17) :
    (handleRecord O false s r srv).traffic = s.traffic := by
  unfold handleRecord handleRecordRaw
  rw [h17]
  simp only [show ¬ ((0x17 : UInt8) = 0x16) by decide, if_false, if_true]
  split
  · rcases hdec : O.decrypt d r srv with ⟨d1, res⟩
    rw [hdec] at hfail; simp only at hfail; subst hfail
    split
    · rw [tryExcept_id_st]; unfold app13; rw [hd]; simp only [hdec]; rfl
    · unfold appLegacy; rw [hd]; simp only [hdec]; rfl
    · rfl
  · rfl

-- Non-vacuity: a decryptor that fails on everything and a key source that never installs
def failing : Ops Unit := ⟨fun d _ _ => (d, none), fun d _ => (d, false), fun _ _ _ _ _ _ => .noSecrets⟩

example : NeverInstalls failing := by intro _ _ _ _ _ _ _ h; cases h

def ch : Rec := ⟨[0x16, 3, 3, 0, 4, 1, 0, 0, 0], [1]⟩
def app : Rec := ⟨[0x17, 3, 3, 0, 2, 9, 9], [2]⟩

example : (run failing true St.init [(ch, false), (app, false)]).traffic.length = 1 := by decide
example : ∃ s', runRaw failing true St.init [(ch, false), (app, true), (ch, true)] = .ok s' := ⟨_, run_never_raises ..⟩

end TLX.Props.C03
