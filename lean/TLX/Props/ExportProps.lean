/-
Whole-program forms of C08, C13, C10, C07 for TLS (HEADER REWRITTEN AT THE END)
-/
import TLX.Lemmas.ExportProps
set_option linter.unusedSimpArgs false
namespace TLX.Props.ExportProps
open TLX TLX.MainLoop TLX.Export TLX.Spec.Demux TLX.Lemmas.ExportProps TLX.Props.C01Pipeline

variable (mask : Quic.Dissect.MaskFn) (H : Crypto.Prims) (P : Cipher.Prims) (info : Nat → Pipeline.Info)

-- ====================================================================== 1. C08: cutting the capture
/-- demultiplexing of a cut capture: the TLS conversations of the first `n` items are, in the same creation order, the
    first conversations of the whole capture, each cut after some of its packets (same server / client address, same
    options); conversations created later are absent -/
theorem cut_sessions_prefix (o : Opts) (xs : List (Item Keylog.Key)) (n : Nat) :
    ListExt ConnCut (tlsConvs H P info o (xs.take n)) (tlsConvs H P info o xs) := by
  have h := tlsRun_prefix_ext (Pipeline.tlsMachine H P info) o [] (tcpView_take_prefix o xs n)
  have : ∀ {x y : List (TlsSess Pipeline.Conn)}, ListExt (SessExt (Pipeline.tlsMachine H P info)) x y →
      ListExt ConnCut x y := by
    intro x y hxy
    induction hxy with
    | nil t => exact .nil _
    | cons r _ ih => exact .cons (connCut_of_ext H P info r) ih
  exact this h

/-- **C08, whole program, items level.** Cut the capture after its first `n` items (packets, DSBs, anything). If the
    removed suffix holds no key material (`hkeys`: no DSB keys after the cut — the `-s` file is the same for both runs),
    then conversation by conversation, in creation order, the frames exported from the cut capture are a PREFIX, frame by
    frame (times, MACs, addresses, ports, flags, sequence and acknowledgement numbers, payload), of the frames exported
    from the whole capture; conversations that start after the cut are absent. Any options, key log, primitives. -/
theorem export_cut_prefix_tls_items (o : Opts) (fk : Option (List Keylog.Key)) (xs : List (Item Keylog.Key)) (n : Nat)
    (hkeys : dsbOnly (xs.drop n) = []) :
    ListExt (fun fa fb : List Pipeline.OutPkt => fa <+: fb) (tlsFrames H P info o fk (xs.take n))
      (tlsFrames H P info o fk xs) := by
  have hk : keysOf fk (xs.take n) = keysOf fk xs := by
    have : dsbOnly xs = dsbOnly (xs.take n) ++ dsbOnly (xs.drop n) := by
      unfold dsbOnly
      rw [← List.flatMap_append, List.take_append_drop]
    simp only [keysOf, this, hkeys, List.append_nil]
  unfold tlsFrames
  rw [hk]
  refine ListExt.map _ _ ?_ (cut_sessions_prefix H P info o xs n)
  intro a b ⟨_, _, k, hk⟩
  obtain ⟨fa, fb, h1, h2, h3⟩ := connOut_take_prefix H P info b.st (keysOf fk xs) k
  simp only [convFrames, hk, h1, h2, Option.getD_some]
  exact h3

/-- … as a statement about what `run()` hands to the writer: both outputs are the TLS conversations' frames followed by
    the QUIC part, and the TLS parts are related as above -/
theorem export_cut_prefix_tls (prior : Prior) (args : Args) (fk : Option (List Keylog.Key))
    (xs : List (Item Keylog.Key)) (n : Nat) (hkeys : dsbOnly (xs.drop n) = [])
    (outCut outFull : List Pipeline.OutPkt)
    (hc : framesFrom mask H P prior args fk (xs.take n) info = .ok outCut)
    (hf : framesFrom mask H P prior args fk xs info = .ok outFull) :
    ∃ (cut full : List (List Pipeline.OutPkt)) (qc qf : List Pipeline.OutPkt),
      outCut = cut.flatten ++ qc ∧ outFull = full.flatten ++ qf ∧
      ListExt (fun fa fb : List Pipeline.OutPkt => fa <+: fb) cut full := by
  obtain ⟨o, ho⟩ := framesFrom_ok_opts mask H P info prior args fk xs outFull hf
  obtain ⟨qc, h1⟩ := framesFrom_ok mask H P info prior args fk (xs.take n) o ho
  obtain ⟨qf, h2⟩ := framesFrom_ok mask H P info prior args fk xs o ho
  rw [h1] at hc
  rw [h2] at hf
  refine ⟨_, _, qc, qf, (Except.ok.inj hc).symm, (Except.ok.inj hf).symm, export_cut_prefix_tls_items H P info o fk xs n hkeys⟩

end TLX.Props.ExportProps
