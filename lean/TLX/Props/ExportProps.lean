/-
Whole-program forms of C08, C13, C10, C07 for TLS: theorems about what `run()` hands to the writer
(`TLX.Export.framesFrom`, which `exportFile` serialises), lifting the per-connection results of `Props/C01Pipeline`
through the demultiplexer of `TLX.MainLoop` and (C08) the read loop of `TLX.Ingest`.

Vocabulary (`Lemmas/ExportProps`): `optsOf args` the options the loop runs with; `tlsConvs o xs` the TLS conversation
objects of a run in creation order; `keysOf fk xs` the key log at the end of the run (`-s` file, then DSB items);
`tlsFrames o fk xs` the exported frames conversation by conversation; `framesFrom_ok`: the output of `framesFrom` is
`(tlsFrames …).flatten ++ QUIC part`. `ListExt R x y`: `y` extends `x` element by element (related by `R`), more at the end.

1. C08  `cut_sessions_prefix` (demux of a cut capture), `export_cut_prefix_tls_items`, `export_cut_prefix_tls`
        (`framesFrom` level), `export_cut_prefix_tls_ingest` (through `Ingest.itemsWith`, both containers, stated on what
        the reader yields for the two files). Hypothesis `hkeys`: no DSB key material in the removed suffix — NEEDED:
        `Ex.cut_before_late_dsb_not_prefix`, replayed on the real tool (`harness/export_props_replay.py`).
        Not done: the byte-level fact "a pcap / pcapng file cut after its k-th record makes `Container.readPrefix`
        yield the first k items" (the hypotheses `hfull`, `hcut` of `export_cut_prefix_tls_ingest`).
2. C13  `export_meta_only_adds_items`      3. C10  `export_ports_tls_items`      4. C07  `export_time_and_ends_tls_items`
All for EVERY capture item list, key log, options, hash suite, cipher primitives; QUIC items, DSBs, foreign and ignored
frames may be mixed in anywhere (no restriction to TCP-only captures was needed).
-/
import TLX.Lemmas.ExportProps
set_option linter.unusedSimpArgs false
namespace TLX.Props.ExportProps
open TLX TLX.MainLoop TLX.Export TLX.Spec.Demux TLX.Lemmas.ExportProps TLX.Props.C01Pipeline TLX.Lemmas.Pipeline TLX.Lemmas.MainLoop

variable (mask : Quic.Dissect.MaskFn) (H : Crypto.Prims) (P : Cipher.Prims) (info : Nat → Pipeline.Info)

-- ====================================================================== 1. C08: cutting the capture
/-- demultiplexing of a cut capture: the TLS conversations of the first `n` items are, in the same creation order, the
    first conversations of the whole capture, each cut after some of its packets (same server / client address, same
    options); conversations created later are absent -/
theorem cut_sessions_prefix (o : Opts) (xs : List (Item Keylog.Key)) (n : Nat) :
    ListExt ConnCut (tlsConvs H P info o (xs.take n)) (tlsConvs H P info o xs) := by
  have h := tlsRun_prefix_ext (Pipeline.tlsMachine H P info) o [] (tcpView_take_prefix o xs n)
  have : ∀ {x y : List (TlsSess Pipeline.Conn)}, ListExt (SessExt (Pipeline.tlsMachine H P info)) x y →
      ListExt ConnCut x y := by
    intro x y hxy
    induction hxy with
    | nil t => exact .nil _
    | cons r _ ih => exact .cons (connCut_of_ext H P info r) ih
  exact this h

/-- **C08, whole program, items level.** Cut the capture after its first `n` items (packets, DSBs, anything). If the
    removed suffix holds no key material (`hkeys`: no DSB keys after the cut — the `-s` file is the same for both runs),
    then conversation by conversation, in creation order, the frames exported from the cut capture are a PREFIX, frame by
    frame (times, MACs, addresses, ports, flags, sequence and acknowledgement numbers, payload), of the frames exported
    from the whole capture; conversations that start after the cut are absent. Any options, key log, primitives. -/
theorem export_cut_prefix_tls_items (o : Opts) (fk : Option (List Keylog.Key)) (xs : List (Item Keylog.Key)) (n : Nat)
    (hkeys : dsbOnly (xs.drop n) = []) :
    ListExt (fun fa fb : List Pipeline.OutPkt => fa <+: fb) (tlsFrames H P info o fk (xs.take n))
      (tlsFrames H P info o fk xs) := by
  have hk : keysOf fk (xs.take n) = keysOf fk xs := by
    have : dsbOnly xs = dsbOnly (xs.take n) ++ dsbOnly (xs.drop n) := by
      unfold dsbOnly
      rw [← List.flatMap_append, List.take_append_drop]
    simp only [keysOf, this, hkeys, List.append_nil]
  unfold tlsFrames
  rw [hk]
  refine ListExt.map _ _ ?_ (cut_sessions_prefix H P info o xs n)
  intro a b ⟨_, _, k, hk⟩
  obtain ⟨fa, fb, h1, h2, h3⟩ := connOut_take_prefix H P info b.st (keysOf fk xs) k
  simp only [convFrames, hk, h1, h2, Option.getD_some]
  exact h3

/-- … as a statement about what `run()` hands to the writer: both outputs are the TLS conversations' frames followed by
    the QUIC part, and the TLS parts are related as above -/
theorem export_cut_prefix_tls (prior : Prior) (args : Args) (fk : Option (List Keylog.Key))
    (xs : List (Item Keylog.Key)) (n : Nat) (hkeys : dsbOnly (xs.drop n) = [])
    (outCut outFull : List Pipeline.OutPkt)
    (hc : framesFrom mask H P prior args fk (xs.take n) info = .ok outCut)
    (hf : framesFrom mask H P prior args fk xs info = .ok outFull) :
    ∃ (cut full : List (List Pipeline.OutPkt)) (qc qf : List Pipeline.OutPkt),
      outCut = cut.flatten ++ qc ∧ outFull = full.flatten ++ qf ∧
      ListExt (fun fa fb : List Pipeline.OutPkt => fa <+: fb) cut full := by
  obtain ⟨o, ho⟩ := framesFrom_ok_opts mask H P info prior args fk xs outFull hf
  obtain ⟨qc, h1⟩ := framesFrom_ok mask H P info prior args fk (xs.take n) o ho
  obtain ⟨qf, h2⟩ := framesFrom_ok mask H P info prior args fk xs o ho
  rw [h1] at hc
  rw [h2] at hf
  refine ⟨_, _, qc, qf, (Except.ok.inj hc).symm, (Except.ok.inj hf).symm, export_cut_prefix_tls_items H P info o fk xs n hkeys⟩

theorem classify_tls (o : Opts) (q p : Pkt) (h : classify o (Item.frame q : Item Keylog.Key) = .tls p) : p = q := by
  simp only [classify] at h
  cases hq : q.l4 with
  | tcp =>
    rw [hq] at h
    simp only at h
    by_cases h1 : q.payload.length = 0
    · simp [h1] at h
    · by_cases h2 : (o.checksumTest && !q.csumOk) = true
      · simp [h1, h2] at h
      · simp [h1, h2] at h; exact h.symm
  | udp =>
    rw [hq] at h
    simp only at h
    cases hp : q.payload with
    | nil => rw [hp] at h; cases h
    | cons b0 r =>
      rw [hp] at h
      simp only at h
      by_cases h2 : (o.checksumTest && !q.csumOk) = true
      · simp [h2] at h
      · by_cases h3 : ((b0.toNat &&& 0x40) >>> 6 = 1 || o.greasy) = true <;> simp [h2, h3] at h
  | other => rw [hq] at h; cases h

/-- a TLS-relevant TCP packet of the capture is one of its frame items -/
theorem mem_tcpView_frame (o : Opts) (xs : List (Item Keylog.Key)) (p : Pkt) (h : p ∈ tcpView o xs) :
    Item.frame p ∈ xs := by
  simp only [tcpView, List.mem_filterMap] at h
  obtain ⟨it, hit, hc⟩ := h
  cases it with
  | dsb ks => simp [classify] at hc
  | frame q =>
    cases hcl : classify o (Item.frame q : Item Keylog.Key) with
    | tls p' =>
      rw [hcl] at hc
      simp only [Option.some.injEq] at hc
      subst hc
      rw [classify_tls o q p' hcl]; exact hit
    | keys ks => rw [hcl] at hc; cases hc
    | quic a b c => rw [hcl] at hc; cases hc
    | ignore w => rw [hcl] at hc; cases hc

/-- **C08, whole program, through the ingest model.** `file` is a capture the reader gets through without an exception,
    yielding the container items `its`; `cut` is a file of the same container for which the reader yields the first `k`
    of them (the capture cut after its `k`-th packet / DSB record or block). Then the read loop turns `cut` into exactly
    the first `k` main-loop items of `file` (one per container item, DSBs count) with the same per-packet data, and — if no
    key material sits in the removed part — the TLS conversations exported from `cut` are, one by one in creation order,
    frame-by-frame prefixes of those exported from `file`. Any container (`legacy` = libpcap, else pcapng), options, key
    log file, primitives. -/
theorem export_cut_prefix_tls_ingest (legacy : Bool) (file cut : Bytes) (its : List Container.Item) (k : Nat)
    (hfull : Container.readPrefix legacy file = .ok (its, none))
    (hcut : Container.readPrefix legacy cut = .ok (its.take k, none))
    (c : Bool) (xs : List (Item Keylog.Key)) (is : List (Nat × Pipeline.Info))
    (hi : Ingest.itemsWith Keylog.srcHexClass c legacy file = .ok (xs, is))
    (o : Opts) (fk : Option (List Keylog.Key)) (hkeys : dsbOnly (xs.drop k) = []) :
    ∃ is', Ingest.itemsWith Keylog.srcHexClass c legacy cut = .ok (xs.take k, is') ∧
      ListExt (fun fa fb : List Pipeline.OutPkt => fa <+: fb)
        (tlsFrames H P (Ingest.lookup is') o fk (xs.take k)) (tlsFrames H P (Ingest.lookup is) o fk xs) := by
  unfold Ingest.itemsWith at hi
  rw [hfull] at hi
  simp only at hi
  cases hg : Ingest.go Keylog.srcHexClass c 0 its with
  | error e => rw [hg] at hi; cases hi
  | ok v =>
    obtain ⟨X, IS⟩ := v
    rw [hg] at hi
    simp only [Except.ok.injEq, Prod.mk.injEq] at hi
    obtain ⟨rfl, rfl⟩ := hi
    obtain ⟨IS', g1, g2, g3⟩ := go_take Keylog.srcHexClass c its 0 k X IS hg
    refine ⟨IS', by unfold Ingest.itemsWith; rw [hcut]; simp only [g1], ?_⟩
    have hcongr : tlsFrames H P (Ingest.lookup IS') o fk (X.take k) = tlsFrames H P (Ingest.lookup IS) o fk (X.take k) := by
      apply tlsFrames_info_congr
      intro p hp
      obtain ⟨i, hi⟩ := g3 p (mem_tcpView_frame o _ p hp)
      exact lookup_prefix IS' IS g2 p.tag i hi
    rw [hcongr]
    exact export_cut_prefix_tls_items H P (Ingest.lookup IS) o fk X k hkeys

-- ====================================================================== 2. C13: `-a` only adds
/-- **C13, whole program, items level.** The same capture, key log and options, once without and once with `-a`:
    the TLS conversations correspond one to one in the same order (`tlsConvs_optMeta`: the demultiplexer does not read the
    flag); for each pair the application-data entries of `application_traffic` are the same, in the same order (the
    `-a` run has them interleaved with the metadata entries), both exports exist, and the payload-carrying packets
    without `-a` are a subsequence — same time, MACs, addresses, ports, payload, same order — of those with `-a`. -/
theorem export_meta_only_adds_items (o : Opts) (fk : Option (List Keylog.Key)) (xs : List (Item Keylog.Key)) :
    tlsConvs H P info (optMeta o true) xs = (tlsConvs H P info (optMeta o false) xs).map (sessMeta true) ∧
    (tlsFrames H P info (optMeta o false) fk xs).length = (tlsFrames H P info (optMeta o true) fk xs).length ∧
    ListExt (fun fOff fOn : List Pipeline.OutPkt => (dataPkts fOff).Sublist (dataPkts fOn))
      (tlsFrames H P info (optMeta o false) fk xs) (tlsFrames H P info (optMeta o true) fk xs) ∧
    ∀ s ∈ tlsConvs H P info (optMeta o false) xs,
      (Session.run (Pipeline.ops H P (keysOf fk xs)) false Session.St.init (connRecs info s.st)).traffic
        = (Session.run (Pipeline.ops H P (keysOf fk xs)) true Session.St.init (connRecs info s.st)).traffic.filter (·.isApp) := by
  have hconv : tlsConvs H P info (optMeta o true) xs = (tlsConvs H P info (optMeta o false) xs).map (sessMeta true) := by
    have h1 := tlsConvs_optMeta H P info (optMeta o false) true xs
    exact h1
  refine ⟨hconv, ?_, ?_, ?_⟩
  · simp only [tlsFrames, List.length_map, hconv]
  · unfold tlsFrames
    rw [hconv, List.map_map]
    have : ∀ (l : List (TlsSess Pipeline.Conn)), (∀ s ∈ l, s.st.opts.metadata = false) →
        ListExt (fun fOff fOn : List Pipeline.OutPkt => (dataPkts fOff).Sublist (dataPkts fOn))
          (l.map (convFrames H P info (keysOf fk xs)))
          (l.map (convFrames H P info (keysOf fk xs) ∘ sessMeta true)) := by
      intro l
      induction l with
      | nil => intro _; exact .nil _
      | cons s rest ih =>
        intro hl
        refine .cons ?_ (ih (fun t ht => hl t (by simp [ht])))
        obtain ⟨fsOn, fsOff, h1, h2, h3⟩ := connOut_meta_only_adds H P info s.st (keysOf fk xs)
        have hoff : setMeta s.st false = s.st := by
          have := hl s (by simp)
          cases hs : s.st with
          | mk opts sv cl sm cm v6 pk =>
            rw [hs] at this
            cases opts
            simp only [setMeta] at this ⊢
            simp_all
        rw [hoff] at h2
        simp only [convFrames, Function.comp, sessMeta, h1, h2, Option.getD_some]
        exact h3
    apply this
    intro s hs
    rw [(convOk_all H P info (optMeta o false) xs s hs).opts]
    rfl
  · intro s _
    exact (Props.C13.session_meta_only_adds (Pipeline.ops H P (keysOf fk xs)) (connRecs info s.st)).1

-- ====================================================================== 3. C10: ports
/-- **C10, whole program, items level.** Every frame of every exported TLS conversation runs between the client's
    ORIGINAL endpoint (address and port as captured) and the server's address with the exported server port: the original
    port when `keep_original_ports` (no `-m`), else the port the map lists for it, else 8080. The roles are those decided
    on the conversation's first packet: the server is the side whose port is in the server-port list (`rolesOf`), and
    that port is in the list. A TCP packet none of whose ports is in the list is in no conversation: it contributes no
    frame. -/
theorem export_ports_tls_items (o : Opts) (fk : Option (List Keylog.Key)) (xs : List (Item Keylog.Key)) :
    (∀ s ∈ tlsConvs H P info o xs, ∀ pkt ∈ convFrames H P info (keysOf fk xs) s,
      let sp := TcpOut.exportedServerPort o.keep (Pipeline.portmapFn o.portmap) s.server.port
      ((pkt.src = s.client ∧ pkt.dst = ⟨s.server.ip, sp⟩) ∨ (pkt.src = ⟨s.server.ip, sp⟩ ∧ pkt.dst = s.client)) ∧
      (o.keep = true → sp = s.server.port) ∧
      (o.keep = false → sp = ((Pipeline.portmapFn o.portmap) s.server.port).getD 8080)) ∧
    (∀ s ∈ tlsConvs H P info o xs, ∃ p0 ∈ tcpView o xs, (s.server, s.client) = rolesOf o.ports p0 ∧
      o.ports.contains (s.server.port : Int) = true) ∧
    (∀ p ∈ tcpView o xs, candidate o p = false → ∀ s ∈ tlsConvs H P info o xs, p ∉ s.st.pkts) := by
  refine ⟨?_, ?_, ?_⟩
  · intro s hs pkt hpkt
    have hok := convOk_all H P info o xs s hs
    intro sp
    refine ⟨?_, by intro hk; simp [sp, TcpOut.exportedServerPort, hk], by intro hk; simp [sp, TcpOut.exportedServerPort, hk]⟩
    simp only [convFrames, connOut_eq] at hpkt
    cases hb : TcpOut.build ((Session.run (Pipeline.ops H P (keysOf fk xs)) s.st.opts.metadata Session.St.init
        (connRecs info s.st)).traffic.map (Lemmas.Pipeline.toRec fun id => (info id).ts)) with
    | none => rw [hb] at hpkt; simp at hpkt
    | some fs =>
      rw [hb] at hpkt
      simp only [Option.map_some, Option.getD_some, List.mem_map] at hpkt
      obtain ⟨f, _, rfl⟩ := hpkt
      simp only [Pipeline.addressed, hok.opts, hok.server, hok.client]
      cases f.fromServer
      · exact .inl ⟨rfl, rfl⟩
      · exact .inr ⟨rfl, rfl⟩
  · intro s hs
    obtain ⟨p0, rest, h4, h5, h6, _⟩ := (convOk_all H P info o xs s hs).first
    have hmem := ((convOk_all H P info o xs s hs).pkts p0 (by rw [h4]; simp)).1
    refine ⟨p0, hmem, h6, ?_⟩
    simp only [rolesOf] at h6
    simp only [candidate, Bool.or_eq_true] at h5
    split at h6
    · rename_i hc
      have : s.server = p0.src := by simpa using congrArg Prod.fst h6
      rw [this]; exact hc
    · rename_i hc
      have : s.server = p0.dst := by simpa using congrArg Prod.fst h6
      rw [this]
      rcases h5 with h5 | h5
      · exact h5
      · exact absurd h5 hc
  · intro p _ hc s hs hmem
    have := ((convOk_all H P info o xs s hs).pkts p hmem).2.2
    rw [hc] at this; cases this

-- ====================================================================== 4. C07: times and ends
/-- **C07, whole program, items level.** For every exported TLS conversation `s` (first packet `p0`, a TCP packet of
    the capture): its frames are `addressed` abstract frames `fs`; every frame carries the IP version of `p0` and runs
    between the two ends as `p0` shows them — server-side frames from the server's IP and MAC (the MAC `p0` has on the
    server's side) to the client's, client-side frames the other way round —; and every DATA frame (PSH|ACK) carries the
    capture time of a packet `q` of that conversation which travels in the frame's direction and is a carrier of a record
    released for that direction (`connRecs`; carriers = the packets whose bytes overlap the record:
    `Props.C05.metadata_is_overlap`). -/
theorem export_time_and_ends_tls_items (o : Opts) (fk : Option (List Keylog.Key)) (xs : List (Item Keylog.Key)) :
    ∀ s ∈ tlsConvs H P info o xs, ∃ (p0 : Pkt) (fs : List TcpOut.Frame),
      p0 ∈ tcpView o xs ∧ s.st.pkts.head? = some p0 ∧ (s.server, s.client) = rolesOf o.ports p0 ∧
      convFrames H P info (keysOf fk xs) s = fs.map (Pipeline.addressed o s.st) ∧
      (∀ f ∈ fs,
        (Pipeline.addressed o s.st f).ipv6 = (info p0.tag).ipv6 ∧
        (Pipeline.addressed o s.st f).ts = f.ts ∧ (Pipeline.addressed o s.st f).payload = f.payload ∧
        let sMac := if s.server == p0.src then (info p0.tag).srcMac else (info p0.tag).dstMac
        let cMac := if s.server == p0.src then (info p0.tag).dstMac else (info p0.tag).srcMac
        (f.fromServer = true → (Pipeline.addressed o s.st f).src.ip = s.server.ip ∧
          (Pipeline.addressed o s.st f).dst = s.client ∧ (Pipeline.addressed o s.st f).srcMac = sMac ∧
          (Pipeline.addressed o s.st f).dstMac = cMac) ∧
        (f.fromServer = false → (Pipeline.addressed o s.st f).src = s.client ∧
          (Pipeline.addressed o s.st f).dst.ip = s.server.ip ∧ (Pipeline.addressed o s.st f).srcMac = cMac ∧
          (Pipeline.addressed o s.st f).dstMac = sMac)) ∧
      (∀ f ∈ fs, f.flags = 0x18 → ∃ q ∈ s.st.pkts, q ∈ tcpView o xs ∧ f.ts = (info q.tag).ts ∧
        (q.src == s.server) = f.fromServer ∧
        ∃ r ∈ connRecs info s.st, r.2 = f.fromServer ∧ q.tag ∈ r.1.carriers) := by
  intro s hs
  have hok := convOk_all H P info o xs s hs
  obtain ⟨p0, rest, h4, h5, h6, h7, h8, h9⟩ := hok.first
  have hsome := (connOut_never_raises H P info s.st (keysOf fk xs)).2.2
  rw [connOut_eq, Option.isSome_map] at hsome
  obtain ⟨fs, hb⟩ := Option.isSome_iff_exists.mp hsome
  refine ⟨p0, fs, (hok.pkts p0 (by rw [h4]; simp)).1, by rw [h4]; rfl, h6, ?_, ?_, ?_⟩
  · simp only [convFrames, connOut_eq, hb, Option.map_some, Option.getD_some]
    rw [hok.opts]
  · intro f _
    simp only [Pipeline.addressed, hok.server, hok.client, h7, h8, h9]
    cases f.fromServer <;> simp
  · intro f hf hflags
    have hd : (f.fromServer, f.ts, f.payload) ∈ TcpOut.dataFrames fs := by
      simp only [TcpOut.dataFrames, List.mem_filterMap]
      exact ⟨f, hf, by simp [TcpOut.Frame.data?, hflags]⟩
    obtain ⟨r, hr, ps', _, j, _, hts, hdir⟩ := Props.C07.out_ts_from_carrier _ _ hb _ _ _ hd
    obtain ⟨e, he, rfl⟩ := List.mem_map.mp hr
    have horig := Props.C07.entry_origin (Pipeline.ops H P (keysOf fk xs)) s.st.opts.metadata (connRecs info s.st) e he
    have hmem : f.ts ∈ (Lemmas.Pipeline.toRec (fun id => (info id).ts) e).ts := List.mem_of_getElem? hts
    simp only [Lemmas.Pipeline.toRec, List.mem_map] at hmem
    obtain ⟨id, hid, hidts⟩ := hmem
    obtain ⟨q, hq, hqt, hqd⟩ := released_carrier_tags info s.st.server s.st.pkts (e.record, e.fromServer) horig id hid
    refine ⟨q, hq, (hok.pkts q hq).1, by rw [hqt]; exact hidts.symm, ?_, (e.record, e.fromServer), horig, hdir, by rw [hqt]; exact hid⟩
    rw [← hok.server, hqd]; exact hdir

-- ====================================================================== non-vacuity and the witness for `hkeys`
namespace Ex
open TLX.Props.C01Capstone.Ex TLX.Props.C01Pipeline.Ex2 TLX.Props.C01.Ex

/-- the capture of `C01Capstone.Ex.tls12_instance` as items: ten TCP segments of one TLS 1.2 connection (split
    ClientHello, False Start, a retransmission, a record over two segments, sequence numbers wrapping 2^32) -/
def capItems : List (Item Keylog.Key) := pktsCap.map .frame

def optsA (a : Bool) : Opts := ⟨[443], false, false, a, true, []⟩

/-- (capture time, payload) of the data segments of each exported conversation -/
def viewOf (l : List (List Pipeline.OutPkt)) : List (List (Nat × Bytes)) :=
  l.map fun fs => (dataPkts fs).map fun p => (p.1, p.2.2.2.2.2.2)

-- C08: the capture cut after 7 items exports a prefix of what the whole capture exports (key log from `-s`; the
-- seventh packet holds only the first 10 bytes of the server's record, which is therefore not yet released)
example : viewOf (tlsFrames hashes Cipher.Toy.prims infoCap (optsA false) (some kl0) (capItems.take 7))
    = [[(1004, hi)]] := by decide +kernel
example : viewOf (tlsFrames hashes Cipher.Toy.prims infoCap (optsA false) (some kl0) capItems)
    = [[(1004, hi), (1006, k16.take 8), (1008, k16.drop 8)]] := by decide +kernel
example : dsbOnly (capItems.drop 7) = [] := by decide +kernel

/-- WITNESS for the hypothesis `hkeys` (replayed on the real tool: `harness/export_props_replay.py`): the keys arrive in a
    Decryption Secrets Block AFTER the packets, no `-s` file, `-a` on. Cut before that block the run has no keys and
    exports the records verbatim; the whole capture exports the decrypted Finished messages and application data in
    between — the cut export is NOT a prefix. (Without `-a` the cut run exports nothing, which is a prefix.) -/
theorem cut_before_late_dsb_not_prefix :
    let whole := capItems ++ [.dsb kl0]
    let cut := viewOf (tlsFrames hashes Cipher.Toy.prims infoCap (optsA true) none (whole.take 10))
    let full := viewOf (tlsFrames hashes Cipher.Toy.prims infoCap (optsA true) none whole)
    dsbOnly (whole.drop 10) ≠ [] ∧ cut.length = 1 ∧ full.length = 1 ∧
    ((cut.headD []).isPrefixOf (full.headD [])) = false ∧
    viewOf (tlsFrames hashes Cipher.Toy.prims infoCap (optsA false) none (whole.take 10)) = [[]] := by
  decide +kernel

-- C13: the same capture without and with `-a`
example : viewOf (tlsFrames hashes Cipher.Toy.prims infoCap (optMeta (optsA false) true) (some kl0) capItems)
    = [[(1000, (rC 0).take 25), (1001, (rC 0).drop 25), (1002, rS 0), (1002, rS 1), (1003, rC 1), (1003, rC 2),
        (1003, 20 :: 0 :: 0 :: 12 :: k16.take 12), (1003, rC 3), (1004, hi), (1005, rS 2),
        (1005, 20 :: 0 :: 0 :: 12 :: k16.take 12), (1005, rS 3), (1006, k16.take 8), (1008, k16.drop 8)]] := by
  decide +kernel

-- C10: with `-m 443:9443` every frame runs between the client's port 5555 and the mapped server port 9443
example : ((tlsFrames hashes Cipher.Toy.prims infoCap ⟨[443], false, false, false, false, [(443, 9443)]⟩ (some kl0)
    capItems).flatten.map fun p => (p.src.port, p.dst.port)).eraseDups = [(5555, 9443), (9443, 5555)] := by
  decide +kernel
-- … and a flow on other ports is in no conversation
example : tlsFrames hashes Cipher.Toy.prims infoCap ⟨[8443], false, false, false, true, []⟩ (some kl0) capItems = [] := by
  decide +kernel

-- C07: the data segments carry the capture times of packets 4, 6 and 8 (`infoCap tag = 1000 + tag`), the ends are
-- those of the first packet
example : ((tlsFrames hashes Cipher.Toy.prims infoCap (optsA false) (some kl0) capItems).flatten.map fun p =>
    (p.srcMac, p.dstMac, p.src.ip, p.dst.ip)).eraseDups
    = [([1], [2], [10, 0, 0, 1], [10, 0, 0, 2]), ([2], [1], [10, 0, 0, 2], [10, 0, 0, 1])] := by decide +kernel

end Ex

end TLX.Props.ExportProps
