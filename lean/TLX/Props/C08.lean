/-
C08 — cutting the capture at any point only removes a suffix of the export.
The pipeline stages are online machines whose steps only append output (`Machine.prefix_monotone`); here the
statement is instantiated for the TCP output builder: the conversation built from the first `n` records is a prefix
of the conversation built from all records (sequence numbers, acknowledgements, timestamps and payloads included),
so nothing already exported is ever retracted or altered by later records.
(Reassembly: `TLX.Props.C05`; QUIC datagram grouping: `TLX.Props.C02`.)
-/
import TLX.Generic
import TLX.TcpOut
namespace TLX.Props.C08
open TLX TLX.TcpOut

/-- generic: any pipeline stage of the form "state × input → state × appended output" -/
theorem stage_prefix_monotone {σ ι ο : Type} (m : Machine σ ι ο) (s : σ) (xs : List ι) (n : Nat) :
    (m.run s (xs.take n)).2 <+: (m.run s xs).2 := m.prefix_monotone s xs n

theorem bodyFrames_append (q : Seqs) (a b : List Rec) :
    bodyFrames q (a ++ b) =
      (bodyFrames q a).bind fun (q', fa) => (bodyFrames q' b).map fun (q'', fb) => (q'', fa ++ fb) := by
  induction a generalizing q with
  | nil => simp [bodyFrames]
  | cons r rs ih =>
    simp only [List.cons_append, bodyFrames]
    cases hr : recFrames q r with
    | none => simp
    | some v =>
      obtain ⟨q1, f1⟩ := v
      simp only [Option.bind_some, ih]
      cases hb : bodyFrames q1 rs with
      | none => simp
      | some w =>
        obtain ⟨q2, f2⟩ := w
        simp only [Option.bind_some, Option.map_some]
        cases bodyFrames q2 b with
        | none => simp
        | some u => simp [List.append_assoc]

/-- C08 for the TCP builder: for EVERY record list and every cut `n`, what is built from the first `n` records is a
    prefix (frame by frame) of what is built from all records -/
theorem build_take_prefix (recs : List Rec) (n : Nat) (fa fb : List Frame)
    (ha : build (recs.take n) = some fa) (hb : build recs = some fb) : fa <+: fb := by
  cases n with
  | zero =>
    simp [build] at ha; subst ha; exact List.nil_prefix
  | succ n =>
    cases recs with
    | nil => simp [build] at ha hb; subst ha; subst hb; exact List.prefix_refl _
    | cons r rs =>
      simp only [List.take_succ_cons, build] at ha hb
      cases hts : r.ts with
      | nil => simp [hts] at ha
      | cons t0 tl =>
        simp only [hts, Option.map_eq_some_iff] at ha hb
        obtain ⟨⟨qa, ba⟩, hba, rfl⟩ := ha
        obtain ⟨⟨qb, bb⟩, hbb, rfl⟩ := hb
        have hsplit : r :: rs = (r :: rs.take n) ++ rs.drop n := by simp [List.take_append_drop]
        rw [hsplit, bodyFrames_append, hba] at hbb
        simp only [Option.bind_some, Option.map_eq_some_iff] at hbb
        obtain ⟨⟨q3, f3⟩, _, h3⟩ := hbb
        simp only [Prod.mk.injEq] at h3
        obtain ⟨_, rfl⟩ := h3
        rw [← List.append_assoc]
        exact List.prefix_append _ _

-- Non-vacuity: a cut inside a two-record conversation
example : ∃ fa fb, build ([⟨some [1, 2, 3], [10, 11], false⟩, ⟨some [7], [12], true⟩].take 1) = some fa ∧
    build [⟨some [1, 2, 3], [10, 11], false⟩, ⟨some [7], [12], true⟩] = some fb ∧ fa.length = 7 ∧ fb.length = 9 :=
  ⟨_, _, rfl, rfl, by decide, by decide⟩

end TLX.Props.C08
