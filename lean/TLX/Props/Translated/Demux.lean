/-
Translated Python functions, group Demux: tlexport/session.py `matches_session`; main.py `handle_quic_packet` (CID tests, candidates), `run()` frame dispatch.
Each `<python name>_eq_model` says the definition regenerated from the tree under test
(`TLX/Gen/Translated/Demux.lean`, written by `harness/translate.py`) EQUALS the hand-written model function.
This module imports only its own group's generated file: a source change outside the group cannot break it.
-/
import TLX.Gen.Translated.Demux
import TLX.Props.Translated.Enc
import TLX.MainLoop
namespace TLX.Props.Translated
open TLX TLX.PyRt

/-- `matches_session(packet)` is the model's `Sess.matches` -/
theorem matches_session_eq_model {α : Type} (s : MainLoop.Sess α) (p : MainLoop.Pkt) :
    Gen.Py.matches_session p.src.ip p.dst.ip p.src.port p.dst.port s.server.ip s.server.port s.client.ip s.client.port =
      s.matches p := by
  unfold Gen.Py.matches_session MainLoop.Sess.matches
  simp only [endpoint_beq]
  repeat' split
  all_goals simp_all

example : Gen.Py.matches_session [10, 0, 0, 1] [10, 0, 0, 2] 443 5000 [10, 0, 0, 1] 443 [10, 0, 0, 2] 5000 = true ∧
    Gen.Py.matches_session [10, 0, 0, 1] [10, 0, 0, 2] 443 5001 [10, 0, 0, 1] 443 [10, 0, 0, 2] 5000 = false := by decide

/-- the long-header CID test of the session loop is the condition of the model's `cidMatch` -/
theorem quic_long_cid_test_eq_model (cc sc : List Bytes) (side : MainLoop.Side) (dcid payload : Bytes) (v : MainLoop.Version) :
    MainLoop.cidMatch cc sc side (.long dcid v) payload =
      if Gen.Py.quic_long_cid_test dcid cc sc then some dcid else none := by
  simp [MainLoop.cidMatch, Gen.Py.quic_long_cid_test]

example : Gen.Py.quic_long_cid_test [1] [[1]] [] = true ∧ Gen.Py.quic_long_cid_test [] [[]] [] = false := by decide

/-- the candidate set of a short-header datagram is the model's `shortCandidates` at the model's `Sess.side` -/
theorem quic_short_candidates_eq_model {α : Type} (s : MainLoop.Sess α) (p : MainLoop.Pkt) (cc sc : List Bytes) :
    (Gen.Py.quic_short_candidates cc sc (s.matches p) p.src.ip p.src.port s.client.ip s.client.port).candidates =
      MainLoop.shortCandidates cc sc (s.side p) := by
  unfold Gen.Py.quic_short_candidates MainLoop.Sess.side
  simp only [endpoint_beq]
  repeat' split
  all_goals simp_all [MainLoop.shortCandidates]

example : (Gen.Py.quic_short_candidates [[1]] [[2]] true [10, 0, 0, 2] 5000 [10, 0, 0, 2] 5000).candidates = [[2]] ∧
    (Gen.Py.quic_short_candidates [[1]] [[2]] false [10, 0, 0, 2] 5000 [10, 0, 0, 2] 5000).candidates = [[1], [2]] := by decide

/-- the per-candidate test is the model's `cidPrefixOf` -/
theorem quic_short_cid_test_eq_model (cid payload : Bytes) :
    Gen.Py.quic_short_cid_test cid payload = MainLoop.cidPrefixOf payload cid := by
  simp only [Gen.Py.quic_short_cid_test, MainLoop.cidPrefixOf, gt_iff_lt]
  congr 1
  rw [Bool.eq_iff_iff]
  simp

example : Gen.Py.quic_short_cid_test [7, 8] [0x43, 7, 8, 9] = true ∧ Gen.Py.quic_short_cid_test [] [0x43] = false := by decide

/-- how the loop body of `run()` is left for a frame the model ignores -/
def whyExit : MainLoop.Why → Exit
  | .emptyTcp => .cont
  | .emptyUdp => .cont
  | .badCsumUdp => .cont
  | .badCsumTcp => .fall
  | .noFixedBit => .fall
  | .notTcpUdp => .fall

/-- the handler called and the exit taken, per model class of a frame -/
def classRes {κ : Type} : MainLoop.Class κ → Res Gen.Py.run_classify.St Exit
  | .tls _ => .ok .fall { acts := [.tls] }
  | .quic _ _ _ => .ok .fall { acts := [.quic] }
  | .ignore w => .ok (whyExit w) { acts := [] }
  | .keys _ => .ok .cont { acts := [] }

/-- the frame dispatch of `run()` is the model's `classify` (`packet.tcp_packet` / `udp_packet` are the model's `l4`;
    both checksum functions are the model's `csumOk`); `packet.tls_data[0]` never raises -/
theorem run_classify_eq_model {κ : Type} (o : MainLoop.Opts) (p : MainLoop.Pkt) :
    Gen.Py.run_classify (p.l4 == .tcp) (p.l4 == .udp) p.payload o.checksumTest o.greasy p.csumOk p.csumOk =
      classRes (MainLoop.classify (κ := κ) o (.frame p)) := by
  unfold Gen.Py.run_classify MainLoop.classify
  obtain ⟨l4, src, dst, payload, csumOk, tag⟩ := p
  cases l4 <;> cases payload <;> cases hc : o.checksumTest <;> cases csumOk <;> simp [classRes, whyExit]
  all_goals split <;> simp_all

example : Gen.Py.run_classify false true [0x43, 1] true false true true = .ok .fall { acts := [.quic] } ∧
    Gen.Py.run_classify true false [0x16] true false false false = .ok .fall { acts := [] } ∧
    Gen.Py.run_classify false true [0x03] false false true true = .ok .fall { acts := [] } := by decide

end TLX.Props.Translated
