/-
Translated Python functions, group QuicTls: tlexport/quic/quic_tls_parser.py — `handle_record`, `handle_client_hello`,
`handle_server_hello`, `handle_encrypted_extensions`, `get_extensions`, `get_quic_transport_parameters` — against
`TLX/Quic/TlsMsgs.lean`. The seven attributes the parsers write are one state record (`Gen.Py.QTls.St`, field for field the model's
`State`); an IndexError leaves the attribute writes made before it in place, as in the model. The two `while True` loops get
`len + 1` rounds of fuel; the theorems show they never run out.
NOT translated: `update_session` / `handle_buffer` (`Quic/CryptoStream.lean`): a list of frame objects sorted with a key function,
`list.remove` by identity, dicts of lists keyed by packet type.
This module rests on the Varint group's definitions and theorems (`get_variable_length_int_length`, `decode_variable_length_int`).
-/
import TLX.Gen.Translated.QuicTls
import TLX.Props.Translated.Varint
import TLX.Quic.TlsMsgs
namespace TLX.Props.Translated.QTlsP
open TLX TLX.PyRt TLX.Quic.TlsMsgs TLX.Quic.Varint TLX.Gen.Py

/-- the translated state: field for field the model's -/
def enc (s : State) : QTls.St :=
  { client_random := s.clientRandom, ciphersuite := s.ciphersuite, alpn := s.alpn, tls_vers := s.tlsVers, greasy_bit := s.greasyBit,
    new_data := s.newData, session_id := s.sessionId }

/-- a model result (state, IndexError or not) as the translation's -/
def resT : State × Option TLX.Quic.TlsMsgs.Err → Res QTls.St Unit
  | (s, none) => .ok () (enc s)
  | (s, some .index) => .raised .index (enc s)

-- ------------------------------------------------------------------ get_quic_transport_parameters
/-- one round of the parameter loop as the translation spells it -/
def tpBody {ρ : Type} (p : List (Nat × Nat × Bytes) × Bytes) : Except PyRt.Err (Step (List (Nat × Nat × Bytes) × Bytes) ρ) :=
  if decide (p.2.length < 1) then .ok (.brk p)
  else
    tryE (get_variable_length_int_length (Bytes.slice p.2 0 1)) (fun e => .error e) fun l1 =>
      tryE (decode_variable_length_int (Bytes.slice p.2 0 l1)) (fun e => .error e) fun v1 =>
        tryE (get_variable_length_int_length (Bytes.slice p.2 l1 (l1 + 1))) (fun e => .error e) fun l2 =>
          tryE (decode_variable_length_int (Bytes.slice p.2 l1 (l1 + l2))) (fun e => .error e) fun v2 =>
            .ok (.next (p.1 ++ [(v1, v2, Bytes.slice p.2 (l1 + l2) (l1 + l2 + v2))], p.2.drop (l1 + l2 + v2)))

theorem readVarint_gen (eb : Bytes) (i : Nat) {β : Type} (K : Nat → Nat → Except PyRt.Err β) :
    tryE (get_variable_length_int_length (Bytes.slice eb i (i + 1))) (fun e => .error e) (fun l =>
      tryE (decode_variable_length_int (Bytes.slice eb i (i + l))) (fun e => .error e) (fun v => K l v))
      = match readVarint eb i with
        | none => .error .index
        | some (v, j) => K (j - i) v := by
  unfold readVarint
  rw [get_variable_length_int_length_eq_model]
  cases getVarintLength (Bytes.slice eb i (i + 1)) with
  | none => rfl
  | some l =>
    simp only [ofOpt, tryE_ok, decode_variable_length_int_eq_model]
    cases decodeVarint (Bytes.slice eb i (i + l)) with
    | none => rfl
    | some v => simp [ofOpt]

theorem parseTP_eq (eb : Bytes) : parseTP eb =
    if eb.length < 1 then some []
    else match readVarint eb 0 with
      | none => none
      | some (pty, index) =>
        match readVarint eb index with
        | none => none
        | some (plen, index2) => (parseTP (eb.drop (index2 + plen))).map fun ps => (pty, plen, Bytes.slice eb index2 (index2 + plen)) :: ps := by
  rw [parseTP]
  by_cases h0 : eb.length < 1
  · simp [h0]
  · simp only [h0, if_false]
    split
    · rename_i h1; simp [h1]
    · rename_i pty index h1
      simp only [h1]
      split
      · rename_i h2; simp [h2]
      · rename_i plen index2 h2
        simp only [h2]
        cases parseTP (eb.drop (index2 + plen)) <;> rfl

theorem tp_loop {ρ : Type} : ∀ (fuel : Nat) (eb : Bytes) (acc : List (Nat × Nat × Bytes)), eb.length < fuel →
    whileS fuel (acc, eb) (fun _ => true) (tpBody (ρ := ρ))
      = match parseTP eb with
        | none => .error .index
        | some ps => .ok (.next (acc ++ ps, [])) := by
  intro fuel
  induction fuel with
  | zero => intro eb acc h; omega
  | succ n ih =>
    intro eb acc h
    rw [parseTP_eq]
    by_cases h0 : eb.length < 1
    · have : eb = [] := List.eq_nil_of_length_eq_zero (by omega)
      subst this
      simp [whileS, tpBody]
    · simp only [whileS, if_true, tpBody, h0, decide_false, Bool.false_eq_true, if_false]
      have r1 := readVarint_gen eb 0 (β := Step (List (Nat × Nat × Bytes) × Bytes) ρ)
      simp only [Nat.zero_add, Nat.sub_zero] at r1
      rw [r1]
      cases h1 : readVarint eb 0 with
      | none => rfl
      | some vi =>
        obtain ⟨pty, index⟩ := vi
        simp only []
        have hi : 0 < index := readVarint_idx _ _ _ _ h1
        rw [readVarint_gen eb index]
        cases h2 : readVarint eb index with
        | none => rfl
        | some vj =>
          obtain ⟨plen, index2⟩ := vj
          simp only []
          have hi2 : index < index2 := readVarint_idx _ _ _ _ h2
          have e1 : index + (index2 - index) = index2 := by omega
          simp only [e1]
          have hlen : (eb.drop (index2 + plen)).length < n := by simp only [List.length_drop]; omega
          rw [ih _ _ hlen]
          cases parseTP (eb.drop (index2 + plen)) with
          | none => rfl
          | some ps => simp [List.append_assoc]

theorem greasy_fold (g : QTls.St → Nat × Nat × Bytes → QTls.St)
    (hg : ∀ st p, g st p = if decide (p.1 = 10930) then { st with greasy_bit := true } else st) :
    ∀ (ps : List (Nat × Nat × Bytes)) (s : State),
      List.foldl g (enc s) ps = enc (if ps.any (fun p => p.1 == 0x2ab2) then { s with greasyBit := true } else s) := by
  intro ps
  induction ps with
  | nil => intro s; rfl
  | cons p rest ih =>
    intro s
    simp only [List.foldl_cons, hg, List.any_cons]
    by_cases hp : p.1 = 10930
    · have : (p.1 == 0x2ab2) = true := by simp [hp]
      simp only [hp, decide_true, if_true, this, Bool.true_or]
      have := ih { s with greasyBit := true }
      simp only [enc] at this ⊢
      rw [this]
      cases rest.any (fun p => p.1 == 0x2ab2) <;> rfl
    · have : (p.1 == 0x2ab2) = false := by simp [hp]
      simp only [hp, decide_false, Bool.false_eq_true, if_false, this, Bool.false_or]
      exact ih s

/-- `get_quic_transport_parameters`: IndexError (state untouched) where the model's `parseTP` is `none`, else the `greasy_bit` -/
theorem get_quic_transport_parameters_eq_model (s : State) (eb : Bytes) :
    QTls.get_quic_transport_parameters eb (enc s)
      = match parseTP eb with
        | none => .raised .index (enc s)
        | some ps => .ok () (enc (if ps.any (fun p => p.1 == 0x2ab2) then { s with greasyBit := true } else s)) := by
  unfold QTls.get_quic_transport_parameters
  have h := tp_loop (ρ := Res QTls.St Unit) (eb.length + 1) eb [] (by omega)
  dsimp only
  erw [h]
  cases parseTP eb with
  | none => rfl
  | some ps =>
    simp only [List.nil_append, loopS_next]
    rw [greasy_fold QTls.get_quic_transport_parameters.loop1 (fun _ _ => rfl)]

/-- … under `try: … except: pass` -/
theorem tp_caught (s : State) (eb : Bytes) {β : Type} (K : QTls.St → β) (E : PyRt.Err → QTls.St → β) :
    tryR (QTls.get_quic_transport_parameters eb (enc s)) (fun e st' => if decide (e ≠ PyRt.Err.fuel) then K st' else E e st') (fun _ st' => K st')
      = K (enc (quicTransportParameters s eb)) := by
  rw [get_quic_transport_parameters_eq_model]
  unfold quicTransportParameters
  cases parseTP eb <;> simp

-- ------------------------------------------------------------------ get_extensions
def extTup (e : PExt) : Bytes × Nat × Bytes := (e.ty, e.len, e.body)

/-- one round of the collecting loop as the translation spells it -/
def extBody {ρ : Type} (p : List (Bytes × Nat × Bytes) × Bytes) : Except PyRt.Err (Step (List (Bytes × Nat × Bytes) × Bytes) ρ) :=
  if decide (p.2.length < 4) then .ok (.brk p)
  else if decide (p.2.length < 4 + Bytes.beNat (Bytes.slice p.2 2 4)) then .ok (.brk p)
  else .ok (.next (p.1 ++ [(Bytes.slice p.2 0 2, Bytes.beNat (Bytes.slice p.2 2 4), Bytes.slice p.2 4 (4 + Bytes.beNat (Bytes.slice p.2 2 4)))],
                   p.2.drop (4 + Bytes.beNat (Bytes.slice p.2 2 4))))

theorem exts_loop {ρ : Type} : ∀ (fuel : Nat) (r : Bytes) (acc : List (Bytes × Nat × Bytes)), r.length < fuel →
    ∃ rest, whileS fuel (acc, r) (fun _ => true) (extBody (ρ := ρ)) = .ok (.next (acc ++ (parseExts r).map extTup, rest)) := by
  intro fuel
  induction fuel with
  | zero => intro r acc h; omega
  | succ n ih =>
    intro r acc h
    rw [parseExts]
    by_cases h4 : r.length < 4
    · exact ⟨r, by simp [whileS, extBody, h4]⟩
    · by_cases hl : r.length < 4 + Bytes.beNat (Bytes.slice r 2 4)
      · exact ⟨r, by simp [whileS, extBody, h4, hl]⟩
      · have hlen : (r.drop (4 + Bytes.beNat (Bytes.slice r 2 4))).length < n := by simp only [List.length_drop]; omega
        obtain ⟨rest, hr⟩ := ih (r.drop (4 + Bytes.beNat (Bytes.slice r 2 4)))
          (acc ++ [(Bytes.slice r 0 2, Bytes.beNat (Bytes.slice r 2 4), Bytes.slice r 4 (4 + Bytes.beNat (Bytes.slice r 2 4)))]) hlen
        refine ⟨rest, ?_⟩
        simp only [whileS, if_true, extBody, h4, hl, decide_false, Bool.false_eq_true, if_false, hr, List.map_cons, extTup, List.append_assoc,
          List.singleton_append]

/-- one round of the `for e_type, e_length, e_body in extensions` loop -/
theorem ext_round (s : State) (e : PExt) :
    QTls.get_extensions.loop1 (enc s) (extTup e)
      = match applyExt s e with
        | none => .ok (.ret (.raised .index (enc s)))
        | some s' => .ok (.next (enc s')) := by
  unfold QTls.get_extensions.loop1 applyExt extTup
  simp only
  by_cases h43 : Bytes.beNat e.ty = 43
  · simp only [h43, decide_true, if_true]
    by_cases h2 : e.len = 2 <;> simp [h2, enc]
  · by_cases h16 : Bytes.beNat e.ty = 16
    · simp only [h16, reduceCtorEq, decide_false, decide_true, Bool.false_eq_true, if_false, if_true, show ¬ ((16 : Nat) = 43) from by decide]
      by_cases h3 : e.len < 3
      · simp [h3]
      · simp only [h3, decide_false, Bool.false_eq_true, if_false, show (2 : Int) = Int.ofNat 2 from rfl, getItem_nat]
        cases hb : e.body[2]? with
        | none => simp
        | some al =>
          simp only [tryE_ok]
          by_cases hl : e.body.length = 3 + al.toNat <;> simp [hl, enc]
    · by_cases h57 : Bytes.beNat e.ty = 57
      · simp only [h57, decide_false, decide_true, Bool.false_eq_true, if_false, if_true, show ¬ ((57 : Nat) = 43) from by decide,
          show ¬ ((57 : Nat) = 16) from by decide]
        rw [tp_caught s e.body (fun st' => (.ok (.next st') : Except PyRt.Err (Step QTls.St (Res QTls.St Unit)))) (fun e st' => .ok (.ret (.raised e st')))]
      · simp only [h43, h16, h57, decide_false, Bool.false_eq_true, if_false]

theorem exts_apply : ∀ (es : List PExt) (s : State),
    forS (es.map extTup) (enc s) QTls.get_extensions.loop1
      = match applyExts s es with
        | (s', none) => .ok (.next (enc s'))
        | (s', some .index) => .ok (.ret (.raised .index (enc s'))) := by
  intro es
  induction es with
  | nil => intro s; rfl
  | cons e rest ih =>
    intro s
    simp only [List.map_cons, forS, ext_round, applyExts]
    cases applyExt s e with
    | none => rfl
    | some s' => exact ih s'

theorem get_extensions_eq_model (s : State) (r : Bytes) :
    QTls.get_extensions r (enc s) = resT (getExtensions s r) := by
  unfold QTls.get_extensions getExtensions
  by_cases hl : (r.drop 2).length = Bytes.beNat (Bytes.slice r 0 2)
  · have hm : ¬ ((r.drop 2).length ≠ Bytes.beNat (Bytes.slice r 0 2)) := fun h => h hl
    have hd : decide ((r.drop 2).length ≠ Bytes.beNat (Bytes.slice r 0 2)) = false := decide_eq_false hm
    rw [hd, if_neg hm]
    simp only [Bool.false_eq_true, if_false]
    obtain ⟨rest, hw⟩ := exts_loop (ρ := Res QTls.St Unit) ((r.drop 2).length + 1) (r.drop 2) [] (by omega)
    erw [hw]
    simp only [List.nil_append, loopS_next, exts_apply]
    rcases applyExts s (parseExts (r.drop 2)) with ⟨s', _ | e⟩
    · rfl
    · cases e; rfl
  · have hd : decide ((r.drop 2).length ≠ Bytes.beNat (Bytes.slice r 0 2)) = true := decide_eq_true hl
    have hm : ((r.drop 2).length ≠ Bytes.beNat (Bytes.slice r 0 2)) := hl
    rw [hd, if_pos hm]
    rfl

-- ------------------------------------------------------------------ the three message parsers and handle_record
theorem then_new_data (s : State) (r : Bytes) :
    tryR (QTls.get_extensions r (enc s)) (fun e st' => Res.raised e st') (fun _ st' => Res.ok () { st' with new_data := true })
      = resT (extsThenNewData s r) := by
  rw [get_extensions_eq_model]
  unfold extsThenNewData
  rcases getExtensions s r with ⟨s', _ | e⟩
  · rfl
  · cases e; rfl

theorem handle_encrypted_extensions_eq_model (s : State) (record : Bytes) :
    QTls.handle_encrypted_extensions record (enc s) = resT (handleEncryptedExtensions s record) := by
  unfold QTls.handle_encrypted_extensions handleEncryptedExtensions
  by_cases h : record.length < 6
  · simp [h, resT]
  · simp only [h, decide_false, Bool.false_eq_true, if_false]
    exact then_new_data s _

theorem handle_server_hello_eq_model (s : State) (record : Bytes) :
    QTls.handle_server_hello record (enc s) = resT (handleServerHello s record) := by
  unfold QTls.handle_server_hello handleServerHello
  by_cases h : record.length < 44
  · simp [h, resT]
  · simp only [h, decide_false, Bool.false_eq_true, if_false, show (38 : Int) = Int.ofNat 38 from rfl, getItem_nat]
    cases record[38]? with
    | none => rfl
    | some sil =>
      simp only [tryE_ok]
      exact then_new_data { s with ciphersuite := some (Bytes.slice (record.drop (39 + sil.toNat)) 0 2) } _

theorem handle_client_hello_eq_model (s : State) (record : Bytes) :
    QTls.handle_client_hello record (enc s) = resT (handleClientHello s record) := by
  unfold QTls.handle_client_hello handleClientHello
  by_cases h : record.length < 38
  · simp [h, resT]
  · simp only [h, decide_false, Bool.false_eq_true, if_false]
    by_cases h2 : record.length < 4 + Bytes.beNat (Bytes.slice record 1 4)
    · simp [h2, resT]
    · simp only [h2, decide_false, Bool.false_eq_true, if_false, chBody, show (34 : Int) = Int.ofNat 34 from rfl, getItem_nat]
      cases (record.drop 4)[34]? with
      | none => rfl
      | some sil =>
        simp only [tryE_ok]
        cases (record.drop 4)[35 + sil.toNat + 2 + Bytes.beNat (Bytes.slice (record.drop 4) (35 + sil.toNat) (35 + sil.toNat + 2))]? with
        | none => rfl
        | some cml =>
          simp only [tryE_ok]
          exact then_new_data (⟨some (Bytes.slice (record.drop 4) 2 34),
            some (Bytes.slice (Bytes.slice (record.drop 4) (35 + sil.toNat + 2)
              (35 + sil.toNat + 2 + Bytes.beNat (Bytes.slice (record.drop 4) (35 + sil.toNat) (35 + sil.toNat + 2)))) 0 2),
            s.alpn, some (Bytes.slice (record.drop 4) 0 2), s.greasyBit, s.newData, some (Bytes.slice (record.drop 4) 35 (35 + sil.toNat))⟩ : State) _

theorem handle_record_eq_model (s : State) (t : Nat) (record : Bytes) :
    QTls.handle_record t record (enc s) = resT (handleRecord s t record) := by
  unfold QTls.handle_record handleRecord
  by_cases h1 : t = 1
  · subst h1
    simp only [decide_true, if_true, handle_client_hello_eq_model]
    rcases handleClientHello s record with ⟨s', _ | e⟩
    · rfl
    · cases e; rfl
  · by_cases h2 : t = 2
    · subst h2
      simp only [show ¬ ((2 : Nat) = 1) from by decide, decide_false, decide_true, Bool.false_eq_true, if_false, if_true, handle_server_hello_eq_model]
      rcases handleServerHello s record with ⟨s', _ | e⟩
      · rfl
      · cases e; rfl
    · by_cases h8 : t = 8
      · subst h8
        simp only [show ¬ ((8 : Nat) = 1) from by decide, show ¬ ((8 : Nat) = 2) from by decide, decide_false, decide_true, Bool.false_eq_true, if_false,
          if_true, handle_encrypted_extensions_eq_model]
        rcases handleEncryptedExtensions s record with ⟨s', _ | e⟩
        · rfl
        · cases e; rfl
      · simp only [h1, h2, h8, decide_false, Bool.false_eq_true, if_false]
        rfl

end TLX.Props.Translated.QTlsP
