/-
`QuicSession.set_tls_decryptors` (tlexport/quic/quic_session.py) as translated from the Python source
(`TLX/Gen/Translated/QuicSess3.lean`) equals the model's `setTlsDecryptors` / `installGroups` (`TLX/Quic/Session.lean`).

The translation runs over a state record of its own (`QS3.St`: `hash_fun`, `cipher`, `key_length`, the two flags, the three
decryptor entries, `self.keys`); `enc` relates it to the model state: the three suite attributes are the components of `suite`.
The dict `dev_quic_keys` returns is `dictOf kg` for the model's `KeyGroups` (a group's entries are there iff the group is);
which groups `self.keys` holds (`keysHs` …) is not part of `QS3.St` — `self.keys` itself is (`tableUpdate`).
The method is translated as two definitions (the `match ciphersuite:`; everything after it); `set_tls_decryptors_eq_model`
states their composition.
-/
import TLX.Gen.Translated.QuicSess3
import TLX.Lemmas.PyRt
namespace TLX.Props.Translated.QSess3
open TLX TLX.Quic TLX.Quic.Session TLX.Cipher TLX.Gen.Py PyRt

variable {σ : Type}

def errOf : PyErr → Err
  | .index => .index | .key => .key | .attr => .attr | .unbound => .unbound | .overflow => .overflow | .value => .value
  | .type => .type | .invalidTag => .value | .unsupported => .value | .other => .value

def enc (s : St σ) (keys : List (List Nat × Option Bytes)) : QS3.St :=
  { hash_fun := s.suite.map (·.hash), cipher := s.suite.map (·.alg), key_length := s.suite.map (·.keyLen),
    can_decrypt := s.canDecrypt, early_traffic_keys := s.earlyTrafficKeys,
    dec_handshake := s.decHandshake, dec_app := s.decApp, dec_early := s.decEarly, keys := keys }

/-- the `match ciphersuite:`: the three attributes of the suite, or `can_decrypt = False` and `return` -/
theorem select_suite_eq_model (s : St σ) (x : List (List Nat × Option Bytes)) (cs : Bytes) :
    QS3.select_suite cs (enc s x)
      = match selectSuite cs with
        | some sel => .ok .fall (enc { s with suite := some sel } x)
        | none => .ok .ret (enc { s with canDecrypt := false } x) := by
  unfold QS3.select_suite selectSuite
  by_cases h1 : cs = [0x13, 0x01]
  · subst h1; rfl
  by_cases h2 : cs = [0x13, 0x02]
  · subst h2; rfl
  by_cases h3 : cs = [0x13, 0x03]
  · subst h3; rfl
  by_cases h4 : cs = [0x13, 0x04]
  · subst h4; rfl
  have e1 : ¬ cs = ([19, 1] : Bytes) := h1
  have e2 : ¬ cs = ([19, 2] : Bytes) := h2
  have e3 : ¬ cs = ([19, 3] : Bytes) := h3
  have e4 : ¬ cs = ([19, 4] : Bytes) := h4
  simp only [h1, h2, h3, h4, e1, e2, e3, e4, decide_false, if_false, Bool.false_eq_true]
  rfl

def k_shk : List Nat := [115, 101, 114, 118, 101, 114, 95, 104, 97, 110, 100, 115, 104, 97, 107, 101, 95, 107, 101, 121]
def k_shi : List Nat := [115, 101, 114, 118, 101, 114, 95, 104, 97, 110, 100, 115, 104, 97, 107, 101, 95, 105, 118]
def k_chk : List Nat := [99, 108, 105, 101, 110, 116, 95, 104, 97, 110, 100, 115, 104, 97, 107, 101, 95, 107, 101, 121]
def k_chi : List Nat := [99, 108, 105, 101, 110, 116, 95, 104, 97, 110, 100, 115, 104, 97, 107, 101, 95, 105, 118]
def k_sak : List Nat := [115, 101, 114, 118, 101, 114, 95, 97, 112, 112, 108, 105, 99, 97, 116, 105, 111, 110, 95, 107, 101, 121]
def k_sai : List Nat := [115, 101, 114, 118, 101, 114, 95, 97, 112, 112, 108, 105, 99, 97, 116, 105, 111, 110, 95, 105, 118]
def k_cak : List Nat := [99, 108, 105, 101, 110, 116, 95, 97, 112, 112, 108, 105, 99, 97, 116, 105, 111, 110, 95, 107, 101, 121]
def k_cai : List Nat := [99, 108, 105, 101, 110, 116, 95, 97, 112, 112, 108, 105, 99, 97, 116, 105, 111, 110, 95, 105, 118]
def k_sas : List Nat := [115, 101, 114, 118, 101, 114, 95, 97, 112, 112, 108, 105, 99, 97, 116, 105, 111, 110, 95, 115, 101, 99]
def k_cas : List Nat := [99, 108, 105, 101, 110, 116, 95, 97, 112, 112, 108, 105, 99, 97, 116, 105, 111, 110, 95, 115, 101, 99]
def k_cek : List Nat := [99, 108, 105, 101, 110, 116, 95, 101, 97, 114, 108, 121, 95, 107, 101, 121]
def k_cei : List Nat := [99, 108, 105, 101, 110, 116, 95, 101, 97, 114, 108, 121, 95, 105, 118]

def hsDict : Option (DirKeys × DirKeys) → List (List Nat × Option Bytes)
  | none => []
  | some (s, c) => [(k_shk, some s.key), (k_shi, some s.iv), (k_chk, some c.key), (k_chi, some c.iv)]

def appDict : Option AppKeys → List (List Nat × Option Bytes)
  | none => []
  | some a => [(k_sak, some a.server.key), (k_sai, some a.server.iv), (k_cak, some a.client.key), (k_cai, some a.client.iv),
               (k_sas, some a.serverSec), (k_cas, some a.clientSec)]

def earlyDict : Option DirKeys → List (List Nat × Option Bytes)
  | none => []
  | some e => [(k_cek, some e.key), (k_cei, some e.iv)]

/-- the dict `dev_quic_keys` returns, as far as `set_tls_decryptors` reads it: a group's entries are there iff the group is -/
def dictOf (kg : KeyGroups) : List (List Nat × Option Bytes) := hsDict kg.hs ++ appDict kg.app ++ earlyDict kg.early


/-! ### lookups in `dictOf kg` (every key is in exactly one group) -/

theorem tget_append (a b : List (List Nat × Option Bytes)) (k : List Nat) :
    tableGet (a ++ b) k = match tableGet b k with | some v => some v | none => tableGet a k := by
  unfold tableGet
  rw [List.reverse_append, List.find?_append]
  cases List.find? (fun e => decide (e.1 = k)) b.reverse <;> rfl

theorem hsDict_none : hsDict none = [] := rfl
theorem appDict_none : appDict none = [] := rfl
theorem earlyDict_none : earlyDict none = [] := rfl

theorem tget_nil (k : List Nat) : tableGet ([] : List (List Nat × Option Bytes)) k = none := rfl

theorem g_hsDict_k_shk (s c : DirKeys) : tableGet (hsDict (some (s, c))) k_shk = some (some s.key) := by
  simp [tableGet, hsDict, k_shk, k_shi, k_chk, k_chi, k_sak, k_sai, k_cak, k_cai, k_sas, k_cas, k_cek, k_cei]

theorem g_hsDict_k_shi (s c : DirKeys) : tableGet (hsDict (some (s, c))) k_shi = some (some s.iv) := by
  simp [tableGet, hsDict, k_shk, k_shi, k_chk, k_chi, k_sak, k_sai, k_cak, k_cai, k_sas, k_cas, k_cek, k_cei]

theorem g_hsDict_k_chk (s c : DirKeys) : tableGet (hsDict (some (s, c))) k_chk = some (some c.key) := by
  simp [tableGet, hsDict, k_shk, k_shi, k_chk, k_chi, k_sak, k_sai, k_cak, k_cai, k_sas, k_cas, k_cek, k_cei]

theorem g_hsDict_k_chi (s c : DirKeys) : tableGet (hsDict (some (s, c))) k_chi = some (some c.iv) := by
  simp [tableGet, hsDict, k_shk, k_shi, k_chk, k_chi, k_sak, k_sai, k_cak, k_cai, k_sas, k_cas, k_cek, k_cei]

theorem n_hsDict_k_sak (x : _) : tableGet (hsDict x) k_sak = none := by
  cases x <;> simp [tableGet, hsDict, k_shk, k_shi, k_chk, k_chi, k_sak, k_sai, k_cak, k_cai, k_sas, k_cas, k_cek, k_cei]

theorem n_hsDict_k_sai (x : _) : tableGet (hsDict x) k_sai = none := by
  cases x <;> simp [tableGet, hsDict, k_shk, k_shi, k_chk, k_chi, k_sak, k_sai, k_cak, k_cai, k_sas, k_cas, k_cek, k_cei]

theorem n_hsDict_k_cak (x : _) : tableGet (hsDict x) k_cak = none := by
  cases x <;> simp [tableGet, hsDict, k_shk, k_shi, k_chk, k_chi, k_sak, k_sai, k_cak, k_cai, k_sas, k_cas, k_cek, k_cei]

theorem n_hsDict_k_cai (x : _) : tableGet (hsDict x) k_cai = none := by
  cases x <;> simp [tableGet, hsDict, k_shk, k_shi, k_chk, k_chi, k_sak, k_sai, k_cak, k_cai, k_sas, k_cas, k_cek, k_cei]

theorem n_hsDict_k_sas (x : _) : tableGet (hsDict x) k_sas = none := by
  cases x <;> simp [tableGet, hsDict, k_shk, k_shi, k_chk, k_chi, k_sak, k_sai, k_cak, k_cai, k_sas, k_cas, k_cek, k_cei]

theorem n_hsDict_k_cas (x : _) : tableGet (hsDict x) k_cas = none := by
  cases x <;> simp [tableGet, hsDict, k_shk, k_shi, k_chk, k_chi, k_sak, k_sai, k_cak, k_cai, k_sas, k_cas, k_cek, k_cei]

theorem n_hsDict_k_cek (x : _) : tableGet (hsDict x) k_cek = none := by
  cases x <;> simp [tableGet, hsDict, k_shk, k_shi, k_chk, k_chi, k_sak, k_sai, k_cak, k_cai, k_sas, k_cas, k_cek, k_cei]

theorem n_hsDict_k_cei (x : _) : tableGet (hsDict x) k_cei = none := by
  cases x <;> simp [tableGet, hsDict, k_shk, k_shi, k_chk, k_chi, k_sak, k_sai, k_cak, k_cai, k_sas, k_cas, k_cek, k_cei]

theorem g_appDict_k_sak (a : AppKeys) : tableGet (appDict (some a)) k_sak = some (some a.server.key) := by
  simp [tableGet, appDict, k_shk, k_shi, k_chk, k_chi, k_sak, k_sai, k_cak, k_cai, k_sas, k_cas, k_cek, k_cei]

theorem g_appDict_k_sai (a : AppKeys) : tableGet (appDict (some a)) k_sai = some (some a.server.iv) := by
  simp [tableGet, appDict, k_shk, k_shi, k_chk, k_chi, k_sak, k_sai, k_cak, k_cai, k_sas, k_cas, k_cek, k_cei]

theorem g_appDict_k_cak (a : AppKeys) : tableGet (appDict (some a)) k_cak = some (some a.client.key) := by
  simp [tableGet, appDict, k_shk, k_shi, k_chk, k_chi, k_sak, k_sai, k_cak, k_cai, k_sas, k_cas, k_cek, k_cei]

theorem g_appDict_k_cai (a : AppKeys) : tableGet (appDict (some a)) k_cai = some (some a.client.iv) := by
  simp [tableGet, appDict, k_shk, k_shi, k_chk, k_chi, k_sak, k_sai, k_cak, k_cai, k_sas, k_cas, k_cek, k_cei]

theorem g_appDict_k_sas (a : AppKeys) : tableGet (appDict (some a)) k_sas = some (some a.serverSec) := by
  simp [tableGet, appDict, k_shk, k_shi, k_chk, k_chi, k_sak, k_sai, k_cak, k_cai, k_sas, k_cas, k_cek, k_cei]

theorem g_appDict_k_cas (a : AppKeys) : tableGet (appDict (some a)) k_cas = some (some a.clientSec) := by
  simp [tableGet, appDict, k_shk, k_shi, k_chk, k_chi, k_sak, k_sai, k_cak, k_cai, k_sas, k_cas, k_cek, k_cei]

theorem n_appDict_k_shk (x : _) : tableGet (appDict x) k_shk = none := by
  cases x <;> simp [tableGet, appDict, k_shk, k_shi, k_chk, k_chi, k_sak, k_sai, k_cak, k_cai, k_sas, k_cas, k_cek, k_cei]

theorem n_appDict_k_shi (x : _) : tableGet (appDict x) k_shi = none := by
  cases x <;> simp [tableGet, appDict, k_shk, k_shi, k_chk, k_chi, k_sak, k_sai, k_cak, k_cai, k_sas, k_cas, k_cek, k_cei]

theorem n_appDict_k_chk (x : _) : tableGet (appDict x) k_chk = none := by
  cases x <;> simp [tableGet, appDict, k_shk, k_shi, k_chk, k_chi, k_sak, k_sai, k_cak, k_cai, k_sas, k_cas, k_cek, k_cei]

theorem n_appDict_k_chi (x : _) : tableGet (appDict x) k_chi = none := by
  cases x <;> simp [tableGet, appDict, k_shk, k_shi, k_chk, k_chi, k_sak, k_sai, k_cak, k_cai, k_sas, k_cas, k_cek, k_cei]

theorem n_appDict_k_cek (x : _) : tableGet (appDict x) k_cek = none := by
  cases x <;> simp [tableGet, appDict, k_shk, k_shi, k_chk, k_chi, k_sak, k_sai, k_cak, k_cai, k_sas, k_cas, k_cek, k_cei]

theorem n_appDict_k_cei (x : _) : tableGet (appDict x) k_cei = none := by
  cases x <;> simp [tableGet, appDict, k_shk, k_shi, k_chk, k_chi, k_sak, k_sai, k_cak, k_cai, k_sas, k_cas, k_cek, k_cei]

theorem g_earlyDict_k_cek (e : DirKeys) : tableGet (earlyDict (some e)) k_cek = some (some e.key) := by
  simp [tableGet, earlyDict, k_shk, k_shi, k_chk, k_chi, k_sak, k_sai, k_cak, k_cai, k_sas, k_cas, k_cek, k_cei]

theorem g_earlyDict_k_cei (e : DirKeys) : tableGet (earlyDict (some e)) k_cei = some (some e.iv) := by
  simp [tableGet, earlyDict, k_shk, k_shi, k_chk, k_chi, k_sak, k_sai, k_cak, k_cai, k_sas, k_cas, k_cek, k_cei]

theorem n_earlyDict_k_shk (x : _) : tableGet (earlyDict x) k_shk = none := by
  cases x <;> simp [tableGet, earlyDict, k_shk, k_shi, k_chk, k_chi, k_sak, k_sai, k_cak, k_cai, k_sas, k_cas, k_cek, k_cei]

theorem n_earlyDict_k_shi (x : _) : tableGet (earlyDict x) k_shi = none := by
  cases x <;> simp [tableGet, earlyDict, k_shk, k_shi, k_chk, k_chi, k_sak, k_sai, k_cak, k_cai, k_sas, k_cas, k_cek, k_cei]

theorem n_earlyDict_k_chk (x : _) : tableGet (earlyDict x) k_chk = none := by
  cases x <;> simp [tableGet, earlyDict, k_shk, k_shi, k_chk, k_chi, k_sak, k_sai, k_cak, k_cai, k_sas, k_cas, k_cek, k_cei]

theorem n_earlyDict_k_chi (x : _) : tableGet (earlyDict x) k_chi = none := by
  cases x <;> simp [tableGet, earlyDict, k_shk, k_shi, k_chk, k_chi, k_sak, k_sai, k_cak, k_cai, k_sas, k_cas, k_cek, k_cei]

theorem n_earlyDict_k_sak (x : _) : tableGet (earlyDict x) k_sak = none := by
  cases x <;> simp [tableGet, earlyDict, k_shk, k_shi, k_chk, k_chi, k_sak, k_sai, k_cak, k_cai, k_sas, k_cas, k_cek, k_cei]

theorem n_earlyDict_k_sai (x : _) : tableGet (earlyDict x) k_sai = none := by
  cases x <;> simp [tableGet, earlyDict, k_shk, k_shi, k_chk, k_chi, k_sak, k_sai, k_cak, k_cai, k_sas, k_cas, k_cek, k_cei]

theorem n_earlyDict_k_cak (x : _) : tableGet (earlyDict x) k_cak = none := by
  cases x <;> simp [tableGet, earlyDict, k_shk, k_shi, k_chk, k_chi, k_sak, k_sai, k_cak, k_cai, k_sas, k_cas, k_cek, k_cei]

theorem n_earlyDict_k_cai (x : _) : tableGet (earlyDict x) k_cai = none := by
  cases x <;> simp [tableGet, earlyDict, k_shk, k_shi, k_chk, k_chi, k_sak, k_sai, k_cak, k_cai, k_sas, k_cas, k_cek, k_cei]

theorem n_earlyDict_k_sas (x : _) : tableGet (earlyDict x) k_sas = none := by
  cases x <;> simp [tableGet, earlyDict, k_shk, k_shi, k_chk, k_chi, k_sak, k_sai, k_cak, k_cai, k_sas, k_cas, k_cek, k_cei]

theorem n_earlyDict_k_cas (x : _) : tableGet (earlyDict x) k_cas = none := by
  cases x <;> simp [tableGet, earlyDict, k_shk, k_shi, k_chk, k_chi, k_sak, k_sai, k_cak, k_cai, k_sas, k_cas, k_cek, k_cei]

/-- `QuicDecryptor(keys, cipher, early)`: four keys (handshake), six (application: with the two secrets), two with `early=True`;
    a `None` key or cipher makes the constructor raise -/
def mkDecOf (ks : List (Option Bytes)) (alg : Option Alg) (early : Bool) : Except Err Dec :=
  match alg, ks, early with
  | some a, [some sk, some si, some ck, some ci], false => .ok { alg := a, server := some ⟨sk, si⟩, client := ⟨ck, ci⟩ }
  | some a, [some sk, some si, some ck, some ci, some ss, some cs], false =>
    .ok { alg := a, server := some ⟨sk, si⟩, client := ⟨ck, ci⟩, serverSec := ss, clientSec := cs }
  | some a, [some ck, some ci], true => .ok { alg := a, server := none, client := ⟨ck, ci⟩ }
  | _, _, _ => .error .type

theorem filter_fold {κ : Type} (p : κ → Bool) : ∀ (l acc : List κ),
    List.foldl (fun acc k => if p k then acc ++ [k] else acc) acc l = acc ++ l.filter p := by
  intro l
  induction l with
  | nil => intro acc; simp
  | cons k r ih =>
    intro acc
    simp only [List.foldl_cons, List.filter_cons, ih]
    cases p k <;> simp

/-- how the definition was left: `return` inside the first two handlers -/
def exitOf (kg : KeyGroups) : Exit := if kg.hs.isSome && kg.app.isSome then .fall else .ret

/-- everything after the `match`: the key-log entries of this client random, `dev_quic_keys`, `self.keys.update`, the three
    decryptors with their try/excepts -/
theorem install_eq_model {κ : Type} (P : Params σ) (s : St σ) (sel : SuiteSel) (hs : s.suite = some sel)
    (x : List (List Nat × Option Bytes)) (keylog : List κ) (kr : κ → Bytes) (cr : Bytes)
    (dq : Option Nat → List κ → Option HashSel → Version → Except Err (List (List Nat × Option Bytes)))
    (H : dq (some sel.keyLen) (keylog.filter fun k => decide (kr k = cr)) (some sel.hash) s.version
          = match P.devQuicKeys sel s.version cr with | .ok kg => .ok (dictOf kg) | .error e => .error (errOf e)) :
    QS3.install kr dq mkDecOf cr keylog s.version (enc s x)
      = match P.devQuicKeys sel s.version cr with
        | .error e => .raised (errOf e) (enc s x)
        | .ok kg => .ok (exitOf kg) (enc (installGroups s sel kg) (tableUpdate x (dictOf kg))) := by
  unfold QS3.install
  have hf := filter_fold (fun k => decide (kr k = cr)) keylog []
  simp only [List.nil_append] at hf
  simp only [hf, enc, hs, Option.map_some, H]
  cases P.devQuicKeys sel s.version cr with
  | error e => rfl
  | ok kg =>
    obtain ⟨h, a, e⟩ := kg
    simp only [tryE_ok]
    rcases h with _ | ⟨hS, hC⟩ <;> rcases a with _ | a <;> rcases e with _ | e <;>
      simp only [show ([115, 101, 114, 118, 101, 114, 95, 104, 97, 110, 100, 115, 104, 97, 107, 101, 95, 107, 101, 121] : List Nat) = k_shk from rfl,
        show ([115, 101, 114, 118, 101, 114, 95, 104, 97, 110, 100, 115, 104, 97, 107, 101, 95, 105, 118] : List Nat) = k_shi from rfl,
        show ([99, 108, 105, 101, 110, 116, 95, 104, 97, 110, 100, 115, 104, 97, 107, 101, 95, 107, 101, 121] : List Nat) = k_chk from rfl,
        show ([99, 108, 105, 101, 110, 116, 95, 104, 97, 110, 100, 115, 104, 97, 107, 101, 95, 105, 118] : List Nat) = k_chi from rfl,
        show ([115, 101, 114, 118, 101, 114, 95, 97, 112, 112, 108, 105, 99, 97, 116, 105, 111, 110, 95, 107, 101, 121] : List Nat) = k_sak from rfl,
        show ([115, 101, 114, 118, 101, 114, 95, 97, 112, 112, 108, 105, 99, 97, 116, 105, 111, 110, 95, 105, 118] : List Nat) = k_sai from rfl,
        show ([99, 108, 105, 101, 110, 116, 95, 97, 112, 112, 108, 105, 99, 97, 116, 105, 111, 110, 95, 107, 101, 121] : List Nat) = k_cak from rfl,
        show ([99, 108, 105, 101, 110, 116, 95, 97, 112, 112, 108, 105, 99, 97, 116, 105, 111, 110, 95, 105, 118] : List Nat) = k_cai from rfl,
        show ([115, 101, 114, 118, 101, 114, 95, 97, 112, 112, 108, 105, 99, 97, 116, 105, 111, 110, 95, 115, 101, 99] : List Nat) = k_sas from rfl,
        show ([99, 108, 105, 101, 110, 116, 95, 97, 112, 112, 108, 105, 99, 97, 116, 105, 111, 110, 95, 115, 101, 99] : List Nat) = k_cas from rfl,
        show ([99, 108, 105, 101, 110, 116, 95, 101, 97, 114, 108, 121, 95, 107, 101, 121] : List Nat) = k_cek from rfl,
        show ([99, 108, 105, 101, 110, 116, 95, 101, 97, 114, 108, 121, 95, 105, 118] : List Nat) = k_cei from rfl,
        tableGetE, dictOf, tget_append, tget_nil, hsDict_none, appDict_none, earlyDict_none,
        g_hsDict_k_shk, g_hsDict_k_shi, g_hsDict_k_chk, g_hsDict_k_chi, n_hsDict_k_sak, n_hsDict_k_sai, n_hsDict_k_cak, n_hsDict_k_cai, n_hsDict_k_sas, n_hsDict_k_cas, n_hsDict_k_cek, n_hsDict_k_cei, g_appDict_k_sak, g_appDict_k_sai, g_appDict_k_cak, g_appDict_k_cai, g_appDict_k_sas, g_appDict_k_cas, n_appDict_k_shk, n_appDict_k_shi, n_appDict_k_chk, n_appDict_k_chi, n_appDict_k_cek, n_appDict_k_cei, g_earlyDict_k_cek, g_earlyDict_k_cei, n_earlyDict_k_shk, n_earlyDict_k_shi, n_earlyDict_k_chk, n_earlyDict_k_chi, n_earlyDict_k_sak, n_earlyDict_k_sai, n_earlyDict_k_cak, n_earlyDict_k_cai, n_earlyDict_k_sas, n_earlyDict_k_cas,
        tryE_ok, tryE_error, mkDecOf, installGroups, exitOf, enc, hs, AppKeys.toDec, Option.map_some, Option.isSome_some, Option.isSome_none,
        Bool.and_self, Bool.and_false, Bool.false_and, Bool.or_true, Bool.or_false, if_true, if_false, Bool.false_eq_true,
        show decide (Err.key ≠ Err.fuel) = true from rfl, show decide (Err.type ≠ Err.fuel) = true from rfl]

/-- `set_tls_decryptors(client_random, ciphersuite)`: the `match` and, unless it returned, what follows it — the state the
    model's `setTlsDecryptors` gives (`self.keys` extended by the dict), an exception of dev_quic_keys propagating -/
theorem set_tls_decryptors_eq_model {κ : Type} (P : Params σ) (s : St σ) (x : List (List Nat × Option Bytes)) (keylog : List κ)
    (kr : κ → Bytes) (cr cs : Bytes)
    (dq : Option Nat → List κ → Option HashSel → Version → Except Err (List (List Nat × Option Bytes)))
    (H : ∀ sel, selectSuite cs = some sel →
          dq (some sel.keyLen) (keylog.filter fun k => decide (kr k = cr)) (some sel.hash) s.version
            = match P.devQuicKeys sel s.version cr with | .ok kg => .ok (dictOf kg) | .error e => .error (errOf e)) :
    (match QS3.select_suite cs (enc s x) with
      | .ok .fall st1 => QS3.install kr dq mkDecOf cr keylog s.version st1
      | r => r)
      = match selectSuite cs with
        | none => .ok .ret (enc (setTlsDecryptors P s cr cs).1 x)
        | some sel =>
          match P.devQuicKeys sel s.version cr with
          | .error e => .raised (errOf e) (enc (setTlsDecryptors P s cr cs).1 x)
          | .ok kg => .ok (exitOf kg) (enc (setTlsDecryptors P s cr cs).1 (tableUpdate x (dictOf kg))) := by
  rw [select_suite_eq_model]
  unfold setTlsDecryptors
  cases hsel : selectSuite cs with
  | none => rfl
  | some sel =>
    have := install_eq_model P { s with suite := some sel } sel rfl x keylog kr cr dq (H sel hsel)
    simp only []
    rw [this]
    cases P.devQuicKeys sel s.version cr <;> rfl

end TLX.Props.Translated.QSess3
