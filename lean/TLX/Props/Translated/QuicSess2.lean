/-
The packet path of `QuicSession` (tlexport/quic/quic_session.py) as translated from the Python source
(`TLX/Gen/Translated/QuicSess2.lean`) equals the hand-written model `TLX/Quic/Session.lean`.

The translated definitions run over the MODEL's state record `Session.St σ` itself (the spec maps `self.server_cids` to
`serverCids`, `self.decryptors["Initial"]` to `decInitial` …), a frame object is the model's `Out` (`mkOut p f`), a packet
object the model's `Pkt`. Externals are instantiated with the model's functions (`checkKeyEpoch`, `setLargestPn`,
`decDecrypt`, `Frame.parseFrames`); `handle_crypto_frame` is any function that agrees with `handleCrypto` on CRYPTO frames.

`decrypt_packet` is translated in three fragments of its `try:` body (selection of the decryptor / associated data / from
`decryptor.decrypt` on); `decrypt_rest_eq_model'` ties the last one to the tail of `decryptRest`, with the position of
`set_largest_packet_number` after the AEAD check and before `parse_frames`.
-/
import TLX.Gen.Translated.QuicSess2
import TLX.Lemmas.PyRt
namespace TLX.Props.Translated.QSess
open TLX TLX.Quic TLX.Quic.Session TLX.Cipher TLX.Gen.Py PyRt

variable {σ : Type}

def errOf : PyErr → Err
  | .index => .index | .key => .key | .attr => .attr | .unbound => .unbound | .overflow => .overflow | .value => .value
  | .type => .type | .invalidTag => .value | .unsupported => .value | .other => .value

/-- a model result (state, exception) as the translated definitions give it -/
def resOf : St σ × Option PyErr → Res (St σ) Unit
  | (s, none) => .ok () s
  | (s, some e) => .raised (errOf e) s

def ofE {α : Type} : Except PyErr α → Except Err α
  | .ok a => .ok a
  | .error e => .error (errOf e)

/-- the external `handle_crypto_frame` agrees with the model's `handleCrypto` on the CRYPTO frames of packet `p` -/
def CryptoAgrees (P : Params σ) (hcf : St σ → Out → Res (St σ) Unit) : Prop :=
  ∀ (s : St σ) (p : Pkt) (l off len : Nat) (data : Bytes),
    hcf s (mkOut p (.crypto l off len data)) = resOf (handleCrypto P s p (.crypto l off len data) (cryptoIn p off len data))

theorem setAdd_eq (s : List Bytes) (x : Bytes) : PyRt.setAdd s x = Session.setAdd s x := by
  unfold PyRt.setAdd Session.setAdd; by_cases h : x ∈ s <;> simp [h]

/-- `handle_frame(frame)` for a frame `parse_frames` returned -/
theorem handle_frame_eq_model (P : Params σ) (hcf : St σ → Out → Res (St σ) Unit) (h : CryptoAgrees P hcf)
    (s : St σ) (p : Pkt) (f : Frame.Parsed) :
    QS.handle_frame hcf (mkOut p f) s = resOf (handleFrame P s p f) := by
  cases f <;>
    simp [QS.handle_frame, handleFrame, QS.isCrypto, QS.isStream, QS.isNewCid, QS.isClose, QS.isVersionNeg, QS.connectionId, mkOut,
      resOf, setAdd_eq]
  case crypto l off len data =>
    have := h s p l off len data
    simp only [mkOut] at this
    rw [this]
    cases handleCrypto P s p (.crypto l off len data) (cryptoIn p off len data) with
    | mk s' e => cases e <;> rfl
  case newConnectionId => cases p.isServer <;> simp [resOf]

/-- the pseudo frame of a Version Negotiation packet goes to the output buffer -/
theorem handle_frame_version_neg (hcf : St σ → Out → Res (St σ) Unit) (s : St σ) (ts : Nat) (srv : Bool) (pt : PType) :
    QS.handle_frame hcf ⟨.versionNeg, ts, srv, pt⟩ s
      = .ok () { s with out := s.out ++ [⟨.versionNeg, ts, srv, pt⟩] } := by
  simp [QS.handle_frame, QS.isCrypto, QS.isStream, QS.isNewCid, QS.isClose, QS.isVersionNeg]

theorem listItemE_nat {α : Type} (l : List α) (i : Nat) :
    listItemE l (Int.ofNat i) = match l[i]? with | none => .error .index | some a => .ok a := by
  unfold listItemE
  have h1 : ¬ ((Int.ofNat i) < 0) := by simp
  simp only [h1, if_false]
  rfl

/-- how the fragment reports the model's `Except PyErr (Option Dec)` -/
def selRes : St σ × Except PyErr (Option Dec) → Res (St σ) (Option Dec)
  | (s, .ok d) => .ok d s
  | (s, .error e) => .raised (errOf e) s

theorem app_decryptor (s : St σ) (srv : Bool) :
    tryE (someE Err.key s.decApp) (fun e => (.raised e s : Res (St σ) (Option Dec))) (fun gens =>
        tryE (listItemE gens (Int.ofNat (if srv then s.epochServer else s.epochClient))) (fun e => .raised e s) (fun d => .ok (some d) s))
      = selRes (s, appDecryptor s srv) := by
  unfold appDecryptor
  cases h : s.decApp with
  | none => simp [someE, selRes, errOf]
  | some gens =>
    simp only [someE, tryE_ok, listItemE_nat]
    cases gens[if srv then s.epochServer else s.epochClient]? <;> simp [selRes, errOf]

/-- the first statement of the `try:` of decrypt_packet: the key-epoch check and the decryptor for this packet -/
theorem decrypt_select_eq_model (P : Params σ) (s : St σ) (p : Pkt) :
    QS.decrypt_select (fun st ph srv => resOf (checkKeyEpoch P st ph srv)) p s = selRes (selectDecryptor P s p) := by
  unfold QS.decrypt_select selectDecryptor
  cases hh : p.htype with
  | short =>
    simp only [QS.isShort, hh, decide_true, if_true]
    by_cases hr : p.ptype = .rtt1
    · simp only [hr, decide_true, if_true]
      cases hc : checkKeyEpoch P s p.keyPhase p.isServer with
      | mk s' e =>
        cases e with
        | some e => simp [resOf, selRes]
        | none =>
          simp only [resOf, tryR_ok]
          have := app_decryptor s' p.isServer
          cases hs : p.isServer <;> simp only [hs, if_true, if_false, Bool.false_eq_true] at this ⊢ <;> exact this
    · simp only [hr, decide_false, if_false, Bool.false_eq_true]
      have := app_decryptor s p.isServer
      cases hs : p.isServer <;> simp only [hs, if_true, if_false, Bool.false_eq_true] at this ⊢ <;> exact this
  | long =>
    simp only [QS.isShort, hh, reduceCtorEq, decide_false, if_false, Bool.false_eq_true]
    cases hp : p.ptype
    case initial => cases hd : s.decInitial <;> simp [longDecryptor, selRes, someE, errOf, hd]
    case handshake => cases hd : s.decHandshake <;> simp [longDecryptor, selRes, someE, errOf, hd]
    case rtt0 => cases hd : s.decEarly <;> simp [longDecryptor, selRes, someE, errOf, hd]
    all_goals simp [longDecryptor, selRes]

/-- how the fragment reports `assocData`: no case matched = the name stays unbound (UnboundLocalError at its first read) -/
def aadRes (s : St σ) : Except PyErr Bytes → Res (St σ) (Option Bytes)
  | .ok a => .ok (some a) s
  | .error .unbound => .ok none s
  | .error e => .raised (errOf e) s

theorem cat_some (a : Bytes) (l : List (Option Bytes)) : cat (some a :: l) = (cat l).map (a ++ ·) := by
  simp only [cat, List.foldr_cons]
  cases List.foldr _ _ l <;> rfl

theorem cat_none (l : List (Option Bytes)) : cat (none :: l) = none := by
  simp only [cat, List.foldr_cons]

theorem cat_nil : cat [] = some [] := rfl

/-- the `associated_data = …` statements -/
theorem decrypt_aad_eq_model (s : St σ) (p : Pkt) : QS.decrypt_aad p s = aadRes s (assocData p) := by
  unfold QS.decrypt_aad assocData
  cases hh : p.htype with
  | short =>
    simp only [QS.isLong, hh, reduceCtorEq, decide_false, if_false, Bool.false_eq_true]
    cases p.pn <;> simp [someE, cat_some, cat_none, cat_nil, aadRes, errOf]
  | long =>
    simp only [QS.isLong, hh, decide_true, if_true]
    cases hp : p.ptype <;> simp only [reduceCtorEq, decide_true, decide_false, if_true, if_false, Bool.false_eq_true, Bool.or_false,
      Bool.or_true, Bool.or_self, aadRes]
    case initial =>
      cases p.version <;> simp only [someE, tryE_ok, tryE_error, cat_some, cat_none, Option.map, aadRes, errOf]
      cases p.dcidLen <;> simp only [someE, tryE_ok, tryE_error, cat_some, cat_none, Option.map, aadRes, errOf]
      cases p.scidLen <;> simp only [someE, tryE_ok, tryE_error, cat_some, cat_none, Option.map, aadRes, errOf]
      cases p.scid <;> simp only [someE, tryE_ok, tryE_error, cat_some, cat_none, Option.map, aadRes, errOf]
      cases p.tokenLenBytes <;> simp only [someE, tryE_ok, tryE_error, cat_some, cat_none, Option.map, aadRes, errOf]
      cases p.token <;> simp only [someE, tryE_ok, tryE_error, cat_some, cat_none, Option.map, aadRes, errOf]
      cases p.lenBytes <;> simp only [someE, tryE_ok, tryE_error, cat_some, cat_none, Option.map, aadRes, errOf]
      cases p.pn <;> simp [someE, cat_some, cat_none, cat_nil, aadRes, errOf]
    case handshake =>
      cases p.version <;> simp only [someE, tryE_ok, tryE_error, cat_some, cat_none, Option.map, aadRes, errOf]
      cases p.dcidLen <;> simp only [someE, tryE_ok, tryE_error, cat_some, cat_none, Option.map, aadRes, errOf]
      cases p.scidLen <;> simp only [someE, tryE_ok, tryE_error, cat_some, cat_none, Option.map, aadRes, errOf]
      cases p.scid <;> simp only [someE, tryE_ok, tryE_error, cat_some, cat_none, Option.map, aadRes, errOf]
      cases p.lenBytes <;> simp only [someE, tryE_ok, tryE_error, cat_some, cat_none, Option.map, aadRes, errOf]
      cases p.pn <;> simp [someE, cat_some, cat_none, cat_nil, aadRes, errOf]
    case rtt0 =>
      cases p.version <;> simp only [someE, tryE_ok, tryE_error, cat_some, cat_none, Option.map, aadRes, errOf]
      cases p.dcidLen <;> simp only [someE, tryE_ok, tryE_error, cat_some, cat_none, Option.map, aadRes, errOf]
      cases p.scidLen <;> simp only [someE, tryE_ok, tryE_error, cat_some, cat_none, Option.map, aadRes, errOf]
      cases p.scid <;> simp only [someE, tryE_ok, tryE_error, cat_some, cat_none, Option.map, aadRes, errOf]
      cases p.lenBytes <;> simp only [someE, tryE_ok, tryE_error, cat_some, cat_none, Option.map, aadRes, errOf]
      cases p.pn <;> simp [someE, cat_some, cat_none, cat_nil, aadRes, errOf]

/-- `parse_frames(payload, quic_packet)` as the model has it: the frames, each with its source packet; IndexError otherwise -/
def parseOf (pt : Bytes) (p : Pkt) : Except Err (List Out) :=
  match Frame.parseFrames pt with
  | none => .error .index
  | some fs => .ok (fs.map (mkOut p))

/-- `for frame in frames: self.handle_frame(frame)` -/
theorem frames_loop (P : Params σ) (hcf : St σ → Out → Res (St σ) Unit) (h : CryptoAgrees P hcf) (p : Pkt) (s0 : St σ) :
    ∀ (fs : List Frame.Parsed) (s : St σ),
      loopS (forS (fs.map (mkOut p)) s (fun py_s frame =>
                tryR (QS.handle_frame hcf frame py_s)
                  (fun e st' => (.ok (.ret (.raised e st')) : Except Err (Step (St σ) (Res (St σ) Unit)))) (fun _ st' => .ok (.next st'))))
              (fun e => .raised e s0) (fun r => r) (fun py_s => .ok () py_s)
        = resOf (handleFrames P s p fs) := by
  intro fs
  induction fs with
  | nil => intro s; rfl
  | cons f rest ih =>
    intro s
    simp only [List.map_cons, forS, handleFrames, handle_frame_eq_model P hcf h]
    cases handleFrame P s p f with
    | mk s1 e =>
      cases e with
      | none => simp only [resOf, tryR_ok]; exact ih s1
      | some e => simp only [resOf, tryR_raised, loopS_ret]

/-- what follows the associated data in the `try:` of decrypt_packet: AEAD check, THEN the largest packet number of the
    space, then parse_frames and the frames in order -/
def restModel (P : Params σ) (s : St σ) (p : Pkt) (d : Dec) (pn aad : Bytes) : St σ × Option PyErr :=
  match decDecrypt P d p.payload pn aad p.isServer with
  | .error e => (s, some e)
  | .ok pt =>
    match Frame.parseFrames pt with
    | none => (setLargestPn s p pn, some .index)
    | some fs => handleFrames P (setLargestPn s p pn) p fs

theorem decrypt_rest_eq_model (P : Params σ) (hcf : St σ → Out → Res (St σ) Unit) (h : CryptoAgrees P hcf)
    (s : St σ) (p : Pkt) (d : Dec) (pn aad : Bytes) :
    QS.decrypt_rest hcf (fun st q b => .ok () (setLargestPn st q b)) (fun d pl pn aad srv => ofE (decDecrypt P d pl pn aad srv))
        parseOf p d pn aad s
      = resOf (restModel P s p d pn aad) := by
  unfold QS.decrypt_rest restModel
  dsimp only
  cases decDecrypt P d p.payload pn aad p.isServer with
  | error e => simp [ofE, resOf]
  | ok pt =>
    simp only [ofE, tryE_ok, tryR_ok, parseOf]
    cases Frame.parseFrames pt with
    | none => simp [resOf, errOf]
    | some fs =>
      simp only [tryE_ok]
      exact frames_loop P hcf h p _ fs _

/-- the same against `decryptRest`, once the packet number and the associated data are there -/
theorem decrypt_rest_eq_model' (P : Params σ) (hcf : St σ → Out → Res (St σ) Unit) (h : CryptoAgrees P hcf)
    (s : St σ) (p : Pkt) (d : Dec) (pn aad : Bytes) (hpn : getFullPn s p = .ok pn) (haad : assocData p = .ok aad) :
    QS.decrypt_rest hcf (fun st q b => .ok () (setLargestPn st q b)) (fun d pl pn aad srv => ofE (decDecrypt P d pl pn aad srv))
        parseOf p d pn aad s
      = resOf (decryptRest P s p (some d)) := by
  rw [decrypt_rest_eq_model P hcf h]
  simp only [decryptRest, hpn, haad, restModel]
  cases decDecrypt P d p.payload pn aad p.isServer with
  | error e => rfl
  | ok pt => cases Frame.parseFrames pt <;> rfl

/-! ### the whole of `decrypt_packet` -/

theorem errOf_ne_fuel (e : PyErr) : decide (errOf e ≠ Err.fuel) = true := by cases e <;> rfl

/-- `get_full_packet_number` as an external over the state record (it reads the table and leaves the state alone) -/
def gfpnOf (s : St σ) (p : Pkt) : Res (St σ) Bytes :=
  match getFullPn s p with
  | .ok b => .ok b s
  | .error e => .raised (errOf e) s

def selRes2 (p : Pkt) : St σ × Except PyErr (Option Dec) → Res (St σ) (Pkt × Option Dec)
  | (s, .ok d) => .ok (p, d) s
  | (s, .error e) => .raised (errOf e) s

theorem app_decryptor2 (p : Pkt) (s : St σ) (srv : Bool) :
    tryE (someE Err.key s.decApp) (fun e => (.raised e s : Res (St σ) (Pkt × Option Dec))) (fun gens =>
        tryE (listItemE gens (Int.ofNat (if srv then s.epochServer else s.epochClient))) (fun e => .raised e s) (fun d => .ok (p, some d) s))
      = selRes2 p (s, appDecryptor s srv) := by
  unfold appDecryptor
  cases h : s.decApp with
  | none => simp [someE, selRes2, errOf]
  | some gens =>
    simp only [someE, tryE_ok, listItemE_nat]
    cases gens[if srv then s.epochServer else s.epochClient]? <;> simp [selRes2, errOf]

theorem join_select (P : Params σ) (s : St σ) (p : Pkt) :
    QS.decrypt_packet.join3 (fun st ph srv => resOf (checkKeyEpoch P st ph srv)) p s = selRes2 p (selectDecryptor P s p) := by
  unfold QS.decrypt_packet.join3 QS.decrypt_packet.join2 selectDecryptor
  cases hh : p.htype with
  | short =>
    simp only [QS.isShort, hh, decide_true, if_true]
    by_cases hr : p.ptype = .rtt1
    · simp only [hr, decide_true, if_true]
      cases hc : checkKeyEpoch P s p.keyPhase p.isServer with
      | mk s' e =>
        cases e with
        | some e => simp [resOf, selRes2]
        | none =>
          simp only [resOf, tryR_ok]
          have := app_decryptor2 p s' p.isServer
          cases hs : p.isServer <;> simp only [hs, if_true, if_false, Bool.false_eq_true] at this ⊢ <;> exact this
    · simp only [hr, decide_false, if_false, Bool.false_eq_true, tryR_ok]
      have := app_decryptor2 p s p.isServer
      cases hs : p.isServer <;> simp only [hs, if_true, if_false, Bool.false_eq_true] at this ⊢ <;> exact this
  | long =>
    simp only [QS.isShort, hh, reduceCtorEq, decide_false, if_false, Bool.false_eq_true]
    cases hp : p.ptype
    case initial => cases hd : s.decInitial <;> simp [longDecryptor, selRes2, someE, errOf, hd]
    case handshake => cases hd : s.decHandshake <;> simp [longDecryptor, selRes2, someE, errOf, hd]
    case rtt0 => cases hd : s.decEarly <;> simp [longDecryptor, selRes2, someE, errOf, hd]
    all_goals simp [longDecryptor, selRes2]

theorem join_aad (s : St σ) (p : Pkt) : QS.decrypt_packet.join4 p s = aadRes s (assocData p) :=
  (rfl : QS.decrypt_packet.join4 p s = QS.decrypt_aad p s).trans (decrypt_aad_eq_model s p)

/-- the frame loop inside the try/except: an exception of `handle_frame` ends the method, the state stays as it is then -/
theorem frames_loop_caught (P : Params σ) (hcf : St σ → Out → Res (St σ) Unit) (h : CryptoAgrees P hcf) (p : Pkt) (s0 : St σ) :
    ∀ (fs : List Frame.Parsed) (s : St σ),
      loopS (forS (fs.map (mkOut p)) s (fun py_s frame =>
                tryR (QS.handle_frame hcf frame py_s)
                  (fun e st' => (.ok (.ret (if decide (e ≠ Err.fuel) then .ok () st' else .raised e st')) :
                      Except Err (Step (St σ) (Res (St σ) Unit)))) (fun _ st' => .ok (.next st'))))
              (fun e => if decide (e ≠ Err.fuel) then .ok () s0 else .raised e s0) (fun r => r) (fun py_s => .ok () py_s)
        = .ok () (handleFrames P s p fs).1 := by
  intro fs
  induction fs with
  | nil => intro s; rfl
  | cons f rest ih =>
    intro s
    simp only [List.map_cons, forS, handleFrames, handle_frame_eq_model P hcf h]
    cases handleFrame P s p f with
    | mk s1 e =>
      cases e with
      | none => simp only [resOf, tryR_ok]; exact ih s1
      | some e => simp only [resOf, tryR_raised, loopS_ret, errOf_ne_fuel, if_true]

/-- `decrypt_packet(quic_packet)`: the state afterwards is the model's (every exception is swallowed by the try/except) -/
theorem decrypt_packet_eq_model (P : Params σ) (hcf : St σ → Out → Res (St σ) Unit) (h : CryptoAgrees P hcf) (s : St σ) (p : Pkt) :
    QS.decrypt_packet hcf (fun st ph srv => resOf (checkKeyEpoch P st ph srv)) gfpnOf (fun st q b => .ok () (setLargestPn st q b))
        (fun d pl pn aad srv => ofE (decDecrypt P d pl pn aad srv)) parseOf p s
      = .ok () (decryptPacket P s p).1 := by
  unfold QS.decrypt_packet decryptPacket
  rw [join_select]
  cases hsel : selectDecryptor P s p with
  | mk s1 r =>
    cases r with
    | error e => simp only [selRes2, tryR_raised, errOf_ne_fuel, if_true]
    | ok d? =>
      simp only [selRes2, tryR_ok, gfpnOf, decryptRest]
      cases hpn : getFullPn s1 p with
      | error e => simp only [tryR_raised, errOf_ne_fuel, if_true]
      | ok pn =>
        simp only [tryR_ok, join_aad]
        cases haad : assocData p with
        | error e =>
          cases e <;> simp only [aadRes, tryR_raised, tryR_ok, errOf_ne_fuel, if_true] <;>
            cases d? <;> simp [unboundE]
        | ok aad =>
          simp only [aadRes, tryR_ok]
          cases d? with
          | none => simp [unboundE]
          | some d =>
            simp only [unboundE, tryE_ok]
            cases decDecrypt P d p.payload pn aad p.isServer with
            | error e => simp only [ofE, tryE_error, errOf_ne_fuel, if_true]
            | ok pt =>
              simp only [ofE, tryE_ok, tryR_ok, parseOf]
              cases Frame.parseFrames pt with
              | none => simp
              | some fs =>
                simp only [tryE_ok]
                exact frames_loop_caught P hcf h p _ fs _

/-! ### `handle_quic_packet` -/

/-- one round of the loop as the translated body reports it: an escaping exception ends the method with the state as it is -/
def stepRes (r : StepRes σ) : Except Err (Step (St σ) (Res (St σ) Unit)) :=
  match r.escaped with
  | some e => .ok (.ret (.raised (errOf e) r.st))
  | none => .ok (.next r.st)

/-- the model's run over the dissected packets: final state, and the exception that left the method, if any -/
def runRes (P : Params σ) (s : St σ) (pkts : List Pkt) : Res (St σ) Unit :=
  match escapes P s pkts with
  | none => .ok () (runPkts P s pkts)
  | some e => .raised (errOf e) (runPkts P s pkts)

theorem pkts_loop (P : Params σ) (body : St σ → Pkt → Except Err (Step (St σ) (Res (St σ) Unit)))
    (hb : ∀ s p, body s p = stepRes (stepPkt P s p)) (s0 : St σ) :
    ∀ (pkts : List Pkt) (s : St σ),
      loopS (forS pkts s body) (fun e => .raised e s0) (fun r => r) (fun s => .ok () s) = runRes P s pkts := by
  intro pkts
  induction pkts with
  | nil => intro s; rfl
  | cons p rest ih =>
    intro s
    simp only [forS, hb, stepRes, runRes, escapes, runPkts]
    cases h : (stepPkt P s p).escaped with
    | some e => simp only [loopS_ret]
    | none =>
      simp only []
      have := ih (stepPkt P s p).st
      simp only [runRes] at this
      exact this

theorem setAddO_eq (s : List Bytes) (x : Option Bytes) : PyRt.setAddO s x = Session.optAdd s x := by
  cases x <;> simp [PyRt.setAddO, Session.optAdd, setAdd_eq]

/-- `handle_quic_packet()`: decrypt_packet for everything but Retry / Version Negotiation, the pseudo frame, the reset after a
    Retry, both CIDs of an Initial — packet by packet as the model's `stepPkt`; the run ends at an escaping exception -/
theorem handle_quic_packet_eq_model (P : Params σ) (hcf : St σ → Out → Res (St σ) Unit) (h : CryptoAgrees P hcf)
    (s : St σ) (pkts : List Pkt) :
    QS.handle_quic_packet hcf (fun st ph srv => resOf (checkKeyEpoch P st ph srv)) gfpnOf (fun st q b => .ok () (setLargestPn st q b))
        (fun d pl pn aad srv => ofE (decDecrypt P d pl pn aad srv)) parseOf P.tlsInit pkts s
      = runRes P s pkts := by
  unfold QS.handle_quic_packet
  refine pkts_loop P _ ?_ s pkts s
  intro s p
  have hh : p.htype = .long ∨ p.htype = .short := by cases p.htype <;> simp
  have hs : p.isServer = true ∨ p.isServer = false := by cases p.isServer <;> simp
  simp only [decrypt_packet_eq_model P hcf h, tryR_ok, stepPkt, afterDecrypt, stepRes, QS.vnFrame,
    QS.supportedVersion, QS.isLong, guardE, setAddO_eq, setAdd_eq, retryReset, learnCids]
  generalize (decryptPacket P s p).1 = s1
  rcases hh with hh | hh <;> rcases hs with hs | hs <;> cases hp : p.ptype <;>
    simp [hp, hh, hs, handle_frame_version_neg, errOf]

/-! ### `handle_crypto_frame`, `handle_packet` up to its loop -/

/-- `QuicTlsSession.update_session(frame)` as the model's parameter `tlsUpdate` -/
def tlsUpdOf (P : Params σ) (t : σ) (o : Out) : Res σ Unit :=
  match o.frame with
  | .parsed (.crypto _ off len data) =>
    match P.tlsUpdate t ⟨o.isServer, o.ptype, off, len, data⟩ with
    | (t', none) => .ok () t'
    | (t', some e) => .raised (errOf e) t'
  | _ => .ok () t

/-- `set_tls_decryptors(client_random, ciphersuite)`; called with both present only -/
def stdOf (P : Params σ) (s : St σ) : Option Bytes → Option Bytes → Res (St σ) Unit
  | some cr, some cs => resOf (setTlsDecryptors P s cr cs)
  | _, _ => .ok () s

theorem handle_crypto_frame_eq_model (P : Params σ) (s : St σ) (p : Pkt) (l off len : Nat) (data : Bytes) :
    QS.handle_crypto_frame (tlsUpdOf P) P.tlsNewData P.tlsClientRandom P.tlsCiphersuite P.tlsClearNewData (stdOf P)
        (mkOut p (.crypto l off len data)) s
      = resOf (handleCrypto P s p (.crypto l off len data) (cryptoIn p off len data)) := by
  unfold QS.handle_crypto_frame handleCrypto
  simp only [tlsUpdOf, mkOut, cryptoIn]
  cases P.tlsUpdate s.tls ⟨p.isServer, p.ptype, off, len, data⟩ with
  | mk t e =>
    cases e with
    | some e => simp [resOf]
    | none =>
      simp only [tryR_ok, afterTls]
      by_cases hn : P.tlsNewData t
      · simp only [hn, if_true]
        cases hcr : P.tlsClientRandom t with
        | none => simp [resOf]
        | some cr =>
          cases hcs : P.tlsCiphersuite t with
          | none => simp [resOf]
          | some cs =>
            simp only [Option.isNone_some, Bool.not_false, Bool.and_self, if_true, stdOf]
            cases setTlsDecryptors P { s with tls := t } cr cs with
            | mk s2 e2 => cases e2 <;> simp [resOf]
      · simp [hn, resOf]

/-- the translated `handle_crypto_frame` is a `handle_crypto_frame` the theorems above can be used with -/
theorem crypto_agrees (P : Params σ) :
    CryptoAgrees P (fun s o => QS.handle_crypto_frame (tlsUpdOf P) P.tlsNewData P.tlsClientRandom P.tlsCiphersuite P.tlsClearNewData
      (stdOf P) o s) :=
  fun s p l off len data => handle_crypto_frame_eq_model P s p l off len data

/-- `handle_packet` before its loop: the version latch, the Initial decryptor when there is none yet, the direction
    (`packet` is read by `packet_isserver` only: "does it come from the client's address"; the model's
    `setInitialDecryptor` is `set_initial_decryptor(dcid, False)`) -/
theorem handle_packet_pre_eq_model (P : Params σ) (s : St σ) (fromClient : Bool) (dcid : Bytes) (v : Version) :
    QS.handle_packet_pre (fun st d chacha => .ok () (if chacha then st else setInitialDecryptor P st d)) (fun st (fc : Bool) d => .ok (packetIsServer st fc d) st)
        fromClient dcid v s
      = .ok (packetIsServer (handlePacketPre P s dcid v) fromClient dcid) (handlePacketPre P s dcid v) := by
  unfold QS.handle_packet_pre handlePacketPre latchVersion
  by_cases hv : s.version = .unknown
  · simp only [hv, decide_true, if_true]
    cases hd : s.decInitial <;> simp [hd]
  · simp only [hv, decide_false, if_false, Bool.false_eq_true]
    cases hd : s.decInitial <;> simp [hd]

/-! ### `set_initial_decryptor` -/

def k_sik : List Nat := [115, 101, 114, 118, 101, 114, 95, 105, 110, 105, 116, 105, 97, 108, 95, 107, 101, 121]   -- server_initial_key
def k_siv : List Nat := [115, 101, 114, 118, 101, 114, 95, 105, 110, 105, 116, 105, 97, 108, 95, 105, 118]        -- server_initial_iv
def k_cik : List Nat := [99, 108, 105, 101, 110, 116, 95, 105, 110, 105, 116, 105, 97, 108, 95, 107, 101, 121]    -- client_initial_key
def k_civ : List Nat := [99, 108, 105, 101, 110, 116, 95, 105, 110, 105, 116, 105, 97, 108, 95, 105, 118]         -- client_initial_iv

/-- the dict `dev_initial_keys` returns, as far as `set_initial_decryptor` reads it -/
def initDict (k : DirKeys × DirKeys) : List (List Nat × Bytes) :=
  [(k_sik, k.1.key), (k_siv, k.1.iv), (k_cik, k.2.key), (k_civ, k.2.iv)]

/-- `QuicDecryptor([server key, server iv, client key, client iv], cipher, early=False)` -/
def mkDec (ks : List Bytes) (alg : Alg) (early : Bool) : Except Err Dec :=
  match ks, early with
  | [a, b, c, d], false => .ok { alg := alg, server := some ⟨a, b⟩, client := ⟨c, d⟩ }
  | _, _ => .error .index

/-- `set_initial_decryptor(dcid, False)`: no keys → `can_decrypt = False`; else the Initial decryptor (AES-GCM) from the four
    entries, `self.keys` extended -/
theorem set_initial_decryptor_eq_model (P : Params σ) (s : St σ) (dcid : Bytes) :
    QS.set_initial_decryptor (fun d v _ => (P.devInitialKeys v d).map initDict) mkDec dcid false s
      = .ok () (setInitialDecryptor P s dcid) := by
  unfold QS.set_initial_decryptor setInitialDecryptor
  dsimp only
  cases P.devInitialKeys s.version dcid with
  | none => rfl
  | some k =>
    obtain ⟨srv, cli⟩ := k
    simp only [Option.map_some]
    have g1 : tableGetE (initDict (srv, cli)) k_sik = .ok srv.key := by
      simp [tableGetE, tableGet, initDict, k_sik, k_siv, k_cik, k_civ, List.find?]
    have g2 : tableGetE (initDict (srv, cli)) k_siv = .ok srv.iv := by
      simp [tableGetE, tableGet, initDict, k_sik, k_siv, k_cik, k_civ, List.find?]
    have g3 : tableGetE (initDict (srv, cli)) k_cik = .ok cli.key := by
      simp [tableGetE, tableGet, initDict, k_sik, k_siv, k_cik, k_civ, List.find?]
    have g4 : tableGetE (initDict (srv, cli)) k_civ = .ok cli.iv := by
      simp [tableGetE, tableGet, initDict, k_sik, k_siv, k_cik, k_civ, List.find?]
    show tryE (tableGetE (initDict (srv, cli)) k_sik) _ _ = _
    rw [g1]; simp only [tryE_ok]
    show tryE (tableGetE (initDict (srv, cli)) k_siv) _ _ = _
    rw [g2]; simp only [tryE_ok]
    show tryE (tableGetE (initDict (srv, cli)) k_cik) _ _ = _
    rw [g3]; simp only [tryE_ok]
    show tryE (tableGetE (initDict (srv, cli)) k_civ) _ _ = _
    rw [g4]; simp only [tryE_ok]
    rfl

end TLX.Props.Translated.QSess
