/-
What the Demux group leaves of main.py, as translated from the Python source (`TLX/Gen/Translated/Main2.lean`), equals the
hand-written model `TLX/MainLoop.lean`: the TCP session lookup / creation of `handle_packet` (`tlsHandle`), the key-log statements
of `run()` (the `-s` file: `body`; a decryption secrets block: `step` on `Item.dsb`), the collection of the exported frames
(`exportAll`: every TLS session in list order, then every QUIC session — nothing is ever inserted before what is there).
Sessions are the model's `Sess` objects; their methods are the machines' functions.
-/
import TLX.Gen.Translated.Main2
import TLX.Lemmas.PyRt
namespace TLX.Props.Translated.Main2
open TLX TLX.MainLoop TLX.Gen.Py PyRt

variable {κ σ τ ο : Type}

theorem foldl_extend {α β : Type} (f : α → List β) : ∀ (l : List α) (acc : List β),
    List.foldl (fun acc x => acc ++ f x) acc l = acc ++ l.flatMap f := by
  intro l
  induction l with
  | nil => intro acc; simp
  | cons x rest ih => intro acc; simp [List.foldl_cons, ih, List.flatMap_cons, List.append_assoc]

/-- `all_decrypted_sessions`: `session.decrypt()` of every TLS session in list order, then `build_output(metadata)` of every
    QUIC session — the model's `exportAll` -/
theorem collect_eq_model (TM : TlsMachine κ σ ο) (QM : QuicMachine κ τ ο) (o : Opts) (st : State κ σ τ) :
    (Main.collect (fun (s : TlsSess σ) => TM.out s.st st.keylog) (fun (s : QuicSess τ) m => QM.out m s.st) st.tls st.quic
        o.metadata).all_decrypted_sessions
      = exportAll TM QM o st := by
  unfold Main.collect exportAll
  simp only [foldl_extend, List.nil_append]

/-- a decryption secrets block (`ts == -1`) extends the key log by its keys and the loop goes on with the next item -/
theorem run_dsb_eq_model (keys_of : Bytes → List κ) (ts : Int) (buf : Bytes) (kl : List κ) :
    Main.run_dsb keys_of ts buf kl = if ts = -1 then (.cont, ⟨kl ++ keys_of buf⟩) else (.fall, ⟨kl⟩) := by
  unfold Main.run_dsb
  by_cases h : ts = -1 <;> simp [h]

/-- the same as the model's `step` on a `dsb` item -/
theorem run_dsb_step (TM : TlsMachine κ σ ο) (QM : QuicMachine κ τ ο) (o : Opts) (st : State κ σ τ) (ks : List κ) (buf : Bytes) :
    (Main.run_dsb (fun _ => ks) (-1) buf st.keylog).2.keylog = (step TM QM o st (.dsb ks)).keylog := by
  simp [run_dsb_eq_model, step, classify]

/-- `if args.sslkeylog is not None: keylog.extend(read_keylog_from_file(args.sslkeylog))`: `body`'s
    `keylog ++ inp.fileKeys.getD []` -/
theorem run_keylog_file_eq_model {ρ : Type} (fk : List κ) (kl : List κ) (ssl : Option ρ) :
    (Main.run_keylog_file (fun _ => fk) kl ssl).keylog = kl ++ (ssl.map fun _ => fk).getD [] := by
  unfold Main.run_keylog_file
  cases ssl <;> simp

theorem lookup_loop (M : TlsMachine κ σ ο) (o : Opts) (p : Pkt) : ∀ (ss : List (TlsSess σ)),
    (if (forObjs ss (fun s => if s.matches p then ({ s with st := M.feed s.st p }, true) else (s, false))).2 then
        (forObjs ss (fun s => if s.matches p then ({ s with st := M.feed s.st p }, true) else (s, false))).1
      else if candidate o p then
        (forObjs ss (fun s => if s.matches p then ({ s with st := M.feed s.st p }, true) else (s, false))).1 ++ [tlsNew M o p]
      else (forObjs ss (fun s => if s.matches p then ({ s with st := M.feed s.st p }, true) else (s, false))).1)
      = tlsHandle M o ss p := by
  intro ss
  induction ss with
  | nil => simp [forObjs, tlsHandle]
  | cons s rest ih =>
    by_cases hm : s.matches p
    · simp [forObjs, tlsHandle, hm]
    · simp only [forObjs, tlsHandle, hm, if_false, Bool.false_eq_true]
      rw [← ih]
      split
      · rfl
      · split <;> simp

/-- `handle_packet(packet, …)`: the first session in list order that matches gets the packet (and the loop ends there); with
    none, a new session is appended iff one of the ports is a server port -/
theorem handle_packet_eq_model (M : TlsMachine κ σ ο) (o : Opts) (ss : List (TlsSess σ)) (p : Pkt) :
    (Main.handle_packet (fun (s : TlsSess σ) q => s.matches q) (fun s q => { s with st := M.feed s.st q }) (fun q => tlsNew M o q)
        p ss o.ports (p.dst.port : Int) (p.src.port : Int)).sessions
      = tlsHandle M o ss p := by
  unfold Main.handle_packet
  rw [← lookup_loop M o p ss]
  simp only [candidate, List.contains_eq_mem, Bool.or_comm]
  split
  · rfl
  · split <;> simp_all

/-! ### the session loop of `handle_quic_packet` -/

/-- `header_type` of a parsed header that is not `tooShort` -/
def htOf : Hdr → TLX.Quic.HType
  | .long _ _ => .long
  | _ => .short

/-- the loop `for cid in sorted(candidates, …): if len(cid) > 0 and cid == packet_payload[1:1 + len(cid)]: …; return` -/
theorem cid_loop {α : Type} (payload : Bytes) (hit : Bytes → α) (miss : α) (e0 : Err → α) : ∀ (l : List Bytes),
    loopS (forS l () (fun (_ : Unit) (cid : Bytes) =>
        if (decide (cid.length > 0) && decide (cid = Bytes.slice payload 1 (1 + cid.length))) then
          (.ok (.ret (hit cid)) : Except Err (Step Unit α))
        else .ok (.next ()))) e0 (fun r => r) (fun _ => miss)
      = match l.find? (cidPrefixOf payload) with
        | some c => hit c
        | none => miss := by
  intro l
  induction l with
  | nil => rfl
  | cons c rest ih =>
    have hq : (c == Bytes.slice payload 1 (1 + c.length)) = decide (c = Bytes.slice payload 1 (1 + c.length)) := by
      by_cases hq : c = Bytes.slice payload 1 (1 + c.length)
      · rw [decide_eq_true hq]; exact beq_iff_eq.mpr hq
      · rw [decide_eq_false hq]; exact beq_eq_false_iff_ne.mpr hq
    have hc : cidPrefixOf payload c = (decide (c.length > 0) && decide (c = Bytes.slice payload 1 (1 + c.length))) := by
      unfold cidPrefixOf; rw [hq]
    simp only [forS, List.find?_cons, hc]
    cases hb : (decide (c.length > 0) && decide (c = Bytes.slice payload 1 (1 + c.length)))
    · simp only [Bool.false_eq_true, if_false]; exact ih
    · simp only [if_true, loopS_ret]

/-- the list after the loop and whether a session took the datagram -/
def loopRes {α : Type} (take : α → Option Bytes) (fd : α → Bytes → α) : List α → List α × Bool
  | [] => ([], false)
  | s :: r =>
    match take s with
    | some c => (fd s c :: r, true)
    | none => (s :: (loopRes take fd r).1, (loopRes take fd r).2)

theorem objs_loop {α : Type} (take : α → Option Bytes) (fd : α → Bytes → α) (body : α → α × Except Err Bool)
    (hb : ∀ s, body s = match take s with | some c => (fd s c, .ok true) | none => (s, .ok false)) : ∀ (ss : List α),
    forObjsE ss body = ((loopRes take fd ss).1, .ok (loopRes take fd ss).2) := by
  intro ss
  induction ss with
  | nil => rfl
  | cons s r ih =>
    simp only [forObjsE, loopRes, hb]
    cases take s with
    | some c => rfl
    | none => simp only [ih]

theorem quicLoop_loopRes (M : QuicMachine κ τ ο) (o : Opts) (kl : List κ) (h : Hdr) (p : Pkt) : ∀ (ss : List (QuicSess τ)),
    quicLoop M o kl h ss p
      = if (loopRes (quicTake M h p) (fun s c => { s with st := M.feed s.st kl p c h.ver }) ss).2 then
          (loopRes (quicTake M h p) (fun s c => { s with st := M.feed s.st kl p c h.ver }) ss).1
        else if h = .short then (loopRes (quicTake M h p) (fun s c => { s with st := M.feed s.st kl p c h.ver }) ss).1
        else (loopRes (quicTake M h p) (fun s c => { s with st := M.feed s.st kl p c h.ver }) ss).1 ++ [quicNew M o kl h p] := by
  intro ss
  induction ss with
  | nil => simp [quicLoop, loopRes]
  | cons s r ih =>
    rcases ht : quicTake M h p s with _ | c
    · simp only [quicLoop, loopRes, ht, ih]
      split
      · rfl
      · split <;> simp
    · simp [quicLoop, loopRes, ht]

theorem setLast_append {α : Type} (l : List α) (x y : α) : PyRt.setLast (l ++ [x]) y = l ++ [y] := by
  simp [PyRt.setLast]

/-- `for session in quic_sessions: …` and the creation rule: the model's `quicLoop` (`sorted(…, key=(-len, bytes))` is
    `sortCids`; a session object is the model's `Sess`, `handle_packet` its machine's `feed` with the key log as it is now) -/
theorem quic_loop_eq_model (M : QuicMachine κ τ ο) (o : Opts) (kl : List κ) (h : Hdr) (hh : h ≠ .tooShort)
    (ss : List (QuicSess τ)) (p : Pkt) :
    ∃ ex, Main.quic_loop (fun (s : QuicSess τ) => M.clientCids s.st) (fun s => M.serverCids s.st) (fun s => s.matches p)
        (fun s => p.src == s.client) sortCids (fun s q d v => { s with st := M.feed s.st kl q d v })
        (fun q => ⟨(rolesOf o.ports q).1, (rolesOf o.ports q).2, M.new o q⟩) p (htOf h) h.dcid h.ver p.payload ss
      = .ok ex ⟨quicLoop M o kl h ss p⟩ := by
  unfold Main.quic_loop
  rw [quicLoop_loopRes]
  rw [objs_loop (quicTake M h p) (fun s c => { s with st := M.feed s.st kl p c h.ver })]
  · simp only [tryE_ok]
    cases (loopRes (quicTake M h p) (fun s c => { s with st := M.feed s.st kl p c h.ver }) ss).2
    · cases h with
      | tooShort => exact absurd rfl hh
      | long d v => exact ⟨.fall, by simp [htOf, setLast_append, quicNew, Hdr.dcid, Hdr.ver]⟩
      | short => exact ⟨.fall, by simp [htOf]⟩
    · exact ⟨.ret, by simp⟩
  · intro s
    cases h with
    | tooShort => exact absurd rfl hh
    | long d v =>
      simp only [htOf, decide_true, if_true, quicTake, cidMatch, Hdr.dcid, Hdr.ver]
      by_cases ha : 0 < d.length <;> by_cases hb : d ∈ M.clientCids s.st <;> by_cases hc : d ∈ M.serverCids s.st <;>
        by_cases hm : s.matches p = true <;> simp [ha, hb, hc, hm]
    | short =>
      simp only [htOf, reduceCtorEq, decide_false, if_false, Bool.false_eq_true, quicTake, cidMatch, shortPick, Hdr.dcid, Hdr.ver]
      have hc : (if s.matches p = true then (if (p.src == s.client) = true then M.serverCids s.st else M.clientCids s.st)
            else M.clientCids s.st ++ M.serverCids s.st) = shortCandidates (M.clientCids s.st) (M.serverCids s.st) (s.side p) := by
        unfold Sess.side shortCandidates
        cases s.matches p <;> cases (p.src == s.client) <;> rfl
      rw [hc]
      rw [cid_loop]
      cases (sortCids (shortCandidates (M.clientCids s.st) (M.serverCids s.st) (s.side p))).find? (cidPrefixOf p.payload) with
      | some c => rfl
      | none =>
        by_cases hm : s.matches p = true
        · simp [hm]
        · simp [hm]

/-- the write loop of `run()`: one `writer.writepkt(bytes(buf), ts)` per collected frame, in the collected order (nothing is
    reordered or dropped between `all_decrypted_sessions` and the output file) -/
theorem write_all_eq_model {β θ : Type} (l : List (β × θ)) : (Main.write_all l).acts = l := by
  unfold Main.write_all
  have h : ∀ (l acc : List (β × θ)), List.foldl (fun acc (x : β × θ) => acc ++ [(x.1, x.2)]) acc l = acc ++ l := by
    intro l
    induction l with
    | nil => intro acc; simp
    | cons x r ih => intro acc; simp [List.foldl_cons, ih]
  exact (h l []).trans (by simp)

end TLX.Props.Translated.Main2
