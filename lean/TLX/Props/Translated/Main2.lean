/-
What the Demux group leaves of main.py, as translated from the Python source (`TLX/Gen/Translated/Main2.lean`), equals the
hand-written model `TLX/MainLoop.lean`: the TCP session lookup / creation of `handle_packet` (`tlsHandle`), the key-log statements
of `run()` (the `-s` file: `body`; a decryption secrets block: `step` on `Item.dsb`), the collection of the exported frames
(`exportAll`: every TLS session in list order, then every QUIC session — nothing is ever inserted before what is there).
Sessions are the model's `Sess` objects; their methods are the machines' functions.
-/
import TLX.Gen.Translated.Main2
import TLX.Lemmas.PyRt
namespace TLX.Props.Translated.Main2
open TLX TLX.MainLoop TLX.Gen.Py PyRt

variable {κ σ τ ο : Type}

theorem foldl_extend {α β : Type} (f : α → List β) : ∀ (l : List α) (acc : List β),
    List.foldl (fun acc x => acc ++ f x) acc l = acc ++ l.flatMap f := by
  intro l
  induction l with
  | nil => intro acc; simp
  | cons x rest ih => intro acc; simp [List.foldl_cons, ih, List.flatMap_cons, List.append_assoc]

/-- `all_decrypted_sessions`: `session.decrypt()` of every TLS session in list order, then `build_output(metadata)` of every
    QUIC session — the model's `exportAll` -/
theorem collect_eq_model (TM : TlsMachine κ σ ο) (QM : QuicMachine κ τ ο) (o : Opts) (st : State κ σ τ) :
    (Main.collect (fun (s : TlsSess σ) => TM.out s.st st.keylog) (fun (s : QuicSess τ) m => QM.out m s.st) st.tls st.quic
        o.metadata).all_decrypted_sessions
      = exportAll TM QM o st := by
  unfold Main.collect exportAll
  simp only [foldl_extend, List.nil_append]

/-- a decryption secrets block (`ts == -1`) extends the key log by its keys and the loop goes on with the next item -/
theorem run_dsb_eq_model (keys_of : Bytes → List κ) (ts : Int) (buf : Bytes) (kl : List κ) :
    Main.run_dsb keys_of ts buf kl = if ts = -1 then (.cont, ⟨kl ++ keys_of buf⟩) else (.fall, ⟨kl⟩) := by
  unfold Main.run_dsb
  by_cases h : ts = -1 <;> simp [h]

/-- the same as the model's `step` on a `dsb` item -/
theorem run_dsb_step (TM : TlsMachine κ σ ο) (QM : QuicMachine κ τ ο) (o : Opts) (st : State κ σ τ) (ks : List κ) (buf : Bytes) :
    (Main.run_dsb (fun _ => ks) (-1) buf st.keylog).2.keylog = (step TM QM o st (.dsb ks)).keylog := by
  simp [run_dsb_eq_model, step, classify]

/-- `if args.sslkeylog is not None: keylog.extend(read_keylog_from_file(args.sslkeylog))`: `body`'s
    `keylog ++ inp.fileKeys.getD []` -/
theorem run_keylog_file_eq_model {ρ : Type} (fk : List κ) (kl : List κ) (ssl : Option ρ) :
    (Main.run_keylog_file (fun _ => fk) kl ssl).keylog = kl ++ (ssl.map fun _ => fk).getD [] := by
  unfold Main.run_keylog_file
  cases ssl <;> simp

theorem lookup_loop (M : TlsMachine κ σ ο) (o : Opts) (p : Pkt) : ∀ (ss : List (TlsSess σ)),
    (if (forObjs ss (fun s => if s.matches p then ({ s with st := M.feed s.st p }, true) else (s, false))).2 then
        (forObjs ss (fun s => if s.matches p then ({ s with st := M.feed s.st p }, true) else (s, false))).1
      else if candidate o p then
        (forObjs ss (fun s => if s.matches p then ({ s with st := M.feed s.st p }, true) else (s, false))).1 ++ [tlsNew M o p]
      else (forObjs ss (fun s => if s.matches p then ({ s with st := M.feed s.st p }, true) else (s, false))).1)
      = tlsHandle M o ss p := by
  intro ss
  induction ss with
  | nil => simp [forObjs, tlsHandle]
  | cons s rest ih =>
    by_cases hm : s.matches p
    · simp [forObjs, tlsHandle, hm]
    · simp only [forObjs, tlsHandle, hm, if_false, Bool.false_eq_true]
      rw [← ih]
      split
      · rfl
      · split <;> simp

/-- `handle_packet(packet, …)`: the first session in list order that matches gets the packet (and the loop ends there); with
    none, a new session is appended iff one of the ports is a server port -/
theorem handle_packet_eq_model (M : TlsMachine κ σ ο) (o : Opts) (ss : List (TlsSess σ)) (p : Pkt) :
    (Main.handle_packet (fun (s : TlsSess σ) q => s.matches q) (fun s q => { s with st := M.feed s.st q }) (fun q => tlsNew M o q)
        p ss o.ports (p.dst.port : Int) (p.src.port : Int)).sessions
      = tlsHandle M o ss p := by
  unfold Main.handle_packet
  rw [← lookup_loop M o p ss]
  simp only [candidate, List.contains_eq_mem, Bool.or_comm]
  split
  · rfl
  · split <;> simp_all

end TLX.Props.Translated.Main2
