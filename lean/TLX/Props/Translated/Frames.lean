/-
Translated Python functions, group Frames: tlexport/quic/quic_frame.py, the constructor of every frame class.
Each `<Class>_init_eq_model` says: the definition regenerated from the tree under test (`TLX/Gen/Translated/Frames.lean`,
written by `harness/translate.py`) yields — attribute for attribute — the `Parsed` value of the model's parser in
`TLX/Quic/Frame.lean`, and raises (always IndexError) exactly where the model's parser is `none`.
The constructors call the translated varint functions: this group rests on group Varint, and on nothing else.
-/
import TLX.Lemmas.Translated.Frames
namespace TLX.Props.Translated
open TLX TLX.PyRt TLX.Lemmas.Translated TLX.Quic.Varint TLX.Quic.Frame

/-- both sides as `obind` chains over the same reads -/
macro "frame_norm" : tactic =>
  `(tactic| simp only [try_len, try_dec, try_item0, try_item, map_obind, Option.bind_eq_bind, readVarint_bind, ofOpt_bind, obind_map, obind_readVarint, Option.pure_def])

/-- the leaves: the attributes, one by one -/
macro "frame_done" : tactic => `(tactic| simp [ofOpt, Except.map])

theorem GenericFrame_init_eq_model (p : Bytes) :
    (Gen.Py.GenericFrame_init p).map (fun s => Parsed.generic s.length s.frame_length s.data) = ofOpt (parseGeneric p) := by
  simp only [Gen.Py.GenericFrame_init, parseGeneric]
  frame_norm
  frame_done

theorem ResetStreamFrame_init_eq_model (p : Bytes) :
    (Gen.Py.ResetStreamFrame_init p).map (fun s => Parsed.resetStream s.length s.stream_id s.application_protocol_error_code s.final_size) = ofOpt (parseResetStream p) := by
  simp only [Gen.Py.ResetStreamFrame_init, parseResetStream]
  frame_norm
  frame_done

theorem StopSendingFrame_init_eq_model (p : Bytes) :
    (Gen.Py.StopSendingFrame_init p).map (fun s => Parsed.stopSending s.length s.stream_id s.application_protocol_error_code) = ofOpt (parseStopSending p) := by
  simp only [Gen.Py.StopSendingFrame_init, parseStopSending]
  frame_norm
  frame_done

theorem CryptoFrame_init_eq_model (p : Bytes) :
    (Gen.Py.CryptoFrame_init p).map (fun s => Parsed.crypto s.length s.offset s.crypto_length s.crypto) = ofOpt (parseCrypto p) := by
  simp only [Gen.Py.CryptoFrame_init, parseCrypto]
  frame_norm
  frame_done

theorem NewTokenFrame_init_eq_model (p : Bytes) :
    (Gen.Py.NewTokenFrame_init p).map (fun s => Parsed.newToken s.length s.token_length s.token) = ofOpt (parseNewToken p) := by
  simp only [Gen.Py.NewTokenFrame_init, parseNewToken]
  frame_norm
  frame_done

theorem MaxDataFrame_init_eq_model (p : Bytes) :
    (Gen.Py.MaxDataFrame_init p).map (fun s => Parsed.maxData s.length s.maximum_data) = ofOpt (parseMaxData p) := by
  simp only [Gen.Py.MaxDataFrame_init, parseMaxData]
  frame_norm
  frame_done

theorem MaxStreamDataFrame_init_eq_model (p : Bytes) :
    (Gen.Py.MaxStreamDataFrame_init p).map (fun s => Parsed.maxStreamData s.length s.stream_id s.maximum_stream_data) = ofOpt (parseMaxStreamData p) := by
  simp only [Gen.Py.MaxStreamDataFrame_init, parseMaxStreamData]
  frame_norm
  frame_done

theorem MaxStreamsFrame_init_eq_model (p : Bytes) :
    (Gen.Py.MaxStreamsFrame_init p).map (fun s => Parsed.maxStreams s.frame_type s.length s.maximum_streams) = ofOpt (parseMaxStreams p) := by
  simp only [Gen.Py.MaxStreamsFrame_init, parseMaxStreams]
  frame_norm
  frame_done

theorem DataBlockedFrame_init_eq_model (p : Bytes) :
    (Gen.Py.DataBlockedFrame_init p).map (fun s => Parsed.dataBlocked s.length s.maximum_data) = ofOpt (parseDataBlocked p) := by
  simp only [Gen.Py.DataBlockedFrame_init, parseDataBlocked]
  frame_norm
  frame_done

theorem StreamDataBlockedFrame_init_eq_model (p : Bytes) :
    (Gen.Py.StreamDataBlockedFrame_init p).map (fun s => Parsed.streamDataBlocked s.length s.stream_id s.maximum_stream_data) = ofOpt (parseStreamDataBlocked p) := by
  simp only [Gen.Py.StreamDataBlockedFrame_init, parseStreamDataBlocked]
  frame_norm
  frame_done

theorem StreamsBlockedFrame_init_eq_model (p : Bytes) :
    (Gen.Py.StreamsBlockedFrame_init p).map (fun s => Parsed.streamsBlocked s.frame_type s.length s.maximum_streams) = ofOpt (parseStreamsBlocked p) := by
  simp only [Gen.Py.StreamsBlockedFrame_init, parseStreamsBlocked]
  frame_norm
  frame_done

theorem NewConnectionIdFrame_init_eq_model (p : Bytes) :
    (Gen.Py.NewConnectionIdFrame_init p).map (fun s => Parsed.newConnectionId s.length s.sequence_number s.retire_prior_to s.connection_id_length s.connection_id s.stateless_reset_token) = ofOpt (parseNewConnectionId p) := by
  simp only [Gen.Py.NewConnectionIdFrame_init, parseNewConnectionId]
  frame_norm
  frame_done

theorem RetireConnectionIdFrame_init_eq_model (p : Bytes) :
    (Gen.Py.RetireConnectionIdFrame_init p).map (fun s => Parsed.retireConnectionId s.length s.sequence_number) = ofOpt (parseRetireConnectionId p) := by
  simp only [Gen.Py.RetireConnectionIdFrame_init, parseRetireConnectionId]
  frame_norm
  frame_done

theorem PathChallengeFrame_init_eq_model (p : Bytes) :
    some (Parsed.pathChallenge (Gen.Py.PathChallengeFrame_init p).data) = parsePathChallenge p := rfl

theorem PathResponseFrame_init_eq_model (p : Bytes) :
    some (Parsed.pathResponse (Gen.Py.PathResponseFrame_init p).data) = parsePathResponse p := rfl

theorem DatagramFrame_init_eq_model (p : Bytes) :
    (Gen.Py.DatagramFrame_init p).map (fun s => Parsed.datagram s.frame_type s.length s.len_bit s.payload_) = ofOpt (parseDatagram p) := by
  cases p with
  | nil => simp [Gen.Py.DatagramFrame_init, parseDatagram, ofOpt, Except.map]
  | cons t r =>
    simp only [Gen.Py.DatagramFrame_init, parseDatagram]
    frame_norm
    simp only [List.getElem?_cons_zero, obind_some]
    by_cases h : t.toNat &&& 1 = 1
    · simp only [h, decide_true, if_true, beq_self_eq_true]
      frame_norm
      frame_done
    · have h' : (t.toNat &&& 1 == 1) = false := by simpa using h
      simp only [h, h', decide_false, Bool.false_eq_true, if_false]
      simp [ofOpt, Except.map, Bytes.slice]

theorem ConnectionCloseFrame_init_eq_model (p : Bytes) :
    (Gen.Py.ConnectionCloseFrame_init p none).map
      (fun s => Parsed.connectionClose s.frame_type s.length s.error_code s.close_frame_type s.reason_phrase_length s.reason_phrase) =
      ofOpt (parseConnectionClose p) := by
  cases p with
  | nil => simp [Gen.Py.ConnectionCloseFrame_init, parseConnectionClose, ofOpt, Except.map]
  | cons t r =>
    simp only [Gen.Py.ConnectionCloseFrame_init, parseConnectionClose, readCloseTypeIf]
    frame_norm
    simp only [List.getElem?_cons_zero, obind_some]
    by_cases h : t.toNat = 28
    · simp only [h, decide_true, if_true, beq_self_eq_true]
      frame_norm
      frame_done
    · have h' : (t.toNat == 28) = false := by simpa using h
      simp only [h, h', decide_false, Bool.false_eq_true, if_false]
      frame_norm
      frame_done

theorem decide_ne_bne (x : Nat) : (decide ¬ x = 0) = (x != 0) := by
  by_cases h : x = 0 <;> simp [h]

/-- `StreamFrame`: all eight flag combinations (`off`, `len`, `fin` are read from the type byte as the model reads them);
    `data_length` is `len(payload) - index` on Python integers, `stream_data` is never left `None` -/
theorem StreamFrame_init_eq_model (p : Bytes) :
    (Gen.Py.StreamFrame_init p).map
      (fun s => Parsed.stream s.frame_type s.length s.fin s.len s.off s.stream_id s.offset s.data_length.toNat (s.stream_data.getD [])) =
      ofOpt (parseStream p) := by
  cases p with
  | nil => simp [Gen.Py.StreamFrame_init, parseStream, ofOpt, Except.map]
  | cons t r =>
    simp only [Gen.Py.StreamFrame_init, parseStream, readOffsetIf]
    frame_norm
    simp only [List.getElem?_cons_zero, obind_some]
    by_cases ho : t.toNat >>> 2 &&& 1 = 0 <;> by_cases hl : t.toNat >>> 1 &&& 1 = 0 <;>
      simp only [ho, hl, ne_eq, not_true_eq_false, not_false_eq_true, decide_true, decide_false, Bool.false_eq_true, if_true, if_false,
        bne_self_eq_false, bne_iff_ne, obind_some] <;> (try frame_norm) <;> simp only [ofOpt, Except.map]
    all_goals (repeat (apply obind_congr; intro _))
    all_goals
      congr 2
      all_goals first | rfl | omega | exact decide_ne_bne _ | (simp [bne]; done) | (simp only [Int.ofNat_eq_natCast]; omega) | (simp_all; done) | (congr 1; simp only [Int.ofNat_eq_natCast]; omega) | trace_state

/-- the loop of `PaddingFrame.__init__` from position `n` on: leaves by `return` at the first non-zero byte -/
theorem padding_loop (p : Bytes) (n s : Nat) :
    loopS (forS (enumFrom n p) s (fun (py_s : Nat) (py_i : Nat × Nat) =>
        if (decide (py_i.2 ≠ (0 : Nat))) then
          (Except.ok (Step.ret (Except.ok ({ length := py_i.1 } : Gen.Py.PaddingFrame_init.St))) : Except Err (Step Nat (Except Err Gen.Py.PaddingFrame_init.St)))
        else .ok (.next py_s)))
      (fun py_e => .error py_e) (fun py_r => py_r)
      (fun _ => (.ok { length := n + p.length } : Except Err Gen.Py.PaddingFrame_init.St))
    = .ok { length := n + padLen p } := by
  induction p generalizing n s with
  | nil => simp [enumFrom, forS, padLen]
  | cons x r ih =>
    by_cases hx : x = 0
    · have h0 : x.toNat = 0 := by simp [hx]
      have := ih (n + 1) s
      simp only [List.length_cons, enumFrom, forS, padLen, h0, hx, ne_eq, not_true_eq_false, decide_false, Bool.false_eq_true, if_false,
        if_true] at this ⊢
      rw [show n + (r.length + 1) = n + 1 + r.length by omega, show n + (padLen r + 1) = n + 1 + padLen r by omega]
      exact this
    · have h0 : x.toNat ≠ 0 := by
        intro h; exact hx (UInt8.toNat_inj.mp (by simpa using h))
      simp [enumFrom, forS, padLen, h0, hx]

theorem PaddingFrame_init_eq_model (p : Bytes) :
    (Gen.Py.PaddingFrame_init p).map (fun s => Parsed.padding s.length) = ofOpt (parsePadding p) := by
  have := padding_loop p 0 1
  simp only [Nat.zero_add] at this
  simp only [Gen.Py.PaddingFrame_init, parsePadding, this]
  rfl

/-- the `for i in range(0, self.range_count)` loop of `AckFrame.__init__` (state: `self.length`, `index`, `self.ack_ranges`;
    `index == self.length` at the head of every round) is the model's `ackRanges` -/
theorem ack_loop (p : Bytes) (n s L : Nat) (acc : List (Nat × Nat)) :
    forE (List.range' s n) (L, L, acc) (fun (py_s : Nat × Nat × List (Nat × Nat)) (_ : Nat) =>
      obind (getVarintLength (Bytes.slice p py_s.snd.fst (py_s.snd.fst + 1))) fun py_t_10 =>
        obind (decodeVarint (Bytes.slice p py_s.snd.fst (py_s.fst + py_t_10))) fun py_t_11 =>
          obind (getVarintLength (Bytes.slice p (py_s.fst + py_t_10) (py_s.fst + py_t_10 + 1))) fun py_t_12 =>
            obind (decodeVarint (Bytes.slice p (py_s.fst + py_t_10) (py_s.fst + py_t_10 + py_t_12))) fun py_t_13 =>
              Except.ok (py_s.fst + py_t_10 + py_t_12, py_s.fst + py_t_10 + py_t_12, py_s.snd.snd ++ [(py_t_11, py_t_13)]))
    = obind (ackRanges p n L) (fun r => .ok (r.2, r.2, acc ++ r.1)) := by
  induction n generalizing s L acc with
  | zero => simp [forE, ackRanges]
  | succ n ih =>
    rw [List.range'_succ, forE]
    simp only [ackRanges, readVarint, Option.bind_eq_bind, Option.pure_def]
    cases h1 : getVarintLength (Bytes.slice p L (L + 1)) with
    | none => simp
    | some a =>
      cases h2 : decodeVarint (Bytes.slice p L (L + a)) with
      | none => simp [h2]
      | some g =>
        cases h3 : getVarintLength (Bytes.slice p (L + a) (L + a + 1)) with
        | none => simp [h2, h3]
        | some b =>
          cases h4 : decodeVarint (Bytes.slice p (L + a) (L + a + b)) with
          | none => simp [h2, h3, h4]
          | some r =>
            simp only [obind_some, h2, h3, h4, Option.bind_some, ih]
            cases ackRanges p n (L + a + b) with
            | none => simp
            | some rs => simp

/-- `AckFrame` (types 0x02 and 0x03): the four header varints, the range loop, the three ECN counts of type 0x03 (the
    attributes `ect_*_count` do not exist otherwise: `none`) -/
theorem AckFrame_init_eq_model (p : Bytes) :
    (Gen.Py.AckFrame_init p none none none).map
      (fun s => Parsed.ack s.frame_type s.length s.largest_acknowledged s.ack_delay s.range_count s.first_ack_range s.ack_ranges
        ((s.ect_0_count.bind fun a => s.ect_1_count.bind fun b => s.ect_ce_count.map fun c => (a, b, c)))) =
      ofOpt (parseAck p) := by
  cases p with
  | nil => simp [Gen.Py.AckFrame_init, parseAck, ofOpt, Except.map]
  | cons t r =>
    simp only [Gen.Py.AckFrame_init, parseAck]
    frame_norm
    simp only [List.getElem?_cons_zero, obind_some, ack_loop, Nat.sub_zero, tryE_obind, tryE_ok]
    by_cases h : t.toNat = 3
    · simp only [h, decide_true, if_true]
      frame_norm
      frame_done
    · simp only [h, decide_false, Bool.false_eq_true, if_false]
      frame_norm
      frame_done

/-! ### `parse_frames` -/

/-- the table `frame_type` as translated from the dict display is the table `harness/extract.py` dumps from the live
    module (`TLX.Gen.frameTable`, which the model's `lookup` reads) -/
theorem frame_type_eq_model : Gen.Py.frame_type = TLX.Gen.frameTable := by decide +kernel

/-- a frame object as the model's `Parsed` value, class by class (the maps of the `_init_eq_model` theorems) -/
def toParsed : Gen.Py.FrameObj → Parsed
  | .PaddingFrame s => .padding s.length
  | .GenericFrame s => .generic s.length s.frame_length s.data
  | .AckFrame s => .ack s.frame_type s.length s.largest_acknowledged s.ack_delay s.range_count s.first_ack_range s.ack_ranges
      ((s.ect_0_count.bind fun a => s.ect_1_count.bind fun b => s.ect_ce_count.map fun c => (a, b, c)))
  | .ResetStreamFrame s => .resetStream s.length s.stream_id s.application_protocol_error_code s.final_size
  | .StopSendingFrame s => .stopSending s.length s.stream_id s.application_protocol_error_code
  | .CryptoFrame s => .crypto s.length s.offset s.crypto_length s.crypto
  | .NewTokenFrame s => .newToken s.length s.token_length s.token
  | .StreamFrame s => .stream s.frame_type s.length s.fin s.len s.off s.stream_id s.offset s.data_length.toNat (s.stream_data.getD [])
  | .MaxDataFrame s => .maxData s.length s.maximum_data
  | .MaxStreamDataFrame s => .maxStreamData s.length s.stream_id s.maximum_stream_data
  | .MaxStreamsFrame s => .maxStreams s.frame_type s.length s.maximum_streams
  | .DataBlockedFrame s => .dataBlocked s.length s.maximum_data
  | .StreamDataBlockedFrame s => .streamDataBlocked s.length s.stream_id s.maximum_stream_data
  | .StreamsBlockedFrame s => .streamsBlocked s.frame_type s.length s.maximum_streams
  | .NewConnectionIdFrame s => .newConnectionId s.length s.sequence_number s.retire_prior_to s.connection_id_length s.connection_id
      s.stateless_reset_token
  | .RetireConnectionIdFrame s => .retireConnectionId s.length s.sequence_number
  | .PathChallengeFrame s => .pathChallenge s.data
  | .PathResponseFrame s => .pathResponse s.data
  | .ConnectionCloseFrame s => .connectionClose s.frame_type s.length s.error_code s.close_frame_type s.reason_phrase_length s.reason_phrase
  | .DatagramFrame s => .datagram s.frame_type s.length s.len_bit s.payload_
  | .PingFrame => .ping
  | .HandshakeDoneFrame => .handshakeDone

/-- `frame.length` (instance attribute, else the class attribute) is the model's `Parsed.length` -/
theorem toParsed_length (f : Gen.Py.FrameObj) : (toParsed f).length = f.length := by
  cases f <;> rfl

/-- `<class>(payload, src_packet)` for every class of the table, and `GenericFrame` -/
theorem construct_eq_model (c : Quic.Cls) (p : Bytes) :
    (Gen.Py.construct c p).map toParsed = ofOpt (Quic.Frame.construct c p) := by
  cases c <;> simp only [Gen.Py.construct, Quic.Frame.construct, exc_map_map]
  case PaddingFrame => exact PaddingFrame_init_eq_model p
  case PingFrame => rfl
  case AckFrame => exact AckFrame_init_eq_model p
  case ResetStreamFrame => exact ResetStreamFrame_init_eq_model p
  case StopSendingFrame => exact StopSendingFrame_init_eq_model p
  case CryptoFrame => exact CryptoFrame_init_eq_model p
  case NewTokenFrame => exact NewTokenFrame_init_eq_model p
  case StreamFrame => exact StreamFrame_init_eq_model p
  case MaxDataFrame => exact MaxDataFrame_init_eq_model p
  case MaxStreamDataFrame => exact MaxStreamDataFrame_init_eq_model p
  case MaxStreamsFrame => exact MaxStreamsFrame_init_eq_model p
  case DataBlockedFrame => exact DataBlockedFrame_init_eq_model p
  case StreamDataBlockedFrame => exact StreamDataBlockedFrame_init_eq_model p
  case StreamsBlockedFrame => exact StreamsBlockedFrame_init_eq_model p
  case NewConnectionIdFrame => exact NewConnectionIdFrame_init_eq_model p
  case RetireConnectionIdFrame => exact RetireConnectionIdFrame_init_eq_model p
  case PathChallengeFrame => rfl
  case PathResponseFrame => rfl
  case ConnectionCloseFrame => exact ConnectionCloseFrame_init_eq_model p
  case HandshakeDoneFrame => rfl
  case DatagramFrame => exact DatagramFrame_init_eq_model p
  case GenericFrame => exact GenericFrame_init_eq_model p

theorem parseFrames_nil : parseFrames [] = some [] := by
  rw [parseFrames]; simp

theorem parseFrames_step (p : Bytes) (hp : p ≠ []) :
    parseFrames p = (parseOne p).bind fun f => (parseFrames (p.drop f.length)).map (f :: ·) := by
  rw [parseFrames]
  have : ¬ p.length = 0 := by
    intro h; exact hp (List.eq_nil_of_length_eq_zero h)
  rw [dif_neg this]
  split <;> simp [*]

/-- a loop body that cannot raise is a fold -/
theorem forE_pure {σ ι : Type} (l : List ι) (s : σ) (f : σ → ι → σ) :
    forE l s (fun s i => .ok (f s i)) = .ok (l.foldl f s) := by
  induction l generalizing s with
  | nil => rfl
  | cons i r ih => simp [forE, ih]

/-- what the key loop of `parse_frames` leaves in `key` for the first payload byte `n`: the sentinel `0xff` or the
    LAST key tuple of `frame_type.keys()` that contains `n` -/
def keyOf (n : Nat) : Sum Int (List Nat) :=
  (tableKeys Gen.Py.frame_type).foldl (fun s k => if decide (n ∈ k) then Sum.inr k else s) (Sum.inl 255)

/-- … and what the dispatch then does with it is the model's `lookup`: `frame_type.get(key)` finds the class the model
    finds (never `None`), the sentinel stays exactly where the model has no class (→ `GenericFrame`). Checked for all
    256 values of the byte against the translated table. -/
theorem key_dispatch : ∀ n : Fin 256,
    (keyOf n.val ≠ Sum.inl 255 → tableGetU Gen.Py.frame_type (keyOf n.val) = lookup n.val ∧ (lookup n.val).isSome) ∧
    (keyOf n.val = Sum.inl 255 → lookup n.val = none) := by
  decide +kernel

/-- one round of the loop on a non-empty payload: the frame object the dispatch constructs -/
def oneFrame (p : Bytes) : Except Err Gen.Py.FrameObj :=
  match p with
  | [] => .error .index
  | t :: _ =>
    match lookup t.toNat with
    | some c => Gen.Py.construct c p
    | none => Gen.Py.construct .GenericFrame p

theorem oneFrame_eq_model (p : Bytes) : (oneFrame p).map toParsed = ofOpt (parseOne p) := by
  unfold oneFrame parseOne
  cases p with
  | nil => rfl
  | cons t r =>
    cases h : lookup t.toNat with
    | none => simpa [h, Quic.Frame.construct] using construct_eq_model .GenericFrame (t :: r)
    | some c => simpa [h] using construct_eq_model c (t :: r)

/-- how the translated loop ended, as the model's result: the frames collected (a `return` cannot occur) -/
def loopResult (x : Except Err (Step (List Gen.Py.FrameObj × Bytes) (Except Err (List Gen.Py.FrameObj)))) :
    Except Err (List Parsed) :=
  match x with
  | .error e => .error e
  | .ok (.ret r) => r.map (List.map toParsed)
  | .ok (.brk s) => .ok (s.1.map toParsed)
  | .ok (.next s) => .ok (s.1.map toParsed)

theorem loop_finish (x : Except Err (Step (List Gen.Py.FrameObj × Bytes) (Except Err (List Gen.Py.FrameObj)))) :
    (loopS x (fun e => .error e) (fun r => r) (fun s => .ok s.1)).map (List.map toParsed) = loopResult x := by
  match x with
  | .error e => rfl
  | .ok (.ret r) => rfl
  | .ok (.brk s) => rfl
  | .ok (.next s) => rfl

/-- the `while len(payload) != 0` loop with any fuel ≥ `len(payload)` is the model's `parseFrames` (the fuel suffices
    because every frame object has `length ≥ 1`: `parseOne_length_pos`) -/
theorem while_eq_model (C : List Gen.Py.FrameObj × Bytes → Bool)
    (B : List Gen.Py.FrameObj × Bytes → Except Err (Step (List Gen.Py.FrameObj × Bytes) (Except Err (List Gen.Py.FrameObj))))
    (hC : ∀ acc p, C (acc, p) = decide (p.length ≠ 0))
    (hB : ∀ acc p, p ≠ [] → B (acc, p) =
      tryE (oneFrame p) (fun e => .error e) (fun f => .ok (.next (acc ++ [f], p.drop f.length)))) :
    ∀ (fuel : Nat) (acc : List Gen.Py.FrameObj) (p : Bytes), p.length ≤ fuel →
      loopResult (whileS fuel (acc, p) C B) = (ofOpt (parseFrames p)).map (fun ps => acc.map toParsed ++ ps) := by
  intro fuel
  induction fuel with
  | zero =>
    intro acc p hp
    have : p = [] := List.eq_nil_of_length_eq_zero (by omega)
    subst this
    simp [whileS, hC, loopResult, parseFrames_nil, ofOpt, Except.map]
  | succ n ih =>
    intro acc p hp
    cases p with
    | nil => simp [whileS, hC, loopResult, parseFrames_nil, ofOpt, Except.map]
    | cons t r =>
      have hne : (t :: r) ≠ [] := by simp
      have hm := oneFrame_eq_model (t :: r)
      rw [whileS, hC, hB acc _ hne, parseFrames_step _ hne]
      simp only [List.length_cons, ne_eq, Nat.add_eq_zero_iff, Nat.succ_ne_self, and_false, not_false_eq_true, decide_true, if_true]
      cases hf : oneFrame (t :: r) with
      | error e =>
        rw [hf] at hm
        cases ho : parseOne (t :: r) with
        | some f => rw [ho] at hm; simp [ofOpt, Except.map] at hm
        | none =>
          rw [ho] at hm
          simp only [ofOpt, Except.map, Except.error.injEq] at hm
          simp [tryE, loopResult, ofOpt, Except.map, hm]
      | ok f =>
        rw [hf] at hm
        cases ho : parseOne (t :: r) with
        | none => rw [ho] at hm; simp [ofOpt, Except.map] at hm
        | some g =>
          rw [ho] at hm
          simp only [ofOpt, Except.map, Except.ok.injEq] at hm
          have hpos := parseOne_length_pos _ _ ho
          have hlen : g.length = f.length := by rw [← hm, toParsed_length]
          have hle : ((t :: r).drop f.length).length ≤ n := by
            simp only [List.length_drop, List.length_cons] at hp ⊢
            omega
          simp only [tryE_ok, Option.bind_some, hlen]
          rw [ih (acc ++ [f]) _ hle]
          cases parseFrames ((t :: r).drop f.length) with
          | none => simp [ofOpt, Except.map]
          | some rest => simp [ofOpt, Except.map, hm]

/-- `parse_frames`, the whole function: the key loop over `frame_type.keys()` (last matching key wins), the dispatch
    (`frame_type.get(key)(…)` or `GenericFrame`), the constructors, `frames.append`, `payload = payload[frame.length:]` —
    with the fuel `len(payload)` the translation gives the `while` loop, which always suffices (the result is never
    `.fuel`): the frames are, attribute for attribute, the model's `parseFrames`, and an exception is raised (IndexError)
    exactly where the model has `none`. -/
theorem parse_frames_eq_model (p : Bytes) :
    (Gen.Py.parse_frames p).map (List.map toParsed) = ofOpt (parseFrames p) := by
  unfold Gen.Py.parse_frames
  simp only []
  refine (loop_finish _).trans ?_
  refine (while_eq_model _ _ ?_ ?_ _ _ _ (Nat.le_refl _)).trans ?_
  · intro acc q; cases q <;> simp
  · intro acc q hq
    cases q with
    | nil => exact absurd rfl hq
    | cons t r =>
      have hk := key_dispatch ⟨t.toNat, t.toNat_lt⟩
      have hfold : List.foldl (fun (py_s : Sum Int (List Nat)) k => if decide (t.toNat ∈ k) = true then Sum.inr k else py_s)
          (Sum.inl 255) (tableKeys Gen.Py.frame_type) = keyOf t.toNat := rfl
      simp only [getItem_cons_zero, tryE_ok, forE_pure, hfold] at hk ⊢
      unfold oneFrame
      by_cases hs : keyOf t.toNat = Sum.inl 255
      · have hl := hk.2 hs
        simp [hs, hl]
      · obtain ⟨hg, hsome⟩ := hk.1 hs
        cases hl : lookup t.toNat with
        | none => rw [hl] at hsome; cases hsome
        | some c => simp [hs, hg, hl, callClass]
  · cases parseFrames p <;> simp [ofOpt, Except.map]

/-- `stream_id` of a parsed STREAM frame -/
def sidOf : Parsed → Nat
  | .stream _ _ _ _ _ sid _ _ _ => sid
  | _ => 0

/-- the two attributes of a `StreamFrame` that `Parsed.stream` does not carry are the model's functions of `stream_id`,
    and `stream_data` is assigned on every path (never left `None`) -/
theorem StreamFrame_init_attrs (p : Bytes) :
    (Gen.Py.StreamFrame_init p).map (fun s => (s.stream_id, s.server_initiated, s.stream_unidirectional, s.stream_data.isSome)) =
      (ofOpt (parseStream p)).map (fun f => (sidOf f, streamServerInitiated (sidOf f), streamUnidirectional (sidOf f), true)) := by
  cases p with
  | nil => simp [Gen.Py.StreamFrame_init, parseStream, ofOpt, Except.map]
  | cons t r =>
    simp only [Gen.Py.StreamFrame_init, parseStream, readOffsetIf]
    frame_norm
    simp only [List.getElem?_cons_zero, obind_some]
    by_cases ho : t.toNat >>> 2 &&& 1 = 0 <;> by_cases hl : t.toNat >>> 1 &&& 1 = 0 <;>
      simp only [ho, hl, ne_eq, not_true_eq_false, not_false_eq_true, decide_true, decide_false, Bool.false_eq_true, if_true, if_false,
        bne_self_eq_false, bne_iff_ne, obind_some] <;> (try frame_norm) <;> simp only [ofOpt, Except.map, sidOf]
    all_goals (repeat (apply obind_congr; intro _))
    all_goals
      simp only [Except.ok.injEq, Prod.mk.injEq, Option.isSome_some, streamServerInitiated, streamUnidirectional, true_and, and_true]
      exact ⟨decide_ne_bne _, decide_ne_bne _⟩

-- Non-vacuity: concrete payloads through the translated code (CRYPTO + PADDING; ACK with ECN counts; STREAM with all flags)
example : (Gen.Py.parse_frames [0x06, 0x00, 0x02, 0xaa, 0xbb, 0x00, 0x00]).map (List.map toParsed) =
    .ok [.crypto 5 0 2 [0xaa, 0xbb], .padding 2] := by decide +kernel
example : (Gen.Py.parse_frames [0x03, 0x05, 0x01, 0x01, 0x02, 0x00, 0x01, 0x07, 0x08, 0x09, 0x01]).map (List.map toParsed) =
    .ok [.ack 3 10 5 1 1 2 [(0, 1)] (some (7, 8, 9)), .ping] := by decide +kernel
example : (Gen.Py.parse_frames [0x0f, 0x04, 0x40, 0x10, 0x02, 0x61, 0x62, 0x1e]).map (List.map toParsed) =
    .ok [.stream 15 7 true true true 4 16 2 [0x61, 0x62], .handshakeDone] := by decide +kernel
example : Gen.Py.parse_frames [0x18, 0x01] = .error .index ∧ parseFrames [0x18, 0x01] = none := by decide +kernel

end TLX.Props.Translated
