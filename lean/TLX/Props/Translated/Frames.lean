/-
Translated Python functions, group Frames: tlexport/quic/quic_frame.py, the constructor of every frame class.
Each `<Class>_init_eq_model` says: the definition regenerated from the tree under test (`TLX/Gen/Translated/Frames.lean`,
written by `harness/translate.py`) yields — attribute for attribute — the `Parsed` value of the model's parser in
`TLX/Quic/Frame.lean`, and raises (always IndexError) exactly where the model's parser is `none`.
The constructors call the translated varint functions: this group rests on group Varint, and on nothing else.
-/
import TLX.Lemmas.Translated.Frames
namespace TLX.Props.Translated
open TLX TLX.PyRt TLX.Lemmas.Translated TLX.Quic.Varint TLX.Quic.Frame

/-- both sides as `obind` chains over the same reads -/
macro "frame_norm" : tactic =>
  `(tactic| simp only [try_len, try_dec, try_item0, try_item, map_obind, Option.bind_eq_bind, readVarint_bind, ofOpt_bind, obind_map, obind_readVarint, Option.pure_def])

/-- the leaves: the attributes, one by one -/
macro "frame_done" : tactic => `(tactic| simp [ofOpt, Except.map])

theorem GenericFrame_init_eq_model (p : Bytes) :
    (Gen.Py.GenericFrame_init p).map (fun s => Parsed.generic s.length s.frame_length s.data) = ofOpt (parseGeneric p) := by
  simp only [Gen.Py.GenericFrame_init, parseGeneric]
  frame_norm
  frame_done

theorem ResetStreamFrame_init_eq_model (p : Bytes) :
    (Gen.Py.ResetStreamFrame_init p).map (fun s => Parsed.resetStream s.length s.stream_id s.application_protocol_error_code s.final_size) = ofOpt (parseResetStream p) := by
  simp only [Gen.Py.ResetStreamFrame_init, parseResetStream]
  frame_norm
  frame_done

theorem StopSendingFrame_init_eq_model (p : Bytes) :
    (Gen.Py.StopSendingFrame_init p).map (fun s => Parsed.stopSending s.length s.stream_id s.application_protocol_error_code) = ofOpt (parseStopSending p) := by
  simp only [Gen.Py.StopSendingFrame_init, parseStopSending]
  frame_norm
  frame_done

theorem CryptoFrame_init_eq_model (p : Bytes) :
    (Gen.Py.CryptoFrame_init p).map (fun s => Parsed.crypto s.length s.offset s.crypto_length s.crypto) = ofOpt (parseCrypto p) := by
  simp only [Gen.Py.CryptoFrame_init, parseCrypto]
  frame_norm
  frame_done

theorem NewTokenFrame_init_eq_model (p : Bytes) :
    (Gen.Py.NewTokenFrame_init p).map (fun s => Parsed.newToken s.length s.token_length s.token) = ofOpt (parseNewToken p) := by
  simp only [Gen.Py.NewTokenFrame_init, parseNewToken]
  frame_norm
  frame_done

theorem MaxDataFrame_init_eq_model (p : Bytes) :
    (Gen.Py.MaxDataFrame_init p).map (fun s => Parsed.maxData s.length s.maximum_data) = ofOpt (parseMaxData p) := by
  simp only [Gen.Py.MaxDataFrame_init, parseMaxData]
  frame_norm
  frame_done

theorem MaxStreamDataFrame_init_eq_model (p : Bytes) :
    (Gen.Py.MaxStreamDataFrame_init p).map (fun s => Parsed.maxStreamData s.length s.stream_id s.maximum_stream_data) = ofOpt (parseMaxStreamData p) := by
  simp only [Gen.Py.MaxStreamDataFrame_init, parseMaxStreamData]
  frame_norm
  frame_done

theorem MaxStreamsFrame_init_eq_model (p : Bytes) :
    (Gen.Py.MaxStreamsFrame_init p).map (fun s => Parsed.maxStreams s.frame_type s.length s.maximum_streams) = ofOpt (parseMaxStreams p) := by
  simp only [Gen.Py.MaxStreamsFrame_init, parseMaxStreams]
  frame_norm
  frame_done

theorem DataBlockedFrame_init_eq_model (p : Bytes) :
    (Gen.Py.DataBlockedFrame_init p).map (fun s => Parsed.dataBlocked s.length s.maximum_data) = ofOpt (parseDataBlocked p) := by
  simp only [Gen.Py.DataBlockedFrame_init, parseDataBlocked]
  frame_norm
  frame_done

theorem StreamDataBlockedFrame_init_eq_model (p : Bytes) :
    (Gen.Py.StreamDataBlockedFrame_init p).map (fun s => Parsed.streamDataBlocked s.length s.stream_id s.maximum_stream_data) = ofOpt (parseStreamDataBlocked p) := by
  simp only [Gen.Py.StreamDataBlockedFrame_init, parseStreamDataBlocked]
  frame_norm
  frame_done

theorem StreamsBlockedFrame_init_eq_model (p : Bytes) :
    (Gen.Py.StreamsBlockedFrame_init p).map (fun s => Parsed.streamsBlocked s.frame_type s.length s.maximum_streams) = ofOpt (parseStreamsBlocked p) := by
  simp only [Gen.Py.StreamsBlockedFrame_init, parseStreamsBlocked]
  frame_norm
  frame_done

theorem NewConnectionIdFrame_init_eq_model (p : Bytes) :
    (Gen.Py.NewConnectionIdFrame_init p).map (fun s => Parsed.newConnectionId s.length s.sequence_number s.retire_prior_to s.connection_id_length s.connection_id s.stateless_reset_token) = ofOpt (parseNewConnectionId p) := by
  simp only [Gen.Py.NewConnectionIdFrame_init, parseNewConnectionId]
  frame_norm
  frame_done

theorem RetireConnectionIdFrame_init_eq_model (p : Bytes) :
    (Gen.Py.RetireConnectionIdFrame_init p).map (fun s => Parsed.retireConnectionId s.length s.sequence_number) = ofOpt (parseRetireConnectionId p) := by
  simp only [Gen.Py.RetireConnectionIdFrame_init, parseRetireConnectionId]
  frame_norm
  frame_done

theorem PathChallengeFrame_init_eq_model (p : Bytes) :
    some (Parsed.pathChallenge (Gen.Py.PathChallengeFrame_init p).data) = parsePathChallenge p := rfl

theorem PathResponseFrame_init_eq_model (p : Bytes) :
    some (Parsed.pathResponse (Gen.Py.PathResponseFrame_init p).data) = parsePathResponse p := rfl

theorem DatagramFrame_init_eq_model (p : Bytes) :
    (Gen.Py.DatagramFrame_init p).map (fun s => Parsed.datagram s.frame_type s.length s.len_bit s.payload_) = ofOpt (parseDatagram p) := by
  cases p with
  | nil => simp [Gen.Py.DatagramFrame_init, parseDatagram, ofOpt, Except.map]
  | cons t r =>
    simp only [Gen.Py.DatagramFrame_init, parseDatagram]
    frame_norm
    simp only [List.getElem?_cons_zero, obind_some]
    by_cases h : t.toNat &&& 1 = 1
    · simp only [h, decide_true, if_true, beq_self_eq_true]
      frame_norm
      frame_done
    · have h' : (t.toNat &&& 1 == 1) = false := by simpa using h
      simp only [h, h', decide_false, Bool.false_eq_true, if_false]
      simp [ofOpt, Except.map, Bytes.slice]

theorem ConnectionCloseFrame_init_eq_model (p : Bytes) :
    (Gen.Py.ConnectionCloseFrame_init p none).map
      (fun s => Parsed.connectionClose s.frame_type s.length s.error_code s.close_frame_type s.reason_phrase_length s.reason_phrase) =
      ofOpt (parseConnectionClose p) := by
  cases p with
  | nil => simp [Gen.Py.ConnectionCloseFrame_init, parseConnectionClose, ofOpt, Except.map]
  | cons t r =>
    simp only [Gen.Py.ConnectionCloseFrame_init, parseConnectionClose, readCloseTypeIf]
    frame_norm
    simp only [List.getElem?_cons_zero, obind_some]
    by_cases h : t.toNat = 28
    · simp only [h, decide_true, if_true, beq_self_eq_true]
      frame_norm
      frame_done
    · have h' : (t.toNat == 28) = false := by simpa using h
      simp only [h, h', decide_false, Bool.false_eq_true, if_false]
      frame_norm
      frame_done

theorem decide_ne_bne (x : Nat) : (decide ¬ x = 0) = (x != 0) := by
  by_cases h : x = 0 <;> simp [h]

/-- `StreamFrame`: all eight flag combinations (`off`, `len`, `fin` are read from the type byte as the model reads them);
    `data_length` is `len(payload) - index` on Python integers, `stream_data` is never left `None` -/
theorem StreamFrame_init_eq_model (p : Bytes) :
    (Gen.Py.StreamFrame_init p).map
      (fun s => Parsed.stream s.frame_type s.length s.fin s.len s.off s.stream_id s.offset s.data_length.toNat (s.stream_data.getD [])) =
      ofOpt (parseStream p) := by
  cases p with
  | nil => simp [Gen.Py.StreamFrame_init, parseStream, ofOpt, Except.map]
  | cons t r =>
    simp only [Gen.Py.StreamFrame_init, parseStream, readOffsetIf]
    frame_norm
    simp only [List.getElem?_cons_zero, obind_some]
    by_cases ho : t.toNat >>> 2 &&& 1 = 0 <;> by_cases hl : t.toNat >>> 1 &&& 1 = 0 <;>
      simp only [ho, hl, ne_eq, not_true_eq_false, not_false_eq_true, decide_true, decide_false, Bool.false_eq_true, if_true, if_false,
        bne_self_eq_false, bne_iff_ne, obind_some] <;> (try frame_norm) <;> simp only [ofOpt, Except.map]
    all_goals (repeat (apply obind_congr; intro _))
    all_goals
      congr 2
      all_goals first | rfl | omega | exact decide_ne_bne _ | (simp [bne]; done) | (simp only [Int.ofNat_eq_natCast]; omega) | (simp_all; done) | (congr 1; simp only [Int.ofNat_eq_natCast]; omega) | trace_state

/-- the loop of `PaddingFrame.__init__` from position `n` on: leaves by `return` at the first non-zero byte -/
theorem padding_loop (p : Bytes) (n s : Nat) :
    loopS (forS (enumFrom n p) s (fun (py_s : Nat) (py_i : Nat × Nat) =>
        if (decide (py_i.2 ≠ (0 : Nat))) then
          (Except.ok (Step.ret (Except.ok ({ length := py_i.1 } : Gen.Py.PaddingFrame_init.St))) : Except Err (Step Nat (Except Err Gen.Py.PaddingFrame_init.St)))
        else .ok (.next py_s)))
      (fun py_e => .error py_e) (fun py_r => py_r)
      (fun _ => (.ok { length := n + p.length } : Except Err Gen.Py.PaddingFrame_init.St))
    = .ok { length := n + padLen p } := by
  induction p generalizing n s with
  | nil => simp [enumFrom, forS, padLen]
  | cons x r ih =>
    by_cases hx : x = 0
    · have h0 : x.toNat = 0 := by simp [hx]
      have := ih (n + 1) s
      simp only [List.length_cons, enumFrom, forS, padLen, h0, hx, ne_eq, not_true_eq_false, decide_false, Bool.false_eq_true, if_false,
        if_true] at this ⊢
      rw [show n + (r.length + 1) = n + 1 + r.length by omega, show n + (padLen r + 1) = n + 1 + padLen r by omega]
      exact this
    · have h0 : x.toNat ≠ 0 := by
        intro h; exact hx (UInt8.toNat_inj.mp (by simpa using h))
      simp [enumFrom, forS, padLen, h0, hx]

theorem PaddingFrame_init_eq_model (p : Bytes) :
    (Gen.Py.PaddingFrame_init p).map (fun s => Parsed.padding s.length) = ofOpt (parsePadding p) := by
  have := padding_loop p 0 1
  simp only [Nat.zero_add] at this
  simp only [Gen.Py.PaddingFrame_init, parsePadding, this]
  rfl

/-- the `for i in range(0, self.range_count)` loop of `AckFrame.__init__` (state: `self.length`, `index`, `self.ack_ranges`;
    `index == self.length` at the head of every round) is the model's `ackRanges` -/
theorem ack_loop (p : Bytes) (n s L : Nat) (acc : List (Nat × Nat)) :
    forE (List.range' s n) (L, L, acc) (fun (py_s : Nat × Nat × List (Nat × Nat)) (_ : Nat) =>
      obind (getVarintLength (Bytes.slice p py_s.snd.fst (py_s.snd.fst + 1))) fun py_t_10 =>
        obind (decodeVarint (Bytes.slice p py_s.snd.fst (py_s.fst + py_t_10))) fun py_t_11 =>
          obind (getVarintLength (Bytes.slice p (py_s.fst + py_t_10) (py_s.fst + py_t_10 + 1))) fun py_t_12 =>
            obind (decodeVarint (Bytes.slice p (py_s.fst + py_t_10) (py_s.fst + py_t_10 + py_t_12))) fun py_t_13 =>
              Except.ok (py_s.fst + py_t_10 + py_t_12, py_s.fst + py_t_10 + py_t_12, py_s.snd.snd ++ [(py_t_11, py_t_13)]))
    = obind (ackRanges p n L) (fun r => .ok (r.2, r.2, acc ++ r.1)) := by
  induction n generalizing s L acc with
  | zero => simp [forE, ackRanges]
  | succ n ih =>
    rw [List.range'_succ, forE]
    simp only [ackRanges, readVarint, Option.bind_eq_bind, Option.pure_def]
    cases h1 : getVarintLength (Bytes.slice p L (L + 1)) with
    | none => simp
    | some a =>
      cases h2 : decodeVarint (Bytes.slice p L (L + a)) with
      | none => simp [h2]
      | some g =>
        cases h3 : getVarintLength (Bytes.slice p (L + a) (L + a + 1)) with
        | none => simp [h2, h3]
        | some b =>
          cases h4 : decodeVarint (Bytes.slice p (L + a) (L + a + b)) with
          | none => simp [h2, h3, h4]
          | some r =>
            simp only [obind_some, h2, h3, h4, Option.bind_some, ih]
            cases ackRanges p n (L + a + b) with
            | none => simp
            | some rs => simp

/-- `AckFrame` (types 0x02 and 0x03): the four header varints, the range loop, the three ECN counts of type 0x03 (the
    attributes `ect_*_count` do not exist otherwise: `none`) -/
theorem AckFrame_init_eq_model (p : Bytes) :
    (Gen.Py.AckFrame_init p none none none).map
      (fun s => Parsed.ack s.frame_type s.length s.largest_acknowledged s.ack_delay s.range_count s.first_ack_range s.ack_ranges
        ((s.ect_0_count.bind fun a => s.ect_1_count.bind fun b => s.ect_ce_count.map fun c => (a, b, c)))) =
      ofOpt (parseAck p) := by
  cases p with
  | nil => simp [Gen.Py.AckFrame_init, parseAck, ofOpt, Except.map]
  | cons t r =>
    simp only [Gen.Py.AckFrame_init, parseAck]
    frame_norm
    simp only [List.getElem?_cons_zero, obind_some, ack_loop, Nat.sub_zero, tryE_obind, tryE_ok]
    by_cases h : t.toNat = 3
    · simp only [h, decide_true, if_true]
      frame_norm
      frame_done
    · simp only [h, decide_false, Bool.false_eq_true, if_false]
      frame_norm
      frame_done

end TLX.Props.Translated
