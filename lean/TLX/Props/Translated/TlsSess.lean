/-
Translated Python functions, group TlsSess: tlexport/session.py `handle_alert`, `handle_tls_client_hello`, `handle_tls_server_hello` (latch, version choice).
Each `<python name>_eq_model` says the definition regenerated from the tree under test
(`TLX/Gen/Translated/TlsSess.lean`, written by `harness/translate.py`) EQUALS the hand-written model function.
This module imports only its own group's generated file: a source change outside the group cannot break it.
-/
import TLX.Gen.Translated.TlsSess
import TLX.Props.Translated.Enc
import TLX.Session
namespace TLX.Props.Translated
open TLX TLX.PyRt

/-- `handle_alert` writes what the model's `alert` writes -/
theorem handle_alert_eq_model {δ : Type} (s : Session.St δ) (level : UInt8) :
    Gen.Py.handle_alert level.toNat s.ver s.canDecrypt s.chSeen =
      { can_decrypt := (Session.alert s level).canDecrypt, client_hello_seen := (Session.alert s level).chSeen } := by
  unfold Gen.Py.handle_alert Session.alert
  have h1 : (level.toNat = 1) = (level = 1) := by
    rw [← UInt8.toNat_inj]; rfl
  by_cases h : level = 1 <;> by_cases h2 : s.ver = some .tls13 <;> simp [h1, h, h2]

example : Gen.Py.handle_alert 1 (some .tls12) true true = { can_decrypt := true, client_hello_seen := true } ∧
    Gen.Py.handle_alert 1 (some .tls13) true true = { can_decrypt := false, client_hello_seen := false } ∧
    Gen.Py.handle_alert 2 (some .tls12) true true = { can_decrypt := false, client_hello_seen := false } := by decide

/-- `handle_tls_client_hello` writes what the model's `clientHello` writes (`record.binary` is the model's `Rec.body`;
    the emptied `handshake_13_buffer` is the pair of the model's two per-direction buffers) -/
theorem handle_tls_client_hello_eq_model {δ : Type} (s : Session.St δ) (r : Session.Rec) :
    Gen.Py.handle_tls_client_hello r.body =
      { can_decrypt := (Session.clientHello s r).canDecrypt, server_cipher_change := (Session.clientHello s r).srvCC,
        client_cipher_change := (Session.clientHello s r).cliCC,
        handshake_13_buffer := ((Session.clientHello s r).hsBufC, (Session.clientHello s r).hsBufS),
        client_random := (Session.clientHello s r).cr, client_hello_seen := (Session.clientHello s r).chSeen } := rfl

example : (Gen.Py.handle_tls_client_hello ((List.range 40).map UInt8.ofNat)).client_random =
    some ((List.range' 6 32).map UInt8.ofNat) := by decide

/-- the version choice at the end of `handle_tls_server_hello` is the model's `chooseVersion` on the two version
    numbers the code reads -/
theorem server_hello_version_eq_model {δ : Type} (s : Session.St δ) (is13 : Bool) (recVer binary : Bytes) :
    Gen.Py.server_hello_version is13 recVer binary s.ver s.canDecrypt =
      { tls_version := (Session.chooseVersion s (Bytes.beNat recVer) (Bytes.beNat (Bytes.slice binary 4 6)) is13).ver,
        can_decrypt := (Session.chooseVersion s (Bytes.beNat recVer) (Bytes.beNat (Bytes.slice binary 4 6)) is13).canDecrypt } := by
  unfold Gen.Py.server_hello_version Session.chooseVersion
  simp only [decide_eq_true_eq]
  repeat' split
  all_goals simp_all

example : Gen.Py.server_hello_version true [3, 3] [2, 0, 0, 40, 3, 3] none true = { tls_version := some .tls13, can_decrypt := true } ∧
    Gen.Py.server_hello_version false [3, 1] [2, 0, 0, 40, 3, 9] (some .tls12) true = { tls_version := some .tls12, can_decrypt := false } := by
  decide

/-- the first statement of `handle_tls_server_hello` is the model's `latch` -/
theorem server_hello_latch_eq_model {δ : Type} (s : Session.St δ) :
    Gen.Py.server_hello_latch s.chSeen s.canDecrypt = { can_decrypt := (Session.latch s).canDecrypt } := by
  unfold Gen.Py.server_hello_latch Session.latch
  cases s.chSeen <;> simp

example : Gen.Py.server_hello_latch true false = { can_decrypt := true } ∧
    Gen.Py.server_hello_latch false false = { can_decrypt := false } := by decide

end TLX.Props.Translated
