/-
keylog_reader.py as translated from the Python source (`TLX/Gen/Translated/Keylog.lean`) equals the hand-written model
`TLX/Keylog.lean`: `Key.__init__` (`keyOfLine`; `none` = IndexError), `get_key_from_line` (`getKeyFromLine`, the regular
expression being the external `re_match`, instantiated with the model's `accepts`), `get_keys_from_string`
(`getKeysFromString`; no line that matches makes `Key(line)` raise: `Lemmas.Keylog.keyOfLine_of_accepts`).
-/
import TLX.Gen.Translated.Keylog
import TLX.Lemmas.Keylog
import TLX.Lemmas.PyRt
namespace TLX.Props.Translated.KLog
open TLX TLX.Keylog TLX.Gen.Py PyRt

theorem strSplit_eq (sep : Nat) : ∀ (s : List Nat), PyRt.strSplit sep s = splitOn sep s := by
  intro s
  induction s with
  | nil => rfl
  | cons c cs ih =>
    simp only [PyRt.strSplit, splitOn, ih]
    split
    · rfl
    · cases splitOn sep cs <;> rfl

theorem strRemove_eq (s : List Nat) : PyRt.strRemove 13 s = removeCR s := by
  simp [PyRt.strRemove, removeCR]

theorem item_nat {α : Type} (l : List α) (i : Nat) :
    listItemE l (Int.ofNat i) = match l[i]? with | none => .error .index | some a => .ok a := by
  unfold listItemE
  have h1 : ¬ ((Int.ofNat i) < 0) := by simp
  simp only [h1, if_false]
  rfl

/-- `Key(line)`: the first three fields of the line split at spaces; IndexError with fewer -/
theorem Key_init_eq_model (line : List Nat) :
    (KL.Key_init line).map (fun k => (⟨k.label, k.clientRandom, k.value⟩ : Key))
      = match keyOfLine line with | some k => .ok k | none => .error .index := by
  unfold KL.Key_init keyOfLine
  rw [strSplit_eq]
  have h0 : ((0 : Int)) = Int.ofNat 0 := rfl
  have h1 : ((1 : Int)) = Int.ofNat 1 := rfl
  have h2 : ((2 : Int)) = Int.ofNat 2 := rfl
  rw [h0, h1, h2]
  simp only [item_nat]
  rcases splitOn 32 line with _ | ⟨a, _ | ⟨b, _ | ⟨c, r⟩⟩⟩ <;> rfl

/-- `reg.match(line)` as the model's `accepts` -/
def reOf (hc : HexClass) (line : List Nat) : Option Unit := if accepts hc line then some () else none

theorem get_key_from_line_eq_model (hc : HexClass) (line : List Nat) :
    KL.get_key_from_line (reOf hc) line = .ok (getKeyFromLine hc line) := by
  unfold KL.get_key_from_line getKeyFromLine reOf
  by_cases h : accepts hc line = true
  · obtain ⟨k, hk⟩ := TLX.Lemmas.Keylog.keyOfLine_of_accepts h
    have := Key_init_eq_model line
    rw [hk] at this
    simp only [h, if_true, Option.isNone_some, Bool.not_false]
    simp only [this, tryE_ok, hk]
  · simp [h]

theorem keys_loop (hc : HexClass) : ∀ (lines : List (List Nat)) (acc : List Key),
    forE lines acc (fun py_s line =>
          match getKeyFromLine hc line with
          | some k => (.ok (py_s ++ [k]) : Except Err (List Key))
          | none => .ok py_s)
      = .ok (acc ++ lines.filterMap (getKeyFromLine hc)) := by
  intro lines
  induction lines with
  | nil => intro acc; simp [forE]
  | cons l rest ih =>
    intro acc
    simp only [forE, List.filterMap_cons]
    cases getKeyFromLine hc l with
    | none => simpa using ih acc
    | some k => simpa [List.append_assoc] using ih (acc ++ [k])

/-- `get_keys_from_string(key_str)` -/
theorem get_keys_from_string_eq_model (hc : HexClass) (s : List Nat) :
    KL.get_keys_from_string (reOf hc) s = .ok (getKeysFromString hc s) := by
  unfold KL.get_keys_from_string getKeysFromString
  simp only [strSplit_eq, strRemove_eq, get_key_from_line_eq_model, tryE_ok]
  have := keys_loop hc (splitOn 10 (removeCR s)) []
  rw [List.nil_append] at this
  erw [this]
  rfl

end TLX.Props.Translated.KLog
