/-
Translated Python functions, group Reasm2: tlexport/session.py `extract_server_buf` / `extract_client_buf`, the framing part
(everything after the contiguity test: `packet_ranges` / `packet_data`, the scan that computes `need_data`, the records
with their carrier packets, `*_next_seq`, `*_packet_buffer.clear()`), against `Reassembly.flush` (`needData`, `records`,
`ranges`, `carriers`, `bufData`) and the last branches of `Reassembly.deliver`.
A packet object is the model's `Seg`; a `TlsRecord` is what its constructor gets (`Gen.Py.TlsRecordObj`), the model's `Rec`
names the carrier packets by their ids (`ofObj`). The two `while` loops get `total_packet_len + 1` / `total_packet_len`
rounds of fuel; the theorems show they never run out (every round advances by at least 5 bytes).
This module imports only its own group's generated file.
-/
import TLX.Gen.Translated.Reasm2
import TLX.Props.Translated.Enc
import TLX.Reassembly
namespace TLX.Props.Translated
open TLX TLX.PyRt TLX.Reassembly

abbrev SRange := Nat × Nat × Seg
/-- a packet range with the packet named by its id, as the model keeps it -/
def idr (r : SRange) : Nat × Nat × Nat := (r.1, r.2.1, r.2.2.id)
/-- a `TlsRecord` as the model's `Rec`: the framed bytes and the ids of the carrier packets -/
def ofObj (o : Gen.Py.TlsRecordObj) : Rec := (o.binary, o.metadata.map (·.id))

/-- `packet_ranges` with the packet objects -/
def rangesS : List Seg → Nat → List SRange
  | [], _ => []
  | a :: r, start => (start, start + a.data.length, a) :: rangesS r (start + a.data.length)

theorem rangesS_ids (buf : List Seg) : ∀ s, (rangesS buf s).map idr = ranges buf s := by
  induction buf with
  | nil => intro s; rfl
  | cons a r ih => intro s; simp [rangesS, ranges, idr, ih]

/-- the first loop: `packet_ranges`, `total_packet_len`, `packet_data` -/
theorem frame_fold (buf : List Seg) : ∀ (acc : List SRange) (d : Bytes),
    List.foldl (fun (s : List SRange × Nat × Bytes) (i : Seg) =>
        (s.1 ++ [(s.2.1, s.2.1 + i.data.length, i)], s.2.1 + i.data.length, s.2.2 ++ i.data)) (acc, d.length, d) buf
      = (acc ++ rangesS buf d.length, (d ++ bufData buf).length, d ++ bufData buf) := by
  induction buf with
  | nil => intro acc d; simp [bufData, rangesS]
  | cons a r ih =>
    intro acc d
    simp only [List.foldl_cons]
    have e : d.length + a.data.length = (d ++ a.data).length := by simp
    rw [e, ih]
    simp [bufData, rangesS, List.append_assoc]

/-- the `metadata` loop of one record -/
theorem meta_fold (i n : Nat) (rs : List SRange) : ∀ (acc : List Seg),
    (List.foldl (fun (md : List Seg) (pr : SRange) => if (decide (i < pr.2.1) && decide (i + n > pr.1)) = true then md ++ [pr.2.2] else md) acc rs).map (·.id)
      = acc.map (·.id) ++ carriers (rs.map idr) i n := by
  induction rs with
  | nil => intro acc; simp [carriers]
  | cons r rest ih =>
    intro acc
    simp only [List.foldl_cons, List.map_cons]
    rw [ih]
    by_cases h : (decide (i < r.2.1) && decide (i + n > r.1)) = true
    · simp [h, carriers, idr]
    · simp [h, carriers, idr]

/-- the scan for `need_data`, one round as the translation spells it -/
def scanBody {ρ : Type} (d : Bytes) (p : Nat × Bool) : Except Err (Step (Nat × Bool) ρ) :=
  if decide ((Int.ofNat d.length) - (Int.ofNat p.1) = (0 : Int)) then .ok (.brk (p.1, false))
  else if decide ((Int.ofNat d.length) - (Int.ofNat p.1) < (5 : Int)) then .ok (.brk (p.1, true))
  else .ok (.next (p.1 + (Bytes.beNat (Bytes.slice d (p.1 + 3) (p.1 + 5)) + 5), p.2))

theorem scan_loop {ρ : Type} (d : Bytes) : ∀ (fuel i : Nat) (b : Bool), d.length - i < 5 * fuel →
    ∃ i', whileS fuel (i, b) (fun _ => true) (scanBody (ρ := ρ) d) = .ok (.next (i', needData d i)) := by
  intro fuel
  induction fuel with
  | zero => intro i b h; omega
  | succ n ih =>
    intro i b h
    rw [needData]
    simp only [whileS, if_true, scanBody]
    by_cases h0 : i = d.length
    · subst h0
      simp only [Int.sub_self, decide_true, if_true]
      exact ⟨_, rfl⟩
    · have : ¬ (Int.ofNat d.length - Int.ofNat i = 0) := by
        intro hh; apply h0; simp only [Int.ofNat_eq_natCast] at hh; omega
      simp only [this, decide_false, Bool.false_eq_true, if_false, h0]
      by_cases h5 : d.length < i + 5
      · have : (Int.ofNat d.length - Int.ofNat i < 5) := by simp only [Int.ofNat_eq_natCast]; omega
        simp only [this, decide_true, if_true, h5]
        exact ⟨_, rfl⟩
      · have : ¬ (Int.ofNat d.length - Int.ofNat i < 5) := by simp only [Int.ofNat_eq_natCast]; omega
        simp only [this, decide_false, Bool.false_eq_true, if_false, h5]
        exact ih _ _ (by omega)

theorem needData_false (d : Bytes) (i : Nat) (h : needData d i = false) :
    i = d.length ∨ (¬ d.length < i + 5 ∧ i ≠ d.length ∧ needData d (i + recLenAt d i) = false) := by
  rw [needData] at h
  by_cases h0 : i = d.length
  · exact .inl h0
  · simp only [h0, if_false] at h
    by_cases h5 : d.length < i + 5
    · simp [h5] at h
    · simp only [h5, if_false] at h
      exact .inr ⟨h5, h0, h⟩

/-- the second scan, one round as the translation spells it -/
def recBody {ρ : Type} (d : Bytes) (rs : List SRange) (p : List Gen.Py.TlsRecordObj × Nat) :
    Except Err (Step (List Gen.Py.TlsRecordObj × Nat) ρ) :=
  .ok (.next (p.1 ++ [{ binary := Bytes.slice d p.2 (p.2 + (Bytes.beNat (Bytes.slice d (p.2 + 3) (p.2 + 5)) + 5)),
                        metadata := List.foldl (fun (md : List Seg) (pr : SRange) =>
                          if (decide (p.2 < pr.2.1) && decide (p.2 + (Bytes.beNat (Bytes.slice d (p.2 + 3) (p.2 + 5)) + 5) > pr.1)) = true
                          then md ++ [pr.2.2] else md) [] rs }],
              p.2 + (Bytes.beNat (Bytes.slice d (p.2 + 3) (p.2 + 5)) + 5)))

theorem rec_loop {ρ : Type} (d : Bytes) (rs : List SRange) : ∀ (fuel i : Nat) (acc : List Gen.Py.TlsRecordObj),
    needData d i = false → d.length - i ≤ 5 * fuel →
    ∃ recs', whileS fuel (acc, i) (fun p => decide (p.2 ≠ d.length)) (recBody (ρ := ρ) d rs) = .ok (.next (acc ++ recs', d.length))
      ∧ recs'.map ofObj = records d (rs.map idr) i := by
  intro fuel
  induction fuel with
  | zero =>
    intro i acc hn hf
    rcases needData_false d i hn with h0 | ⟨h5, _, _⟩
    · subst h0
      refine ⟨[], ?_, ?_⟩
      · simp [whileS]
      · rw [records]; simp
    · omega
  | succ n ih =>
    intro i acc hn hf
    rcases needData_false d i hn with h0 | ⟨h5, h0, hn'⟩
    · subst h0
      refine ⟨[], ?_, ?_⟩
      · simp [whileS]
      · rw [records]; simp
    · let obj : Gen.Py.TlsRecordObj := ⟨Bytes.slice d i (i + recLenAt d i),
          List.foldl (fun (md : List Seg) (pr : SRange) =>
            if (decide (i < pr.2.1) && decide (i + recLenAt d i > pr.1)) = true then md ++ [pr.2.2] else md) [] rs⟩
      obtain ⟨recs', hw, hm⟩ := ih (i + recLenAt d i) (acc ++ [obj]) hn' (by have := recLenAt_ge d i; omega)
      refine ⟨obj :: recs', ?_, ?_⟩
      · simp only [whileS, ne_eq, h0, not_false_eq_true, decide_true, if_true, recBody]
        rw [List.append_assoc] at hw
        exact hw
      · rw [records]
        have : ¬ d.length ≤ i := by omega
        simp only [this, if_false, List.map_cons, hm, ofObj]
        rw [meta_fold]
        rfl

/-- the framing part of `extract_server_buf` (from `index = 0` to the end) is the last step of the model's `deliver`: nothing changes
    while the buffer ends inside a record (`flush = none`); else the records (bytes and carrier packets) are appended, the buffer is
    emptied and the next expected sequence number is `(base + len) % 2^32` -/
theorem extract_server_frame_eq_model (base : Nat) (buf : List Seg) (recs : List Gen.Py.TlsRecordObj) (next : Option Nat) :
    ∃ st, Gen.Py.extract_server_frame base buf recs next = .ok () st ∧
      st.packet_buffer = (match flush buf with | none => buf | some _ => []) ∧
      st.tls_records.map ofObj = recs.map ofObj ++ (flush buf).getD [] ∧
      st.next_seq = (match flush buf with | none => next | some _ => some ((base + (bufData buf).length) % 2 ^ 32)) := by
  unfold Gen.Py.extract_server_frame
  have hf := frame_fold buf [] []
  simp only [List.length_nil, List.nil_append] at hf
  simp only [hf]
  obtain ⟨i', hs⟩ := scan_loop (ρ := Res Gen.Py.extract_server_frame.St Unit) (bufData buf) ((bufData buf).length + 1) 0 default (by omega)
  erw [hs]
  simp only [loopS_next, flush]
  cases hnd : needData (bufData buf) 0 with
  | true => exact ⟨_, rfl, rfl, by simp, rfl⟩
  | false =>
    obtain ⟨recs', hw, hm⟩ := rec_loop (ρ := Res Gen.Py.extract_server_frame.St Unit) (bufData buf) (rangesS buf 0) (bufData buf).length 0 recs hnd (by omega)
    simp only [Bool.not_false, if_true]
    erw [hw]
    simp only [loopS_next, Bool.false_eq_true, if_false]
    refine ⟨_, rfl, rfl, ?_, rfl⟩
    simp only [List.map_append, hm, rangesS_ids, Option.getD_some]

/-- the framing part of `extract_client_buf` (from `index = 0` to the end) is the last step of the model's `deliver`: nothing changes
    while the buffer ends inside a record (`flush = none`); else the records (bytes and carrier packets) are appended, the buffer is
    emptied and the next expected sequence number is `(base + len) % 2^32` -/
theorem extract_client_frame_eq_model (base : Nat) (buf : List Seg) (recs : List Gen.Py.TlsRecordObj) (next : Option Nat) :
    ∃ st, Gen.Py.extract_client_frame base buf recs next = .ok () st ∧
      st.packet_buffer = (match flush buf with | none => buf | some _ => []) ∧
      st.tls_records.map ofObj = recs.map ofObj ++ (flush buf).getD [] ∧
      st.next_seq = (match flush buf with | none => next | some _ => some ((base + (bufData buf).length) % 2 ^ 32)) := by
  unfold Gen.Py.extract_client_frame
  have hf := frame_fold buf [] []
  simp only [List.length_nil, List.nil_append] at hf
  simp only [hf]
  obtain ⟨i', hs⟩ := scan_loop (ρ := Res Gen.Py.extract_client_frame.St Unit) (bufData buf) ((bufData buf).length + 1) 0 default (by omega)
  erw [hs]
  simp only [loopS_next, flush]
  cases hnd : needData (bufData buf) 0 with
  | true => exact ⟨_, rfl, rfl, by simp, rfl⟩
  | false =>
    obtain ⟨recs', hw, hm⟩ := rec_loop (ρ := Res Gen.Py.extract_client_frame.St Unit) (bufData buf) (rangesS buf 0) (bufData buf).length 0 recs hnd (by omega)
    simp only [Bool.not_false, if_true]
    erw [hw]
    simp only [loopS_next, Bool.false_eq_true, if_false]
    refine ⟨_, rfl, rfl, ?_, rfl⟩
    simp only [List.map_append, hm, rangesS_ids, Option.getD_some]

/-- evaluation: two segments across the wrap of the sequence space, the first record spans both -/
example : (match Gen.Py.extract_server_frame 4294967290 [⟨1, 4294967290, [0x17, 3, 3, 0, 2, 9]⟩, ⟨2, 0, [8, 0x15, 3, 3, 0, 0]⟩] [] none with
           | .ok _ st => (st.tls_records.map ofObj, st.next_seq, st.packet_buffer)
           | .raised _ st => ([], none, st.packet_buffer))
    = ([([0x17, 3, 3, 0, 2, 9, 8], [1, 2]), ([0x15, 3, 3, 0, 0], [2])], some 6, []) := by decide

end TLX.Props.Translated
