/-
`Decryptor.__init__` with `get_cipher_type` and `parse_keys` (tlexport/decryptor.py) as translated from the Python source
(`TLX/Gen/Translated/Decrypt2.lean`) equals the model's `Dec.init` (`TLX/RecordLayer.lean`).

The translation runs over a record of every attribute the constructor assigns (`Dec2.St`); an attribute that is not assigned
on some path keeps the value of the record the constructor starts from (`st0`: for a new object these attributes do not exist).
`keys` is a dict with `bytes | None` values: `dict13 k` (TLS 1.3) or `dictLegacy k cm sm` for the model's `Keys`.
`encInit` is the record that stands for the model's `Dec`. Stated for `compression = 0` (the model's scope).
-/
import TLX.Gen.Translated.Decrypt2
import TLX.Lemmas.PyRt
namespace TLX.Props.Translated.Decr2
open TLX TLX.RecordLayer TLX.Cipher TLX.Gen.Py PyRt

def errOf : Cipher.PyErr → Err
  | .index => .index | .key => .key | .attr => .attr | .unbound => .unbound | .overflow => .overflow | .value => .value
  | .type => .type | .invalidTag => .value | .unsupported => .value | .other => .value

def ofPy {α : Type} : Cipher.Py α → Except Err α
  | .ok a => .ok a
  | .error e => .error (errOf e)

def kk0 : List Nat := [99, 108, 105, 101, 110, 116, 95, 104, 97, 110, 100, 115, 104, 97, 107, 101, 95, 105, 118]   -- client_handshake_iv
def kk1 : List Nat := [115, 101, 114, 118, 101, 114, 95, 104, 97, 110, 100, 115, 104, 97, 107, 101, 95, 105, 118]   -- server_handshake_iv
def kk2 : List Nat := [99, 108, 105, 101, 110, 116, 95, 97, 112, 112, 108, 105, 99, 97, 116, 105, 111, 110, 95, 105, 118]   -- client_application_iv
def kk3 : List Nat := [115, 101, 114, 118, 101, 114, 95, 97, 112, 112, 108, 105, 99, 97, 116, 105, 111, 110, 95, 105, 118]   -- server_application_iv
def kk4 : List Nat := [99, 108, 105, 101, 110, 116, 95, 104, 97, 110, 100, 115, 104, 97, 107, 101, 95, 116, 114, 97, 102, 102, 105, 99, 95, 115, 101, 99, 114, 101, 116]   -- client_handshake_traffic_secret
def kk5 : List Nat := [115, 101, 114, 118, 101, 114, 95, 104, 97, 110, 100, 115, 104, 97, 107, 101, 95, 116, 114, 97, 102, 102, 105, 99, 95, 115, 101, 99, 114, 101, 116]   -- server_handshake_traffic_secret
def kk6 : List Nat := [99, 108, 105, 101, 110, 116, 95, 97, 112, 112, 108, 105, 99, 97, 116, 105, 111, 110, 95, 116, 114, 97, 102, 102, 105, 99, 95, 115, 101, 99, 114, 101, 116, 95, 48]   -- client_application_traffic_secret_0
def kk7 : List Nat := [115, 101, 114, 118, 101, 114, 95, 97, 112, 112, 108, 105, 99, 97, 116, 105, 111, 110, 95, 116, 114, 97, 102, 102, 105, 99, 95, 115, 101, 99, 114, 101, 116, 95, 48]   -- server_application_traffic_secret_0
def kk8 : List Nat := [99, 108, 105, 101, 110, 116, 95, 119, 114, 105, 116, 101, 95, 73, 86]   -- client_write_IV
def kk9 : List Nat := [115, 101, 114, 118, 101, 114, 95, 119, 114, 105, 116, 101, 95, 73, 86]   -- server_write_IV
def kk10 : List Nat := [99, 108, 105, 101, 110, 116, 95, 119, 114, 105, 116, 101, 95, 107, 101, 121]   -- client_write_key
def kk11 : List Nat := [115, 101, 114, 118, 101, 114, 95, 119, 114, 105, 116, 101, 95, 107, 101, 121]   -- server_write_key
def kk12 : List Nat := [99, 108, 105, 101, 110, 116, 95, 119, 114, 105, 116, 101, 95, 77, 65, 67, 95, 115, 101, 99, 114, 101, 116]   -- client_write_MAC_secret
def kk13 : List Nat := [115, 101, 114, 118, 101, 114, 95, 119, 114, 105, 116, 101, 95, 77, 65, 67, 95, 115, 101, 99, 114, 101, 116]   -- server_write_MAC_secret

/-- the dict `dev_tls_13_keys` returns, as far as `parse_keys` reads it (`None` for a missing secret) -/
def dict13 (k : Keys) : List (List Nat × Option Bytes) :=
  [(kk0, k.cHsIv), (kk1, k.sHsIv), (kk2, k.cAppIv), (kk3, k.sAppIv), (kk4, k.cHsKey), (kk5, k.sHsKey), (kk6, k.cAppKey), (kk7, k.sAppKey)]
/-- the dict of the key-block slicing (TLS ≤ 1.2), with the two MAC secrets -/
def dictLegacy (k : Keys) (cm sm : Option Bytes) : List (List Nat × Option Bytes) :=
  [(kk8, k.cIv), (kk9, k.sIv), (kk10, k.cKey), (kk11, k.sKey), (kk12, cm), (kk13, sm)]

theorem g13_kk0 (k : Keys) : tableGetE (dict13 k) kk0 = .ok k.cHsIv := by
  simp [tableGetE, tableGet, dict13, kk0, kk1, kk2, kk3, kk4, kk5, kk6, kk7, kk8, kk9, kk10, kk11, kk12, kk13]
theorem g13_kk1 (k : Keys) : tableGetE (dict13 k) kk1 = .ok k.sHsIv := by
  simp [tableGetE, tableGet, dict13, kk0, kk1, kk2, kk3, kk4, kk5, kk6, kk7, kk8, kk9, kk10, kk11, kk12, kk13]
theorem g13_kk2 (k : Keys) : tableGetE (dict13 k) kk2 = .ok k.cAppIv := by
  simp [tableGetE, tableGet, dict13, kk0, kk1, kk2, kk3, kk4, kk5, kk6, kk7, kk8, kk9, kk10, kk11, kk12, kk13]
theorem g13_kk3 (k : Keys) : tableGetE (dict13 k) kk3 = .ok k.sAppIv := by
  simp [tableGetE, tableGet, dict13, kk0, kk1, kk2, kk3, kk4, kk5, kk6, kk7, kk8, kk9, kk10, kk11, kk12, kk13]
theorem g13_kk4 (k : Keys) : tableGetE (dict13 k) kk4 = .ok k.cHsKey := by
  simp [tableGetE, tableGet, dict13, kk0, kk1, kk2, kk3, kk4, kk5, kk6, kk7, kk8, kk9, kk10, kk11, kk12, kk13]
theorem g13_kk5 (k : Keys) : tableGetE (dict13 k) kk5 = .ok k.sHsKey := by
  simp [tableGetE, tableGet, dict13, kk0, kk1, kk2, kk3, kk4, kk5, kk6, kk7, kk8, kk9, kk10, kk11, kk12, kk13]
theorem g13_kk6 (k : Keys) : tableGetE (dict13 k) kk6 = .ok k.cAppKey := by
  simp [tableGetE, tableGet, dict13, kk0, kk1, kk2, kk3, kk4, kk5, kk6, kk7, kk8, kk9, kk10, kk11, kk12, kk13]
theorem g13_kk7 (k : Keys) : tableGetE (dict13 k) kk7 = .ok k.sAppKey := by
  simp [tableGetE, tableGet, dict13, kk0, kk1, kk2, kk3, kk4, kk5, kk6, kk7, kk8, kk9, kk10, kk11, kk12, kk13]
theorem gl_kk8 (k : Keys) (cm sm : Option Bytes) : tableGetE (dictLegacy k cm sm) kk8 = .ok k.cIv := by
  simp [tableGetE, tableGet, dictLegacy, kk0, kk1, kk2, kk3, kk4, kk5, kk6, kk7, kk8, kk9, kk10, kk11, kk12, kk13]
theorem gl_kk9 (k : Keys) (cm sm : Option Bytes) : tableGetE (dictLegacy k cm sm) kk9 = .ok k.sIv := by
  simp [tableGetE, tableGet, dictLegacy, kk0, kk1, kk2, kk3, kk4, kk5, kk6, kk7, kk8, kk9, kk10, kk11, kk12, kk13]
theorem gl_kk10 (k : Keys) (cm sm : Option Bytes) : tableGetE (dictLegacy k cm sm) kk10 = .ok k.cKey := by
  simp [tableGetE, tableGet, dictLegacy, kk0, kk1, kk2, kk3, kk4, kk5, kk6, kk7, kk8, kk9, kk10, kk11, kk12, kk13]
theorem gl_kk11 (k : Keys) (cm sm : Option Bytes) : tableGetE (dictLegacy k cm sm) kk11 = .ok k.sKey := by
  simp [tableGetE, tableGet, dictLegacy, kk0, kk1, kk2, kk3, kk4, kk5, kk6, kk7, kk8, kk9, kk10, kk11, kk12, kk13]
theorem gl_kk12 (k : Keys) (cm sm : Option Bytes) : tableGetE (dictLegacy k cm sm) kk12 = .ok cm := by
  simp [tableGetE, tableGet, dictLegacy, kk0, kk1, kk2, kk3, kk4, kk5, kk6, kk7, kk8, kk9, kk10, kk11, kk12, kk13]
theorem gl_kk13 (k : Keys) (cm sm : Option Bytes) : tableGetE (dictLegacy k cm sm) kk13 = .ok sm := by
  simp [tableGetE, tableGet, dictLegacy, kk0, kk1, kk2, kk3, kk4, kk5, kk6, kk7, kk8, kk9, kk10, kk11, kk12, kk13]

/-- `get_cipher_type()` -/
theorem get_cipher_type_eq_model (st : Dec2.St) :
    Dec2.get_cipher_type st = .ok () { st with cipher_type := some (cipherType st.bulk_alg) } := by
  unfold Dec2.get_cipher_type
  rcases hb : st.bulk_alg <;> simp [cipherType]

def cFall (k : Keys) : Bool := k.cHsKey.isNone || k.cHsIv.isNone
def sFall (k : Keys) : Bool := k.sHsKey.isNone || k.sHsIv.isNone

/-- what `parse_keys` assigns for TLS 1.3: the eight attributes, the fallback to the application secrets where a handshake
    secret or IV is missing (per direction), the four working attributes -/
def parsed13 (k : Keys) (st : Dec2.St) : Dec2.St :=
  { st with
    client_handshake_iv := if cFall k then k.cAppIv else k.cHsIv, server_handshake_iv := if sFall k then k.sAppIv else k.sHsIv,
    client_application_iv := k.cAppIv, server_application_iv := k.sAppIv,
    client_handshake_key := if cFall k then k.cAppKey else k.cHsKey, server_handshake_key := if sFall k then k.sAppKey else k.sHsKey,
    client_application_key := k.cAppKey, server_application_key := k.sAppKey,
    server_key := if sFall k then k.sAppKey else k.sHsKey, client_key := if cFall k then k.cAppKey else k.cHsKey,
    server_iv := if sFall k then k.sAppIv else k.sHsIv, client_iv := if cFall k then k.cAppIv else k.cHsIv }

def parsedLegacy (k : Keys) (cm sm : Option Bytes) (st : Dec2.St) : Dec2.St :=
  { st with client_iv := k.cIv, server_iv := k.sIv, client_key := k.cKey, server_key := k.sKey, client_mac := cm, server_mac := sm }

theorem parse_keys_13 (k : Keys) (st : Dec2.St) (hv : st.tls_version = .tls13) :
    Dec2.parse_keys (dict13 k) st = .ok () (parsed13 k st) := by
  unfold Dec2.parse_keys
  simp only [hv, decide_true, if_true,
      show ([99, 108, 105, 101, 110, 116, 95, 104, 97, 110, 100, 115, 104, 97, 107, 101, 95, 105, 118] : List Nat) = kk0 from rfl,
      show ([115, 101, 114, 118, 101, 114, 95, 104, 97, 110, 100, 115, 104, 97, 107, 101, 95, 105, 118] : List Nat) = kk1 from rfl,
      show ([99, 108, 105, 101, 110, 116, 95, 97, 112, 112, 108, 105, 99, 97, 116, 105, 111, 110, 95, 105, 118] : List Nat) = kk2 from rfl,
      show ([115, 101, 114, 118, 101, 114, 95, 97, 112, 112, 108, 105, 99, 97, 116, 105, 111, 110, 95, 105, 118] : List Nat) = kk3 from rfl,
      show ([99, 108, 105, 101, 110, 116, 95, 104, 97, 110, 100, 115, 104, 97, 107, 101, 95, 116, 114, 97, 102, 102, 105, 99, 95, 115, 101, 99, 114, 101, 116] : List Nat) = kk4 from rfl,
      show ([115, 101, 114, 118, 101, 114, 95, 104, 97, 110, 100, 115, 104, 97, 107, 101, 95, 116, 114, 97, 102, 102, 105, 99, 95, 115, 101, 99, 114, 101, 116] : List Nat) = kk5 from rfl,
      show ([99, 108, 105, 101, 110, 116, 95, 97, 112, 112, 108, 105, 99, 97, 116, 105, 111, 110, 95, 116, 114, 97, 102, 102, 105, 99, 95, 115, 101, 99, 114, 101, 116, 95, 48] : List Nat) = kk6 from rfl,
      show ([115, 101, 114, 118, 101, 114, 95, 97, 112, 112, 108, 105, 99, 97, 116, 105, 111, 110, 95, 116, 114, 97, 102, 102, 105, 99, 95, 115, 101, 99, 114, 101, 116, 95, 48] : List Nat) = kk7 from rfl,
      show ([99, 108, 105, 101, 110, 116, 95, 119, 114, 105, 116, 101, 95, 73, 86] : List Nat) = kk8 from rfl,
      show ([115, 101, 114, 118, 101, 114, 95, 119, 114, 105, 116, 101, 95, 73, 86] : List Nat) = kk9 from rfl,
      show ([99, 108, 105, 101, 110, 116, 95, 119, 114, 105, 116, 101, 95, 107, 101, 121] : List Nat) = kk10 from rfl,
      show ([115, 101, 114, 118, 101, 114, 95, 119, 114, 105, 116, 101, 95, 107, 101, 121] : List Nat) = kk11 from rfl,
      show ([99, 108, 105, 101, 110, 116, 95, 119, 114, 105, 116, 101, 95, 77, 65, 67, 95, 115, 101, 99, 114, 101, 116] : List Nat) = kk12 from rfl,
      show ([115, 101, 114, 118, 101, 114, 95, 119, 114, 105, 116, 101, 95, 77, 65, 67, 95, 115, 101, 99, 114, 101, 116] : List Nat) = kk13 from rfl,
      g13_kk0, g13_kk1, g13_kk2, g13_kk3, g13_kk4, g13_kk5, g13_kk6, g13_kk7, gl_kk8, gl_kk9, gl_kk10, gl_kk11, gl_kk12, gl_kk13, tryE_ok]
  obtain ⟨cKey, sKey, cIv, sIv, cHsKey, sHsKey, cAppKey, sAppKey, cHsIv, sHsIv, cAppIv, sAppIv⟩ := k
  cases cHsKey <;> cases cHsIv <;> cases sHsKey <;> cases sHsIv <;> simp [parsed13, cFall, sFall, hv]

theorem parse_keys_legacy (k : Keys) (cm sm : Option Bytes) (st : Dec2.St) (hv : st.tls_version ≠ .tls13) :
    Dec2.parse_keys (dictLegacy k cm sm) st = .ok () (parsedLegacy k cm sm st) := by
  unfold Dec2.parse_keys
  simp only [hv, decide_false, if_false, Bool.false_eq_true,
      show ([99, 108, 105, 101, 110, 116, 95, 104, 97, 110, 100, 115, 104, 97, 107, 101, 95, 105, 118] : List Nat) = kk0 from rfl,
      show ([115, 101, 114, 118, 101, 114, 95, 104, 97, 110, 100, 115, 104, 97, 107, 101, 95, 105, 118] : List Nat) = kk1 from rfl,
      show ([99, 108, 105, 101, 110, 116, 95, 97, 112, 112, 108, 105, 99, 97, 116, 105, 111, 110, 95, 105, 118] : List Nat) = kk2 from rfl,
      show ([115, 101, 114, 118, 101, 114, 95, 97, 112, 112, 108, 105, 99, 97, 116, 105, 111, 110, 95, 105, 118] : List Nat) = kk3 from rfl,
      show ([99, 108, 105, 101, 110, 116, 95, 104, 97, 110, 100, 115, 104, 97, 107, 101, 95, 116, 114, 97, 102, 102, 105, 99, 95, 115, 101, 99, 114, 101, 116] : List Nat) = kk4 from rfl,
      show ([115, 101, 114, 118, 101, 114, 95, 104, 97, 110, 100, 115, 104, 97, 107, 101, 95, 116, 114, 97, 102, 102, 105, 99, 95, 115, 101, 99, 114, 101, 116] : List Nat) = kk5 from rfl,
      show ([99, 108, 105, 101, 110, 116, 95, 97, 112, 112, 108, 105, 99, 97, 116, 105, 111, 110, 95, 116, 114, 97, 102, 102, 105, 99, 95, 115, 101, 99, 114, 101, 116, 95, 48] : List Nat) = kk6 from rfl,
      show ([115, 101, 114, 118, 101, 114, 95, 97, 112, 112, 108, 105, 99, 97, 116, 105, 111, 110, 95, 116, 114, 97, 102, 102, 105, 99, 95, 115, 101, 99, 114, 101, 116, 95, 48] : List Nat) = kk7 from rfl,
      show ([99, 108, 105, 101, 110, 116, 95, 119, 114, 105, 116, 101, 95, 73, 86] : List Nat) = kk8 from rfl,
      show ([115, 101, 114, 118, 101, 114, 95, 119, 114, 105, 116, 101, 95, 73, 86] : List Nat) = kk9 from rfl,
      show ([99, 108, 105, 101, 110, 116, 95, 119, 114, 105, 116, 101, 95, 107, 101, 121] : List Nat) = kk10 from rfl,
      show ([115, 101, 114, 118, 101, 114, 95, 119, 114, 105, 116, 101, 95, 107, 101, 121] : List Nat) = kk11 from rfl,
      show ([99, 108, 105, 101, 110, 116, 95, 119, 114, 105, 116, 101, 95, 77, 65, 67, 95, 115, 101, 99, 114, 101, 116] : List Nat) = kk12 from rfl,
      show ([115, 101, 114, 118, 101, 114, 95, 119, 114, 105, 116, 101, 95, 77, 65, 67, 95, 115, 101, 99, 114, 101, 116] : List Nat) = kk13 from rfl,
      g13_kk0, g13_kk1, g13_kk2, g13_kk3, g13_kk4, g13_kk5, g13_kk6, g13_kk7, gl_kk8, gl_kk9, gl_kk10, gl_kk11, gl_kk12, gl_kk13, tryE_ok]
  rfl

/-- the dict handed to the constructor for the model's `Keys` -/
def dictOf (v : Version) (k : Keys) (cm sm : Option Bytes) : List (List Nat × Option Bytes) :=
  if v = .tls13 then dict13 k else dictLegacy k cm sm

/-- `parse_keys(keys)` -/
theorem parse_keys_eq_model (k : Keys) (cm sm : Option Bytes) (st : Dec2.St) :
    Dec2.parse_keys (dictOf st.tls_version k cm sm) st
      = .ok () (if st.tls_version = .tls13 then parsed13 k st else parsedLegacy k cm sm st) := by
  unfold dictOf
  by_cases hv : st.tls_version = .tls13
  · simp only [hv, if_true]; exact parse_keys_13 k st hv
  · simp only [hv, if_false]; exact parse_keys_legacy k cm sm st hv

theorem parse_keys_eq_model' (v : Version) (k : Keys) (cm sm : Option Bytes) (st : Dec2.St) (hv : st.tls_version = v) :
    Dec2.parse_keys (dictOf v k cm sm) st
      = .ok () (if v = .tls13 then parsed13 k st else parsedLegacy k cm sm st) := by
  subst hv; exact parse_keys_eq_model k cm sm st

/-- the record that stands for the model's `Dec` after `__init__` (`st0`: what the attributes the constructor did not assign
    keep — for a new object they do not exist) -/
def encInit (d : Dec) (cm sm : Option Bytes) (st0 : Dec2.St) : Dec2.St :=
  let lastSet := d.cfg.version = .tls10 ∨ d.cfg.version = .ssl30
  let needCtx := d.cfg.ctype = .stream ∧ d.cfg.bulk ≠ .chachaPoly
  { bulk_alg := d.cfg.bulk, tls_version := d.cfg.version, mac_length := d.cfg.macLen, tag_length := some d.cfg.tagLen,
    block_length := d.cfg.blockLen, compression_method := 0, encrypt_then_mac := d.cfg.etm, cipher_type := some d.cfg.ctype,
    server_key := d.s.key, server_iv := d.s.iv, server_mac := if d.cfg.has13 then st0.server_mac else sm,
    client_key := d.c.key, client_iv := d.c.iv, client_mac := if d.cfg.has13 then st0.client_mac else cm,
    server_handshake_key := if d.cfg.has13 then d.s.hsKey else st0.server_handshake_key,
    server_handshake_iv := if d.cfg.has13 then d.s.hsIv else st0.server_handshake_iv,
    server_application_key := if d.cfg.has13 then d.s.appKey else st0.server_application_key,
    server_application_iv := if d.cfg.has13 then d.s.appIv else st0.server_application_iv,
    client_handshake_key := if d.cfg.has13 then d.c.hsKey else st0.client_handshake_key,
    client_handshake_iv := if d.cfg.has13 then d.c.hsIv else st0.client_handshake_iv,
    client_application_key := if d.cfg.has13 then d.c.appKey else st0.client_application_key,
    client_application_iv := if d.cfg.has13 then d.c.appIv else st0.client_application_iv,
    server_seq := 0, client_seq := 0,
    last_block_server := if lastSet then d.s.iv else st0.last_block_server,
    last_block_client := if lastSet then d.c.iv else st0.last_block_client,
    server_cipher := if needCtx then d.s.rc4 else st0.server_cipher,
    client_cipher := if needCtx then d.c.rc4 else st0.client_cipher,
    s_decompressor := st0.s_decompressor, c_decompressor := st0.c_decompressor }

/-- `Decryptor(bulk_alg, …, keys, tls_version, …, extensions, compression=0)`: the model's `Dec.init`; an exception of the
    stream-cipher context set-up propagates (the object is never seen) -/
theorem init_eq_model (P : Prims) (bulk : Alg) (version : Version) (keyLen macLen : Nat) (tagLen : Option Nat) (blockLen : Nat)
    (exts : List (Bytes × Bytes)) (k : Keys) (cm sm : Option Bytes) (st0 : Dec2.St) :
    match Dec.init P bulk version macLen tagLen blockLen (decide (([0, 22] : Bytes) ∈ tableKeys exts)) k with
    | .ok d => Dec2.init (fun a key => ofPy (streamCtx P a key)) bulk () () (dictOf version k cm sm) version keyLen macLen tagLen
                 blockLen exts 0 st0 = .ok () (encInit d cm sm st0)
    | .error e => ∃ st', Dec2.init (fun a key => ofPy (streamCtx P a key)) bulk () () (dictOf version k cm sm) version keyLen macLen
                 tagLen blockLen exts 0 st0 = .raised (errOf e) st' := by
  unfold Dec2.init
  generalize decide (([0, 22] : Bytes) ∈ tableKeys exts) = etm
  by_cases hv : version = .tls13
  · subst hv
    cases tagLen <;> cases etm <;>
      (simp only [get_cipher_type_eq_model, tryR_ok, dictOf, if_true, Option.isNone_none, Option.isNone_some, Bool.false_eq_true,
        if_false]
       simp only [parse_keys_13, tryR_ok]
       cases bulk <;>
         simp [Dec.init, cipherType, encInit, parsed13, attrE, streamCtx, ofPy, bind, Except.bind, pure, Except.pure, Functor.map,
           Except.map, cFall, sFall]
       all_goals (
         generalize (if k.sHsKey = none ∨ k.sHsIv = none then k.sAppKey else k.sHsKey) = sk
         generalize (if k.cHsKey = none ∨ k.cHsIv = none then k.cAppKey else k.cHsKey) = ck
         rcases sk with _ | sk
         · simp [errOf]
         · rcases h1 : P.rc4Init sk with e1 | u1
           · simp [errOf, h1]
           · rcases ck with _ | ck
             · simp [errOf, h1]
             · rcases h2 : P.rc4Init ck with e2 | u2 <;> simp [errOf, h1, h2]))
  · obtain ⟨cKey, sKey, cIv, sIv, cHsKey, sHsKey, cAppKey, sAppKey, cHsIv, sHsIv, cAppIv, sAppIv⟩ := k
    by_cases hl : version = .tls10 ∨ version = .ssl30
    all_goals (
      cases tagLen <;> cases etm <;>
      (simp only [get_cipher_type_eq_model, tryR_ok, dictOf, hv, if_true, Option.isNone_none, Option.isNone_some,
        Bool.false_eq_true, if_false]
       simp only [parse_keys_legacy, ne_eq, hv, not_false_eq_true, tryR_ok]
       cases bulk <;>
         simp [Dec.init, cipherType, encInit, parsedLegacy, attrE, streamCtx, ofPy, bind, Except.bind, pure, Except.pure, Functor.map,
           Except.map, hv, hl]
       all_goals (
         rcases sKey with _ | sk
         · simp [errOf]
         · rcases h1 : P.rc4Init sk with e1 | u1
           · simp [errOf, h1]
           · rcases cKey with _ | ck
             · simp [errOf, h1]
             · rcases h2 : P.rc4Init ck with e2 | u2 <;> simp [errOf, h1, h2] <;>
                 (try (constructor <;> intro ha <;> first | exact absurd ha hl | (intro hb; rcases hl with h | h <;> contradiction))))))

end TLX.Props.Translated.Decr2
