/-
`DecryptionSecretBlock.unpack` (tlexport/dpkt_dsb.py) as translated from the Python source (`TLX/Gen/Translated/Dsb.lean`) equals the
hand-written model `TLX.Container.parseDsb` (C12). dpkt's own code is outside the subset and enters as externals, instantiated with the
model's functions: the header unpack (`hdrLen`: fewer than 20 bytes = `struct.error`/NeedData, else the `len` field; `secrets_length`
= the field at offset 12), `_do_unpack_options` (`blockTail`), `_align32b` (`align4`). What the theorem ties to the source is the glue
of `unpack` itself: the `len > len(buf)` test, the data offset `__hdr_len__ - 4`, the slice of `secrets_length` bytes, the options
offset after the padded data.
-/
import TLX.Gen.Translated.Dsb
import TLX.Lemmas.PyRt
namespace TLX.Props.Translated.Dsb
open TLX TLX.Container TLX.Gen.Py PyRt

/-- the model's exceptions as the translated definition reports them (NeedData and `struct.error` are one: `.struct`) -/
def encErr : Container.Err → PyRt.Err
  | .needData => .struct
  | .lenMismatch => .value
  | .unicode => .type
  | _ => .fuel

/-- `dpkt.Packet.unpack(self, buf)`: `self.len` -/
def hdrLen (e : Endian) (buf : Bytes) : Except PyRt.Err Nat :=
  if buf.length < 20 then .error .struct else .ok (fld e buf 4 4)

/-- `self._do_unpack_options(buf, oo)` -/
def tail (e : Endian) (buf : Bytes) (len : Nat) (oo : Int) : Except PyRt.Err (List Opt) :=
  match blockTail e buf len oo.toNat with
  | .ok o => .ok o
  | .error er => .error (encErr er)

theorem slice_min (x : Bytes) (a b : Nat) :
    Bytes.slice x (min a x.length) (min (a + b) x.length) = Bytes.slice x a (a + b) := by
  unfold Bytes.slice
  apply List.ext_getElem?
  intro j
  simp only [List.getElem?_take, List.getElem?_drop]
  by_cases ha : a ≤ x.length
  · rw [Nat.min_eq_left ha]
    by_cases hb : a + b ≤ x.length
    · rw [Nat.min_eq_left hb]
    · rw [Nat.min_eq_right (by omega)]
      by_cases h1 : j < x.length - a
      · have h2 : j < a + b - a := by omega
        simp [h1]
        omega
      · have h3 : x[a + j]? = none := List.getElem?_eq_none (by omega)
        simp [h1, h3]
  · rw [Nat.min_eq_right (by omega), Nat.min_eq_right (by omega)]
    have h3 : x[a + j]? = none := List.getElem?_eq_none (by omega)
    simp [h3]

theorem pySlice_nat (x : Bytes) (a b : Nat) :
    PyRt.pySlice x (some (Int.ofNat a)) (some (Int.ofNat a + Int.ofNat b)) = Bytes.slice x a (a + b) := by
  unfold PyRt.pySlice PyRt.bound
  simp only [Option.map_some, Option.getD_some]
  have h1 : ¬ (Int.ofNat a < 0) := by simp
  have h2 : ¬ (Int.ofNat a + Int.ofNat b < 0) := by
    have : (0 : Int) ≤ Int.ofNat a + Int.ofNat b := Int.add_nonneg (Int.natCast_nonneg a) (Int.natCast_nonneg b)
    omega
  have e1 : (Int.ofNat a).toNat = a := rfl
  have e2 : (Int.ofNat a + Int.ofNat b).toNat = a + b := by
    show ((a : Int) + (b : Int)).toNat = a + b
    omega
  rw [if_neg h1, if_neg h2, e1, e2]
  exact slice_min x a b

/-- `DecryptionSecretBlock(buf)`: the secrets data, or the exception -/
theorem unpack_eq_model (e : Endian) (buf : Bytes) :
    (Dsb.unpack (hdrLen e) (fun b => fld e b 12 4) (tail e) buf).map (·.pkt_data)
      = match parseDsb e buf with
        | .ok d => .ok d
        | .error er => .error (encErr er) := by
  unfold Dsb.unpack parseDsb blockHead hdrLen tail
  by_cases h20 : buf.length < 20
  · simp only [h20, if_true, tryE_error]
    rfl
  · simp only [h20, if_false, tryE_ok]
    by_cases hl : fld e buf 4 4 > buf.length
    · simp only [hl, decide_true, if_true]
      rfl
    · have hpo : ((Int.ofNat (20 : Nat)) - (4 : Int)) = Int.ofNat 16 := rfl
      simp only [hl, decide_false, Bool.false_eq_true, if_false, hpo, pySlice_nat]
      have ho : (Int.ofNat 16 + Int.ofNat (align4 (fld e buf 12 4))).toNat = 16 + align4 (fld e buf 12 4) := by
        show (((16 : Nat) : Int) + ((align4 (fld e buf 12 4) : Nat) : Int)).toNat = _
        omega
      rw [ho]
      cases blockTail e buf (fld e buf 4 4) (16 + align4 (fld e buf 12 4)) <;> rfl

end TLX.Props.Translated.Dsb
