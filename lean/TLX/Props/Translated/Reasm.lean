/-
Translated Python functions, group Reasm: tlexport/session.py `Session.handle_packet` (duplicate suppression) and, of
`extract_server_buf` / `extract_client_buf`, the pieces inside the subset: the two sort keys (sequence distance mod 2^32),
the test that the stream continues at `base`, the contiguity test between neighbours, the next expected sequence number.
Each `<name>_eq_model` says the definition regenerated from the tree under test (`TLX/Gen/Translated/Reasm.lean`, written
by `harness/translate.py`) EQUALS the corresponding piece of `TLX/Reassembly.lean` at `W = 2^32`.
This module imports only its own group's generated file: a source change outside the group cannot break it.
-/
import TLX.Gen.Translated.Reasm
import TLX.Props.Translated.Enc
import TLX.Reassembly
import TLX.Lemmas.ModSeq
namespace TLX.Props.Translated
open TLX TLX.PyRt TLX.Reassembly

/-- `Session.handle_packet`: in the packet's direction (`packet.ip_src == self.server_ip and packet.sport == self.server_port`)
    a sequence number seen before changes nothing, a new one is recorded and the packet appended to `packet_buffer` —
    per direction the duplicate test of the model's `stepW` / `accept` (`seen.contains p.seq`, `seen ++ [p.seq]`, `buf ++ [p]`) -/
theorem session_handle_packet_eq_model (p : Seg) (ipSrc serverIp : Bytes) (sport serverPort : Nat) (seenS seenC : List Nat)
    (buf : List Seg) :
    Gen.Py.session_handle_packet p p.seq ipSrc sport serverIp serverPort seenS seenC buf =
      if ipSrc = serverIp ∧ sport = serverPort then
        { seen_packets_server := if seenS.contains p.seq then seenS else seenS ++ [p.seq], seen_packets_client := seenC,
          packet_buffer := if seenS.contains p.seq then buf else buf ++ [p] }
      else
        { seen_packets_server := seenS, seen_packets_client := if seenC.contains p.seq then seenC else seenC ++ [p.seq],
          packet_buffer := if seenC.contains p.seq then buf else buf ++ [p] } := by
  unfold Gen.Py.session_handle_packet
  by_cases h1 : ipSrc = serverIp ∧ sport = serverPort
  · by_cases h2 : p.seq ∈ seenS <;> simp [h1, h2]
  · by_cases h2 : p.seq ∈ seenC <;> simp [h1, h2]

/-- … which is the model's `accept` for one packet of the direction -/
theorem accept_one (p : Seg) (seen : List Nat) (buf : List Seg) (ip : Bytes) (port : Nat) (other : List Nat) :
    let r := Gen.Py.session_handle_packet p p.seq ip port ip port seen other buf
    (r.packet_buffer, r.seen_packets_server) = (buf ++ (accept seen [p]).1, (accept seen [p]).2) := by
  rw [session_handle_packet_eq_model]
  by_cases h : p.seq ∈ seen <;> simp [accept, h]

example : Gen.Py.session_handle_packet ⟨1, 100, [1]⟩ 100 [10, 0, 0, 1] 443 [10, 0, 0, 1] 443 [7] [100] [] =
      { seen_packets_server := [7, 100], seen_packets_client := [100], packet_buffer := [⟨1, 100, [1]⟩] } ∧
    Gen.Py.session_handle_packet ⟨1, 100, [1]⟩ 100 [10, 0, 0, 2] 5000 [10, 0, 0, 1] 443 [7] [100] [] =
      { seen_packets_server := [7], seen_packets_client := [100], packet_buffer := [] } := by decide

theorem two32 : (4294967296 : Nat) = 2 ^ 32 := by decide

/-- the sort key of `extract_*_buf` once the direction is in sync is the model's `syncKey` -/
theorem extract_server_sort_key_eq_model (base : Nat) (x : Seg) :
    Gen.Py.extract_server_sort_key base x.seq = Int.ofNat (syncKey (2 ^ 32) base x) := by
  unfold Gen.Py.extract_server_sort_key syncKey
  simp only [Int.ofNat_eq_natCast]
  rw [Lemmas.ModSeq.pyModSub_eq_emod _ _ _ (by decide)]
  rfl

theorem extract_client_sort_key_eq_model (base : Nat) (x : Seg) :
    Gen.Py.extract_client_sort_key base x.seq = Int.ofNat (syncKey (2 ^ 32) base x) := by
  unfold Gen.Py.extract_client_sort_key syncKey
  simp only [Int.ofNat_eq_natCast]
  rw [Lemmas.ModSeq.pyModSub_eq_emod _ _ _ (by decide)]
  rfl

/-- the key by which the earliest segment is found before anything was delivered is the model's `presyncKey` -/
theorem extract_server_presync_key_eq_model (first : Nat) (x : Seg) :
    Gen.Py.extract_server_presync_key first x.seq = Int.ofNat (presyncKey (2 ^ 32) first x) := by
  unfold Gen.Py.extract_server_presync_key presyncKey
  simp only [Int.ofNat_eq_natCast]
  rw [Lemmas.ModSeq.pyModSub_eq_emod _ _ _ (by decide)]
  congr 1
  have : ((2 ^ 32 / 2 : Nat) : Int) = 2147483648 := by decide
  rw [Int.natCast_add, this]
  omega

theorem extract_client_presync_key_eq_model (first : Nat) (x : Seg) :
    Gen.Py.extract_client_presync_key first x.seq = Int.ofNat (presyncKey (2 ^ 32) first x) := by
  unfold Gen.Py.extract_client_presync_key presyncKey
  simp only [Int.ofNat_eq_natCast]
  rw [Lemmas.ModSeq.pyModSub_eq_emod _ _ _ (by decide)]
  congr 1
  have : ((2 ^ 32 / 2 : Nat) : Int) = 2147483648 := by decide
  rw [Int.natCast_add, this]
  omega

example : Gen.Py.extract_server_sort_key 4294967290 4 = 10 ∧ Gen.Py.extract_client_presync_key 5 3 = 2147483646 := by
  decide

/-- the head test (`buffer[0].seq != base`: the continuing segment is missing) is the first test of the model's `deliver` -/
theorem extract_server_head_test_eq_model (st : St) (base : Nat) (h : Seg) (r : List Seg)
    (ht : Gen.Py.extract_server_head_test base h.seq = true) : deliver (2 ^ 32) st base (h :: r) = { st with buf := h :: r } := by
  simp only [Gen.Py.extract_server_head_test, decide_eq_true_eq] at ht
  simp [deliver, ht]

theorem extract_client_head_test_eq_model (st : St) (base : Nat) (h : Seg) (r : List Seg)
    (ht : Gen.Py.extract_client_head_test base h.seq = true) : deliver (2 ^ 32) st base (h :: r) = { st with buf := h :: r } := by
  simp only [Gen.Py.extract_client_head_test, decide_eq_true_eq] at ht
  simp [deliver, ht]

/-- the model's `contiguous` is "no neighbour pair fails the translated gap test" -/
theorem extract_server_gap_test_eq_model (a b : Seg) (r : List Seg) :
    contiguous (2 ^ 32) (a :: b :: r) = (!Gen.Py.extract_server_gap_test a.seq a.data b.seq && contiguous (2 ^ 32) (b :: r)) := by
  simp only [contiguous, Gen.Py.extract_server_gap_test, two32, decide_not, Bool.not_not]
  congr 1

theorem extract_client_gap_test_eq_model (a b : Seg) (r : List Seg) :
    contiguous (2 ^ 32) (a :: b :: r) = (!Gen.Py.extract_client_gap_test a.seq a.data b.seq && contiguous (2 ^ 32) (b :: r)) := by
  simp only [contiguous, Gen.Py.extract_client_gap_test, two32, decide_not, Bool.not_not]
  congr 1

example : Gen.Py.extract_server_gap_test 4294967295 [1, 2] 1 = false ∧ Gen.Py.extract_client_gap_test 10 [1, 2] 13 = true := by decide

/-- the next expected sequence number after a delivery is the `next` the model's `deliver` stores -/
theorem extract_server_next_seq_eq_model (base total : Nat) :
    (Gen.Py.extract_server_next_seq base total).next_seq = some ((base + total) % 2 ^ 32) := by
  simp [Gen.Py.extract_server_next_seq, two32]

theorem extract_client_next_seq_eq_model (base total : Nat) :
    (Gen.Py.extract_client_next_seq base total).next_seq = some ((base + total) % 2 ^ 32) := by
  simp [Gen.Py.extract_client_next_seq, two32]

/-- … literally: when `deliver` hands records on, its `next` is the translated assignment at `total = len(packet_data)` -/
theorem deliver_next (st : St) (base : Nat) (buf : List Seg) (recs : List Rec) (h0 : ∃ h r, buf = h :: r ∧ h.seq = base)
    (hc : contiguous (2 ^ 32) buf = true) (hf : flush buf = some recs) :
    (deliver (2 ^ 32) st base buf).next = (Gen.Py.extract_server_next_seq base (bufData buf).length).next_seq := by
  obtain ⟨h, r, rfl, hb⟩ := h0
  rw [extract_server_next_seq_eq_model]
  simp [deliver, hb, hc, hf]

example : (Gen.Py.extract_server_next_seq 4294967290 10).next_seq = some 4 := by decide

end TLX.Props.Translated
