/-
Translated Python, group Suites: tlexport/cipher_suite_parser.py — the two tables `cipher_suites` and `cipher_suite_parts`
re-derived from the dict displays of the source text, and `split_cipher_suite` (the KeyError handler, the loop over the
parts with its inner `for … break`, the defaults, the two fix-ups).
The definitions are regenerated from the tree under test (`TLX/Gen/Translated/Suites.lean`, written by
`harness/translate.py`); the model is `TLX/CipherSuite.lean` over the tables `harness/extract.py` dumps from the live module.
This module imports only its own group's generated file: a source change outside the group cannot break it.
-/
import TLX.Gen.Translated.Suites
import TLX.Props.Translated.Enc
import TLX.CipherSuite
namespace TLX.Props.Translated
open TLX TLX.PyRt TLX.CipherSuite

/-- the number `harness/extract.py` files a key of `cipher_suites` under: the code point of a two-byte key -/
def suiteCode (k : Bytes) : Nat := if k.length = 2 then Bytes.beNat k else 65536 + Bytes.beNat k

/-- The tables read from the source TEXT (dict displays; a class named by the last identifier of the expression that
    denotes it) are the tables dumped from the LIVE module (`TLX.Gen.cipherSuites`, `TLX.Gen.cipherSuiteParts`: dict
    iteration order, classes by `__name__`): two independent derivations agree. Every key of `cipher_suites` has two
    bytes and no key occurs twice, in either table. -/
theorem cipher_tables_eq_model :
    Gen.Py.cipher_suites.map (fun e => (suiteCode e.1, e.2)) = Gen.cipherSuites ∧
    Gen.Py.cipher_suite_parts = Gen.cipherSuiteParts ∧
    (∀ e ∈ Gen.Py.cipher_suites, e.1.length = 2) ∧ (Gen.Py.cipher_suites.map (·.1)).Nodup := by
  decide +kernel

theorem forall_chunks {α : Type} (P : α → Prop) (l : List α) (n : Nat) (h1 : ∀ e ∈ l.take n, P e) (h2 : ∀ e ∈ l.drop n, P e) :
    ∀ e ∈ l, P e := by
  intro e he
  rw [← List.take_append_drop n l, List.mem_append] at he
  exact he.elim (h1 e) (h2 e)

-- `split_cipher_suite` evaluated in the kernel on the keys of `cipher_suites`, eight at a time (207 keys)
theorem split_known_0 : ∀ e ∈ (Gen.Py.cipher_suites.drop 0).take 8,
    Gen.Py.split_cipher_suite e.1 = .ok (resolve (suiteCode e.1)) := by decide +kernel
theorem split_known_1 : ∀ e ∈ (Gen.Py.cipher_suites.drop 8).take 8,
    Gen.Py.split_cipher_suite e.1 = .ok (resolve (suiteCode e.1)) := by decide +kernel
theorem split_known_2 : ∀ e ∈ (Gen.Py.cipher_suites.drop 16).take 8,
    Gen.Py.split_cipher_suite e.1 = .ok (resolve (suiteCode e.1)) := by decide +kernel
theorem split_known_3 : ∀ e ∈ (Gen.Py.cipher_suites.drop 24).take 8,
    Gen.Py.split_cipher_suite e.1 = .ok (resolve (suiteCode e.1)) := by decide +kernel
theorem split_known_4 : ∀ e ∈ (Gen.Py.cipher_suites.drop 32).take 8,
    Gen.Py.split_cipher_suite e.1 = .ok (resolve (suiteCode e.1)) := by decide +kernel
theorem split_known_5 : ∀ e ∈ (Gen.Py.cipher_suites.drop 40).take 8,
    Gen.Py.split_cipher_suite e.1 = .ok (resolve (suiteCode e.1)) := by decide +kernel
theorem split_known_6 : ∀ e ∈ (Gen.Py.cipher_suites.drop 48).take 8,
    Gen.Py.split_cipher_suite e.1 = .ok (resolve (suiteCode e.1)) := by decide +kernel
theorem split_known_7 : ∀ e ∈ (Gen.Py.cipher_suites.drop 56).take 8,
    Gen.Py.split_cipher_suite e.1 = .ok (resolve (suiteCode e.1)) := by decide +kernel
theorem split_known_8 : ∀ e ∈ (Gen.Py.cipher_suites.drop 64).take 8,
    Gen.Py.split_cipher_suite e.1 = .ok (resolve (suiteCode e.1)) := by decide +kernel
theorem split_known_9 : ∀ e ∈ (Gen.Py.cipher_suites.drop 72).take 8,
    Gen.Py.split_cipher_suite e.1 = .ok (resolve (suiteCode e.1)) := by decide +kernel
theorem split_known_10 : ∀ e ∈ (Gen.Py.cipher_suites.drop 80).take 8,
    Gen.Py.split_cipher_suite e.1 = .ok (resolve (suiteCode e.1)) := by decide +kernel
theorem split_known_11 : ∀ e ∈ (Gen.Py.cipher_suites.drop 88).take 8,
    Gen.Py.split_cipher_suite e.1 = .ok (resolve (suiteCode e.1)) := by decide +kernel
theorem split_known_12 : ∀ e ∈ (Gen.Py.cipher_suites.drop 96).take 8,
    Gen.Py.split_cipher_suite e.1 = .ok (resolve (suiteCode e.1)) := by decide +kernel
theorem split_known_13 : ∀ e ∈ (Gen.Py.cipher_suites.drop 104).take 8,
    Gen.Py.split_cipher_suite e.1 = .ok (resolve (suiteCode e.1)) := by decide +kernel
theorem split_known_14 : ∀ e ∈ (Gen.Py.cipher_suites.drop 112).take 8,
    Gen.Py.split_cipher_suite e.1 = .ok (resolve (suiteCode e.1)) := by decide +kernel
theorem split_known_15 : ∀ e ∈ (Gen.Py.cipher_suites.drop 120).take 8,
    Gen.Py.split_cipher_suite e.1 = .ok (resolve (suiteCode e.1)) := by decide +kernel
theorem split_known_16 : ∀ e ∈ (Gen.Py.cipher_suites.drop 128).take 8,
    Gen.Py.split_cipher_suite e.1 = .ok (resolve (suiteCode e.1)) := by decide +kernel
theorem split_known_17 : ∀ e ∈ (Gen.Py.cipher_suites.drop 136).take 8,
    Gen.Py.split_cipher_suite e.1 = .ok (resolve (suiteCode e.1)) := by decide +kernel
theorem split_known_18 : ∀ e ∈ (Gen.Py.cipher_suites.drop 144).take 8,
    Gen.Py.split_cipher_suite e.1 = .ok (resolve (suiteCode e.1)) := by decide +kernel
theorem split_known_19 : ∀ e ∈ (Gen.Py.cipher_suites.drop 152).take 8,
    Gen.Py.split_cipher_suite e.1 = .ok (resolve (suiteCode e.1)) := by decide +kernel
theorem split_known_20 : ∀ e ∈ (Gen.Py.cipher_suites.drop 160).take 8,
    Gen.Py.split_cipher_suite e.1 = .ok (resolve (suiteCode e.1)) := by decide +kernel
theorem split_known_21 : ∀ e ∈ (Gen.Py.cipher_suites.drop 168).take 8,
    Gen.Py.split_cipher_suite e.1 = .ok (resolve (suiteCode e.1)) := by decide +kernel
theorem split_known_22 : ∀ e ∈ (Gen.Py.cipher_suites.drop 176).take 8,
    Gen.Py.split_cipher_suite e.1 = .ok (resolve (suiteCode e.1)) := by decide +kernel
theorem split_known_23 : ∀ e ∈ (Gen.Py.cipher_suites.drop 184).take 8,
    Gen.Py.split_cipher_suite e.1 = .ok (resolve (suiteCode e.1)) := by decide +kernel
theorem split_known_24 : ∀ e ∈ (Gen.Py.cipher_suites.drop 192).take 8,
    Gen.Py.split_cipher_suite e.1 = .ok (resolve (suiteCode e.1)) := by decide +kernel
theorem split_known_25 : ∀ e ∈ (Gen.Py.cipher_suites.drop 200).take 8,
    Gen.Py.split_cipher_suite e.1 = .ok (resolve (suiteCode e.1)) := by decide +kernel

/-- `split_cipher_suite` on every key of `cipher_suites` (all of them, evaluated in the kernel): the model's `resolve` -/
theorem split_cipher_suite_known :
    ∀ e ∈ Gen.Py.cipher_suites, Gen.Py.split_cipher_suite e.1 = .ok (resolve (suiteCode e.1)) := by
  rw [← List.drop_zero (l := Gen.Py.cipher_suites)]
  refine forall_chunks _ _ 8 split_known_0 ?_
  rw [List.drop_drop]
  refine forall_chunks _ _ 8 split_known_1 ?_
  rw [List.drop_drop]
  refine forall_chunks _ _ 8 split_known_2 ?_
  rw [List.drop_drop]
  refine forall_chunks _ _ 8 split_known_3 ?_
  rw [List.drop_drop]
  refine forall_chunks _ _ 8 split_known_4 ?_
  rw [List.drop_drop]
  refine forall_chunks _ _ 8 split_known_5 ?_
  rw [List.drop_drop]
  refine forall_chunks _ _ 8 split_known_6 ?_
  rw [List.drop_drop]
  refine forall_chunks _ _ 8 split_known_7 ?_
  rw [List.drop_drop]
  refine forall_chunks _ _ 8 split_known_8 ?_
  rw [List.drop_drop]
  refine forall_chunks _ _ 8 split_known_9 ?_
  rw [List.drop_drop]
  refine forall_chunks _ _ 8 split_known_10 ?_
  rw [List.drop_drop]
  refine forall_chunks _ _ 8 split_known_11 ?_
  rw [List.drop_drop]
  refine forall_chunks _ _ 8 split_known_12 ?_
  rw [List.drop_drop]
  refine forall_chunks _ _ 8 split_known_13 ?_
  rw [List.drop_drop]
  refine forall_chunks _ _ 8 split_known_14 ?_
  rw [List.drop_drop]
  refine forall_chunks _ _ 8 split_known_15 ?_
  rw [List.drop_drop]
  refine forall_chunks _ _ 8 split_known_16 ?_
  rw [List.drop_drop]
  refine forall_chunks _ _ 8 split_known_17 ?_
  rw [List.drop_drop]
  refine forall_chunks _ _ 8 split_known_18 ?_
  rw [List.drop_drop]
  refine forall_chunks _ _ 8 split_known_19 ?_
  rw [List.drop_drop]
  refine forall_chunks _ _ 8 split_known_20 ?_
  rw [List.drop_drop]
  refine forall_chunks _ _ 8 split_known_21 ?_
  rw [List.drop_drop]
  refine forall_chunks _ _ 8 split_known_22 ?_
  rw [List.drop_drop]
  refine forall_chunks _ _ 8 split_known_23 ?_
  rw [List.drop_drop]
  refine forall_chunks _ _ 8 split_known_24 ?_
  rw [List.drop_drop]
  refine forall_chunks _ _ 8 split_known_25 ?_
  rw [List.drop_drop]
  intro e he
  have : (Gen.Py.cipher_suites.drop 208) = [] := by decide +kernel
  simp only [Nat.reduceAdd] at he
  rw [this] at he
  cases he

/-- a key that no entry has is not found -/
theorem tableGet_none {κ ν : Type} [DecidableEq κ] (t : List (κ × ν)) (k : κ) (h : ∀ e ∈ t, e.1 ≠ k) : tableGet t k = none := by
  unfold tableGet
  rw [Option.map_eq_none_iff, List.find?_eq_none]
  intro e he
  simpa using h e (List.mem_reverse.mp he)

theorem beNat_inj2 (a b : Bytes) (ha : a.length = 2) (hb : b.length = 2) (h : Bytes.beNat a = Bytes.beNat b) : a = b := by
  match a, b, ha, hb with
  | [a0, a1], [b0, b1], _, _ =>
    have h0 := a0.toNat_lt; have h1 := a1.toNat_lt; have h2 := b0.toNat_lt; have h3 := b1.toNat_lt
    simp only [Bytes.beNat, List.foldl_cons, List.foldl_nil, Nat.zero_mul, Nat.zero_add] at h
    have e0 : a0.toNat = b0.toNat := by omega
    have e1 : a1.toNat = b1.toNat := by omega
    rw [UInt8.toNat_inj.mp e0, UInt8.toNat_inj.mp e1]

/-- `split_cipher_suite(suite_id)` for a two-byte `suite_id` (a TLS code point): the model's `resolve` — for each of the
    207 keys of `cipher_suites` by evaluation of the translated definition in the kernel, for every other id because the
    `KeyError` handler returns `None` where the model finds no name -/
theorem split_cipher_suite_eq_model (id : Bytes) (h : id.length = 2) :
    Gen.Py.split_cipher_suite id = .ok (resolve (Bytes.beNat id)) := by
  obtain ⟨ht, _, hlen, _⟩ := cipher_tables_eq_model
  by_cases hk : ∃ e ∈ Gen.Py.cipher_suites, e.1 = id
  · obtain ⟨e, he, rfl⟩ := hk
    have := split_cipher_suite_known e he
    simpa [suiteCode, h] using this
  · have hno : ∀ e ∈ Gen.Py.cipher_suites, e.1 ≠ id := fun e he hid => hk ⟨e, he, hid⟩
    have hpy : tableGetE Gen.Py.cipher_suites id = .error .key := by
      unfold tableGetE; rw [tableGet_none _ _ hno]
    have hmodel : lookupName Gen.cipherSuites (Bytes.beNat id) = none := by
      unfold lookupName
      rw [Option.map_eq_none_iff, List.find?_eq_none, ← ht]
      intro x hx
      obtain ⟨e, he, rfl⟩ := List.mem_map.mp hx
      have hl := hlen e he
      simp only [suiteCode, hl, if_true, beq_iff_eq]
      intro hc
      exact hno e he (beNat_inj2 _ _ hl h hc)
    simp [Gen.Py.split_cipher_suite, hpy, resolve, resolveWith, hmodel]

-- Non-vacuity: a TLS 1.3 suite, an AES-CBC suite with the MAC default, an unknown code point
example : Gen.Py.split_cipher_suite [0x13, 0x01] = .ok (resolve 0x1301) ∧ (resolve 0x1301).isSome ∧
    Gen.Py.split_cipher_suite [0x00, 0x2f] = .ok (resolve 0x002f) ∧ Gen.Py.split_cipher_suite [0xfa, 0xfa] = .ok none := by
  decide +kernel

end TLX.Props.Translated
