/-
Translated Python functions, group Pn: tlexport/quic/quic_session.py `get_full_packet_number`, `set_largest_packet_number`
and the tables they index.
Each `<python name>_eq_model` says the definition regenerated from the tree under test
(`TLX/Gen/Translated/Pn.lean`, written by `harness/translate.py`) EQUALS the hand-written model function.
This module imports only its own group's generated file: a source change outside the group cannot break it.
-/
import TLX.Gen.Translated.Pn
import TLX.Lemmas.Translated.Pn
import TLX.Quic.PktNum
import TLX.Quic.Packet
namespace TLX.Props.Translated
open TLX TLX.PyRt TLX.Lemmas.Translated TLX.Quic.PktNum

/-- `get_full_packet_number`, the whole method (table read, shortcut, A.3 arithmetic on Python integers with `& ~ | <<`,
    `to_bytes(8)`): for a packet-number field of 1–4 bytes and table entries below 2^62 it never raises, returns the field
    itself on the first-packet shortcut and else the 8-byte encoding of the model's `implDecode`. It leaves both tables
    UNCHANGED: the translation has no attribute write at all (its type is `Except Err Bytes`, there is no state record;
    a write to either table would make the spec's read-only places `Untranslatable`). -/
theorem get_full_packet_number_eq_model (srv : Bool) (pn : Bytes) (pnS pnC : Nat)
    (hn : 1 ≤ pn.length ∧ pn.length ≤ 4) (hS : pnS < 2 ^ 62) (hC : pnC < 2 ^ 62) :
    Gen.Py.get_full_packet_number srv pn (Int.ofNat pnS) (Int.ofNat pnC) =
      .ok (if Bytes.beNat pn > (if srv then pnS else pnC) ∧ (if srv then pnS else pnC) = 0 then pn
           else Bytes.ofNatBE 8 (implDecode (2 ^ (8 * pn.length)) (2 ^ 62) (if srv then pnS else pnC) (Bytes.beNat pn))) := by
  have ht : Bytes.beNat pn < 2 ^ (8 * pn.length) := by
    have := beNat_lt pn
    rwa [show (256 : Nat) = 2 ^ 8 by rfl, ← Nat.pow_mul] at this
  have hw : (1 : Nat) <<< (pn.length * 8) = 2 ^ (8 * pn.length) := by
    rw [Nat.shiftLeft_eq, Nat.one_mul, Nat.mul_comm]
  have hb : (1 : Nat) <<< 62 = 2 ^ 62 := by rw [Nat.shiftLeft_eq, Nat.one_mul]
  have hW : 2 ≤ 2 ^ (8 * pn.length) := by
    have : 2 ^ 1 ≤ 2 ^ (8 * pn.length) := Nat.pow_le_pow_right (by omega) (by omega)
    omega
  have h8 : (8 : Int) = Int.ofNat 8 := rfl
  -- both directions: `L` is the entry of the packet's direction
  have key : ∀ L : Nat, L < 2 ^ 62 →
      (if Int.ofNat (Bytes.beNat pn) > Int.ofNat L ∧ Int.ofNat L = 0 then (Except.ok pn : Except Err Bytes)
        else tryE (toBytesE (Int.ofNat (rfcDecode (2 ^ (8 * pn.length)) (2 ^ 62) L (Bytes.beNat pn))) 8)
          (fun py_e => .error py_e) (fun py_t_1 => .ok py_t_1)) =
      .ok (if Bytes.beNat pn > L ∧ L = 0 then pn
           else Bytes.ofNatBE 8 (implDecode (2 ^ (8 * pn.length)) (2 ^ 62) L (Bytes.beNat pn))) := by
    intro L hL
    have hR := implDecode_lt pn.length L (Bytes.beNat pn) hn hL ht
    unfold implDecode at hR ⊢
    by_cases hc : Bytes.beNat pn > L ∧ L = 0
    · have hc' : Int.ofNat (Bytes.beNat pn) > Int.ofNat L ∧ Int.ofNat L = 0 := by
        simp only [Int.ofNat_eq_natCast]; omega
      rw [if_pos hc', if_pos hc]
    · have hc' : ¬ (Int.ofNat (Bytes.beNat pn) > Int.ofNat L ∧ Int.ofNat L = 0) := by
        simp only [Int.ofNat_eq_natCast]; omega
      simp only [hc, if_false] at hR
      simp only [hc, hc', if_false, h8, toBytesE_nat _ 8 hR, tryE_ok]
  cases srv
  · simp only [Gen.Py.get_full_packet_number, hw, hb, Bool.false_eq_true, if_false, mask_or' _ _ _ ht, Bool.and_eq_true,
      decide_eq_true_eq, Bool.not_eq_true', decide_eq_false_iff_not, Int.not_lt, Int.not_le, pn_arith _ _ _ _ hW ht]
    exact key pnC hC
  · simp only [Gen.Py.get_full_packet_number, hw, hb, if_true, mask_or' _ _ _ ht, Bool.and_eq_true,
      decide_eq_true_eq, Bool.not_eq_true', decide_eq_false_iff_not, Int.not_lt, Int.not_le, pn_arith _ _ _ _ hW ht]
    exact key pnS hS

/-- RFC 9000 A.3's own example, through the translated code: largest 0xa82f30ea, field 0x9b32 -/
example : Gen.Py.get_full_packet_number true [0x9b, 0x32] 0xa82f30ea 0 = .ok [0, 0, 0, 0, 0xa8, 0x2f, 0x9b, 0x32] := by
  decide +kernel
example : Gen.Py.get_full_packet_number false [0x07] 5 0 = .ok [0x07] := by decide +kernel

/-- `set_largest_packet_number` on any bytes: the entry of the packet's direction becomes the model's `implUpdate` of the
    old entry and the number the bytes encode; the other direction's entry is untouched (and no other attribute is
    written: the result record has these two fields only) -/
theorem set_largest_packet_number_update (srv : Bool) (b : Bytes) (pnS pnC : Nat) :
    Gen.Py.set_largest_packet_number b srv (Int.ofNat pnS) (Int.ofNat pnC) =
      { pn_server := if srv then Int.ofNat (implUpdate pnS (Bytes.beNat b)) else Int.ofNat pnS,
        pn_client := if srv then Int.ofNat pnC else Int.ofNat (implUpdate pnC (Bytes.beNat b)) } := by
  unfold Gen.Py.set_largest_packet_number implUpdate
  generalize Bytes.beNat b = t
  -- (kept independent of how the comparison is spelled: every combination of the two tests is closed by arithmetic)
  cases srv <;> simp only [Bool.false_eq_true, if_false, if_true, decide_eq_true_eq, Int.ofNat_eq_natCast]
  all_goals
    repeat' split
    all_goals
      try simp only [Gen.Py.set_largest_packet_number.St.mk.injEq, true_and, and_true]
      try omega

/-- `set_largest_packet_number` on the bytes `get_full_packet_number` returned for the same packet and tables (the raw
    field of the shortcut or the 8-byte form): it leaves `implUpdate largest (implDecode …)` in the entry of the packet's
    direction (the space is the table key both methods share, `PACKET_TYPE_MAP[quic_packet.packet_type]`, see
    `packet_number_spaces_eq_model`) and nothing else changed. This is what `decrypt_packet` does after the AEAD check
    succeeded; together the two calls are the model's `PktNum.step`. -/
theorem set_largest_packet_number_eq_model (srv : Bool) (pn b : Bytes) (pnS pnC : Nat)
    (hn : 1 ≤ pn.length ∧ pn.length ≤ 4) (hS : pnS < 2 ^ 62) (hC : pnC < 2 ^ 62)
    (hb : Gen.Py.get_full_packet_number srv pn (Int.ofNat pnS) (Int.ofNat pnC) = .ok b) :
    Gen.Py.set_largest_packet_number b srv (Int.ofNat pnS) (Int.ofNat pnC) =
      { pn_server := if srv then Int.ofNat (implUpdate pnS (implDecode (2 ^ (8 * pn.length)) (2 ^ 62) pnS (Bytes.beNat pn)))
                     else Int.ofNat pnS,
        pn_client := if srv then Int.ofNat pnC
                     else Int.ofNat (implUpdate pnC (implDecode (2 ^ (8 * pn.length)) (2 ^ 62) pnC (Bytes.beNat pn))) } := by
  have ht : Bytes.beNat pn < 2 ^ (8 * pn.length) := by
    have := beNat_lt pn
    rwa [show (256 : Nat) = 2 ^ 8 by rfl, ← Nat.pow_mul] at this
  rw [get_full_packet_number_eq_model srv pn pnS pnC hn hS hC] at hb
  have hb := Except.ok.inj hb
  -- the bytes encode the model's value, in either form
  have hv : ∀ L : Nat, L < 2 ^ 62 →
      Bytes.beNat (if Bytes.beNat pn > L ∧ L = 0 then pn
        else Bytes.ofNatBE 8 (implDecode (2 ^ (8 * pn.length)) (2 ^ 62) L (Bytes.beNat pn))) =
      implDecode (2 ^ (8 * pn.length)) (2 ^ 62) L (Bytes.beNat pn) := by
    intro L hL
    have hR := implDecode_lt pn.length L (Bytes.beNat pn) hn hL ht
    by_cases hc : Bytes.beNat pn > L ∧ L = 0
    · rw [if_pos hc, implDecode, if_pos hc]
    · rw [if_neg hc, beNat_ofNatBE 8 _ hR]
  rw [set_largest_packet_number_update, ← hb]
  cases srv
  · simp only [Bool.false_eq_true, if_false, hv pnC hC]
  · simp only [if_true, hv pnS hS]

/-- the two calls as `decrypt_packet` makes them are one `PktNum.step` on the entry of the packet's direction -/
theorem decode_then_store_is_step (t : Table) (srv : Bool) (ty : PType) (pn b : Bytes)
    (hn : 1 ≤ pn.length ∧ pn.length ≤ 4) (hS : t.get true ty.space < 2 ^ 62) (hC : t.get false ty.space < 2 ^ 62)
    (hb : Gen.Py.get_full_packet_number srv pn (Int.ofNat (t.get true ty.space)) (Int.ofNat (t.get false ty.space)) = .ok b) :
    let r := Gen.Py.set_largest_packet_number b srv (Int.ofNat (t.get true ty.space)) (Int.ofNat (t.get false ty.space))
    (if srv then r.pn_server else r.pn_client) = Int.ofNat ((step t srv ty pn.length (Bytes.beNat pn)).2.get srv ty.space) ∧
    (if srv then r.pn_client else r.pn_server) = Int.ofNat (t.get (!srv) ty.space) := by
  intro r
  have := set_largest_packet_number_eq_model srv pn b _ _ hn hS hC hb
  simp only [r, this]
  cases srv <;> simp [step, Table.set]

example : Gen.Py.set_largest_packet_number [0, 0, 0, 0, 0xa8, 0x2f, 0x9b, 0x32] true 0xa82f30ea 0 =
      { pn_server := 0xa82f9b32, pn_client := 0 } ∧
    Gen.Py.set_largest_packet_number [0x07] false 5 9 = { pn_server := 5, pn_client := 9 } ∧
    Gen.Py.set_largest_packet_number [0x07] false 5 0 = { pn_server := 5, pn_client := 7 } := by decide +kernel

/-- The tables behind the two places of `get_full_packet_number` (`PACKET_TYPE_MAP`, and the two dicts
    `set_packet_number_spaces` creates): every packet type that carries a packet number has a key in `PACKET_TYPE_MAP`
    and that key is in both tables with the value 0 — the reads the translation treats as variables cannot raise
    KeyError and start as the model's `Table.init` —, and two packet types share a table entry exactly when the model
    puts them into the same packet-number space (`Quic.PType.space`: 0-RTT and 1-RTT together). -/
theorem packet_number_spaces_eq_model :
    (∀ t ∈ [Quic.PType.initial, .handshake, .rtt0, .rtt1],
      (tableGet Gen.Py.PACKET_TYPE_MAP t).bind (tableGet Gen.Py.packet_number_server_init) = some 0 ∧
      (tableGet Gen.Py.PACKET_TYPE_MAP t).bind (tableGet Gen.Py.packet_number_client_init) = some 0) ∧
    (∀ a ∈ [Quic.PType.initial, .handshake, .rtt0, .rtt1], ∀ b ∈ [Quic.PType.initial, .handshake, .rtt0, .rtt1],
      (tableGet Gen.Py.PACKET_TYPE_MAP a = tableGet Gen.Py.PACKET_TYPE_MAP b) ↔ (a.space = b.space)) ∧
    -- … and the lookup raises KeyError exactly where the model's `space` is `none` (Retry, Version Negotiation)
    (∀ t ∈ [Quic.PType.initial, .rtt0, .rtt1, .handshake, .retry, .versionNeg],
      (tableGet Gen.Py.PACKET_TYPE_MAP t).isSome = t.space.isSome) := by
  decide

example : tableGet Gen.Py.PACKET_TYPE_MAP .rtt0 = tableGet Gen.Py.PACKET_TYPE_MAP .rtt1 ∧
    tableGet Gen.Py.PACKET_TYPE_MAP .initial ≠ tableGet Gen.Py.PACKET_TYPE_MAP .handshake := by decide

end TLX.Props.Translated
