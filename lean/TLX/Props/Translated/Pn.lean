/-
Translated Python functions, group Pn: tlexport/quic/quic_session.py `get_full_packet_number`.
Each `<python name>_eq_model` says the definition regenerated from the tree under test
(`TLX/Gen/Translated/Pn.lean`, written by `harness/translate.py`) EQUALS the hand-written model function.
This module imports only its own group's generated file: a source change outside the group cannot break it.
-/
import TLX.Gen.Translated.Pn
import TLX.Lemmas.Translated.Pn
import TLX.Quic.PktNum
import TLX.Quic.Packet
namespace TLX.Props.Translated
open TLX TLX.PyRt TLX.Lemmas.Translated TLX.Quic.PktNum

/-- `get_full_packet_number`, the whole method (table read, shortcut, A.3 arithmetic on Python integers with `& ~ | <<`,
    table update, `to_bytes(8)`): for a packet-number field of 1–4 bytes and table entries below 2^62 it never raises,
    returns the field itself on the shortcut and else the 8-byte encoding of the model's `implDecode`, and leaves the
    model's `implUpdate` in the entry of the packet's direction (the other entry untouched). -/
theorem get_full_packet_number_eq_model (srv : Bool) (pn : Bytes) (pnS pnC : Nat)
    (hn : 1 ≤ pn.length ∧ pn.length ≤ 4) (hS : pnS < 2 ^ 62) (hC : pnC < 2 ^ 62) :
    Gen.Py.get_full_packet_number srv pn (Int.ofNat pnS) (Int.ofNat pnC) =
      .ok (if Bytes.beNat pn > (if srv then pnS else pnC) ∧ (if srv then pnS else pnC) = 0 then pn
           else Bytes.ofNatBE 8 (implDecode (2 ^ (8 * pn.length)) (2 ^ 62) (if srv then pnS else pnC) (Bytes.beNat pn)))
        { pn_server := if srv then Int.ofNat (implUpdate pnS (implDecode (2 ^ (8 * pn.length)) (2 ^ 62) pnS (Bytes.beNat pn))) else Int.ofNat pnS,
          pn_client := if srv then Int.ofNat pnC else Int.ofNat (implUpdate pnC (implDecode (2 ^ (8 * pn.length)) (2 ^ 62) pnC (Bytes.beNat pn))) } := by
  have ht : Bytes.beNat pn < 2 ^ (8 * pn.length) := by
    have := beNat_lt pn
    rwa [show (256 : Nat) = 2 ^ 8 by rfl, ← Nat.pow_mul] at this
  have hw : (1 : Nat) <<< (pn.length * 8) = 2 ^ (8 * pn.length) := by
    rw [Nat.shiftLeft_eq, Nat.one_mul, Nat.mul_comm]
  have hb : (1 : Nat) <<< 62 = 2 ^ 62 := by rw [Nat.shiftLeft_eq, Nat.one_mul]
  have hW : 2 ≤ 2 ^ (8 * pn.length) := by
    have : 2 ^ 1 ≤ 2 ^ (8 * pn.length) := Nat.pow_le_pow_right (by omega) (by omega)
    omega
  cases srv
  · simp only [Gen.Py.get_full_packet_number, hw, hb, Bool.false_eq_true, if_false, mask_or' _ _ _ ht, Bool.and_eq_true,
      decide_eq_true_eq, Bool.not_eq_true', decide_eq_false_iff_not, Int.not_lt, Int.not_le, pn_arith _ _ _ _ hW ht]
    have hR : rfcDecode (2 ^ (8 * pn.length)) (2 ^ 62) pnC (Bytes.beNat pn) < 256 ^ 8 := by
      have h1 := rfcDecode_lt (2 ^ (8 * pn.length)) (2 ^ 62) pnC (Bytes.beNat pn) (by omega) ht
      have h2 : 2 ^ (8 * pn.length) ≤ 2 ^ 32 := Nat.pow_le_pow_right (by omega) (by omega)
      generalize 2 ^ (8 * pn.length) = W at *
      generalize rfcDecode W (2 ^ 62) pnC (Bytes.beNat pn) = R at *
      omega
    have := pn_finish false pn pnS pnC _ hR (by simp only [implDecode]; rfl)
    simpa [apply_ite Prod.fst, apply_ite Prod.snd] using this
  · simp only [Gen.Py.get_full_packet_number, hw, hb, if_true, mask_or' _ _ _ ht, Bool.and_eq_true,
      decide_eq_true_eq, Bool.not_eq_true', decide_eq_false_iff_not, Int.not_lt, Int.not_le, pn_arith _ _ _ _ hW ht]
    have hR : rfcDecode (2 ^ (8 * pn.length)) (2 ^ 62) pnS (Bytes.beNat pn) < 256 ^ 8 := by
      have h1 := rfcDecode_lt (2 ^ (8 * pn.length)) (2 ^ 62) pnS (Bytes.beNat pn) (by omega) ht
      have h2 : 2 ^ (8 * pn.length) ≤ 2 ^ 32 := Nat.pow_le_pow_right (by omega) (by omega)
      generalize 2 ^ (8 * pn.length) = W at *
      generalize rfcDecode W (2 ^ 62) pnS (Bytes.beNat pn) = R at *
      omega
    have := pn_finish true pn pnS pnC _ hR (by simp only [implDecode]; rfl)
    simpa [apply_ite Prod.fst, apply_ite Prod.snd] using this


/-- RFC 9000 A.3's own example, through the translated code: largest 0xa82f30ea, field 0x9b32 -/
example : Gen.Py.get_full_packet_number true [0x9b, 0x32] 0xa82f30ea 0 =
    .ok [0, 0, 0, 0, 0xa8, 0x2f, 0x9b, 0x32] { pn_server := 0xa82f9b32, pn_client := 0 } := by decide +kernel
example : Gen.Py.get_full_packet_number false [0x07] 5 0 = .ok [0x07] { pn_server := 5, pn_client := 7 } := by decide +kernel

/-- The tables behind the two places of `get_full_packet_number` (`PACKET_TYPE_MAP`, and the two dicts
    `set_packet_number_spaces` creates): every packet type that carries a packet number has a key in `PACKET_TYPE_MAP`
    and that key is in both tables with the value 0 — the reads the translation treats as variables cannot raise
    KeyError and start as the model's `Table.init` —, and two packet types share a table entry exactly when the model
    puts them into the same packet-number space (`Quic.PType.space`: 0-RTT and 1-RTT together). -/
theorem packet_number_spaces_eq_model :
    (∀ t ∈ [Quic.PType.initial, .handshake, .rtt0, .rtt1],
      (tableGet Gen.Py.PACKET_TYPE_MAP t).bind (tableGet Gen.Py.packet_number_server_init) = some 0 ∧
      (tableGet Gen.Py.PACKET_TYPE_MAP t).bind (tableGet Gen.Py.packet_number_client_init) = some 0) ∧
    (∀ a ∈ [Quic.PType.initial, .handshake, .rtt0, .rtt1], ∀ b ∈ [Quic.PType.initial, .handshake, .rtt0, .rtt1],
      (tableGet Gen.Py.PACKET_TYPE_MAP a = tableGet Gen.Py.PACKET_TYPE_MAP b) ↔ (a.space = b.space)) ∧
    -- … and the lookup raises KeyError exactly where the model's `space` is `none` (Retry, Version Negotiation)
    (∀ t ∈ [Quic.PType.initial, .rtt0, .rtt1, .handshake, .retry, .versionNeg],
      (tableGet Gen.Py.PACKET_TYPE_MAP t).isSome = t.space.isSome) := by
  decide

example : tableGet Gen.Py.PACKET_TYPE_MAP .rtt0 = tableGet Gen.Py.PACKET_TYPE_MAP .rtt1 ∧
    tableGet Gen.Py.PACKET_TYPE_MAP .initial ≠ tableGet Gen.Py.PACKET_TYPE_MAP .handshake := by decide

end TLX.Props.Translated
