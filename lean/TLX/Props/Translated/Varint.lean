/-
Translated Python functions, group Varint: tlexport/quic/quic_decode.py.
Each `<python name>_eq_model` says the definition regenerated from the tree under test
(`TLX/Gen/Translated/Varint.lean`, written by `harness/translate.py`) EQUALS the hand-written model function.
This module imports only its own group's generated file: a source change outside the group cannot break it.
-/
import TLX.Gen.Translated.Varint
import TLX.Props.Translated.Enc
import TLX.Quic.Varint
namespace TLX.Props.Translated
open TLX TLX.PyRt

theorem get_variable_length_int_length_eq_model (b : Bytes) :
    Gen.Py.get_variable_length_int_length b = ofOpt (Quic.Varint.getVarintLength b) := by
  cases b with
  | nil => simp [Gen.Py.get_variable_length_int_length, Quic.Varint.getVarintLength, ofOpt]
  | cons x r =>
    simp [Gen.Py.get_variable_length_int_length, Quic.Varint.getVarintLength, ofOpt, Quic.Varint.varintLen]

example : Gen.Py.get_variable_length_int_length [0x9d, 0x7f] = .ok 4 := by decide

theorem decode_variable_length_int_eq_model (b : Bytes) :
    Gen.Py.decode_variable_length_int b = ofOpt (Quic.Varint.decodeVarint b) := by
  cases b with
  | nil => simp [Gen.Py.decode_variable_length_int, Quic.Varint.decodeVarint, ofOpt]
  | cons x r =>
    simp only [Gen.Py.decode_variable_length_int, getItem_cons_zero, forE_be, Quic.Varint.decodeVarint,
      Quic.Varint.varintLen, List.drop_succ_cons, List.drop_zero, tryE_ok, List.length_cons, Nat.add_sub_cancel]
    by_cases h : r.length < 1 <<< (x.toNat >>> 6) - 1 <;> simp [h, ofOpt]

example : Gen.Py.decode_variable_length_int [0x7b, 0xbd] = .ok 15293 ∧
    Gen.Py.decode_variable_length_int [0x7b] = .error .index := by decide

end TLX.Props.Translated
