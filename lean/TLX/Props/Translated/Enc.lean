/-
The encoding maps between Python-level values and model values shared by the groups of `Props/Translated/` (no generated
file is imported here).
-/
import TLX.Lemmas.PyRt
import TLX.MainLoop
namespace TLX.Props.Translated
open TLX TLX.PyRt

/-- a model's `none` for IndexError -/
def ofOpt {α : Type} : Option α → Except Err α
  | none => .error .index
  | some a => .ok a

/-- continue with the value of a model `Option`, IndexError on `none` -/
def obind {α β : Type} (o : Option α) (K : α → Except Err β) : Except Err β :=
  match o with
  | none => .error .index
  | some a => K a

@[simp] theorem obind_none {α β : Type} (K : α → Except Err β) : obind none K = .error .index := rfl
@[simp] theorem obind_some {α β : Type} (a : α) (K : α → Except Err β) : obind (some a) K = K a := rfl

theorem ofOpt_bind {α β : Type} (o : Option α) (f : α → Option β) : ofOpt (o.bind f) = obind o (fun a => ofOpt (f a)) := by
  cases o <;> rfl

theorem map_obind {α β γ : Type} (g : β → γ) (o : Option α) (K : α → Except Err β) :
    Except.map g (obind o K) = obind o (fun a => Except.map g (K a)) := by
  cases o <;> rfl

theorem obind_map {α β γ : Type} (g : α → β) (o : Option α) (K : β → Except Err γ) :
    obind (o.map g) K = obind o (fun a => K (g a)) := by
  cases o <;> rfl

theorem obind_congr {α β : Type} (o : Option α) (K K' : α → Except Err β) (h : ∀ a, K a = K' a) : obind o K = obind o K' := by
  cases o with
  | none => rfl
  | some a => exact h a

theorem tryE_obind {α β γ : Type} (o : Option α) (K' : α → Except Err β) (K : β → Except Err γ) :
    tryE (obind o K') (fun e => .error e) K = obind o (fun a => tryE (K' a) (fun e => .error e) K) := by
  cases o <;> rfl

theorem exc_map_map {α β γ : Type} (x : Except Err α) (f : α → β) (g : β → γ) :
    (x.map f).map g = x.map (fun a => g (f a)) := by
  cases x <;> rfl

/-- `==` on byte strings as the translation (`decide (a = b)`) and the models (`a == b`) spell it -/
theorem decide_eq_beq (a b : Bytes) : decide (a = b) = (a == b) := by
  rw [Bool.eq_iff_iff]; simp

theorem tryE_ofOpt {α β : Type} (o : Option α) (K : α → Except Err β) :
    tryE (ofOpt o) (fun e => .error e) K = obind o K := by
  cases o <;> rfl

/-- functions of `datagram_data[0]`: IndexError on `b""`, else the model's function of the first byte -/
def onFirst {α : Type} (d : Bytes) (f : UInt8 → α) : Except Err α :=
  match d with
  | [] => .error .index
  | fb :: _ => .ok (f fb)

/-- `Endpoint` equality is equality of address and port (the translated code compares them one by one) -/
theorem endpoint_beq (a b : MainLoop.Endpoint) : (a == b) = (decide (a.ip = b.ip) && decide (a.port = b.port)) := by
  cases a; cases b
  simp only [BEq.beq, MainLoop.Endpoint.mk.injEq]
  simp [Bool.decide_and]

end TLX.Props.Translated
