/-
The encoding maps between Python-level values and model values shared by the groups of `Props/Translated/` (no generated
file is imported here).
-/
import TLX.Lemmas.PyRt
import TLX.MainLoop
namespace TLX.Props.Translated
open TLX TLX.PyRt

/-- a model's `none` for IndexError -/
def ofOpt {α : Type} : Option α → Except Err α
  | none => .error .index
  | some a => .ok a

/-- functions of `datagram_data[0]`: IndexError on `b""`, else the model's function of the first byte -/
def onFirst {α : Type} (d : Bytes) (f : UInt8 → α) : Except Err α :=
  match d with
  | [] => .error .index
  | fb :: _ => .ok (f fb)

/-- `Endpoint` equality is equality of address and port (the translated code compares them one by one) -/
theorem endpoint_beq (a b : MainLoop.Endpoint) : (a == b) = (decide (a.ip = b.ip) && decide (a.port = b.port)) := by
  cases a; cases b
  simp only [BEq.beq, MainLoop.Endpoint.mk.injEq]
  simp [Bool.decide_and]

end TLX.Props.Translated
