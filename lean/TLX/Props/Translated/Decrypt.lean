/-
Translated Python functions, group Decrypt: tlexport/decryptor.py — `byte_xor`, `get_cipher_type`, `update_keys`, the four AEAD
routines (`decrypt_tls13_aead`, `decrypt_tls13_stream_cipher`, `decrypt_tls12_chacha20`, `decrypt_tls12_aead`) and the dispatch
`decrypt` — against `TLX/RecordLayer.lean`.

Outside the model and therefore parameters: `cipher.decrypt(nonce, data, aad)` of an AEAD object (`aeadOpen`; the object is what its
constructor got, `Gen.Py.AeadObj`), `self.inflate` (compression is not modelled: the theorems take `compression_method = 0`), and, in
the dispatch, the seven routines themselves. The theorems build `aeadOpen` from the model's `Prims.aeadOpen` (`aeadOf`).
Logging calls are translated with their effects: `{key.hex()}` inside an f-string raises AttributeError for a `None` key — the
model's `hexOf`. The flat attribute state of the translation stands for the model's `(cfg, client DirSt, server DirSt)` (`encD`).
NOT translated (and therefore parameters of the dispatch only): `decrypt_generic_stream_cipher` (the RC4 context is an object two
attributes alias), `decrypt_tls12_block_cipher` and `decrypt_last_block_iv_cbc` (`Cipher(…).decryptor()` objects,
`int(self.block_length / 8)`), `__init__` / `parse_keys` (a `keys` dict of mixed content).
This module imports only its own group's generated file.
-/
import TLX.Gen.Translated.Decrypt
import TLX.Props.Translated.Enc
import TLX.RecordLayer
namespace TLX.Props.Translated.Decr
open TLX TLX.PyRt TLX.RecordLayer TLX.Cipher TLX.Gen.Py

/-- the model's exception kinds as the translator's (the three kinds of `cryptography` the translator has no name for are
    ValueError here: the externals are built with this map, nothing in the translated code tells the kinds apart) -/
def errOf : Cipher.PyErr → Err
  | .index => .index | .key => .key | .attr => .attr | .unbound => .unbound | .overflow => .overflow | .value => .value
  | .type => .type | .invalidTag => .value | .unsupported => .value | .other => .value

def ofPy {α : Type} : Cipher.Py α → Except Err α
  | .ok a => .ok a
  | .error e => .error (errOf e)

theorem xor_u8 (a b : UInt8) : UInt8.ofNat (a.toNat ^^^ b.toNat) = a ^^^ b := by
  rw [← UInt8.toNat_inj]
  simp [UInt8.toNat_xor]

/-- the loop of `byte_xor` over two strings of the same length -/
theorem xor_loop (x y : Bytes) (h : x.length = y.length) : ∀ (m k : Nat) (acc : Bytes), k + m = x.length →
    forE (List.range' k m) acc (fun (py_s : Bytes) (i : Nat) =>
        tryE (getItem x (Int.ofNat i)) (fun e => .error e) (fun p =>
          tryE (getItem y (Int.ofNat i)) (fun e => .error e) (fun q =>
            tryE (appendByteE py_s (Int.ofNat (p ^^^ q))) (fun e => .error e) (fun r => .ok r))))
      = .ok (acc ++ RecordLayer.xorZip (x.drop k) (y.drop k)) := by
  intro m
  induction m with
  | zero =>
    intro k acc hk
    simp only [Nat.add_zero] at hk
    have hx : x.drop k = [] := List.drop_eq_nil_of_le (by omega)
    have hy : y.drop k = [] := List.drop_eq_nil_of_le (by omega)
    simp [forE, RecordLayer.xorZip, hx, hy]
  | succ n ih =>
    intro k acc hk
    have hkx : k < x.length := by omega
    have hky : k < y.length := by omega
    generalize hxe : x[k] = xa
    generalize hye : y[k] = ya
    have hxa : x[k]? = some xa := by rw [List.getElem?_eq_getElem hkx, hxe]
    have hya : y[k]? = some ya := by rw [List.getElem?_eq_getElem hky, hye]
    have hlt : xa.toNat ^^^ ya.toNat < 256 := Nat.xor_lt_two_pow (n := 8) xa.toNat_lt ya.toNat_lt
    have happ : appendByteE acc (Int.ofNat (xa.toNat ^^^ ya.toNat)) = .ok (acc ++ [xa ^^^ ya]) := by
      unfold appendByteE
      simp only [Int.ofNat_eq_natCast]
      have : ¬ (((xa.toNat ^^^ ya.toNat : Nat) : Int) < 0 ∨ ((xa.toNat ^^^ ya.toNat : Nat) : Int) ≥ 256) := by omega
      rw [if_neg this]
      simp only [Int.toNat_natCast, xor_u8]
    have gx : getItem x (Int.ofNat k) = .ok xa.toNat := by rw [getItem_nat, hxa]
    have gy : getItem y (Int.ofNat k) = .ok ya.toNat := by rw [getItem_nat, hya]
    simp only [List.range'_succ, forE, gx, gy, tryE_ok, happ]
    rw [ih (k + 1) _ (by omega)]
    have dx : x.drop k = xa :: x.drop (k + 1) := by
      rw [List.drop_eq_getElem_cons hkx, hxe]
    have dy : y.drop k = ya :: y.drop (k + 1) := by
      rw [List.drop_eq_getElem_cons hky, hye]
    rw [dx, dy]
    simp [RecordLayer.xorZip, List.append_assoc]

theorem byte_xor_eq_model (a b : Bytes) : Dec.byte_xor a b = ofPy (byteXor a b) := by
  unfold Dec.byte_xor byteXor zerosE
  simp only [Int.ofNat_eq_natCast]
  by_cases h : a.length < b.length
  · have : ((a.length : Int) - (b.length : Int) < 0) := by omega
    simp [this, h, ofPy, errOf]
  · have h1 : ¬ ((a.length : Int) - (b.length : Int) < 0) := by omega
    have h2 : ((a.length : Int) - (b.length : Int)).toNat = a.length - b.length := by omega
    simp only [h1, h, if_false, tryE_ok, h2, Nat.sub_zero]
    have hl : a.length = (List.replicate (a.length - b.length) (0 : UInt8) ++ b).length := by simp; omega
    have := xor_loop a (List.replicate (a.length - b.length) 0 ++ b) hl a.length 0 [] (by omega)
    simp only [List.drop_zero, List.nil_append, Int.ofNat_eq_natCast] at this
    simp only [this, tryE_ok, ofPy]

/-- the attributes the model does not carry -/
structure DX where
  lbs : Option (Option Bytes)
  lbc : Option (Option Bytes)

/-- the translated state that stands for the model's `Dec` (the TLS 1.3 key attributes exist iff `has13`) -/
def encD (d : Dec) (x : DX) : Dec.St :=
  { server_key := d.s.key, server_iv := d.s.iv, client_key := d.c.key, client_iv := d.c.iv,
    server_seq := d.s.seq, client_seq := d.c.seq, last_block_server := x.lbs, last_block_client := x.lbc,
    server_handshake_key := if d.cfg.has13 then some d.s.hsKey else none,
    server_handshake_iv := if d.cfg.has13 then some d.s.hsIv else none,
    server_application_key := if d.cfg.has13 then some d.s.appKey else none,
    server_application_iv := if d.cfg.has13 then some d.s.appIv else none,
    client_handshake_key := if d.cfg.has13 then some d.c.hsKey else none,
    client_handshake_iv := if d.cfg.has13 then some d.c.hsIv else none,
    client_application_key := if d.cfg.has13 then some d.c.appKey else none,
    client_application_iv := if d.cfg.has13 then some d.c.appIv else none,
    cipher_type := some d.cfg.ctype }

/-- a model result as the translation's -/
def resOf {α : Type} (x : DX) : RecordLayer.Res α → PyRt.Res Dec.St α
  | .ok a d => .ok a (encD d x)
  | .err e d => .raised (errOf e) (encD d x)

theorem get_cipher_type_eq_model (v : Version) (bulk : Alg) (ml tl bl : Nat) (etm : Bool) (cm : Nat) (st : Dec.St) :
    Dec.get_cipher_type v bulk ml tl bl etm cm st = .ok () { st with cipher_type := some (cipherType bulk) } := by
  unfold Dec.get_cipher_type
  cases bulk <;> rfl

theorem update_keys_eq_model (d : Dec) (x : DX) (srv : Bool) (cm : Nat) :
    Dec.update_keys srv d.cfg.version d.cfg.bulk d.cfg.macLen d.cfg.tagLen d.cfg.blockLen d.cfg.etm cm (encD d x)
      = resOf x (d.updateKeys srv) := by
  obtain ⟨cfg, c, s⟩ := d
  unfold Dec.update_keys Dec.updateKeys
  cases srv <;> cases h13 : cfg.has13
  all_goals simp only [encD, h13, Bool.false_eq_true, if_false, if_true, attrE_none, attrE_some, tryE_error, tryE_ok, Dec.get, Bool.not_false,
    Bool.not_true, resOf, errOf]
  · rcases hk : c.hsKey with _ | a <;> rcases ha : c.appKey with _ | b <;> rcases hi : c.hsIv with _ | c' <;> rcases hj : c.appIv with _ | e <;>
      simp [encD, h13, Dec.set, hk, ha, hi, hj, resOf, errOf]
  · rcases hk : s.hsKey with _ | a <;> rcases ha : s.appKey with _ | b <;> rcases hi : s.hsIv with _ | c' <;> rcases hj : s.appIv with _ | e <;>
      simp [encD, h13, Dec.set, hk, ha, hi, hj, resOf, errOf]

/-- `cipher.decrypt(nonce, data, associated_data)` of an AEAD object as the model's primitive gives it -/
def aeadOf (P : Prims) (o : AeadObj) (nonce ct aad : Bytes) : Except Err Bytes :=
  ofPy (P.aeadOpen o.alg o.key nonce aad (o.tag.getD 16) ct)

/-- the result of one routine -/
def resB (d : Dec) (x : DX) : Py (Bytes × Dec) → PyRt.Res Dec.St Bytes
  | .ok (pt, d') => .ok pt (encD d' x)
  | .error e => .raised (errOf e) (encD d x)

theorem toBytesE_toBE (z : Int) (k : Nat) : toBytesE z (k : Int) = ofPy (toBE k z) := by
  unfold toBytesE toBE
  have hk : ¬ ((k : Int) < 0) := by omega
  simp only [hk, if_false, Int.toNat_natCast]
  by_cases hz : z < 0
  · simp [hz, ofPy, errOf]
  · simp only [hz, false_or, if_false]
    have e : (z ≥ (256 : Int) ^ k) ↔ ¬ (z.toNat < 256 ^ k) := by
      have : ((256 ^ k : Nat) : Int) = (256 : Int) ^ k := by simp
      constructor
      · intro h; omega
      · intro h; omega
    by_cases h2 : z.toNat < 256 ^ k
    · have : ¬ (z ≥ (256 : Int) ^ k) := by rw [e]; simpa using h2
      simp [this, h2, ofPy]
    · have : (z ≥ (256 : Int) ^ k) := by rw [e]; exact h2
      simp [this, h2, ofPy, errOf]

theorem toBE8 (n : Nat) : toBytesE (Int.ofNat n) (8 : Int) = ofPy (toBE 8 (n : Int)) := toBytesE_toBE n 8
theorem toBE8' (n : Nat) : toBytesE (n : Int) (8 : Int) = ofPy (toBE 8 (n : Int)) := toBytesE_toBE n 8
theorem toBE2 (z : Int) : toBytesE z (2 : Int) = ofPy (toBE 2 z) := toBytesE_toBE z 2
theorem typ1 (r : Rec) : toBytesE (Int.ofNat (Dec.recType r)) (1 : Int) = .ok [r.typ] := by
  have := toBytesE_nat r.typ.toNat 1 (by have := r.typ.toNat_lt; omega)
  simp only [Dec.recType]
  rw [show (1 : Int) = Int.ofNat 1 from rfl, this]
  simp [Bytes.ofNatBE, Nat.mod_eq_of_lt r.typ.toNat_lt]

macro "dec_close" : tactic =>
  `(tactic| simp [resB, ofPy, errOf, bumpSeq, Dec.get, Dec.set, encD, bind, Except.bind, pure, Except.pure, hexOf])

theorem typ1' (r : Rec) : toBytesE ((Dec.recType r : Nat) : Int) (1 : Int) = .ok [r.typ] := typ1 r

theorem decrypt_tls13_stream_cipher_eq_model (P : Prims) (infl : Bytes → Bool → Except Err Bytes) (d : Dec) (x : DX) (r : Rec) (srv : Bool) :
    Dec.decrypt_tls13_stream_cipher (aeadOf P) infl r srv d.cfg.version d.cfg.bulk d.cfg.macLen d.cfg.tagLen d.cfg.blockLen d.cfg.etm 0 (encD d x)
      = resB d x (tls13Stream P r srv d) := by
  obtain ⟨cfg, ⟨ck, ci, cseq, cl, crc, chk, chi, cak, cai⟩, ⟨sk, si, sseq, sl, src, shk, shi, sak, sai⟩⟩ := d
  unfold Dec.decrypt_tls13_stream_cipher tls13Stream
  cases srv
  · simp only [typ1, tryE_ok, Bool.false_eq_true, if_false, encD, Dec.get, toBE8, byte_xor_eq_model, aeadOf, hexOf]
    rcases ck with _ | key <;> rcases ci with _ | iv <;> (try dec_close)
    cases toBE 8 (cseq : Int) with
    | error e => dec_close
    | ok s8 =>
      simp only [ofPy, tryE_ok]
      cases byteXor iv s8 with
      | error e => dec_close
      | ok nonce =>
        simp only [tryE_ok]
        cases P.aeadOpen Alg.chachaPoly key nonce _ _ r.body <;> dec_close
  · simp only [typ1, tryE_ok, if_true, encD, Dec.get, toBE8, byte_xor_eq_model, aeadOf, hexOf]
    rcases sk with _ | key <;> rcases si with _ | iv <;> (try dec_close)
    cases toBE 8 (sseq : Int) with
    | error e => dec_close
    | ok s8 =>
      simp only [ofPy, tryE_ok]
      cases byteXor iv s8 with
      | error e => dec_close
      | ok nonce =>
        simp only [tryE_ok]
        cases P.aeadOpen Alg.chachaPoly key nonce _ _ r.body <;> dec_close

theorem decrypt_tls13_aead_eq_model (P : Prims) (infl : Bytes → Bool → Except Err Bytes) (d : Dec) (x : DX) (r : Rec) (srv : Bool) :
    Dec.decrypt_tls13_aead (aeadOf P) infl r srv d.cfg.version d.cfg.bulk d.cfg.macLen d.cfg.tagLen d.cfg.blockLen d.cfg.etm 0 (encD d x)
      = resB d x (tls13Aead P r srv d) := by
  obtain ⟨⟨ver, bulk, ctype, macLen, tagLen, blockLen, etm, has13⟩, ⟨ck, ci, cseq, cl, crc, chk, chi, cak, cai⟩, ⟨sk, si, sseq, sl, src, shk, shi, sak, sai⟩⟩ := d
  unfold Dec.decrypt_tls13_aead tls13Aead
  cases srv
  · simp only [typ1, tryE_ok, Bool.false_eq_true, if_false, encD, Dec.get, toBE8, byte_xor_eq_model, aeadOf, hexOf]
    rcases ck with _ | key <;> rcases ci with _ | iv <;> (try dec_close)
    cases toBE 8 (cseq : Int) with
    | error e => dec_close
    | ok s8 =>
      simp only [ofPy, tryE_ok]
      cases byteXor iv s8 with
      | error e => dec_close
      | ok nonce =>
        simp only [tryE_ok]
        cases bulk
        all_goals simp only [reduceCtorEq, decide_false, decide_true, if_true, if_false, Bool.false_eq_true, tryE_ok, tryE_error, aeadByBulk]
        all_goals first
          | dec_close
          | (cases P.aeadOpen _ key nonce _ _ r.body <;> dec_close)
  · simp only [typ1, tryE_ok, if_true, encD, Dec.get, toBE8, byte_xor_eq_model, aeadOf, hexOf]
    rcases sk with _ | key <;> rcases si with _ | iv <;> (try dec_close)
    cases toBE 8 (sseq : Int) with
    | error e => dec_close
    | ok s8 =>
      simp only [ofPy, tryE_ok]
      cases byteXor iv s8 with
      | error e => dec_close
      | ok nonce =>
        simp only [tryE_ok]
        cases bulk
        all_goals simp only [reduceCtorEq, decide_false, decide_true, if_true, if_false, Bool.false_eq_true, tryE_ok, tryE_error, aeadByBulk]
        all_goals first
          | dec_close
          | (cases P.aeadOpen _ key nonce _ _ r.body <;> dec_close)

theorem slice_zero' (b : Bytes) (n : Nat) : Bytes.slice b 0 n = b.take n := by simp [Bytes.slice]

theorem decrypt_tls12_chacha20_eq_model (P : Prims) (infl : Bytes → Bool → Except Err Bytes) (d : Dec) (x : DX) (r : Rec) (srv : Bool) :
    Dec.decrypt_tls12_chacha20 (aeadOf P) infl r srv d.cfg.version d.cfg.bulk d.cfg.macLen d.cfg.tagLen d.cfg.blockLen d.cfg.etm 0 (encD d x)
      = resB d x (tls12Chacha P r srv d) := by
  obtain ⟨⟨ver, bulk, ctype, macLen, tagLen, blockLen, etm, has13⟩, ⟨ck, ci, cseq, cl, crc, chk, chi, cak, cai⟩, ⟨sk, si, sseq, sl, src, shk, shi, sak, sai⟩⟩ := d
  unfold Dec.decrypt_tls12_chacha20 tls12Chacha
  cases srv
  · simp only [Int.ofNat_eq_natCast, typ1', tryE_ok, Bool.false_eq_true, if_false, encD, Dec.get, toBE8', toBE2, byte_xor_eq_model, aeadOf, hexOf,
      show decide ((0 : Nat) = 1) = false from rfl, slice_zero']
    rcases ck with _ | key <;> rcases ci with _ | iv <;> (try dec_close)
    cases toBE 8 (cseq : Int) with
    | error e => dec_close
    | ok s8 =>
      simp only [ofPy, tryE_ok]
      cases toBE 2 _ with
      | error e => dec_close
      | ok cl2 =>
        simp only [tryE_ok]
        cases byteXor iv s8 with
        | error e => dec_close
        | ok nonce =>
          simp only [tryE_ok]
          cases P.aeadOpen Alg.chachaPoly key nonce _ _ r.body <;> dec_close
  · simp only [Int.ofNat_eq_natCast, typ1', tryE_ok, if_true, encD, Dec.get, toBE8', toBE2, byte_xor_eq_model, aeadOf, hexOf,
      show decide ((0 : Nat) = 1) = false from rfl, slice_zero']
    rcases sk with _ | key <;> rcases si with _ | iv <;> (try dec_close)
    cases toBE 8 (sseq : Int) with
    | error e => dec_close
    | ok s8 =>
      simp only [ofPy, tryE_ok]
      cases toBE 2 _ with
      | error e => dec_close
      | ok cl2 =>
        simp only [tryE_ok]
        cases byteXor iv s8 with
        | error e => dec_close
        | ok nonce =>
          simp only [tryE_ok]
          cases P.aeadOpen Alg.chachaPoly key nonce _ _ r.body <;> dec_close

theorem decrypt_tls12_aead_eq_model (P : Prims) (infl : Bytes → Bool → Except Err Bytes) (d : Dec) (x : DX) (r : Rec) (srv : Bool) :
    Dec.decrypt_tls12_aead (aeadOf P) infl r srv d.cfg.version d.cfg.bulk d.cfg.macLen d.cfg.tagLen d.cfg.blockLen d.cfg.etm 0 (encD d x)
      = resB d x (tls12Aead P r srv d) := by
  obtain ⟨⟨ver, bulk, ctype, macLen, tagLen, blockLen, etm, has13⟩, ⟨ck, ci, cseq, cl, crc, chk, chi, cak, cai⟩, ⟨sk, si, sseq, sl, src, shk, shi, sak, sai⟩⟩ := d
  unfold Dec.decrypt_tls12_aead tls12Aead
  cases srv
  · simp only [Int.ofNat_eq_natCast, typ1', tryE_ok, Bool.false_eq_true, if_false, encD, Dec.get, toBE8', toBE2, byte_xor_eq_model, aeadOf, hexOf,
      show decide ((0 : Nat) = 1) = false from rfl, slice_zero']
    rcases ck with _ | key <;> rcases ci with _ | iv <;> (try dec_close)
    cases toBE 8 (cseq : Int) with
    | error e => dec_close
    | ok s8 =>
      simp only [ofPy, tryE_ok]
      cases toBE 2 _ with
      | error e => dec_close
      | ok cl2 =>
        simp only [tryE_ok]
        cases bulk
        all_goals simp only [reduceCtorEq, decide_false, decide_true, if_true, if_false, Bool.false_eq_true, tryE_ok, tryE_error, aeadByBulk]
        all_goals first
          | dec_close
          | (cases P.aeadOpen _ key _ _ _ _ <;> dec_close)
  · simp only [Int.ofNat_eq_natCast, typ1', tryE_ok, if_true, encD, Dec.get, toBE8', toBE2, byte_xor_eq_model, aeadOf, hexOf,
      show decide ((0 : Nat) = 1) = false from rfl, slice_zero']
    rcases sk with _ | key <;> rcases si with _ | iv <;> (try dec_close)
    cases toBE 8 (sseq : Int) with
    | error e => dec_close
    | ok s8 =>
      simp only [ofPy, tryE_ok]
      cases toBE 2 _ with
      | error e => dec_close
      | ok cl2 =>
        simp only [tryE_ok]
        cases bulk
        all_goals simp only [reduceCtorEq, decide_false, decide_true, if_true, if_false, Bool.false_eq_true, tryE_ok, tryE_error, aeadByBulk]
        all_goals first
          | dec_close
          | (cases P.aeadOpen _ key _ _ _ _ <;> dec_close)

theorem lift_resB (d : Dec) (x : DX) (y : Py (Bytes × Dec)) :
    tryR (resB d x y) (fun e st' => Res.raised e st') (fun v st' => Res.ok (some v) st') = resOf x (lift d y) := by
  rcases y with e | ⟨pt, d'⟩ <;> rfl

/-- `Decryptor.decrypt`: the dispatch over TLS version, cipher type and algorithm is the model's; the seven routines are parameters
    (four of them are the translated routines above, see `decrypt_eq_model'`) -/
theorem decrypt_eq_model (P : Prims) (R1 R2 R3 R4 R5 R6 R7 : Dec.St → Rec → Bool → PyRt.Res Dec.St Bytes) (d : Dec) (x : DX) (r : Rec) (srv : Bool)
    (h1 : R1 (encD d x) r srv = resB d x (tls13Aead P r srv d)) (h2 : R2 (encD d x) r srv = resB d x (tls13Stream P r srv d))
    (h3 : R3 (encD d x) r srv = resB d x (tls12Chacha P r srv d)) (h4 : R4 (encD d x) r srv = resB d x (genericStream P r srv d))
    (h5 : R5 (encD d x) r srv = resB d x (tls12Aead P r srv d)) (h6 : R6 (encD d x) r srv = resB d x (tls12Block P r srv d))
    (h7 : R7 (encD d x) r srv = resB d x (lastBlockCbc P r srv d)) (cm : Nat) :
    Gen.Py.Dec.decrypt R1 R2 R3 R4 R5 R6 R7 r srv d.cfg.version d.cfg.bulk d.cfg.macLen d.cfg.tagLen d.cfg.blockLen d.cfg.etm cm (encD d x)
      = resOf x (d.decrypt P r srv) := by
  unfold Gen.Py.Dec.decrypt RecordLayer.Dec.decrypt
  simp only [h1, h2, h3, h4, h5, h6, h7, lift_resB]
  have hct : (encD d x).cipher_type = some d.cfg.ctype := rfl
  simp only [hct, attrE_some, tryE_ok]
  cases d.cfg.version <;> cases d.cfg.ctype <;> cases d.cfg.bulk <;> simp [resOf]

/-- the dispatch with the four translated routines in place -/
theorem decrypt_eq_model' (P : Prims) (infl : Bytes → Bool → Except Err Bytes) (R4 R6 R7 : Dec.St → Rec → Bool → PyRt.Res Dec.St Bytes)
    (d : Dec) (x : DX) (r : Rec) (srv : Bool)
    (h4 : R4 (encD d x) r srv = resB d x (genericStream P r srv d)) (h6 : R6 (encD d x) r srv = resB d x (tls12Block P r srv d))
    (h7 : R7 (encD d x) r srv = resB d x (lastBlockCbc P r srv d)) :
    Gen.Py.Dec.decrypt
        (fun st r srv => Dec.decrypt_tls13_aead (aeadOf P) infl r srv d.cfg.version d.cfg.bulk d.cfg.macLen d.cfg.tagLen d.cfg.blockLen d.cfg.etm 0 st)
        (fun st r srv => Dec.decrypt_tls13_stream_cipher (aeadOf P) infl r srv d.cfg.version d.cfg.bulk d.cfg.macLen d.cfg.tagLen d.cfg.blockLen d.cfg.etm 0 st)
        (fun st r srv => Dec.decrypt_tls12_chacha20 (aeadOf P) infl r srv d.cfg.version d.cfg.bulk d.cfg.macLen d.cfg.tagLen d.cfg.blockLen d.cfg.etm 0 st)
        R4
        (fun st r srv => Dec.decrypt_tls12_aead (aeadOf P) infl r srv d.cfg.version d.cfg.bulk d.cfg.macLen d.cfg.tagLen d.cfg.blockLen d.cfg.etm 0 st)
        R6 R7 r srv d.cfg.version d.cfg.bulk d.cfg.macLen d.cfg.tagLen d.cfg.blockLen d.cfg.etm 0 (encD d x)
      = resOf x (d.decrypt P r srv) :=
  decrypt_eq_model P _ _ _ R4 _ R6 R7 d x r srv (decrypt_tls13_aead_eq_model P infl d x r srv) (decrypt_tls13_stream_cipher_eq_model P infl d x r srv)
    (decrypt_tls12_chacha20_eq_model P infl d x r srv) h4 (decrypt_tls12_aead_eq_model P infl d x r srv) h6 h7 0

example : Dec.byte_xor [1, 2, 3, 4] [5, 6] = .ok [1, 2, 6, 2] ∧ Dec.byte_xor [1] [5, 6] = .error .value := by decide

end TLX.Props.Translated.Decr
