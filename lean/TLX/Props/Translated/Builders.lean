/-
Translated Python functions, group Builders: the output builders (tlexport/quic/quic_output_builder.py `QUICOutputbuilder.build`,
tlexport/output_builder.py `OutputBuilder.build` and the three methods it calls) against `TLX/Quic/UdpOut.lean` and `TLX/TcpOut.lean`.
A scapy packet is the list of its layers as constructed (`Gen.Py.Layer`: the keyword arguments the code gives; `/` stacks) — scapy
itself is outside the model (what it serialises is compared byte for byte by the harness). The theorems say that the emitted packets,
in order, are the model's frames / datagrams, each as the layers the code stacks for its direction.
This module imports only its own group's generated file.
-/
import TLX.Gen.Translated.Builders
import TLX.Props.Translated.Enc
import TLX.Quic.UdpOut
import TLX.TcpOut
namespace TLX.Props.Translated.Bld
open TLX TLX.PyRt TLX.Quic.UdpOut TLX.Gen.Py

/-- the addresses of a builder object -/
structure Cfg where
  server_mac : Bytes
  client_mac : Bytes
  server_ip : List Nat
  client_ip : List Nat
  server_port : Nat
  client_port : Nat
  ipv6 : Bool

/-- the scapy layers of an output datagram. `enc`: the client-to-server IPv6 packet built INSIDE the loop passes the
    addresses through `.encode()` (bytes), the one built after the loop does not -/
def udpPkt (c : Cfg) (cb sb : Bytes) (enc : Bool) (d : Dgram) : Layers × Option Nat :=
  (if d.isServer then
      mkEther c.server_mac c.client_mac ++ mkIP c.ipv6 (.inl c.server_ip) (.inl c.client_ip) ++ mkUDP c.client_port c.server_port ++ mkRaw d.payload
    else if c.ipv6 && enc then
      mkEther c.client_mac c.server_mac ++ mkIP true (.inr cb) (.inr sb) ++ mkUDP c.server_port c.client_port ++ mkRaw d.payload
    else
      mkEther c.client_mac c.server_mac ++ mkIP c.ipv6 (.inl c.client_ip) (.inl c.server_ip) ++ mkUDP c.server_port c.client_port ++ mkRaw d.payload,
   some d.ts)

abbrev LSt := Option Nat × Option Bool × Bytes × List (Layers × Option Nat)

/-- the loop state of the translation that stands for the model's -/
def encSt (c : Cfg) (cb sb : Bytes) (out0 : List (Layers × Option Nat)) (s : St) : LSt :=
  (s.1.map (·.1), s.1.map (·.2.1), (s.1.map (·.2.2)).getD [], out0 ++ s.2.map (udpPkt c cb sb true))

theorem quic_round (c : Cfg) (cb sb : Bytes) (hc : utf8E c.client_ip = .ok cb) (hs : utf8E c.server_ip = .ok sb) (md : Bool)
    (o out0 : List (Layers × Option Nat)) (s : St) (f : Frame) :
    quic_build.loop1 md o c.server_mac c.client_mac c.server_ip c.client_ip c.server_port c.client_port c.ipv6 (encSt c cb sb out0 s) f
      = .ok (.next (encSt c cb sb out0 (step md s f))) := by
  unfold quic_build.loop1 step exported isStream encSt
  obtain ⟨cur, outD⟩ := s
  have hmem : decide (f.ftype ∈ [8, 9, 10, 11, 12, 13, 14, 15]) = decide (f.ftype ∈ ([8, 9, 10, 11, 12, 13, 14, 15] : List Nat)) := rfl
  rcases cur with _ | ⟨ts, srv, pk⟩
  · by_cases hst : f.ftype ∈ ([8, 9, 10, 11, 12, 13, 14, 15] : List Nat) <;> by_cases h6 : f.ftype = 6 <;> by_cases hfe : f.ftype = 254 <;> cases md <;>
      simp [hst, h6, hfe]
  · by_cases hst : f.ftype ∈ ([8, 9, 10, 11, 12, 13, 14, 15] : List Nat) <;> by_cases h6 : f.ftype = 6 <;> by_cases hfe : f.ftype = 254 <;> cases md <;>
      by_cases hts : f.ts = ts <;> by_cases hsv : f.isServer = srv <;> cases srv <;> cases hv6 : c.ipv6 <;>
      simp [hst, h6, hfe, hts, hsv, hv6, hc, hs, udpPkt]

theorem quic_loop (c : Cfg) (cb sb : Bytes) (hc : utf8E c.client_ip = .ok cb) (hs : utf8E c.server_ip = .ok sb) (md : Bool)
    (o out0 : List (Layers × Option Nat)) : ∀ (fs : List Frame) (s : St),
    forS fs (encSt c cb sb out0 s) (quic_build.loop1 md o c.server_mac c.client_mac c.server_ip c.client_ip c.server_port c.client_port c.ipv6)
      = (.ok (.next (encSt c cb sb out0 (fs.foldl (step md) s))) : Except Err (Step LSt (Res quic_build.St (List (Layers × Option Nat))))) := by
  intro fs
  induction fs with
  | nil => intro s; rfl
  | cons f rest ih =>
    intro s
    simp only [forS, quic_round c cb sb hc hs, List.foldl_cons]
    exact ih _

/-- what `self.out` is after `build`: the datagrams closed inside the loop, then the open one -/
def quicOut (c : Cfg) (cb sb : Bytes) (out0 : List (Layers × Option Nat)) (s : St) : List (Layers × Option Nat) :=
  out0 ++ s.2.map (udpPkt c cb sb true) ++ (match s.1 with | none => [] | some (ts, srv, pk) => [udpPkt c cb sb false ⟨srv, ts, pk⟩])

/-- `QUICOutputbuilder.build(metadata)`: the datagrams of the model's `build` (`finish` of the folded `step`), each as the scapy
    layers the code stacks for its direction, appended to `self.out`; returned and stored -/
theorem quic_build_eq_model (c : Cfg) (cb sb : Bytes) (hc : utf8E c.client_ip = .ok cb) (hs : utf8E c.server_ip = .ok sb) (md : Bool)
    (out0 : List (Layers × Option Nat)) (fs : List Frame) :
    quic_build md fs out0 c.server_mac c.client_mac c.server_ip c.client_ip c.server_port c.client_port c.ipv6
      = .ok (quicOut c cb sb out0 (fs.foldl (step md) init)) { out := quicOut c cb sb out0 (fs.foldl (step md) init) } := by
  unfold quic_build init
  have h := quic_loop c cb sb hc hs md out0 out0 fs init
  simp only [encSt, init, Option.map_none, Option.getD_none, List.map_nil, List.append_nil] at h
  simp only [h, loopS_next]
  generalize fs.foldl (step md) (none, []) = s
  obtain ⟨cur, outD⟩ := s
  rcases cur with _ | ⟨ts, srv, pk⟩
  · simp [quicOut]
  · cases srv <;> cases hv6 : c.ipv6 <;> simp [quicOut, udpPkt, hv6]

/-- the datagrams are the model's -/
theorem quicOut_build (c : Cfg) (cb sb : Bytes) (md : Bool) (fs : List Frame) (h6 : c.ipv6 = false) :
    quicOut c cb sb [] (fs.foldl (step md) init) = (build md fs).map (udpPkt c cb sb false) := by
  unfold build finish quicOut
  generalize fs.foldl (step md) init = s
  obtain ⟨cur, outD⟩ := s
  have e : udpPkt c cb sb true = udpPkt c cb sb false := by funext d; simp [udpPkt, h6]
  rcases cur with _ | ⟨ts, srv, pk⟩ <;> simp [e]

end TLX.Props.Translated.Bld

-- ------------------------------------------------------------------ OutputBuilder (TCP)
namespace TLX.Props.Translated.Bld
open TLX TLX.PyRt TLX.Gen.Py TLX.TcpOut

theorem listItemE_nat' {α : Type} (n : Nat) (l : List α) :
    listItemE l (Int.ofNat n) = match l[n]? with | none => .error .index | some a => .ok a := by
  unfold listItemE
  have h1 : ¬ (Int.ofNat n < 0) := by simp
  simp only [Int.ofNat_eq_natCast] at h1 ⊢
  simp only [h1, if_false, Int.toNat_natCast]
  rfl

/-- `x[i:j]` for natural bounds (the clamping to `len(x)` changes nothing) -/
theorem pySlice_nat (x : Bytes) (i j : Nat) : pySlice x (some (i : Int)) (some (j : Int)) = Bytes.slice x i j := by
  have hi : ¬ ((i : Int) < 0) := by omega
  have hj : ¬ ((j : Int) < 0) := by omega
  simp only [pySlice, Option.map_some, Option.getD_some, bound, hi, hj, if_false, Int.toNat_natCast, Bytes.slice]
  by_cases h1 : i ≤ x.length
  · rw [Nat.min_eq_left h1]
    by_cases h2 : j ≤ x.length
    · rw [Nat.min_eq_left h2]
    · rw [Nat.min_eq_right (by omega)]
      rw [List.take_of_length_le (by simp only [List.length_drop]; omega), List.take_of_length_le (by simp only [List.length_drop]; omega)]
  · have hl : x.length ≤ i := by omega
    rw [Nat.min_eq_right hl, List.drop_eq_nil_of_le hl]
    simp

theorem pySlice_from_nat (x : Bytes) (i : Nat) : pySlice x (some (i : Int)) none = x.drop i := by
  have hi : ¬ ((i : Int) < 0) := by omega
  simp only [pySlice, Option.map_some, Option.getD_some, Option.map_none, Option.getD_none, bound, hi, if_false, Int.toNat_natCast, Bytes.slice]
  by_cases h1 : i ≤ x.length
  · rw [Nat.min_eq_left h1, List.take_of_length_le (by simp only [List.length_drop]; omega)]
  · have hl : x.length ≤ i := by omega
    rw [Nat.min_eq_right hl, List.drop_eq_nil_of_le hl]
    simp

theorem rangeL_zero (m : Nat) : rangeL 0 (m : Int) = (List.range m).map (fun (i : Nat) => (i : Int)) := by
  unfold rangeL
  simp

/-- the first loop of `build_*_packet`: the `k - 1` equal parts and `last_len` -/
theorem parts_fold (d : Bytes) (pl : Nat) : ∀ m : Nat,
    List.foldl (fun (s : List Bytes × Int) (i : Int) =>
        (s.1 ++ [pySlice d (some (i * (pl : Int))) (some (i * (pl : Int) + (pl : Int)))], i * (pl : Int) + (pl : Int))) ([], (0 : Int))
      (rangeL 0 (m : Int)) = (equalParts d pl m, ((m * pl : Nat) : Int)) := by
  intro m
  rw [rangeL_zero]
  induction m with
  | zero => simp [equalParts]
  | succ n ih =>
    rw [List.range_succ, List.map_append, List.foldl_append, ih]
    simp only [List.map_cons, List.map_nil, List.foldl_cons, List.foldl_nil, equalParts]
    have e1 : (n : Int) * (pl : Int) = ((n * pl : Nat) : Int) := by simp
    have e2 : (n : Int) * (pl : Int) + (pl : Int) = ((n * pl + pl : Nat) : Int) := by simp
    rw [e2, e1, pySlice_nat]
    congr 1
    have : (n + 1) * pl = n * pl + pl := by rw [Nat.succ_mul]
    rw [this]

/-- `flags=` of a frame of the model -/
def flagStr (f : Nat) : List Nat :=
  if f = 0x02 then [83] else if f = 0x12 then [83, 65] else if f = 0x10 then [65] else if f = 0x18 then [80, 65] else []

/-- the scapy layers the TCP builder stacks for a frame of the model (a PSH|ACK segment carries `Raw(data)`) -/
def tcpPkt (c : Cfg) (f : TcpOut.Frame) : Layers × Nat :=
  ((if f.fromServer then
      mkEther c.server_mac c.client_mac ++ mkIP c.ipv6 (.inl c.server_ip) (.inl c.client_ip) ++ mkTCP c.client_port c.server_port (flagStr f.flags) f.seq f.ack
    else
      mkEther c.client_mac c.server_mac ++ mkIP c.ipv6 (.inl c.client_ip) (.inl c.server_ip) ++ mkTCP c.server_port c.client_port (flagStr f.flags) f.seq f.ack)
    ++ (if f.flags = 0x18 then mkRaw f.payload else []), f.ts)

/-- the builder state after the frames `fs` were emitted and the sequence numbers became `q` -/
def tcpSt (c : Cfg) (st : Tcp.St) (q : Seqs) (fs : List TcpOut.Frame) : Tcp.St :=
  { st with client_seq := q.1, server_seq := q.2, out := st.out ++ fs.map (tcpPkt c) }

theorem tcpSt_tcpSt (c : Cfg) (st : Tcp.St) (q q' : Seqs) (fs fs' : List TcpOut.Frame) :
    tcpSt c (tcpSt c st q fs) q' fs' = tcpSt c st q' (fs ++ fs') := by
  simp [tcpSt, List.append_assoc]


theorem server_round (c : Cfg) (parts : List Bytes) (ts : List Nat) (st : Tcp.St) (i : Nat) (p : Bytes) (t : Nat)
    (hp : parts[i]? = some p) (ht : ts[i]? = some t) :
    Tcp.build_server_packet.loop2 ts c.server_mac c.client_mac c.server_ip c.client_ip c.server_port c.client_port c.ipv6 parts st i
      = .ok (.next (tcpSt c st (partFrames (st.client_seq, st.server_seq) true p t).1 (partFrames (st.client_seq, st.server_seq) true p t).2)) := by
  unfold Tcp.build_server_packet.loop2
  simp only [listItemE_nat', hp, ht, tryE_ok]
  cases h6 : c.ipv6 <;> simp [tcpSt, partFrames, tcpPkt, flagStr, h6, List.append_assoc]

theorem server_loop (c : Cfg) (parts : List Bytes) (ts : List Nat) :
    ∀ (ps : List Bytes) (tl : List Nat) (j : Nat) (st : Tcp.St),
      (∀ k, k < ps.length → parts[j + k]? = ps[k]?) → (∀ k, k < ps.length → ts[j + k]? = tl[k]?) → ps.length ≤ tl.length →
      forS (List.range' j ps.length) st
          (Tcp.build_server_packet.loop2 ts c.server_mac c.client_mac c.server_ip c.client_ip c.server_port c.client_port c.ipv6 parts)
        = .ok (.next (tcpSt c st (partsFrames (st.client_seq, st.server_seq) true ps tl).1 (partsFrames (st.client_seq, st.server_seq) true ps tl).2)) := by
  intro ps
  induction ps with
  | nil =>
    intro tl j st _ _ _
    cases tl <;> simp [forS, partsFrames, tcpSt]
  | cons p ps ih =>
    intro tl j st h1 h2 hl
    cases tl with
    | nil => simp at hl
    | cons t tl =>
      have hp : parts[j]? = some p := by simpa using h1 0 (by simp)
      have ht : ts[j]? = some t := by simpa using h2 0 (by simp)
      simp only [List.length_cons, List.range'_succ, forS, server_round c parts ts st j p t hp ht]
      rw [ih tl (j + 1) _ (fun k hk => by have := h1 (k + 1) (by simp; omega); simpa [Nat.add_assoc, Nat.add_comm 1 k] using this)
            (fun k hk => by have := h2 (k + 1) (by simp; omega); simpa [Nat.add_assoc, Nat.add_comm 1 k] using this) (by simpa using hl)]
      simp only [tcpSt_tcpSt, partsFrames]
      rfl

theorem client_round (c : Cfg) (parts : List Bytes) (ts : List Nat) (st : Tcp.St) (i : Nat) (p : Bytes) (t : Nat)
    (hp : parts[i]? = some p) (ht : ts[i]? = some t) :
    Tcp.build_client_packet.loop2 ts c.server_mac c.client_mac c.server_ip c.client_ip c.server_port c.client_port c.ipv6 parts st i
      = .ok (.next (tcpSt c st (partFrames (st.client_seq, st.server_seq) false p t).1 (partFrames (st.client_seq, st.server_seq) false p t).2)) := by
  unfold Tcp.build_client_packet.loop2
  simp only [listItemE_nat', hp, ht, tryE_ok]
  cases h6 : c.ipv6 <;> simp [tcpSt, partFrames, tcpPkt, flagStr, h6, List.append_assoc]

theorem client_loop (c : Cfg) (parts : List Bytes) (ts : List Nat) :
    ∀ (ps : List Bytes) (tl : List Nat) (j : Nat) (st : Tcp.St),
      (∀ k, k < ps.length → parts[j + k]? = ps[k]?) → (∀ k, k < ps.length → ts[j + k]? = tl[k]?) → ps.length ≤ tl.length →
      forS (List.range' j ps.length) st
          (Tcp.build_client_packet.loop2 ts c.server_mac c.client_mac c.server_ip c.client_ip c.server_port c.client_port c.ipv6 parts)
        = .ok (.next (tcpSt c st (partsFrames (st.client_seq, st.server_seq) false ps tl).1 (partsFrames (st.client_seq, st.server_seq) false ps tl).2)) := by
  intro ps
  induction ps with
  | nil =>
    intro tl j st _ _ _
    cases tl <;> simp [forS, partsFrames, tcpSt]
  | cons p ps ih =>
    intro tl j st h1 h2 hl
    cases tl with
    | nil => simp at hl
    | cons t tl =>
      have hp : parts[j]? = some p := by simpa using h1 0 (by simp)
      have ht : ts[j]? = some t := by simpa using h2 0 (by simp)
      simp only [List.length_cons, List.range'_succ, forS, client_round c parts ts st j p t hp ht]
      rw [ih tl (j + 1) _ (fun k hk => by have := h1 (k + 1) (by simp; omega); simpa [Nat.add_assoc, Nat.add_comm 1 k] using this)
            (fun k hk => by have := h2 (k + 1) (by simp; omega); simpa [Nat.add_assoc, Nat.add_comm 1 k] using this) (by simpa using hl)]
      simp only [tcpSt_tcpSt, partsFrames]
      rfl

/-- `floor(a / b)` on natural operands: ZeroDivisionError for `b = 0`, else the floor of the quotient -/
def fdivOf (a b : Int) : Except Err Int := if b = 0 then .error .zeroDiv else .ok ((a.toNat / b.toNat : Nat) : Int)

theorem equalParts_length (d : Bytes) (pl : Nat) : ∀ m, (equalParts d pl m).length = m := by
  intro m
  induction m with
  | zero => rfl
  | succ n ih => simp [equalParts, ih]

theorem tcp_build_server_packet_eq_model (c : Cfg) (d : Bytes) (ts : List Nat) (st : Tcp.St) :
    Tcp.build_server_packet fdivOf d ts c.server_mac c.client_mac c.server_ip c.client_ip c.server_port c.client_port c.ipv6 st
      = match parts d ts.length with
        | none => .raised .zeroDiv st
        | some ps => .ok () (tcpSt c st (partsFrames (st.client_seq, st.server_seq) true ps ts).1 (partsFrames (st.client_seq, st.server_seq) true ps ts).2) := by
  unfold Tcp.build_server_packet parts
  by_cases hk : ts.length = 0
  · simp [fdivOf, hk]
  · have hk' : ¬ ((ts.length : Int) = 0) := by omega
    have e1 : (ts.length : Int) - 1 = ((ts.length - 1 : Nat) : Int) := by omega
    simp only [fdivOf, Int.ofNat_eq_natCast, hk', hk, if_false, tryE_ok, Int.toNat_natCast, e1]
    have hf := parts_fold d (d.length / ts.length) (ts.length - 1)
    have hf' : List.foldl (Tcp.build_server_packet.loop1 d ((d.length / ts.length : Nat) : Int)) (([] : List Bytes), ((0 : Nat) : Int))
        (rangeL 0 ((ts.length - 1 : Nat) : Int)) = _ := hf
    simp only [hf']
    have hlt : (decide ((((ts.length - 1) * (d.length / ts.length) : Nat) : Int) < (d.length : Int))) = decide ((ts.length - 1) * (d.length / ts.length) < d.length) := by
      simp only [Int.ofNat_lt]
    simp only [hlt, pySlice_from_nat, Nat.sub_zero]
    generalize hps : (if decide ((ts.length - 1) * (d.length / ts.length) < d.length) = true then
        equalParts d (d.length / ts.length) (ts.length - 1) ++ [List.drop ((ts.length - 1) * (d.length / ts.length)) d]
      else equalParts d (d.length / ts.length) (ts.length - 1)) = ps
    have hps' : (equalParts d (d.length / ts.length) (ts.length - 1) ++
        if (ts.length - 1) * (d.length / ts.length) < d.length then [List.drop ((ts.length - 1) * (d.length / ts.length)) d] else []) = ps := by
      rw [← hps]; by_cases h : (ts.length - 1) * (d.length / ts.length) < d.length <;> simp [h]
    rw [hps']
    have hlen : ps.length ≤ ts.length := by
      rw [← hps']
      have := equalParts_length d (d.length / ts.length) (ts.length - 1)
      by_cases h : (ts.length - 1) * (d.length / ts.length) < d.length <;> simp [h, this] <;> omega
    rw [server_loop c ps ts ps ts 0 st (fun k _ => by simp) (fun k _ => by simp) hlen]
    rfl

theorem tcp_build_client_packet_eq_model (c : Cfg) (d : Bytes) (ts : List Nat) (st : Tcp.St) :
    Tcp.build_client_packet fdivOf d ts c.server_mac c.client_mac c.server_ip c.client_ip c.server_port c.client_port c.ipv6 st
      = match parts d ts.length with
        | none => .raised .zeroDiv st
        | some ps => .ok () (tcpSt c st (partsFrames (st.client_seq, st.server_seq) false ps ts).1 (partsFrames (st.client_seq, st.server_seq) false ps ts).2) := by
  unfold Tcp.build_client_packet parts
  by_cases hk : ts.length = 0
  · simp [fdivOf, hk]
  · have hk' : ¬ ((ts.length : Int) = 0) := by omega
    have e1 : (ts.length : Int) - 1 = ((ts.length - 1 : Nat) : Int) := by omega
    simp only [fdivOf, Int.ofNat_eq_natCast, hk', hk, if_false, tryE_ok, Int.toNat_natCast, e1]
    have hf := parts_fold d (d.length / ts.length) (ts.length - 1)
    have hf' : List.foldl (Tcp.build_client_packet.loop1 d ((d.length / ts.length : Nat) : Int)) (([] : List Bytes), ((0 : Nat) : Int))
        (rangeL 0 ((ts.length - 1 : Nat) : Int)) = _ := hf
    simp only [hf']
    have hlt : (decide ((((ts.length - 1) * (d.length / ts.length) : Nat) : Int) < (d.length : Int))) = decide ((ts.length - 1) * (d.length / ts.length) < d.length) := by
      simp only [Int.ofNat_lt]
    simp only [hlt, pySlice_from_nat, Nat.sub_zero]
    generalize hps : (if decide ((ts.length - 1) * (d.length / ts.length) < d.length) = true then
        equalParts d (d.length / ts.length) (ts.length - 1) ++ [List.drop ((ts.length - 1) * (d.length / ts.length)) d]
      else equalParts d (d.length / ts.length) (ts.length - 1)) = ps
    have hps' : (equalParts d (d.length / ts.length) (ts.length - 1) ++
        if (ts.length - 1) * (d.length / ts.length) < d.length then [List.drop ((ts.length - 1) * (d.length / ts.length)) d] else []) = ps := by
      rw [← hps]; by_cases h : (ts.length - 1) * (d.length / ts.length) < d.length <;> simp [h]
    rw [hps']
    have hlen : ps.length ≤ ts.length := by
      rw [← hps']
      have := equalParts_length d (d.length / ts.length) (ts.length - 1)
      by_cases h : (ts.length - 1) * (d.length / ts.length) < d.length <;> simp [h, this] <;> omega
    rw [client_loop c ps ts ps ts 0 st (fun k _ => by simp) (fun k _ => by simp) hlen]
    rfl

theorem tcp_build_ack_handshake_eq_model (c : Cfg) (st : Tcp.St) :
    Tcp.build_ack_handshake c.server_mac c.client_mac c.server_ip c.client_ip c.server_port c.client_port c.ipv6 st
      = match st.ts_zero with
        | none => .raised .attr st
        | some t0 => .ok () { st with out := st.out ++ (handshake t0).map (tcpPkt c) } := by
  unfold Tcp.build_ack_handshake
  cases st.ts_zero <;> cases h6 : c.ipv6 <;> simp [handshake, tcpPkt, flagStr, h6]

/-- a record of `decrypted_records` as the model's -/
def recOf (r : Option Bytes × TRec × Bool) : TcpOut.Rec := ⟨r.1, r.2.1, r.2.2⟩

theorem ts_fold (g : List Nat → Nat → List Nat) (hg : ∀ a p, g a p = a ++ [p]) (l : List Nat) : ∀ acc, List.foldl g acc l = acc ++ l := by
  induction l with
  | nil => intro acc; simp
  | cons x r ih => intro acc; simp [hg, ih, List.append_assoc]

/-- a round of the record loop once the handshake is out -/
theorem record_round (c : Cfg) (st : Tcp.St) (r : Option Bytes × TRec × Bool) (h : st.conn_reset = false) :
    Tcp.build.loop6 fdivOf c.server_mac c.client_mac c.server_ip c.client_ip c.server_port c.client_port c.ipv6 st r
      = match recFrames (st.client_seq, st.server_seq) (recOf r) with
        | none => .ok (.ret (.raised .zeroDiv st))
        | some qf => .ok (.next (tcpSt c st qf.1 qf.2)) := by
  unfold Tcp.build.loop6 recFrames
  simp only [Bool.false_eq_true, if_false, h, id, ts_fold Tcp.build.loop5 (fun _ _ => rfl), List.nil_append]
  obtain ⟨pl, ts, srv⟩ := r
  cases srv
  · simp only [Bool.false_eq_true, if_false, tcp_build_client_packet_eq_model, recOf, Rec.bytes, placeholder]
    cases parts (pl.getD _) ts.length <;> rfl
  · simp only [if_true, tcp_build_server_packet_eq_model, recOf, Rec.bytes, placeholder]
    cases parts (pl.getD _) ts.length <;> rfl

theorem tcpSt_seqs (c : Cfg) (st : Tcp.St) (q : Seqs) (fs : List TcpOut.Frame) :
    ((tcpSt c st q fs).client_seq, (tcpSt c st q fs).server_seq) = q := rfl

theorem record_loop (c : Cfg) : ∀ (recs : List (Option Bytes × TRec × Bool)) (st : Tcp.St), st.conn_reset = false →
    (∀ qf, bodyFrames (st.client_seq, st.server_seq) (recs.map recOf) = some qf →
      forS recs st (Tcp.build.loop6 fdivOf c.server_mac c.client_mac c.server_ip c.client_ip c.server_port c.client_port c.ipv6)
        = .ok (.next (tcpSt c st qf.1 qf.2))) ∧
    (bodyFrames (st.client_seq, st.server_seq) (recs.map recOf) = none →
      ∃ st', forS recs st (Tcp.build.loop6 fdivOf c.server_mac c.client_mac c.server_ip c.client_ip c.server_port c.client_port c.ipv6)
        = .ok (.ret (.raised .zeroDiv st'))) := by
  intro recs
  induction recs with
  | nil =>
    intro st _
    constructor
    · intro qf h
      simp only [List.map_nil, bodyFrames, Option.some.injEq] at h
      subst h
      simp [forS, tcpSt]
    · intro h; simp [bodyFrames] at h
  | cons r rest ih =>
    intro st hcr
    simp only [List.map_cons, bodyFrames, forS, record_round c st r hcr]
    cases hr : recFrames (st.client_seq, st.server_seq) (recOf r) with
    | none =>
      constructor
      · intro qf h; simp at h
      · intro _; exact ⟨st, rfl⟩
    | some qf1 =>
      obtain ⟨q1, fs1⟩ := qf1
      have hcr' : (tcpSt c st q1 fs1).conn_reset = false := hcr
      have ih' := ih (tcpSt c st q1 fs1) hcr'
      rw [tcpSt_seqs] at ih'
      simp only [Option.bind_some]
      constructor
      · intro qf h
        cases hb : bodyFrames q1 (rest.map recOf) with
        | none => simp [hb] at h
        | some qf2 =>
          simp only [hb, Option.map_some, Option.some.injEq] at h
          subst h
          rw [ih'.1 qf2 hb, tcpSt_tcpSt]
      · intro h
        cases hb : bodyFrames q1 (rest.map recOf) with
        | none => exact ih'.2 hb
        | some qf2 => simp [hb] at h

theorem first_round (c : Cfg) (st : Tcp.St) (r : Option Bytes × TRec × Bool) (t0 : Nat) (tl : List Nat)
    (h : st.conn_reset = true) (hr : r.2.1 = t0 :: tl) :
    Tcp.build.loop6 fdivOf c.server_mac c.client_mac c.server_ip c.client_ip c.server_port c.client_port c.ipv6 st r
      = Tcp.build.loop6 fdivOf c.server_mac c.client_mac c.server_ip c.client_ip c.server_port c.client_port c.ipv6
          { st with ts_zero := some t0, out := st.out ++ (handshake t0).map (tcpPkt c), conn_reset := false } r := by
  unfold Tcp.build.loop6
  have e0 : listItemE (t0 :: tl) (0 : Int) = .ok t0 := rfl
  simp only [Bool.false_eq_true, if_false, h, if_true, id, hr, e0, tryE_ok, tcp_build_ack_handshake_eq_model, tryR_ok,
    ts_fold Tcp.build.loop4 (fun _ _ => rfl), ts_fold Tcp.build.loop5 (fun _ _ => rfl)]

theorem first_round_nil (c : Cfg) (st : Tcp.St) (r : Option Bytes × TRec × Bool) (h : st.conn_reset = true) (hr : r.2.1 = []) :
    Tcp.build.loop6 fdivOf c.server_mac c.client_mac c.server_ip c.client_ip c.server_port c.client_port c.ipv6 st r
      = .ok (.ret (.raised .index st)) := by
  unfold Tcp.build.loop6
  have e0 : listItemE ([] : List Nat) (0 : Int) = .error .index := rfl
  simp only [Bool.false_eq_true, if_false, h, if_true, id, hr, e0, tryE_error]

theorem flags_fold : ∀ (recs : List (Option Bytes × TRec × Bool)) (st : Tcp.St),
    List.foldl Tcp.build.loop1 st recs = if recs.isEmpty then st else { st with no_application_records := false } := by
  intro recs
  induction recs with
  | nil => intro st; rfl
  | cons r rest ih =>
    intro st
    simp only [List.foldl_cons, ih, List.isEmpty_cons, Bool.false_eq_true, if_false, Tcp.build.loop1, if_true]
    cases rest <;> rfl

/-- `OutputBuilder.build()` on a fresh builder (`out = []`, both sequence numbers 1): the frames of the model's `build`, each as the
    scapy layers of its direction, returned and left in `self.out`; an exception exactly where the model has `none` -/
theorem tcp_build_eq_model (c : Cfg) (recs : List (Option Bytes × TRec × Bool)) (st : Tcp.St)
    (h0 : st.out = []) (h1 : st.server_seq = 1) (h2 : st.client_seq = 1) :
    match TcpOut.build (recs.map recOf) with
    | some fs => ∃ st', Tcp.build fdivOf c.server_mac c.client_mac c.server_ip c.client_ip c.server_port c.client_port c.ipv6 recs st
                          = .ok (fs.map (tcpPkt c)) st' ∧ st'.out = fs.map (tcpPkt c)
    | none => ∃ e st', Tcp.build fdivOf c.server_mac c.client_mac c.server_ip c.client_ip c.server_port c.client_port c.ipv6 recs st
                          = .raised e st' := by
  obtain ⟨o, ss, cs, tz, cr, na⟩ := st
  simp only at h0 h1 h2
  subst h0 h1 h2
  unfold Tcp.build TcpOut.build
  simp only [flags_fold]
  cases recs with
  | nil => exact ⟨_, rfl, rfl⟩
  | cons r rest =>
    simp only [List.isEmpty_cons, Bool.false_eq_true, if_false, List.map_cons]
    cases hts : r.2.1 with
    | nil =>
      have : (recOf r).ts = [] := hts
      simp only [this, forS, first_round_nil c ⟨[], 1, 1, tz, true, false⟩ r rfl hts, loopS_ret]
      exact ⟨_, _, rfl⟩
    | cons t0 tl =>
      have : (recOf r).ts = t0 :: tl := hts
      simp only [this]
      have hfr := first_round c ⟨[], 1, 1, tz, true, false⟩ r t0 tl rfl hts
      have hloop := record_loop c (r :: rest) ⟨[] ++ (handshake t0).map (tcpPkt c), 1, 1, some t0, false, false⟩ rfl
      simp only [List.map_cons] at hloop
      have hstart : forS (r :: rest) (⟨[], 1, 1, tz, true, false⟩ : Tcp.St)
          (Tcp.build.loop6 fdivOf c.server_mac c.client_mac c.server_ip c.client_ip c.server_port c.client_port c.ipv6)
          = forS (r :: rest) ⟨[] ++ (handshake t0).map (tcpPkt c), 1, 1, some t0, false, false⟩
          (Tcp.build.loop6 fdivOf c.server_mac c.client_mac c.server_ip c.client_ip c.server_port c.client_port c.ipv6) := by
        simp only [forS, hfr]
      simp only [hstart]
      cases hb : bodyFrames (1, 1) (recOf r :: rest.map recOf) with
      | none =>
        obtain ⟨st', hst⟩ := hloop.2 hb
        simp only [hst, loopS_ret, Option.map_none]
        exact ⟨_, _, rfl⟩
      | some qf =>
        simp only [hloop.1 qf hb, loopS_next, Option.map_some]
        refine ⟨tcpSt c ⟨[] ++ (handshake t0).map (tcpPkt c), 1, 1, some t0, false, false⟩ qf.1 qf.2, ?_, ?_⟩ <;> simp [tcpSt]

/-- evaluation: one 5-byte server record carried by two packets: handshake, two data segments, two ACKs -/
example : (match Tcp.build fdivOf [1] [2] [49] [50] 443 5000 false [(some [1, 2, 3, 4, 5], [10, 20], true)] ⟨[], 1, 1, none, false, false⟩ with
           | .ok out _ => out.map (fun p => (p.1.length, p.2))
           | .raised _ _ => []) = [(3, 10), (3, 10), (3, 10), (4, 10), (3, 10), (4, 20), (3, 20)] := by decide

end TLX.Props.Translated.Bld
