/-
main.py's port options as translated from the Python source (`TLX/Gen/Translated/Opts.lean`) equal the hand-written model
`TLX/Options.lean` (C10): `MapPortsAction.__call__` (`mapPortsAction` with the literal `["443:8080"]` of the source as `bare`,
`keepOriginalPorts`), `get_port_map` (`getPortMap`; `int(str)` is the external `py_int`, instantiated with the model's `pyInt`;
the stored `mapports` is what the action stored), the built-in port list and `server_ports.extend([int(x) …])` (`serverPorts`).
-/
import TLX.Gen.Translated.Opts
import TLX.Props.Translated.Keylog
namespace TLX.Props.Translated.Opts
open TLX TLX.Options TLX.Gen.Py PyRt
open TLX.Keylog (Str splitOn)

/-- the value the source stores for a bare `-m` (`["443:8080"]`) -/
def bareLit : List Str := [[52, 52, 51, 58, 56, 48, 56, 48]]

/-- the model's two exceptions as Python's -/
def errOf : Options.Err → PyRt.Err
  | .value => .value
  | .index => .index

def liftE {α : Type} : Except Options.Err α → Except PyRt.Err α
  | .ok a => .ok a
  | .error e => .error (errOf e)

/-- `MapPortsAction.__call__(parser, namespace, values)`: what it stores in the namespace -/
theorem MapPortsAction_call_eq_model (values : List Str) :
    Opts.MapPortsAction_call values = ⟨mapPortsAction bareLit values, keepOriginalPorts (some values)⟩ := by
  unfold Opts.MapPortsAction_call mapPortsAction keepOriginalPorts bareLit
  cases values <;> simp

theorem tableSet_eq (m : List (Int × Int)) (k v : Int) : PyRt.tableSet m k v = dictSet m k v := by
  unfold PyRt.tableSet dictSet
  have h1 : (m.any fun e => decide (e.1 = k)) = m.any (·.1 == k) := by
    congr 1
  have h2 : (m.map fun e => if e.1 = k then (k, v) else e) = m.map fun e => if e.1 == k then (k, v) else e := by
    congr 1; funext e; simp
  rw [h1, h2]

/-- one round of the loop of `get_port_map` -/
def round (m : List (Int × Int)) (i : Str) : Except PyRt.Err (List (Int × Int)) :=
  let i : List Nat := (PyRt.strRemove 44 i)
  let split : List (List Nat) := (PyRt.strSplit 58 i)
  PyRt.tryE (PyRt.listItemE split (0 : Int)) (fun py_e => .error py_e) (fun py_t_2 =>
    PyRt.tryE (PyRt.someE PyRt.Err.value (pyInt py_t_2)) (fun py_e => .error py_e) (fun py_t_3 =>
      PyRt.tryE (PyRt.listItemE split (1 : Int)) (fun py_e => .error py_e) (fun py_t_4 =>
        PyRt.tryE (PyRt.someE PyRt.Err.value (pyInt py_t_4)) (fun py_e => .error py_e) (fun py_t_5 =>
          .ok (PyRt.tableSet m py_t_3 py_t_5)))))

theorem round_eq (m : List (Int × Int)) (tok : Str) :
    round m tok = liftE ((mapEntry tok).map fun e => dictSet m e.1 e.2) := by
  unfold round mapEntry
  simp only [KLog.strSplit_eq, PyRt.strRemove]
  have h0 : ((0 : Int)) = Int.ofNat 0 := rfl
  have h1 : ((1 : Int)) = Int.ofNat 1 := rfl
  rw [h0, h1]
  simp only [KLog.item_nat, tableSet_eq]
  rcases splitOn 58 (List.filter (fun x => decide (x ≠ 44)) tok) with _ | ⟨a, _ | ⟨b, r⟩⟩
  · rfl
  · cases h : pyInt a <;> simp [h, tryE, someE, liftE, errOf, Except.map]
  · cases h : pyInt a <;> cases h' : pyInt b <;> simp [h, h', tryE, someE, liftE, errOf, Except.map]

theorem rounds_eq : ∀ (l : List Str) (m : List (Int × Int)),
    forE l m round = liftE (l.foldlM (fun m tok => (mapEntry tok).map fun e => dictSet m e.1 e.2) m) := by
  intro l
  induction l with
  | nil => intro m; rfl
  | cons t r ih =>
    intro m
    simp only [forE, List.foldlM_cons, round_eq]
    cases mapEntry t with
    | error e => rfl
    | ok e => exact ih _

/-- `get_port_map(args)` on what `MapPortsAction` stored for the values of `-m` (`none`: no `-m`, the attribute is absent) -/
theorem get_port_map_eq_model (mArg : Option (List Str)) :
    Opts.get_port_map pyInt (mArg.map fun vs => (Opts.MapPortsAction_call vs).mapports) = liftE (getPortMap bareLit mArg) := by
  unfold Opts.get_port_map getPortMap
  cases mArg with
  | none => rfl
  | some vs =>
    simp only [Option.map_some, MapPortsAction_call_eq_model]
    have := rounds_eq (mapPortsAction bareLit vs) []
    unfold round at this
    erw [this]
    cases (List.foldlM (fun m tok => (mapEntry tok).map fun e => dictSet m e.1 e.2) [] (mapPortsAction bareLit vs)) <;> rfl

/-- `server_ports = [443, 44330]` and `server_ports.extend([int(x) for x in args.serverports])`: with `-p` (strings) and without
    (`pDefault`, the ints argparse supplies) -/
theorem extend_server_ports_eq_model (pDefault : List Int) (vs : List Str) :
    Opts.extend_server_ports pyInt Opts.builtin_server_ports vs
        = (match serverPorts [443, 44330] pDefault (some vs) with
           | .ok ps => .ok () ⟨ps⟩
           | .error e => .raised (errOf e) ⟨Opts.builtin_server_ports⟩)
    ∧ (Opts.extend_server_ports_default Opts.builtin_server_ports pDefault).server_ports = [443, 44330] ++ pDefault
    ∧ serverPorts [443, 44330] pDefault none = .ok ([443, 44330] ++ pDefault) := by
  refine ⟨?_, ?_, rfl⟩
  · unfold Opts.extend_server_ports serverPorts
    simp only []
    cases List.mapM pyInt vs <;> rfl
  · simp [Opts.extend_server_ports_default, Opts.builtin_server_ports]

end TLX.Props.Translated.Opts
