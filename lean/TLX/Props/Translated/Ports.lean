/-
Translated Python functions, group Ports: tlexport/session.py `set_client_and_server_ports`; both output builders' `__init__`.
Each `<python name>_eq_model` says the definition regenerated from the tree under test
(`TLX/Gen/Translated/Ports.lean`, written by `harness/translate.py`) EQUALS the hand-written model function.
This module imports only its own group's generated file: a source change outside the group cannot break it.
-/
import TLX.Gen.Translated.Ports
import TLX.Props.Translated.Enc
import TLX.MainLoop
import TLX.TcpOut
namespace TLX.Props.Translated
open TLX TLX.PyRt

/-- `set_client_and_server_ports`: server and client endpoint are the model's `rolesOf`; the MAC addresses and the
    IPv6 flag (outside `rolesOf`) follow the same choice -/
theorem set_client_and_server_ports_eq_model (ports : List Int) (p : MainLoop.Pkt) (v6 : Bool) (macSrc macDst : Bytes) :
    Gen.Py.set_client_and_server_ports ports v6 p.src.ip p.dst.ip p.src.port p.dst.port macSrc macDst =
      { ipv6 := v6,
        server_ip := (MainLoop.rolesOf ports p).1.ip, server_port := (MainLoop.rolesOf ports p).1.port,
        server_mac_addr := if ports.contains (p.src.port : Int) then macSrc else macDst,
        client_ip := (MainLoop.rolesOf ports p).2.ip, client_port := (MainLoop.rolesOf ports p).2.port,
        client_mac_addr := if ports.contains (p.src.port : Int) then macDst else macSrc } := by
  unfold Gen.Py.set_client_and_server_ports MainLoop.rolesOf
  by_cases h : (p.src.port : Int) ∈ ports <;> simp [h]

example : (Gen.Py.set_client_and_server_ports [443, 44330] false [10, 0, 0, 2] [10, 0, 0, 1] 5000 443 [2] [1]).server_port = 443 ∧
    (Gen.Py.set_client_and_server_ports [443, 44330] false [10, 0, 0, 1] [10, 0, 0, 2] 443 5000 [1] [2]).server_ip = [10, 0, 0, 1] := by
  decide

/-- `OutputBuilder.__init__`: never raises (the `portmap[…]` read is guarded), exports the model's `exportedServerPort`,
    keeps the client port, falls back to 8080, starts both sequence numbers at 1 -/
theorem output_builder_init_eq_model (sp cp : Nat) (portmap : Nat → Option Nat) (keep : Bool) :
    Gen.Py.output_builder_init sp cp portmap keep =
      .ok () { server_port_ := TcpOut.exportedServerPort keep portmap sp, client_port_ := cp, default_port := 8080,
               server_seq := 1, client_seq := 1 } := by
  unfold Gen.Py.output_builder_init TcpOut.exportedServerPort
  cases keep <;> cases h : portmap sp <;> simp [h, dictGetE]

example : Gen.Py.output_builder_init 443 5000 (fun k => if k = 443 then some 8443 else none) false =
    .ok () { server_port_ := 8443, client_port_ := 5000, default_port := 8080, server_seq := 1, client_seq := 1 } ∧
    Gen.Py.output_builder_init 444 5000 (fun k => if k = 443 then some 8443 else none) false =
    .ok () { server_port_ := 8080, client_port_ := 5000, default_port := 8080, server_seq := 1, client_seq := 1 } := by decide

/-- `QUICOutputbuilder.__init__`: the same port choice -/
theorem quic_output_builder_init_eq_model (sp cp : Nat) (portmap : Nat → Option Nat) (keep : Bool) :
    Gen.Py.quic_output_builder_init sp cp portmap keep =
      .ok () { server_port_ := TcpOut.exportedServerPort keep portmap sp, client_port_ := cp, default_port := 8080 } := by
  unfold Gen.Py.quic_output_builder_init TcpOut.exportedServerPort
  cases keep <;> cases h : portmap sp <;> simp [h, dictGetE]

example : Gen.Py.quic_output_builder_init 443 5000 (fun _ => none) true =
    .ok () { server_port_ := 443, client_port_ := 5000, default_port := 8080 } := by decide

end TLX.Props.Translated
