/-
Translated Python functions, group Checksum: tlexport/checksums.py (`ones_complement_checksum`, `calculate_checksum_udp`,
`calculate_checksum_tcp`). Each `<python name>_eq_model` says the definition regenerated from the tree under test
(`TLX/Gen/Translated/Checksum.lean`, written by `harness/translate.py`) EQUALS the model function of `TLX/Checksum.lean`.
This module imports only its own group's generated file: a source change outside the group cannot break it.
-/
import TLX.Gen.Translated.Checksum
import TLX.Props.Translated.Enc
import TLX.Checksum
namespace TLX.Props.Translated
open TLX TLX.PyRt TLX.Checksum

/-- the model's exception (`OverflowError`, the only one `checksums.py` can raise) as the runtime's -/
def ofCk {α : Type} : Except Checksum.Err α → Except PyRt.Err α
  | .ok a => .ok a
  | .error .overflow => .error .overflow

theorem slice_cons2 (a b : UInt8) (rest : Bytes) (j : Nat) :
    Bytes.slice (a :: b :: rest) (j + 2) (j + 2 + 2) = Bytes.slice rest j (j + 2) := by
  simp [Bytes.slice]

/-- `for i in range(0, len(arr), 2): checksum += int.from_bytes(arr[i:i + 2], "big")` is the model's `wordSum` -/
theorem wordSum_fold (arr : Bytes) (c0 : Nat) :
    List.foldl (fun (py_s : Nat) (i : Nat) => py_s + Bytes.beNat (Bytes.slice arr i (i + 2))) c0 (rangeStep 0 arr.length 2)
      = c0 + wordSum arr := by
  fun_induction wordSum arr generalizing c0 with
  | case1 => simp [rangeStep]
  | case2 a => simp [rangeStep, Bytes.slice, Bytes.beNat]
  | case3 a b rest ih =>
    have hcount : (((a :: b :: rest).length - 0 + 2 - 1) / 2) = ((rest.length - 0 + 2 - 1) / 2) + 1 := by
      simp only [List.length_cons]; omega
    unfold rangeStep at ih ⊢
    rw [hcount, List.range_succ_eq_map, List.map_cons, List.foldl_cons, List.map_map, List.foldl_map]
    simp only [List.foldl_map] at ih
    have h0 : Bytes.beNat (Bytes.slice (a :: b :: rest) (0 + 0 * 2) (0 + 0 * 2 + 2)) = a.toNat * 256 + b.toNat := by
      simp [Bytes.slice, Bytes.beNat]
    rw [h0]
    have hf : (fun (x : Nat) (y : Nat) => x + Bytes.beNat (Bytes.slice (a :: b :: rest) (((fun i => 0 + i * 2) ∘ Nat.succ) y)
          (((fun i => 0 + i * 2) ∘ Nat.succ) y + 2))) =
        (fun (x : Nat) (y : Nat) => x + Bytes.beNat (Bytes.slice rest (0 + y * 2) (0 + y * 2 + 2))) := by
      funext x y
      have : ((fun i => 0 + i * 2) ∘ Nat.succ) y = (0 + y * 2) + 2 := by simp [Function.comp]; omega
      rw [this, slice_cons2]
    rw [hf, ih]
    omega

/-- the carry fold `while checksum > 0xFFFF: checksum = (checksum >> 16) + (checksum & 0xFFFF)` with any fuel ≥ the
    checksum (every round makes it smaller) is the model's `implFold`: the fuel the translation gives it always suffices -/
theorem fold_while (f : Nat → Nat) (hf : ∀ s, f s = s / 65536 + s % 65536) (fuel s : Nat) (h : s ≤ fuel) :
    whileS fuel s (fun (py_s : Nat) => decide (py_s > 65535))
      (fun (py_s : Nat) => (Except.ok (Step.next (f py_s)) : Except PyRt.Err (Step Nat (Except PyRt.Err Bytes))))
      = .ok (.next (implFold s)) := by
  induction fuel generalizing s with
  | zero =>
    have : s = 0 := by omega
    subst this
    rw [implFold]; simp [whileS]
  | succ n ih =>
    rw [whileS, implFold]
    by_cases hs : s > 65535
    · simp only [hs, decide_true, if_true]
      rw [hf s]
      refine ih (s / 65536 + s % 65536) ?_
      omega
    · simp [hs]

/-- one round of the fold, however its two halves are written -/
theorem fold_round (s : Nat) : (s >>> 16) + (s &&& 65535) = s / 65536 + s % 65536 ∧
    (s &&& 65535) + (s >>> 16) = s / 65536 + s % 65536 := by
  have e1 : s >>> 16 = s / 65536 := by rw [Nat.shiftRight_eq_div_pow]
  have e2 : s &&& 65535 = s % 65536 := Nat.and_two_pow_sub_one_eq_mod s 16
  rw [e1, e2]; omega

theorem not_add (x : Nat) : ((~~~(Int.ofNat x)) + (256 : Int)) = Int.ofNat (256 - (x + 1)) + (if x < 256 then 0 else (255 - x : Int)) := by
  show Int.negSucc x + 256 = _
  simp only [Int.ofNat_eq_natCast]
  split <;> omega

/-- one round of the complement loop at a position that exists -/
theorem complement_step (l : Bytes) (i : Nat) (x : UInt8) (h : l[i]? = some x) :
    tryE (getItem l (Int.ofNat i)) (fun py_e => (.error py_e : Except PyRt.Err Bytes)) (fun py_t_2 =>
      tryE (setItemE l (Int.ofNat i) ((~~~(Int.ofNat py_t_2)) + (256 : Int))) (fun py_e => .error py_e) (fun py_t_3 => .ok py_t_3))
    = .ok (l.set i (UInt8.ofNat (255 - x.toNat))) := by
  have hx := x.toNat_lt
  have hi : i < l.length := by
    rcases Nat.lt_or_ge i l.length with h' | h'
    · exact h'
    · have : l[i]? = none := by simp [h']
      rw [this] at h; cases h
  rw [getItem_nat, h]
  simp only [tryE_ok, not_add, hx, if_true, setItemE]
  have h1 : ¬ ((Int.ofNat i) < 0) := by simp
  have h2 : ¬ (Int.ofNat i < 0 ∨ Int.ofNat i ≥ (l.length : Int)) := by simp only [Int.ofNat_eq_natCast]; omega
  have h3 : ¬ (Int.ofNat (256 - (x.toNat + 1)) + 0 < 0 ∨ Int.ofNat (256 - (x.toNat + 1)) + 0 ≥ 256) := by
    simp only [Int.ofNat_eq_natCast]; omega
  simp only [h1, if_false] at h2 ⊢
  rw [if_neg h2, if_neg h3]
  simp only [tryE_ok, Int.add_zero, Int.ofNat_eq_natCast, Int.toNat_natCast]
  congr 3
  omega

/-- `for i in range(2): out_arr[i] = ~out_arr[i] + 256` on the two bytes `to_bytes(2)` made is the model's `complement` -/
theorem complement_loop (a b : UInt8) :
    forE (List.range' 0 (2 - 0)) ([a, b] : Bytes) (fun (py_s : Bytes) (i : Nat) =>
      tryE (getItem py_s (Int.ofNat i)) (fun py_e => .error py_e) (fun py_t_2 =>
        tryE (setItemE py_s (Int.ofNat i) ((~~~(Int.ofNat py_t_2)) + (256 : Int))) (fun py_e => .error py_e) (fun py_t_3 =>
          .ok py_t_3))) = .ok (complement [a, b]) := by
  simp only [show (2 : Nat) - 0 = 2 from rfl, List.range', forE]
  rw [complement_step [a, b] 0 a rfl]
  simp only []
  rw [complement_step _ (0 + 1) b rfl]
  rfl

/-- `ones_complement_checksum`, the whole function (pad, 16-bit sum, carry fold, complement, `to_bytes`): the model's
    `onesComplementChecksum`; the `while` loop never needs more rounds than the fuel the translation gives it -/
theorem ones_complement_checksum_eq_model (b : Bytes) :
    Gen.Py.ones_complement_checksum b = ofCk (onesComplementChecksum b) := by
  unfold Gen.Py.ones_complement_checksum onesComplementChecksum
  simp only [wordSum_fold, Nat.zero_add]
  have hp : (if decide (b.length % 2 ≠ 0) = true then b ++ ([0] : Bytes) else b) = pad b := by
    unfold pad; by_cases h : b.length % 2 ≠ 0 <;> simp [h]
  simp only [hp]
  rw [fold_while _ (fun s => by first | exact (fold_round s).1 | exact (fold_round s).2) _ _ (Nat.le_refl _)]
  simp only [loopS_next]
  have hle : implFold (wordSum (pad b)) < 65536 := by
    generalize wordSum (pad b) = s
    induction s using Nat.strongRecOn with
    | _ s ih =>
      rw [implFold]
      split
      · exact ih _ (by omega)
      · omega
  have h2 : (2 : Int) = Int.ofNat 2 := rfl
  rw [h2, toBytesE_nat _ 2 (by simpa using hle), tryE_ok]
  simp only [toBytes2, hle, if_true]
  have : ∃ x y, Bytes.ofNatBE 2 (implFold (wordSum (pad b))) = [x, y] := ⟨_, _, rfl⟩
  obtain ⟨x, y, hxy⟩ := this
  simp only [hxy, complement_loop, tryE_ok]
  rfl

example : Gen.Py.ones_complement_checksum [0x45, 0x00, 0x00, 0x1c, 0xff] = .ok [0xbb, 0xe2] := by decide +kernel

/-- `n.to_bytes(k, "big")` of a natural number -/
theorem toBytesE_nat' (n k : Nat) :
    toBytesE (Int.ofNat n) (Int.ofNat k) = if n < 256 ^ k then .ok (Bytes.ofNatBE k n) else .error .overflow := by
  by_cases h : n < 256 ^ k
  · simp only [h, if_true]; exact toBytesE_nat n k h
  · unfold toBytesE
    have h1 : ¬ (Int.ofNat k < 0) := by simp
    have h2 : (Int.ofNat n < 0 ∨ Int.ofNat n ≥ 256 ^ (Int.ofNat k).toNat) := by
      right
      simp only [Int.ofNat_eq_natCast, Int.toNat_natCast]
      have : ((256 ^ k : Nat) : Int) = (256 : Int) ^ k := by simp
      omega
    rw [if_neg h1, if_pos h2]; simp [h]

/-- `x[a:b] = v` for `a ≤ b`: the model's `take a ++ v ++ drop b` (the clamping does not show) -/
theorem setSlice_eq (x v : Bytes) (a b : Nat) (h : a ≤ b) : setSlice x a b v = x.take a ++ v ++ x.drop b := by
  unfold setSlice
  have e1 : x.take (min a x.length) = x.take a := by
    rcases Nat.le_total a x.length with h' | h'
    · rw [Nat.min_eq_left h']
    · rw [Nat.min_eq_right h', List.take_of_length_le (Nat.le_refl _), List.take_of_length_le h']
  have e2 : x.drop (max (min a x.length) (min b x.length)) = x.drop b := by
    rcases Nat.le_total b x.length with h' | h'
    · have : max (min a x.length) (min b x.length) = b := by omega
      rw [this]
    · have : max (min a x.length) (min b x.length) = x.length := by omega
      rw [this, List.drop_eq_nil_of_le (Nat.le_refl _), List.drop_eq_nil_of_le h']
  rw [e1, e2]

/-- continue with the value of a model result, its `OverflowError` as the runtime's -/
def ckBind {α β : Type} (x : Except Checksum.Err α) (K : α → Except PyRt.Err β) : Except PyRt.Err β :=
  match x with
  | .ok a => K a
  | .error .overflow => .error .overflow

theorem tryE_ofCk {α β : Type} (x : Except Checksum.Err α) (K : α → Except PyRt.Err β) :
    tryE (ofCk x) (fun e => .error e) K = ckBind x K := by
  match x with
  | .ok a => rfl
  | .error .overflow => rfl

theorem ofCk_bind {α β : Type} (x : Except Checksum.Err α) (f : α → Except Checksum.Err β) :
    ofCk (x >>= f) = ckBind x (fun a => ofCk (f a)) := by
  match x with
  | .ok a => rfl
  | .error .overflow => rfl

theorem tryE_toBytes (n k : Nat) (β : Type) (K : Bytes → Except PyRt.Err β) :
    tryE (toBytesE (Int.ofNat n) (Int.ofNat k)) (fun e => .error e) K =
      if n < 256 ^ k then K (Bytes.ofNatBE k n) else .error .overflow := by
  rw [toBytesE_nat']; split <;> rfl

/-- `calculate_checksum_udp(packet)` on what it reads from the packet — `bytes(packet.udp)` is `seg`, `len(packet.udp)` its
    length, `packet.udp.sum` the number in the two checksum bytes of `seg` (dpkt parsed it from them) — is the model's
    `check .udp`, the RFC 768 zero rule included -/
theorem calculate_checksum_udp_eq_model (v6 : Bool) (src dst seg : Bytes) (p sum : Nat)
    (hs : sum < 65536) (hsum : Bytes.ofNatBE 2 sum = storedField .udp seg) :
    Gen.Py.calculate_checksum_udp v6 src dst p seg.length seg sum = ofCk (check .udp v6 src dst p seg) := by
  have h1 : (1 : Int) = Int.ofNat 1 := rfl
  have h2 : (2 : Int) = Int.ofNat 2 := rfl
  have h4 : (4 : Int) = Int.ofNat 4 := rfl
  have hs' : sum < 256 ^ 2 := by simpa using hs
  cases v6 <;>
    simp only [Gen.Py.calculate_checksum_udp, check, pseudoHeader, Bool.not_false, Bool.not_true, Bool.false_eq_true, if_true, if_false,
      h1, h2, h4, tryE_toBytes, ones_complement_checksum_eq_model, tryE_ofCk, ofCk_bind, setSlice_eq _ _ 6 8 (by omega), hs', hsum,
      toBytes1, toBytes2, toBytes4, zeroField, L4.off, List.nil_append, bind_pure_comp, bind, Except.bind]
  all_goals
    by_cases hp : p < 256 <;> by_cases hl : seg.length < 65536 <;> by_cases hl4 : seg.length < 4294967296 <;>
      simp only [hp, hl, hl4, Nat.reducePow, Nat.reduceAdd, Nat.pow_one, if_true, if_false, ofCk, ckBind, pure, Except.pure]
  all_goals
    first
    | done
    | (generalize onesComplementChecksum _ = r
       match r with
       | .ok a => by_cases ha : a = [0, 0] <;> simp [ha, decide_eq_beq]
       | .error .overflow => rfl)

/-- `calculate_checksum_tcp(packet)`: the model's `check .tcp`, the two one's-complement zeros included -/
theorem calculate_checksum_tcp_eq_model (v6 : Bool) (src dst seg : Bytes) (p sum : Nat)
    (hs : sum < 65536) (hsum : Bytes.ofNatBE 2 sum = storedField .tcp seg) :
    Gen.Py.calculate_checksum_tcp v6 src dst p seg.length seg sum = ofCk (check .tcp v6 src dst p seg) := by
  have h1 : (1 : Int) = Int.ofNat 1 := rfl
  have h2 : (2 : Int) = Int.ofNat 2 := rfl
  have h4 : (4 : Int) = Int.ofNat 4 := rfl
  have hs' : sum < 256 ^ 2 := by simpa using hs
  cases v6 <;>
    simp only [Gen.Py.calculate_checksum_tcp, check, pseudoHeader, Bool.not_false, Bool.not_true, Bool.false_eq_true, if_true, if_false,
      h1, h2, h4, tryE_toBytes, ones_complement_checksum_eq_model, tryE_ofCk, setSlice_eq _ _ 16 18 (by omega), hs', hsum,
      toBytes1, toBytes2, toBytes4, zeroField, L4.off, List.nil_append, bind, Except.bind]
  all_goals
    by_cases hp : p < 256 <;> by_cases hl : seg.length < 65536 <;> by_cases hl4 : seg.length < 4294967296 <;>
      simp only [hp, hl, hl4, Nat.reducePow, Nat.reduceAdd, Nat.pow_one, if_true, if_false, ofCk, ckBind, pure, Except.pure]
  all_goals
    first
    | done
    | (generalize onesComplementChecksum _ = r
       match r with
       | .ok a => by_cases ha : a = [0, 0] <;> by_cases hb : storedField .tcp seg = [255, 255] <;> simp [ha, hb, decide_eq_beq]
       | .error .overflow => rfl)

-- Non-vacuity: a UDP datagram over IPv4 whose checksum field is right, and the same with a wrong one
example : Gen.Py.calculate_checksum_udp false [10, 0, 0, 1] [10, 0, 0, 2] 17 9 [0x30, 0x39, 0x01, 0xbb, 0x00, 0x09, 0x58, 0xe5, 0x61] 0x58e5 = .ok true ∧
    Gen.Py.calculate_checksum_udp false [10, 0, 0, 1] [10, 0, 0, 2] 17 9 [0x30, 0x39, 0x01, 0xbb, 0x00, 0x09, 0x58, 0xe6, 0x61] 0x58e6 = .ok false := by
  decide +kernel

end TLX.Props.Translated
