/-
Translated Python functions, group KeySched: tlexport/key_derivator.py (`prf_tls_12`, `prf_tls_10_11`, `prf_ssl_30`, the three
`gen_master_secret_*`, the three legacy `dev_*_keys`, `dev_tls_13_keys`) and tlexport/quic/quic_key_generation.py (`make_info`,
`dev_initial_keys`, `key_update`, `dev_quic_keys`) against `TLX/KeySchedule.lean`.

Outside the model and therefore parameters of the translated definitions: the hash primitives (`hmacX alg key msg`, `hashX alg msg`,
`hkdfExpandX alg length info ikm`, `hkdfExtractX alg salt ikm`, `digestSize alg`) and `math.ceil(l_s / 2)` (`ceilHalf`: a float
division, exact below 2^53; the model halves exactly, the theorems give `ceilHalf n = (n + 1) / 2`). The theorems instantiate the
primitives from the model's `Prims`. A hash / HMAC object of `cryptography` is `PyRt.Acc` (`update` appends, `finalize` digests).
A `while len(block) < n` loop gets `n` rounds of fuel, as the model's `whileShort` does: running out is the model's `nonterm`.
This module imports only its own group's generated file.
-/
import TLX.Gen.Translated.KeySched
import TLX.Props.Translated.Enc
import TLX.KeySchedule
namespace TLX.Props.Translated.KS
open TLX TLX.PyRt TLX.KeySchedule TLX.Crypto

/-- the model's error kinds as the translator's (`nonterm`: Python would loop forever, the translation runs out of fuel) -/
def errOf : PyErr → Err
  | .index => .index | .unbound => .unbound | .overflow => .overflow | .nonterm => .fuel | .typeErr => .type

def ofR {α : Type} : R α → Except Err α
  | .ok a => .ok a
  | .error e => .error (errOf e)

/-- the external hash functions as the model's `Prims` give them -/
def hmacOf (P : Prims) (t : MacTag) : Bytes → Bytes → Bytes := (macSuite P t).hmac
def hashOf (P : Prims) (t : MacTag) : Bytes → Bytes := (macSuite P t).hash

/-- a `while len(block) < n` loop of the translation whose round is `body` on the part `st` of the loop state and appends to
    the part `blk`, followed by something that only looks at the block: the model's `whileShort` -/
theorem loop_short {σ τ ρ : Type} (body : σ → R (σ × Bytes)) (n : Nat) (blk : τ → Bytes) (st : τ → σ) (nxt : τ → σ × Bytes → τ)
    (gbody : τ → Except Err (Step τ (Except Err ρ)))
    (hb : ∀ t, gbody t = match body (st t) with | .ok r => .ok (.next (nxt t r)) | .error e => .error (errOf e))
    (h1 : ∀ t r, blk (nxt t r) = blk t ++ r.2) (h2 : ∀ t r, st (nxt t r) = r.1) (K : Bytes → Except Err ρ) :
    ∀ (fuel : Nat) (t : τ),
      loopS (whileS fuel t (fun t => decide ((blk t).length < n)) gbody) (fun e => .error e) (fun r => r) (fun t => K (blk t))
        = tryE (ofR (whileShort body n fuel (st t) (blk t))) (fun e => .error e) K := by
  intro fuel
  induction fuel with
  | zero =>
    intro t
    by_cases h : (blk t).length < n <;> simp [whileS, whileShort, h, ofR, errOf]
  | succ k ih =>
    intro t
    by_cases h : (blk t).length < n
    · simp only [whileS, whileShort, h, decide_true, if_true, hb]
      cases hbd : body (st t) with
      | error e => simp [ofR]
      | ok r =>
        simp only []
        have := ih (nxt t r)
        rw [h1, h2] at this
        exact this
    · simp [whileS, whileShort, h, ofR]

theorem ofR_bind_pure {α β : Type} (x : R α) (g : α → β) :
    ofR (x >>= fun b => pure (g b)) = tryE (ofR x) (fun e => .error e) (fun b => .ok (g b)) := by
  cases x <;> rfl

theorem slice_zero (b : Bytes) (n : Nat) : Bytes.slice b 0 n = b.take n := by simp [Bytes.slice]

theorem prfHash_tag (P : Prims) (mac : MacTag) :
    macSuite P (if decide (mac = MacTag.sha384) = true then MacTag.sha384 else MacTag.sha256) = prfHash12 P mac := by
  cases mac <;> rfl

theorem prf_tls_12_eq_model (P : Prims) (secret cr sr label : Bytes) (length : Nat) (mac : MacTag) :
    Gen.Py.prf_tls_12 (hmacOf P) secret cr sr label length mac = ofR (prfTls12 P secret cr sr label length mac) := by
  unfold Gen.Py.prf_tls_12 prfTls12
  simp only [ofR_bind_pure, ← slice_zero, hmacOf, prfHash_tag, Acc.update, Acc.finalize, List.nil_append]
  exact loop_short (pHashBody (prfHash12 P mac).hmac secret (label ++ sr ++ cr)) length (·.1) (·.2) (fun t r => (t.1 ++ r.2, r.1))
    (fun py_s => .ok (.next (py_s.1 ++ (prfHash12 P mac).hmac secret ((prfHash12 P mac).hmac secret py_s.2 ++ (label ++ sr ++ cr)),
                              (prfHash12 P mac).hmac secret py_s.2)))
    (fun t => rfl) (fun _ _ => rfl) (fun _ _ => rfl) (fun b => .ok (Bytes.slice b 0 length)) length ([], label ++ sr ++ cr)

theorem ofR_bind {α β : Type} (x : R α) (f : α → R β) :
    ofR (x >>= f) = tryE (ofR x) (fun e => .error e) (fun b => ofR (f b)) := by
  cases x <;> rfl

theorem ofR_pure {α : Type} (a : α) : ofR (pure a : R α) = .ok a := rfl

theorem gen_master_secret_tls_12_eq_model (P : Prims) (pms cr sr : Bytes) (mac : MacTag) :
    Gen.Py.gen_master_secret_tls_12 (hmacOf P) pms cr sr mac = genMasterTls12 P mac pms cr sr := by
  unfold Gen.Py.gen_master_secret_tls_12 genMasterTls12
  simp only [hmacOf, prfHash_tag, Acc.update, Acc.finalize, List.nil_append, slice_zero]
  rfl

theorem xor_u8 (a b : UInt8) : UInt8.ofNat (a.toNat ^^^ b.toNat) = a ^^^ b := by
  rw [← UInt8.toNat_inj]
  simp [UInt8.toNat_xor]

theorem xor_list (x : Bytes) : ∀ y : Bytes,
    (List.map Int.ofNat (List.map (fun (p : Nat × Nat) => p.1 ^^^ p.2) (zipBytes x y))).all (fun v => decide (0 ≤ v ∧ v < 256)) = true ∧
    (List.map Int.ofNat (List.map (fun (p : Nat × Nat) => p.1 ^^^ p.2) (zipBytes x y))).map (fun v => UInt8.ofNat v.toNat) = xorZip x y := by
  induction x with
  | nil => intro y; simp [zipBytes, xorZip]
  | cons a r ih =>
    intro y
    cases y with
    | nil => simp [zipBytes, xorZip]
    | cons b s =>
      have h := ih s
      have hlt : a.toNat ^^^ b.toNat < 256 := Nat.xor_lt_two_pow (n := 8) a.toNat_lt b.toNat_lt
      unfold zipBytes xorZip at h ⊢
      simp only [List.zipWith_cons_cons, List.map_cons, List.all_cons, h.1, h.2, Bool.and_true, Int.ofNat_eq_natCast, Int.toNat_natCast, xor_u8]
      constructor
      · simp only [decide_eq_true_eq]; omega
      · trivial

/-- `bytearray([b1 ^ b2 for b1, b2 in zip(x, y)])` -/
theorem xor_bytes (x y : Bytes) :
    bytesOfE (List.map Int.ofNat (List.map (fun (p : Nat × Nat) => p.1 ^^^ p.2) (zipBytes x y))) = .ok (xorZip x y) := by
  unfold bytesOfE
  simp only [(xor_list x y).1, if_true, (xor_list x y).2]

theorem prf_tls_10_11_eq_model (P : Prims) (secret cr sr label : Bytes) (length nk : Nat) :
    Gen.Py.prf_tls_10_11 (hmacOf P) (fun n => (n + 1) / 2) secret cr sr label length nk
      = ofR (prfTls1011 P secret cr sr label length (decide (nk ≠ 0))) := by
  unfold Gen.Py.prf_tls_10_11 prfTls1011
  simp only [ofR_bind, ofR_pure, ← slice_zero, hmacOf, Acc.update, Acc.finalize, List.nil_append, xor_bytes, tryE_ok]
  generalize (if decide (nk ≠ 0) = true then label ++ cr ++ sr else label ++ sr ++ cr) = seed
  refine (loop_short (pHashBody (macSuite P MacTag.md5).hmac (secret.slice 0 ((List.length secret + 1) / 2)) seed) length (·.2.1) (·.2.2)
        (fun t r => (t.1 + 1, t.2.1 ++ r.2, r.1)) _ (fun t => rfl) (fun _ _ => rfl) (fun _ _ => rfl)
        (fun b => loopS
          (whileS length ((0 : Nat), ([] : Bytes), seed)
            (fun py_s => decide (List.length py_s.snd.fst < length)) fun py_s =>
            Except.ok
              (Step.next
                (py_s.fst + 1,
                  py_s.snd.fst ++
                    (macSuite P MacTag.sha1).hmac (List.drop ((List.length secret + 1) / 2) secret)
                      ((macSuite P MacTag.sha1).hmac (List.drop ((List.length secret + 1) / 2) secret) py_s.snd.snd ++ seed),
                  (macSuite P MacTag.sha1).hmac (List.drop ((List.length secret + 1) / 2) secret) py_s.snd.snd)))
          (fun py_e => Except.error py_e) (fun py_r => py_r) fun py_s_1 =>
          (Except.ok ((xorZip b py_s_1.snd.fst).slice 0 length) : Except Err Bytes)) length (0, [], seed)).trans ?_
  congr 1
  funext b
  exact loop_short (pHashBody (macSuite P MacTag.sha1).hmac (List.drop ((List.length secret + 1) / 2) secret) seed) length (·.2.1) (·.2.2)
        (fun t r => (t.1 + 1, t.2.1 ++ r.2, r.1)) _ (fun t => rfl) (fun _ _ => rfl) (fun _ _ => rfl)
        (fun b1 => .ok ((xorZip b b1).slice 0 length)) length (0, [], seed)

/-- `bytes(counter * sec_bits[counter - 1], 'utf-8')` -/
theorem sec_char {β : Type} (K : Bytes → Except Err β) (counter : Nat) :
    tryE (strItemE [65, 66, 67, 68, 69, 70, 71, 72, 73, 74] ((Int.ofNat counter) - (1 : Int))) (fun e => .error e)
        (fun t => tryE (utf8E (repeatSeq (Int.ofNat counter) t)) (fun e => .error e) K)
      = match secBits[counter - 1]? with | none => .error .index | some ch => K (List.replicate counter ch) := by
  rcases counter with _ | k
  · rfl
  · have e : Int.ofNat (k + 1) - 1 = Int.ofNat k := by simp only [Int.ofNat_eq_natCast]; omega
    rw [e]
    rcases k with _ | _ | _ | _ | _ | _ | _ | _ | _ | _ | k
    all_goals rfl

theorem prf_ssl_30_eq_model (P : Prims) (secret cr sr : Bytes) (length nk : Nat) :
    Gen.Py.prf_ssl_30 (hashOf P) secret cr sr length nk = ofR (prfSsl30 P secret cr sr length (decide (nk ≠ 0))) := by
  unfold Gen.Py.prf_ssl_30 prfSsl30
  simp only [ofR_bind_pure, ← slice_zero, hashOf, Acc.update, Acc.finalize, List.nil_append, sec_char]
  refine loop_short (ssl30Body P secret cr sr (decide (nk ≠ 0))) length (·.1) (·.2) (fun t r => (t.1 ++ r.2, r.1)) _ ?_
    (fun _ _ => rfl) (fun _ _ => rfl) (fun b => .ok (Bytes.slice b 0 length)) length ([], 1)
  intro t
  unfold ssl30Body
  by_cases h : nk ≠ 0
  · have hd : decide (nk ≠ 0) = true := by simp [h]
    simp only [hd, if_true, macSuite]
    cases secBits[t.2 - 1]? <;> simp [errOf, List.append_assoc]
  · have hd : decide (nk ≠ 0) = false := by simp [h]
    simp only [hd, Bool.false_eq_true, if_false, macSuite]
    cases secBits[t.2 - 1]? <;> simp [errOf, List.append_assoc]

theorem gen_master_secret_tls_10_11_eq_model (P : Prims) (pms cr sr : Bytes) :
    Gen.Py.gen_master_secret_tls_10_11 (hmacOf P) (fun n => (n + 1) / 2) pms cr sr = ofR (genMasterTls1011 P pms cr sr) := by
  unfold Gen.Py.gen_master_secret_tls_10_11 genMasterTls1011
  rw [prf_tls_10_11_eq_model]
  cases h : prfTls1011 P pms cr sr bMasterSecret 48 true <;> simp [bMasterSecret, ofR] at h ⊢ <;> simp [h]

theorem gen_master_secret_ssl_30_eq_model (P : Prims) (pms cr sr : Bytes) :
    Gen.Py.gen_master_secret_ssl_30 (hashOf P) pms cr sr = ofR (genMasterSsl30 P pms cr sr) := by
  unfold Gen.Py.gen_master_secret_ssl_30 genMasterSsl30
  rw [prf_ssl_30_eq_model]
  cases h : prfSsl30 P pms cr sr 48 true <;> simp [ofR] at h ⊢ <;> simp [h]

theorem toBytesE_overflow (n k : Nat) (h : ¬ n < 256 ^ k) : toBytesE (Int.ofNat n) (Int.ofNat k) = .error .overflow := by
  unfold toBytesE
  have h1 : ¬ (Int.ofNat k < 0) := by simp
  have h2 : (Int.ofNat n < 0 ∨ Int.ofNat n ≥ 256 ^ (Int.ofNat k).toNat) := by
    right
    simp only [Int.ofNat_eq_natCast, Int.toNat_natCast]
    have : ((256 ^ k : Nat) : Int) = (256 : Int) ^ k := by simp
    omega
  rw [if_neg h1, if_pos h2]

theorem toBytes2_eq (n : Nat) : toBytesE (Int.ofNat n) (2 : Int) = ofR (toBytes2 n) := by
  unfold toBytes2
  by_cases h : n < 65536
  · rw [show (2 : Int) = Int.ofNat 2 from rfl, toBytesE_nat n 2 (by omega)]
    simp only [h, if_true, ofR, Bytes.ofNatBE, List.nil_append, List.cons_append]
    congr 3
    have : n / 256 % 256 = n / 256 := Nat.mod_eq_of_lt (by omega)
    rw [this]
  · rw [show (2 : Int) = Int.ofNat 2 from rfl, toBytesE_overflow n 2 (by omega)]
    simp [h, ofR, errOf]

theorem toBytes1_eq (n : Nat) : toBytesE (Int.ofNat n) (1 : Int) = ofR (toBytes1 n) := by
  unfold toBytes1
  by_cases h : n < 256
  · rw [show (1 : Int) = Int.ofNat 1 from rfl, toBytesE_nat n 1 (by omega)]
    simp [h, ofR, Bytes.ofNatBE, Nat.mod_eq_of_lt h]
  · rw [show (1 : Int) = Int.ofNat 1 from rfl, toBytesE_overflow n 1 (by omega)]
    simp [h, ofR, errOf]

theorem make_info_eq_model (label : Bytes) (kl : Nat) : Gen.Py.make_info label kl = ofR (makeInfo label kl) := by
  unfold Gen.Py.make_info makeInfo
  simp only [toBytes2_eq, toBytes1_eq, ofR_bind, ofR_pure, bTls13]

/-- the `keys` dict of the legacy `dev_*_keys` functions: the six names (as code points) in display order -/
def keys6Table (k : Keys6) : List (List Nat × Bytes) :=
  [(([99, 108, 105, 101, 110, 116, 95, 119, 114, 105, 116, 101, 95, 77, 65, 67, 95, 115, 101, 99, 114, 101, 116] : List Nat), k.clientMac),
   (([115, 101, 114, 118, 101, 114, 95, 119, 114, 105, 116, 101, 95, 77, 65, 67, 95, 115, 101, 99, 114, 101, 116] : List Nat), k.serverMac),
   (([99, 108, 105, 101, 110, 116, 95, 119, 114, 105, 116, 101, 95, 107, 101, 121] : List Nat), k.clientKey),
   (([115, 101, 114, 118, 101, 114, 95, 119, 114, 105, 116, 101, 95, 107, 101, 121] : List Nat), k.serverKey),
   (([99, 108, 105, 101, 110, 116, 95, 119, 114, 105, 116, 101, 95, 73, 86] : List Nat), k.clientIv),
   (([115, 101, 114, 118, 101, 114, 95, 119, 114, 105, 116, 101, 95, 73, 86] : List Nat), k.serverIv)]

theorem iv12 (c : CipherTag) (ua : Nat) :
    (if decide (c ∈ [CipherTag.aes, CipherTag.camellia]) = true then
        (if (decide (c = CipherTag.camellia) && decide (ua ≠ 0)) = true then 4 else 16)
      else (if decide (c = CipherTag.chacha) = true then 12 else 4)) = ivLenTls12 c (decide (ua ≠ 0)) := by
  unfold ivLenTls12
  by_cases h : ua = 0 <;> cases c <;> simp [h]

theorem ivLegacy (c : CipherTag) :
    (if decide (c ∈ [CipherTag.aes, CipherTag.camellia]) = true then 16
      else (if decide (c ∈ [CipherTag.tripleDES, CipherTag.idea]) = true then 8 else 4)) = ivLenLegacy c := by
  cases c <;> rfl

theorem dev_tls_12_keys_eq_model (P : Prims) (master cr sr : Bytes) (kl ml kbl : Nat) (c : CipherTag) (ua : Nat) (mac : MacTag) :
    Gen.Py.dev_tls_12_keys (hmacOf P) master cr sr kl ml kbl c ua mac
      = (ofR (devTls12Keys P master cr sr kl ml kbl c (decide (ua ≠ 0)) mac)).map keys6Table := by
  unfold Gen.Py.dev_tls_12_keys devTls12Keys
  simp only [prf_tls_12_eq_model, ofR_bind, ofR_pure, iv12, bKeyExpansion]
  generalize (if decide (ua ≠ 0) = true then 0 else ml) = m
  cases ofR (prfTls12 P master cr sr _ _ mac) with
  | error e => rfl
  | ok b => simp only [tryE_ok, Except.map, keys6Table, sliceKeys, Nat.mul_comm _ 2]

theorem dev_tls_10_11_keys_eq_model (P : Prims) (master sr cr : Bytes) (kl ml kbl : Nat) (c : CipherTag) (ua : Nat) :
    Gen.Py.dev_tls_10_11_keys (hmacOf P) (fun n => (n + 1) / 2) master sr cr kl ml kbl c ua
      = (ofR (devTls1011Keys P master sr cr kl ml kbl c (decide (ua ≠ 0)))).map keys6Table := by
  unfold Gen.Py.dev_tls_10_11_keys devTls1011Keys
  simp only [prf_tls_10_11_eq_model, ofR_bind, ofR_pure, ivLegacy, bKeyExpansion]
  generalize (if decide (ua ≠ 0) = true then 0 else ml) = m
  have e0 : decide ((0 : Nat) ≠ 0) = false := by decide
  simp only [e0]
  cases ofR (prfTls1011 P master cr sr _ _ false) with
  | error e => rfl
  | ok b => simp only [tryE_ok, Except.map, keys6Table, sliceKeys, Nat.mul_comm _ 2]

theorem dev_ssl_30_keys_eq_model (P : Prims) (master sr cr : Bytes) (kl ml kbl : Nat) (c : CipherTag) (ua : Nat) :
    Gen.Py.dev_ssl_30_keys (hashOf P) master sr cr kl ml kbl c ua
      = (ofR (devSsl30Keys P master sr cr kl ml kbl c (decide (ua ≠ 0)))).map keys6Table := by
  unfold Gen.Py.dev_ssl_30_keys devSsl30Keys
  simp only [prf_ssl_30_eq_model, ofR_bind, ofR_pure, ivLegacy]
  generalize (if decide (ua ≠ 0) = true then 0 else ml) = m
  have e0 : decide ((0 : Nat) ≠ 0) = false := by decide
  simp only [e0]
  cases ofR (prfSsl30 P master cr sr _ false) with
  | error e => rfl
  | ok b => simp only [tryE_ok, Except.map, keys6Table, sliceKeys]

-- ------------------------------------------------------------------ TLS 1.3 and QUIC: HKDF label plumbing
/-- `secret.label` (a str) as the model's `Label` -/
def labelOf (s : List Nat) : Label :=
  if s = [67, 76, 73, 69, 78, 84, 95, 72, 65, 78, 68, 83, 72, 65, 75, 69, 95, 84, 82, 65, 70, 70, 73, 67, 95, 83, 69, 67, 82, 69, 84] then .clientHandshake else
  if s = [83, 69, 82, 86, 69, 82, 95, 72, 65, 78, 68, 83, 72, 65, 75, 69, 95, 84, 82, 65, 70, 70, 73, 67, 95, 83, 69, 67, 82, 69, 84] then .serverHandshake else
  if s = [67, 76, 73, 69, 78, 84, 95, 84, 82, 65, 70, 70, 73, 67, 95, 83, 69, 67, 82, 69, 84, 95, 48] then .clientTraffic0 else
  if s = [83, 69, 82, 86, 69, 82, 95, 84, 82, 65, 70, 70, 73, 67, 95, 83, 69, 67, 82, 69, 84, 95, 48] then .serverTraffic0 else
  if s = [67, 76, 73, 69, 78, 84, 95, 69, 65, 82, 76, 89, 95, 84, 82, 65, 70, 70, 73, 67, 95, 83, 69, 67, 82, 69, 84] then .clientEarly else
  if s = [83, 69, 82, 86, 69, 82, 95, 69, 65, 82, 76, 89, 95, 84, 82, 65, 70, 70, 73, 67, 95, 83, 69, 67, 82, 69, 84] then .serverEarly else
  if s = [67, 76, 73, 69, 78, 84, 95, 82, 65, 78, 68, 79, 77] then .clientRandom else
  if s = [82, 83, 65] then .rsa else
  .other

/-- a key-log entry of the translation as the model's `Secret` -/
def secOf (s : List Nat × Bytes) : Secret := (labelOf s.1, s.2)

def hkdfExpandOf (P : Prims) (t : MacTag) (n : Nat) (info ikm : Bytes) : Bytes := (macSuite P t).hkdfExpand ikm info n
def hkdfExtractOf (P : Prims) (t : MacTag) (salt ikm : Bytes) : Bytes := (macSuite P t).hkdfExtract salt ikm

/-- the `keys` dict of `dev_tls_13_keys` in display order -/
def tls13Table (k : Tls13Keys) : List (List Nat × Option Bytes) :=
  [(([99, 108, 105, 101, 110, 116, 95, 104, 97, 110, 100, 115, 104, 97, 107, 101, 95, 116, 114, 97, 102, 102, 105, 99, 95, 115, 101, 99, 114, 101, 116] : List Nat), k.clientHsKey),
   (([115, 101, 114, 118, 101, 114, 95, 104, 97, 110, 100, 115, 104, 97, 107, 101, 95, 116, 114, 97, 102, 102, 105, 99, 95, 115, 101, 99, 114, 101, 116] : List Nat), k.serverHsKey),
   (([99, 108, 105, 101, 110, 116, 95, 97, 112, 112, 108, 105, 99, 97, 116, 105, 111, 110, 95, 116, 114, 97, 102, 102, 105, 99, 95, 115, 101, 99, 114, 101, 116, 95, 48] : List Nat), k.clientAppKey),
   (([115, 101, 114, 118, 101, 114, 95, 97, 112, 112, 108, 105, 99, 97, 116, 105, 111, 110, 95, 116, 114, 97, 102, 102, 105, 99, 95, 115, 101, 99, 114, 101, 116, 95, 48] : List Nat), k.serverAppKey),
   (([99, 108, 105, 101, 110, 116, 95, 104, 97, 110, 100, 115, 104, 97, 107, 101, 95, 105, 118] : List Nat), k.clientHsIv),
   (([115, 101, 114, 118, 101, 114, 95, 104, 97, 110, 100, 115, 104, 97, 107, 101, 95, 105, 118] : List Nat), k.serverHsIv),
   (([99, 108, 105, 101, 110, 116, 95, 97, 112, 112, 108, 105, 99, 97, 116, 105, 111, 110, 95, 105, 118] : List Nat), k.clientAppIv),
   (([115, 101, 114, 118, 101, 114, 95, 97, 112, 112, 108, 105, 99, 97, 116, 105, 111, 110, 95, 105, 118] : List Nat), k.serverAppIv)]

theorem beNat_toBytes2 (n : Nat) (h : n < 65536) : Bytes.beNat [UInt8.ofNat (n / 256), UInt8.ofNat (n % 256)] = n := by
  simp only [Bytes.beNat, List.foldl_cons, List.foldl_nil, UInt8.toNat_ofNat']
  omega

def accTuple (a : Tls13Acc) := (a.clientHsKey, a.clientHsIv, a.serverHsKey, a.serverHsIv, a.clientAppKey, a.clientAppIv, a.serverAppKey, a.serverAppIv)

abbrev T8 := Option Bytes × Option Bytes × Option Bytes × Option Bytes × Option Bytes × Option Bytes × Option Bytes × Option Bytes

/-- the loop of `dev_tls_13_keys`: any step function that does what the four label tests say is the model's `tls13Step` -/
theorem fold13 (hs : HashSuite) (kl : Nat) (keyInfo ivInfo : Bytes) (g : T8 → (List Nat × Bytes) → T8)
    (hg : ∀ (t : T8) (s : List Nat × Bytes), g t s =
      if s.1 = [67, 76, 73, 69, 78, 84, 95, 72, 65, 78, 68, 83, 72, 65, 75, 69, 95, 84, 82, 65, 70, 70, 73, 67, 95, 83, 69, 67, 82, 69, 84] then (some (hs.hkdfExpand s.2 keyInfo kl), some (hs.hkdfExpand s.2 ivInfo 12), t.2.2.1, t.2.2.2.1, t.2.2.2.2.1, t.2.2.2.2.2.1, t.2.2.2.2.2.2.1, t.2.2.2.2.2.2.2)
      else if s.1 = [83, 69, 82, 86, 69, 82, 95, 72, 65, 78, 68, 83, 72, 65, 75, 69, 95, 84, 82, 65, 70, 70, 73, 67, 95, 83, 69, 67, 82, 69, 84] then (t.1, t.2.1, some (hs.hkdfExpand s.2 keyInfo kl), some (hs.hkdfExpand s.2 ivInfo 12), t.2.2.2.2.1, t.2.2.2.2.2.1, t.2.2.2.2.2.2.1, t.2.2.2.2.2.2.2)
      else if s.1 = [67, 76, 73, 69, 78, 84, 95, 84, 82, 65, 70, 70, 73, 67, 95, 83, 69, 67, 82, 69, 84, 95, 48] then (t.1, t.2.1, t.2.2.1, t.2.2.2.1, some (hs.hkdfExpand s.2 keyInfo kl), some (hs.hkdfExpand s.2 ivInfo 12), t.2.2.2.2.2.2.1, t.2.2.2.2.2.2.2)
      else if s.1 = [83, 69, 82, 86, 69, 82, 95, 84, 82, 65, 70, 70, 73, 67, 95, 83, 69, 67, 82, 69, 84, 95, 48] then (t.1, t.2.1, t.2.2.1, t.2.2.2.1, t.2.2.2.2.1, t.2.2.2.2.2.1, some (hs.hkdfExpand s.2 keyInfo kl), some (hs.hkdfExpand s.2 ivInfo 12))
      else t) :
    ∀ (ss : List (List Nat × Bytes)) (a : Tls13Acc),
      List.foldl g (accTuple a) ss = accTuple (List.foldl (tls13Step hs kl keyInfo ivInfo) a (ss.map secOf)) := by
  intro ss
  induction ss with
  | nil => intro a; rfl
  | cons s rest ih =>
    intro a
    simp only [List.foldl_cons, List.map_cons]
    rw [← ih]
    congr 1
    rw [hg]
    unfold tls13Step secOf labelOf
    by_cases h1 : s.1 = [67, 76, 73, 69, 78, 84, 95, 72, 65, 78, 68, 83, 72, 65, 75, 69, 95, 84, 82, 65, 70, 70, 73, 67, 95, 83, 69, 67, 82, 69, 84]
    · simp [h1, accTuple]
    · by_cases h2 : s.1 = [83, 69, 82, 86, 69, 82, 95, 72, 65, 78, 68, 83, 72, 65, 75, 69, 95, 84, 82, 65, 70, 70, 73, 67, 95, 83, 69, 67, 82, 69, 84]
      · simp [h2, accTuple]
      · by_cases h3 : s.1 = [67, 76, 73, 69, 78, 84, 95, 84, 82, 65, 70, 70, 73, 67, 95, 83, 69, 67, 82, 69, 84, 95, 48]
        · simp [h3, accTuple]
        · by_cases h4 : s.1 = [83, 69, 82, 86, 69, 82, 95, 84, 82, 65, 70, 70, 73, 67, 95, 83, 69, 67, 82, 69, 84, 95, 48]
          · simp [h4, accTuple]
          · simp only [h1, h2, h3, h4, if_false]
            by_cases h5 : s.1 = [67, 76, 73, 69, 78, 84, 95, 69, 65, 82, 76, 89, 95, 84, 82, 65, 70, 70, 73, 67, 95, 83, 69, 67, 82, 69, 84]
            · simp [h5]
            · by_cases h6 : s.1 = [83, 69, 82, 86, 69, 82, 95, 69, 65, 82, 76, 89, 95, 84, 82, 65, 70, 70, 73, 67, 95, 83, 69, 67, 82, 69, 84]
              · simp [h6]
              · by_cases h7 : s.1 = [67, 76, 73, 69, 78, 84, 95, 82, 65, 78, 68, 79, 77]
                · simp [h7]
                · by_cases h8 : s.1 = [82, 83, 65]
                  · simp [h8]
                  · simp [h5, h6, h7, h8]

theorem fold13' (hs : HashSuite) (kl : Nat) (keyInfo ivInfo : Bytes) (g : T8 → (List Nat × Bytes) → T8)
    (ss : List (List Nat × Bytes)) (r : T8)
    (hr : List.foldl g (none, none, none, none, none, none, none, none) ss = r)
    (hg : ∀ (t : T8) (s : List Nat × Bytes), g t s =
      if s.1 = [67, 76, 73, 69, 78, 84, 95, 72, 65, 78, 68, 83, 72, 65, 75, 69, 95, 84, 82, 65, 70, 70, 73, 67, 95, 83, 69, 67, 82, 69, 84] then (some (hs.hkdfExpand s.2 keyInfo kl), some (hs.hkdfExpand s.2 ivInfo 12), t.2.2.1, t.2.2.2.1, t.2.2.2.2.1, t.2.2.2.2.2.1, t.2.2.2.2.2.2.1, t.2.2.2.2.2.2.2)
      else if s.1 = [83, 69, 82, 86, 69, 82, 95, 72, 65, 78, 68, 83, 72, 65, 75, 69, 95, 84, 82, 65, 70, 70, 73, 67, 95, 83, 69, 67, 82, 69, 84] then (t.1, t.2.1, some (hs.hkdfExpand s.2 keyInfo kl), some (hs.hkdfExpand s.2 ivInfo 12), t.2.2.2.2.1, t.2.2.2.2.2.1, t.2.2.2.2.2.2.1, t.2.2.2.2.2.2.2)
      else if s.1 = [67, 76, 73, 69, 78, 84, 95, 84, 82, 65, 70, 70, 73, 67, 95, 83, 69, 67, 82, 69, 84, 95, 48] then (t.1, t.2.1, t.2.2.1, t.2.2.2.1, some (hs.hkdfExpand s.2 keyInfo kl), some (hs.hkdfExpand s.2 ivInfo 12), t.2.2.2.2.2.2.1, t.2.2.2.2.2.2.2)
      else if s.1 = [83, 69, 82, 86, 69, 82, 95, 84, 82, 65, 70, 70, 73, 67, 95, 83, 69, 67, 82, 69, 84, 95, 48] then (t.1, t.2.1, t.2.2.1, t.2.2.2.1, t.2.2.2.2.1, t.2.2.2.2.2.1, some (hs.hkdfExpand s.2 keyInfo kl), some (hs.hkdfExpand s.2 ivInfo 12))
      else t) :
    r = accTuple (List.foldl (tls13Step hs kl keyInfo ivInfo) {} (ss.map secOf)) := by
  rw [← hr]
  exact fold13 hs kl keyInfo ivInfo g hg ss {}

theorem dev_tls_13_keys_eq_model (P : Prims) (ss : List (List Nat × Bytes)) (kl : Nat) (h : MacTag) :
    Gen.Py.dev_tls_13_keys (hkdfExpandOf P) ss kl h = (ofR (devTls13Keys (macSuite P h) (ss.map secOf) kl)).map tls13Table := by
  unfold Gen.Py.dev_tls_13_keys devTls13Keys
  simp only [toBytes2_eq, ofR_bind, ofR_pure]
  unfold toBytes2
  by_cases hk : kl < 65536
  · simp only [hk, if_true, ofR, tryE_ok, beNat_toBytes2 kl hk]
    generalize hfold : List.foldl _ _ ss = r
    have key := fold13' (macSuite P h) kl
      ([UInt8.ofNat (kl / 256), UInt8.ofNat (kl % 256)] ++ [0x09] ++ bTls13Key ++ [0x00]) ([0x00, 0x0c] ++ [0x08] ++ bTls13Iv ++ [0x00]) _ ss r hfold
      (by
        intro t s
        simp only [hkdfExpandOf, bTls13Key, bTls13Iv]
        by_cases h1 : s.1 = [67, 76, 73, 69, 78, 84, 95, 72, 65, 78, 68, 83, 72, 65, 75, 69, 95, 84, 82, 65, 70, 70, 73, 67, 95, 83, 69, 67, 82, 69, 84]
        · simp [h1]
        · by_cases h2 : s.1 = [83, 69, 82, 86, 69, 82, 95, 72, 65, 78, 68, 83, 72, 65, 75, 69, 95, 84, 82, 65, 70, 70, 73, 67, 95, 83, 69, 67, 82, 69, 84]
          · simp [h2]
          · by_cases h3 : s.1 = [67, 76, 73, 69, 78, 84, 95, 84, 82, 65, 70, 70, 73, 67, 95, 83, 69, 67, 82, 69, 84, 95, 48]
            · simp [h3]
            · by_cases h4 : s.1 = [83, 69, 82, 86, 69, 82, 95, 84, 82, 65, 70, 70, 73, 67, 95, 83, 69, 67, 82, 69, 84, 95, 48]
              · simp [h4]
              · simp [h1, h2, h3, h4])
    rw [key]
    rfl
  · simp [hk, ofR, Except.map]

/-- the dict `dev_initial_keys` returns, in display order -/
def initTable (k : InitialKeys) : List (List Nat × Bytes) :=
  [(([99, 108, 105, 101, 110, 116, 95, 105, 110, 105, 116, 105, 97, 108, 95, 107, 101, 121] : List Nat), k.clientKey),
   (([99, 108, 105, 101, 110, 116, 95, 105, 110, 105, 116, 105, 97, 108, 95, 105, 118] : List Nat), k.clientIv),
   (([99, 108, 105, 101, 110, 116, 95, 105, 110, 105, 116, 105, 97, 108, 95, 104, 112] : List Nat), k.clientHp),
   (([115, 101, 114, 118, 101, 114, 95, 105, 110, 105, 116, 105, 97, 108, 95, 107, 101, 121] : List Nat), k.serverKey),
   (([115, 101, 114, 118, 101, 114, 95, 105, 110, 105, 116, 105, 97, 108, 95, 105, 118] : List Nat), k.serverIv),
   (([115, 101, 114, 118, 101, 114, 95, 105, 110, 105, 116, 105, 97, 108, 95, 104, 112] : List Nat), k.serverHp)]

theorem dev_initial_keys_eq_model (P : Prims) (cid : Bytes) (ver : QuicVersion) (chacha : Bool) :
    Gen.Py.dev_initial_keys (hkdfExpandOf P) (hkdfExtractOf P) cid ver chacha
      = (ofR (devInitialKeys P.sha256 cid ver chacha)).map (Option.map initTable) := by
  cases ver <;> cases chacha <;> rfl

theorem listItemE_nat {α : Type} (n : Nat) (l : List α) :
    listItemE l (n : Int) = match l[n]? with | none => .error .index | some a => .ok a := by
  unfold listItemE
  have h1 : ¬ ((n : Int) < 0) := by omega
  simp only [h1, if_false, Int.toNat_natCast]
  rfl

/-- `digest_size` of the model's hash -/
def digestOf (P : Prims) (t : MacTag) : Nat := (macSuite P t).outLen

theorem key_update_eq_model (P : Prims) (h : MacTag) (kl : Nat) (ver : QuicVersion) (keys : List Bytes) :
    Gen.Py.key_update (hkdfExpandOf P) (digestOf P) h kl ver keys
      = (ofR (keyUpdate (macSuite P h) kl keys)).map (fun d => ({ keys := d } : Gen.Py.QDecObj)) := by
  unfold Gen.Py.key_update keyUpdate
  simp only [make_info_eq_model, ofR_bind, if_true, bQuicKey, bQuicIv, bQuicKu, digestOf, hkdfExpandOf]
  cases ofR (makeInfo _ kl) with
  | error e => rfl
  | ok b =>
    cases ofR (makeInfo _ 12) with
    | error e => rfl
    | ok b1 =>
      cases ofR (makeInfo _ (macSuite P h).outLen) with
      | error e => rfl
      | ok b2 =>
        have e4 : listItemE keys (4 : Int) = _ := listItemE_nat 4 keys
        have e5 : listItemE keys (5 : Int) = _ := listItemE_nat 5 keys
        simp only [tryE_ok, e4, e5]
        cases keys[4]? <;> cases keys[5]? <;> rfl

abbrev T20 := Option Bytes × Option Bytes × Option Bytes × Option Bytes × Option Bytes × Option Bytes × Option Bytes × Option Bytes × Option Bytes × Option Bytes × Option Bytes × Option Bytes × Option Bytes × Option Bytes × Option Bytes × Option Bytes × Option Bytes × Option Bytes × Option Bytes × Option Bytes

def qTuple (a : QuicAcc) : T20 :=
  (a.clientHs.map (·.key), a.clientHs.map (·.iv), a.clientHs.map (·.hp), a.serverHs.map (·.key), a.serverHs.map (·.iv), a.serverHs.map (·.hp),
   a.clientApp.map (·.1.key), a.clientApp.map (·.1.iv), a.clientApp.map (·.1.hp), a.clientApp.map (·.2),
   a.serverApp.map (·.1.key), a.serverApp.map (·.1.iv), a.serverApp.map (·.1.hp), a.serverApp.map (·.2),
   a.clientEarly.map (·.key), a.clientEarly.map (·.iv), a.clientEarly.map (·.hp), a.serverEarly.map (·.key), a.serverEarly.map (·.iv), a.serverEarly.map (·.hp))

/-- the loop of `dev_quic_keys`: any step function that does what the six label tests say is the model's `quicStep` -/
theorem foldQ (hs : HashSuite) (kl : Nat) (ki ii hi : Bytes) (g : T20 → (List Nat × Bytes) → T20)
    (ss : List (List Nat × Bytes)) (r : T20)
    (hr : List.foldl g (none, none, none, none, none, none, none, none, none, none, none, none, none, none, none, none, none, none, none, none) ss = r)
    (hg : ∀ (t : T20) (s : List Nat × Bytes), g t s =
      if s.1 = [67, 76, 73, 69, 78, 84, 95, 72, 65, 78, 68, 83, 72, 65, 75, 69, 95, 84, 82, 65, 70, 70, 73, 67, 95, 83, 69, 67, 82, 69, 84] then (some (hs.hkdfExpand s.2 ki kl), some (hs.hkdfExpand s.2 ii 12), some (hs.hkdfExpand s.2 hi kl), t.2.2.2.1, t.2.2.2.2.1, t.2.2.2.2.2.1, t.2.2.2.2.2.2.1, t.2.2.2.2.2.2.2.1, t.2.2.2.2.2.2.2.2.1, t.2.2.2.2.2.2.2.2.2.1, t.2.2.2.2.2.2.2.2.2.2.1, t.2.2.2.2.2.2.2.2.2.2.2.1, t.2.2.2.2.2.2.2.2.2.2.2.2.1, t.2.2.2.2.2.2.2.2.2.2.2.2.2.1, t.2.2.2.2.2.2.2.2.2.2.2.2.2.2.1, t.2.2.2.2.2.2.2.2.2.2.2.2.2.2.2.1, t.2.2.2.2.2.2.2.2.2.2.2.2.2.2.2.2.1, t.2.2.2.2.2.2.2.2.2.2.2.2.2.2.2.2.2.1, t.2.2.2.2.2.2.2.2.2.2.2.2.2.2.2.2.2.2.1, t.2.2.2.2.2.2.2.2.2.2.2.2.2.2.2.2.2.2.2)
      else       if s.1 = [83, 69, 82, 86, 69, 82, 95, 72, 65, 78, 68, 83, 72, 65, 75, 69, 95, 84, 82, 65, 70, 70, 73, 67, 95, 83, 69, 67, 82, 69, 84] then (t.1, t.2.1, t.2.2.1, some (hs.hkdfExpand s.2 ki kl), some (hs.hkdfExpand s.2 ii 12), some (hs.hkdfExpand s.2 hi kl), t.2.2.2.2.2.2.1, t.2.2.2.2.2.2.2.1, t.2.2.2.2.2.2.2.2.1, t.2.2.2.2.2.2.2.2.2.1, t.2.2.2.2.2.2.2.2.2.2.1, t.2.2.2.2.2.2.2.2.2.2.2.1, t.2.2.2.2.2.2.2.2.2.2.2.2.1, t.2.2.2.2.2.2.2.2.2.2.2.2.2.1, t.2.2.2.2.2.2.2.2.2.2.2.2.2.2.1, t.2.2.2.2.2.2.2.2.2.2.2.2.2.2.2.1, t.2.2.2.2.2.2.2.2.2.2.2.2.2.2.2.2.1, t.2.2.2.2.2.2.2.2.2.2.2.2.2.2.2.2.2.1, t.2.2.2.2.2.2.2.2.2.2.2.2.2.2.2.2.2.2.1, t.2.2.2.2.2.2.2.2.2.2.2.2.2.2.2.2.2.2.2)
      else       if s.1 = [67, 76, 73, 69, 78, 84, 95, 84, 82, 65, 70, 70, 73, 67, 95, 83, 69, 67, 82, 69, 84, 95, 48] then (t.1, t.2.1, t.2.2.1, t.2.2.2.1, t.2.2.2.2.1, t.2.2.2.2.2.1, some (hs.hkdfExpand s.2 ki kl), some (hs.hkdfExpand s.2 ii 12), some (hs.hkdfExpand s.2 hi kl), some s.2, t.2.2.2.2.2.2.2.2.2.2.1, t.2.2.2.2.2.2.2.2.2.2.2.1, t.2.2.2.2.2.2.2.2.2.2.2.2.1, t.2.2.2.2.2.2.2.2.2.2.2.2.2.1, t.2.2.2.2.2.2.2.2.2.2.2.2.2.2.1, t.2.2.2.2.2.2.2.2.2.2.2.2.2.2.2.1, t.2.2.2.2.2.2.2.2.2.2.2.2.2.2.2.2.1, t.2.2.2.2.2.2.2.2.2.2.2.2.2.2.2.2.2.1, t.2.2.2.2.2.2.2.2.2.2.2.2.2.2.2.2.2.2.1, t.2.2.2.2.2.2.2.2.2.2.2.2.2.2.2.2.2.2.2)
      else       if s.1 = [83, 69, 82, 86, 69, 82, 95, 84, 82, 65, 70, 70, 73, 67, 95, 83, 69, 67, 82, 69, 84, 95, 48] then (t.1, t.2.1, t.2.2.1, t.2.2.2.1, t.2.2.2.2.1, t.2.2.2.2.2.1, t.2.2.2.2.2.2.1, t.2.2.2.2.2.2.2.1, t.2.2.2.2.2.2.2.2.1, t.2.2.2.2.2.2.2.2.2.1, some (hs.hkdfExpand s.2 ki kl), some (hs.hkdfExpand s.2 ii 12), some (hs.hkdfExpand s.2 hi kl), some s.2, t.2.2.2.2.2.2.2.2.2.2.2.2.2.2.1, t.2.2.2.2.2.2.2.2.2.2.2.2.2.2.2.1, t.2.2.2.2.2.2.2.2.2.2.2.2.2.2.2.2.1, t.2.2.2.2.2.2.2.2.2.2.2.2.2.2.2.2.2.1, t.2.2.2.2.2.2.2.2.2.2.2.2.2.2.2.2.2.2.1, t.2.2.2.2.2.2.2.2.2.2.2.2.2.2.2.2.2.2.2)
      else       if s.1 = [67, 76, 73, 69, 78, 84, 95, 69, 65, 82, 76, 89, 95, 84, 82, 65, 70, 70, 73, 67, 95, 83, 69, 67, 82, 69, 84] then (t.1, t.2.1, t.2.2.1, t.2.2.2.1, t.2.2.2.2.1, t.2.2.2.2.2.1, t.2.2.2.2.2.2.1, t.2.2.2.2.2.2.2.1, t.2.2.2.2.2.2.2.2.1, t.2.2.2.2.2.2.2.2.2.1, t.2.2.2.2.2.2.2.2.2.2.1, t.2.2.2.2.2.2.2.2.2.2.2.1, t.2.2.2.2.2.2.2.2.2.2.2.2.1, t.2.2.2.2.2.2.2.2.2.2.2.2.2.1, some (hs.hkdfExpand s.2 ki kl), some (hs.hkdfExpand s.2 ii 12), some (hs.hkdfExpand s.2 hi kl), t.2.2.2.2.2.2.2.2.2.2.2.2.2.2.2.2.2.1, t.2.2.2.2.2.2.2.2.2.2.2.2.2.2.2.2.2.2.1, t.2.2.2.2.2.2.2.2.2.2.2.2.2.2.2.2.2.2.2)
      else       if s.1 = [83, 69, 82, 86, 69, 82, 95, 69, 65, 82, 76, 89, 95, 84, 82, 65, 70, 70, 73, 67, 95, 83, 69, 67, 82, 69, 84] then (t.1, t.2.1, t.2.2.1, t.2.2.2.1, t.2.2.2.2.1, t.2.2.2.2.2.1, t.2.2.2.2.2.2.1, t.2.2.2.2.2.2.2.1, t.2.2.2.2.2.2.2.2.1, t.2.2.2.2.2.2.2.2.2.1, t.2.2.2.2.2.2.2.2.2.2.1, t.2.2.2.2.2.2.2.2.2.2.2.1, t.2.2.2.2.2.2.2.2.2.2.2.2.1, t.2.2.2.2.2.2.2.2.2.2.2.2.2.1, t.2.2.2.2.2.2.2.2.2.2.2.2.2.2.1, t.2.2.2.2.2.2.2.2.2.2.2.2.2.2.2.1, t.2.2.2.2.2.2.2.2.2.2.2.2.2.2.2.2.1, some (hs.hkdfExpand s.2 ki kl), some (hs.hkdfExpand s.2 ii 12), some (hs.hkdfExpand s.2 hi kl))
      else t) :
    r = qTuple (List.foldl (quicStep hs kl ki ii hi) {} (ss.map secOf)) := by
  rw [← hr]
  have gen : ∀ (ss : List (List Nat × Bytes)) (a : QuicAcc), List.foldl g (qTuple a) ss = qTuple (List.foldl (quicStep hs kl ki ii hi) a (ss.map secOf)) := by
    intro ss
    induction ss with
    | nil => intro a; rfl
    | cons s rest ih =>
      intro a
      simp only [List.foldl_cons, List.map_cons]
      rw [← ih]
      congr 1
      rw [hg]
      by_cases h1 : s.1 = [67, 76, 73, 69, 78, 84, 95, 72, 65, 78, 68, 83, 72, 65, 75, 69, 95, 84, 82, 65, 70, 70, 73, 67, 95, 83, 69, 67, 82, 69, 84]
      · have hl : labelOf s.1 = Label.clientHandshake := by unfold labelOf; rw [if_pos h1]
        rw [if_pos h1]
        unfold quicStep secOf
        simp only [hl]
        rfl
      · by_cases h2 : s.1 = [83, 69, 82, 86, 69, 82, 95, 72, 65, 78, 68, 83, 72, 65, 75, 69, 95, 84, 82, 65, 70, 70, 73, 67, 95, 83, 69, 67, 82, 69, 84]
        · have hl : labelOf s.1 = Label.serverHandshake := by unfold labelOf; rw [if_neg h1, if_pos h2]
          rw [if_neg h1, if_pos h2]
          unfold quicStep secOf
          simp only [hl]
          rfl
        · by_cases h3 : s.1 = [67, 76, 73, 69, 78, 84, 95, 84, 82, 65, 70, 70, 73, 67, 95, 83, 69, 67, 82, 69, 84, 95, 48]
          · have hl : labelOf s.1 = Label.clientTraffic0 := by unfold labelOf; rw [if_neg h1, if_neg h2, if_pos h3]
            rw [if_neg h1, if_neg h2, if_pos h3]
            unfold quicStep secOf
            simp only [hl]
            rfl
          · by_cases h4 : s.1 = [83, 69, 82, 86, 69, 82, 95, 84, 82, 65, 70, 70, 73, 67, 95, 83, 69, 67, 82, 69, 84, 95, 48]
            · have hl : labelOf s.1 = Label.serverTraffic0 := by unfold labelOf; rw [if_neg h1, if_neg h2, if_neg h3, if_pos h4]
              rw [if_neg h1, if_neg h2, if_neg h3, if_pos h4]
              unfold quicStep secOf
              simp only [hl]
              rfl
            · by_cases h5 : s.1 = [67, 76, 73, 69, 78, 84, 95, 69, 65, 82, 76, 89, 95, 84, 82, 65, 70, 70, 73, 67, 95, 83, 69, 67, 82, 69, 84]
              · have hl : labelOf s.1 = Label.clientEarly := by unfold labelOf; rw [if_neg h1, if_neg h2, if_neg h3, if_neg h4, if_pos h5]
                rw [if_neg h1, if_neg h2, if_neg h3, if_neg h4, if_pos h5]
                unfold quicStep secOf
                simp only [hl]
                rfl
              · by_cases h6 : s.1 = [83, 69, 82, 86, 69, 82, 95, 69, 65, 82, 76, 89, 95, 84, 82, 65, 70, 70, 73, 67, 95, 83, 69, 67, 82, 69, 84]
                · have hl : labelOf s.1 = Label.serverEarly := by unfold labelOf; rw [if_neg h1, if_neg h2, if_neg h3, if_neg h4, if_neg h5, if_pos h6]
                  rw [if_neg h1, if_neg h2, if_neg h3, if_neg h4, if_neg h5, if_pos h6]
                  unfold quicStep secOf
                  simp only [hl]
                  rfl
                · by_cases h7 : s.1 = [67, 76, 73, 69, 78, 84, 95, 82, 65, 78, 68, 79, 77]
                  · have hl : labelOf s.1 = Label.clientRandom := by unfold labelOf; rw [if_neg h1, if_neg h2, if_neg h3, if_neg h4, if_neg h5, if_neg h6, if_pos h7]
                    rw [if_neg h1, if_neg h2, if_neg h3, if_neg h4, if_neg h5, if_neg h6]
                    unfold quicStep secOf
                    simp only [hl]
                  · by_cases h8 : s.1 = [82, 83, 65]
                    · have hl : labelOf s.1 = Label.rsa := by unfold labelOf; rw [if_neg h1, if_neg h2, if_neg h3, if_neg h4, if_neg h5, if_neg h6, if_neg h7, if_pos h8]
                      rw [if_neg h1, if_neg h2, if_neg h3, if_neg h4, if_neg h5, if_neg h6]
                      unfold quicStep secOf
                      simp only [hl]
                    · have hl : labelOf s.1 = Label.other := by unfold labelOf; rw [if_neg h1, if_neg h2, if_neg h3, if_neg h4, if_neg h5, if_neg h6, if_neg h7, if_neg h8]
                      rw [if_neg h1, if_neg h2, if_neg h3, if_neg h4, if_neg h5, if_neg h6]
                      unfold quicStep secOf
                      simp only [hl]

  exact gen ss {}

/-- the dict `dev_quic_keys` returns, in display order -/
def quicTable (k : QuicKeys) : List (List Nat × Option Bytes) :=
  [(([99, 108, 105, 101, 110, 116, 95, 104, 97, 110, 100, 115, 104, 97, 107, 101, 95, 107, 101, 121] : List Nat), some k.clientHs.key),
   (([115, 101, 114, 118, 101, 114, 95, 104, 97, 110, 100, 115, 104, 97, 107, 101, 95, 107, 101, 121] : List Nat), some k.serverHs.key),
   (([99, 108, 105, 101, 110, 116, 95, 104, 97, 110, 100, 115, 104, 97, 107, 101, 95, 105, 118] : List Nat), some k.clientHs.iv),
   (([115, 101, 114, 118, 101, 114, 95, 104, 97, 110, 100, 115, 104, 97, 107, 101, 95, 105, 118] : List Nat), some k.serverHs.iv),
   (([99, 108, 105, 101, 110, 116, 95, 104, 97, 110, 100, 115, 104, 97, 107, 101, 95, 104, 112] : List Nat), some k.clientHs.hp),
   (([115, 101, 114, 118, 101, 114, 95, 104, 97, 110, 100, 115, 104, 97, 107, 101, 95, 104, 112] : List Nat), some k.serverHs.hp),
   (([99, 108, 105, 101, 110, 116, 95, 97, 112, 112, 108, 105, 99, 97, 116, 105, 111, 110, 95, 107, 101, 121] : List Nat), some k.clientApp.key),
   (([115, 101, 114, 118, 101, 114, 95, 97, 112, 112, 108, 105, 99, 97, 116, 105, 111, 110, 95, 107, 101, 121] : List Nat), some k.serverApp.key),
   (([99, 108, 105, 101, 110, 116, 95, 97, 112, 112, 108, 105, 99, 97, 116, 105, 111, 110, 95, 105, 118] : List Nat), some k.clientApp.iv),
   (([115, 101, 114, 118, 101, 114, 95, 97, 112, 112, 108, 105, 99, 97, 116, 105, 111, 110, 95, 105, 118] : List Nat), some k.serverApp.iv),
   (([99, 108, 105, 101, 110, 116, 95, 97, 112, 112, 108, 105, 99, 97, 116, 105, 111, 110, 95, 104, 112] : List Nat), some k.clientApp.hp),
   (([115, 101, 114, 118, 101, 114, 95, 97, 112, 112, 108, 105, 99, 97, 116, 105, 111, 110, 95, 104, 112] : List Nat), some k.serverApp.hp),
   (([99, 108, 105, 101, 110, 116, 95, 97, 112, 112, 108, 105, 99, 97, 116, 105, 111, 110, 95, 115, 101, 99] : List Nat), some k.clientAppSec),
   (([115, 101, 114, 118, 101, 114, 95, 97, 112, 112, 108, 105, 99, 97, 116, 105, 111, 110, 95, 115, 101, 99] : List Nat), some k.serverAppSec),
   (([99, 108, 105, 101, 110, 116, 95, 101, 97, 114, 108, 121, 95, 107, 101, 121] : List Nat), k.clientEarly.map (·.key)),
   (([99, 108, 105, 101, 110, 116, 95, 101, 97, 114, 108, 121, 95, 105, 118] : List Nat), k.clientEarly.map (·.iv)),
   (([115, 101, 114, 118, 101, 114, 95, 101, 97, 114, 108, 121, 95, 107, 101, 121] : List Nat), k.serverEarly.map (·.key)),
   (([115, 101, 114, 118, 101, 114, 95, 101, 97, 114, 108, 121, 95, 105, 118] : List Nat), k.serverEarly.map (·.iv)),
   (([99, 108, 105, 101, 110, 116, 95, 101, 97, 114, 108, 121, 95, 104, 112] : List Nat), k.clientEarly.map (·.hp)),
   (([115, 101, 114, 118, 101, 114, 95, 101, 97, 114, 108, 121, 95, 104, 112] : List Nat), k.serverEarly.map (·.hp))]


theorem quic_loop1 (P : Prims) (kl : Nat) (h : MacTag) (ki ii hi : Bytes) (t : T20) (s : List Nat × Bytes) :
    Gen.Py.dev_quic_keys.loop1 (hkdfExpandOf P) kl h ki ii hi t s =
      if s.1 = [67, 76, 73, 69, 78, 84, 95, 72, 65, 78, 68, 83, 72, 65, 75, 69, 95, 84, 82, 65, 70, 70, 73, 67, 95, 83, 69, 67, 82, 69, 84] then (some ((macSuite P h).hkdfExpand s.2 ki kl), some ((macSuite P h).hkdfExpand s.2 ii 12), some ((macSuite P h).hkdfExpand s.2 hi kl), t.2.2.2.1, t.2.2.2.2.1, t.2.2.2.2.2.1, t.2.2.2.2.2.2.1, t.2.2.2.2.2.2.2.1, t.2.2.2.2.2.2.2.2.1, t.2.2.2.2.2.2.2.2.2.1, t.2.2.2.2.2.2.2.2.2.2.1, t.2.2.2.2.2.2.2.2.2.2.2.1, t.2.2.2.2.2.2.2.2.2.2.2.2.1, t.2.2.2.2.2.2.2.2.2.2.2.2.2.1, t.2.2.2.2.2.2.2.2.2.2.2.2.2.2.1, t.2.2.2.2.2.2.2.2.2.2.2.2.2.2.2.1, t.2.2.2.2.2.2.2.2.2.2.2.2.2.2.2.2.1, t.2.2.2.2.2.2.2.2.2.2.2.2.2.2.2.2.2.1, t.2.2.2.2.2.2.2.2.2.2.2.2.2.2.2.2.2.2.1, t.2.2.2.2.2.2.2.2.2.2.2.2.2.2.2.2.2.2.2)
      else       if s.1 = [83, 69, 82, 86, 69, 82, 95, 72, 65, 78, 68, 83, 72, 65, 75, 69, 95, 84, 82, 65, 70, 70, 73, 67, 95, 83, 69, 67, 82, 69, 84] then (t.1, t.2.1, t.2.2.1, some ((macSuite P h).hkdfExpand s.2 ki kl), some ((macSuite P h).hkdfExpand s.2 ii 12), some ((macSuite P h).hkdfExpand s.2 hi kl), t.2.2.2.2.2.2.1, t.2.2.2.2.2.2.2.1, t.2.2.2.2.2.2.2.2.1, t.2.2.2.2.2.2.2.2.2.1, t.2.2.2.2.2.2.2.2.2.2.1, t.2.2.2.2.2.2.2.2.2.2.2.1, t.2.2.2.2.2.2.2.2.2.2.2.2.1, t.2.2.2.2.2.2.2.2.2.2.2.2.2.1, t.2.2.2.2.2.2.2.2.2.2.2.2.2.2.1, t.2.2.2.2.2.2.2.2.2.2.2.2.2.2.2.1, t.2.2.2.2.2.2.2.2.2.2.2.2.2.2.2.2.1, t.2.2.2.2.2.2.2.2.2.2.2.2.2.2.2.2.2.1, t.2.2.2.2.2.2.2.2.2.2.2.2.2.2.2.2.2.2.1, t.2.2.2.2.2.2.2.2.2.2.2.2.2.2.2.2.2.2.2)
      else       if s.1 = [67, 76, 73, 69, 78, 84, 95, 84, 82, 65, 70, 70, 73, 67, 95, 83, 69, 67, 82, 69, 84, 95, 48] then (t.1, t.2.1, t.2.2.1, t.2.2.2.1, t.2.2.2.2.1, t.2.2.2.2.2.1, some ((macSuite P h).hkdfExpand s.2 ki kl), some ((macSuite P h).hkdfExpand s.2 ii 12), some ((macSuite P h).hkdfExpand s.2 hi kl), some s.2, t.2.2.2.2.2.2.2.2.2.2.1, t.2.2.2.2.2.2.2.2.2.2.2.1, t.2.2.2.2.2.2.2.2.2.2.2.2.1, t.2.2.2.2.2.2.2.2.2.2.2.2.2.1, t.2.2.2.2.2.2.2.2.2.2.2.2.2.2.1, t.2.2.2.2.2.2.2.2.2.2.2.2.2.2.2.1, t.2.2.2.2.2.2.2.2.2.2.2.2.2.2.2.2.1, t.2.2.2.2.2.2.2.2.2.2.2.2.2.2.2.2.2.1, t.2.2.2.2.2.2.2.2.2.2.2.2.2.2.2.2.2.2.1, t.2.2.2.2.2.2.2.2.2.2.2.2.2.2.2.2.2.2.2)
      else       if s.1 = [83, 69, 82, 86, 69, 82, 95, 84, 82, 65, 70, 70, 73, 67, 95, 83, 69, 67, 82, 69, 84, 95, 48] then (t.1, t.2.1, t.2.2.1, t.2.2.2.1, t.2.2.2.2.1, t.2.2.2.2.2.1, t.2.2.2.2.2.2.1, t.2.2.2.2.2.2.2.1, t.2.2.2.2.2.2.2.2.1, t.2.2.2.2.2.2.2.2.2.1, some ((macSuite P h).hkdfExpand s.2 ki kl), some ((macSuite P h).hkdfExpand s.2 ii 12), some ((macSuite P h).hkdfExpand s.2 hi kl), some s.2, t.2.2.2.2.2.2.2.2.2.2.2.2.2.2.1, t.2.2.2.2.2.2.2.2.2.2.2.2.2.2.2.1, t.2.2.2.2.2.2.2.2.2.2.2.2.2.2.2.2.1, t.2.2.2.2.2.2.2.2.2.2.2.2.2.2.2.2.2.1, t.2.2.2.2.2.2.2.2.2.2.2.2.2.2.2.2.2.2.1, t.2.2.2.2.2.2.2.2.2.2.2.2.2.2.2.2.2.2.2)
      else       if s.1 = [67, 76, 73, 69, 78, 84, 95, 69, 65, 82, 76, 89, 95, 84, 82, 65, 70, 70, 73, 67, 95, 83, 69, 67, 82, 69, 84] then (t.1, t.2.1, t.2.2.1, t.2.2.2.1, t.2.2.2.2.1, t.2.2.2.2.2.1, t.2.2.2.2.2.2.1, t.2.2.2.2.2.2.2.1, t.2.2.2.2.2.2.2.2.1, t.2.2.2.2.2.2.2.2.2.1, t.2.2.2.2.2.2.2.2.2.2.1, t.2.2.2.2.2.2.2.2.2.2.2.1, t.2.2.2.2.2.2.2.2.2.2.2.2.1, t.2.2.2.2.2.2.2.2.2.2.2.2.2.1, some ((macSuite P h).hkdfExpand s.2 ki kl), some ((macSuite P h).hkdfExpand s.2 ii 12), some ((macSuite P h).hkdfExpand s.2 hi kl), t.2.2.2.2.2.2.2.2.2.2.2.2.2.2.2.2.2.1, t.2.2.2.2.2.2.2.2.2.2.2.2.2.2.2.2.2.2.1, t.2.2.2.2.2.2.2.2.2.2.2.2.2.2.2.2.2.2.2)
      else       if s.1 = [83, 69, 82, 86, 69, 82, 95, 69, 65, 82, 76, 89, 95, 84, 82, 65, 70, 70, 73, 67, 95, 83, 69, 67, 82, 69, 84] then (t.1, t.2.1, t.2.2.1, t.2.2.2.1, t.2.2.2.2.1, t.2.2.2.2.2.1, t.2.2.2.2.2.2.1, t.2.2.2.2.2.2.2.1, t.2.2.2.2.2.2.2.2.1, t.2.2.2.2.2.2.2.2.2.1, t.2.2.2.2.2.2.2.2.2.2.1, t.2.2.2.2.2.2.2.2.2.2.2.1, t.2.2.2.2.2.2.2.2.2.2.2.2.1, t.2.2.2.2.2.2.2.2.2.2.2.2.2.1, t.2.2.2.2.2.2.2.2.2.2.2.2.2.2.1, t.2.2.2.2.2.2.2.2.2.2.2.2.2.2.2.1, t.2.2.2.2.2.2.2.2.2.2.2.2.2.2.2.2.1, some ((macSuite P h).hkdfExpand s.2 ki kl), some ((macSuite P h).hkdfExpand s.2 ii 12), some ((macSuite P h).hkdfExpand s.2 hi kl))
      else t := by
  unfold Gen.Py.dev_quic_keys.loop1 hkdfExpandOf
  by_cases h1 : s.1 = [67, 76, 73, 69, 78, 84, 95, 72, 65, 78, 68, 83, 72, 65, 75, 69, 95, 84, 82, 65, 70, 70, 73, 67, 95, 83, 69, 67, 82, 69, 84]
  · simp only [if_pos h1, decide_eq_true h1, if_true, Bool.false_eq_true, if_false]
  · by_cases h2 : s.1 = [83, 69, 82, 86, 69, 82, 95, 72, 65, 78, 68, 83, 72, 65, 75, 69, 95, 84, 82, 65, 70, 70, 73, 67, 95, 83, 69, 67, 82, 69, 84]
    · simp only [if_neg h1, decide_eq_false h1, if_pos h2, decide_eq_true h2, if_true, Bool.false_eq_true, if_false]
    · by_cases h3 : s.1 = [67, 76, 73, 69, 78, 84, 95, 84, 82, 65, 70, 70, 73, 67, 95, 83, 69, 67, 82, 69, 84, 95, 48]
      · simp only [if_neg h1, decide_eq_false h1, if_neg h2, decide_eq_false h2, if_pos h3, decide_eq_true h3, if_true, Bool.false_eq_true, if_false]
      · by_cases h4 : s.1 = [83, 69, 82, 86, 69, 82, 95, 84, 82, 65, 70, 70, 73, 67, 95, 83, 69, 67, 82, 69, 84, 95, 48]
        · simp only [if_neg h1, decide_eq_false h1, if_neg h2, decide_eq_false h2, if_neg h3, decide_eq_false h3, if_pos h4, decide_eq_true h4, if_true, Bool.false_eq_true, if_false]
        · by_cases h5 : s.1 = [67, 76, 73, 69, 78, 84, 95, 69, 65, 82, 76, 89, 95, 84, 82, 65, 70, 70, 73, 67, 95, 83, 69, 67, 82, 69, 84]
          · simp only [if_neg h1, decide_eq_false h1, if_neg h2, decide_eq_false h2, if_neg h3, decide_eq_false h3, if_neg h4, decide_eq_false h4, if_pos h5, decide_eq_true h5, if_true, Bool.false_eq_true, if_false]
          · by_cases h6 : s.1 = [83, 69, 82, 86, 69, 82, 95, 69, 65, 82, 76, 89, 95, 84, 82, 65, 70, 70, 73, 67, 95, 83, 69, 67, 82, 69, 84]
            · simp only [if_neg h1, decide_eq_false h1, if_neg h2, decide_eq_false h2, if_neg h3, decide_eq_false h3, if_neg h4, decide_eq_false h4, if_neg h5, decide_eq_false h5, if_pos h6, decide_eq_true h6, if_true, Bool.false_eq_true, if_false]
            · simp only [if_neg h1, decide_eq_false h1, if_neg h2, decide_eq_false h2, if_neg h3, decide_eq_false h3, if_neg h4, decide_eq_false h4, if_neg h5, decide_eq_false h5, if_neg h6, decide_eq_false h6, Bool.false_eq_true, if_false]


theorem quic_loop2 (P : Prims) (kl : Nat) (h : MacTag) (ki ii hi : Bytes) (t : T20) (s : List Nat × Bytes) :
    Gen.Py.dev_quic_keys.loop2 (hkdfExpandOf P) kl h ki ii hi t s =
      if s.1 = [67, 76, 73, 69, 78, 84, 95, 72, 65, 78, 68, 83, 72, 65, 75, 69, 95, 84, 82, 65, 70, 70, 73, 67, 95, 83, 69, 67, 82, 69, 84] then (some ((macSuite P h).hkdfExpand s.2 ki kl), some ((macSuite P h).hkdfExpand s.2 ii 12), some ((macSuite P h).hkdfExpand s.2 hi kl), t.2.2.2.1, t.2.2.2.2.1, t.2.2.2.2.2.1, t.2.2.2.2.2.2.1, t.2.2.2.2.2.2.2.1, t.2.2.2.2.2.2.2.2.1, t.2.2.2.2.2.2.2.2.2.1, t.2.2.2.2.2.2.2.2.2.2.1, t.2.2.2.2.2.2.2.2.2.2.2.1, t.2.2.2.2.2.2.2.2.2.2.2.2.1, t.2.2.2.2.2.2.2.2.2.2.2.2.2.1, t.2.2.2.2.2.2.2.2.2.2.2.2.2.2.1, t.2.2.2.2.2.2.2.2.2.2.2.2.2.2.2.1, t.2.2.2.2.2.2.2.2.2.2.2.2.2.2.2.2.1, t.2.2.2.2.2.2.2.2.2.2.2.2.2.2.2.2.2.1, t.2.2.2.2.2.2.2.2.2.2.2.2.2.2.2.2.2.2.1, t.2.2.2.2.2.2.2.2.2.2.2.2.2.2.2.2.2.2.2)
      else       if s.1 = [83, 69, 82, 86, 69, 82, 95, 72, 65, 78, 68, 83, 72, 65, 75, 69, 95, 84, 82, 65, 70, 70, 73, 67, 95, 83, 69, 67, 82, 69, 84] then (t.1, t.2.1, t.2.2.1, some ((macSuite P h).hkdfExpand s.2 ki kl), some ((macSuite P h).hkdfExpand s.2 ii 12), some ((macSuite P h).hkdfExpand s.2 hi kl), t.2.2.2.2.2.2.1, t.2.2.2.2.2.2.2.1, t.2.2.2.2.2.2.2.2.1, t.2.2.2.2.2.2.2.2.2.1, t.2.2.2.2.2.2.2.2.2.2.1, t.2.2.2.2.2.2.2.2.2.2.2.1, t.2.2.2.2.2.2.2.2.2.2.2.2.1, t.2.2.2.2.2.2.2.2.2.2.2.2.2.1, t.2.2.2.2.2.2.2.2.2.2.2.2.2.2.1, t.2.2.2.2.2.2.2.2.2.2.2.2.2.2.2.1, t.2.2.2.2.2.2.2.2.2.2.2.2.2.2.2.2.1, t.2.2.2.2.2.2.2.2.2.2.2.2.2.2.2.2.2.1, t.2.2.2.2.2.2.2.2.2.2.2.2.2.2.2.2.2.2.1, t.2.2.2.2.2.2.2.2.2.2.2.2.2.2.2.2.2.2.2)
      else       if s.1 = [67, 76, 73, 69, 78, 84, 95, 84, 82, 65, 70, 70, 73, 67, 95, 83, 69, 67, 82, 69, 84, 95, 48] then (t.1, t.2.1, t.2.2.1, t.2.2.2.1, t.2.2.2.2.1, t.2.2.2.2.2.1, some ((macSuite P h).hkdfExpand s.2 ki kl), some ((macSuite P h).hkdfExpand s.2 ii 12), some ((macSuite P h).hkdfExpand s.2 hi kl), some s.2, t.2.2.2.2.2.2.2.2.2.2.1, t.2.2.2.2.2.2.2.2.2.2.2.1, t.2.2.2.2.2.2.2.2.2.2.2.2.1, t.2.2.2.2.2.2.2.2.2.2.2.2.2.1, t.2.2.2.2.2.2.2.2.2.2.2.2.2.2.1, t.2.2.2.2.2.2.2.2.2.2.2.2.2.2.2.1, t.2.2.2.2.2.2.2.2.2.2.2.2.2.2.2.2.1, t.2.2.2.2.2.2.2.2.2.2.2.2.2.2.2.2.2.1, t.2.2.2.2.2.2.2.2.2.2.2.2.2.2.2.2.2.2.1, t.2.2.2.2.2.2.2.2.2.2.2.2.2.2.2.2.2.2.2)
      else       if s.1 = [83, 69, 82, 86, 69, 82, 95, 84, 82, 65, 70, 70, 73, 67, 95, 83, 69, 67, 82, 69, 84, 95, 48] then (t.1, t.2.1, t.2.2.1, t.2.2.2.1, t.2.2.2.2.1, t.2.2.2.2.2.1, t.2.2.2.2.2.2.1, t.2.2.2.2.2.2.2.1, t.2.2.2.2.2.2.2.2.1, t.2.2.2.2.2.2.2.2.2.1, some ((macSuite P h).hkdfExpand s.2 ki kl), some ((macSuite P h).hkdfExpand s.2 ii 12), some ((macSuite P h).hkdfExpand s.2 hi kl), some s.2, t.2.2.2.2.2.2.2.2.2.2.2.2.2.2.1, t.2.2.2.2.2.2.2.2.2.2.2.2.2.2.2.1, t.2.2.2.2.2.2.2.2.2.2.2.2.2.2.2.2.1, t.2.2.2.2.2.2.2.2.2.2.2.2.2.2.2.2.2.1, t.2.2.2.2.2.2.2.2.2.2.2.2.2.2.2.2.2.2.1, t.2.2.2.2.2.2.2.2.2.2.2.2.2.2.2.2.2.2.2)
      else       if s.1 = [67, 76, 73, 69, 78, 84, 95, 69, 65, 82, 76, 89, 95, 84, 82, 65, 70, 70, 73, 67, 95, 83, 69, 67, 82, 69, 84] then (t.1, t.2.1, t.2.2.1, t.2.2.2.1, t.2.2.2.2.1, t.2.2.2.2.2.1, t.2.2.2.2.2.2.1, t.2.2.2.2.2.2.2.1, t.2.2.2.2.2.2.2.2.1, t.2.2.2.2.2.2.2.2.2.1, t.2.2.2.2.2.2.2.2.2.2.1, t.2.2.2.2.2.2.2.2.2.2.2.1, t.2.2.2.2.2.2.2.2.2.2.2.2.1, t.2.2.2.2.2.2.2.2.2.2.2.2.2.1, some ((macSuite P h).hkdfExpand s.2 ki kl), some ((macSuite P h).hkdfExpand s.2 ii 12), some ((macSuite P h).hkdfExpand s.2 hi kl), t.2.2.2.2.2.2.2.2.2.2.2.2.2.2.2.2.2.1, t.2.2.2.2.2.2.2.2.2.2.2.2.2.2.2.2.2.2.1, t.2.2.2.2.2.2.2.2.2.2.2.2.2.2.2.2.2.2.2)
      else       if s.1 = [83, 69, 82, 86, 69, 82, 95, 69, 65, 82, 76, 89, 95, 84, 82, 65, 70, 70, 73, 67, 95, 83, 69, 67, 82, 69, 84] then (t.1, t.2.1, t.2.2.1, t.2.2.2.1, t.2.2.2.2.1, t.2.2.2.2.2.1, t.2.2.2.2.2.2.1, t.2.2.2.2.2.2.2.1, t.2.2.2.2.2.2.2.2.1, t.2.2.2.2.2.2.2.2.2.1, t.2.2.2.2.2.2.2.2.2.2.1, t.2.2.2.2.2.2.2.2.2.2.2.1, t.2.2.2.2.2.2.2.2.2.2.2.2.1, t.2.2.2.2.2.2.2.2.2.2.2.2.2.1, t.2.2.2.2.2.2.2.2.2.2.2.2.2.2.1, t.2.2.2.2.2.2.2.2.2.2.2.2.2.2.2.1, t.2.2.2.2.2.2.2.2.2.2.2.2.2.2.2.2.1, some ((macSuite P h).hkdfExpand s.2 ki kl), some ((macSuite P h).hkdfExpand s.2 ii 12), some ((macSuite P h).hkdfExpand s.2 hi kl))
      else t := by
  unfold Gen.Py.dev_quic_keys.loop2 hkdfExpandOf
  by_cases h1 : s.1 = [67, 76, 73, 69, 78, 84, 95, 72, 65, 78, 68, 83, 72, 65, 75, 69, 95, 84, 82, 65, 70, 70, 73, 67, 95, 83, 69, 67, 82, 69, 84]
  · simp only [if_pos h1, decide_eq_true h1, if_true, Bool.false_eq_true, if_false]
  · by_cases h2 : s.1 = [83, 69, 82, 86, 69, 82, 95, 72, 65, 78, 68, 83, 72, 65, 75, 69, 95, 84, 82, 65, 70, 70, 73, 67, 95, 83, 69, 67, 82, 69, 84]
    · simp only [if_neg h1, decide_eq_false h1, if_pos h2, decide_eq_true h2, if_true, Bool.false_eq_true, if_false]
    · by_cases h3 : s.1 = [67, 76, 73, 69, 78, 84, 95, 84, 82, 65, 70, 70, 73, 67, 95, 83, 69, 67, 82, 69, 84, 95, 48]
      · simp only [if_neg h1, decide_eq_false h1, if_neg h2, decide_eq_false h2, if_pos h3, decide_eq_true h3, if_true, Bool.false_eq_true, if_false]
      · by_cases h4 : s.1 = [83, 69, 82, 86, 69, 82, 95, 84, 82, 65, 70, 70, 73, 67, 95, 83, 69, 67, 82, 69, 84, 95, 48]
        · simp only [if_neg h1, decide_eq_false h1, if_neg h2, decide_eq_false h2, if_neg h3, decide_eq_false h3, if_pos h4, decide_eq_true h4, if_true, Bool.false_eq_true, if_false]
        · by_cases h5 : s.1 = [67, 76, 73, 69, 78, 84, 95, 69, 65, 82, 76, 89, 95, 84, 82, 65, 70, 70, 73, 67, 95, 83, 69, 67, 82, 69, 84]
          · simp only [if_neg h1, decide_eq_false h1, if_neg h2, decide_eq_false h2, if_neg h3, decide_eq_false h3, if_neg h4, decide_eq_false h4, if_pos h5, decide_eq_true h5, if_true, Bool.false_eq_true, if_false]
          · by_cases h6 : s.1 = [83, 69, 82, 86, 69, 82, 95, 69, 65, 82, 76, 89, 95, 84, 82, 65, 70, 70, 73, 67, 95, 83, 69, 67, 82, 69, 84]
            · simp only [if_neg h1, decide_eq_false h1, if_neg h2, decide_eq_false h2, if_neg h3, decide_eq_false h3, if_neg h4, decide_eq_false h4, if_neg h5, decide_eq_false h5, if_pos h6, decide_eq_true h6, if_true, Bool.false_eq_true, if_false]
            · simp only [if_neg h1, decide_eq_false h1, if_neg h2, decide_eq_false h2, if_neg h3, decide_eq_false h3, if_neg h4, decide_eq_false h4, if_neg h5, decide_eq_false h5, if_neg h6, decide_eq_false h6, Bool.false_eq_true, if_false]


theorem dev_quic_keys_eq_model (P : Prims) (kl : Nat) (ss : List (List Nat × Bytes)) (h : MacTag) (ver : QuicVersion) :
    Gen.Py.dev_quic_keys (hkdfExpandOf P) kl ss h ver = (ofR (devQuicKeys (macSuite P h) kl (ss.map secOf) ver)).map quicTable := by
  unfold Gen.Py.dev_quic_keys devQuicKeys
  cases ver
  case unknown =>
    simp only [reduceCtorEq, decide_false, decide_true, Bool.false_eq_true, if_false, if_true, make_info_eq_model, ofR_bind, bQuicKey, bQuicIv, bQuicHp, bQuicV2Key, bQuicV2Iv, bQuicV2Hp]
    generalize ofR (makeInfo _ 12) = m2
    cases ofR (makeInfo _ kl) with
    | error e => rfl
    | ok ki =>
      cases m2 with
      | error e => rfl
      | ok ii =>
        cases ofR (makeInfo _ kl) with
        | error e => rfl
        | ok hi =>
          simp only [tryE_ok]
          rw [foldQ (macSuite P h) kl ki ii hi _ ss _ rfl (quic_loop2 P kl h ki ii hi)]
          generalize List.foldl (quicStep (macSuite P h) kl ki ii hi) {} (ss.map secOf) = acc
          obtain ⟨chs, shs, cap, sap, ce, se⟩ := acc
          cases chs <;> cases shs <;> cases cap <;> cases sap <;> rfl
  case v1 =>
    simp only [reduceCtorEq, decide_false, decide_true, Bool.false_eq_true, if_false, if_true, make_info_eq_model, ofR_bind, bQuicKey, bQuicIv, bQuicHp, bQuicV2Key, bQuicV2Iv, bQuicV2Hp]
    generalize ofR (makeInfo _ 12) = m2
    cases ofR (makeInfo _ kl) with
    | error e => rfl
    | ok ki =>
      cases m2 with
      | error e => rfl
      | ok ii =>
        cases ofR (makeInfo _ kl) with
        | error e => rfl
        | ok hi =>
          simp only [tryE_ok]
          rw [foldQ (macSuite P h) kl ki ii hi _ ss _ rfl (quic_loop1 P kl h ki ii hi)]
          generalize List.foldl (quicStep (macSuite P h) kl ki ii hi) {} (ss.map secOf) = acc
          obtain ⟨chs, shs, cap, sap, ce, se⟩ := acc
          cases chs <;> cases shs <;> cases cap <;> cases sap <;> rfl
  case v2 =>
    simp only [reduceCtorEq, decide_false, decide_true, Bool.false_eq_true, if_false, if_true, make_info_eq_model, ofR_bind, bQuicKey, bQuicIv, bQuicHp, bQuicV2Key, bQuicV2Iv, bQuicV2Hp]
    generalize ofR (makeInfo _ 12) = m2
    cases ofR (makeInfo _ kl) with
    | error e => rfl
    | ok ki =>
      cases m2 with
      | error e => rfl
      | ok ii =>
        cases ofR (makeInfo _ kl) with
        | error e => rfl
        | ok hi =>
          simp only [tryE_ok]
          rw [foldQ (macSuite P h) kl ki ii hi _ ss _ rfl (quic_loop2 P kl h ki ii hi)]
          generalize List.foldl (quicStep (macSuite P h) kl ki ii hi) {} (ss.map secOf) = acc
          obtain ⟨chs, shs, cap, sap, ce, se⟩ := acc
          cases chs <;> cases shs <;> cases cap <;> cases sap <;> rfl

-- ------------------------------------------------------------------ evaluation
example : Gen.Py.make_info [0x71, 0x75, 0x69, 0x63, 0x20, 0x6b, 0x65, 0x79] 16 = .ok [0, 16, 14, 0x74, 0x6c, 0x73, 0x31, 0x33, 0x20, 0x71, 0x75, 0x69, 0x63, 0x20, 0x6b, 0x65, 0x79, 0] ∧
    Gen.Py.make_info [] 65536 = .error .overflow := by decide

example : Gen.Py.prf_ssl_30 (hashOf toyPrims) [1] [2] [3] 3 1 = ofR (prfSsl30 toyPrims [1] [2] [3] 3 true) ∧
    (Gen.Py.prf_ssl_30 (hashOf toyPrims) [1] [2] [3] 3 1).toOption.map List.length = some 3 := by decide

end TLX.Props.Translated.KS
