/-
Translated Python functions, group TlsSess2: the record handlers of tlexport/session.py translated WHOLE, as a family over one
state record (`Gen.Py.Sess.St δ`, δ = the `Decryptor` object): `handle_tls_record` and everything it calls —
`handle_tls_handshake_record`, `handle_handshake_finished`, `handle_tls_client_hello`, `handle_tls_server_hello`,
`handle_alert`, `handle_tls_13_application_record`, `handle_decrypted_tls_13_handshake_record`,
`handle_tls_application_record` — and `TlsRecord.__init__`.

Outside the model and therefore parameters of the translated definitions (externals): `Decryptor.decrypt`,
`Decryptor.update_keys`, `Session.generate_keys`. The theorems instantiate them from the model's `Ops` (`decE`, `updE`,
`gkE`); WHICH exception class an external raises is a parameter too (`Kinds`; it only must not be the translator's
out-of-fuel marker).

`Sess.<python name>_eq_model`: the definition regenerated from the tree under test, run on the state `enc s x`, ends the way the
model function ends on `s` (returned / raised) in the state `enc s' x'` — EQUAL to the model's state on every attribute the
model carries. Not compared: the four attributes the model treats as locals of `handle_tls_server_hello` (`server_random`,
`ciphersuite`, `compression_method`, `extensions`: `Extra`), the exception class, and the ghost tag `Entry.isApp`.
`Sess.handle_tls_record_view` is the same statement for `handle_tls_record` as an equation between views.
-/
import TLX.Gen.Translated.TlsSess2
import TLX.Props.Translated.Enc
import TLX.Session
namespace TLX.Props.Translated.Sess
open TLX TLX.PyRt TLX.Session

variable {δ : Type}

/-- the attributes of the translated state the model does not carry -/
structure Extra where
  server_random : Option Bytes
  ciphersuite : Option Bytes
  compression_method : Option Nat
  extensions : Option (List (Bytes × Bytes))

/-- one element of `application_traffic` without the ghost tag -/
def ofEntry (e : Entry) : Option Bytes × Rec × Bool := (e.data, e.record, e.fromServer)

/-- the translated state that stands for the model state `s` -/
def enc (s : St δ) (x : Extra) : Gen.Py.Sess.St δ :=
  { can_decrypt := s.canDecrypt, client_hello_seen := s.chSeen, tls_version := s.ver, server_cipher_change := s.srvCC,
    client_cipher_change := s.cliCC, decryptor := s.dec, client_random := s.cr, server_random := x.server_random,
    ciphersuite := x.ciphersuite, compression_method := x.compression_method, extensions := x.extensions,
    application_traffic := s.traffic.map ofEntry, handshake_13_buffer := (s.hsBufC, s.hsBufS) }

/-- the translated definition ended the way the model function did, in the state that stands for the model's -/
def Matches (g : Res (Gen.Py.Sess.St δ) Unit) (m : Out (St δ)) : Prop :=
  match m with
  | .ok s => ∃ x, g = .ok () (enc s x)
  | .raised s => ∃ x e, e ≠ Err.fuel ∧ g = .raised e (enc s x)

theorem Matches.ok {s : St δ} (x : Extra) : Matches (.ok () (enc s x)) (.ok s) := ⟨x, rfl⟩
theorem Matches.raised {s : St δ} (x : Extra) (e : Err) (h : e ≠ .fuel) : Matches (.raised e (enc s x)) (.raised s) := ⟨x, e, h, rfl⟩

/-- the exception classes of the externals (any, except the out-of-fuel marker) -/
structure Kinds (δ : Type) where
  dec : δ → Rec → Bool → Err
  upd : δ → Bool → Err
  gk : Option Ver → Bytes → Bytes → Bytes → Err
  dec_ne : ∀ d r b, dec d r b ≠ .fuel
  upd_ne : ∀ d b, upd d b ≠ .fuel
  gk_ne : ∀ v a b c, gk v a b c ≠ .fuel

/-- `Decryptor.decrypt` as the model's `Ops.decrypt` describes it -/
def decE (O : Ops δ) (K : Kinds δ) (d : δ) (r : Rec) (srv : Bool) : Res δ (Option Bytes) :=
  match O.decrypt d r srv with
  | (d', none) => .raised (K.dec d r srv) d'
  | (d', some v) => .ok v d'

/-- `Decryptor.update_keys` as the model's `Ops.updateKeys` describes it -/
def updE (O : Ops δ) (K : Kinds δ) (d : δ) (srv : Bool) : Res δ Unit :=
  match O.updateKeys d srv with
  | (d', false) => .raised (K.upd d srv) d'
  | (d', true) => .ok () d'

/-- `Session.generate_keys` as the model's `Ops.genKeys` describes it: its four outcomes write `can_decrypt` / `decryptor` -/
def gkE (O : Ops δ) (K : Kinds δ) (v : Option Ver) (suite cr sr : Bytes) (exts : Option (List (Bytes × Bytes))) (comp : Option Nat)
    (cd : Bool) (dec : Option δ) : Res (Bool × Option δ) Unit :=
  match exts, comp with
  | some t, some c =>
    match O.genKeys v suite cr sr t (UInt8.ofNat c) with
    | .noSuite => .ok () (false, dec)
    | .noSecrets => .ok () (false, dec)
    | .raised => .raised (K.gk v suite cr sr) (cd, dec)
    | .installed d => .ok () (cd, some d)
  | _, _ => .raised .attr (cd, dec)

/-- `generate_keys` reads `self.extensions` as a dict: what it does depends only on what `.get` finds -/
def ReadsExtsAsDict (O : Ops δ) : Prop :=
  ∀ v suite cr sr c (e e' : Exts), (∀ k, extGet e k = extGet e' k) → O.genKeys v suite cr sr e c = O.genKeys v suite cr sr e' c

-- ------------------------------------------------------------------ reading and writing the encoded state
@[simp] theorem enc_can_decrypt (s : St δ) (x : Extra) : (enc s x).can_decrypt = s.canDecrypt := rfl
@[simp] theorem enc_chseen (s : St δ) (x : Extra) : (enc s x).client_hello_seen = s.chSeen := rfl
@[simp] theorem enc_ver (s : St δ) (x : Extra) : (enc s x).tls_version = s.ver := rfl
@[simp] theorem enc_srvcc (s : St δ) (x : Extra) : (enc s x).server_cipher_change = s.srvCC := rfl
@[simp] theorem enc_clicc (s : St δ) (x : Extra) : (enc s x).client_cipher_change = s.cliCC := rfl
@[simp] theorem enc_dec (s : St δ) (x : Extra) : (enc s x).decryptor = s.dec := rfl
@[simp] theorem enc_cr (s : St δ) (x : Extra) : (enc s x).client_random = s.cr := rfl
@[simp] theorem enc_sr (s : St δ) (x : Extra) : (enc s x).server_random = x.server_random := rfl
@[simp] theorem enc_suite (s : St δ) (x : Extra) : (enc s x).ciphersuite = x.ciphersuite := rfl
@[simp] theorem enc_comp (s : St δ) (x : Extra) : (enc s x).compression_method = x.compression_method := rfl
@[simp] theorem enc_exts (s : St δ) (x : Extra) : (enc s x).extensions = x.extensions := rfl
@[simp] theorem enc_traffic (s : St δ) (x : Extra) : (enc s x).application_traffic = s.traffic.map ofEntry := rfl
@[simp] theorem enc_hsbuf (s : St δ) (x : Extra) : (enc s x).handshake_13_buffer = (s.hsBufC, s.hsBufS) := rfl

@[simp] theorem enc_set_dec (s : St δ) (x : Extra) (d : Option δ) :
    { enc s x with decryptor := d } = enc { s with dec := d } x := rfl
@[simp] theorem enc_set_cd (s : St δ) (x : Extra) (b : Bool) :
    { enc s x with can_decrypt := b } = enc { s with canDecrypt := b } x := rfl
@[simp] theorem enc_set_ver (s : St δ) (x : Extra) (v : Option Ver) :
    { enc s x with tls_version := v } = enc { s with ver := v } x := rfl
@[simp] theorem enc_set_srvcc (s : St δ) (x : Extra) (b : Bool) :
    { enc s x with server_cipher_change := b } = enc { s with srvCC := b } x := rfl
@[simp] theorem enc_set_clicc (s : St δ) (x : Extra) (b : Bool) :
    { enc s x with client_cipher_change := b } = enc { s with cliCC := b } x := rfl
@[simp] theorem enc_set_sr (s : St δ) (x : Extra) (v : Option Bytes) :
    { enc s x with server_random := v } = enc s { x with server_random := v } := rfl
@[simp] theorem enc_set_suite (s : St δ) (x : Extra) (v : Option Bytes) :
    { enc s x with ciphersuite := v } = enc s { x with ciphersuite := v } := rfl
@[simp] theorem enc_set_comp (s : St δ) (x : Extra) (v : Option Nat) :
    { enc s x with compression_method := v } = enc s { x with compression_method := v } := rfl
@[simp] theorem enc_set_exts (s : St δ) (x : Extra) (v : Option (List (Bytes × Bytes))) :
    { enc s x with extensions := v } = enc s { x with extensions := v } := rfl
/-- appending to `application_traffic` is the model's `push` (whatever the ghost tag) -/
theorem enc_push (s : St δ) (x : Extra) (e : Entry) :
    { enc s x with application_traffic := List.map ofEntry s.traffic ++ [(e.data, e.record, e.fromServer)] } = enc (s.push e) x := by
  simp [enc, St.push, ofEntry]
theorem enc_set_hsbuf (s : St δ) (x : Extra) (a b : Bytes) :
    { enc s x with handshake_13_buffer := (a, b) } = enc { s with hsBufC := a, hsBufS := b } x := rfl

-- ------------------------------------------------------------------ handle_alert, handle_tls_client_hello
theorem handle_alert_eq_model (s : St δ) (x : Extra) (level : UInt8) (m : Bool) :
    Gen.Py.Sess.handle_alert level.toNat m (enc s x) = .ok () (enc (alert s level) x) := by
  unfold Gen.Py.Sess.handle_alert alert
  have h1 : (level.toNat = 1) = (level = 1) := by
    rw [← UInt8.toNat_inj]; rfl
  by_cases h : level = 1 <;> by_cases h2 : s.ver = some .tls13 <;> simp [h1, h, h2, enc]

theorem handle_tls_client_hello_eq_model (s : St δ) (x : Extra) (r : Rec) (m : Bool) :
    Gen.Py.Sess.handle_tls_client_hello r m (enc s x) = .ok () (enc (clientHello s r) x) := rfl

-- ------------------------------------------------------------------ handle_handshake_finished
theorem dne {e : Err} (h : e ≠ .fuel) : decide (e ≠ Err.fuel) = true := by simp [h]

theorem decE_none (O : Ops δ) (K : Kinds δ) (d d' : δ) (r : Rec) (srv : Bool) (h : O.decrypt d r srv = (d', none)) :
    decE O K d r srv = .raised (K.dec d r srv) d' := by simp [decE, h]
theorem decE_some (O : Ops δ) (K : Kinds δ) (d d' : δ) (r : Rec) (srv : Bool) (v : Option Bytes) (h : O.decrypt d r srv = (d', some v)) :
    decE O K d r srv = .ok v d' := by simp [decE, h]

theorem handle_handshake_finished_eq_model (O : Ops δ) (K : Kinds δ) (s : St δ) (x : Extra) (r : Rec) (srv m : Bool) :
    Matches (Gen.Py.Sess.handle_handshake_finished (decE O K) r srv m (enc s x)) (handshakeFinished O m s r srv) := by
  obtain ⟨cd, chs, ver, scc, ccc, dec, cr, tr, hc, hs⟩ := s
  unfold Gen.Py.Sess.handle_handshake_finished handshakeFinished
  cases dec with
  | none => exact ⟨x, rfl⟩
  | some d =>
    cases h : O.decrypt d r srv with
    | mk d' o =>
      have h1 := decE_none O K d d' r srv
      have h2 := decE_some O K d d' r srv
      cases o with
      | none =>
        have h1 := h1 h
        cases srv <;> cases scc <;> cases ccc <;> cases cd <;> cases m <;>
          first
          | exact ⟨x, rfl⟩
          | exact ⟨x, _, by decide, rfl⟩
          | (simp only [enc, attrE_some, tryE_ok, h1, h, tryR_raised]; exact ⟨x, _, K.dec_ne _ _ _, rfl⟩)
      | some pt =>
        have h2 := h2 pt h
        by_cases hp : pt = some []
        all_goals
          cases srv <;> cases scc <;> cases ccc <;> cases cd <;> cases m <;>
            first
            | exact ⟨x, rfl⟩
            | exact ⟨x, _, by decide, rfl⟩
            | (simp only [enc, attrE_some, tryE_ok, h2, h, tryR_ok]; exact ⟨x, by simp [enc, St.push, ofEntry, hp]⟩)
            | (simp [Matches, h2, h, hp]; exact ⟨x, by simp [enc, St.push, ofEntry]⟩)

-- ------------------------------------------------------------------ handle_tls_application_record
theorem handle_tls_application_record_eq_model (O : Ops δ) (K : Kinds δ) (s : St δ) (x : Extra) (r : Rec) (srv m : Bool) :
    Matches (Gen.Py.Sess.handle_tls_application_record (decE O K) r srv m (enc s x)) (appLegacy O s r srv) := by
  obtain ⟨cd, chs, ver, scc, ccc, dec, cr, tr, hc, hs⟩ := s
  unfold Gen.Py.Sess.handle_tls_application_record appLegacy
  cases dec with
  | none => exact ⟨x, rfl⟩
  | some d =>
    cases h : O.decrypt d r srv with
    | mk d' o =>
      cases o with
      | none =>
        have h1 := decE_none O K d d' r srv h
        simp only [enc, attrE_some, tryE_ok, h1, h, tryR_raised, dne (K.dec_ne d r srv), if_true]
        exact ⟨x, rfl⟩
      | some pt =>
        have h2 := decE_some O K d d' r srv pt h
        simp only [enc, attrE_some, tryE_ok, h2, h, tryR_ok]
        exact ⟨x, by simp [enc, St.push, ofEntry]⟩

-- ------------------------------------------------------------------ handle_decrypted_tls_13_handshake_record
abbrev G (δ : Type) := Gen.Py.Sess.St δ

/-- `self.handshake_13_buffer[isserver] = b` -/
def setBuf (srv : Bool) (g : G δ) (b : Bytes) : G δ :=
  { g with handshake_13_buffer := if srv then (g.handshake_13_buffer.1, b) else (b, g.handshake_13_buffer.2) }

/-- one round of the `while len(buffer) >= 4` loop as the translation spells it -/
def hsBody (upd : δ → Bool → Res δ Unit) (srv : Bool) (buffer : Bytes) (g : G δ) :
    Except Err (Step (Bytes × G δ) (Res (G δ) Unit)) :=
  tryE (getItem buffer 0) (fun e => .ok (.ret (.raised e g))) fun ht =>
    if decide (buffer.length < Bytes.beNat (Bytes.slice buffer 1 4) + 4) then .ok (.brk (buffer, g))
    else
      if decide (ht = 20) then
        tryE (attrE (setBuf srv g (buffer.drop (Bytes.beNat (Bytes.slice buffer 1 4) + 4))).decryptor)
          (fun e => .ok (.ret (.raised e (setBuf srv g (buffer.drop (Bytes.beNat (Bytes.slice buffer 1 4) + 4)))))) fun d =>
          tryR (upd d srv)
            (fun e d' => .ok (.ret (.raised e { setBuf srv g (buffer.drop (Bytes.beNat (Bytes.slice buffer 1 4) + 4)) with decryptor := some d' })))
            (fun _ d' => .ok (.next (buffer.drop (Bytes.beNat (Bytes.slice buffer 1 4) + 4),
                                     { setBuf srv g (buffer.drop (Bytes.beNat (Bytes.slice buffer 1 4) + 4)) with decryptor := some d' })))
      else .ok (.next (buffer.drop (Bytes.beNat (Bytes.slice buffer 1 4) + 4), setBuf srv g (buffer.drop (Bytes.beNat (Bytes.slice buffer 1 4) + 4))))

/-- how `hs13Loop` ended, as the session state -/
def hsOut (s : St δ) (srv : Bool) (r : δ × Bytes × Bool) : Out (St δ) :=
  if r.2.2 then .ok ({ s with dec := some r.1 }.setHsBuf srv r.2.1) else .raised ({ s with dec := some r.1 }.setHsBuf srv r.2.1)

theorem setBuf_enc (srv : Bool) (s : St δ) (x : Extra) (b : Bytes) : setBuf srv (enc s x) b = enc (s.setHsBuf srv b) x := by
  cases srv <;> rfl

theorem setHsBuf_twice (srv : Bool) (s : St δ) (d : Option δ) (a b : Bytes) :
    ({ (s.setHsBuf srv a) with dec := d }).setHsBuf srv b = ({ s with dec := d }).setHsBuf srv b := by
  cases srv <;> rfl

theorem with_dec_self (s : St δ) (d : δ) (h : s.dec = some d) : { s with dec := some d } = s := by
  cases s; simp only at h; subst h; rfl

@[simp] theorem setHsBuf_dec (srv : Bool) (s : St δ) (b : Bytes) : (s.setHsBuf srv b).dec = s.dec := by
  cases srv <;> rfl

theorem updE_true (O : Ops δ) (K : Kinds δ) (d d' : δ) (srv : Bool) (h : O.updateKeys d srv = (d', true)) :
    updE O K d srv = .ok () d' := by simp [updE, h]
theorem updE_false (O : Ops δ) (K : Kinds δ) (d d' : δ) (srv : Bool) (h : O.updateKeys d srv = (d', false)) :
    updE O K d srv = .raised (K.upd d srv) d' := by simp [updE, h]

theorem hs13_loop (O : Ops δ) (K : Kinds δ) (srv : Bool) (x : Extra) (g0 : G δ) :
    ∀ (n : Nat) (buf : Bytes) (s : St δ) (d : δ), s.dec = some d → buf.length ≤ n →
      Matches (loopS (whileS n (buf, enc s x) (fun p => decide (p.1.length ≥ 4)) (fun p => hsBody (updE O K) srv p.1 p.2))
                (fun e => .raised e g0) (fun r => r) (fun p => .ok () (setBuf srv p.2 p.1)))
              (hsOut s srv (hs13Loop O srv n buf d)) := by
  intro n
  induction n with
  | zero =>
    intro buf s d hd hn
    have : buf = [] := List.eq_nil_of_length_eq_zero (by omega)
    subst this
    simp only [whileS, hs13Loop, hsOut, List.length_nil, ge_iff_le, show decide (4 ≤ 0) = false from by decide, Bool.false_eq_true,
      if_false, loopS_next, setBuf_enc, if_true, with_dec_self s d hd]
    exact ⟨x, rfl⟩
  | succ n ih =>
    intro buf s d hd hn
    by_cases h4 : buf.length < 4
    · have hc4 : decide (buf.length ≥ 4) = false := by simp; omega
      simp only [whileS, hs13Loop, hsOut, hc4, h4, Bool.false_eq_true, if_false, loopS_next, setBuf_enc, if_true, with_dec_self s d hd]
      exact ⟨x, rfl⟩
    · have hc4 : decide (buf.length ≥ 4) = true := by simp; omega
      cases buf with
      | nil => simp at h4
      | cons t rest0 =>
        simp only [whileS, hs13Loop, hc4, h4, if_true, if_false, List.head?_cons, hsBody, getItem_cons_zero, tryE_ok]
        by_cases hL : (t :: rest0).length < Bytes.beNat (Bytes.slice (t :: rest0) 1 4) + 4
        · simp only [hL, decide_true, if_true, loopS_next, setBuf_enc, hsOut, with_dec_self s d hd]
          exact ⟨x, rfl⟩
        · simp only [hL, decide_false, Bool.false_eq_true, if_false]
          have ht : (t.toNat = 20) = (t = 20) := by
            rw [← UInt8.toNat_inj]; rfl
          simp only [ht]
          have hlen : ((t :: rest0).drop (Bytes.beNat (Bytes.slice (t :: rest0) 1 4) + 4)).length ≤ n := by
            simp only [List.length_drop]; simp only [List.length_cons] at hn ⊢; omega
          by_cases h20 : t = 20
          · simp only [h20, decide_true, if_true, setBuf_enc, enc_dec, setHsBuf_dec, hd, attrE_some, tryE_ok]
            cases hu : O.updateKeys d srv with
            | mk d' b =>
              cases b with
              | true =>
                simp only [updE_true O K d d' srv hu, tryR_ok, enc_set_dec]
                have := ih _ ({ (s.setHsBuf srv ((20 :: rest0).drop (Bytes.beNat (Bytes.slice (20 :: rest0) 1 4) + 4))) with dec := some d' }) d'
                           rfl (by rw [h20] at hlen; exact hlen)
                simp only [hsOut, setHsBuf_twice] at this ⊢
                exact this
              | false =>
                simp only [updE_false O K d d' srv hu, tryR_raised, loopS_ret, enc_set_dec, hsOut, Bool.false_eq_true, if_false]
                exact ⟨x, K.upd d srv, K.upd_ne d srv, by cases srv <;> rfl⟩
          · simp only [h20, decide_false, Bool.false_eq_true, if_false, setBuf_enc]
            have := ih _ (s.setHsBuf srv ((t :: rest0).drop (Bytes.beNat (Bytes.slice (t :: rest0) 1 4) + 4))) d
                           (by rw [setHsBuf_dec]; exact hd) hlen
            simp only [hsOut, setHsBuf_twice] at this ⊢
            exact this

/-- `handle_decrypted_tls_13_handshake_record` on a session that has a decryptor (the only caller, `handle_tls_13_application_record`,
    has just used it) is the model's `hs13Loop` over the direction's buffer + the new bytes, and what `app13` does with its result -/
theorem handle_decrypted_tls_13_handshake_record_eq_model (O : Ops δ) (K : Kinds δ) (s : St δ) (x : Extra) (d : δ)
    (hd : s.dec = some d) (pt : Bytes) (srv m : Bool) :
    Matches (Gen.Py.Sess.handle_decrypted_tls_13_handshake_record (updE O K) pt srv m (enc s x))
      (hsOut s srv (hs13Loop O srv (s.hsBuf srv ++ pt).length (s.hsBuf srv ++ pt) d)) := by
  unfold Gen.Py.Sess.handle_decrypted_tls_13_handshake_record
  cases srv <;> exact hs13_loop O K _ x _ _ _ s d hd (Nat.le_refl _)

-- ------------------------------------------------------------------ handle_tls_13_application_record
/-- a `Matches` result under `try: … except Exception: pass` with nothing after it -/
theorem matches_caught (g : Res (G δ) Unit) (mo : Out (St δ)) (h : Matches g mo) :
    Matches (tryR g (fun e st' => if decide (e ≠ Err.fuel) then Res.ok () st' else Res.raised e st') (fun _ st' => Res.ok () st'))
      (tryExcept mo id) := by
  cases mo with
  | ok s1 =>
    obtain ⟨x1, rfl⟩ := h
    exact ⟨x1, rfl⟩
  | raised s1 =>
    obtain ⟨x1, e, he, rfl⟩ := h
    simp only [tryR_raised, dne he, if_true]
    exact ⟨x1, rfl⟩

theorem hs_match (r : δ × Bytes × Bool) (A B : δ → Bytes → Out (St δ)) :
    (match r with | (d2, b, true) => A d2 b | (d2, b, false) => B d2 b) = if r.2.2 then A r.1 r.2.1 else B r.1 r.2.1 := by
  rcases r with ⟨d2, b, ok⟩
  cases ok <;> rfl

theorem rstrip_zero' (b : Bytes) : rstrip b [0] = rstrip0 b := rstrip_zero b

theorem last_concat (l : Bytes) (a : UInt8) : (l ++ [a]).drop ((l ++ [a]).length - 1) = [a] := by
  simp

theorem handle_tls_13_application_record_eq_model (O : Ops δ) (K : Kinds δ) (s : St δ) (x : Extra) (r : Rec) (srv m : Bool) :
    Matches (Gen.Py.Sess.handle_tls_13_application_record (decE O K) (updE O K) r srv m (enc s x)) (tryExcept (app13 O s r srv) id) := by
  unfold Gen.Py.Sess.handle_tls_13_application_record app13
  simp only [enc_dec]
  cases hd : s.dec with
  | none => exact ⟨x, rfl⟩
  | some d =>
    simp only [attrE_some, tryE_ok]
    cases h : O.decrypt d r srv with
    | mk d1 o =>
      rcases o with _ | _ | pt
      · simp only [decE_none O K d d1 r srv h, tryR_raised, dne (K.dec_ne d r srv), if_true, enc_set_dec]
        exact ⟨x, rfl⟩
      · simp only [decE_some O K d d1 r srv _ h, tryR_ok, attrE_none, tryE_error, enc_set_dec]
        exact ⟨x, rfl⟩
      · simp only [decE_some O K d d1 r srv _ h, tryR_ok, attrE_some, tryE_ok, enc_set_dec, rstrip_zero', pySlice_last, pySlice_init]
        generalize rstrip0 pt = p
        rcases List.eq_nil_or_concat p with rfl | ⟨l, a, rfl⟩
        · exact ⟨x, rfl⟩
        · simp only [List.concat_eq_append, last_concat, List.dropLast_concat, List.getLast?_append, List.getLast?_singleton, Option.some_or,
            List.cons.injEq, and_true, Bool.false_eq_true, if_false]
          by_cases h16 : a = 22
          · simp only [h16, decide_true, if_true]
            have := handle_decrypted_tls_13_handshake_record_eq_model O K { s with dec := some d1 } x d1 rfl l srv m
            have e : ({ s with dec := some d1 } : St δ).hsBuf srv = s.hsBuf srv := by cases srv <;> rfl
            simp only [e] at this
            generalize hs13Loop O srv _ _ d1 = res at this ⊢
            rcases res with ⟨d2, b, ok⟩
            cases ok <;> exact matches_caught _ _ this
          · have h16' : (a = 22) = False := eq_false h16
            simp only [h16', decide_false, Bool.false_eq_true, if_false]
            by_cases h17 : a = 23
            · simp only [h17, decide_true, if_true]
              exact ⟨x, by simp [enc, St.push, ofEntry]⟩
            · have h17' : (a = 23) = False := eq_false h17
              simp only [h17', decide_false, Bool.false_eq_true, if_false]
              exact ⟨x, rfl⟩

-- ------------------------------------------------------------------ handle_tls_server_hello
theorem extGet_snoc (acc : Exts) (k k' v : Bytes) : extGet (acc ++ [(k, v)]) k' = if k' = k then some v else extGet acc k' := by
  unfold extGet
  simp only [List.reverse_append, List.reverse_cons, List.reverse_nil, List.nil_append, List.singleton_append, List.find?_cons]
  by_cases hk : k' = k
  · subst hk; simp
  · have : ¬ k = k' := fun h => hk h.symm
    simp [hk, this]

/-- one round of the `while extensions_index < extensions_length` loop as the translation spells it -/
def extBody (ebin : Bytes) (p : G δ × Nat) : Except Err (Step (G δ × Nat) (Res (G δ) Unit)) :=
  tryE (attrE p.1.extensions) (fun e => .ok (.ret (.raised e p.1))) fun t =>
    .ok (.next ({ p.1 with extensions := some (tableSet t (Bytes.slice ebin p.2 (p.2 + 2))
                    (Bytes.slice ebin (p.2 + 4) (p.2 + 4 + Bytes.beNat (Bytes.slice ebin (p.2 + 2) (p.2 + 4))))) },
                 p.2 + (Bytes.beNat (Bytes.slice ebin (p.2 + 2) (p.2 + 4)) + 4)))

theorem ext_loop (ebin : Bytes) (elen : Nat) (s : St δ) (a b : Option Bytes) (c : Option Nat) :
    ∀ (fuel i : Nat) (t : List (Bytes × Bytes)) (acc : Exts), (∀ k, tableGet t k = extGet acc k) → elen ≤ i + fuel →
      ∃ t' i', whileS fuel (enc s ⟨a, b, c, some t⟩, i) (fun p => decide (p.2 < elen)) (extBody ebin)
                 = (.ok (.next (enc s ⟨a, b, c, some t'⟩, i')) : Except Err (Step (G δ × Nat) (Res (G δ) Unit)))
               ∧ ∀ k, tableGet t' k = extGet (extLoop ebin elen fuel i acc) k := by
  intro fuel
  induction fuel with
  | zero =>
    intro i t acc ht hf
    have : decide (i < elen) = false := by simp; omega
    exact ⟨t, i, by simp only [whileS, this, Bool.false_eq_true, if_false], by simpa only [extLoop] using ht⟩
  | succ n ih =>
    intro i t acc ht hf
    by_cases hi : i < elen
    · simp only [whileS, extLoop, hi, decide_true, if_true, extBody, enc_exts, attrE_some, tryE_ok, enc_set_exts]
      apply ih
      · intro k
        rw [tableGet_tableSet, extGet_snoc, ht]
      · omega
    · have : decide (i < elen) = false := by simp; omega
      exact ⟨t, i, by simp only [whileS, this, Bool.false_eq_true, if_false], by simpa only [extLoop, hi, if_false] using ht⟩

theorem latch_enc (s : St δ) (x : Extra) :
    (if (enc s x).client_hello_seen = true then { enc s x with can_decrypt := true } else enc s x) = enc (latch s) x := by
  obtain ⟨cd, chs, ver, scc, ccc, dec, cr, tr, hc, hs⟩ := s
  cases chs <;> rfl

theorem enc_set_sr_suite (s : St δ) (x : Extra) (a b : Option Bytes) :
    { enc s x with server_random := a, ciphersuite := b } = enc s { x with server_random := a, ciphersuite := b } := rfl
theorem enc_set_sr_suite_comp (s : St δ) (x : Extra) (a b : Option Bytes) (c : Option Nat) :
    { enc s x with server_random := a, ciphersuite := b, compression_method := c } = enc s { x with server_random := a, ciphersuite := b, compression_method := c } := rfl
theorem enc_set_all (s : St δ) (x : Extra) (a b : Option Bytes) (c : Option Nat) (e : Option (List (Bytes × Bytes))) :
    { enc s x with server_random := a, ciphersuite := b, compression_method := c, extensions := e } = enc s ⟨a, b, c, e⟩ := rfl

theorem choose_enc (s1 : St δ) (x1 : Extra) (rv hv : Nat) (is13 : Bool) :
    (if decide (rv = 768) = true then { enc s1 x1 with tls_version := some Ver.ssl30 }
     else if decide (rv = 770) = true then { enc s1 x1 with tls_version := some Ver.tls11 }
     else if decide (hv = 769) = true then { enc s1 x1 with tls_version := some Ver.tls10 }
     else if decide (hv = 771) = true then
       (if is13 = true then { enc s1 x1 with tls_version := some Ver.tls13 } else { enc s1 x1 with tls_version := some Ver.tls12 })
     else { enc s1 x1 with can_decrypt := false }) = enc (chooseVersion s1 rv hv is13) x1 := by
  unfold chooseVersion
  simp only [decide_eq_true_eq]
  repeat' split
  all_goals rfl

theorem handle_tls_server_hello_eq_model (O : Ops δ) (hO : ReadsExtsAsDict O) (K : Kinds δ) (s : St δ) (x : Extra) (r : Rec) (m : Bool) :
    Matches (Gen.Py.Sess.handle_tls_server_hello (gkE O K) r m (enc s x)) (serverHello O s r) := by
  unfold Gen.Py.Sess.handle_tls_server_hello serverHello
  simp only [latch_enc, enc_set_sr, getItem_nat]
  cases h38 : r.body[38]? with
  | none => exact ⟨_, _, by decide, rfl⟩
  | some sid =>
    have e1 : 38 + (sid.toNat + 1) = 38 + sid.toNat + 1 := by omega
    simp only [tryE_ok, enc_set_all, e1]
    cases hc : r.body[38 + sid.toNat + 1 + 2]? with
    | none => exact ⟨_, _, by decide, rfl⟩
    | some comp =>
      simp only [tryE_ok]
      obtain ⟨t', i', hw, hget⟩ := ext_loop (δ := δ) (r.body.slice (38 + sid.toNat + 1 + 5) (38 + sid.toNat + 1 + 5 + (r.body.slice (38 + sid.toNat + 1 + 3) (38 + sid.toNat + 1 + 5)).beNat))
        (r.body.slice (38 + sid.toNat + 1 + 3) (38 + sid.toNat + 1 + 5)).beNat (latch s) (some (r.body.slice 6 38))
        (some (r.body.slice (38 + sid.toNat + 1) (38 + sid.toNat + 1 + 2))) (some comp.toNat)
        (r.body.slice (38 + sid.toNat + 1 + 3) (38 + sid.toNat + 1 + 5)).beNat 0 [] [] (fun k => rfl) (by omega)
      erw [hw]
      simp only [loopS_next, choose_enc]
      simp only [enc_exts, attrE_some, tryE_ok, enc_suite, enc_cr, enc_sr, enc_comp]
      have his : (if decide (tableGet t' [0, 43] = some [3, 4]) = true then true else false)
          = decide (extGet (parseExts (r.body.slice (38 + sid.toNat + 1 + 5) (38 + sid.toNat + 1 + 5 + (r.body.slice (38 + sid.toNat + 1 + 3) (38 + sid.toNat + 1 + 5)).beNat))
                      (r.body.slice (38 + sid.toNat + 1 + 3) (38 + sid.toNat + 1 + 5)).beNat) [0, 0x2b] = some [3, 4]) := by
        have ite_id : ∀ b : Bool, (if b = true then true else false) = b := by intro b; cases b <;> rfl
        rw [ite_id, hget]; rfl
      simp only [his]
      generalize chooseVersion (latch s) _ _ _ = s2
      unfold serverHelloKeys
      obtain ⟨cd2, chs2, ver2, scc2, ccc2, dec2, cr2, tr2, hc2, hs2⟩ := s2
      cases cr2 with
      | none => exact ⟨_, _, by decide, rfl⟩
      | some cr =>
        simp only [attrE_some, tryE_ok, gkE, enc_ver, enc_can_decrypt, enc_dec, UInt8.ofNat_toNat]
        rw [hO ver2 _ cr _ comp t' (parseExts _ _) (fun k => hget k)]
        cases O.genKeys ver2 _ cr _ (parseExts _ _) comp with
        | noSuite => exact ⟨⟨_, _, _, _⟩, rfl⟩
        | noSecrets => exact ⟨⟨_, _, _, _⟩, rfl⟩
        | raised =>
          exact ⟨⟨_, _, _, _⟩, _, K.gk_ne _ _ _ _, rfl⟩
        | installed d => exact ⟨⟨_, _, _, _⟩, rfl⟩

/-- a `Matches` result under `try: … except Exception: self.can_decrypt = False` with nothing after it -/
theorem matches_caught_cd (g : Res (G δ) Unit) (mo : Out (St δ)) (h : Matches g mo) :
    Matches (tryR g (fun e st' => if decide (e ≠ Err.fuel) then Res.ok () { st' with can_decrypt := false } else Res.raised e st')
               (fun _ st' => Res.ok () st'))
      (tryExcept mo fun s' => { s' with canDecrypt := false }) := by
  cases mo with
  | ok s1 =>
    obtain ⟨x1, rfl⟩ := h
    exact ⟨x1, rfl⟩
  | raised s1 =>
    obtain ⟨x1, e, he, rfl⟩ := h
    simp only [tryR_raised, dne he, if_true]
    exact ⟨x1, rfl⟩

theorem u8_eq (t : UInt8) (n : Nat) (h : n < 256) : (t.toNat = n) = (t = UInt8.ofNat n) := by
  rw [← UInt8.toNat_inj, UInt8.toNat_ofNat']
  rw [Nat.mod_eq_of_lt h]

-- ------------------------------------------------------------------ handle_tls_handshake_record, handle_tls_record
theorem handle_tls_handshake_record_eq_model (O : Ops δ) (hO : ReadsExtsAsDict O) (K : Kinds δ) (s : St δ) (x : Extra) (r : Rec) (srv m : Bool) :
    Matches (Gen.Py.Sess.handle_tls_handshake_record (decE O K) (gkE O K) r srv m (enc s x)) (handshakeRecord O m s r srv) := by
  unfold Gen.Py.Sess.handle_tls_handshake_record handshakeRecord
  simp only [enc_srvcc, enc_clicc]
  by_cases hcc : (s.srvCC || s.cliCC) = true
  · simp only [hcc, if_true]
    exact matches_caught _ _ (handle_handshake_finished_eq_model O K s x r srv m)
  · simp only [hcc]
    cases hb : r.body with
    | nil => exact ⟨x, rfl⟩
    | cons t tail =>
      have h1 : (t.toNat = 1) = (t = 1) := u8_eq t 1 (by decide)
      have h2 : (t.toNat = 2) = (t = 2) := u8_eq t 2 (by decide)
      simp only [List.length_cons, Nat.add_one_ne_zero, decide_false, Bool.false_eq_true, if_false, getItem_cons_zero, tryE_ok, h1, h2]
      by_cases t1 : t = 1
      · simp only [t1, decide_true, if_true, handle_tls_client_hello_eq_model, tryR_ok]
        exact ⟨x, rfl⟩
      · simp only [t1, decide_false, Bool.false_eq_true, if_false]
        by_cases t2 : t = 2
        · simp only [t2, decide_true, if_true]
          exact matches_caught_cd _ _ (handle_tls_server_hello_eq_model O hO K s x r m)
        · simp only [t2, decide_false, Bool.false_eq_true, if_false]
          exact matches_caught _ _ (handle_handshake_finished_eq_model O K s x r srv m)

theorem pushMeta_enc (m : Bool) (s1 : St δ) (x : Extra) (r : Rec) (srv : Bool) :
    (if m = true then { enc s1 x with application_traffic := (enc s1 x).application_traffic ++ [(some r.raw, r, srv)] } else enc s1 x)
      = enc (pushMeta m s1 r srv) x := by
  cases m <;> simp [enc, pushMeta, St.push, ofEntry]

theorem tryR_id {σ : Type} (g : Res σ Unit) : tryR g (fun e s => Res.raised e s) (fun _ s => Res.ok () s) = g := by
  cases g <;> rfl

/-- a `Matches` result followed by the meta-data export of `handle_tls_record` -/
theorem matches_then_meta (g : Res (G δ) Unit) (mo : Out (St δ)) (m : Bool) (r : Rec) (srv : Bool) :
    Matches g mo → Matches (tryR g (fun e st' => Res.raised e st')
               (fun _ st' => Res.ok () (if m = true then { st' with application_traffic := st'.application_traffic ++ [(some r.raw, r, srv)] } else st')))
      (match mo with | .ok s1 => .ok (pushMeta m s1 r srv) | .raised s1 => .raised s1) := by
  intro h
  cases mo with
  | ok s1 =>
    obtain ⟨x1, rfl⟩ := h
    simp only [tryR_ok, pushMeta_enc]
    exact ⟨x1, rfl⟩
  | raised s1 =>
    obtain ⟨x1, e, he, rfl⟩ := h
    exact ⟨x1, e, he, rfl⟩

theorem handle_tls_record_eq_model (O : Ops δ) (hO : ReadsExtsAsDict O) (K : Kinds δ) (s : St δ) (x : Extra) (r : Rec) (srv m : Bool) :
    Matches (Gen.Py.Sess.handle_tls_record (decE O K) (updE O K) (gkE O K) r srv m (enc s x)) (handleRecordRaw O m s r srv) := by
  unfold Gen.Py.Sess.handle_tls_record handleRecordRaw Gen.Py.Sess.recType Rec.typ
  rcases hraw : r.raw with _ | ⟨t, rest⟩
  · have h0 : r.raw.headD 0 = 0 := by rw [hraw]; rfl
    have h1 : r.raw.head? = none := by rw [hraw]; rfl
    exact ⟨x, rfl⟩
  · have h0 : r.raw.headD 0 = t := by rw [hraw]; rfl
    have h1 : r.raw.head? = some t := by rw [hraw]; rfl
    rw [← hraw]
    have e (n : UInt8) : (t.toNat = n.toNat) = (t = n) := by rw [← UInt8.toNat_inj]
    have e22 := e 22
    have e23 := e 23
    have e21 := e 21
    have e20 := e 20
    simp only [UInt8.reduceToNat] at e22 e23 e21 e20
    simp only [h0, h1, e22, e23, e21, e20]
    by_cases t22 : t = 22
    · have d22 : decide (t = 22) = true := by simp [t22]
      simp only [d22, if_true]
      rw [if_pos t22]
      exact matches_then_meta _ _ m r srv (handle_tls_handshake_record_eq_model O hO K s x r srv m)
    · have d22 : decide (t = 22) = false := by simp [t22]
      simp only [d22, Bool.false_eq_true, if_false]
      rw [if_neg t22]
      by_cases t23 : t = 23
      · have d23 : decide (t = 23) = true := by simp [t23]
        simp only [d23, if_true, enc_can_decrypt, enc_dec, enc_ver, tryR_id]
        rw [if_pos t23]
        obtain ⟨cd, chs, ver, scc, ccc, dec, cr, tr, hc, hs⟩ := s
        simp only
        cases dec with
        | none => cases cd <;> exact ⟨x, rfl⟩
        | some d =>
          cases cd with
          | false => exact ⟨x, rfl⟩
          | true =>
            cases ver with
            | none => exact ⟨x, rfl⟩
            | some v =>
              cases v
              all_goals simp only [Option.isNone_some, Bool.not_false, Bool.and_true, if_true, Option.some.injEq, reduceCtorEq, decide_false,
                decide_true, Bool.false_eq_true, if_false, Bool.or_false, Bool.or_true]
              case tls13 => exact handle_tls_13_application_record_eq_model O K _ x r srv m
              all_goals exact handle_tls_application_record_eq_model O K _ x r srv m
      · have d23 : decide (t = 23) = false := by simp [t23]
        simp only [d23, Bool.false_eq_true, if_false]
        rw [if_neg t23]
        by_cases t21 : t = 21
        · have d21 : decide (t = 21) = true := by simp [t21]
          simp only [d21, if_true]
          rw [if_pos t21]
          cases hb : r.body with
          | nil =>
            simp only [List.length_nil, gt_iff_lt, Nat.lt_irrefl, decide_false, Bool.false_eq_true, if_false, pushMeta_enc]
            exact ⟨x, rfl⟩
          | cons lvl tail =>
            simp only [List.length_cons, gt_iff_lt, Nat.zero_lt_succ, decide_true, if_true, getItem_cons_zero, tryE_ok,
              handle_alert_eq_model, tryR_ok, pushMeta_enc]
            exact ⟨x, rfl⟩
        · have d21 : decide (t = 21) = false := by simp [t21]
          simp only [d21, Bool.false_eq_true, if_false]
          rw [if_neg t21]
          by_cases t20 : t = 20
          · have d20 : decide (t = 20) = true := by simp [t20]
            simp only [d20, if_true]
            rw [if_pos t20]
            cases srv <;> cases m <;> exact ⟨x, by simp [enc, pushMeta, St.push, ofEntry]⟩
          · have d20 : decide (t = 20) = false := by simp [t20]
            simp only [d20, Bool.false_eq_true, if_false]
            rw [if_neg t20]
            exact ⟨x, rfl⟩

/-- the attributes the model carries, as the translated state shows them -/
def view (g : G δ) : Bool × Bool × Option Ver × Bool × Bool × Option δ × Option Bytes × List (Option Bytes × Rec × Bool) × Bytes × Bytes :=
  (g.can_decrypt, g.client_hello_seen, g.tls_version, g.server_cipher_change, g.client_cipher_change, g.decryptor, g.client_random,
   g.application_traffic, g.handshake_13_buffer.1, g.handshake_13_buffer.2)

/-- … and as the model state shows them -/
def viewM (s : St δ) : Bool × Bool × Option Ver × Bool × Bool × Option δ × Option Bytes × List (Option Bytes × Rec × Bool) × Bytes × Bytes :=
  (s.canDecrypt, s.chSeen, s.ver, s.srvCC, s.cliCC, s.dec, s.cr, s.traffic.map ofEntry, s.hsBufC, s.hsBufS)

/-- how a translated call ended and the view of the state it left -/
def outView (g : Res (G δ) Unit) : Bool × (Bool × Bool × Option Ver × Bool × Bool × Option δ × Option Bytes × List (Option Bytes × Rec × Bool) × Bytes × Bytes) :=
  match g with
  | .ok _ st => (true, view st)
  | .raised _ st => (false, view st)

theorem view_enc (s : St δ) (x : Extra) : view (enc s x) = viewM s := rfl

/-- `handle_tls_record` as an equation: the translated definition on any state that shows the model state `s` returns / raises as
    `handleRecordRaw` does and leaves a state that shows the model's -/
theorem handle_tls_record_view (O : Ops δ) (hO : ReadsExtsAsDict O) (K : Kinds δ) (s : St δ) (x : Extra) (r : Rec) (srv m : Bool) :
    outView (Gen.Py.Sess.handle_tls_record (decE O K) (updE O K) (gkE O K) r srv m (enc s x)) =
      ((handleRecordRaw O m s r srv).isOk, viewM (handleRecordRaw O m s r srv).st) := by
  have h := handle_tls_record_eq_model O hO K s x r srv m
  cases hm : handleRecordRaw O m s r srv with
  | ok s1 =>
    rw [hm] at h
    obtain ⟨x1, h⟩ := h
    rw [h]; rfl
  | raised s1 =>
    rw [hm] at h
    obtain ⟨x1, e, _, h⟩ := h
    rw [h]; rfl

-- ------------------------------------------------------------------ get_tls_records: the loops that hand the records on
theorem run_records (O : Ops δ) (hO : ReadsExtsAsDict O) (K : Kinds δ) (srv m : Bool) (g0 : G δ) :
    ∀ (recs : List Rec) (s : St δ) (x : Extra),
      Matches (loopS (forS recs (enc s x) (fun py_s record =>
                  tryR (Gen.Py.Sess.handle_tls_record (decE O K) (updE O K) (gkE O K) record srv m py_s)
                    (fun e st' => (.ok (.ret (.raised e st')) : Except Err (Step (G δ) (Res (G δ) Unit)))) (fun _ st' => .ok (.next st'))))
                (fun e => .raised e g0) (fun r => r) (fun py_s => .ok () py_s))
        (runRaw O m s (recs.map fun r => (r, srv))) := by
  intro recs
  induction recs with
  | nil => intro s x; exact ⟨x, rfl⟩
  | cons r rest ih =>
    intro s x
    have h := handle_tls_record_eq_model O hO K s x r srv m
    simp only [forS, List.map_cons, runRaw]
    cases hm : handleRecordRaw O m s r srv with
    | ok s1 =>
      rw [hm] at h
      obtain ⟨x1, h⟩ := h
      simp only [h, tryR_ok]
      exact ih s1 x1
    | raised s1 =>
      rw [hm] at h
      obtain ⟨x1, e, he, h⟩ := h
      simp only [h, tryR_raised, loopS_ret]
      exact ⟨x1, e, he, rfl⟩

/-- `for record in self.server_tls_records: self.handle_tls_record(record, True)` is the model's `runRaw` over those records -/
theorem run_server_records_eq_model (O : Ops δ) (hO : ReadsExtsAsDict O) (K : Kinds δ) (s : St δ) (x : Extra) (recs : List Rec) (m : Bool) :
    Matches (Gen.Py.Sess.run_server_records (decE O K) (updE O K) (gkE O K) m recs (enc s x)) (runRaw O m s (recs.map fun r => (r, true))) := by
  unfold Gen.Py.Sess.run_server_records
  exact run_records O hO K true m _ recs s x

theorem run_client_records_eq_model (O : Ops δ) (hO : ReadsExtsAsDict O) (K : Kinds δ) (s : St δ) (x : Extra) (recs : List Rec) (m : Bool) :
    Matches (Gen.Py.Sess.run_client_records (decE O K) (updE O K) (gkE O K) m recs (enc s x)) (runRaw O m s (recs.map fun r => (r, false))) := by
  unfold Gen.Py.Sess.run_client_records
  exact run_records O hO K false m _ recs s x

-- ------------------------------------------------------------------ TlsRecord.__init__
/-- what `TlsRecord(binary, …)` stores is what the record handlers read through `Rec` (`record.binary` = `Rec.body`,
    `record.record_type` = `Sess.recType`, `record.record_version` = `Rec.ver`, `record.raw`); IndexError on `b""` -/
theorem TlsRecord_init_eq_model (raw : Bytes) (c : List Nat) :
    Gen.Py.TlsRecord_init raw =
      if raw = [] then .error .index
      else .ok { binary_ := Rec.body ⟨raw, c⟩, record_type := Gen.Py.Sess.recType ⟨raw, c⟩, record_version := Rec.ver ⟨raw, c⟩,
                 record_length := Bytes.slice raw 3 5, raw := Rec.raw ⟨raw, c⟩ } := by
  unfold Gen.Py.TlsRecord_init
  cases raw with
  | nil => rfl
  | cons t rest => simp [Rec.body, Rec.ver, Gen.Py.Sess.recType]

-- ------------------------------------------------------------------ the hypotheses can be met; evaluation
/-- an `Ops` for evaluation: the decryptor is a counter -/
def toyOps : Ops Nat where
  decrypt d r srv := if (d + r.raw.length) % 3 = 0 then (d + 1, none) else (d + 1, some (some (r.body ++ (if srv then [0x17, 0] else [0x16]))))
  updateKeys d _ := (d + 10, d % 2 = 0)
  genKeys _ suite _ _ exts _ := if suite = [0x13, 0x01] then .installed (if (extGet exts [0, 0x2b]).isSome then 7 else 8) else .noSuite

def toyKinds : Kinds Nat :=
  { dec := fun _ _ _ => .value, upd := fun _ _ => .value, gk := fun _ _ _ _ => .key,
    dec_ne := by intros; decide, upd_ne := by intros; decide, gk_ne := by intros; decide }

theorem toy_reads_exts_as_dict : ReadsExtsAsDict toyOps := by
  intro v suite cr sr c e e' h
  simp only [toyOps, h]

/-- evaluation: a ClientHello and a TLS 1.3 ServerHello handed on by the client-side loop install the toy decryptor -/
example :
    let sh : Rec := ⟨[0x16, 3, 3, 0, 50, 2, 0, 0, 46, 3, 3] ++ List.replicate 32 7 ++ [0, 0x13, 0x01, 0, 0, 6, 0, 0x2b, 0, 2, 3, 4], [1]⟩
    let ch : Rec := ⟨[0x16, 3, 1, 0, 40, 1, 0, 0, 36, 3, 3] ++ List.replicate 34 9, [0]⟩
    let out := outView (Gen.Py.Sess.run_client_records (decE toyOps toyKinds) (updE toyOps toyKinds) (gkE toyOps toyKinds) false [ch, sh]
                 (enc St.init ⟨none, none, none, none⟩))
    out.1 = true ∧ out.2.1 = true ∧ out.2.2.2.1 = some .tls13 ∧ out.2.2.2.2.2.2.1 = some 7 := by decide

end TLX.Props.Translated.Sess
