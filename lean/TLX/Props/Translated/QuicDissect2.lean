/-
Translated Python functions, group QuicDissect2: tlexport/quic/quic_dissector.py — `byte_xor`, `byte_and`,
`remove_header_protection` and `extract_quic_packet` (long and short headers, header-protection removal, the coalesced
remainder, the `except Exception` that turns every failure into "drop the rest of the datagram").
The definitions are regenerated from the tree under test (`TLX/Gen/Translated/QuicDissect2.lean`); the model is
`TLX/Quic/Dissect.lean`. The two mask primitives of `cryptography` are one external function, a parameter on both sides.
This group rests on the groups Varint and QuicDissect (the functions it calls).
-/
import TLX.Gen.Translated.QuicDissect2
import TLX.Props.Translated.Varint
import TLX.Props.Translated.QuicDissect
import TLX.Quic.Dissect
namespace TLX.Props.Translated
open TLX TLX.PyRt TLX.Quic TLX.Quic.Dissect TLX.Quic.Varint

/-- the header-protection primitive of the model (`none` = it raises) as the external function of the translation -/
def maskE (mask : MaskFn) : Bool → Bytes → Bytes → Except PyRt.Err Bytes :=
  fun c k s => match mask c k s with
    | none => .error .value
    | some m => .ok m

theorem bytesOf_one (x : Nat) (h : x < 256) : bytesOfE [Int.ofNat x] = .ok [UInt8.ofNat x] := by
  have : (0 : Int) ≤ Int.ofNat x ∧ Int.ofNat x < 256 := by simp only [Int.ofNat_eq_natCast]; omega
  simp only [bytesOfE, List.all_cons, List.all_nil, this, and_self, decide_true, Bool.and_self, if_true]
  simp

theorem bytesOf_one' (x : Nat) (h : x < 256) : bytesOfE [(x : Int)] = .ok [UInt8.ofNat x] := bytesOf_one x h

/-- the loop of `byte_xor` / `byte_and` for any byte operation that stays a byte -/
theorem zip_loop (f : Nat → Nat → Nat) (g : UInt8 → UInt8 → UInt8)
    (hf : ∀ x y : UInt8, f x.toNat y.toNat < 256 ∧ UInt8.ofNat (f x.toNat y.toNat) = g x y) (a b acc : Bytes) :
    forE (zipBytes a b) acc (fun (py_s : Bytes) (py_i : Nat × Nat) =>
      tryE (bytesOfE [(Int.ofNat (f py_i.1 py_i.2))]) (fun py_e => .error py_e) (fun py_t_1 => .ok (py_s ++ py_t_1)))
    = .ok (acc ++ List.zipWith g a b) := by
  induction a generalizing b acc with
  | nil => simp [zipBytes, forE]
  | cons x a ih =>
    cases b with
    | nil => simp [zipBytes, forE]
    | cons y b =>
      have h := hf x y
      simp only [zipBytes, List.zipWith_cons_cons, forE, bytesOf_one _ h.1, tryE_ok, h.2]
      have := ih b (acc ++ [g x y])
      simp only [zipBytes] at this
      rw [this]; simp

theorem byte_xor_eq_model (a b : Bytes) : Gen.Py.byte_xor a b = .ok (byteXor a b) := by
  unfold Gen.Py.byte_xor byteXor
  simp only []
  rw [zip_loop (fun x y => x ^^^ y) (· ^^^ ·)]
  · simp
  · intro x y
    have h : x.toNat ^^^ y.toNat = (x ^^^ y).toNat := (UInt8.toNat_xor x y).symm
    rw [h]; exact ⟨(x ^^^ y).toNat_lt, by simp⟩

theorem byte_and_eq_model (a b : Bytes) : Gen.Py.byte_and a b = .ok (byteAnd a b) := by
  unfold Gen.Py.byte_and byteAnd
  simp only []
  rw [zip_loop (fun x y => x &&& y) (· &&& ·)]
  · simp
  · intro x y
    have h : x.toNat &&& y.toNat = (x &&& y).toNat := (UInt8.toNat_and x y).symm
    rw [h]; exact ⟨(x &&& y).toNat_lt, by simp⟩

example : Gen.Py.byte_xor [0xff, 0x0f, 1] [0x0f, 0x0f] = .ok [0xf0, 0] ∧ Gen.Py.byte_and [0xc3] [0x0f, 9] = .ok [3] := by decide

/-- the model's exception kinds as the runtime's (`mask`: the primitive raised, a ValueError) -/
def dErr : DErr → PyRt.Err
  | .index => .index
  | .struct => .struct
  | .key => .key
  | .mask => .value
  | .unbound => .unbound

def ofD {α : Type} : Except DErr α → Except PyRt.Err α
  | .ok a => .ok a
  | .error e => .error (dErr e)

theorem beNat_one (x : UInt8) : Bytes.beNat [x] = x.toNat := by simp [Bytes.beNat]

/-- `remove_header_protection` with the mask primitive as a parameter is the model's `removeHP`, exception kinds
    included; the first byte comes back as a one-byte string -/
theorem remove_header_protection_eq_model (mask : MaskFn) (ht : HType) (sample : Bytes) (fb : UInt8) (key d : Bytes)
    (pnOff : Nat) (cs : Option Bytes) :
    Gen.Py.remove_header_protection (maskE mask) ht sample fb.toNat key d pnOff cs =
      ofD ((removeHP mask (decide (ht = .long)) sample fb key d pnOff (decide (cs = some [0x13, 0x03]))).map
        fun r => ([r.1], r.2.1, r.2.2)) := by
  have hfb := fb.toNat_lt
  unfold Gen.Py.remove_header_protection removeHP
  by_cases hc : cs = some [0x13, 0x03] <;> by_cases hl : ht = .long <;>
    simp only [hc, hl, decide_true, decide_false, Bool.false_eq_true, if_true, if_false, maskE, bind, Except.bind, Dissect.ofOpt] <;>
    (cases hm : mask _ key sample with
     | none => simp [ofD, dErr, Except.map]
     | some m =>
       cases m with
       | nil => simp [ofD, dErr, Except.map, bytesOf_one' _ hfb]
       | cons m0 mr =>
         have hm0 := m0.toNat_lt
         simp only [tryE_ok, bytesOf_one _ hfb, getItem_cons_zero, bytesOf_one _ hm0, UInt8.ofNat_toNat, byte_and_eq_model, byte_xor_eq_model,
           byteAnd, byteXor, List.zipWith_cons_cons, List.zipWith_nil_right, beNat_one, List.getElem?_cons_zero,
           decode_variable_length_int_eq_model]
         have hx := (fb ^^^ (m0 &&& 15)).toNat_lt
         have hy := (fb ^^^ (m0 &&& 31)).toNat_lt
         simp only [bytesOf_one _ hx, bytesOf_one _ hy, tryE_ok, UInt8.ofNat_toNat, byte_and_eq_model, byteAnd, List.zipWith_cons_cons,
           List.zipWith_nil_right, decode_variable_length_int_eq_model]
         cases hv : decodeVarint [(fb ^^^ (m0 &&& 15)) &&& 3] <;> cases hv' : decodeVarint [(fb ^^^ (m0 &&& 31)) &&& 3] <;>
           simp [ofOpt, ofD, dErr, Except.map, byte_xor_eq_model, byteXor, hv, hv', Nat.add_comm])

end TLX.Props.Translated
